#!/usr/bin/env python3
"""Validates MANIFEST.json and evidence/*.json against the schemas in /root/.vp (needs jsonschema: run with python3-vt)."""
import json, glob, sys, os
import jsonschema
ROOT = os.path.dirname(os.path.dirname(os.path.abspath(__file__)))
bad = 0
def check(path, schema):
    global bad
    try:
        jsonschema.validate(json.load(open(path)), json.load(open(schema)))
        print("ok  ", path)
    except Exception as e:
        bad += 1
        print("FAIL", path, str(e).split("\n")[0][:300])
check(os.path.join(ROOT, "MANIFEST.json"), "/root/.vp/MANIFEST.schema.json")
for f in sorted(glob.glob(os.path.join(ROOT, "evidence", "C*.json"))):
    check(f, "/root/.vp/EVIDENCE.schema.json")
sys.exit(1 if bad else 0)
