#!/usr/bin/env python3
"""Regenerates /verif/MANIFEST.json from the table below (edit the table, run this, commit)."""
import json, os, sys
ROOT = os.path.dirname(os.path.dirname(os.path.abspath(__file__)))
props = [json.loads(l) for l in open(os.path.join(ROOT, "properties.jsonl"))]
ids = [p["id"] for p in props]

NOTE = ("Trusted: Lean 4.33.0 kernel (axioms audited per theorem: propext, Classical.choice, Quot.sound only); the hand-written "
        "Lean model is tied to /repo by the differential correspondence run inside this check and by facts regenerated from "
        "source; Go harness (observation printers, generators, pools). ")

# id -> dict(text, note, technique, design_ref) for every property that has a working check
CLAIMED = {
}
PENDING_REASON = "check not built yet in this round (work in progress per DESIGN.md §10); not claimed until its machinery runs"

checks = []
na = []
for i in ids:
    if i in CLAIMED:
        e = CLAIMED[i]
        checks.append({
            "property_id": i,
            "quick_cmd": f"./check {i} quick",
            "thorough_cmd": f"./check {i} thorough",
            "evidence_file": f"/verif/evidence/{i}.json",
            "replay_cmd_template": f"./check {i} --replay {{path}}",
            "engine": "lean-model+go-harness",
            "level_claimed": {"category": "proof", "text": e["text"], "design_ref": e.get("design_ref", "§6 " + i)},
            "level_note": NOTE + e.get("note", ""),
            "technique": e["technique"],
        })
    else:
        na.append({"property_id": i, "reason": PENDING_REASON})

manifest = {
    "version": 1,
    "setup_cmd": "./setup.sh",
    "hooks": {
        "guard": "verif",
        "enable": "go build -tags verif (the harness module replaces github.com/vektah/gqlparser/v2 by /repo)",
        "baseline_off_cmd": "cd /repo && go test -mod=mod -vet=off -count=1 ./...",
        "source_commits": [],
        "add_only": True,
    },
    "engines": [{
        "name": "lean-model+go-harness",
        "path": "/verif/lean (Lean 4 model, specs, theorems, compiled driver) + /verif/harness (Go differential harness, extractor)",
        "serves_properties": sorted(CLAIMED),
        "kind_free_text": "machine-checked proof in Lean 4 about a hand-written model; model tied to the code by a differential correspondence check and regenerated facts",
    }],
    "checks": checks,
    "not_applicable": na,
    "notes": "See DESIGN.md. KNOWN_FINDINGS.txt lists recorded findings (known:) and repaired defects (fixed:).",
}
json.dump(manifest, open(os.path.join(ROOT, "MANIFEST.json"), "w"), indent=1)
print("checks:", len(checks), "not_applicable:", len(na))
