#!/usr/bin/env python3
"""Regenerates /verif/MANIFEST.json from the table below (edit the table, run this, commit)."""
import json, os, sys
ROOT = os.path.dirname(os.path.dirname(os.path.abspath(__file__)))
props = [json.loads(l) for l in open(os.path.join(ROOT, "properties.jsonl"))]
ids = [p["id"] for p in props]

NOTE = ("Trusted: Lean 4.33.0 kernel (axioms audited per theorem: propext, Classical.choice, Quot.sound only); the hand-written "
        "Lean model is tied to /repo by the differential correspondence run inside this check and by facts regenerated from "
        "source; Go harness (observation printers, generators, pools). ")

# id -> dict(text, note, technique, design_ref) for every property that has a working check
CLAIMED = {
 "C01": dict(technique="Lean 4 proof on a hand-written model + differential correspondence + direct oracle",
   text="Theorems (kernel-checked, axioms ⊆ {propext, Classical.choice, Quot.sound}): the lexer model's pull loop never runs out of fuel on any byte string (every non-EOF token consumes input: C01_lex_progress, C01_lexAll_fuel), token count ≤ length+1 (C01_lexAll_len); the parser model never runs out of fuel for any input, limit or number of sources, i.e. recursion depth and every loop are bounded by input length + 2 (C01_parse_fuel_query/_schema/_schemas, *_state), results are ok|error only (C01_parse_result_shape_*). The model is tied to lexer.ReadToken / parser.Parse* on every run by exhaustive enumeration (every string of ≤4 (quick) / ≤5 (thorough) symbols over 19 lexical symbols and over 16 raw bytes, block-string bodies, every sequence of ≤4/≤5 tokens over the grammar alphabets of both parsers × limits), the repository's test inputs, mutations and random bytes; the same runs apply the property's own oracle to the real code: no panic/crash/timeout, every syntax error names a line/column inside the input, non-empty message. Not a theorem (measured): fatal stack exhaustion and wall-clock — nesting families up to 64 KiB unlimited and 4 Mi repetitions under limits run in worker processes with deadlines; parse time must stay within a quadratic envelope."),
 "C02": dict(technique="Lean 4 proof on a hand-written model + differential correspondence + crash/timeout search",
   text="Theorems: the walker model terminates and emits at most docEvents·(#ops+#frags+1) events (C02_walk_terminates, C02_walk_events_bound); validate never runs out of fuel (C02_validate_fuel_suffices); 27 of the 30 modelled rule values never panic on any schema/document, KnownRootType never panics on parser-produced operation kinds (C02_validate_no_panic_partial, _parsed_partial); the former crash witnesses of ValuesOfCorrectType return normally since the repair (C02_validate_R2a_returns …). Tie: every run compares the real validator with the model (error lists, link dumps, observer call order) on the imported graphql-js cases, 60 000+ mutations and random rule subsets. Search on the real default rule set (incl. OverlappingFieldsCanBeMerged, not yet in the model on this branch): generated valid / faulty / blind documents over generated schemas and adversarial size families, each in a worker process with a deadline: no crash, no timeout, no multi-second validation. Partial: polynomial time is measured, not proved; the loader half of the property is covered by C07's check."),
 "C03": dict(technique="Lean 4 proof (model vs grammar specification) + exhaustive three-way enumeration",
   text="A specification of the October 2021 lexical grammar over code points (GqlModel/Lexer/Spec.lean, independent of the model) is compared on every run with the real lexer AND the model: every string of ≤4/≤5 symbols over 19 lexically significant symbols, every block-string body of ≤6/≤7 symbols over two 6-symbol alphabets, raw bytes, corpus, mutations, random inputs (kinds, extents in characters, semantic values, failure exactly where the grammar admits no token). Theorems: blockStringValue = BlockStringValue() of the spec on every raw value the lexer passes (C03_blockstring_eq_spec), punctuator table = spec (C03_punctuators_eq_spec), number look-ahead restriction (C03_number_lookahead, C03_lookahead_is_spec), maximal munch for names (C03_name_maximal, C03_name_class_is_spec), ignored runs (C03_ignored_only_ws). The full model≈spec equivalence for strings/comments/non-ASCII is exploration-backed only. One recorded known finding (block string closed by the last three quotes of a longer run)."),
 "C04": dict(technique="Lean 4 proof (position invariant) + exhaustive three-way enumeration",
   text="Theorem C04_token_pos_ascii_partial: for every ASCII source every token of lexAll carries start ≤ stop ≤ length, line = 1 + number of line terminators (LF, CR, CRLF once) before its start and column = distance from the line start + 1 as defined by the position specification (Spec.posAt) — String tokens column+1, the recorded known finding; invariant proved through ws, every scanner and the block-string loop. Sources with multi-byte characters, and tree/error positions (copied from tokens by the parser model, which is tied by C01's correspondence), are covered by the three-way enumeration (lex19 contains a 2-byte character and the BOM) and random sweeps on every run."),
 "C05": dict(technique="Lean 4 proof (grammar as data, recogniser soundness, unparser in grammar) + exhaustive token enumeration",
   text="The October 2021 executable grammar is written as data (EBNF table `gql`, start symbol executableDocument, incl. the library's fragment variable definitions) with an inductive derivation relation; theorems: the generic recogniser is sound (a verdict 1 is a derivation: C05_recognise_sound, C05_canonical_sound), the unparser of trees produces derivable, canonical token sequences for every well-formed tree (C05_print_in_grammar, C05_print_canonical), and the grammar derives none of the rejection classes named in the property (C05_reject_classes_*: empty document, empty (), {} lists, variable in a const context, fragment named on, a string token as keyword). On every run the REAL parser's verdict is compared with the grammar and, for accepted inputs, unparse(tree Go built) must equal the input's canonical comment-free token sequence (faithful tree, source order, independence of ignored tokens via random re-renderings): exhaustively over every sequence of ≤5/≤4 (quick) or ≤6/≤5 (thorough) tokens over three 16-class alphabets, corpus, generated documents, token mutations; the parser model correspondence runs in the same check. Not proved: parser model ⇔ grammar (C05_parse_sound/complete) and recogniser completeness under its fuel. Known finding: the empty document is accepted."),
 "C06": dict(technique="Lean 4 proof (grammar as data, recogniser soundness, unparser in grammar) + exhaustive token enumeration",
   text="As C05 for the type-system grammar (start symbol typeSystemDocument: definitions, the seven extension forms with their 'extends something' side conditions, descriptions, repeatable, the 19 locations, const directives/defaults): C06_recognise_sound, C06_canonical_sound, C06_print_in_grammar, C06_print_canonical, C06_reject_classes_* (empty document, any variable, empty lists, extension of nothing, enum value true/false/null, operation type), and about the parser model C06_builtin_flag (every definition carries its source's BuiltIn flag) and C06_merge_is_concat (ParseSchemas = per-list concatenation in source order). Real parser vs grammar + unparse equation on every sequence of ≤4/≤5 tokens over seven alphabets, corpus, generated SDL, mutations. Known findings: empty document accepted; enum values true/false/null rejected only by the loader."),
 "C10": dict(technique="Lean 4 proof (order-irrelevance) + differential correspondence + cross-process replay",
   text="Theorems: suggestionList is invariant under permutation of its options once they are sorted, and under any permutation when there are no ties (C10_suggestions_stable, _perm_no_ties), the comparator is a total order, the model's validate depends on the schema's maps only through sorted views (C10_view_order_irrelevant) and hence returns the same result for any ordering of the types/directives/possibleTypes lists (C10_validate_deterministic); kernel-checked witness that unsorted options ARE order dependent. Tie: validator vs model incl. 'Did you mean' text (no ties tolerated since the repair). Direct: each pair validated twice on fresh parses, the same document object re-validated, and all requests replayed through 3 (quick) / 16 (thorough) independent fresh process pools with byte-for-byte comparison. One recorded known finding (re-validation of a document whose fragment spreads itself)."),
 "C12": dict(technique="Lean 4 proof (quoting/lexer round trip, writer state) + differential correspondence + direct round trip",
   text="Theorems: the GraphQL quoting used by Value.String is read back byte for byte by the lexer model for every sequence of Unicode scalars, at readStringLoop and at readToken level (C12_quote_roundtrip_gql, C12_quote_is_string_token), with kernel-checked counterexamples for strconv-style quoting and for ill-formed UTF-8; writer-state lemmas: two words are always separated, a word is glued to previous output only when padding is off mid-line (C12_words_separated, C12_write_boundary). Tie: formatter model = real formatter on 12 configurations per document (corpus + generated documents). Direct: parse(format(d)) ≃ d and format is a fixpoint, on the real library, all configurations. Not proved: the whole-document round trip theorem (needs the grammar completeness theorem of C05)."),
 "C13": dict(technique="Lean 4 proof (description rendering) + differential correspondence + direct round trip",
   text="Theorems: exact text written by WriteDescription for representable and non-representable descriptions (C13_description_text, _text_quoted), BlockStringValue of the rendered body is the description for the representable class under any blank indentation (C13_description_roundtrip), the lexer model reads it back as one BlockString token (C13_description_lexes), kernel-checked counterexamples outside the class. Tie: formatter model = real formatter for schema documents and loaded schemas on 40 configurations. Direct: document and loaded-schema round trips and fixpoint on the real library. Known findings recorded (schema description not printed, comma after described argument with WithoutDescription, WithBuiltin output not reloadable)."),
 "C16": dict(technique="Lean 4 proof (generic over parser programs) + differential correspondence + direct limit sweep",
   text="Theorems about the interpreter of parser programs, for both grammars: the sticky error freezes the state (C16_error_sticky), limit 0 is unlimited (C16_zero_unlimited_*), success under L gives the identical tree under 0 and under any L' ≥ L (C16_same_tree_*, C16_monotone_*), tokens pulled ≤ L+1 when the limit is exceeded (C16_pulls_bounded_*, C16_pulls_accounting_query), success under L iff success unlimited with token count ≤ L (C16_limit_exact_*_partial: the count is the parser's own counter; its identity with the lexer's token count is exploration-backed). Direct on the real parser: every document × every limit 0..n+2 (corpus, mutations, exhaustive short token sequences), and hostile multi-megabyte inputs under limits 1/16/1024 whose running time must not grow with the input."),
 "C18": dict(technique="Lean 4 proof (composition of rule state machines) + differential correspondence + direct union law",
   text="Theorems: for rule lists with distinct names, filtering the errors of a list by a rule's name gives exactly that rule's errors alone (C18_union), errors are tagged (C18_errors_tagged), a permuted list gives a permutation (C18_perm), the four …WithoutSuggestions rules give the same errors with the suggestion suffix removed (C18_nosuggest_*), default names are distinct. Tie: validator vs model on random subsets and orders of the rules. Direct on the real validator, per pair: default = explicit list of all 27 specified rules; every rule alone = its share of the full run (OverlappingFieldsCanBeMerged included); twins compared message by message."),
}
PENDING_REASON = "check not built yet in this round (work in progress per DESIGN.md §10); not claimed until its machinery runs"

checks = []
na = []
for i in ids:
    if i in CLAIMED:
        e = CLAIMED[i]
        checks.append({
            "property_id": i,
            "quick_cmd": f"./check {i} quick",
            "thorough_cmd": f"./check {i} thorough",
            "evidence_file": f"/verif/evidence/{i}.json",
            "replay_cmd_template": f"./check {i} --replay {{path}}",
            "engine": "lean-model+go-harness",
            "level_claimed": {"category": "proof", "text": e["text"], "design_ref": e.get("design_ref", "§6 " + i)},
            "level_note": NOTE + e.get("note", ""),
            "technique": e["technique"],
        })
    else:
        na.append({"property_id": i, "reason": PENDING_REASON})

manifest = {
    "version": 1,
    "setup_cmd": "./setup.sh",
    "hooks": {
        "guard": "verif",
        "enable": "go build -tags verif (the harness module replaces github.com/vektah/gqlparser/v2 by /repo)",
        "baseline_off_cmd": "cd /repo && go test -mod=mod -vet=off -count=1 ./...",
        "source_commits": ["d555f3f verif hooks: export blockStringValue, lexicalDistance, calcThreshold under build tag verif"],
        "add_only": True,
    },
    "engines": [{
        "name": "lean-model+go-harness",
        "path": "/verif/lean (Lean 4 model, specs, theorems, compiled driver) + /verif/harness (Go differential harness, extractor)",
        "serves_properties": sorted(CLAIMED),
        "kind_free_text": "machine-checked proof in Lean 4 about a hand-written model; model tied to the code by a differential correspondence check and regenerated facts",
    }],
    "checks": checks,
    "not_applicable": na,
    "notes": "See DESIGN.md. KNOWN_FINDINGS.txt lists recorded findings (known:) and repaired defects (fixed:).",
}
json.dump(manifest, open(os.path.join(ROOT, "MANIFEST.json"), "w"), indent=1)
print("checks:", len(checks), "not_applicable:", len(na))
