#!/usr/bin/env bash
# tools/seedrun.sh <seeded id> [check id] [tier]: apply a seeded change to /repo, run one check, undo the change.
set -u
cd "$(dirname "$0")/.."
id="$1"; prop="${2:-${id%%-*}}"; tier="${3:-quick}"
git -C /repo diff --quiet || { echo "/repo has uncommitted changes"; exit 2; }
git -C /repo apply "$PWD/seeded/$id/patch.diff" || exit 2
trap 'git -C /repo checkout -- . ; git -C /repo clean -fdq' EXIT
./check "$prop" "$tier" 2>&1 | grep -v '^info:\|✔\|ℹ' | tail -${TAIL:-12}
echo "exit=${PIPESTATUS[0]}"
