#!/usr/bin/env python3
"""Evaluate one seeded change against the checks.

  tools/seedtest.py <dir with patch.diff, demo, meta.json> <name under /verif/seeded> <check ids …>

1. confirms the change in a scratch worktree of /repo (applies, builds, whole suite passes, the
   demonstration fails with it and passes without it);
2. applies it to /repo, runs `./check <id> quick` for every listed check, reverts /repo;
3. stores patch.diff, the demonstration and an extended meta.json under /verif/seeded/<name>/.
Nothing is ever committed to /repo.
"""
import json, os, shutil, subprocess, sys, time

ENV = dict(os.environ, GOFLAGS="-mod=mod", GOPROXY="off", GOSUMDB="off", GOTOOLCHAIN="local")


def sh(cmd, cwd=None, timeout=3600):
    p = subprocess.run(cmd, shell=True, cwd=cwd, env=ENV, capture_output=True, text=True, errors="replace", timeout=timeout)
    return p.returncode, (p.stdout + p.stderr)


def run_demo(src, wt):
    """returns (exit code, output tail) of the demonstration against worktree wt"""
    if os.path.exists(os.path.join(src, "demo_test.go")):
        meta = json.load(open(os.path.join(src, "meta.json")))
        rel = None
        for key in ("demo_path", "demo_test_path", "intended_path", "demo"):
            v = meta.get(key)
            if isinstance(v, str):
                for tok in v.replace(",", " ").split():
                    if tok.endswith("_test.go") or tok.endswith("/"):
                        import re
                        rel = re.sub(r"^(/var/tmp/seed\d?-C\d+/|<worktree>/|<repo|root>/)", "", tok)
                        if rel.startswith("/") or rel == "demo_test.go":
                            rel = None
        pkg = None
        # find the package clause to place the file
        first = open(os.path.join(src, "demo_test.go")).read().split("\n")
        pk = [l.split()[1] for l in first if l.startswith("package ")][0]
        cands = {"lexer": "lexer", "lexer_test": "lexer", "parser": "parser", "parser_test": "parser", "ast": "ast", "ast_test": "ast",
                 "validator": "validator", "validator_test": "validator", "rules": "validator/rules", "rules_test": "validator/rules",
                 "formatter": "formatter", "formatter_test": "formatter", "gqlerror": "gqlerror", "gqlerror_test": "gqlerror",
                 "gqlparser": ".", "gqlparser_test": "."}
        pkg = cands.get(pk, ".")
        if rel and not rel.endswith("/") and os.path.dirname(rel):
            pkg = os.path.dirname(rel)
        dst = os.path.join(wt, pkg, "zz_seed_demo_test.go")
        shutil.copy(os.path.join(src, "demo_test.go"), dst)
        rc, out = sh("go test -vet=off -count=1 -run . ./%s 2>&1 | tail -25" % pkg, cwd=wt)
        rc2, out2 = sh("go test -vet=off -count=1 ./%s" % pkg, cwd=wt)
        os.remove(dst)
        return rc2, out2[-1500:]
    demo = os.path.join(src, "demo")
    if os.path.isdir(demo):
        tmp = wt + "-demo"
        shutil.rmtree(tmp, ignore_errors=True)
        shutil.copytree(demo, tmp)
        gm = os.path.join(tmp, "go.mod")
        if os.path.exists(gm):
            lines = [l for l in open(gm).read().split("\n") if not l.strip().startswith("replace")]
            lines.append("replace github.com/vektah/gqlparser/v2 => " + wt)
            open(gm, "w").write("\n".join(lines) + "\n")
        shutil.copy(os.path.join(wt, "go.sum"), os.path.join(tmp, "go.sum"))
        rc, out = sh("go run . 2>&1 | tail -30", cwd=tmp)
        rc2, _ = sh("go run . >/dev/null 2>&1", cwd=tmp)
        shutil.rmtree(tmp, ignore_errors=True)
        return rc2, out[-1500:]
    return None, "no demonstration found"


def main():
    src, name, checks = sys.argv[1], sys.argv[2], sys.argv[3:]
    patch = os.path.join(src, "patch.diff")
    meta = json.load(open(os.path.join(src, "meta.json"))) if os.path.exists(os.path.join(src, "meta.json")) else {}
    wt = "/var/tmp/sv-" + name
    sh("git -C /repo worktree remove --force %s" % wt)
    shutil.rmtree(wt, ignore_errors=True)
    rc, out = sh("git -C /repo worktree add -q --detach %s HEAD" % wt)
    res = {"confirmed": False}
    try:
        d0, o0 = run_demo(src, wt)
        rc, out = sh("git apply %s" % patch, cwd=wt)
        if rc != 0:
            rc, out = sh("git apply --3way %s" % patch, cwd=wt)
        res["applies"] = rc == 0
        if rc == 0:
            rcb, outb = sh("go build ./... && go test -vet=off -count=1 ./... 2>&1 | tail -15", cwd=wt)
            rct, _ = sh("go build ./... && go test -vet=off -count=1 ./...", cwd=wt)
            res["suite_passes_with_change"] = rct == 0
            res["suite_output"] = outb[-600:]
            d1, o1 = run_demo(src, wt)
            res["demo_without_change_exit"] = d0
            res["demo_with_change_exit"] = d1
            res["demo_with_change_output"] = o1[-800:]
            res["confirmed"] = bool(rct == 0 and d0 == 0 and d1 not in (0, None))
    finally:
        sh("git -C /repo worktree remove --force %s" % wt)
        shutil.rmtree(wt, ignore_errors=True)
    results = {}
    if res.get("applies"):
        rc, out = sh("git -C /repo status --porcelain")
        if out.strip():
            print("refusing: /repo is not clean:\n" + out)
            sys.exit(2)
        rc, out = sh("git -C /repo apply %s || git -C /repo apply --3way %s" % (patch, patch))
        try:
            for c in checks:
                t0 = time.time()
                rc, out = sh("./check %s quick" % c, cwd="/verif", timeout=7200)
                viol = [l for l in out.split("\n") if l.startswith("VIOLATION") or l.startswith("  ")][:6]
                results[c] = {"exit": rc, "caught": rc == 1 and any(l.startswith("VIOLATION") for l in out.split("\n")), "wall_s": round(time.time() - t0),
                              "lines": [l[:400] for l in viol]}
                print(c, "exit", rc, "caught" if results[c]["caught"] else "MISSED", round(time.time() - t0), "s")
                for l in viol[:4]:
                    print("   ", l[:300])
        finally:
            sh("git -C /repo reset -q --hard HEAD && git -C /repo clean -fdq")
    dst = os.path.join("/verif/seeded", name)
    os.makedirs(dst, exist_ok=True)
    shutil.copy(patch, os.path.join(dst, "patch.diff"))
    for f in ("demo_test.go",):
        if os.path.exists(os.path.join(src, f)):
            shutil.copy(os.path.join(src, f), os.path.join(dst, f + ".txt"))  # .txt: not compiled by anything under /verif
    if os.path.isdir(os.path.join(src, "demo")):
        shutil.rmtree(os.path.join(dst, "demo"), ignore_errors=True)
        shutil.copytree(os.path.join(src, "demo"), os.path.join(dst, "demo"))
        for root, _, files in os.walk(os.path.join(dst, "demo")):
            for fn in files:
                if fn.endswith(".go") or fn in ("go.mod", "go.sum"):
                    os.rename(os.path.join(root, fn), os.path.join(root, fn + ".txt"))
    meta.update({"verified_by_lead": res, "checks_run": results,
                 "repo_head": sh("git -C /repo rev-parse --short HEAD")[1].strip(),
                 "verif_head": sh("git -C /verif rev-parse --short HEAD")[1].strip()})
    json.dump(meta, open(os.path.join(dst, "meta.json"), "w"), indent=1)
    print("confirmed:", res.get("confirmed"), "| caught by:", [c for c in results if results[c]["caught"]] or "none")


if __name__ == "__main__":
    main()
