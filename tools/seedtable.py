#!/usr/bin/env python3
"""Prints the markdown table of seeded changes (DESIGN.md A7) from seeded/*/meta.json."""
import json, os, glob
ROOT = os.path.dirname(os.path.dirname(os.path.abspath(__file__)))
FIRST_MISSED = {  # what the first evaluation missed, and what was strengthened
 "C01-2": "check hung (lexer ran in-process) → lexer sweep runs in worker processes with deadlines",
 "C04-2": "C04 judged lexer tokens only → tree/error positions judged against the position specification, faulty members in cross-file extensions",
 "C04-3": "same (C01 caught it through the model correspondence)",
 "C16-2": "no input with bytes = tokens → dense one-byte-token documents under every limit",
 "C16-3": "BuiltIn sources never parsed under a limit → op psb (both sides)",
 "C07-3": "every load ran in isolation → load histories through gqlparser.LoadSchema",
 "C17-1": "difference attributed to the recorded redeclared-prelude-directive finding → attribution only for prelude directives",
 "C17-2": "order-dependent parse errors were skipped → they count",
 "C17-3": "as C07-3",
 "C20-1": "path names were alphabetic → numeric-looking names",
 "C20-3": "rule registry API never exercised → ReplaceRule/AddRule/RemoveRule scenarios in a pool of their own",
 "C02-1": "fan-out families stopped at 16 levels → 48 (quick) / 128 (thorough)",
 "C02-3": "C02 had no loader sweep (C07 caught it) → loader crash sweep incl. multi-fault schemas and the loader corpus",
 "C10-2": "no history dependence check → histories forwards/backwards in fresh processes, candidate lists with shared concatenations",
 "C10-3": "difference attributed to the recorded re-validation finding → signature tells self-reaching fragments apart",
 "C15-1": "each site evaluated once → repeated calls with other variables compared with a fresh document object",
}
FIRST_MISSED.update({
 "C01-b3": "the harness itself died: it counts tokens with the library in its own process → a library panic inside the harness is reported as a violation (and the worker-side lexer sweep reports it too)",
 "C02-b2": "fan-out families were acyclic → fan-out closed into a cycle below __schema / __type",
 "C04-b3": "positions were only judged through ParseSchemas → also through ParseSchemasWithLimit",
 "C07-b3": "no user source was ever marked BuiltIn → load histories with BuiltIn user sources",
 "C08-b1": "field-merging patterns too rare in the typed generators → the mutation stage of the merging-rule correspondence runs inside C08 and every mutant is judged against the specification",
 "C09-b3": "each request used a freshly loaded schema → history probe against one shared schema object, forwards and backwards",
 "C10-b1": "no candidates differing only in case → case-variant histories",
 "C10-b3": "no schema extending prelude types in a history → prelude-extension histories",
 "C16-b2": "comment groups are not in the wire format and every parse ran alone → limited parse after an earlier limited parse compared with the unlimited parse by reflect.DeepEqual (positions and comments)",
 "C18-b2": "no document with more than 100 errors → documents with 40–400 errors from several rules",
 "C20-b2": "a nil *gqlerror.Error inside an error crashed the observation printer; no top-level json.Number variables → both handled",
})
FIRST_MISSED.update({
 "C01-c1": "no input ended inside a second \\u escape → every prefix of look-ahead-heavy literals, bare and inside documents",
 "C02-c2": "no directive carried directives on its arguments → chains, cycles and lassos of directive definitions in several name orders",
 "C02-c3": "strings with U+2028 etc. never stood at ill-typed positions → odd strings (escaped and raw) at every ill-typed and well-typed position",
 "C03-c1": "the escape digits came from hex digits only → every \\uXXXX over hex, near-hex and control bytes",
 "C04-c3": "only the first location of a load error was judged → every location must be a token start of the file the error names",
 "C06-c1": "BuiltIn marks through ParseSchemasWithLimit were checked by C16 only → the same sweep runs in C06",
 "C07-c2": "MustLoadSchema was never called → every other load of a history goes through it; sources that redeclare prelude directives",
 "C08-c2": "out-of-range float literals were positive only → both signs, several spellings, boundaries",
 "C09-c1": "links were dumped after a rule-free walk → the links left after the rules must equal the walker's",
 "C13-c1": "no non-object type carried a default root name next to an explicit schema definition → added",
 "C16-c2": "limit 0 was only tried on small documents → a 20 000-token document on every entry point",
 "C16-c3": "one source never went through ParseSchemasWithLimit → compared with ParseSchemaWithLimit under limits around the token count",
})
FIRST_MISSED.update({
 "C02-d1": "the same two cyclic fragments were never compared first as mutually exclusive and then side by side → families fragment-pair-exclusive-then-shared (both orders, nested)",
 "C02-d2": "fan-out families never stood below a subscription root (the adversarial schema had no Subscription type) → subscription-fanout, acyclic and cyclic",
 "C03-d1": "the escape alphabet had no sign, separator or radix characters → '+', '-', '_', 'x' added (18 symbols, all 4-symbol escapes)",
 "C03-d2": "no token had a line of 64 KiB → literals with one line of 4 KiB / 64 KiB ± 1 / 100 KB–1 MB in block strings, strings, comments",
 "C08-d2": "the oneOf variable fault declared a nullable variable WITHOUT default only → variant with a non-null default",
 "C12-d1": "generated texts the real parser refuses were skipped as out of domain → when the parser MODEL reads the text, its tree goes to the real formatter through the JSON codec (no parser) and must round-trip; variables in directives at every position added to the deterministic documents",
 "C15-d1": "the argument maps were computed from whatever VariableValues returned → the same (operation, variables) go through the coercion correspondence and the conformance judgement inside C15; single-value defaults of list-typed variables added",
 "C15-d2": "custom-scalar literals were at most 3 levels deep → nesting 31–34, 65, 300, 1100 (lists, objects, mixed)",
 "C16-d2": "BuiltIn sources only met limits ≥ their token count → limits below it: no document may come back",
 "C19-d1": "no name of a document spelled a member name of the encoding → every member name (Alias, TypeCondition, Name, …) in every name and string position; 1 in 8 random names",
})
FIRST_MISSED.update({
 "C14-e1": "every variables map was built from fresh objects → Go-only probes with ONE map object at two positions of different input types (variables, list items, fields of one object, below a recursive type): refused when the maps are distinct ⇒ refused when shared",
})
NOTE = {"C02-2": "obsolete: the guarded code (in-progress set) was replaced by the fields-and-fragment memo before it could be evaluated",
        "C09-1": "rebased by hand onto the repaired walker", "C10-3": "rebased by hand onto the polynomial rule", "C11-3": "import hunk rebased by hand"}
print("| change | file | what it breaks | caught by | first evaluation |")
print("|---|---|---|---|---|")
for d in sorted(glob.glob(os.path.join(ROOT, "seeded", "C*-*")), key=lambda x: (os.path.basename(x)[:3], os.path.basename(x)[4] if os.path.basename(x)[4] in "bcdef" else "a", x)):
    name = os.path.basename(d)
    m = json.load(open(os.path.join(d, "meta.json")))
    caught = [c for c, r in m.get("checks_run", {}).items() if r.get("caught")]
    files = m.get("files_changed", [])
    if not isinstance(files, list):
        files = [str(files)]
    summ = (m.get("summary") or "").replace("\n", " ").replace("|", "/")
    if len(summ) > 170:
        summ = summ[:167] + "…"
    first = FIRST_MISSED.get(name, "caught")
    if name in NOTE:
        first += " (" + NOTE[name] + ")" if first != "caught" else ""
        if first == "caught":
            first = "caught (" + NOTE[name] + ")"
    if name == "C02-2":
        first = NOTE[name]
    print("| %s | %s | %s | %s | %s |" % (name, ", ".join(os.path.basename(f) for f in files), summ, ", ".join(caught) or "—", first))
