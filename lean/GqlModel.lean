import GqlModel.Basic.Bytes
import GqlModel.Basic.Utf8
import GqlModel.Lexer.BlockString
import GqlModel.Lexer.Model
import GqlModel.Ops.Lex
