import GqlProofs.Grammar.PrintQuery
/-
  `printSchema` of a well-formed tree is a sentence of the type-system document grammar.
-/
namespace Gql.Grammar
open Gql Gql.Lexer Gql.Print

theorem L_optDesc (d : Bytes) : L (.opt (.nt .description)) (printDesc d) := by
  unfold printDesc
  split
  · exact L.optNone
  · rename_i hd
    exact L.optSome (L.nt (L.canon (L.tok (by simp)) (by simp [canonDescription, hd])))

theorem L_argDef (a : ArgDef) (h : WFArgDef a) : L (.nt .inputValueDefinition) (printArgDef a) := by
  have := L.nt (n := .inputValueDefinition) (L.seq (L_optDesc a.desc) (L.nameCons a.name (L.kindCons .colon
    (L.seq (L_type a.type) (L.seq (L_optDefault a.default h.1) (L_optDirectives true a.dirs fun _ => h.2))))))
  simpa [printArgDef, List.append_assoc] using this

theorem L_optArgDefs (as : List ArgDef) (h : ∀ a ∈ as, WFArgDef a) :
    L (.opt (.nt .argumentsDefinition)) (printArgDefs as) := by
  unfold printArgDefs
  cases as with
  | nil => simpa using L.optNone
  | cons a rest =>
    simp only [List.isEmpty_cons, Bool.false_eq_true, if_false]
    exact L.optSome (L.nt (L.kindCons .parenL (L.seq
      (L.plus_flatMap _ (by simp) fun x hx => L_argDef x (h x hx)) (L.kind .parenR))))

theorem L_fieldDef (f : FieldDef) (h : WFFieldDef f) : L (.nt .fieldDefinition) (printFieldDef f) := by
  have := L.nt (n := .fieldDefinition) (L.seq (L_optDesc f.desc) (L.nameCons f.name (L.seq (L_optArgDefs f.args h.1)
    (L.kindCons .colon (L.seq (L_type f.type) (L_optDirectives true f.dirs fun _ => h.2))))))
  simpa [printFieldDef, List.append_assoc] using this

theorem L_inputField (f : FieldDef) (h : WFInputField f) : L (.nt .inputValueDefinition) (printInputField f) := by
  have := L.nt (n := .inputValueDefinition) (L.seq (L_optDesc f.desc) (L.nameCons f.name (L.kindCons .colon
    (L.seq (L_type f.type) (L.seq (L_optDefault f.default h.1) (L_optDirectives true f.dirs fun _ => h.2))))))
  simpa [printInputField, List.append_assoc] using this

theorem L_enumVal (e : EnumValDef) (h : WFEnumVal e) : L (.nt .enumValueDefinition) (printEnumVal e) := by
  obtain ⟨⟨h1, h2, h3⟩, hd⟩ := h
  have hv : L (.nt .enumValue) [tName e.name] := L.nt (L.tok (by simp [tName, h1, h2, h3]))
  have := L.nt (n := .enumValueDefinition) (L.seq (L_optDesc e.desc) (L.cons hv (L_optDirectives true e.dirs fun _ => hd)))
  simpa [printEnumVal, List.append_assoc] using this

/-- `{ item+ }` for a non-empty list -/
theorem L_braces {α : Type} (item : NT) (f : α → List Tok) (xs : List α) (hne : xs ≠ [])
    (h : ∀ x ∈ xs, L (.nt item) (f x)) :
    L (.seq (Grammar.kind .braceL) (.seq (.plus (.nt item)) (Grammar.kind .braceR))) (printBlock f xs) := by
  unfold printBlock
  cases xs with
  | nil => exact absurd rfl hne
  | cons x rest =>
    simp only [List.isEmpty_cons, Bool.false_eq_true, if_false]
    exact L.kindCons .braceL (L.seq (L.plus_flatMap _ (by simp) h) (L.kind .braceR))

theorem printBlock_nil {α : Type} (f : α → List Tok) : printBlock f [] = [] := by simp [printBlock]

theorem L_fields (fs : List FieldDef) (hne : fs ≠ []) (h : ∀ f ∈ fs, WFFieldDef f) :
    L (.nt .fieldsDefinition) (printBlock printFieldDef fs) :=
  L.nt (L_braces .fieldDefinition _ fs hne fun f hf => L_fieldDef f (h f hf))

theorem L_inputFields (fs : List FieldDef) (hne : fs ≠ []) (h : ∀ f ∈ fs, WFInputField f) :
    L (.nt .inputFieldsDefinition) (printBlock printInputField fs) :=
  L.nt (L_braces .inputValueDefinition _ fs hne fun f hf => L_inputField f (h f hf))

theorem L_enumValues (es : List EnumValDef) (hne : es ≠ []) (h : ∀ e ∈ es, WFEnumVal e) :
    L (.nt .enumValuesDefinition) (printBlock printEnumVal es) :=
  L.nt (L_braces .enumValueDefinition _ es hne fun e he => L_enumVal e (h e he))

theorem printSep_cons (sep : Kind) : ∀ (rest : List Name) (n : Name),
    printSep sep (n :: rest) = tName n :: rest.flatMap (fun m => [tP sep, tName m])
  | [], n => by simp [printSep]
  | m :: r, n => by simp [printSep, printSep_cons sep r m]

/-- `x (sep x)*` -/
theorem L_sep (a : Sym NT) (sep : Kind) (n : Name) (rest : List Name) (h : ∀ m ∈ n :: rest, L a [tName m]) :
    L (.seq a (.star (.seq (Grammar.kind sep) a))) (printSep sep (n :: rest)) := by
  rw [printSep_cons]
  exact L.cons (h n (by simp)) (L.star_flatMap rest fun m hm => L.kindCons sep (h m (by simp [hm])))

theorem L_optImplements (ifs : List Name) : L (.opt (.nt .implementsInterfaces)) (printImplements ifs) := by
  unfold printImplements
  cases ifs with
  | nil => simpa using L.optNone
  | cons n rest =>
    simp only [List.isEmpty_cons, Bool.false_eq_true, if_false]
    exact L.optSome (L.nt (L.kwCons "implements" (L.skipNoise
      (L_sep (.nt .namedType) .amp n rest fun m _ => L.namedType m))))

theorem L_implements (ifs : List Name) (hne : ifs ≠ []) : L (.nt .implementsInterfaces) (printImplements ifs) := by
  unfold printImplements
  cases ifs with
  | nil => exact absurd rfl hne
  | cons n rest =>
    simp only [List.isEmpty_cons, Bool.false_eq_true, if_false]
    exact L.nt (L.kwCons "implements" (L.skipNoise
      (L_sep (.nt .namedType) .amp n rest fun m _ => L.namedType m)))

theorem L_members (ts : List Name) (hne : ts ≠ []) : L (.nt .unionMemberTypes) (printMembers ts) := by
  unfold printMembers
  cases ts with
  | nil => exact absurd rfl hne
  | cons n rest =>
    simp only [List.isEmpty_cons, Bool.false_eq_true, if_false]
    exact L.nt (L.kindCons .equals (L.skipNoise
      (L_sep (.nt .namedType) .pipe n rest fun m _ => L.namedType m)))

theorem L_optMembers (ts : List Name) : L (.opt (.nt .unionMemberTypes)) (printMembers ts) := by
  cases ts with
  | nil => simpa [printMembers] using L.optNone
  | cons n rest => exact L.optSome (L_members _ (by simp))

theorem L_locations (ls : List Bytes) (hne : ls ≠ []) (h : ∀ l ∈ ls, l ∈ directiveLocationNames) :
    L (.nt .directiveLocations) (printSep .pipe ls) := by
  cases ls with
  | nil => exact absurd rfl hne
  | cons n rest =>
    exact L.nt (L.skipNoise (L_sep (.nt .directiveLocation) .pipe n rest fun m hm =>
      L.nt (L.tok (by
        have := h m hm
        simp only [tName, beq_self_eq_true, Bool.true_and]
        exact List.contains_iff_mem.mpr this))))

/-! ### definitions -/

theorem L_schemaOps (ops : List OpTypeDef) (hne : ops ≠ []) (h : ∀ o ∈ ops, isOperationType o.op) :
    L (.seq (Grammar.kind .braceL) (.seq (.plus (.nt .rootOperationTypeDefinition)) (Grammar.kind .braceR)))
      (tP .braceL :: ops.flatMap printOpType ++ [tP .braceR]) :=
  L.kindCons .braceL (L.seq (L.plus_flatMap _ hne fun o ho =>
    L.nt (L.cons (L_operationType o.op (h o ho)) (L.kindCons .colon (L.namedType o.type)))) (L.kind .braceR))

theorem L_schemaDef (s : SchemaDef) (h : WFSchemaDef s) : L (.nt .schemaDefinition) (printSchemaDef s) := by
  obtain ⟨hd, hne, hops⟩ := h
  have := L.nt (n := .schemaDefinition) (L.seq (L_optDesc s.desc) (L.kwCons "schema"
    (L.seq (L_optDirectives true s.dirs fun _ => hd) (L_schemaOps s.opTypes hne hops))))
  simpa [printSchemaDef, List.append_assoc] using this

theorem L_schemaExt (s : SchemaDef) (h : WFSchemaExt s) : L (.nt .schemaExtension) (printSchemaExt s) := by
  obtain ⟨hd, hsome, hops⟩ := h
  unfold printSchemaExt
  by_cases hne : s.opTypes = []
  · have hdne : s.dirs ≠ [] := by
      rcases hsome with h | h
      · exact h
      · exact absurd hne h
    have := L.nt (n := .schemaExtension) (L.altR (L.kwCons "extend" (L.kwCons "schema" (L_directives true s.dirs hdne fun _ => hd))))
    simpa [hne, printBlock] using this
  · have hb : printBlock printOpType s.opTypes = tP .braceL :: s.opTypes.flatMap printOpType ++ [tP .braceR] := by
      cases hs : s.opTypes with
      | nil => exact absurd hs hne
      | cons a b => simp [printBlock]
    have := L.nt (n := .schemaExtension) (L.altL (L.kwCons "extend" (L.kwCons "schema"
      (L.seq (L_optDirectives true s.dirs fun _ => hd) (L_schemaOps s.opTypes hne hops)))))
    rw [hb]
    simpa [List.append_assoc] using this

theorem L_directiveDef (d : DirectiveDef) (h : WFDirectiveDef d) : L (.nt .directiveDefinition) (printDirectiveDef d) := by
  obtain ⟨ha, hne, hl⟩ := h
  have hrep : L (.opt (Grammar.kw (str "repeatable"))) (if d.repeatable then [tKw "repeatable"] else []) := by
    split
    · exact L.optSome (L.kw "repeatable")
    · exact L.optNone
  have := L.nt (n := .directiveDefinition) (L.seq (L_optDesc d.desc) (L.kwCons "directive" (L.kindCons .at
    (L.nameCons d.name (L.seq (L_optArgDefs d.args ha) (L.seq hrep (L.kwCons "on" (L_locations d.locations hne hl))))))))
  simpa [printDirectiveDef, List.append_assoc] using this

/-! ### type definitions -/

theorem L_definition (d : Definition) (h : WFDefBody d) : L (.nt .typeDefinition) (printDefinition d) := by
  obtain ⟨hd, hb⟩ := h
  have hdirs := L_optDirectives true d.dirs fun _ => hd
  unfold printDefinition printDefBody
  cases hk : d.kind <;> simp only [hk, DefKind.keyword] at hb ⊢
  · -- scalar
    have := L.nt (n := .scalarTypeDefinition) (L.seq (L_optDesc d.desc) (L.kwCons "scalar" (L.nameCons d.name hdirs)))
    exact L.nt (L.altL (by simpa [List.append_assoc] using this))
  · -- object
    refine L.nt (L.altR (L.altL ?_))
    by_cases hf : d.fields = []
    · have := L.nt (n := .objectTypeDefinition) (L.altR (L.seq (L_optDesc d.desc) (L.kwCons "type" (L.nameCons d.name
        (L.seq (L_optImplements d.interfaces) hdirs)))))
      simpa [hf, printBlock, List.append_assoc] using this
    · have := L.nt (n := .objectTypeDefinition) (L.altL (L.seq (L_optDesc d.desc) (L.kwCons "type" (L.nameCons d.name
        (L.seq (L_optImplements d.interfaces) (L.seq hdirs (L_fields d.fields hf hb)))))))
      simpa [List.append_assoc] using this
  · -- interface
    refine L.nt (L.altR (L.altR (L.altL ?_)))
    by_cases hf : d.fields = []
    · have := L.nt (n := .interfaceTypeDefinition) (L.altR (L.seq (L_optDesc d.desc) (L.kwCons "interface" (L.nameCons d.name
        (L.seq (L_optImplements d.interfaces) hdirs)))))
      simpa [hf, printBlock, List.append_assoc] using this
    · have := L.nt (n := .interfaceTypeDefinition) (L.altL (L.seq (L_optDesc d.desc) (L.kwCons "interface" (L.nameCons d.name
        (L.seq (L_optImplements d.interfaces) (L.seq hdirs (L_fields d.fields hf hb)))))))
      simpa [List.append_assoc] using this
  · -- union
    refine L.nt (L.altR (L.altR (L.altR (L.altL ?_))))
    have := L.nt (n := .unionTypeDefinition) (L.seq (L_optDesc d.desc) (L.kwCons "union" (L.nameCons d.name
      (L.seq hdirs (L_optMembers d.types)))))
    simpa [List.append_assoc] using this
  · -- enum
    refine L.nt (L.altR (L.altR (L.altR (L.altR (L.altL ?_)))))
    by_cases hf : d.enumValues = []
    · have := L.nt (n := .enumTypeDefinition) (L.altR (L.seq (L_optDesc d.desc) (L.kwCons "enum" (L.nameCons d.name hdirs))))
      simpa [hf, printBlock, List.append_assoc] using this
    · have := L.nt (n := .enumTypeDefinition) (L.altL (L.seq (L_optDesc d.desc) (L.kwCons "enum" (L.nameCons d.name
        (L.seq hdirs (L_enumValues d.enumValues hf hb))))))
      simpa [List.append_assoc] using this
  · -- input object
    refine L.nt (L.altR (L.altR (L.altR (L.altR (L.altR ?_)))))
    by_cases hf : d.fields = []
    · have := L.nt (n := .inputObjectTypeDefinition) (L.altR (L.seq (L_optDesc d.desc) (L.kwCons "input" (L.nameCons d.name hdirs))))
      simpa [hf, printBlock, List.append_assoc] using this
    · have := L.nt (n := .inputObjectTypeDefinition) (L.altL (L.seq (L_optDesc d.desc) (L.kwCons "input" (L.nameCons d.name
        (L.seq hdirs (L_inputFields d.fields hf hb))))))
      simpa [List.append_assoc] using this

/-! ### type extensions -/

theorem L_extension (d : Definition) (h : WFDefBody d) (hx : ExtendsSomething d) :
    L (.nt .typeExtension) (printExtension d) := by
  obtain ⟨hd, hb⟩ := h
  have hdirs := L_optDirectives true d.dirs fun _ => hd
  have hdirsReq : d.dirs ≠ [] → L (.nt (.directives true)) (printDirectives d.dirs) :=
    fun hne => L_directives true d.dirs hne fun _ => hd
  unfold printExtension printDefBody
  unfold ExtendsSomething at hx
  cases hk : d.kind <;> simp only [hk, DefKind.keyword] at hb hx ⊢
  · -- scalar
    exact L.nt (L.altL (L.nt (n := .scalarTypeExtension) (L.kwCons "extend" (L.kwCons "scalar" (L.nameCons d.name (hdirsReq hx))))))
  · -- object
    refine L.nt (L.altR (L.altL ?_))
    by_cases hf : d.fields = []
    · by_cases hdn : d.dirs = []
      · have hi : d.interfaces ≠ [] := by
          rcases hx with h | h | h
          · exact h
          · exact absurd hdn h
          · exact absurd hf h
        have := L.nt (n := .objectTypeExtension) (L.altR (L.altR (L.kwCons "extend" (L.kwCons "type" (L.nameCons d.name
          (L_implements d.interfaces hi))))))
        simpa [hf, hdn, printBlock, printDirectives] using this
      · have := L.nt (n := .objectTypeExtension) (L.altR (L.altL (L.kwCons "extend" (L.kwCons "type" (L.nameCons d.name
          (L.seq (L_optImplements d.interfaces) (hdirsReq hdn)))))))
        simpa [hf, printBlock, List.append_assoc] using this
    · have := L.nt (n := .objectTypeExtension) (L.altL (L.kwCons "extend" (L.kwCons "type" (L.nameCons d.name
        (L.seq (L_optImplements d.interfaces) (L.seq hdirs (L_fields d.fields hf hb)))))))
      simpa [List.append_assoc] using this
  · -- interface
    refine L.nt (L.altR (L.altR (L.altL ?_)))
    by_cases hf : d.fields = []
    · by_cases hdn : d.dirs = []
      · have hi : d.interfaces ≠ [] := by
          rcases hx with h | h | h
          · exact h
          · exact absurd hdn h
          · exact absurd hf h
        have := L.nt (n := .interfaceTypeExtension) (L.altR (L.altR (L.kwCons "extend" (L.kwCons "interface" (L.nameCons d.name
          (L_implements d.interfaces hi))))))
        simpa [hf, hdn, printBlock, printDirectives] using this
      · have := L.nt (n := .interfaceTypeExtension) (L.altR (L.altL (L.kwCons "extend" (L.kwCons "interface" (L.nameCons d.name
          (L.seq (L_optImplements d.interfaces) (hdirsReq hdn)))))))
        simpa [hf, printBlock, List.append_assoc] using this
    · have := L.nt (n := .interfaceTypeExtension) (L.altL (L.kwCons "extend" (L.kwCons "interface" (L.nameCons d.name
        (L.seq (L_optImplements d.interfaces) (L.seq hdirs (L_fields d.fields hf hb)))))))
      simpa [List.append_assoc] using this
  · -- union
    refine L.nt (L.altR (L.altR (L.altR (L.altL ?_))))
    by_cases ht : d.types = []
    · have hdn : d.dirs ≠ [] := by
        rcases hx with h | h
        · exact h
        · exact absurd ht h
      have := L.nt (n := .unionTypeExtension) (L.altR (L.kwCons "extend" (L.kwCons "union" (L.nameCons d.name (hdirsReq hdn)))))
      simpa [ht, printMembers] using this
    · have := L.nt (n := .unionTypeExtension) (L.altL (L.kwCons "extend" (L.kwCons "union" (L.nameCons d.name
        (L.seq hdirs (L_members d.types ht))))))
      simpa [List.append_assoc] using this
  · -- enum
    refine L.nt (L.altR (L.altR (L.altR (L.altR (L.altL ?_)))))
    by_cases hf : d.enumValues = []
    · have hdn : d.dirs ≠ [] := by
        rcases hx with h | h
        · exact h
        · exact absurd hf h
      have := L.nt (n := .enumTypeExtension) (L.altR (L.kwCons "extend" (L.kwCons "enum" (L.nameCons d.name (hdirsReq hdn)))))
      simpa [hf, printBlock] using this
    · have := L.nt (n := .enumTypeExtension) (L.altL (L.kwCons "extend" (L.kwCons "enum" (L.nameCons d.name
        (L.seq hdirs (L_enumValues d.enumValues hf hb))))))
      simpa [List.append_assoc] using this
  · -- input object
    refine L.nt (L.altR (L.altR (L.altR (L.altR (L.altR ?_)))))
    by_cases hf : d.fields = []
    · have hdn : d.dirs ≠ [] := by
        rcases hx with h | h
        · exact h
        · exact absurd hf h
      have := L.nt (n := .inputObjectTypeExtension) (L.altR (L.kwCons "extend" (L.kwCons "input" (L.nameCons d.name (hdirsReq hdn)))))
      simpa [hf, printBlock] using this
    · have := L.nt (n := .inputObjectTypeExtension) (L.altL (L.kwCons "extend" (L.kwCons "input" (L.nameCons d.name
        (L.seq hdirs (L_inputFields d.fields hf hb))))))
      simpa [List.append_assoc] using this

/-! ### the document -/

theorem printSchema_in_grammar (d : SchemaDoc) (h : WFSchema d) : L (.nt .typeSystemDocument) (printSchema d) := by
  obtain ⟨hne, h1, h2, h3, h4, h5⟩ := h
  unfold printSchema
  refine L.nt (L.plus_flatten _ (inSourceOrder_ne_nil _ ?_) (inSourceOrder_forall _ ?_))
  · intro e
    simp only [List.append_eq_nil_iff, List.map_eq_nil_iff] at e
    obtain ⟨⟨⟨⟨e1, e2⟩, e3⟩, e4⟩, e5⟩ := e
    rcases hne with h | h | h | h | h
    · exact h e1
    · exact h e2
    · exact h e3
    · exact h e4
    · exact h e5
  · intro x hx
    simp only [List.mem_append, List.mem_map] at hx
    rcases hx with (((⟨y, hy, rfl⟩ | ⟨y, hy, rfl⟩) | ⟨y, hy, rfl⟩) | ⟨y, hy, rfl⟩) | ⟨y, hy, rfl⟩
    · exact L.nt (L.altL (L.nt (L.altL (L_schemaDef y (h1 y hy)))))
    · exact L.nt (L.altR (L.nt (L.altL (L_schemaExt y (h2 y hy)))))
    · exact L.nt (L.altL (L.nt (L.altR (L.altR (L_directiveDef y (h3 y hy))))))
    · exact L.nt (L.altL (L.nt (L.altR (L.altL (L_definition y (h4 y hy))))))
    · exact L.nt (L.altR (L.nt (L.altR (L_extension y (h5 y hy).1 (h5 y hy).2))))

end Gql.Grammar
