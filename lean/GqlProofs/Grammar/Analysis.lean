import GqlModel.Syntax.Grammar
/-
  Two generic static analyses of an EBNF grammar with their soundness theorems w.r.t. `Derives`;
  they turn "the grammar derives no sentence of such a shape" into a computation on the tables.

  * `minLen g n s` : a lower bound on the length of every sentence of `s` (unrolling `n` levels).
  * `Avoids S bad s` : every token predicate reachable from `s` through nonterminals in the set `S`
    excludes the tokens satisfying `bad`; then no sentence of `s` contains a `bad` token.
-/
namespace Gql.Grammar

/-! ### inversion lemmas -/

theorem Derives.tok_inv {N : Type} {g : Grammar N} {p : Tok → Bool} {ts out : List Tok}
    (h : Derives g (.tok p) ts out) : ∃ t, ts = [t] ∧ out = [t] ∧ p t = true := by
  cases h with
  | tok hp => exact ⟨_, rfl, rfl, hp⟩

theorem Derives.nt_inv {N : Type} {g : Grammar N} {n : N} {ts out : List Tok}
    (h : Derives g (.nt n) ts out) : Derives g (g.rules n) ts out := by
  cases h with
  | nt d => exact d

theorem Derives.seq_inv' {N : Type} {g : Grammar N} {a b : Sym N} {ts out : List Tok}
    (h : Derives g (.seq a b) ts out) :
    ∃ t1 t2 o1 o2, ts = t1 ++ t2 ∧ out = o1 ++ o2 ∧ Derives g a t1 o1 ∧ Derives g b t2 o2 := by
  cases h with
  | seq d1 d2 => exact ⟨_, _, _, _, rfl, rfl, d1, d2⟩

theorem Derives.alt_inv {N : Type} {g : Grammar N} {a b : Sym N} {ts out : List Tok}
    (h : Derives g (.alt a b) ts out) : Derives g a ts out ∨ Derives g b ts out := by
  cases h with
  | altL d => exact Or.inl d
  | altR d => exact Or.inr d

theorem Derives.canon_inv {N : Type} {g : Grammar N} {f : List Tok → List Tok} {a : Sym N} {ts out : List Tok}
    (h : Derives g (.canon f a) ts out) : ∃ o, out = f o ∧ Derives g a ts o := by
  cases h with
  | canon d => exact ⟨_, rfl, d⟩

/-! ### minimal sentence length -/

def minLen {N : Type} (g : Grammar N) : Nat → Sym N → Nat
  | 0, _ => 0
  | _ + 1, .tok _ => 1
  | n + 1, .nt x => minLen g n (g.rules x)
  | _ + 1, .eps => 0
  | n + 1, .seq a b => minLen g n a + minLen g n b
  | n + 1, .alt a b => min (minLen g n a) (minLen g n b)
  | _ + 1, .opt _ => 0
  | _ + 1, .star _ => 0
  | n + 1, .plus a => minLen g n a
  | n + 1, .canon _ a => minLen g n a

theorem minLen_le {N : Type} {g : Grammar N} {s : Sym N} {ts out : List Tok}
    (h : Derives g s ts out) : ∀ n, minLen g n s ≤ ts.length := by
  induction h with
  | tok _ => intro n; cases n <;> simp [minLen]
  | nt _ ih => intro n; cases n with
    | zero => simp [minLen]
    | succ n => simpa [minLen] using ih n
  | eps => intro n; cases n <;> simp [minLen]
  | seq _ _ ih1 ih2 => intro n; cases n with
    | zero => simp [minLen]
    | succ n => have := ih1 n; have := ih2 n; simp only [minLen, List.length_append]; omega
  | altL _ ih => intro n; cases n with
    | zero => simp [minLen]
    | succ n => have := ih n; simp only [minLen]; omega
  | altR _ ih => intro n; cases n with
    | zero => simp [minLen]
    | succ n => have := ih n; simp only [minLen]; omega
  | optNone => intro n; cases n <;> simp [minLen]
  | optSome _ _ => intro n; cases n <;> simp [minLen]
  | starNil => intro n; cases n <;> simp [minLen]
  | starCons _ _ _ _ => intro n; cases n <;> simp [minLen]
  | plus _ _ ih1 _ => intro n; cases n with
    | zero => simp [minLen]
    | succ n => have := ih1 n; simp only [minLen, List.length_append]; omega
  | canon _ ih => intro n; cases n with
    | zero => simp [minLen]
    | succ n => simpa [minLen] using ih n

/-! ### token avoidance -/

inductive Avoids {N : Type} (S : N → Prop) (bad : Tok → Bool) : Sym N → Prop
  | tok {p : Tok → Bool} : (∀ t, p t = true → bad t = false) → Avoids S bad (.tok p)
  | nt {n : N} : S n → Avoids S bad (.nt n)
  | eps : Avoids S bad .eps
  | seq {a b : Sym N} : Avoids S bad a → Avoids S bad b → Avoids S bad (.seq a b)
  | alt {a b : Sym N} : Avoids S bad a → Avoids S bad b → Avoids S bad (.alt a b)
  | opt {a : Sym N} : Avoids S bad a → Avoids S bad (.opt a)
  | star {a : Sym N} : Avoids S bad a → Avoids S bad (.star a)
  | plus {a : Sym N} : Avoids S bad a → Avoids S bad (.plus a)
  | canon {f : List Tok → List Tok} {a : Sym N} : Avoids S bad a → Avoids S bad (.canon f a)

theorem avoids_sound {N : Type} {g : Grammar N} {S : N → Prop} {bad : Tok → Bool}
    (hS : ∀ n, S n → Avoids S bad (g.rules n)) {s : Sym N} {ts out : List Tok}
    (h : Derives g s ts out) : Avoids S bad s → ∀ t ∈ ts, bad t = false := by
  induction h with
  | tok hp => intro ha t ht; cases ha with
    | tok hb => simp only [List.mem_singleton] at ht; subst ht; exact hb _ hp
  | nt _ ih => intro ha; cases ha with
    | nt hs => exact ih (hS _ hs)
  | eps => intro _ t ht; simp at ht
  | seq _ _ ih1 ih2 => intro ha t ht; cases ha with
    | seq h1 h2 =>
      rcases List.mem_append.mp ht with h | h
      · exact ih1 h1 t h
      · exact ih2 h2 t h
  | altL _ ih => intro ha; cases ha with
    | alt h1 _ => exact ih h1
  | altR _ ih => intro ha; cases ha with
    | alt _ h2 => exact ih h2
  | optNone => intro _ t ht; simp at ht
  | optSome _ ih => intro ha; cases ha with
    | opt h1 => exact ih h1
  | starNil => intro _ t ht; simp at ht
  | starCons _ _ ih1 ih2 => intro ha t ht; cases ha with
    | star h1 =>
      rcases List.mem_append.mp ht with h | h
      · exact ih1 h1 t h
      · exact ih2 (.star h1) t h
  | plus _ _ ih1 ih2 => intro ha t ht; cases ha with
    | plus h1 =>
      rcases List.mem_append.mp ht with h | h
      · exact ih1 h1 t h
      · exact ih2 (.star h1) t h
  | canon _ ih => intro ha; cases ha with
    | canon h1 => exact ih h1

end Gql.Grammar
