import GqlProofs.Grammar.PrintShared
/-
  `printQuery` of a well-formed tree is a sentence of `ExecutableDocument`.
-/
namespace Gql.Grammar
open Gql Gql.Lexer Gql.Print

theorem selSet_of {s : Selection} {rest : Selections}
    (h1 : L (.nt .selection) (printSelection s)) (h2 : L (.star (.nt .selection)) (printSelections rest)) :
    L (.nt .selectionSet) (tP .braceL :: printSelections (.cons s rest) ++ [tP .braceR]) := by
  simp only [printSelections]
  exact L.nt (L.kindCons .braceL (L.seq (L.plus h1 h2) (L.kind .braceR)))

theorem L_optAlias (al nm : Name) :
    L (.opt (.nt .alias)) (if al = nm then [] else [tName al, tP .colon]) := by
  split
  · exact L.optNone
  · exact L.optSome (L.nt (L.cons (L.name al) (L.kind .colon)))

/-! the canonical-form rewritings leave printed fields and operations unchanged -/

theorem head_printArguments (as : List Argument) : ∀ t, (printArguments as).head? = some t → t = tP .parenL := by
  intro t h
  cases as with
  | nil => simp [printArguments] at h
  | cons a r => simp [printArguments] at h; exact h.symm

theorem head_printDirectives (ds : List Directive) : ∀ t, (printDirectives ds).head? = some t → t = tP .at := by
  intro t h
  cases ds with
  | nil => simp [printDirectives] at h
  | cons d r => simp [printDirectives, printDirective] at h; exact h.symm

theorem head_printVarDefs (vs : List VarDef) : ∀ t, (printVarDefs vs).head? = some t → t = tP .parenL := by
  intro t h
  cases vs with
  | nil => simp [printVarDefs] at h
  | cons a r => simp [printVarDefs] at h; exact h.symm

theorem head_append {xs ys : List Tok} {P : Tok → Prop} (hx : ∀ t, xs.head? = some t → P t)
    (hy : ∀ t, ys.head? = some t → P t) : ∀ t, (xs ++ ys).head? = some t → P t := by
  intro t h
  cases xs with
  | nil => exact hy t (by simpa using h)
  | cons x r => exact hx t (by simpa using h)

theorem dropSelfAlias_plain (n : Tok) (rest : List Tok) (h : ∀ t, rest.head? = some t → t.kind ≠ .colon) :
    dropSelfAlias (n :: rest) = n :: rest := by
  match rest, h with
  | [], _ => rfl
  | [b], _ => rfl
  | b :: c :: r, h =>
    have hb := h b rfl
    simp [dropSelfAlias, hb]

theorem dropSelfAlias_alias (al nm : Name) (hne : al ≠ nm) (rest : List Tok) :
    dropSelfAlias (tName al :: tP .colon :: tName nm :: rest) = tName al :: tP .colon :: tName nm :: rest := by
  have : tName nm ≠ tName al := by
    intro e
    simp only [tName, Tok.mk.injEq, true_and] at e
    exact hne e.symm
  simp [dropSelfAlias, this]

theorem dropBareQuery_brace (rest : List Tok) : dropBareQuery (tP .braceL :: rest) = tP .braceL :: rest := by
  cases rest with
  | nil => rfl
  | cons b r => simp [dropBareQuery, tP]

theorem dropBareQuery_second (a : Tok) (rest : List Tok) (h : ∀ t, rest.head? = some t → t.kind ≠ .braceL) :
    dropBareQuery (a :: rest) = a :: rest := by
  cases rest with
  | nil => rfl
  | cons b r =>
    have hb := h b rfl
    simp [dropBareQuery, hb]

theorem dropBareQuery_first (a : Tok) (rest : List Tok) (h : a.value ≠ str "query") :
    dropBareQuery (a :: rest) = a :: rest := by
  cases rest with
  | nil => rfl
  | cons b r => simp [dropBareQuery, h]

theorem field_of (al nm : Name) (args : List Argument) (ds : List Directive) {tsSel : List Tok}
    (hsel : L (.opt (.nt .selectionSet)) tsSel) (hhead : ∀ t, tsSel.head? = some t → t.kind ≠ .colon) :
    L (.nt .selection)
      ((if al = nm then [] else [tName al, tP .colon]) ++ tName nm :: (printArguments args ++ (printDirectives ds ++ tsSel))) := by
  have hbody := L.seq (L_optAlias al nm) (L.nameCons nm (L.seq (L_optArguments false args (by simp))
      (L.seq (L_optDirectives false ds (by simp)) hsel)))
  have hcanon : dropSelfAlias ((if al = nm then [] else [tName al, tP .colon]) ++ tName nm ::
      (printArguments args ++ (printDirectives ds ++ tsSel)))
      = (if al = nm then [] else [tName al, tP .colon]) ++ tName nm :: (printArguments args ++ (printDirectives ds ++ tsSel)) := by
    split
    · simp only [List.nil_append]
      refine dropSelfAlias_plain _ _ (head_append (fun t h => ?_) (head_append (fun t h => ?_) hhead))
      · rw [head_printArguments _ t h]; simp [tP]
      · rw [head_printDirectives _ t h]; simp [tP]
    · rename_i hne
      simpa using dropSelfAlias_alias al nm hne _
  have hf : L (.nt .field) _ := L.nt (L.canon hbody hcanon)
  exact L.nt (n := .selection) (L.altL hf)

mutual
  theorem L_selection : ∀ s : Selection, WFSelection s → L (.nt .selection) (printSelection s)
    | .field al nm args ds sel _, h => by
      cases sel with
      | nil => simpa [printSelection, List.append_assoc] using field_of al nm args ds L.optNone (by simp)
      | cons s rest =>
        simp only [WFSelection, WFSelections] at h
        have := field_of al nm args ds (L.optSome (selSet_of (L_selection s h.1) (L_selections rest h.2)))
          (by intro t ht; simp only [List.cons_append, List.head?_cons, Option.some.injEq] at ht; subst ht; simp [tP])
        simpa [printSelection, List.append_assoc] using this
    | .spread nm ds _, h => by
      simp only [WFSelection] at h
      have hs : L (.nt .fragmentSpread) (tP .spread :: tName nm :: printDirectives ds) :=
        L.nt (L.kindCons .spread (L.cons (L.nt (L.tok (by simp [tName, h]))) (L_optDirectives false ds (by simp))))
      simpa [printSelection] using L.nt (n := .selection) (L.altR (L.altL hs))
    | .inline tc ds sel _, h => by
      simp only [WFSelection] at h
      have htc : L (.opt (.nt .typeCondition)) (if tc = [] then [] else [tKw "on", tName tc]) := by
        split
        · exact L.optNone
        · exact L.optSome (L.nt (L.cons (L.kw "on") (L.namedType tc)))
      have hss : L (.nt .selectionSet) (tP .braceL :: printSelections sel ++ [tP .braceR]) := by
        cases sel with
        | nil => exact absurd rfl h.1
        | cons s rest =>
          have h2 := h.2
          simp only [WFSelections] at h2
          exact selSet_of (L_selection s h2.1) (L_selections rest h2.2)
      have hi : L (.nt .inlineFragment) _ :=
        L.nt (L.kindCons .spread (L.seq htc (L.seq (L_optDirectives false ds (by simp)) hss)))
      have := L.nt (n := .selection) (L.altR (L.altR hi))
      simpa [printSelection, List.append_assoc] using this
  theorem L_selections : ∀ ss : Selections, WFSelections ss → L (.star (.nt .selection)) (printSelections ss)
    | .nil, _ => by simpa [printSelections] using L.starNil
    | .cons s rest, h => by
      simp only [WFSelections] at h
      simp only [printSelections]
      exact L.starCons (L_selection s h.1) (L_selections rest h.2)
end

theorem L_selectionSet (sel : Selections) (hne : sel ≠ .nil) (h : WFSelections sel) :
    L (.nt .selectionSet) (printSelectionSet sel) := by
  cases sel with
  | nil => exact absurd rfl hne
  | cons s rest =>
    simp only [WFSelections] at h
    exact selSet_of (L_selection s h.1) (L_selections rest h.2)

theorem L_varDef (v : VarDef) (h : WFVarDef v) : L (.nt .variableDefinition) (printVarDef v) := by
  have hv : L (.nt .var) [tP .dollar, tName v.var] := L.nt (L.cons (L.kind .dollar) (L.name v.var))
  have := L.nt (n := .variableDefinition)
    (L.seq hv (L.kindCons .colon (L.seq (L_type v.type) (L.seq (L_optDefault v.default h.1)
      (L_optDirectives true v.dirs fun _ => h.2)))))
  simpa [printVarDef, List.append_assoc] using this

theorem L_optVarDefs (vs : List VarDef) (h : ∀ v ∈ vs, WFVarDef v) :
    L (.opt (.nt .variableDefinitions)) (printVarDefs vs) := by
  unfold printVarDefs
  cases vs with
  | nil => simpa using L.optNone
  | cons v rest =>
    simp only [List.isEmpty_cons, Bool.false_eq_true, if_false]
    exact L.optSome (L.nt (L.kindCons .parenL (L.seq
      (L.plus_flatMap _ (by simp) fun x hx => L_varDef x (h x hx)) (L.kind .parenR))))

theorem L_operationType (op : Bytes) (h : op = str "query" ∨ op = str "mutation" ∨ op = str "subscription") :
    L (.nt .operationType) [tName op] := by
  rcases h with h | h | h <;> subst h
  · exact L.nt (L.altL (L.tok (by decide)))
  · exact L.nt (L.altR (L.altL (L.tok (by decide))))
  · exact L.nt (L.altR (L.altR (L.tok (by decide))))

theorem L_operation (o : OperationDef) (h : WFOperation o) : L (.nt .operationDefinition) (printOperation o) := by
  obtain ⟨hop, hvars, hne, hsel⟩ := h
  unfold printOperation
  split
  · exact L.nt (L.canon (L.altR (L_selectionSet o.sel hne hsel)) (dropBareQuery_brace _))
  · rename_i hbare
    have hn : L (.opt (.nt .name)) (if o.name = [] then [] else [tName o.name]) := by
      split
      · exact L.optNone
      · exact L.optSome (L.name o.name)
    have hbody := L.altL (b := .nt .selectionSet) (L.seq (L_operationType o.op hop) (L.seq hn
      (L.seq (L_optVarDefs o.vars hvars) (L.seq (L_optDirectives false o.dirs (by simp))
        (L_selectionSet o.sel hne hsel)))))
    have hcanon : dropBareQuery ([tName o.op] ++ ((if o.name = [] then [] else [tName o.name]) ++
        (printVarDefs o.vars ++ (printDirectives o.dirs ++ printSelectionSet o.sel))))
        = [tName o.op] ++ ((if o.name = [] then [] else [tName o.name]) ++
        (printVarDefs o.vars ++ (printDirectives o.dirs ++ printSelectionSet o.sel))) := by
      simp only [List.singleton_append]
      by_cases hq : o.op = str "query"
      · refine dropBareQuery_second _ _ ?_
        by_cases h1 : o.name = []
        · by_cases h2 : o.vars = []
          · by_cases h3 : o.dirs = []
            · exact absurd (by simp [OperationDef.isBare, hq, h1, h2, h3]) hbare
            · simp only [h1, if_true, List.nil_append, h2, printVarDefs, List.isEmpty_nil]
              cases hd : o.dirs with
              | nil => exact absurd hd h3
              | cons d r =>
                intro t h
                simp [printDirectives, printDirective] at h
                subst h; simp [tP]
          · simp only [h1, if_true, List.nil_append]
            cases hv : o.vars with
            | nil => exact absurd hv h2
            | cons v r =>
              intro t h
              simp [printVarDefs] at h
              subst h; simp [tP]
        · simp only [h1, if_false]
          intro t h
          simp at h
          subst h; simp [tName]
      · exact dropBareQuery_first _ _ (by simpa [tName] using hq)
    have := L.nt (n := .operationDefinition) (L.canon hbody hcanon)
    simpa [List.append_assoc] using this

theorem L_fragment (f : FragmentDef) (h : WFFragment f) : L (.nt .fragmentDefinition) (printFragment f) := by
  obtain ⟨hname, hvars, hne, hsel⟩ := h
  have hfn : L (.nt .fragmentName) [tName f.name] := L.nt (L.tok (by simp [tName, hname]))
  have htc : L (.nt .typeCondition) [tKw "on", tName f.typeCond] := L.nt (L.cons (L.kw "on") (L.namedType f.typeCond))
  have := L.nt (n := .fragmentDefinition) (L.kwCons "fragment" (L.seq hfn (L.seq (L_optVarDefs f.vars hvars)
    (L.seq htc (L.seq (L_optDirectives false f.dirs (by simp)) (L_selectionSet f.sel hne hsel))))))
  simpa [printFragment, List.append_assoc] using this

/-- the definitions, interleaved by position, are a non-empty list of sentences -/
theorem inSourceOrder_forall {P : List Tok → Prop} (items : List (Nat × List Tok)) (h : ∀ x ∈ items, P x.2) :
    ∀ ts ∈ inSourceOrder items, P ts := by
  intro ts hts
  simp only [inSourceOrder, List.mem_map] at hts
  obtain ⟨x, hx, rfl⟩ := hts
  exact h x ((List.mergeSort_perm items _).mem_iff.mp hx)

theorem inSourceOrder_ne_nil (items : List (Nat × List Tok)) (h : items ≠ []) : inSourceOrder items ≠ [] := by
  intro e
  have hl : (inSourceOrder items).length = items.length := by
    simp [inSourceOrder, (List.mergeSort_perm items _).length_eq]
  rw [e] at hl
  exact h (List.eq_nil_of_length_eq_zero hl.symm)

theorem printQuery_in_grammar (d : QueryDoc) (h : WFQuery d) : L (.nt .executableDocument) (printQuery d) := by
  obtain ⟨hne, hops, hfrags⟩ := h
  unfold printQuery
  refine L.nt (L.plus_flatten _ (inSourceOrder_ne_nil _ ?_) (inSourceOrder_forall _ ?_))
  · rcases hne with h | h
    · intro e
      have := List.append_eq_nil_iff.mp e
      exact h (List.map_eq_nil_iff.mp this.1)
    · intro e
      have := List.append_eq_nil_iff.mp e
      exact h (List.map_eq_nil_iff.mp this.2)
  · intro x hx
    rcases List.mem_append.mp hx with hx | hx
    · obtain ⟨o, ho, rfl⟩ := List.mem_map.mp hx
      exact L.nt (L.altL (L_operation o (hops o ho)))
    · obtain ⟨f, hf, rfl⟩ := List.mem_map.mp hx
      exact L.nt (L.altR (L_fragment f (hfrags f hf)))

end Gql.Grammar
