import GqlProofs.Grammar.Lang
/-
  The printed forms of the shared productions (Type, Value, Arguments, Directives, DefaultValue)
  are sentences of their nonterminals.
-/
namespace Gql.Grammar
open Gql Gql.Lexer Gql.Print

/-! ### Type -/

theorem L_type : ∀ t : GType, L (.nt .typ) (printType t)
  | .named n nn _ => by
    cases nn with
    | false => simpa [printType, bangIf] using L.nt (n := .typ) (L.altL (L.namedType n))
    | true =>
      have : L (.nt .nonNullType) [tName n, tP .bang] :=
        L.nt (L.altL (L.cons (L.namedType n) (L.kind .bang)))
      simpa [printType, bangIf] using L.nt (n := .typ) (L.altR (L.altR this))
  | .list e nn _ => by
    have hl : L (.nt .listType) (tP .bracketL :: printType e ++ [tP .bracketR]) :=
      L.nt (L.kindCons .bracketL (L.seq (L_type e) (L.kind .bracketR)))
    cases nn with
    | false => simpa [printType, bangIf] using L.nt (n := .typ) (L.altR (L.altL hl))
    | true =>
      have : L (.nt .nonNullType) ((tP .bracketL :: printType e ++ [tP .bracketR]) ++ [tP .bang]) :=
        L.nt (L.altR (L.seq hl (L.kind .bang)))
      simpa [printType, bangIf] using L.nt (n := .typ) (L.altR (L.altR this))

/-! ### Value -/

theorem L_value_of_literal (c : Bool) {ts : List Tok} (h : L (literal c) ts) : L (.nt (.value c)) ts := by
  cases c with
  | true => exact L.nt h
  | false => exact L.nt (L.altR h)

theorem lit_int (c : Bool) (raw : Bytes) : L (literal c) [{ kind := .int, value := raw }] :=
  L.altL (L.tok (by simp))
theorem lit_float (c : Bool) (raw : Bytes) : L (literal c) [{ kind := .float, value := raw }] :=
  L.altR (L.altL (L.tok (by simp)))
theorem lit_string (c : Bool) (raw : Bytes) : L (literal c) [{ kind := .string, value := raw }] :=
  L.altR (L.altR (L.altL (L.tok (by simp))))
theorem lit_block (c : Bool) (raw : Bytes) : L (literal c) [{ kind := .blockString, value := raw }] :=
  L.altR (L.altR (L.altL (L.tok (by simp))))

/-- every Name token is a BooleanValue, the NullValue or an EnumValue -/
theorem lit_name (c : Bool) (raw : Bytes) : L (literal c) [tName raw] := by
  by_cases h1 : raw = str "true"
  · subst h1
    exact L.altR (L.altR (L.altR (L.altL (L.nt (L.altL (L.tok (by decide)))))))
  by_cases h2 : raw = str "false"
  · subst h2
    exact L.altR (L.altR (L.altR (L.altL (L.nt (L.altR (L.tok (by decide)))))))
  by_cases h3 : raw = str "null"
  · subst h3
    exact L.altR (L.altR (L.altR (L.altR (L.altL (L.nt (L.tok (by decide)))))))
  · exact L.altR (L.altR (L.altR (L.altR (L.altR (L.altL (L.nt (L.tok (by simp [tName, h1, h2, h3]))))))))

theorem lit_list (c : Bool) {ts : List Tok} (h : L (.nt (.listValue c)) ts) : L (literal c) ts :=
  L.altR (L.altR (L.altR (L.altR (L.altR (L.altR (L.altL h))))))
theorem lit_object (c : Bool) {ts : List Tok} (h : L (.nt (.objectValue c)) ts) : L (literal c) ts :=
  L.altR (L.altR (L.altR (L.altR (L.altR (L.altR (L.altR h))))))

mutual
  theorem L_value (c : Bool) : ∀ v : Value, (c = true → ConstValue v) → L (.nt (.value c)) (printValue v)
    | .mk k raw ch _, hc => by
      cases k with
      | «variable» =>
        cases c with
        | true => exact absurd rfl (hc rfl).1
        | false =>
          simp only [printValue]
          exact L.nt (L.altL (L.nt (L.cons (L.kind .dollar) (L.name raw))))
      | int => simpa [printValue] using L_value_of_literal c (lit_int c raw)
      | float => simpa [printValue] using L_value_of_literal c (lit_float c raw)
      | string => simpa [printValue] using L_value_of_literal c (lit_string c raw)
      | block => simpa [printValue] using L_value_of_literal c (lit_block c raw)
      | boolean => simpa [printValue] using L_value_of_literal c (lit_name c raw)
      | null => simpa [printValue] using L_value_of_literal c (lit_name c raw)
      | «enum» => simpa [printValue] using L_value_of_literal c (lit_name c raw)
      | list =>
        simp only [printValue]
        apply L_value_of_literal c; apply lit_list c; apply L.nt
        cases ch with
        | nil => exact L.altL (L.cons (L.kind .bracketL) (L.kind .bracketR))
        | cons n v p rest =>
          refine L.altR (L.kindCons .bracketL (L.seq ?_ (L.kind .bracketR)))
          simp only [printItems]
          exact L.plus (L_value c v fun h => ((hc h).2).1) (L_items c rest fun h => ((hc h).2).2)
      | object =>
        simp only [printValue]
        apply L_value_of_literal c; apply lit_object c; apply L.nt
        cases ch with
        | nil => exact L.altL (L.cons (L.kind .braceL) (L.kind .braceR))
        | cons n v p rest =>
          refine L.altR (L.kindCons .braceL (L.seq ?_ (L.kind .braceR)))
          simp only [printObjFields]
          have hf : L (.nt (.objectField c)) (tName n :: tP .colon :: printValue v) :=
            L.nt (L.nameCons n (L.kindCons .colon (L_value c v fun h => ((hc h).2).1)))
          have := L.plus hf (L_objFields c rest fun h => ((hc h).2).2)
          simpa using this
  theorem L_items (c : Bool) : ∀ ch : Children, (c = true → ConstChildren ch) → L (.star (.nt (.value c))) (printItems ch)
    | .nil, _ => by simpa [printItems] using L.starNil
    | .cons _ v _ rest, hc => by
      simp only [printItems]
      exact L.starCons (L_value c v fun h => (hc h).1) (L_items c rest fun h => (hc h).2)
  theorem L_objFields (c : Bool) : ∀ ch : Children, (c = true → ConstChildren ch) →
      L (.star (.nt (.objectField c))) (printObjFields ch)
    | .nil, _ => by simpa [printObjFields] using L.starNil
    | .cons n v _ rest, hc => by
      simp only [printObjFields]
      have hf : L (.nt (.objectField c)) (tName n :: tP .colon :: printValue v) :=
        L.nt (L.nameCons n (L.kindCons .colon (L_value c v fun h => (hc h).1)))
      have := L.starCons hf (L_objFields c rest fun h => (hc h).2)
      simpa using this
end

/-! ### Arguments, Directives, DefaultValue -/

theorem L_argument (c : Bool) (a : Argument) (h : c = true → ConstValue a.value) :
    L (.nt (.argument c)) (printArgument a) :=
  L.nt (L.nameCons a.name (L.kindCons .colon (L_value c a.value h)))

theorem L_optArguments (c : Bool) (as : List Argument) (h : c = true → ∀ a ∈ as, ConstValue a.value) :
    L (.opt (.nt (.arguments c))) (printArguments as) := by
  unfold printArguments
  cases as with
  | nil => simpa using L.optNone
  | cons a rest =>
    simp only [List.isEmpty_cons, Bool.false_eq_true, if_false]
    exact L.optSome (L.nt (L.kindCons .parenL (L.seq
      (L.plus_flatMap _ (by simp) fun x hx => L_argument c x fun hc => h hc x hx) (L.kind .parenR))))

theorem L_directive (c : Bool) (d : Directive) (h : c = true → ∀ a ∈ d.args, ConstValue a.value) :
    L (.nt (.directive c)) (printDirective d) :=
  L.nt (L.kindCons .at (L.nameCons d.name (L_optArguments c d.args h)))

theorem L_optDirectives (c : Bool) (ds : List Directive) (h : c = true → ConstDirectives ds) :
    L (.opt (.nt (.directives c))) (printDirectives ds) := by
  unfold printDirectives
  cases ds with
  | nil => simpa using L.optNone
  | cons d rest =>
    exact L.optSome (L.nt (L.plus_flatMap _ (by simp) fun x hx => L_directive c x fun hc => h hc x hx))

/-- `Directives` (required) for a non-empty list -/
theorem L_directives (c : Bool) (ds : List Directive) (hne : ds ≠ []) (h : c = true → ConstDirectives ds) :
    L (.nt (.directives c)) (printDirectives ds) :=
  L.nt (L.plus_flatMap _ hne fun x hx => L_directive c x fun hc => h hc x hx)

theorem L_optDefault (dv : Option Value) (h : ∀ d, dv = some d → ConstValue d) :
    L (.opt (.nt .defaultValue)) (printDefault dv) := by
  cases dv with
  | none => simpa [printDefault] using L.optNone
  | some v => exact L.optSome (L.nt (L.kindCons .equals (L_value true v fun _ => h v rfl)))

end Gql.Grammar
