import GqlProofs.Grammar.Analysis
/-
  Facts about the GraphQL grammar tables (`gql`) obtained from the generic analyses:
  const contexts contain no `$`, type-system documents contain no `$` at all, bracketed lists
  are never empty, `on` is not a fragment name.
-/
namespace Gql.Grammar
open Gql.Lexer

def isDollar (t : Tok) : Bool := t.kind == .dollar

/-- the nonterminals of a `[Const]` context -/
def constNT : NT → Prop
  | .name | .value true | .booleanValue | .nullValue | .enumValue | .listValue true | .objectValue true
  | .objectField true | .defaultValue | .directives true | .directive true | .arguments true
  | .argument true => True
  | _ => False

/-- every nonterminal reachable from `typeSystemDocument` -/
def typeSystemNT : NT → Prop
  | .value false | .listValue false | .objectValue false | .objectField false | .var
  | .directives false | .directive false | .arguments false | .argument false
  | .executableDocument | .executableDefinition | .operationDefinition | .selectionSet | .selection
  | .field | .alias | .fragmentSpread | .inlineFragment | .fragmentDefinition | .fragmentName
  | .typeCondition | .variableDefinitions | .variableDefinition => False
  | _ => True

/-- discharge `Avoids S isDollar sym` for a symbol built from the terminals of Grammar.lean -/
macro "avoid_dollar" S:ident : tactic => `(tactic|
  repeat (first
    | exact Avoids.eps
    | apply Avoids.seq | apply Avoids.alt | apply Avoids.opt | apply Avoids.star | apply Avoids.plus
    | apply Avoids.canon
    | focus (apply Avoids.nt; simp [$S:ident]; done)
    | focus (apply Avoids.tok; intro t h; cases ht : t.kind <;> simp_all [isDollar]; done)))

theorem constNT_closed : ∀ n, constNT n → Avoids constNT isDollar (gql.rules n) := by
  intro n h
  cases n <;> (try rename_i c; cases c) <;> simp only [constNT] at h <;>
    (simp only [gql, gqlRules, literal, kind, kw, nameBut, nameIn, stringValue, noise]; avoid_dollar constNT)

theorem typeSystemNT_closed : ∀ n, typeSystemNT n → Avoids typeSystemNT isDollar (gql.rules n) := by
  intro n h
  cases n <;> (try rename_i c; cases c) <;> simp only [typeSystemNT] at h <;>
    (simp only [gql, gqlRules, literal, kind, kw, nameBut, nameIn, stringValue, noise]; avoid_dollar typeSystemNT)

/-- no sentence of a `[Const]` nonterminal contains `$` -/
theorem const_no_dollar {n : NT} (hn : constNT n) {ts out : List Tok}
    (h : Derives gql (.nt n) ts out) : ∀ t ∈ ts, t.kind ≠ .dollar := by
  intro t ht
  have := avoids_sound constNT_closed h (.nt hn) t ht
  simpa [isDollar] using this

/-- no sentence of a type-system nonterminal contains `$` -/
theorem typeSystem_no_dollar {n : NT} (hn : typeSystemNT n) {ts out : List Tok}
    (h : Derives gql (.nt n) ts out) : ∀ t ∈ ts, t.kind ≠ .dollar := by
  intro t ht
  have := avoids_sound typeSystemNT_closed h (.nt hn) t ht
  simpa [isDollar] using this

/-- lower bound on the length of the sentences of a nonterminal -/
theorem minLen_nt (k : Nat) {n : NT} {ts out : List Tok} (h : Derives gql (.nt n) ts out) :
    minLen gql k (.nt n) ≤ ts.length := minLen_le h k

end Gql.Grammar
