import GqlModel.Parser.Schema
/-
  Two facts about the PARSER MODEL used by C06: the built-in flag and the merge of several sources.
-/
namespace Gql.Parser
open Gql

/-- `ds` are the documents of the sources `srcs`, numbered from `i` -/
def ParsedFrom (limit : Nat) : Nat → List (Bool × Bytes) → List SchemaDoc → Prop
  | _, [], [] => True
  | i, (bi, inp) :: rest, d :: ds => parseSchemaSrc limit i bi inp = .ok d ∧ ParsedFrom limit (i + 1) rest ds
  | _, _, _ => False

theorem parseSchemasFrom_ok (limit : Nat) :
    ∀ (srcs : List (Bool × Bytes)) (i : Nat) (acc d : SchemaDoc),
      parseSchemasFrom limit i acc srcs = .ok d →
      ∃ ds, ParsedFrom limit i srcs ds ∧ d = ds.foldl SchemaDoc.merge acc := by
  intro srcs
  induction srcs with
  | nil =>
    intro i acc d h
    simp only [parseSchemasFrom, Result.ok.injEq] at h
    exact ⟨[], trivial, by simp [h]⟩
  | cons s rest ih =>
    intro i acc d h
    obtain ⟨bi, inp⟩ := s
    simp only [parseSchemasFrom] at h
    split at h
    · rename_i d1 h1
      obtain ⟨ds, hp, hd⟩ := ih _ _ _ h
      exact ⟨d1 :: ds, ⟨h1, hp⟩, by simpa using hd⟩
    · rename_i r hne
      exact absurd h (hne d)

theorem foldl_merge_fields (ds : List SchemaDoc) : ∀ acc : SchemaDoc,
    (ds.foldl SchemaDoc.merge acc).schema = acc.schema ++ ds.flatMap (·.schema)
    ∧ (ds.foldl SchemaDoc.merge acc).schemaExt = acc.schemaExt ++ ds.flatMap (·.schemaExt)
    ∧ (ds.foldl SchemaDoc.merge acc).directives = acc.directives ++ ds.flatMap (·.directives)
    ∧ (ds.foldl SchemaDoc.merge acc).definitions = acc.definitions ++ ds.flatMap (·.definitions)
    ∧ (ds.foldl SchemaDoc.merge acc).extensions = acc.extensions ++ ds.flatMap (·.extensions) := by
  induction ds with
  | nil => intro acc; simp
  | cons d ds ih =>
    intro acc
    obtain ⟨h1, h2, h3, h4, h5⟩ := ih (acc.merge d)
    simp only [List.foldl_cons, List.flatMap_cons]
    refine ⟨?_, ?_, ?_, ?_, ?_⟩ <;> simp [*, SchemaDoc.merge]

end Gql.Parser
