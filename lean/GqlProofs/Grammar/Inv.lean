import GqlProofs.Grammar.Lang
import GqlProofs.Grammar.Analysis
import GqlProofs.Lexer.TokFacts
/-
  More inversion lemmas for `Derives`, and the terminals of `gql` on lexer-shaped tokens
  (`TsOK`: a token whose kind carries no text has the empty value).
-/
namespace Gql.Grammar
open Gql Gql.Lexer Gql.Print

theorem Derives.opt_inv {N : Type} {g : Grammar N} {a : Sym N} {ts out : List Tok}
    (h : Derives g (.opt a) ts out) : (ts = [] ∧ out = []) ∨ Derives g a ts out := by
  cases h with
  | optNone => exact .inl ⟨rfl, rfl⟩
  | optSome d => exact .inr d

/-- the iterations of a `star` -/
theorem Derives.star_parts {N : Type} {g : Grammar N} {a : Sym N} {ts out : List Tok} (h : Derives g (.star a) ts out) :
    ∃ parts : List (List Tok × List Tok), ts = parts.flatMap (·.1) ∧ out = parts.flatMap (·.2) ∧
      ∀ p ∈ parts, Derives g a p.1 p.2 := by
  generalize hs : Sym.star a = s at h
  induction h with
  | starNil => exact ⟨[], rfl, rfl, fun _ h => by cases h⟩
  | @starCons a' t1 t2 o1 o2 h1 _ _ ih2 =>
    cases hs
    obtain ⟨parts, e1, e2, hp⟩ := ih2 rfl
    refine ⟨(t1, o1) :: parts, by simp [e1], by simp [e2], fun p hp' => ?_⟩
    rcases List.mem_cons.1 hp' with rfl | hp'
    · exact h1
    · exact hp p hp'
  | _ => cases hs

theorem Derives.plus_parts {N : Type} {g : Grammar N} {a : Sym N} {ts out : List Tok} (h : Derives g (.plus a) ts out) :
    ∃ parts : List (List Tok × List Tok), parts ≠ [] ∧ ts = parts.flatMap (·.1) ∧ out = parts.flatMap (·.2) ∧
      ∀ p ∈ parts, Derives g a p.1 p.2 := by
  cases h with
  | plus h1 h2 =>
    obtain ⟨parts, e1, e2, hp⟩ := h2.star_parts
    rename_i t1 t2 o1 o2
    refine ⟨(t1, o1) :: parts, by simp, by simp [e1], by simp [e2], fun p hp' => ?_⟩
    rcases List.mem_cons.1 hp' with rfl | hp'
    · exact h1
    · exact hp p hp'

/-- lexer-shaped tokens: a token whose kind carries no text has the empty value -/
def TsOK (ts : List Tok) : Prop :=
  ∀ t ∈ ts, (t.kind.valued = false → t.value = []) ∧ (t.kind = .name → t.value ≠ [])

theorem TsOK.left {a b : List Tok} (h : TsOK (a ++ b)) : TsOK a := fun t ht => h t (by simp [ht])
theorem TsOK.right {a b : List Tok} (h : TsOK (a ++ b)) : TsOK b := fun t ht => h t (by simp [ht])
theorem TsOK.tail {t : Tok} {b : List Tok} (h : TsOK (t :: b)) : TsOK b := fun u hu => h u (by simp [hu])
theorem TsOK.of_flatMap {ι : Type} {f : ι → List Tok} {xs : List ι} (h : TsOK (xs.flatMap f)) : ∀ x ∈ xs, TsOK (f x) :=
  fun x hx t ht => h t (List.mem_flatMap.2 ⟨x, hx, ht⟩)

theorem kind_inv {N : Type} {g : Grammar N} {k : Kind} {ts out : List Tok} (h : Derives g (kind k) ts out) :
    ∃ t, ts = [t] ∧ out = [t] ∧ t.kind = k := by
  obtain ⟨t, e1, e2, hp⟩ := h.tok_inv
  exact ⟨t, e1, e2, by simpa using hp⟩

/-- a punctuator of lexer shape is `tP k` -/
theorem punct_inv {N : Type} {g : Grammar N} {k : Kind} {ts out : List Tok} (h : Derives g (kind k) ts out) (hok : TsOK ts)
    (hv : k.valued = false) : ts = [tP k] ∧ out = [tP k] := by
  obtain ⟨t, e1, e2, hk⟩ := kind_inv h
  have hval : t.value = [] := (hok t (by simp [e1])).1 (by rw [hk]; exact hv)
  have : t = tP k := by cases t; simp_all [tP]
  subst this
  exact ⟨e1, e2⟩

theorem kw_inv {N : Type} {g : Grammar N} {s : String} {ts out : List Tok} (h : Derives g (kw (str s)) ts out) :
    ts = [tKw s] ∧ out = [tKw s] := by
  obtain ⟨t, e1, e2, hp⟩ := h.tok_inv
  simp only [Bool.and_eq_true, beq_iff_eq] at hp
  have : t = tKw s := by cases t; simp_all [tKw]
  subst this
  exact ⟨e1, e2⟩

theorem name_inv {ts out : List Tok} (h : Derives gql (.nt .name) ts out) : ∃ n, ts = [tName n] ∧ out = [tName n] := by
  obtain ⟨t, e1, e2, hk⟩ := kind_inv h.nt_inv
  refine ⟨t.value, ?_, ?_⟩ <;> (cases t; simp_all [tName])

end Gql.Grammar
