import GqlProofs.Grammar.Sound
/-
  Completeness of the generic recogniser at its standard fuel, for the GraphQL grammar.

  * `DerivesH g h s ts o` — height-indexed derivations that follow the matcher's use of fuel
    (one unit per constructor; `plus a` goes through `seq a (star a)`; iterations of a repetition
    derive at least one token).
  * `matchSym_complete` (any grammar): a derivation of height `h` is found with fuel `h` — the
    matcher returns a result with exactly this remainder (possibly with another canonical output;
    `dedup` keeps one result per remainder).
  * `derivesH_of_derives` (the GraphQL grammar): every derivation of `ts` from a symbol `s` has
    height at most `depth s + 64 * ts.length`, where `depth` is a static measure that credits 64
    units for every token a sequence derives before it descends (`depth_table`: checked by
    evaluation on the 75 productions).
  * `recognises_complete`: `Derivable gql n ts → recognises gql n ts = true`; with
    `recognises_sound` the recogniser DECIDES the grammar (`recognises_iff`).
-/
namespace Gql.Grammar
open Gql Gql.Lexer

/-! ### generic part -/

inductive DerivesH {N : Type} (g : Grammar N) : Nat → Sym N → List Tok → List Tok → Prop
  | tok {h : Nat} {p : Tok → Bool} {t : Tok} : p t = true → DerivesH g (h + 1) (.tok p) [t] [t]
  | nt {h : Nat} {n : N} {ts out : List Tok} : DerivesH g h (g.rules n) ts out → DerivesH g (h + 1) (.nt n) ts out
  | eps {h : Nat} : DerivesH g (h + 1) .eps [] []
  | seq {h : Nat} {a b : Sym N} {t1 t2 o1 o2 : List Tok} :
      DerivesH g h a t1 o1 → DerivesH g h b t2 o2 → DerivesH g (h + 1) (.seq a b) (t1 ++ t2) (o1 ++ o2)
  | altL {h : Nat} {a b : Sym N} {ts out : List Tok} : DerivesH g h a ts out → DerivesH g (h + 1) (.alt a b) ts out
  | altR {h : Nat} {a b : Sym N} {ts out : List Tok} : DerivesH g h b ts out → DerivesH g (h + 1) (.alt a b) ts out
  | optNone {h : Nat} {a : Sym N} : DerivesH g (h + 1) (.opt a) [] []
  | optSome {h : Nat} {a : Sym N} {ts out : List Tok} : DerivesH g h a ts out → DerivesH g (h + 1) (.opt a) ts out
  | starNil {h : Nat} {a : Sym N} : DerivesH g (h + 1) (.star a) [] []
  | starCons {h : Nat} {a : Sym N} {t1 t2 o1 o2 : List Tok} : t1 ≠ [] →
      DerivesH g h a t1 o1 → DerivesH g h (.star a) t2 o2 → DerivesH g (h + 1) (.star a) (t1 ++ t2) (o1 ++ o2)
  | plus {h : Nat} {a : Sym N} {ts out : List Tok} :
      DerivesH g h (.seq a (.star a)) ts out → DerivesH g (h + 1) (.plus a) ts out
  | canon {h : Nat} {f : List Tok → List Tok} {a : Sym N} {ts out : List Tok} :
      DerivesH g h a ts out → DerivesH g (h + 1) (.canon f a) ts (f out)

theorem DerivesH.succ {N : Type} {g : Grammar N} {h : Nat} {s : Sym N} {ts o : List Tok}
    (d : DerivesH g h s ts o) : DerivesH g (h + 1) s ts o := by
  induction d with
  | tok hp => exact .tok hp
  | nt _ ih => exact .nt ih
  | eps => exact .eps
  | seq _ _ ih1 ih2 => exact .seq ih1 ih2
  | altL _ ih => exact .altL ih
  | altR _ ih => exact .altR ih
  | optNone => exact .optNone
  | optSome _ ih => exact .optSome ih
  | starNil => exact .starNil
  | starCons hne _ _ ih1 ih2 => exact .starCons hne ih1 ih2
  | plus _ ih => exact .plus ih
  | canon _ ih => exact .canon ih

theorem DerivesH.mono {N : Type} {g : Grammar N} {h h' : Nat} {s : Sym N} {ts o : List Tok}
    (d : DerivesH g h s ts o) (hle : h ≤ h') : DerivesH g h' s ts o := by
  induction hle with
  | refl => exact d
  | step _ ih => exact ih.succ

theorem DerivesH.derives {N : Type} {g : Grammar N} {h : Nat} {s : Sym N} {ts o : List Tok}
    (d : DerivesH g h s ts o) : Derives g s ts o := by
  induction d with
  | tok hp => exact .tok hp
  | nt _ ih => exact .nt ih
  | eps => exact .eps
  | seq _ _ ih1 ih2 => exact .seq ih1 ih2
  | altL _ ih => exact .altL ih
  | altR _ ih => exact .altR ih
  | optNone => exact .optNone
  | optSome _ ih => exact .optSome ih
  | starNil => exact .starNil
  | starCons _ _ _ ih1 ih2 => exact .starCons ih1 ih2
  | plus _ ih =>
    obtain ⟨t1, t2, o1, o2, rfl, rfl, d1, d2⟩ := Derives.seq_inv ih
    exact .plus d1 d2
  | canon _ ih => exact .canon ih

/-- `dedup` keeps a result for every remainder length -/
theorem dedup_keeps {l : List Res} {x : Res} (hx : x ∈ l) : ∃ y ∈ dedup l, y.2.length = x.2.length := by
  induction l with
  | nil => cases hx
  | cons r rs ih =>
    rcases List.mem_cons.mp hx with rfl | hx
    · exact ⟨x, by simp [dedup], rfl⟩
    · obtain ⟨y, hy, hl⟩ := ih hx
      by_cases hr : y.2.length = r.2.length
      · exact ⟨r, by simp [dedup], by rw [← hr, hl]⟩
      · refine ⟨y, ?_, hl⟩
        simp only [dedup, List.mem_cons, List.mem_filter]
        exact Or.inr ⟨hy, by simpa using hr⟩

theorem suffix_eq {α : Type} {p1 r1 p2 r2 : List α} (h : p1 ++ r1 = p2 ++ r2) (hl : r1.length = r2.length) :
    r1 = r2 := by
  have h1 : (p1 ++ r1).length = (p2 ++ r2).length := by rw [h]
  simp only [List.length_append] at h1
  have hp : p1.length = p2.length := by omega
  exact (List.append_inj h hp).2

/-- a result the matcher is bound to contain: some output with exactly the remainder `rest` -/
def Finds {N : Type} (g : Grammar N) (n : Nat) (s : Sym N) (inp rest : List Tok) : Prop :=
  ∃ o, (o, rest) ∈ matchSym g n s inp

/-- after `dedup` there is still a result with the remainder `rest`, when all candidates come from
    sound matches on `pre ++ rest` -/
theorem finds_dedup {l : List Res} {pre rest : List Tok} {x : Res} (hx : x ∈ l) (hr : x.2 = rest)
    (hsuf : ∀ y ∈ l, ∃ p, pre ++ rest = p ++ y.2) : ∃ o, (o, rest) ∈ dedup l := by
  obtain ⟨y, hy, hl⟩ := dedup_keeps hx
  obtain ⟨p, hp⟩ := hsuf y (mem_dedup hy)
  have : y.2 = rest := (suffix_eq hp (by rw [hl, hr])).symm
  exact ⟨y.1, by rw [← this]; exact hy⟩

theorem matchSym_complete {N : Type} (g : Grammar N) {h : Nat} {s : Sym N} {ts o : List Tok}
    (d : DerivesH g h s ts o) : ∀ rest, Finds g h s (ts ++ rest) rest := by
  induction d with
  | @tok h p t hp => intro rest; exact ⟨[t], by simp [matchSym, hp]⟩
  | nt _ ih => intro rest; obtain ⟨o, ho⟩ := ih rest; exact ⟨o, by simpa [matchSym] using ho⟩
  | eps => intro rest; exact ⟨[], by simp [matchSym]⟩
  | @seq h a b t1 t2 o1 o2 _ _ ih1 ih2 =>
    intro rest
    obtain ⟨p1, h1⟩ := ih1 (t2 ++ rest)
    obtain ⟨p2, h2⟩ := ih2 rest
    rw [List.append_assoc]
    simp only [Finds, matchSym]
    refine finds_dedup (pre := t1 ++ t2) (x := (p1 ++ p2, rest)) ?_ rfl ?_
    · simp only [List.mem_flatMap, List.mem_map]
      exact ⟨(p1, t2 ++ rest), h1, (p2, rest), h2, rfl⟩
    · intro y hy
      simp only [List.mem_flatMap, List.mem_map] at hy
      obtain ⟨r1, hr1, r2, hr2, rfl⟩ := hy
      obtain ⟨q1, e1, _⟩ := matchSym_sound g _ _ _ _ hr1
      obtain ⟨q2, e2, _⟩ := matchSym_sound g _ _ _ _ hr2
      exact ⟨q1 ++ q2, by rw [List.append_assoc, e1, e2, List.append_assoc]⟩
  | @altL h a b ts out _ ih =>
    intro rest
    obtain ⟨p, hp⟩ := ih rest
    simp only [Finds, matchSym]
    refine finds_dedup (pre := ts) (x := (p, rest)) (List.mem_append_left _ hp) rfl ?_
    intro y hy
    rcases List.mem_append.mp hy with hy | hy <;>
      (obtain ⟨q, e, _⟩ := matchSym_sound g _ _ _ _ hy; exact ⟨q, e⟩)
  | @altR h a b ts out _ ih =>
    intro rest
    obtain ⟨p, hp⟩ := ih rest
    simp only [Finds, matchSym]
    refine finds_dedup (pre := ts) (x := (p, rest)) (List.mem_append_right _ hp) rfl ?_
    intro y hy
    rcases List.mem_append.mp hy with hy | hy <;>
      (obtain ⟨q, e, _⟩ := matchSym_sound g _ _ _ _ hy; exact ⟨q, e⟩)
  | optNone => intro rest; exact ⟨[], by simp [matchSym, dedup]⟩
  | @optSome h a ts out _ ih =>
    intro rest
    obtain ⟨p, hp⟩ := ih rest
    simp only [Finds, matchSym]
    refine finds_dedup (pre := ts) (x := (p, rest)) (List.mem_cons_of_mem _ hp) rfl ?_
    intro y hy
    rcases List.mem_cons.mp hy with rfl | hy
    · exact ⟨[], rfl⟩
    · obtain ⟨q, e, _⟩ := matchSym_sound g _ _ _ _ hy; exact ⟨q, e⟩
  | starNil => intro rest; exact ⟨[], by simp [matchSym, dedup]⟩
  | @starCons h a t1 t2 o1 o2 hne _ _ ih1 ih2 =>
    intro rest
    obtain ⟨p1, h1⟩ := ih1 (t2 ++ rest)
    obtain ⟨p2, h2⟩ := ih2 rest
    rw [List.append_assoc]
    simp only [Finds, matchSym]
    have hlt : (t2 ++ rest).length < (t1 ++ (t2 ++ rest)).length := by
      have : 0 < t1.length := List.length_pos_iff.mpr hne
      simp only [List.length_append]; omega
    refine finds_dedup (pre := t1 ++ t2) (x := (p1 ++ p2, rest)) ?_ rfl ?_
    · refine List.mem_cons_of_mem _ ?_
      simp only [List.mem_flatMap]
      refine ⟨(p1, t2 ++ rest), h1, ?_⟩
      rw [if_pos hlt]
      exact List.mem_map.mpr ⟨(p2, rest), h2, rfl⟩
    · intro y hy
      rcases List.mem_cons.mp hy with rfl | hy
      · exact ⟨[], by simp⟩
      · simp only [List.mem_flatMap] at hy
        obtain ⟨r1, hr1, hy⟩ := hy
        split at hy
        · obtain ⟨r2, hr2, rfl⟩ := List.mem_map.mp hy
          obtain ⟨q1, e1, _⟩ := matchSym_sound g _ _ _ _ hr1
          obtain ⟨q2, e2, _⟩ := matchSym_sound g _ _ _ _ hr2
          exact ⟨q1 ++ q2, by rw [List.append_assoc, e1, e2, List.append_assoc]⟩
        · cases hy
  | plus _ ih => intro rest; obtain ⟨o, ho⟩ := ih rest; exact ⟨o, by simpa [matchSym] using ho⟩
  | @canon h f a ts out _ ih =>
    intro rest
    obtain ⟨p, hp⟩ := ih rest
    exact ⟨f p, by simp only [matchSym]; exact List.mem_map.mpr ⟨(p, rest), hp, rfl⟩⟩

theorem parseWith_complete {N : Type} (g : Grammar N) {h : Nat} {n : N} {ts o : List Tok}
    (d : DerivesH g h (.nt n) ts o) : (parseWith g h n ts).isSome = true := by
  obtain ⟨p, hp⟩ := matchSym_complete g d []
  rw [List.append_nil] at hp
  unfold parseWith
  rw [Option.isSome_map]
  cases hf : (matchSym g h (.nt n) ts).find? fun r => r.2.isEmpty with
  | some _ => rfl
  | none =>
    have := List.find?_eq_none.mp hf _ hp
    simp at this

/-! ### the GraphQL grammar: heights are linear in the number of tokens -/

/-- a lower bound on the number of tokens a symbol derives (every nonterminal derives one) -/
def minlen : Sym NT → Nat
  | .tok _ => 1 | .nt _ => 1 | .eps => 0
  | .seq a b => minlen a + minlen b
  | .alt a b => min (minlen a) (minlen b)
  | .opt _ => 0 | .star _ => 0 | .plus a => minlen a | .canon _ a => minlen a

theorem minlen_rules (n : NT) : 1 ≤ minlen (gqlRules n) := by
  cases n <;> first | decide | (rename_i c; cases c <;> decide)

theorem minlen_le {s : Sym NT} {ts o : List Tok} (d : Derives gql s ts o) : minlen s ≤ ts.length := by
  induction d with
  | tok _ => simp [minlen]
  | @nt n _ _ _ ih => exact Nat.le_trans (minlen_rules n) ih
  | eps => simp [minlen]
  | seq _ _ ih1 ih2 => simp only [minlen, List.length_append]; omega
  | altL _ ih => simp only [minlen]; omega
  | altR _ ih => simp only [minlen]; omega
  | optNone => simp [minlen]
  | optSome _ _ => simp [minlen]
  | starNil => simp [minlen]
  | starCons _ _ _ _ => simp [minlen]
  | plus _ _ ih1 _ => simp only [minlen, List.length_append]; omega
  | canon _ ih => exact ih

/-- height of each nonterminal's derivations of ONE token's worth of input (least solution of
    `depth_table`, computed by iteration) -/
def ntDepth : NT → Nat
  | .name => 2 | .value true => 12 | .value false => 13 | .booleanValue => 3 | .nullValue => 2 | .enumValue => 2
  | .listValue _ => 4 | .objectValue _ => 4 | .objectField _ => 4 | .var => 3 | .defaultValue => 3
  | .typ => 9 | .namedType => 3 | .listType => 3 | .nonNullType => 6
  | .directives _ => 6 | .directive _ => 3 | .arguments _ => 3 | .argument _ => 4 | .operationType => 4
  | .executableDocument => 13 | .executableDefinition => 10 | .operationDefinition => 8 | .selectionSet => 3
  | .selection => 10 | .field => 8 | .alias => 4 | .fragmentSpread => 3 | .inlineFragment => 3
  | .fragmentDefinition => 3 | .fragmentName => 2 | .typeCondition => 3 | .variableDefinitions => 3
  | .variableDefinition => 5
  | .typeSystemDocument => 21 | .typeSystemDefinitionOrExtension => 18 | .typeSystemDefinition => 16
  | .typeSystemExtension => 12 | .description => 3 | .schemaDefinition => 6 | .rootOperationTypeDefinition => 6
  | .schemaExtension => 4 | .typeDefinition => 13 | .typeExtension => 10 | .scalarTypeDefinition => 6
  | .scalarTypeExtension => 3 | .objectTypeDefinition => 7 | .objectTypeExtension => 5 | .implementsInterfaces => 3
  | .fieldsDefinition => 3 | .fieldDefinition => 6 | .argumentsDefinition => 3 | .inputValueDefinition => 6
  | .interfaceTypeDefinition => 7 | .interfaceTypeExtension => 5 | .unionTypeDefinition => 6 | .unionMemberTypes => 3
  | .unionTypeExtension => 4 | .enumTypeDefinition => 7 | .enumValuesDefinition => 3 | .enumValueDefinition => 6
  | .enumTypeExtension => 4 | .inputObjectTypeDefinition => 7 | .inputFieldsDefinition => 3
  | .inputObjectTypeExtension => 4 | .directiveDefinition => 6 | .directiveLocations => 5 | .directiveLocation => 2

/-- static height of a symbol; the second part of a sequence is credited 64 units for every token
    the first part is bound to derive -/
def depth : Sym NT → Nat
  | .tok _ => 1 | .nt n => ntDepth n | .eps => 1
  | .seq a b => 1 + max (depth a) (depth b - 64 * minlen a)
  | .alt a b => 1 + max (depth a) (depth b)
  | .opt a => 1 + depth a
  | .star a => 1 + depth a
  | .plus a => 2 + max (depth a) (1 + depth a - 64 * minlen a)
  | .canon _ a => 1 + depth a

theorem depth_table (n : NT) : 1 + depth (gqlRules n) ≤ ntDepth n := by
  cases n <;> first | decide | (rename_i c; cases c <;> decide)

theorem ntDepth_le (n : NT) : ntDepth n ≤ 128 := by
  cases n <;> first | decide | (rename_i c; cases c <;> decide)

/-- every derivation has a height-bounded counterpart (iterations of a repetition that derive no
    token are dropped, so the canonical output may differ in general) -/
theorem derivesH_of_derives {s : Sym NT} {ts o : List Tok} (d : Derives gql s ts o) :
    ∃ o', DerivesH gql (depth s + 64 * ts.length) s ts o' := by
  induction d with
  | tok hp => exact ⟨_, .tok hp⟩
  | @nt n ts _ _ ih =>
    obtain ⟨o', ih⟩ := ih
    have : 1 + depth (gql.rules n) ≤ ntDepth n := depth_table n
    refine ⟨o', ?_⟩
    have e : depth (.nt n) + 64 * ts.length = (ntDepth n - 1 + 64 * ts.length) + 1 := by simp only [depth]; omega
    rw [e]
    exact .nt (ih.mono (by omega))
  | eps => exact ⟨_, .eps⟩
  | @seq a b t1 t2 _ _ d1 _ ih1 ih2 =>
    obtain ⟨p1, ih1⟩ := ih1
    obtain ⟨p2, ih2⟩ := ih2
    have hm := minlen_le d1
    refine ⟨p1 ++ p2, ?_⟩
    have e : depth (.seq a b) + 64 * (t1 ++ t2).length =
        (max (depth a) (depth b - 64 * minlen a) + 64 * (t1.length + t2.length)) + 1 := by
      simp only [depth, List.length_append]; omega
    rw [e]
    exact .seq (ih1.mono (by omega)) (ih2.mono (by omega))
  | @altL a b ts _ _ ih =>
    obtain ⟨p, ih⟩ := ih
    refine ⟨p, ?_⟩
    have e : depth (.alt a b) + 64 * ts.length = (max (depth a) (depth b) + 64 * ts.length) + 1 := by
      simp only [depth]; omega
    rw [e]; exact .altL (ih.mono (by omega))
  | @altR a b ts _ _ ih =>
    obtain ⟨p, ih⟩ := ih
    refine ⟨p, ?_⟩
    have e : depth (.alt a b) + 64 * ts.length = (max (depth a) (depth b) + 64 * ts.length) + 1 := by
      simp only [depth]; omega
    rw [e]; exact .altR (ih.mono (by omega))
  | optNone => exact ⟨_, (DerivesH.optNone (h := 0)).mono (by simp only [depth]; omega)⟩
  | @optSome a ts _ _ ih =>
    obtain ⟨p, ih⟩ := ih
    refine ⟨p, ?_⟩
    have e : depth (.opt a) + 64 * ts.length = (depth a + 64 * ts.length) + 1 := by simp only [depth]; omega
    rw [e]; exact .optSome ih
  | starNil => exact ⟨_, (DerivesH.starNil (h := 0)).mono (by simp only [depth]; omega)⟩
  | @starCons a t1 t2 _ _ _ _ ih1 ih2 =>
    obtain ⟨p1, ih1⟩ := ih1
    obtain ⟨p2, ih2⟩ := ih2
    by_cases hne : t1 = []
    · subst hne
      exact ⟨p2, by simpa using ih2⟩
    · have : 0 < t1.length := List.length_pos_iff.mpr hne
      refine ⟨p1 ++ p2, ?_⟩
      have e : depth (.star a) + 64 * (t1 ++ t2).length = (depth a + 64 * (t1.length + t2.length)) + 1 := by
        simp only [depth, List.length_append]; omega
      rw [e]
      refine .starCons hne (ih1.mono (by omega)) (ih2.mono ?_)
      simp only [depth]; omega
  | @plus a t1 t2 _ _ d1 _ ih1 ih2 =>
    obtain ⟨p1, ih1⟩ := ih1
    obtain ⟨p2, ih2⟩ := ih2
    have hm := minlen_le d1
    refine ⟨p1 ++ p2, ?_⟩
    have e : depth (.plus a) + 64 * (t1 ++ t2).length =
        ((max (depth a) (1 + depth a - 64 * minlen a) + 64 * (t1.length + t2.length)) + 1) + 1 := by
      simp only [depth, List.length_append]; omega
    rw [e]
    refine .plus (.seq (ih1.mono (by omega)) (ih2.mono ?_))
    simp only [depth]; omega
  | @canon f a ts _ _ ih =>
    obtain ⟨p, ih⟩ := ih
    refine ⟨f p, ?_⟩
    have e : depth (.canon f a) + 64 * ts.length = (depth a + 64 * ts.length) + 1 := by simp only [depth]; omega
    rw [e]; exact .canon ih

/-- **the recogniser is complete at its standard fuel** -/
theorem recognises_complete (n : NT) (ts : List Tok) (h : Derivable gql n ts) : recognises gql n ts = true := by
  obtain ⟨o, d⟩ := h
  obtain ⟨o', dh⟩ := derivesH_of_derives d
  have hle := ntDepth_le n
  exact parseWith_complete gql (dh.mono (by simp only [depth, fuelFor]; omega))

theorem canonical_complete (n : NT) (ts : List Tok) (h : Derivable gql n ts) :
    ∃ out, canonical gql n ts = some out := Option.isSome_iff_exists.mp (recognises_complete n ts h)

/-- the recogniser decides the grammar -/
theorem recognises_iff (n : NT) (ts : List Tok) : recognises gql n ts = true ↔ Derivable gql n ts :=
  ⟨recognises_sound gql n ts, recognises_complete n ts⟩

end Gql.Grammar
