import GqlModel.Syntax.Print
/-
  `L s ts` : `ts` is a sentence of symbol `s` of the GraphQL grammar AND is its own canonical
  form (`Derives gql s ts ts`).  Combinators for building such derivations of printed trees.
-/
namespace Gql.Grammar
open Gql Gql.Lexer Gql.Print

def L (s : Sym NT) (ts : List Tok) : Prop := Derives gql s ts ts

namespace L

theorem tok {p : Tok → Bool} {t : Tok} (h : p t = true) : L (.tok p) [t] := Derives.tok h
theorem nt {n : NT} {ts : List Tok} (h : L (gqlRules n) ts) : L (.nt n) ts := Derives.nt h
theorem eps : L .eps [] := Derives.eps
theorem seq {a b : Sym NT} {t1 t2 : List Tok} (h1 : L a t1) (h2 : L b t2) : L (.seq a b) (t1 ++ t2) :=
  Derives.seq h1 h2
theorem cons {a b : Sym NT} {t : Tok} {ts : List Tok} (h1 : L a [t]) (h2 : L b ts) : L (.seq a b) (t :: ts) := by
  simpa using seq h1 h2
theorem altL {a b : Sym NT} {ts : List Tok} (h : L a ts) : L (.alt a b) ts := Derives.altL h
theorem altR {a b : Sym NT} {ts : List Tok} (h : L b ts) : L (.alt a b) ts := Derives.altR h
theorem optNone {a : Sym NT} : L (.opt a) [] := Derives.optNone
theorem optSome {a : Sym NT} {ts : List Tok} (h : L a ts) : L (.opt a) ts := Derives.optSome h
theorem starNil {a : Sym NT} : L (.star a) [] := Derives.starNil
theorem starCons {a : Sym NT} {t1 t2 : List Tok} (h1 : L a t1) (h2 : L (.star a) t2) : L (.star a) (t1 ++ t2) :=
  Derives.starCons h1 h2
theorem plus {a : Sym NT} {t1 t2 : List Tok} (h1 : L a t1) (h2 : L (.star a) t2) : L (.plus a) (t1 ++ t2) :=
  Derives.plus h1 h2
/-- a `canon` node keeps the sentence canonical when its rewriting leaves it unchanged -/
theorem canon {f : List Tok → List Tok} {a : Sym NT} {ts : List Tok} (h : L a ts) (hf : f ts = ts) :
    L (.canon f a) ts := by
  have := Derives.canon (f := f) h
  rw [hf] at this
  exact this

/-- a sentence in the sense of `L` is derivable -/
theorem derivable {n : NT} {ts : List Tok} (h : L (.nt n) ts) : Derivable gql n ts := ⟨ts, h⟩

/-- `x*` over the items of a list -/
theorem star_flatMap {α : Type} {a : Sym NT} {f : α → List Tok} :
    ∀ xs : List α, (∀ x ∈ xs, L a (f x)) → L (.star a) (xs.flatMap f)
  | [], _ => by simpa using starNil
  | x :: xs, h => by
    simp only [List.flatMap_cons]
    exact starCons (h x (by simp)) (star_flatMap xs fun y hy => h y (by simp [hy]))

/-- `x+` over the items of a non-empty list -/
theorem plus_flatMap {α : Type} {a : Sym NT} {f : α → List Tok} (xs : List α) (hne : xs ≠ [])
    (h : ∀ x ∈ xs, L a (f x)) : L (.plus a) (xs.flatMap f) := by
  cases xs with
  | nil => exact absurd rfl hne
  | cons x xs =>
    simp only [List.flatMap_cons]
    exact plus (h x (by simp)) (star_flatMap xs fun y hy => h y (by simp [hy]))

/-- `x+` over the concatenation of a non-empty list of sentences -/
theorem plus_flatten {a : Sym NT} (xs : List (List Tok)) (hne : xs ≠ []) (h : ∀ x ∈ xs, L a x) :
    L (.plus a) xs.flatten := by
  have := plus_flatMap (f := id) xs hne h
  simpa [List.flatMap_id] using this

/-! ### terminals -/

theorem kind (k : Kind) : L (Grammar.kind k) [tP k] := tok (by simp [tP])
theorem kw (s : String) : L (Grammar.kw (str s)) [tKw s] := tok (by simp [tKw])
theorem name (n : Name) : L (.nt .name) [tName n] := nt (tok (by simp [tName]))
theorem namedType (n : Name) : L (.nt .namedType) [tName n] := nt (name n)

/-- `t rest…` where the first symbol is a terminal -/
theorem kindCons {b : Sym NT} (k : Kind) {ts : List Tok} (h : L b ts) : L (.seq (Grammar.kind k) b) (tP k :: ts) :=
  cons (kind k) h
theorem kwCons {b : Sym NT} (s : String) {ts : List Tok} (h : L b ts) : L (.seq (Grammar.kw (str s)) b) (tKw s :: ts) :=
  cons (kw s) h
theorem nameCons {b : Sym NT} (n : Name) {ts : List Tok} (h : L b ts) : L (.seq (.nt .name) b) (tName n :: ts) :=
  cons (name n) h

/-- `a? rest` where the optional part is absent -/
theorem skipOpt {a b : Sym NT} {ts : List Tok} (h : L b ts) : L (.seq (.opt a) b) ts := by
  simpa using seq (optNone (a := a)) h

/-- `noise(a?) rest` where the optional noise is absent -/
theorem skipNoise {a b : Sym NT} {ts : List Tok} (h : L b ts) : L (.seq (Grammar.noise (.opt a)) b) ts := by
  have := seq (canon (f := fun _ => []) (optNone (a := a)) rfl) h
  rw [List.nil_append] at this
  exact this

end L
end Gql.Grammar
