import GqlModel.Syntax.Grammar
/-
  Soundness of the generic recogniser: whatever `matchSym` returns is a derivation
  (`Derives`) of the consumed prefix with the returned canonical form.  Consequently a `1` from
  the driver ops `gq` / `gs` is a derivation in the grammar, and the token list printed by
  `gqc` / `gsc` is the canonical form of one.
-/
namespace Gql.Grammar

theorem mem_dedup {l : List Res} {x : Res} : x ∈ dedup l → x ∈ l := by
  induction l with
  | nil => simp [dedup]
  | cons r rs ih =>
    simp only [dedup, List.mem_cons, List.mem_filter]
    intro h
    rcases h with h | ⟨h, _⟩
    · exact Or.inl h
    · exact Or.inr (ih h)

theorem Derives.seq_inv {N : Type} {g : Grammar N} {a b : Sym N} {ts out : List Tok}
    (h : Derives g (.seq a b) ts out) :
    ∃ t1 t2 o1 o2, ts = t1 ++ t2 ∧ out = o1 ++ o2 ∧ Derives g a t1 o1 ∧ Derives g b t2 o2 := by
  cases h with
  | seq d1 d2 => exact ⟨_, _, _, _, rfl, rfl, d1, d2⟩

theorem matchSym_sound {N : Type} (g : Grammar N) :
    ∀ (n : Nat) (s : Sym N) (ts : List Tok) (r : Res),
      r ∈ matchSym g n s ts → ∃ pre, ts = pre ++ r.2 ∧ Derives g s pre r.1 := by
  intro n
  induction n with
  | zero => intro s ts r h; simp [matchSym] at h
  | succ n ih =>
    intro s ts r h
    cases s with
    | tok p =>
      cases ts with
      | nil => simp [matchSym] at h
      | cons t ts' =>
        simp only [matchSym] at h
        split at h
        · rename_i hp
          simp only [List.mem_singleton] at h
          subst h
          exact ⟨[t], rfl, .tok hp⟩
        · simp at h
    | nt x =>
      simp only [matchSym] at h
      obtain ⟨pre, h1, h2⟩ := ih _ _ _ h
      exact ⟨pre, h1, .nt h2⟩
    | eps =>
      simp only [matchSym, List.mem_singleton] at h
      subst h
      exact ⟨[], rfl, .eps⟩
    | seq a b =>
      simp only [matchSym] at h
      have h := mem_dedup h
      simp only [List.mem_flatMap, List.mem_map] at h
      obtain ⟨r1, hr1, r2, hr2, rfl⟩ := h
      obtain ⟨p1, e1, d1⟩ := ih _ _ _ hr1
      obtain ⟨p2, e2, d2⟩ := ih _ _ _ hr2
      refine ⟨p1 ++ p2, ?_, .seq d1 d2⟩
      simp only [List.append_assoc]
      rw [← e2]; exact e1
    | alt a b =>
      simp only [matchSym] at h
      have h := mem_dedup h
      simp only [List.mem_append] at h
      rcases h with h | h
      · obtain ⟨pre, h1, h2⟩ := ih _ _ _ h
        exact ⟨pre, h1, .altL h2⟩
      · obtain ⟨pre, h1, h2⟩ := ih _ _ _ h
        exact ⟨pre, h1, .altR h2⟩
    | opt a =>
      simp only [matchSym] at h
      have h := mem_dedup h
      simp only [List.mem_cons] at h
      rcases h with h | h
      · subst h; exact ⟨[], rfl, .optNone⟩
      · obtain ⟨pre, h1, h2⟩ := ih _ _ _ h
        exact ⟨pre, h1, .optSome h2⟩
    | star a =>
      simp only [matchSym] at h
      have h := mem_dedup h
      simp only [List.mem_cons, List.mem_flatMap] at h
      rcases h with h | ⟨r1, hr1, h⟩
      · subst h; exact ⟨[], rfl, .starNil⟩
      · split at h
        · simp only [List.mem_map] at h
          obtain ⟨r2, hr2, rfl⟩ := h
          obtain ⟨p1, e1, d1⟩ := ih _ _ _ hr1
          obtain ⟨p2, e2, d2⟩ := ih _ _ _ hr2
          refine ⟨p1 ++ p2, ?_, .starCons d1 d2⟩
          simp only [List.append_assoc]
          rw [← e2]; exact e1
        · simp at h
    | plus a =>
      simp only [matchSym] at h
      obtain ⟨pre, h1, h2⟩ := ih _ _ _ h
      obtain ⟨t1, t2, o1, o2, e1, e2, d1, d2⟩ := h2.seq_inv
      refine ⟨pre, h1, ?_⟩
      rw [e1, e2]; exact .plus d1 d2
    | canon f a =>
      simp only [matchSym, List.mem_map] at h
      obtain ⟨r1, hr1, rfl⟩ := h
      obtain ⟨pre, h1, h2⟩ := ih _ _ _ hr1
      exact ⟨pre, h1, .canon h2⟩

/-- the canonical form computed by the recogniser belongs to a derivation of the whole input -/
theorem parseWith_sound {N : Type} (g : Grammar N) (fuel : Nat) (start : N) (ts out : List Tok)
    (h : parseWith g fuel start ts = some out) : Derives g (.nt start) ts out := by
  unfold parseWith at h
  simp only [Option.map_eq_some_iff] at h
  obtain ⟨r, hr, rfl⟩ := h
  have hm := List.mem_of_find?_eq_some hr
  have he := List.find?_some hr
  obtain ⟨pre, e, d⟩ := matchSym_sound g _ _ _ _ hm
  have : r.2 = [] := by simpa using he
  rw [this, List.append_nil] at e
  rw [e]; exact d

theorem canonical_sound {N : Type} (g : Grammar N) (start : N) (ts out : List Tok)
    (h : canonical g start ts = some out) : Derives g (.nt start) ts out :=
  parseWith_sound g _ start ts out h

theorem recognises_sound {N : Type} (g : Grammar N) (start : N) (ts : List Tok)
    (h : recognises g start ts = true) : Derivable g start ts := by
  unfold recognises at h
  obtain ⟨out, ho⟩ := Option.isSome_iff_exists.mp h
  exact ⟨out, canonical_sound g start ts out ho⟩

end Gql.Grammar
