import GqlProofs.Format.Description
/-
  Writer-state lemmas (the pad / line-head state machine of the formatter).

  `lead cfg w` is what `WriteWord` / `WriteString` put in front of their argument in state `w`.
  A token is glued to the previous output exactly when `lead cfg w = []`.  The lemmas below say
  when that can happen: never after `WriteWord` (it sets `padNext`), unless `NoPadding` is called
  explicitly; and at a line head only a newline precedes.
-/
namespace Gql.Format
open Gql Gql.Lexer

/-- reachable-state invariant: at a line head the text written so far ends with a newline -/
def W.Inv (w : W) : Prop := w.lineHead = true → ∃ pre, w.text = pre ++ [10]

theorem inv_init : W.Inv {} := by intro h; simp at h

theorem writeWord_text (cfg : Cfg) (x : Bytes) (w : W) :
    (writeWord cfg x w).text = w.text ++ lead cfg w ++ trimSpace x := by
  obtain ⟨ch, n, p, lh⟩ := w
  cases p <;> cases lh <;> simp [writeWord, lead, writeIndent, W.raw, W.text]

theorem writeWord_state (cfg : Cfg) (x : Bytes) (w : W) :
    (writeWord cfg x w).lineHead = false ∧ (writeWord cfg x w).padNext = true ∧
    (writeWord cfg x w).indentSize = w.indentSize := by
  obtain ⟨ch, n, p, lh⟩ := w
  cases p <;> cases lh <;> simp [writeWord, writeIndent, W.raw]

/-- exactly when a write is glued to what precedes it -/
theorem lead_eq_nil_iff (cfg : Cfg) (w : W) :
    lead cfg w = [] ↔ (w.lineHead = false ∧ w.padNext = false) ∨
      (w.lineHead = true ∧ repeatBytes cfg.indent w.indentSize = []) := by
  obtain ⟨ch, n, p, lh⟩ := w
  cases p <;> cases lh <;> simp [lead]

/-- `WriteWord` then `WriteWord`: the two words are separated by exactly one space. -/
theorem writeWord_writeWord (cfg : Cfg) (a b : Bytes) (w : W) :
    (writeWord cfg b (writeWord cfg a w)).text
      = w.text ++ lead cfg w ++ trimSpace a ++ [32] ++ trimSpace b := by
  have s := writeWord_state cfg a w
  rw [writeWord_text, writeWord_text]
  simp [lead, s.1, s.2.1]

/-- `WriteWord` then `WriteString`: separated by one space as well -/
theorem writeWord_writeStr (cfg : Cfg) (a s : Bytes) (w : W) :
    (writeStr cfg s (writeWord cfg a w)).text = w.text ++ lead cfg w ++ trimSpace a ++ [32] ++ s := by
  have st := writeWord_state cfg a w
  rw [writeStr_text, writeWord_text]
  simp [lead, st.1, st.2.1]

/-- after `WriteString` the next token is glued (that is how `@name`, `$var`, `name:` arise);
    `NeedPadding` in between restores the space -/
theorem writeStr_writeWord (cfg : Cfg) (s b : Bytes) (w : W) :
    (writeWord cfg b (writeStr cfg s w)).text = w.text ++ lead cfg w ++ s ++ trimSpace b := by
  have st := writeStr_state cfg s w
  rw [writeWord_text, writeStr_text]
  simp [lead, st.1, st.2.1]

theorem writeStr_needPadding_writeWord (cfg : Cfg) (s b : Bytes) (w : W) :
    (writeWord cfg b (needPadding (writeStr cfg s w))).text = w.text ++ lead cfg w ++ s ++ [32] ++ trimSpace b := by
  have st := writeStr_state cfg s w
  rw [writeWord_text]
  have : (needPadding (writeStr cfg s w)).text = (writeStr cfg s w).text := rfl
  rw [this, writeStr_text]
  simp [lead, needPadding, st.1]

/-- after a newline every write starts with the indentation, whatever the pad flag says -/
theorem writeNewline_writeWord (cfg : Cfg) (b : Bytes) (w : W) :
    (writeWord cfg b (writeNewline w)).text
      = w.text ++ [10] ++ repeatBytes cfg.indent w.indentSize ++ trimSpace b := by
  have st := writeNewline_state w
  rw [writeWord_text, writeNewline_text]
  simp [lead, st.1, st.2.2]

/- the invariant is kept by every primitive -/
theorem inv_writeNewline (w : W) : (writeNewline w).Inv := by
  intro _; exact ⟨w.text, writeNewline_text w⟩

theorem inv_writeWord (cfg : Cfg) (x : Bytes) (w : W) : (writeWord cfg x w).Inv := by
  intro h; rw [(writeWord_state cfg x w).1] at h; simp at h

theorem inv_writeStr (cfg : Cfg) (x : Bytes) (w : W) : (writeStr cfg x w).Inv := by
  intro h; rw [(writeStr_state cfg x w).1] at h; simp at h

theorem inv_flags (w : W) (h : w.Inv) : (noPadding w).Inv ∧ (needPadding w).Inv ∧ (incIndent w).Inv ∧ (decIndent w).Inv :=
  ⟨h, h, h, h⟩

/-- The boundary lemma of the pad state machine: in a reachable state, whatever `WriteWord`
    writes is preceded by a space, or by a newline and the indentation, unless the pad flag is
    off in the middle of a line (which only `WriteString`, `writeIndent` and an explicit
    `NoPadding` bring about). -/
theorem writeWord_boundary (cfg : Cfg) (x : Bytes) (w : W) (hinv : w.Inv) :
    (w.lineHead = false ∧ w.padNext = false ∧ (writeWord cfg x w).text = w.text ++ trimSpace x) ∨
    (w.lineHead = false ∧ w.padNext = true ∧ (writeWord cfg x w).text = w.text ++ [32] ++ trimSpace x) ∨
    (∃ pre, w.text = pre ++ [10] ∧
      (writeWord cfg x w).text = pre ++ [10] ++ repeatBytes cfg.indent w.indentSize ++ trimSpace x) := by
  rw [writeWord_text]
  cases hl : w.lineHead with
  | true =>
    obtain ⟨pre, hp⟩ := hinv hl
    exact Or.inr (Or.inr ⟨pre, hp, by simp [lead, hl, hp]⟩)
  | false =>
    cases hp : w.padNext with
    | true => exact Or.inr (Or.inl ⟨rfl, rfl, by simp [lead, hl, hp]⟩)
    | false => exact Or.inl ⟨rfl, rfl, by simp [lead, hl, hp]⟩

end Gql.Format
