import GqlProofs.Format.ReloadState
import GqlProofs.Format.SkeletonInv
import GqlModel.Parser.Schema
/-
  The document that is loaded back: `prelude ⊕ P`, where `P` is — up to positions — the normalised
  document `FormatSchema` prints for the loaded schema `s` (`Reparsed cfg s P`; the parser returns such
  a `P` by `C13_schema_format_parses`).  This file computes the loader state of `prelude ⊕ P` and relates
  it, name by name, to the state `s` was made from.
-/
namespace Gql.Format
open Gql Gql.Load Gql.Parser

/-! ### hidden fields -/

theorem fieldSuppressed_eq (e : Bool) (n : Name) (p : Pos) :
    fieldSuppressed e n p = (!e && p.line == 0 && hasDunder n) := by
  unfold fieldSuppressed hasDunder
  split <;> simp_all

theorem filter_hidden_id {cfg : Cfg} {fs : List FieldDef} (h : ∀ f ∈ fs, hasDunder f.name = false) :
    fs.filter (fun f => !fieldSuppressed cfg.emitBuiltin f.name f.pos) = fs := by
  rw [List.filter_eq_self]
  intro f hf
  simp [fieldSuppressed_eq, h f hf]

theorem dropHidden_id {cfg : Cfg} {d : Definition} (h : ∀ f ∈ d.fields, hasDunder f.name = false) :
    dropHidden cfg d = d := by
  unfold dropHidden
  rw [filter_hidden_id h]

theorem dropHidden_addIntrospection {cfg : Cfg} (hb : cfg.emitBuiltin = false) {d : Definition}
    (h : ∀ f ∈ d.fields, hasDunder f.name = false) : dropHidden cfg (addIntrospection d) = d := by
  unfold dropHidden addIntrospection
  simp only [List.filter_append, filter_hidden_id h]
  have : introspectionFields.filter (fun f => !fieldSuppressed cfg.emitBuiltin f.name f.pos) = [] := by
    rw [hb]; decide
  rw [this, List.append_nil]

/-! ### what is printed -/

/-- the type definitions `FormatSchema` prints (hidden fields dropped, built-in types skipped) -/
def userDefs (cfg : Cfg) (s : Schema) : List Definition :=
  ((sortedByKey s.types).map (dropHidden cfg)).filter (keepDef cfg)

/-- the directive definitions `FormatSchema` prints -/
def userDirs (cfg : Cfg) (s : Schema) : List DirectiveDef := (sortedByKey s.directives).filter (keepDirectiveDef cfg)

/-- `P` is, up to positions, the normalised document `FormatSchema` prints for `s`, read as a user source -/
def Reparsed (cfg : Cfg) (s : Schema) (P : SchemaDoc) : Prop :=
  P.erasePos = (setBuiltIn false (normSchemaDoc cfg (docOfSchema cfg s))).erasePos

section Components
variable {cfg : Cfg} {s : Schema} {P : SchemaDoc} (h : Reparsed cfg s P)
include h

theorem Reparsed.definitions :
    P.definitions.map Definition.erasePos =
      (userDefs cfg s).map fun x => ({ normDef cfg x with builtIn := false } : Definition).erasePos := by
  have := congrArg SchemaDoc.definitions h
  simpa [SchemaDoc.erasePos, setBuiltIn, normSchemaDoc, docOfSchema, userDefs, List.map_map, Function.comp_def] using this

theorem Reparsed.extensions : P.extensions = [] := by
  have := congrArg SchemaDoc.extensions h
  simpa [SchemaDoc.erasePos, setBuiltIn, normSchemaDoc, docOfSchema, docOfSchemaRaw] using this

theorem Reparsed.directives :
    P.directives.map DirectiveDef.erasePos = (userDirs cfg s).map fun x => (normDirectiveDef cfg x).erasePos := by
  have := congrArg SchemaDoc.directives h
  simpa [SchemaDoc.erasePos, setBuiltIn, normSchemaDoc, docOfSchema, docOfSchemaRaw, userDirs, List.map_map,
    Function.comp_def] using this

theorem Reparsed.schema :
    P.schema.map SchemaDef.erasePos = (mergeSchemaDefs cfg (docOfSchemaRaw s).schema).map SchemaDef.erasePos := by
  have := congrArg SchemaDoc.schema h
  simpa [SchemaDoc.erasePos, setBuiltIn, normSchemaDoc, docOfSchema] using this

theorem Reparsed.schemaExt :
    P.schemaExt.map SchemaDef.erasePos = (mergeSchemaDefs cfg (docOfSchemaRaw s).schemaExt).map SchemaDef.erasePos := by
  have := congrArg SchemaDoc.schemaExt h
  simpa [SchemaDoc.erasePos, setBuiltIn, normSchemaDoc, docOfSchema] using this

theorem Reparsed.def_names : P.definitions.map (·.name) = (userDefs cfg s).map (·.name) := by
  have := congrArg (List.map (·.name)) h.definitions
  simpa [List.map_map, Function.comp_def, Definition.erasePos, normDef] using this

theorem Reparsed.dir_names : P.directives.map (·.name) = (userDirs cfg s).map (·.name) := by
  have := congrArg (List.map (·.name)) h.directives
  simpa [List.map_map, Function.comp_def, DirectiveDef.erasePos, normDirectiveDef] using this

end Components

/-! ### a document without extensions -/

theorem buildState_noExt {sd : SchemaDoc} (hext : sd.extensions = []) (hn : (sd.definitions.map (·.name)).Nodup)
    {dirs : List (Name × DirectiveDef)} (hd : declareDirectives sd.directives [] = .ok dirs) :
    buildState sd = .ok
      { types := sd.definitions.map fun d => (d.name, d), directives := dirs,
        possible := (buildRelations (sd.definitions.map fun d => (d.name, d))).1,
        implements := (buildRelations (sd.definitions.map fun d => (d.name, d))).2 } := by
  have h0 : declareTypes sd.definitions [] = .ok (sd.definitions.map fun d => (d.name, d)) := by
    have := declareTypes_ok (l := sd.definitions) (acc := []) (by simp) hn
    simpa using this
  unfold buildState
  simp only [h0, hext, foldExtensions, hd]

/-! ### the context of the reload theorem -/

/-- everything that is known: `s` was loaded from `prelude ⊕ u` through the state `st`; `P` is the reparsed text -/
structure Ctx (cfg : Cfg) (pre u : SchemaDoc) (s : Schema) (st : LState) (r1 : Roots) (d1 : List Directive)
    (P : SchemaDoc) : Prop where
  hb : cfg.emitBuiltin = false
  hpre : PreludeShape pre
  hu : UserShape pre u
  F : Facts (pre.merge u) s st r1 d1
  hP : Reparsed cfg s P

section
variable {cfg : Cfg} {pre u : SchemaDoc} {s : Schema} {st : LState} {r1 : Roots} {d1 : List Directive} {P : SchemaDoc}
variable (C : Ctx cfg pre u s st r1 d1 P)
include C

theorem Ctx.types_eq : s.types = st.types.map (finalDef (finalRoots (pre.merge u) st r1).query) := by
  rw [C.F.eq]; exact mkSchema_types_map C.F.typesInv.1

theorem Ctx.dropHidden_final {p : Name × Definition} (hp : p ∈ st.types) :
    dropHidden cfg (finalDef (finalRoots (pre.merge u) st r1).query p).2 = p.2 := by
  have hf := (C.F.defOK p hp).fieldNames
  unfold finalDef
  split
  · split
    · exact dropHidden_addIntrospection C.hb hf
    · exact dropHidden_id hf
  · exact dropHidden_id hf

theorem Ctx.keepDef_eq (d : Definition) : keepDef cfg d = !d.builtIn := by simp [keepDef, C.hb]

/-- the printed type definitions are the entries of the state that are not built in -/
theorem Ctx.userDefs_perm : (userDefs cfg s).Perm ((st.types.map Prod.snd).filter fun d => !d.builtIn) := by
  unfold userDefs
  have h1 : (sortedByKey s.types).Perm (s.types.map Prod.snd) := by
    unfold sortedByKey
    exact (List.mergeSort_perm _ _).map _
  have h2 : (s.types.map Prod.snd).map (dropHidden cfg) = st.types.map Prod.snd := by
    rw [C.types_eq, List.map_map, List.map_map]
    apply List.map_congr_left
    intro p hp
    exact C.dropHidden_final hp
  have h3 := (h1.map (dropHidden cfg)).filter (keepDef cfg)
  rw [h2] at h3
  have h4 : (st.types.map Prod.snd).filter (keepDef cfg) = (st.types.map Prod.snd).filter fun d => !d.builtIn := by
    apply List.filter_congr
    intro d _
    exact C.keepDef_eq d
  rw [h4] at h3
  exact h3

theorem Ctx.state_names : (st.types.map Prod.snd).map (·.name) = st.types.map Prod.fst := by
  rw [List.map_map]
  apply List.map_congr_left
  intro p hp
  exact C.F.typesInv.2 p hp

theorem Ctx.userDefs_nodup : ((userDefs cfg s).map (·.name)).Nodup := by
  rw [(C.userDefs_perm.map _).nodup_iff]
  have : (((st.types.map Prod.snd).filter fun d => !d.builtIn).map (·.name)).Sublist ((st.types.map Prod.snd).map (·.name)) :=
    (List.filter_sublist).map _
  apply this.nodup
  rw [C.state_names]
  exact C.F.typesInv.1

theorem Ctx.mem_userDefs {x : Definition} : x ∈ userDefs cfg s ↔ ∃ p ∈ st.types, p.2.builtIn = false ∧ p.2 = x := by
  rw [C.userDefs_perm.mem_iff]
  simp only [List.mem_filter, List.mem_map, Bool.not_eq_eq_eq_not, Bool.not_true]
  constructor
  · rintro ⟨⟨p, hp, rfl⟩, hb⟩; exact ⟨p, hp, hb, rfl⟩
  · rintro ⟨p, hp, hb, rfl⟩; exact ⟨⟨p, hp, rfl⟩, hb⟩

theorem Ctx.built : buildState (pre.merge u) = .ok st := C.F.built

theorem Ctx.pre_names_nodup : (pre.definitions.map (·.name)).Nodup := by
  have := buildState_defs_nodup C.built
  simp only [SchemaDoc.merge, List.map_append] at this
  exact (List.nodup_append.mp this).1

/-- no printed definition has the name of a prelude type -/
theorem Ctx.user_name_not_prelude {x : Definition} (hx : x ∈ userDefs cfg s) {d : Definition} (hd : d ∈ pre.definitions) :
    x.name ≠ d.name := by
  intro e
  obtain ⟨p, hp, hbi, rfl⟩ := C.mem_userDefs.mp hx
  have h1 := prelude_types_stored C.hpre C.hu C.built hd
  have h2 := lookup_of_mem_nodup C.F.typesInv.1 hp
  have hk : p.1 = d.name := by rw [← C.F.typesInv.2 p hp]; exact e
  rw [hk, h1] at h2
  simp only [Option.some.injEq] at h2
  rw [← h2, C.hpre.defsBuiltIn d hd] at hbi
  cases hbi

theorem Ctx.reload_names_nodup : ((pre.merge P).definitions.map (·.name)).Nodup := by
  simp only [SchemaDoc.merge, List.map_append]
  rw [List.nodup_append]
  refine ⟨C.pre_names_nodup, ?_, ?_⟩
  · rw [C.hP.def_names]; exact C.userDefs_nodup
  · intro a ha b hb
    rw [C.hP.def_names] at hb
    obtain ⟨d, hd, rfl⟩ := List.mem_map.mp ha
    obtain ⟨x, hx, rfl⟩ := List.mem_map.mp hb
    exact fun e => C.user_name_not_prelude hx hd e.symm

end

end Gql.Format
