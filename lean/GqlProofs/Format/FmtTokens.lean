import GqlProofs.Format.FmtPrim
/-
  The formatter of executable documents, function by function: the text written is a complete
  sequence of token texts for the tokens of the (normalised) subtree, for every configuration
  (`hind`: the indentation string consists of ignored bytes — separation never comes from it).
-/
namespace Gql.Format
open Gql Gql.Lexer Gql.Grammar Gql.Print

variable {cfg : Cfg}

@[simp] theorem formatType_pad (t : GType) (w : W) : (formatType cfg t w).padNext = true := by simp [formatType]
@[simp] theorem formatType_lh (t : GType) (w : W) : (formatType cfg t w).lineHead = false := by simp [formatType]
@[simp] theorem formatValue_pad (v : Value) (w : W) : (formatValue cfg v w).padNext = false := by simp [formatValue]
@[simp] theorem formatValue_lh (v : Value) (w : W) : (formatValue cfg v w).lineHead = false := by simp [formatValue]

variable (hind : BlankIndent cfg)
include hind

/-- `FormatValue` -/
theorem T_value {w : W} {ts : List Tok} (v : Value) (h : I false w ts) (hv : valueOk v = true) :
    LexTo (formatValue cfg v w).text (ts ++ printValue (normValue v)) true :=
  P_str hind h (lexTo_value v hv) (StartOK_false _)

/-- `FormatType` -/
theorem T_type {w : W} {ts : List Tok} (t : GType) (h : I false w ts) (ht : typeOk t = true) :
    LexTo (formatType cfg t w).text (ts ++ printType t) true :=
  P_word hind h (lexTo_type t ht) (StartOK_false _) (trimSpace_id _ (type_noSpace t ht))

/-- `FormatArgument` -/
theorem T_argument {w : W} {ts : List Tok} (a : Argument) (h : I false w ts) (ha : argOk a = true) :
    LexTo (formatArgument cfg a w).text (ts ++ printArgument (normArg a)) true := by
  simp only [argOk, Bool.and_eq_true] at ha
  have h1 := P_nameColon hind a.name h ha.1
  have h2 := P_str hind (g := false) (I.free h1) (lexTo_value a.value ha.2) (StartOK_false _)
  simpa [formatArgument, printArgument, normArg, List.append_assoc] using h2

/-- the loop of `FormatArgumentList` -/
theorem T_arguments : ∀ (as : List Argument) (w : W) (ts : List Tok), I false w ts → as.all argOk = true →
    LexTo (formatArguments cfg as w).text (ts ++ (as.map normArg).flatMap printArgument) true
  | [], w, ts, h, _ => by simpa [formatArguments] using h.glue
  | [a], w, ts, h, ha => by
    simp at ha
    simpa [formatArguments] using T_argument hind a h ha
  | a :: b :: rest, w, ts, h, ha => by
    simp only [List.all_cons, Bool.and_eq_true] at ha
    have h1 := T_argument hind a h ha.1
    have h2 := P_comma hind (g := true) (w := noPadding (formatArgument cfg a w)) (I.mk h1 (by simp [tightOf]))
    have h3 := T_arguments (b :: rest) _ _ (I.free h2) (by simp [ha.2])
    simpa [formatArguments, List.append_assoc] using h3

/-- `FormatArgumentList`, non-empty: `(` … `)` -/
theorem T_argumentList_cons {g : Bool} {w : W} {ts : List Tok} (as : List Argument) (hne : as ≠ [])
    (h : I g w ts) (ha : as.all argOk = true) :
    LexTo (formatArgumentList cfg as w).text (ts ++ printArguments (as.map normArg)) false := by
  have h1 := P_str hind (g := true) (w := noPadding w) (I.mk h.glue (by simp [tightOf])) tokText_parenL.lexTo
    (StartOK_cons _ _ _ (by decide))
  have h2 := T_arguments hind as _ _ (I.free h1) ha
  have h3 := P_str hind (cfg := cfg) (g := true) (I.mk h2 (by simp [tightOf])) tokText_parenR.lexTo
    (StartOK_cons _ _ _ (by decide))
  have e : as.isEmpty = false := by cases as <;> simp_all
  simpa [formatArgumentList, printArguments, e, List.append_assoc] using h3

/-- `FormatArgumentList` -/
theorem T_argumentList {g : Bool} {w : W} {ts : List Tok} (as : List Argument)
    (h : I g w ts) (ha : as.all argOk = true) :
    I g (formatArgumentList cfg as w) (ts ++ printArguments (as.map normArg)) := by
  cases as with
  | nil => simpa [formatArgumentList, printArguments] using h
  | cons a as => exact I.free (T_argumentList_cons hind (a :: as) (by simp) h ha)

/-- `FormatDirective` -/
theorem T_directive {g : Bool} {w : W} {ts : List Tok} (d : Directive) (h : I g w ts) (hd : dirOk d = true) :
    I false (formatDirective cfg d w) (ts ++ printDirective (normDir d)) := by
  simp only [dirOk, Bool.and_eq_true] at hd
  have h1 := P_str hind h tokText_at.lexTo (StartOK_cons _ _ _ (by decide))
  have h2 := P_word hind (g := false) (I.free h1) (tokText_name d.name hd.1).lexTo (StartOK_false _)
    (trimSpace_name _ hd.1)
  have h3 := T_argumentList hind (g := false) d.args (I.mk h2 (by simp [tightOf])) hd.2
  simpa [formatDirective, printDirective, normDir, List.append_assoc] using h3

/-- `FormatDirectiveList` -/
theorem T_directiveList : ∀ (ds : List Directive) (g : Bool) (w : W) (ts : List Tok), I g w ts →
    ds.all dirOk = true → I g (formatDirectiveList cfg ds w) (ts ++ printDirectives (ds.map normDir))
  | [], g, w, ts, h, _ => by simpa [formatDirectiveList, printDirectives] using h
  | d :: ds, g, w, ts, h, hd => by
    simp only [List.all_cons, Bool.and_eq_true] at hd
    have h1 := T_directive hind d h hd.1
    have h2 := T_directiveList ds false _ _ h1 hd.2
    have h3 := I.mono (g := g) h2
    simpa [formatDirectiveList, printDirectives, List.append_assoc] using h3

/-- `FormatVariableDefinition` -/
theorem T_varDef {g : Bool} {w : W} {ts : List Tok} (d : VarDef) (h : I g w ts) (hd : varDefOk d = true) :
    I false (formatVariableDefinition cfg d w) (ts ++ printVarDef (normVarDef d)) := by
  obtain ⟨var, type, dflt, dirs, pos⟩ := d
  simp only [varDefOk, Bool.and_eq_true] at hd
  obtain ⟨⟨⟨hvar, htype⟩, hdef⟩, hdirs⟩ := hd
  have h1 := P_str hind h tokText_dollar.lexTo (StartOK_cons _ _ _ (by decide))
  have h2 := P_nameColon hind var (I.free h1) hvar
  have h3 := T_type hind type (I.free h2) htype
  cases dflt with
  | none =>
    have h4 := T_directiveList hind dirs false (needPadding (formatType cfg type _)) _
      (I.mk h3 (by simp [tightOf])) hdirs
    simpa [formatVariableDefinition, printVarDef, normVarDef, printDefault, List.append_assoc] using h4
  | some v =>
    have h4 := P_word hind (cfg := cfg) (g := false) (I.mk h3 (by simp [tightOf])) tokText_equals.lexTo
      (StartOK_false _) (by decide)
    have h5 := T_value hind v (I.free h4) hdef
    have h6 := T_directiveList hind dirs false (needPadding (formatValue cfg v _)) _
      (I.mk h5 (by simp [tightOf])) hdirs
    simpa [formatVariableDefinition, printVarDef, normVarDef, printDefault, List.append_assoc] using h6

/-- the loop of `FormatVariableDefinitionList` -/
theorem T_varDefs : ∀ (ds : List VarDef) (g : Bool) (w : W) (ts : List Tok), I g w ts → ds.all varDefOk = true →
    I g (formatVariableDefinitions cfg ds w) (ts ++ (ds.map normVarDef).flatMap printVarDef)
  | [], g, w, ts, h, _ => by simpa [formatVariableDefinitions] using h
  | [d], g, w, ts, h, hd => by
    simp at hd
    simpa [formatVariableDefinitions] using I.mono (g := g) (T_varDef hind d h hd)
  | d :: e :: rest, g, w, ts, h, hd => by
    simp only [List.all_cons, Bool.and_eq_true] at hd
    have h1 := T_varDef hind d h hd.1
    have h2 := P_comma hind (g := true) (w := noPadding (formatVariableDefinition cfg d w))
      (I.mk h1.glue (by simp [tightOf]))
    have h3 := T_varDefs (e :: rest) g _ _ (I.free h2) (by simp [hd.2])
    simpa [formatVariableDefinitions, List.append_assoc] using h3

/-- `FormatVariableDefinitionList` -/
theorem T_varDefList {g : Bool} {w : W} {ts : List Tok} (ds : List VarDef) (h : I g w ts)
    (hd : ds.all varDefOk = true) :
    I g (formatVariableDefinitionList cfg ds w) (ts ++ printVarDefs (ds.map normVarDef)) := by
  cases ds with
  | nil => simpa [formatVariableDefinitionList, printVarDefs] using h
  | cons d ds =>
    have h1 := P_str hind h tokText_parenL.lexTo (StartOK_cons _ _ _ (by decide))
    have h2 := T_varDefs hind (d :: ds) false _ _ (I.free h1) hd
    have h3 := P_str hind (cfg := cfg) (g := true) (w := noPadding _) (I.mk h2.glue (by simp [tightOf]))
      tokText_parenR.lexTo (StartOK_cons _ _ _ (by decide))
    exact I.free (by simpa [formatVariableDefinitionList, printVarDefs, List.append_assoc] using h3)

/-! ### selections -/

/-- the optional alias of a field -/
theorem T_alias {w : W} {ts : List Tok} (al nm : Name) (h : LexTo w.text ts false) (hal : isNameB al = true) :
    LexTo (if (!al.isEmpty && al != nm) = true then
        w |> writeWord cfg al |> noPadding |> writeStr cfg [58] |> needPadding else w).text
      (ts ++ (if al = nm then [] else [tName al, tP .colon])) false := by
  have hne : al.isEmpty = false := by cases al <;> simp_all [isNameB]
  by_cases e : al = nm
  · simp [e, h]
  · have h1 := P_nameColon hind al (I.free (g := false) h) hal
    simpa [e, hne] using h1

/-- the optional arguments of a field -/
theorem T_fieldArgs {w : W} {ts : List Tok} (args : List Argument) (h : I false w ts)
    (ha : args.all argOk = true) :
    I false (if (!args.isEmpty) = true then w |> noPadding |> formatArgumentList cfg args |> needPadding else w)
      (ts ++ printArguments (args.map normArg)) := by
  cases args with
  | nil => simpa [printArguments] using h
  | cons a as =>
    have h1 := T_argumentList_cons hind (g := true) (w := noPadding w) (a :: as) (by simp)
      (I.mk h.glue (by simp [tightOf])) ha
    exact I.free (by simpa using h1)

omit hind in
/-- the tokens of an optional selection set -/
def optSelSet : Selections → List Tok
  | .nil => []
  | .cons s rest => printSelectionSet (.cons s rest)

mutual
  /-- `FormatSelection` -/
  theorem T_selection : ∀ (s : Selection) (w : W) (ts : List Tok), LexTo w.text ts false → selOk s = true →
      LexTo (formatSelection cfg s w).text (ts ++ printSelection (normSel s)) false
    | .field al nm args ds sel p, w, ts, h, hs => by
      simp only [selOk, Bool.and_eq_true] at hs
      obtain ⟨⟨⟨⟨hal, hnm⟩, hargs⟩, hds⟩, hsel⟩ := hs
      have h0 := T_alias hind al nm h hal
      have h1 := P_word hind (cfg := cfg) (g := false) (I.free h0) (tokText_name nm hnm).lexTo (StartOK_false _)
        (trimSpace_name _ hnm)
      have h2 := T_fieldArgs hind args (I.mk h1 (by simp [tightOf])) hargs
      have h3 := T_directiveList hind ds false _ _ h2 hds
      have h4 := T_selectionSet sel false _ _ h3 hsel
      have h5 := P_newline h4
      cases sel <;>
        simpa [formatSelection, printSelection, normSel, normSels, optSelSet, printSelectionSet,
          List.append_assoc] using h5
    | .spread nm ds p, w, ts, h, hs => by
      simp only [selOk, Bool.and_eq_true] at hs
      have h1 := P_word hind (cfg := cfg) (g := false) (I.free h) tokText_spread.lexTo (StartOK_false _) (by decide)
      have h1' : LexTo (if cfg.compacted = true then noPadding (writeWord cfg spreadDots w)
          else writeWord cfg spreadDots w).text (ts ++ [tP .spread]) false := by
        split <;> simpa [spreadDots] using h1
      have h2 := P_word hind (cfg := cfg) (g := false) (I.free h1') (tokText_name nm hs.1).lexTo (StartOK_false _)
        (trimSpace_name _ hs.1)
      have h3 := T_directiveList hind ds false _ _ (I.mk h2 (by simp [tightOf])) hs.2
      have h4 := P_newline h3
      simpa [formatSelection, printSelection, normSel, List.append_assoc] using h4
    | .inline tc ds sel p, w, ts, h, hs => by
      simp only [selOk, Bool.and_eq_true] at hs
      obtain ⟨⟨⟨htc, hds⟩, hne⟩, hsel⟩ := hs
      have h1 := P_word hind (cfg := cfg) (g := false) (I.free h) tokText_spread.lexTo (StartOK_false _) (by decide)
      have h2 : I false (if (!tc.isEmpty) = true then
            writeWord cfg spreadDots w |> writeWord cfg (str "on") |> writeWord cfg tc
          else writeWord cfg spreadDots w) (ts ++ [tP .spread] ++ (if tc = [] then [] else [tKw "on", tName tc])) := by
        cases tc with
        | nil => simpa [spreadDots] using I.free (g := false) h1
        | cons b tl =>
          have htc' : isNameB (b :: tl) = true := by simpa using htc
          have h1a := P_word hind (cfg := cfg) (g := false) (I.free h1) (tokText_kw "on" (by decide)).lexTo
            (StartOK_false _) (by decide)
          have h1b := P_word hind (cfg := cfg) (g := false) (I.mk h1a (by simp [tightOf]))
            (tokText_name _ htc').lexTo (StartOK_false _) (trimSpace_name _ htc')
          exact I.mk (by simpa [spreadDots, List.append_assoc] using h1b) (by simp [tightOf])
      have h3 := T_directiveList hind ds false _ _ h2 hds
      have h4 := T_selectionSet sel false _ _ h3 hsel
      have h5 := P_newline h4
      cases sel with
      | nil => simp at hne
      | cons s rest =>
        simpa [formatSelection, printSelection, normSel, normSels, optSelSet, printSelectionSet,
          List.append_assoc] using h5
  /-- `FormatSelectionSet`: nothing for an empty one, `{` selections `}` otherwise -/
  theorem T_selectionSet : ∀ (sel : Selections) (g : Bool) (w : W) (ts : List Tok), I g w ts → selsOk sel = true →
      I g (formatSelectionSet cfg sel w) (ts ++ optSelSet (normSels sel))
    | .nil, g, w, ts, h, _ => by simpa [formatSelectionSet, normSels, optSelSet] using h
    | .cons s rest, g, w, ts, h, hs => by
      simp only [selsOk, Bool.and_eq_true] at hs
      have h1 := P_str hind h tokText_braceL.lexTo (StartOK_cons _ _ _ (by decide))
      have h2 := P_newline (I.free (g := false) h1)
      have h3 := T_selection s (incIndent (writeNewline (writeStr cfg [123] w))) _ (by simpa using h2) hs.1
      have h4 := T_selections rest _ _ h3 hs.2
      have h5 := P_str hind (cfg := cfg) (g := false) (w := decIndent _) (I.free (by simpa using h4))
        tokText_braceR.lexTo (StartOK_false _)
      exact I.free (by
        simpa [formatSelectionSet, normSels, optSelSet, printSelectionSet, printSelections,
          List.append_assoc] using h5)
  /-- the loop of `FormatSelectionSet` -/
  theorem T_selections : ∀ (sels : Selections) (w : W) (ts : List Tok), LexTo w.text ts false →
      selsOk sels = true →
      LexTo (formatSelections cfg sels w).text (ts ++ printSelections (normSels sels)) false
    | .nil, w, ts, h, _ => by simpa [formatSelections, normSels, printSelections] using h
    | .cons s rest, w, ts, h, hs => by
      simp only [selsOk, Bool.and_eq_true] at hs
      have h1 := T_selection s w ts h hs.1
      have h2 := T_selections rest _ _ h1 hs.2
      simpa [formatSelections, normSels, printSelections, List.append_assoc] using h2
end

end Gql.Format

namespace Gql.Format
open Gql Gql.Lexer Gql.Grammar Gql.Print

variable {cfg : Cfg} (hind : BlankIndent cfg)
include hind

/-- a required selection set: `{` selections `}` -/
theorem T_selectionSet_req {g : Bool} {w : W} {ts : List Tok} (sel : Selections) (h : I g w ts)
    (hne : (match sel with | .nil => false | _ => true) = true) (hs : selsOk sel = true) :
    LexTo (writeNewline (formatSelectionSet cfg sel w)).text (ts ++ printSelectionSet (normSels sel)) false := by
  have h1 := P_newline (T_selectionSet hind sel g w ts h hs)
  cases sel with
  | nil => simp at hne
  | cons s rest => simpa [optSelSet, normSels] using h1

/-- variable definitions, directives and the selection set of an operation -/
theorem T_opTail {w : W} {ts : List Tok} (vars : List VarDef) (dirs : List Directive) (sel : Selections)
    (h : I true w ts) (hvars : vars.all varDefOk = true) (hdirs : dirs.all dirOk = true)
    (hne : (match sel with | .nil => false | _ => true) = true) (hsel : selsOk sel = true) :
    LexTo (writeNewline (formatSelectionSet cfg sel (formatDirectiveList cfg dirs
        (formatVariableDefinitionList cfg vars w)))).text
      (ts ++ (printVarDefs (vars.map normVarDef) ++ (printDirectives (dirs.map normDir) ++
        printSelectionSet (normSels sel)))) false := by
  have h3 := T_varDefList hind vars h hvars
  have h4 := T_directiveList hind dirs true _ _ h3 hdirs
  have h5 := T_selectionSet_req hind sel h4 hne hsel
  simpa [List.append_assoc] using h5

/-- `FormatOperationDefinition`: the operation keyword is always written -/
theorem T_operation {w : W} {ts : List Tok} (o : OperationDef) (h : LexTo w.text ts false) (ho : opOk o = true) :
    LexTo (formatOperationDefinition cfg o w).text (ts ++ printOperationLong (normOp o)) false := by
  obtain ⟨op, name, vars, dirs, sel, pos⟩ := o
  simp only [opOk, Bool.and_eq_true] at ho
  obtain ⟨⟨⟨⟨⟨hop, hname⟩, hvars⟩, hdirs⟩, hne⟩, hsel⟩ := ho
  have h1 := P_word hind (cfg := cfg) (g := false) (I.free h) (tokText_name op hop).lexTo (StartOK_false _)
    (trimSpace_name _ hop)
  cases name with
  | nil =>
    have h2 : I true (writeWord cfg op w) (ts ++ [tName op]) := I.mk h1 (by simp [tightOf])
    have h5 := T_opTail hind vars dirs sel h2 hvars hdirs hne hsel
    cases sel with
    | nil => simp at hne
    | cons s rest =>
      simpa [formatOperationDefinition, printOperationLong, normOp, List.append_assoc] using h5
  | cons b tl =>
    have hn : isNameB (b :: tl) = true := by simpa using hname
    have h1a := P_word hind (cfg := cfg) (g := false) (I.mk h1 (by simp [tightOf])) (tokText_name _ hn).lexTo
      (StartOK_false _) (trimSpace_name _ hn)
    by_cases hc : cfg.compacted = true
    · have h2 : I true (noPadding (writeWord cfg (b :: tl) (writeWord cfg op w))) (ts ++ [tName op] ++ [tName (b :: tl)]) :=
        I.mk h1a (by simp [tightOf])
      have h5 := T_opTail hind vars dirs sel h2 hvars hdirs hne hsel
      cases sel with
      | nil => simp at hne
      | cons s rest =>
        simpa [formatOperationDefinition, printOperationLong, normOp, hc, List.append_assoc] using h5
    · have h2 : I true (writeWord cfg (b :: tl) (writeWord cfg op w)) (ts ++ [tName op] ++ [tName (b :: tl)]) :=
        I.mk h1a (by simp [tightOf])
      have h5 := T_opTail hind vars dirs sel h2 hvars hdirs hne hsel
      cases sel with
      | nil => simp at hne
      | cons s rest =>
        simpa [formatOperationDefinition, printOperationLong, normOp, hc, List.append_assoc] using h5

/-- `FormatFragmentDefinition` -/
theorem T_fragment {w : W} {ts : List Tok} (f : FragmentDef) (h : LexTo w.text ts false) (hf : fragOk f = true) :
    LexTo (formatFragmentDefinition cfg f w).text (ts ++ printFragment (normFrag f)) false := by
  obtain ⟨name, vars, tc, dirs, sel, pos⟩ := f
  simp only [fragOk, Bool.and_eq_true] at hf
  obtain ⟨⟨⟨⟨⟨hname, hvars⟩, htc⟩, hdirs⟩, hne⟩, hsel⟩ := hf
  have h1 := P_word hind (cfg := cfg) (g := false) (I.free h) (tokText_kw "fragment" (by decide)).lexTo
    (StartOK_false _) (by decide)
  have h2 := P_word hind (cfg := cfg) (g := false) (I.mk h1 (by simp [tightOf])) (tokText_name _ hname).lexTo
    (StartOK_false _) (trimSpace_name _ hname)
  have h3 := T_varDefList hind (g := false) vars (I.mk h2 (by simp [tightOf])) hvars
  have h4 := P_word hind (cfg := cfg) h3 (tokText_kw "on" (by decide)).lexTo (StartOK_false _) (by decide)
  have h5 := P_word hind (cfg := cfg) (g := false) (I.mk h4 (by simp [tightOf])) (tokText_name _ htc).lexTo
    (StartOK_false _) (trimSpace_name _ htc)
  have h6 := T_directiveList hind dirs false _ _ (I.mk h5 (by simp [tightOf])) hdirs
  have h7 := T_selectionSet_req hind sel h6 hne hsel
  cases sel with
  | nil => simp at hne
  | cons s rest =>
    simpa [formatFragmentDefinition, printFragment, normFrag, List.append_assoc] using h7

theorem T_operations : ∀ (os : List OperationDef) (w : W) (ts : List Tok), LexTo w.text ts false →
    os.all opOk = true →
    LexTo (os.foldl (fun w o => formatOperationDefinition cfg o w) w).text
      (ts ++ ((os.map normOp).map printOperationLong).flatten) false
  | [], w, ts, h, _ => by simpa using h
  | o :: os, w, ts, h, ho => by
    simp only [List.all_cons, Bool.and_eq_true] at ho
    have h1 := T_operation hind o h ho.1
    have h2 := T_operations os _ _ h1 ho.2
    simpa [List.append_assoc] using h2

theorem T_fragments : ∀ (fs : List FragmentDef) (w : W) (ts : List Tok), LexTo w.text ts false →
    fs.all fragOk = true →
    LexTo (fs.foldl (fun w f => formatFragmentDefinition cfg f w) w).text
      (ts ++ ((fs.map normFrag).map printFragment).flatten) false
  | [], w, ts, h, _ => by simpa using h
  | f :: fs, w, ts, h, hf => by
    simp only [List.all_cons, Bool.and_eq_true] at hf
    have h1 := T_fragment hind f h hf.1
    have h2 := T_fragments fs _ _ h1 hf.2
    simpa [List.append_assoc] using h2

/-- `FormatQueryDocument` from the initial writer state -/
theorem T_document (d : QueryDoc) (hd : Formattable d) :
    LexTo (fmtQuery cfg d) (printQueryLong (normFmt d)) false := by
  unfold Formattable docOk at hd
  simp only [Bool.and_eq_true] at hd
  have h0 : LexTo (({} : W).text) [] false := by simpa [W.text] using LexTo_nil
  have h1 := T_operations hind d.ops {} [] h0 hd.1
  have h2 := T_fragments hind d.frags _ _ h1 hd.2
  simpa [fmtQuery, formatQueryDocument, printQueryLong, normFmt] using h2

/-- the text of a formatted executable document lexes to the long-form tokens of the document -/
theorem tokensOf_fmtQuery (d : QueryDoc) (hd : Formattable d) :
    tokensOf (fmtQuery cfg d) = some (printQueryLong (normFmt d)) := by
  have h := T_document hind d hd [] [] (Follow_nil _) Lexes_nil
  simpa using tokensOf_of_Lexes h

end Gql.Format
