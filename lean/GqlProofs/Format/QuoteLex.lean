import GqlModel.Lexer.Model
import GqlModel.Format.Quote
import GqlProofs.Format.Utf8
/-
  The lexer model reads `gqlQuote bs` back as `bs`: step lemmas for `readStringLoop`, then the
  induction over the code points of a valid UTF-8 string.
-/
namespace Gql.Format
open Gql Gql.Lexer

/-- closing quote -/
theorem rsl_close (q : Cur) (tl : Bytes) (c : Cur) (acc : Bytes) (buf : Bool) :
    readStringLoop q (34 :: tl) c acc buf =
      .tok { kind := .string, value := acc.reverse, start := q.endR, stop := c.endR + 1,
             line := c.line, col := colOf (q.endR + 1) c.ls } tl (c.adv 1 1) := by
  conv => lhs; rw [readStringLoop.eq_def]; simp

/-- an ordinary printable ASCII byte is copied -/
theorem rsl_plain (q : Cur) (b : Nat) (tl : Bytes) (c : Cur) (acc : Bytes) (buf : Bool)
    (h1 : 32 ≤ b) (h2 : b ≠ 34) (h3 : b ≠ 92) (h4 : b < 127) :
    readStringLoop q (b :: tl) c acc buf = readStringLoop q tl (c.adv 1 1) (b :: acc) buf := by
  conv => lhs; rw [readStringLoop.eq_def]
  have e1 : ¬ (b = 10 ∨ b = 13) := by omega
  have e2 : ¬ (b < 32 ∧ b ≠ 9) := by omega
  have e3 : ¬ b ≥ 127 := by omega
  have e4 : encodeRune b = [b] := encodeRune_ascii (by omega)
  simp only [e1, e2, h2, h3, e3, if_false, e4]
  cases buf <;> simp

/-- the two-character escapes -/
theorem rsl_esc (q : Cur) (e o : Nat) (tl : Bytes) (c : Cur) (acc : Bytes) (buf : Bool)
    (h : (e = 34 ∧ o = 34) ∨ (e = 92 ∧ o = 92) ∨ (e = 98 ∧ o = 8) ∨ (e = 102 ∧ o = 12) ∨
         (e = 110 ∧ o = 10) ∨ (e = 114 ∧ o = 13) ∨ (e = 116 ∧ o = 9)) :
    readStringLoop q (92 :: e :: tl) c acc buf = readStringLoop q tl (c.adv 2 2) (o :: acc) true := by
  conv => lhs; rw [readStringLoop.eq_def]
  rcases h with ⟨rfl, rfl⟩ | ⟨rfl, rfl⟩ | ⟨rfl, rfl⟩ | ⟨rfl, rfl⟩ | ⟨rfl, rfl⟩ | ⟨rfl, rfl⟩ | ⟨rfl, rfl⟩ <;> simp [escapeOut]

/-- a `\uXXXX` escape followed by at least one more byte -/
theorem rsl_u (q : Cur) (h1 h2 h3 h4 x r : Nat) (tl : Bytes) (c : Cur) (acc : Bytes) (buf : Bool)
    (h : unhex4 h1 h2 h3 h4 = some r) :
    readStringLoop q (92 :: 117 :: h1 :: h2 :: h3 :: h4 :: x :: tl) c acc buf =
      readStringLoop q (x :: tl) (c.adv 6 6) ((encodeRune r).reverse ++ acc) true := by
  conv => lhs; rw [readStringLoop.eq_def]; simp [h]

/-- a well-formed multi-byte sequence is copied (re-encoded when the buffer is in use) -/
theorem rsl_multi (q : Cur) (r : Nat) (hr : IsScalar r) (h80 : 0x80 ≤ r) (tl : Bytes) (c : Cur)
    (acc : Bytes) (buf : Bool) :
    readStringLoop q (encodeRune r ++ tl) c acc buf =
      readStringLoop q tl (c.adv (encodeRune r).length 1) ((encodeRune r).reverse ++ acc) buf := by
  have hd := decodeRune_encodeRune hr tl
  have hh := encodeRune_high hr h80
  have hp := encodeRune_length_pos r
  cases he : encodeRune r with
  | nil => rw [he] at hp; simp at hp
  | cons b bs =>
    rw [he] at hd hh
    have hb := hh b (by simp)
    simp only [List.cons_append] at hd ⊢
    conv => lhs; rw [readStringLoop.eq_def]
    have e1 : ¬ (b = 10 ∨ b = 13) := by omega
    have e2 : ¬ (b < 32 ∧ b ≠ 9) := by omega
    have e3 : b ≠ 34 := by omega
    have e4 : b ≠ 92 := by omega
    have e5 : b ≥ 127 := by omega
    simp only [e1, e2, e3, e4, e5, if_false, if_true, hd, List.length_cons]
    have e6 : (bs ++ tl).drop (bs.length + 1 - 1) = tl := by simp
    have e7 : (b :: (bs ++ tl)).take (bs.length + 1) = b :: bs := by simp
    rw [e6, e7, ← he]
    cases buf <;> simp [he]

end Gql.Format

namespace Gql.Format
open Gql Gql.Lexer

theorem hexValue_upper (x : Nat) (h : x < 16) :
    hexValue (if x < 10 then 48 + x else 87 + x) = some x := by
  unfold hexValue
  by_cases h1 : x < 10
  · have a : 48 ≤ 48 + x ∧ 48 + x ≤ 57 := by omega
    simp [h1, a]
  · have a : ¬ (48 ≤ 87 + x ∧ 87 + x ≤ 57) := by omega
    have b : 97 ≤ 87 + x ∧ 87 + x ≤ 102 := by omega
    simp only [h1, if_false, a, b]
    simp

theorem unhex4_gql (b : Nat) (h : b < 256) :
    unhex4 48 48 (if b / 16 % 16 < 10 then 48 + b / 16 % 16 else 87 + b / 16 % 16)
      (if b % 16 < 10 then 48 + b % 16 else 87 + b % 16) = some b := by
  have h0 : hexValue 48 = some 0 := by decide
  unfold unhex4
  rw [h0, hexValue_upper _ (by omega), hexValue_upper _ (by omega)]
  simp only [Option.pure_def, Option.bind_eq_bind, Option.bind_some]
  congr 1; omega

theorem gqlQuoteBody_append (a b : Bytes) : gqlQuoteBody (a ++ b) = gqlQuoteBody a ++ gqlQuoteBody b := by
  induction a with
  | nil => rfl
  | cons x xs ih => simp [gqlQuoteBody, ih]

theorem gqlQuoteBody_high (bs : Bytes) (h : ∀ b ∈ bs, 0x80 ≤ b) : gqlQuoteBody bs = bs := by
  induction bs with
  | nil => rfl
  | cons x xs ih =>
    have hx := h x (by simp)
    have e : gqlEscapeByte x = [x] := by
      unfold gqlEscapeByte
      have n1 : x ≠ 34 := by omega
      have n2 : x ≠ 92 := by omega
      have n3 : x ≠ 8 := by omega
      have n4 : x ≠ 12 := by omega
      have n5 : x ≠ 10 := by omega
      have n6 : x ≠ 13 := by omega
      have n7 : x ≠ 9 := by omega
      have n8 : ¬ (x < 32 ∨ x = 127) := by omega
      simp [n1, n2, n3, n4, n5, n6, n7, n8]
    simp [gqlQuoteBody, e, ih (fun b hb => h b (by simp [hb]))]

/-- whatever `gqlEscapeByte` writes starts with a byte other than the quote -/
theorem gqlEscapeByte_head (b : Nat) : ∃ x xs, gqlEscapeByte b = x :: xs ∧ x ≠ 34 := by
  unfold gqlEscapeByte
  repeat' split
  all_goals first
    | exact ⟨_, _, rfl, by decide⟩
    | exact ⟨_, _, rfl, by omega⟩

/-- The core of "string values survive byte for byte": for every sequence of Unicode scalar
    values, the string-body loop of the lexer model, started anywhere (any cursor, any
    accumulator, buffer on or off) on the `gqlQuote` body followed by the closing quote, stops
    exactly at that quote with a String token whose value is the accumulator followed by the
    UTF-8 encoding of the sequence. -/
theorem rsl_gqlQuoteBody (q : Cur) (rest : Bytes) (cps : List Nat) (hs : ∀ r ∈ cps, IsScalar r) :
    ∀ (c : Cur) (acc : Bytes) (buf : Bool), ∃ t c',
      readStringLoop q (gqlQuoteBody (utf8Encode cps) ++ 34 :: rest) c acc buf = .tok t rest c' ∧
      t.kind = .string ∧ t.value = acc.reverse ++ utf8Encode cps := by
  induction cps with
  | nil =>
    intro c acc buf
    have e : gqlQuoteBody (utf8Encode []) ++ 34 :: rest = 34 :: rest := by simp [utf8Encode, gqlQuoteBody]
    rw [e, rsl_close]
    exact ⟨_, _, rfl, rfl, by simp [utf8Encode]⟩
  | cons r cps ih =>
    intro c acc buf
    have hr := hs r (by simp)
    have ih := ih (fun x hx => hs x (by simp [hx]))
    have hE : utf8Encode (r :: cps) = encodeRune r ++ utf8Encode cps := by simp [utf8Encode]
    rw [hE, gqlQuoteBody_append]
    by_cases h80 : r < 0x80
    · -- one ASCII byte
      rw [encodeRune_ascii h80]
      simp only [gqlQuoteBody, List.append_nil, List.append_assoc]
      -- the escapes
      have esc : ∀ (e o : Nat), gqlEscapeByte r = [92, e] → o = r →
          ((e = 34 ∧ o = 34) ∨ (e = 92 ∧ o = 92) ∨ (e = 98 ∧ o = 8) ∨ (e = 102 ∧ o = 12) ∨
           (e = 110 ∧ o = 10) ∨ (e = 114 ∧ o = 13) ∨ (e = 116 ∧ o = 9)) →
          ∃ t c', readStringLoop q (gqlEscapeByte r ++ (gqlQuoteBody (utf8Encode cps) ++ 34 :: rest)) c acc buf
              = .tok t rest c' ∧ t.kind = .string ∧ t.value = acc.reverse ++ ([r] ++ utf8Encode cps) := by
        intro e o he ho hcase
        rw [he]
        simp only [List.cons_append, List.nil_append]
        rw [rsl_esc q e o _ c acc buf hcase]
        obtain ⟨t, c', h1, h2, h3⟩ := ih (c.adv 2 2) (o :: acc) true
        exact ⟨t, c', h1, h2, by rw [h3, ho]; simp⟩
      by_cases c1 : r = 34
      · exact esc 34 34 (by simp [gqlEscapeByte, c1]) c1.symm (by simp)
      by_cases c2 : r = 92
      · exact esc 92 92 (by simp [gqlEscapeByte, c2]) c2.symm (by simp)
      by_cases c3 : r = 8
      · exact esc 98 8 (by simp [gqlEscapeByte, c3]) c3.symm (by simp)
      by_cases c4 : r = 12
      · exact esc 102 12 (by simp [gqlEscapeByte, c4]) c4.symm (by simp)
      by_cases c5 : r = 10
      · exact esc 110 10 (by simp [gqlEscapeByte, c5]) c5.symm (by simp)
      by_cases c6 : r = 13
      · exact esc 114 13 (by simp [gqlEscapeByte, c6]) c6.symm (by simp)
      by_cases c7 : r = 9
      · exact esc 116 9 (by simp [gqlEscapeByte, c7]) c7.symm (by simp)
      by_cases c8 : r < 32 ∨ r = 127
      · -- \u00XY
        have he : gqlEscapeByte r = [92, 117, 48, 48,
            (if r / 16 % 16 < 10 then 48 + r / 16 % 16 else 87 + r / 16 % 16),
            (if r % 16 < 10 then 48 + r % 16 else 87 + r % 16)] := by
          simp [gqlEscapeByte, c1, c2, c3, c4, c5, c6, c7, c8]
        rw [he]
        simp only [List.cons_append, List.nil_append]
        cases hX : gqlQuoteBody (utf8Encode cps) ++ 34 :: rest with
        | nil => simp at hX
        | cons x tl =>
          rw [rsl_u q _ _ _ _ x r tl c acc buf (unhex4_gql r (by omega)), ← hX, encodeRune_ascii h80]
          obtain ⟨t, c', h1, h2, h3⟩ := ih (c.adv 6 6) ([r].reverse ++ acc) true
          exact ⟨t, c', h1, h2, by rw [h3]; simp⟩
      · -- verbatim
        have he : gqlEscapeByte r = [r] := by
          simp [gqlEscapeByte, c1, c2, c3, c4, c5, c6, c7, c8]
        rw [he]
        simp only [List.cons_append, List.nil_append]
        rw [rsl_plain q r _ c acc buf (by omega) c1 c2 (by omega)]
        obtain ⟨t, c', h1, h2, h3⟩ := ih (c.adv 1 1) (r :: acc) buf
        exact ⟨t, c', h1, h2, by rw [h3]; simp⟩
    · -- a multi-byte sequence: every byte ≥ 0x80 is written verbatim
      have hh := encodeRune_high hr (by omega)
      rw [gqlQuoteBody_high _ (fun b hb => (hh b hb).1), List.append_assoc,
        rsl_multi q r hr (by omega) _ c acc buf]
      obtain ⟨t, c', h1, h2, h3⟩ := ih (c.adv (encodeRune r).length 1) ((encodeRune r).reverse ++ acc) buf
      exact ⟨t, c', h1, h2, by rw [h3]; simp⟩

end Gql.Format

namespace Gql.Format
open Gql Gql.Lexer

/-- bytes on which `strconv.Quote` and the GraphQL quoting agree: printable ASCII and the five
    control characters that have the same escape in Go and GraphQL -/
def PlainByte (b : Nat) : Prop := (32 ≤ b ∧ b < 127) ∨ b = 8 ∨ b = 9 ∨ b = 10 ∨ b = 12 ∨ b = 13

instance (b : Nat) : Decidable (PlainByte b) := by unfold PlainByte; exact inferInstance

theorem escapedRune_plain (b : Nat) (h : PlainByte b) : escapedRune isPrintDefault b = gqlEscapeByte b := by
  unfold PlainByte at h
  unfold escapedRune gqlEscapeByte
  by_cases c1 : b = 34
  · simp [c1]
  by_cases c2 : b = 92
  · simp [c2]
  rcases h with h | h | h | h | h | h
  · have p : isPrintDefault b = true := by
      have : b ≤ 0xFF := by omega
      simp [isPrintDefault, this, inRange]; omega
    have e : encodeRune b = [b] := encodeRune_ascii (by omega)
    have n1 : b ≠ 8 := by omega
    have n2 : b ≠ 12 := by omega
    have n3 : b ≠ 10 := by omega
    have n4 : b ≠ 13 := by omega
    have n5 : b ≠ 9 := by omega
    have n6 : ¬ (b < 32 ∨ b = 127) := by omega
    simp [c1, c2, p, e, n1, n2, n3, n4, n5, n6]
  all_goals (subst h; simp [isPrintDefault, inRange])

theorem goQuoteBody_plain (bs : Bytes) (h : ∀ b ∈ bs, PlainByte b) :
    goQuoteBody isPrintDefault bs = gqlQuoteBody bs := by
  induction bs with
  | nil => rw [goQuoteBody.eq_def]; rfl
  | cons b tl ih =>
    have hb := h b (by simp)
    have hlt : ¬ b ≥ 0x80 := by unfold PlainByte at hb; omega
    have hne : b ≠ runeError := by unfold PlainByte at hb; simp [runeError]; omega
    have ih' := ih (fun x hx => h x (by simp [hx]))
    rw [goQuoteBody.eq_def]
    simp [hlt, hne, escapedRune_plain b hb, ih', gqlQuoteBody]

/-- on plain ASCII text the quoting of the unchanged tree IS the GraphQL quoting -/
theorem goQuote_plain (bs : Bytes) (h : ∀ b ∈ bs, PlainByte b) : goQuote bs = gqlQuote bs := by
  simp [goQuote, gqlQuote, goQuoteBody_plain bs h]

theorem utf8Encode_ascii (bs : Bytes) (h : ∀ b ∈ bs, b < 0x80) : utf8Encode bs = bs := by
  induction bs with
  | nil => simp [utf8Encode]
  | cons b tl ih =>
    have := ih (fun x hx => h x (by simp [hx]))
    simp only [utf8Encode, List.flatMap_cons] at this ⊢
    rw [this, encodeRune_ascii (h b (by simp))]; simp

end Gql.Format
