import GqlModel.Lexer.Model
import GqlModel.Format.Quote
import GqlProofs.Format.Utf8
/-
  The lexer model reads `gqlQuote bs` back as `bs`: step lemmas for `readStringLoop`, then the
  induction over the code points of a valid UTF-8 string.
-/
namespace Gql.Format
open Gql Gql.Lexer

/-- closing quote -/
theorem rsl_close (q : Cur) (tl : Bytes) (c : Cur) (acc : Bytes) (buf : Bool) :
    readStringLoop q (34 :: tl) c acc buf =
      .tok { kind := .string, value := acc.reverse, start := q.endR, stop := c.endR + 1,
             line := c.line, col := colOf (q.endR + 1) c.ls } tl (c.adv 1 1) := by
  conv => lhs; rw [readStringLoop.eq_def]; simp

/-- an ordinary printable ASCII byte is copied -/
theorem rsl_plain (q : Cur) (b : Nat) (tl : Bytes) (c : Cur) (acc : Bytes) (buf : Bool)
    (h1 : 32 ≤ b) (h2 : b ≠ 34) (h3 : b ≠ 92) (h4 : b < 127) :
    readStringLoop q (b :: tl) c acc buf = readStringLoop q tl (c.adv 1 1) (b :: acc) buf := by
  conv => lhs; rw [readStringLoop.eq_def]
  have e1 : ¬ (b = 10 ∨ b = 13) := by omega
  have e2 : ¬ (b < 32 ∧ b ≠ 9) := by omega
  have e3 : ¬ b ≥ 127 := by omega
  simp only [e1, e2, h2, h3, e3, if_false]
  simp

/-- the two-character escapes -/
theorem rsl_esc (q : Cur) (e o : Nat) (tl : Bytes) (c : Cur) (acc : Bytes) (buf : Bool)
    (h : (e = 34 ∧ o = 34) ∨ (e = 92 ∧ o = 92) ∨ (e = 98 ∧ o = 8) ∨ (e = 102 ∧ o = 12) ∨
         (e = 110 ∧ o = 10) ∨ (e = 114 ∧ o = 13) ∨ (e = 116 ∧ o = 9)) :
    readStringLoop q (92 :: e :: tl) c acc buf = readStringLoop q tl (c.adv 2 2) (o :: acc) true := by
  conv => lhs; rw [readStringLoop.eq_def]
  rcases h with ⟨rfl, rfl⟩ | ⟨rfl, rfl⟩ | ⟨rfl, rfl⟩ | ⟨rfl, rfl⟩ | ⟨rfl, rfl⟩ | ⟨rfl, rfl⟩ | ⟨rfl, rfl⟩ <;> simp [escapeOut]

/-- a `\uXXXX` escape followed by at least one more byte -/
theorem rsl_u (q : Cur) (h1 h2 h3 h4 x r : Nat) (tl : Bytes) (c : Cur) (acc : Bytes) (buf : Bool)
    (h : unhex4 h1 h2 h3 h4 = some r) :
    readStringLoop q (92 :: 117 :: h1 :: h2 :: h3 :: h4 :: x :: tl) c acc buf =
      readStringLoop q (x :: tl) (c.adv 6 6) ((encodeRune r).reverse ++ acc) true := by
  conv => lhs; rw [readStringLoop.eq_def]; simp [h]

/-- a well-formed multi-byte sequence is copied -/
theorem rsl_multi (q : Cur) (r : Nat) (hr : IsScalar r) (h80 : 0x80 ≤ r) (tl : Bytes) (c : Cur)
    (acc : Bytes) (buf : Bool) :
    readStringLoop q (encodeRune r ++ tl) c acc buf =
      readStringLoop q tl (c.adv (encodeRune r).length 1) ((encodeRune r).reverse ++ acc) buf := by
  have hd := decodeRune_encodeRune hr tl
  have hh := encodeRune_high hr h80
  have hp := encodeRune_length_pos r
  cases he : encodeRune r with
  | nil => rw [he] at hp; simp at hp
  | cons b bs =>
    rw [he] at hd hh
    have hb := hh b (by simp)
    simp only [List.cons_append] at hd ⊢
    conv => lhs; rw [readStringLoop.eq_def]
    have e1 : ¬ (b = 10 ∨ b = 13) := by omega
    have e2 : ¬ (b < 32 ∧ b ≠ 9) := by omega
    have e3 : b ≠ 34 := by omega
    have e4 : b ≠ 92 := by omega
    have e5 : b ≥ 127 := by omega
    simp only [e1, e2, e3, e4, e5, if_false, if_true, hd, List.length_cons]
    have e6 : (bs ++ tl).drop (bs.length + 1 - 1) = tl := by simp
    have e7 : (b :: (bs ++ tl)).take (bs.length + 1) = b :: bs := by simp
    rw [e6, e7, ← he]

end Gql.Format

namespace Gql.Format
open Gql Gql.Lexer

theorem hexValue_upper (x : Nat) (h : x < 16) :
    hexValue (if x < 10 then 48 + x else 87 + x) = some x := by
  unfold hexValue
  by_cases h1 : x < 10
  · have a : 48 ≤ 48 + x ∧ 48 + x ≤ 57 := by omega
    simp [h1, a]
  · have a : ¬ (48 ≤ 87 + x ∧ 87 + x ≤ 57) := by omega
    have b : 97 ≤ 87 + x ∧ 87 + x ≤ 102 := by omega
    simp only [h1, if_false, a, b]
    simp

theorem unhex4_gql (b : Nat) (h : b < 256) :
    unhex4 48 48 (if b / 16 % 16 < 10 then 48 + b / 16 % 16 else 87 + b / 16 % 16)
      (if b % 16 < 10 then 48 + b % 16 else 87 + b % 16) = some b := by
  have h0 : hexValue 48 = some 0 := by decide
  unfold unhex4
  rw [h0, hexValue_upper _ (by omega), hexValue_upper _ (by omega)]
  simp only [Option.pure_def, Option.bind_eq_bind, Option.bind_some]
  congr 1; omega

theorem gqlQuoteBody_append (a b : Bytes) : gqlQuoteBody (a ++ b) = gqlQuoteBody a ++ gqlQuoteBody b := by
  induction a with
  | nil => rfl
  | cons x xs ih => simp [gqlQuoteBody, ih]

theorem gqlQuoteBody_high (bs : Bytes) (h : ∀ b ∈ bs, 0x80 ≤ b) : gqlQuoteBody bs = bs := by
  induction bs with
  | nil => rfl
  | cons x xs ih =>
    have hx := h x (by simp)
    have e : gqlEscapeByte x = [x] := by
      unfold gqlEscapeByte
      have n1 : x ≠ 34 := by omega
      have n2 : x ≠ 92 := by omega
      have n3 : x ≠ 8 := by omega
      have n4 : x ≠ 12 := by omega
      have n5 : x ≠ 10 := by omega
      have n6 : x ≠ 13 := by omega
      have n7 : x ≠ 9 := by omega
      have n8 : ¬ (x < 32 ∨ x = 127) := by omega
      simp [n1, n2, n3, n4, n5, n6, n7, n8]
    simp [gqlQuoteBody, e, ih (fun b hb => h b (by simp [hb]))]

/-- whatever `gqlEscapeByte` writes starts with a byte other than the quote -/
theorem gqlEscapeByte_head (b : Nat) : ∃ x xs, gqlEscapeByte b = x :: xs ∧ x ≠ 34 := by
  unfold gqlEscapeByte
  repeat' split
  all_goals first
    | exact ⟨_, _, rfl, by decide⟩
    | exact ⟨_, _, rfl, by omega⟩

theorem isCont_ge {b : Nat} (h : isCont b = true) : 0x80 ≤ b := by
  simp [isCont] at h; omega

/-- `decodeRune` reports width 1, or width `k + 1` and then the `k` bytes after the lead byte exist
    and are all ≥ 0x80 (the second byte in its range, continuation bytes) -/
theorem decodeRune_width (b : Nat) (tl : Bytes) :
    (decodeRune (b :: tl)).2 = 1 ∨
      ∃ p tl', tl = p ++ tl' ∧ (decodeRune (b :: tl)).2 = p.length + 1 ∧ ∀ x ∈ p, 0x80 ≤ x := by
  simp only [decodeRune]
  repeat' split
  all_goals first | exact Or.inl rfl | skip
  all_goals
    rename_i h
    right
    first
      | refine ⟨[_], _, rfl, rfl, ?_⟩
      | refine ⟨[_, _], _, rfl, rfl, ?_⟩
      | refine ⟨[_, _, _], _, rfl, rfl, ?_⟩
  all_goals
    intro x hx
    simp only [List.mem_cons, List.not_mem_nil, or_false] at hx
    simp only [isCont, Bool.and_eq_true, decide_eq_true_eq] at h
    omega

/-- a byte ≥ 0x80 is written verbatim -/
theorem gqlEscapeByte_high {x : Nat} (hx : 0x80 ≤ x) : gqlEscapeByte x = [x] := by
  have := gqlQuoteBody_high [x] (by intro b hb; simp at hb; omega)
  simpa [gqlQuoteBody] using this

/-- whatever `gqlEscapeByte` writes for a byte below 0x80 starts with a byte below 0x80 -/
theorem gqlEscapeByte_head_low {b : Nat} (hb : b < 0x80) : ∃ x xs, gqlEscapeByte b = x :: xs ∧ x < 0x80 := by
  unfold gqlEscapeByte
  repeat' split
  all_goals first
    | exact ⟨_, _, rfl, by decide⟩
    | exact ⟨_, _, rfl, by omega⟩

/-- a run of bytes ≥ 0x80 at the head of a quoted body (followed by the closing quote) is a run of
    source bytes written verbatim -/
theorem gqlQuoteBody_high_prefix (p : Bytes) (hp : ∀ x ∈ p, 0x80 ≤ x) :
    ∀ (tl rest R : Bytes), gqlQuoteBody tl ++ 34 :: rest = p ++ R →
      ∃ tl', tl = p ++ tl' ∧ R = gqlQuoteBody tl' ++ 34 :: rest := by
  induction p with
  | nil => intro tl rest R h; exact ⟨tl, rfl, by simpa using h.symm⟩
  | cons a p ih =>
    intro tl rest R h
    have ha := hp a (by simp)
    cases tl with
    | nil => simp [gqlQuoteBody] at h; omega
    | cons x xs =>
      by_cases hx : x < 0x80
      · obtain ⟨y, ys, e, hy⟩ := gqlEscapeByte_head_low hx
        simp only [gqlQuoteBody, e, List.cons_append] at h
        simp at h; omega
      · rw [show gqlQuoteBody (x :: xs) = gqlEscapeByte x ++ gqlQuoteBody xs from rfl,
          gqlEscapeByte_high (by omega)] at h
        simp only [List.cons_append, List.nil_append, List.cons.injEq] at h
        obtain ⟨rfl, h'⟩ := h
        obtain ⟨tl', e1, e2⟩ := ih (fun y hy => hp y (by simp [hy])) xs rest R h'
        exact ⟨tl', by rw [e1]; rfl, e2⟩

/-- a byte ≥ 127 that is not special: the loop takes the `w` SOURCE bytes that `decodeRune` spans,
    whatever they are and whether or not an escape has been seen -/
theorem rsl_raw (q : Cur) (b : Nat) (tl : Bytes) (c : Cur) (acc : Bytes) (buf : Bool) (hb : 127 ≤ b) :
    readStringLoop q (b :: tl) c acc buf =
      readStringLoop q (tl.drop ((decodeRune (b :: tl)).2 - 1)) (c.adv (decodeRune (b :: tl)).2 1)
        (((b :: tl).take (decodeRune (b :: tl)).2).reverse ++ acc) buf := by
  conv => lhs; rw [readStringLoop.eq_def]
  have e1 : ¬ (b = 10 ∨ b = 13) := by omega
  have e2 : ¬ (b < 32 ∧ b ≠ 9) := by omega
  have e3 : b ≠ 34 := by omega
  have e4 : b ≠ 92 := by omega
  have e5 : b ≥ 127 := hb
  simp only [e1, e2, e3, e4, e5, if_false, if_true]

/-- The core of "string values survive byte for byte", for ARBITRARY bytes: the string-body loop
    of the lexer model, started anywhere (any cursor, any accumulator, buffer on or off) on the
    `gqlQuote` body of any byte string followed by the closing quote, stops exactly at that quote with
    a String token whose value is the accumulator followed by the original bytes — well-formed UTF-8
    or not (the quoting writes every byte ≥ 0x80 verbatim and the lexer keeps the source bytes of
    every unescaped character). -/
theorem rsl_gqlQuoteBody_bytes (q : Cur) (rest : Bytes) (n : Nat) :
    ∀ (bs : Bytes), bs.length ≤ n → ∀ (c : Cur) (acc : Bytes) (buf : Bool), ∃ t c',
      readStringLoop q (gqlQuoteBody bs ++ 34 :: rest) c acc buf = .tok t rest c' ∧
      t.kind = .string ∧ t.value = acc.reverse ++ bs := by
  induction n with
  | zero =>
    intro bs hl c acc buf
    have : bs = [] := List.eq_nil_of_length_eq_zero (by omega)
    subst this
    have e : gqlQuoteBody [] ++ 34 :: rest = 34 :: rest := by simp [gqlQuoteBody]
    rw [e, rsl_close]
    exact ⟨_, _, rfl, rfl, by simp⟩
  | succ n ihn =>
    intro bs hl c acc buf
    cases bs with
    | nil =>
      have e : gqlQuoteBody [] ++ 34 :: rest = 34 :: rest := by simp [gqlQuoteBody]
      rw [e, rsl_close]
      exact ⟨_, _, rfl, rfl, by simp⟩
    | cons r xs =>
    have hlx : xs.length ≤ n := by simp at hl; omega
    have ih := ihn xs hlx
    rw [show gqlQuoteBody (r :: xs) = gqlEscapeByte r ++ gqlQuoteBody xs from rfl]
    by_cases h80 : r < 0x80
    · -- one ASCII byte
      simp only [List.append_assoc]
      -- the escapes
      have esc : ∀ (e o : Nat), gqlEscapeByte r = [92, e] → o = r →
          ((e = 34 ∧ o = 34) ∨ (e = 92 ∧ o = 92) ∨ (e = 98 ∧ o = 8) ∨ (e = 102 ∧ o = 12) ∨
           (e = 110 ∧ o = 10) ∨ (e = 114 ∧ o = 13) ∨ (e = 116 ∧ o = 9)) →
          ∃ t c', readStringLoop q (gqlEscapeByte r ++ (gqlQuoteBody (xs) ++ 34 :: rest)) c acc buf
              = .tok t rest c' ∧ t.kind = .string ∧ t.value = acc.reverse ++ ([r] ++ xs) := by
        intro e o he ho hcase
        rw [he]
        simp only [List.cons_append, List.nil_append]
        rw [rsl_esc q e o _ c acc buf hcase]
        obtain ⟨t, c', h1, h2, h3⟩ := ih (c.adv 2 2) (o :: acc) true
        exact ⟨t, c', h1, h2, by rw [h3, ho]; simp⟩
      by_cases c1 : r = 34
      · exact esc 34 34 (by simp [gqlEscapeByte, c1]) c1.symm (by simp)
      by_cases c2 : r = 92
      · exact esc 92 92 (by simp [gqlEscapeByte, c2]) c2.symm (by simp)
      by_cases c3 : r = 8
      · exact esc 98 8 (by simp [gqlEscapeByte, c3]) c3.symm (by simp)
      by_cases c4 : r = 12
      · exact esc 102 12 (by simp [gqlEscapeByte, c4]) c4.symm (by simp)
      by_cases c5 : r = 10
      · exact esc 110 10 (by simp [gqlEscapeByte, c5]) c5.symm (by simp)
      by_cases c6 : r = 13
      · exact esc 114 13 (by simp [gqlEscapeByte, c6]) c6.symm (by simp)
      by_cases c7 : r = 9
      · exact esc 116 9 (by simp [gqlEscapeByte, c7]) c7.symm (by simp)
      by_cases c8 : r < 32 ∨ r = 127
      · -- \u00XY
        have he : gqlEscapeByte r = [92, 117, 48, 48,
            (if r / 16 % 16 < 10 then 48 + r / 16 % 16 else 87 + r / 16 % 16),
            (if r % 16 < 10 then 48 + r % 16 else 87 + r % 16)] := by
          simp [gqlEscapeByte, c1, c2, c3, c4, c5, c6, c7, c8]
        rw [he]
        simp only [List.cons_append, List.nil_append]
        cases hX : gqlQuoteBody (xs) ++ 34 :: rest with
        | nil => simp at hX
        | cons x tl =>
          rw [rsl_u q _ _ _ _ x r tl c acc buf (unhex4_gql r (by omega)), ← hX, encodeRune_ascii h80]
          obtain ⟨t, c', h1, h2, h3⟩ := ih (c.adv 6 6) ([r].reverse ++ acc) true
          exact ⟨t, c', h1, h2, by rw [h3]; simp⟩
      · -- verbatim
        have he : gqlEscapeByte r = [r] := by
          simp [gqlEscapeByte, c1, c2, c3, c4, c5, c6, c7, c8]
        rw [he]
        simp only [List.cons_append, List.nil_append]
        rw [rsl_plain q r _ c acc buf (by omega) c1 c2 (by omega)]
        obtain ⟨t, c', h1, h2, h3⟩ := ih (c.adv 1 1) (r :: acc) buf
        exact ⟨t, c', h1, h2, by rw [h3]; simp⟩
    · -- a byte ≥ 0x80 (lead byte, continuation byte, or no UTF-8 at all): written verbatim, and the
      -- lexer takes the bytes `decodeRune` spans, all of them verbatim source bytes
      rw [gqlEscapeByte_high (by omega)]
      simp only [List.cons_append, List.nil_append]
      rw [rsl_raw q r _ c acc buf (by omega)]
      rcases decodeRune_width r (gqlQuoteBody xs ++ 34 :: rest) with hw | ⟨p, R, e1, hw, hp⟩
      · rw [hw]
        simp only [Nat.sub_self, List.drop_zero, List.take_succ_cons, List.take_zero]
        obtain ⟨t, c', h1, h2, h3⟩ := ih (c.adv 1 1) ([r].reverse ++ acc) buf
        exact ⟨t, c', h1, h2, by rw [h3]; simp⟩
      · obtain ⟨xs', e2, e3⟩ := gqlQuoteBody_high_prefix p hp xs rest R e1
        rw [hw, e1]
        have d1 : (p ++ R).drop (p.length + 1 - 1) = R := by simp
        have d2 : (r :: (p ++ R)).take (p.length + 1) = r :: p := by simp
        rw [d1, d2, e3]
        have hl' : xs'.length ≤ n := by rw [e2] at hlx; simp at hlx; omega
        obtain ⟨t, c', h1, h2, h3⟩ := ihn xs' hl' (c.adv (p.length + 1) 1) ((r :: p).reverse ++ acc) buf
        exact ⟨t, c', h1, h2, by rw [h3, e2]; simp⟩

/-- For every sequence of Unicode scalar values the string-body loop reads the `gqlQuote` body of
    its UTF-8 encoding back as that encoding (special case of `rsl_gqlQuoteBody_bytes`). -/
theorem rsl_gqlQuoteBody (q : Cur) (rest : Bytes) (cps : List Nat) (hs : ∀ r ∈ cps, IsScalar r) :
    ∀ (c : Cur) (acc : Bytes) (buf : Bool), ∃ t c',
      readStringLoop q (gqlQuoteBody (utf8Encode cps) ++ 34 :: rest) c acc buf = .tok t rest c' ∧
      t.kind = .string ∧ t.value = acc.reverse ++ utf8Encode cps :=
  fun c acc buf => rsl_gqlQuoteBody_bytes q rest _ (utf8Encode cps) (Nat.le_refl _) c acc buf

end Gql.Format

namespace Gql.Format
open Gql Gql.Lexer

/-- bytes on which `strconv.Quote` and the GraphQL quoting agree: printable ASCII and the five
    control characters that have the same escape in Go and GraphQL -/
def PlainByte (b : Nat) : Prop := (32 ≤ b ∧ b < 127) ∨ b = 8 ∨ b = 9 ∨ b = 10 ∨ b = 12 ∨ b = 13

instance (b : Nat) : Decidable (PlainByte b) := by unfold PlainByte; exact inferInstance

theorem escapedRune_plain (b : Nat) (h : PlainByte b) : escapedRune isPrintDefault b = gqlEscapeByte b := by
  unfold PlainByte at h
  unfold escapedRune gqlEscapeByte
  by_cases c1 : b = 34
  · simp [c1]
  by_cases c2 : b = 92
  · simp [c2]
  rcases h with h | h | h | h | h | h
  · have p : isPrintDefault b = true := by
      have : b ≤ 0xFF := by omega
      simp [isPrintDefault, this, inRange]; omega
    have e : encodeRune b = [b] := encodeRune_ascii (by omega)
    have n1 : b ≠ 8 := by omega
    have n2 : b ≠ 12 := by omega
    have n3 : b ≠ 10 := by omega
    have n4 : b ≠ 13 := by omega
    have n5 : b ≠ 9 := by omega
    have n6 : ¬ (b < 32 ∨ b = 127) := by omega
    simp [c1, c2, p, e, n1, n2, n3, n4, n5, n6]
  all_goals (subst h; simp [isPrintDefault, inRange])

theorem goQuoteBody_plain (bs : Bytes) (h : ∀ b ∈ bs, PlainByte b) :
    goQuoteBody isPrintDefault bs = gqlQuoteBody bs := by
  induction bs with
  | nil => rw [goQuoteBody.eq_def]; rfl
  | cons b tl ih =>
    have hb := h b (by simp)
    have hlt : ¬ b ≥ 0x80 := by unfold PlainByte at hb; omega
    have hne : b ≠ runeError := by unfold PlainByte at hb; simp [runeError]; omega
    have ih' := ih (fun x hx => h x (by simp [hx]))
    rw [goQuoteBody.eq_def]
    simp [hlt, hne, escapedRune_plain b hb, ih', gqlQuoteBody]

/-- on plain ASCII text the quoting of the unchanged tree IS the GraphQL quoting -/
theorem goQuote_plain (bs : Bytes) (h : ∀ b ∈ bs, PlainByte b) : goQuote bs = gqlQuote bs := by
  simp [goQuote, gqlQuote, goQuoteBody_plain bs h]

theorem utf8Encode_ascii (bs : Bytes) (h : ∀ b ∈ bs, b < 0x80) : utf8Encode bs = bs := by
  induction bs with
  | nil => simp [utf8Encode]
  | cons b tl ih =>
    have := ih (fun x hx => h x (by simp [hx]))
    simp only [utf8Encode, List.flatMap_cons] at this ⊢
    rw [this, encodeRune_ascii (h b (by simp))]; simp

end Gql.Format
