import GqlProofs.Lexer.UniNumber
import GqlProofs.Format.Lexes
/-
  A number lexeme followed by a separator or punctuator.

  The number scanners of the specification (`Spec.numberToken`, proved equal to the model's
  `readNumber` in `readNumber_spec`) only test the next character for Digit, `.`, `e`/`E`, sign
  and NameStart.  A rest that is empty or starts with a `sepByte` (`Inert X`) therefore behaves
  exactly like the end of the text.  (Companion of the `Opaque` lemmas of Lexer/UniNumber.lean,
  same proofs with the other hypothesis.)
-/
namespace Gql.Format
open Gql Gql.Lexer Gql.Lexer.Spec

local macro "cpomega" : tactic => `(tactic| ((try simp only [Cp] at *); omega))

theorem sepByte_cases {c : Nat} (h : sepByte c = true) :
    c = 9 ∨ c = 10 ∨ c = 13 ∨ c = 32 ∨ c = 44 ∨ c = 33 ∨ c = 36 ∨ c = 38 ∨ c = 40 ∨ c = 41 ∨ c = 58 ∨
    c = 61 ∨ c = 64 ∨ c = 91 ∨ c = 93 ∨ c = 123 ∨ c = 125 ∨ c = 124 := by
  simp [sepByte, blankByte] at h
  omega

/-- empty, or starts with a separator / punctuator -/
def Inert (X : List Nat) : Prop := ∀ c t, X = c :: t → sepByte c = true

theorem Inert_nil : Inert [] := fun _ _ h => by simp at h

theorem Inert_of_Follow {post : Bytes} (h : Follow true post) : Inert post := fun c t e => h rfl c t e

theorem isDigitC_sep {c : Nat} (h : sepByte c = true) : isDigitC c = false := by
  have := sepByte_cases h
  simp [isDigitC]; cpomega

theorem isDigit_sep {c : Nat} (h : sepByte c = true) : isDigit c = false := by
  have := sepByte_cases h
  simp [isDigit]; omega

theorem isNameStartC_sep {c : Nat} (h : sepByte c = true) : isNameStartC c = false := by
  have := sepByte_cases h
  have h3 : ¬ c = 95 := by omega
  simp [isNameStartC, isLetter, h3]; cpomega

theorem isNameCont_sep {c : Nat} (h : sepByte c = true) : isNameCont c = false := by
  have := sepByte_cases h
  simp [isNameCont, isNameStart, isDigit]; omega

theorem spanP_inert (p : Cp → Bool) (hp : ∀ c, sepByte c = true → p c = false) (pre X : List Cp) (hX : Inert X) :
    spanP p (pre ++ X) = ((spanP p pre).1, (spanP p pre).2 ++ X) := by
  induction pre with
  | nil =>
    cases X with
    | nil => simp [spanP]
    | cons c t => simp [spanP, hp c (hX c t rfl)]
  | cons a pre ih =>
    simp only [List.cons_append, spanP]
    cases h : p a
    · simp
    · simp [ih]

theorem digits1_inert (pre X : List Cp) (hX : Inert X) :
    digits1 (pre ++ X) = (digits1 pre).map (fun p => (p.1, p.2 ++ X)) := by
  simp only [digits1, spanP_inert isDigitC (fun c h => isDigitC_sep h) pre X hX]
  cases (spanP isDigitC pre).1.isEmpty <;> simp

theorem intPart_inert (sg pre X : List Cp) (hX : Inert X) :
    intPart sg (pre ++ X) = (intPart sg pre).map (fun p => (p.1, p.2 ++ X)) := by
  cases pre with
  | nil =>
    cases X with
    | nil => simp [intPart]
    | cons c t =>
      have hc := hX c t rfl
      have h48 : c ≠ 48 := by have := sepByte_cases hc; cpomega
      rw [List.nil_append, intPart_cons sg c t h48]
      simp [isDigitC_sep hc, intPart]
  | cons d r =>
    simp only [List.cons_append]
    by_cases h48 : d = 48
    · subst h48; simp [intPart]
    · rw [intPart_cons sg d _ h48, intPart_cons sg d _ h48,
        spanP_inert isDigitC (fun c h => isDigitC_sep h) r X hX]
      cases isDigitC d <;> simp

theorem stripSign_inert_nil (X : List Cp) (hX : Inert X) : stripSign X = (0, X) := by
  rw [stripSign.eq_def]; split
  · rename_i t; have := sepByte_cases (hX 45 t rfl); omega
  · rfl

theorem integerPart_inert (pre X : List Cp) (hX : Inert X) :
    integerPart (pre ++ X) = (integerPart pre).map (fun p => (p.1, p.2 ++ X)) := by
  rw [integerPart_eq, integerPart_eq]
  cases pre with
  | nil =>
    have e : stripSign ([] : List Cp) = (0, []) := rfl
    simp only [List.nil_append, stripSign_inert_nil X hX, e]
    simpa using intPart_inert (List.replicate 0 45) [] X hX
  | cons d r =>
    rw [stripSign_opaque_cons]
    exact intPart_inert _ _ X hX

theorem fractionalPart_inert (pre X : List Cp) (hX : Inert X) :
    fractionalPart (pre ++ X) = (fractionalPart pre).map (fun p => (p.1, p.2 ++ X)) := by
  cases pre with
  | nil =>
    have e : fractionalPart ([] : List Cp) = none := rfl
    rw [e, List.nil_append]
    exact fractionalPart_nodot X (by intro t ht; have := sepByte_cases (hX 46 t ht); omega)
  | cons d r =>
    by_cases h : d = 46
    · subst h
      simp only [List.cons_append, fractionalPart, digits1_inert r X hX]
      cases digits1 r <;> simp
    · rw [fractionalPart_nodot (d :: r) (by intro t ht; simp at ht; cpomega),
        fractionalPart_nodot (d :: r ++ X) (by intro t ht; simp at ht; cpomega)]
      rfl

theorem exponentPart_inert (pre X : List Cp) (hX : Inert X) :
    exponentPart (pre ++ X) = (exponentPart pre).map (fun p => (p.1, p.2 ++ X)) := by
  cases pre with
  | nil =>
    rw [exponentPart_nil, List.nil_append]
    cases X with
    | nil => rfl
    | cons c t =>
      have := sepByte_cases (hX c t rfl)
      exact exponentPart_not_e c t (by omega)
  | cons e r =>
    simp only [List.cons_append]
    by_cases he : e = 101 ∨ e = 69
    · cases r with
      | nil =>
        simp only [List.nil_append]
        rw [exponentPart_nosign e [] he (by simp),
          exponentPart_nosign e X he (by intro s t' h; have := sepByte_cases (hX s t' h); omega)]
        have e1 : digitSpan X = ([], X) := by
          cases X with
          | nil => rfl
          | cons c t =>
            have hd : isDigit c = false := isDigit_sep (hX c t rfl)
            simp [digitSpan, hd]
        simp [e1, digitSpan]
      | cons s r' =>
        simp only [List.cons_append]
        have hsp : digitSpan (r' ++ X) = ((digitSpan r').1, (digitSpan r').2 ++ X) := by
          rw [digitSpan_eq_spanP, digitSpan_eq_spanP]
          exact spanP_inert isDigitC (fun c h => isDigitC_sep h) r' X hX
        have hsp2 : digitSpan (s :: r' ++ X) = ((digitSpan (s :: r')).1, (digitSpan (s :: r')).2 ++ X) := by
          rw [digitSpan_eq_spanP, digitSpan_eq_spanP]
          exact spanP_inert isDigitC (fun c h => isDigitC_sep h) (s :: r') X hX
        by_cases hs : s = 45 ∨ s = 43
        · rw [exponentPart_sign e s _ he hs, exponentPart_sign e s _ he hs, hsp]
          cases (digitSpan r').1.isEmpty <;> simp
        · rw [exponentPart_nosign e (s :: r') he (by intro s' t' h; simp at h; cpomega),
            exponentPart_nosign e (s :: (r' ++ X)) he (by intro s' t' h; simp at h; cpomega)]
          rw [← List.cons_append, hsp2]
          cases (digitSpan (s :: r')).1.isEmpty <;> simp
    · rw [exponentPart_not_e e r he, exponentPart_not_e e (r ++ X) he]
      rfl

theorem numberFollowOk_inert (r X : List Cp) (hX : Inert X) :
    numberFollowOk (r ++ X) = numberFollowOk r := by
  cases r with
  | nil =>
    cases X with
    | nil => rfl
    | cons c t =>
      have hc := hX c t rfl
      have h46 : (c == 46) = false := by have := sepByte_cases hc; simp; cpomega
      simp [numberFollowOk, isDigitC_sep hc, isNameStartC_sep hc, h46]
  | cons c t => rfl

theorem finS_inert (k : Kind) (lex r X : List Cp) (hX : Inert X) :
    finS k lex (r ++ X) = (finS k lex r).map (fun p => (p.1, p.2.1, p.2.2 ++ X)) := by
  unfold finS
  rw [numberFollowOk_inert r X hX]
  cases numberFollowOk r <;> simp

theorem numTail_inert (x r X : List Cp) (hX : Inert X) :
    numTail x (r ++ X) = (numTail x r).map (fun p => (p.1, p.2.1, p.2.2 ++ X)) := by
  unfold numTail
  rw [fractionalPart_inert r X hX]
  cases fractionalPart r with
  | none =>
    simp only [Option.map_none]
    rw [exponentPart_inert r X hX]
    cases exponentPart r with
    | none => simp only [Option.map_none]; exact finS_inert _ _ _ X hX
    | some q => simp only [Option.map_some]; exact finS_inert _ _ _ X hX
  | some q =>
    simp only [Option.map_some]
    rw [exponentPart_inert q.2 X hX]
    cases exponentPart q.2 with
    | none => simp only [Option.map_none]; exact finS_inert _ _ _ X hX
    | some q' => simp only [Option.map_some]; exact finS_inert _ _ _ X hX

/-- a separator / punctuator after a number is as good as the end of the text -/
theorem numberToken_inert (pre X : List Cp) (hX : Inert X) :
    numberToken (pre ++ X) = (numberToken pre).map (fun p => (p.1, p.2.1, p.2.2 ++ X)) := by
  rw [numberToken_eq, numberToken_eq, integerPart_inert pre X hX]
  cases integerPart pre with
  | none => rfl
  | some q => simp only [Option.map_some]; exact numTail_inert _ _ X hX

/-- `raw` is, on its own, exactly one Int / Float lexeme of kind `k` (decidable) -/
def numRaw (k : Kind) (raw : Bytes) : Bool := decide (numberToken raw = some (k, raw, []))

/-- The lexer model reads a number lexeme followed by a separator / punctuator as that number. -/
theorem readNumber_numRaw (k : Kind) (raw X : Bytes) (h : numRaw k raw = true) (hX : Inert X) (c : Cur) :
    readNumber c (raw ++ X) = numTok c k raw X := by
  have h0 : numberToken raw = some (k, raw, []) := by simpa [numRaw] using h
  have h1 := numberToken_inert raw X hX
  rw [h0] at h1
  have h2 := readNumber_spec c (raw ++ X)
  rw [h1] at h2
  simpa [Matches] using h2.1

end Gql.Format
