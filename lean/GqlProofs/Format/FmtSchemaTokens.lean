import GqlProofs.Format.FmtTokens
import GqlProofs.Format.FormattableSchema
/-
  The formatter of type-system documents (`FormatSchemaDocument`), function by function: the text
  written is a complete sequence of token texts for the tokens of the normalised subtree.
  Hypothesis on the configuration: the indentation string consists of spaces and tabs (inside a
  block-string description any other byte would become part of the description).
-/
namespace Gql.Format
open Gql Gql.Lexer Gql.Grammar Gql.Print

variable {cfg : Cfg}

theorem blankIndent_of_allBlank (h : AllBlank cfg.indent) : BlankIndent cfg := by
  intro b hb
  have := h b hb
  simp [isBlank] at this
  rcases this with rfl | rfl <;> rfl

theorem allBlank_repeatBytes (ind : Bytes) (h : AllBlank ind) (n : Nat) : AllBlank (repeatBytes ind n) := by
  intro b hb
  simp [repeatBytes] at hb
  obtain ⟨l, ⟨_, rfl⟩, hb⟩ := hb
  exact h b hb

theorem allIgnored_lf : AllIgnored [10] := by intro b hb; simp at hb; subst hb; rfl

/-! ### words with inner blanks: `A & B`, `A | B` -/

theorem trimSpace_edges (s : Bytes) (h1 : ∀ b, s.head? = some b → isAsciiSpace b = false)
    (h2 : ∀ b, s.getLast? = some b → isAsciiSpace b = false) : trimSpace s = s := by
  have t1 : ∀ x : Bytes, (∀ b, x.head? = some b → isAsciiSpace b = false) → trimLeft x = x := by
    intro x hx
    cases x with
    | nil => rfl
    | cons b t => simp [trimLeft, hx b rfl]
  unfold trimSpace
  rw [t1 s h1, t1 s.reverse (by intro b hb; rw [List.head?_reverse] at hb; exact h2 b hb)]
  simp

theorem joinNames_ne_nil (sep : Bytes) : ∀ ns : List Name, ns ≠ [] → (∀ n ∈ ns, n ≠ []) → joinNames sep ns ≠ []
  | [], h, _ => absurd rfl h
  | [n], _, hn => by simpa [joinNames] using hn n (by simp)
  | n :: m :: rest, _, hn => by
    have := hn n (by simp)
    simp [joinNames, this]

theorem joinNames_head (sep : Bytes) : ∀ ns : List Name, (∀ n ∈ ns, n ≠ []) →
    ∀ b, (joinNames sep ns).head? = some b → ∃ n ∈ ns, b ∈ n
  | [], _, b, h => by simp [joinNames] at h
  | [n], _, b, h => ⟨n, by simp, List.mem_of_mem_head? (by simpa [joinNames] using h)⟩
  | n :: m :: rest, hn, b, h => by
    have hne := hn n (by simp)
    cases n with
    | nil => exact absurd rfl hne
    | cons x t =>
      simp [joinNames] at h
      exact ⟨x :: t, by simp, by simp [h]⟩

theorem joinNames_getLast (sep : Bytes) : ∀ ns : List Name, (∀ n ∈ ns, n ≠ []) →
    ∀ b, (joinNames sep ns).getLast? = some b → ∃ n ∈ ns, b ∈ n
  | [], _, b, h => by simp [joinNames] at h
  | [n], _, b, h => ⟨n, by simp, List.mem_of_mem_getLast? (by simpa [joinNames] using h)⟩
  | n :: m :: rest, hn, b, h => by
    have hJ := joinNames_ne_nil sep (m :: rest) (by simp) (fun x hx => hn x (by simp [hx]))
    have e : joinNames sep (n :: m :: rest) = (n ++ sep) ++ joinNames sep (m :: rest) := by simp [joinNames]
    rw [e, List.getLast?_append] at h
    have h' : (joinNames sep (m :: rest)).getLast? = some b := by
      cases hl : (joinNames sep (m :: rest)).getLast? with
      | none => exact absurd (List.getLast?_eq_none_iff.1 hl) hJ
      | some y => rw [hl] at h; simpa using h
    obtain ⟨x, hx, hb⟩ := joinNames_getLast sep (m :: rest) (fun x hx => hn x (by simp [hx])) b h'
    exact ⟨x, by simp [List.mem_cons] at hx ⊢; exact Or.inr hx, hb⟩

theorem isNameB_ne_nil {n : Bytes} (h : isNameB n = true) : n ≠ [] := by
  intro e; subst e; simp [isNameB] at h

theorem trimSpace_joinNames (sep : Bytes) (ns : List Name) (hn : ns.all isNameB = true) :
    trimSpace (joinNames sep ns) = joinNames sep ns := by
  have hall : ∀ n ∈ ns, isNameB n = true := List.all_eq_true.1 hn
  have hne : ∀ n ∈ ns, n ≠ [] := fun n h => isNameB_ne_nil (hall n h)
  refine trimSpace_edges _ ?_ ?_
  · intro b hb
    obtain ⟨n, hn1, hbn⟩ := joinNames_head sep ns hne b hb
    exact name_noSpace n (hall n hn1) b hbn
  · intro b hb
    obtain ⟨n, hn1, hbn⟩ := joinNames_getLast sep ns hne b hb
    exact name_noSpace n (hall n hn1) b hbn

/-- `strings.Join(names, " & ")` / `" | "` lexes to the names separated by the punctuator -/
theorem lexTo_joinNames (p : Nat) (k : Kind) (hp : punct p = some k) : ∀ ns : List Name, ns ≠ [] →
    ns.all isNameB = true → LexTo (joinNames [32, p, 32] ns) (printSep k ns) true
  | [], h, _ => absurd rfl h
  | [n], _, hn => by
    simp at hn
    simpa [joinNames, printSep] using (tokText_name n hn).lexTo
  | n :: m :: rest, _, hn => by
    simp only [List.all_cons, Bool.and_eq_true] at hn
    have ih := lexTo_joinNames p k hp (m :: rest) (by simp) (by simp [hn.2])
    have hsep : LexTo [32, p, 32] [tP k] false := by
      have h0 : LexTo [32] [] false := by
        simpa using (LexTo_nil).blank (bl := [32]) (by intro b hb; simp at hb; subst hb; rfl) (by simp)
      have h1 := (h0.append (tokText_punct p k hp).lexTo (StartOK_false _)).blank (bl := [32])
        (by intro b hb; simp at hb; subst hb; rfl) (by simp)
      simpa using h1
    have := ((tokText_name n hn.1).lexTo.append hsep (StartOK_cons _ 32 _ (by decide))).append ih (StartOK_false _)
    simpa [joinNames, printSep, List.append_assoc] using this

variable (hind : AllBlank cfg.indent)
include hind

/-! ### descriptions -/

/-- `WriteDescription` -/
theorem T_description {w : W} {ts : List Tok} (s : Bytes) (h : I false w ts) (hs : strRaw s = true) :
    I false (writeDescription cfg s w) (ts ++ descTok (normDesc cfg s)) := by
  have hb := blankIndent_of_allBlank hind
  by_cases hskip : s = [] ∨ cfg.omitDescription = true
  · have e1 : writeDescription cfg s w = w := by
      unfold writeDescription
      rcases hskip with h | h <;> simp [h]
    have e2 : descTok (normDesc cfg s) = [] := by
      rcases hskip with h | h <;> simp [descTok, normDesc, h]
    rw [e1, e2]; simpa using h
  · have hne : s ≠ [] := fun e => hskip (Or.inl e)
    have ho : cfg.omitDescription = false := by
      cases h' : cfg.omitDescription with
      | true => exact absurd (Or.inr h') hskip
      | false => rfl
    have hn : normDesc cfg s = s := by simp [normDesc, ho]
    cases hrep : blockStringRepresentable s with
    | true =>
      have htxt := writeDescription_text cfg s w hne ho hrep
      have h1 := (h.lead hb).append
        (tokText_blockDescription _ s (allBlank_repeatBytes _ hind w.indentSize) hs hrep).lexTo (StartOK_false _)
      have h2 := h1.blank allIgnored_lf (by simp)
      refine I.free ?_
      rw [htxt, hn]
      simpa [descTok, hne, hrep, List.append_assoc] using h2
    | false =>
      have htxt := writeDescription_text_quoted cfg s w hne ho hrep
      have h1 := (h.lead hb).append (tokText_string s hs).lexTo (StartOK_false _)
      have h2 := h1.blank allIgnored_lf (by simp)
      refine I.free ?_
      rw [htxt, hn]
      simpa [descTok, hne, hrep, quoteString, List.append_assoc] using h2

/-! ### argument definitions -/

/-- `name: Type = default @dirs` (the part shared by argument definitions and input fields) -/
theorem T_inputValueCore {w : W} {ts : List Tok} (name : Name) (type : GType) (dflt : Option Value)
    (dirs : List Directive) (h : I false w ts) (hn : isNameB name = true) (ht : typeOk type = true)
    (hd : defaultOk dflt = true) (hds : dirs.all dirOk = true) :
    I false (formatDirectiveList cfg dirs (needPadding
        (match dflt with
          | some v => formatValue cfg v (writeWord cfg [61]
              (formatType cfg type (needPadding (writeStr cfg [58] (noPadding (writeWord cfg name w))))))
          | none => formatType cfg type (needPadding (writeStr cfg [58] (noPadding (writeWord cfg name w)))))))
      (ts ++ (tName name :: tP .colon :: printType type ++ printDefault (dflt.map normValue)
        ++ printDirectives (dirs.map normDir))) := by
  have hb := blankIndent_of_allBlank hind
  have h2 := P_nameColon hb name h hn
  have h3 := T_type hb type (I.free h2) ht
  cases dflt with
  | none =>
    have h4 := T_directiveList hb dirs false (needPadding (formatType cfg type _)) _
      (I.mk h3 (by simp [tightOf])) hds
    simpa [printDefault, List.append_assoc] using h4
  | some v =>
    have h4 := P_word hb (cfg := cfg) (g := false) (I.mk h3 (by simp [tightOf])) tokText_equals.lexTo
      (StartOK_false _) (by decide)
    have h5 := T_value hb v (I.free h4) hd
    have h6 := T_directiveList hb dirs false (needPadding (formatValue cfg v _)) _
      (I.mk h5 (by simp [tightOf])) hds
    simpa [printDefault, List.append_assoc] using h6

/-- `FormatArgumentDefinition` -/
theorem T_argDef {w : W} {ts : List Tok} (a : ArgDef) (h : I false w ts) (ha : argDefOk a = true) :
    I false (formatArgumentDefinition cfg a w) (ts ++ printArgDefD descTok (normArgDef cfg a)) := by
  obtain ⟨desc, name, dflt, type, dirs, pos⟩ := a
  simp only [argDefOk, Bool.and_eq_true] at ha
  obtain ⟨⟨⟨⟨hdesc, hname⟩, htype⟩, hdef⟩, hdirs⟩ := ha
  by_cases hdes : (!desc.isEmpty && !cfg.omitDescription) = true
  · have h1 := P_newline h
    have h2 := T_description hind (w := incIndent (writeNewline w)) desc (I.free (by simpa using h1)) hdesc
    have h3 := T_inputValueCore hind name type dflt dirs h2 hname htype hdef hdirs
    have h4 := P_newline (w := decIndent _) (g := false) (by
      unfold I at h3 ⊢; simpa [tightOf] using h3)
    refine I.free ?_
    cases dflt <;>
      simpa [formatArgumentDefinition, hdes, printArgDefD, normArgDef, List.append_assoc] using h4
  · have e : descTok (normDesc cfg desc) = [] := by
      simp only [Bool.and_eq_true, Bool.not_eq_true', not_and, Bool.not_eq_false] at hdes
      by_cases hd0 : desc = []
      · simp [descTok, normDesc, hd0]
      · have : desc.isEmpty = false := by cases desc <;> simp_all
        simp [descTok, normDesc, hdes this]
    have h3 := T_inputValueCore hind name type dflt dirs h hname htype hdef hdirs
    cases dflt <;>
      simpa [formatArgumentDefinition, hdes, printArgDefD, normArgDef, e, List.append_assoc] using h3

/-- the loop of `FormatArgumentDefinitionList`: a comma only after an argument without description -/
theorem T_argDefs : ∀ (ds : List ArgDef) (w : W) (ts : List Tok), I false w ts → ds.all argDefOk = true →
    I false (formatArgumentDefinitions cfg ds w) (ts ++ (ds.map (normArgDef cfg)).flatMap (printArgDefD descTok))
  | [], w, ts, h, _ => by simpa [formatArgumentDefinitions] using h
  | [d], w, ts, h, hd => by
    simp at hd
    simpa [formatArgumentDefinitions] using T_argDef hind d h hd
  | d :: e :: rest, w, ts, h, hd => by
    have hb := blankIndent_of_allBlank hind
    simp only [List.all_cons, Bool.and_eq_true] at hd
    have h1 := T_argDef hind d h hd.1
    have h2 : I false (if d.desc.isEmpty = true then writeWord cfg [44] (noPadding (formatArgumentDefinition cfg d w))
        else formatArgumentDefinition cfg d w) (ts ++ printArgDefD descTok (normArgDef cfg d)) := by
      split
      · exact I.free (P_comma hb (g := true) (w := noPadding (formatArgumentDefinition cfg d w))
          (I.mk h1.glue (by simp [tightOf])))
      · exact h1
    have h3 := T_argDefs (e :: rest) _ _ h2 (by simp [hd.2])
    simpa [formatArgumentDefinitions, List.append_assoc] using h3

/-- `FormatArgumentDefinitionList` -/
theorem T_argDefList {g : Bool} {w : W} {ts : List Tok} (ds : List ArgDef) (h : I g w ts)
    (hd : ds.all argDefOk = true) :
    I g (formatArgumentDefinitionList cfg ds w) (ts ++ printArgDefsD descTok (ds.map (normArgDef cfg))) := by
  have hb := blankIndent_of_allBlank hind
  cases ds with
  | nil => simpa [formatArgumentDefinitionList, printArgDefsD] using h
  | cons d ds =>
    have h1 := P_str hb h tokText_parenL.lexTo (StartOK_cons _ _ _ (by decide))
    have h2 := T_argDefs hind (d :: ds) _ _ (I.free h1) hd
    have h3 := P_str hb (cfg := cfg) (g := true) (w := noPadding _) (I.mk h2.glue (by simp [tightOf]))
      tokText_parenR.lexTo (StartOK_cons _ _ _ (by decide))
    exact I.free (by simpa [formatArgumentDefinitionList, printArgDefsD, List.append_assoc] using h3)

/-! ### fields and enum values -/

/-- what `FormatFieldDefinition` writes for any field: description, name, arguments, type,
    default value, directives (`printFieldDefD` when there is no default value, `printInputFieldD`
    when there are no arguments) -/
def genFieldD (pd : Bytes → List Tok) (f : FieldDef) : List Tok :=
  pd f.desc ++ tName f.name :: printArgDefsD pd f.args ++ tP .colon :: printType f.type ++ printDefault f.default
    ++ printDirectives f.dirs

/-- `FormatFieldDefinition` -/
theorem T_fieldDef {w : W} {ts : List Tok} (f : FieldDef) (h : LexTo w.text ts false) (hf : fieldDefOk f = true) :
    LexTo (formatFieldDefinition cfg f w).text (ts ++ genFieldD descTok (normFieldDef cfg f)) false := by
  have hb := blankIndent_of_allBlank hind
  obtain ⟨desc, name, args, dflt, type, dirs, pos⟩ := f
  simp only [fieldDefOk, Bool.and_eq_true, Bool.not_eq_true'] at hf
  obtain ⟨⟨⟨⟨⟨⟨hdesc, hname⟩, hargs⟩, htype⟩, hdef⟩, hdirs⟩, hsup⟩ := hf
  have hsup' : fieldSuppressed cfg.emitBuiltin name pos = false := by
    simp only [fieldSuppressed, Bool.not_false, Bool.true_and] at hsup
    unfold fieldSuppressed
    rw [Bool.and_assoc, hsup, Bool.and_false]
  have h1 := T_description hind desc (I.free (g := false) h) hdesc
  have h2 := P_word hb (cfg := cfg) h1 (tokText_name name hname).lexTo (StartOK_false _) (trimSpace_name _ hname)
  have h3 := T_argDefList hind (g := true) (w := noPadding (writeWord cfg name (writeDescription cfg desc w))) args
    (I.mk h2 (by simp [tightOf])) hargs
  have h4 := P_str hb (cfg := cfg) (g := true) (w := noPadding _) (I.mk h3.glue (by simp [tightOf]))
    tokText_colon.lexTo (StartOK_cons _ _ _ (by decide))
  have h5 := T_type hb type (w := needPadding _) (I.free (by simpa using h4)) htype
  cases dflt with
  | none =>
    have h6 := T_directiveList hb dirs false _ _ (I.mk h5 (by simp [tightOf])) hdirs
    have h7 := P_newline h6
    simpa [formatFieldDefinition, hsup', genFieldD, normFieldDef, printDefault, List.append_assoc] using h7
  | some v =>
    have h6a := P_word hb (cfg := cfg) (g := false) (I.mk h5 (by simp [tightOf])) tokText_equals.lexTo
      (StartOK_false _) (by decide)
    have h6b := T_value hb v (I.free h6a) hdef
    have h6 := T_directiveList hb dirs true _ _ (I.mk h6b (by simp [tightOf])) hdirs
    have h7 := P_newline h6
    simpa [formatFieldDefinition, hsup', genFieldD, normFieldDef, printDefault, List.append_assoc] using h7

theorem T_fields : ∀ (fs : List FieldDef) (w : W) (ts : List Tok), LexTo w.text ts false →
    fs.all fieldDefOk = true →
    LexTo (fs.foldl (fun w f => formatFieldDefinition cfg f w) w).text
      (ts ++ (fs.map (normFieldDef cfg)).flatMap (genFieldD descTok)) false
  | [], w, ts, h, _ => by simpa using h
  | f :: fs, w, ts, h, hf => by
    simp only [List.all_cons, Bool.and_eq_true] at hf
    have h1 := T_fieldDef hind f h hf.1
    have h2 := T_fields fs _ _ h1 hf.2
    simpa [List.append_assoc] using h2

/-- `FormatFieldList` -/
theorem T_fieldList {g : Bool} {w : W} {ts : List Tok} (fs : List FieldDef) (h : I g w ts)
    (hf : fs.all fieldDefOk = true) :
    I g (formatFieldList cfg fs w) (ts ++ printBlock (genFieldD descTok) (fs.map (normFieldDef cfg))) := by
  have hb := blankIndent_of_allBlank hind
  cases fs with
  | nil => simpa [formatFieldList, printBlock] using h
  | cons f fs =>
    have h1 := P_str hb h tokText_braceL.lexTo (StartOK_cons _ _ _ (by decide))
    have h2 := P_newline (I.free (g := false) h1)
    have h3 := T_fields hind (f :: fs) (incIndent (writeNewline (writeStr cfg [123] w))) _ (by simpa using h2) hf
    have h4 := P_str hb (cfg := cfg) (g := false) (w := decIndent _) (I.free (by simpa using h3))
      tokText_braceR.lexTo (StartOK_false _)
    exact I.free (by simpa [formatFieldList, printBlock, List.append_assoc] using h4)

/-- `FormatEnumValueDefinition` -/
theorem T_enumVal {w : W} {ts : List Tok} (e : EnumValDef) (h : LexTo w.text ts false) (he : enumValOk e = true) :
    LexTo (formatEnumValueDefinition cfg e w).text (ts ++ printEnumValD descTok (normEnumVal cfg e)) false := by
  have hb := blankIndent_of_allBlank hind
  simp only [enumValOk, Bool.and_eq_true] at he
  have h1 := T_description hind e.desc (I.free (g := false) h) he.1.1
  have h2 := P_word hb (cfg := cfg) h1 (tokText_name e.name he.1.2).lexTo (StartOK_false _) (trimSpace_name _ he.1.2)
  have h3 := T_directiveList hb e.dirs false _ _ (I.mk h2 (by simp [tightOf])) he.2
  have h4 := P_newline h3
  simpa [formatEnumValueDefinition, printEnumValD, normEnumVal, List.append_assoc] using h4

theorem T_enumVals : ∀ (es : List EnumValDef) (w : W) (ts : List Tok), LexTo w.text ts false →
    es.all enumValOk = true →
    LexTo (es.foldl (fun w e => formatEnumValueDefinition cfg e w) w).text
      (ts ++ (es.map (normEnumVal cfg)).flatMap (printEnumValD descTok)) false
  | [], w, ts, h, _ => by simpa using h
  | e :: es, w, ts, h, he => by
    simp only [List.all_cons, Bool.and_eq_true] at he
    have h1 := T_enumVal hind e h he.1
    have h2 := T_enumVals es _ _ h1 he.2
    simpa [List.append_assoc] using h2

/-- `FormatEnumValueList` -/
theorem T_enumValueList {g : Bool} {w : W} {ts : List Tok} (es : List EnumValDef) (h : I g w ts)
    (he : es.all enumValOk = true) :
    I g (formatEnumValueList cfg es w) (ts ++ printBlock (printEnumValD descTok) (es.map (normEnumVal cfg))) := by
  have hb := blankIndent_of_allBlank hind
  cases es with
  | nil => simpa [formatEnumValueList, printBlock] using h
  | cons e es =>
    have h1 := P_str hb h tokText_braceL.lexTo (StartOK_cons _ _ _ (by decide))
    have h2 := P_newline (I.free (g := false) h1)
    have h3 := T_enumVals hind (e :: es) (incIndent (writeNewline (writeStr cfg [123] w))) _ (by simpa using h2) he
    have h4 := P_str hb (cfg := cfg) (g := false) (w := decIndent _) (I.free (by simpa using h3))
      tokText_braceR.lexTo (StartOK_false _)
    exact I.free (by simpa [formatEnumValueList, printBlock, List.append_assoc] using h4)

/-! ### type definitions and extensions -/

omit hind in
theorem tokText_kindKeyword (k : DefKind) :
    TokText (kindKeyword k) (DefKind.keyword k) true ∧ trimSpace (kindKeyword k) = kindKeyword k := by
  cases k
  · exact ⟨tokText_kw "scalar" (by decide), by decide⟩
  · exact ⟨tokText_kw "type" (by decide), by decide⟩
  · exact ⟨tokText_kw "interface" (by decide), by decide⟩
  · exact ⟨tokText_kw "union" (by decide), by decide⟩
  · exact ⟨tokText_kw "enum" (by decide), by decide⟩
  · exact ⟨tokText_kw "input" (by decide), by decide⟩

/-- `implements A & B` -/
theorem T_implements {w : W} {ts : List Tok} (ifs : List Name) (h : I false w ts) (hn : ifs.all isNameB = true) :
    I false (if (!ifs.isEmpty) = true then
        w |> writeWord cfg (str "implements") |> writeWord cfg (joinNames (str " & ") ifs) else w)
      (ts ++ printImplements ifs) := by
  have hb := blankIndent_of_allBlank hind
  cases ifs with
  | nil => simpa [printImplements] using h
  | cons n ns =>
    have e : str " & " = [32, 38, 32] := by decide
    have h1 := P_word hb (cfg := cfg) h (tokText_kw "implements" (by decide)).lexTo (StartOK_false _) (by decide)
    have h2 := P_word hb (cfg := cfg) (g := false) (I.mk h1 (by simp [tightOf]))
      (lexTo_joinNames 38 .amp (by decide) (n :: ns) (by simp) hn) (StartOK_false _)
      (trimSpace_joinNames _ _ hn)
    exact I.mk (by simpa [printImplements, e, List.append_assoc] using h2) (by simp [tightOf])

/-- `= A | B` -/
theorem T_members {w : W} {ts : List Tok} (tys : List Name) (h : I false w ts) (hn : tys.all isNameB = true) :
    I false (if (!tys.isEmpty) = true then
        w |> writeWord cfg [61] |> writeWord cfg (joinNames (str " | ") tys) else w)
      (ts ++ printMembers tys) := by
  have hb := blankIndent_of_allBlank hind
  cases tys with
  | nil => simpa [printMembers] using h
  | cons n ns =>
    have e : str " | " = [32, 124, 32] := by decide
    have h1 := P_word hb (cfg := cfg) h tokText_equals.lexTo (StartOK_false _) (by decide)
    have h2 := P_word hb (cfg := cfg) (g := false) (I.free h1)
      (lexTo_joinNames 124 .pipe (by decide) (n :: ns) (by simp) hn) (StartOK_false _)
      (trimSpace_joinNames _ _ hn)
    exact I.mk (by simpa [printMembers, e, List.append_assoc] using h2) (by simp [tightOf])

/-- what `FormatDefinition` writes after the keyword, whatever the kind -/
def genDefBody (d : Definition) : List Tok :=
  tName d.name :: printImplements d.interfaces ++ printDirectives d.dirs ++ printMembers d.types
    ++ printBlock (genFieldD descTok) d.fields ++ printBlock (printEnumValD descTok) d.enumValues

/-- name, interfaces, directives, members, fields, enum values, newline -/
theorem T_defBody {w : W} {ts : List Tok} (d : Definition) (h : I false w ts) (hd : defOk d = true) :
    LexTo (writeNewline (formatEnumValueList cfg d.enumValues (formatFieldList cfg d.fields
      (if (!d.types.isEmpty) = true then
        (formatDirectiveList cfg d.dirs
          (if (!d.interfaces.isEmpty) = true then
            writeWord cfg d.name w |> writeWord cfg (str "implements")
              |> writeWord cfg (joinNames (str " & ") d.interfaces)
          else writeWord cfg d.name w)) |> writeWord cfg [61] |> writeWord cfg (joinNames (str " | ") d.types)
      else formatDirectiveList cfg d.dirs
          (if (!d.interfaces.isEmpty) = true then
            writeWord cfg d.name w |> writeWord cfg (str "implements")
              |> writeWord cfg (joinNames (str " & ") d.interfaces)
          else writeWord cfg d.name w))))).text
      (ts ++ genDefBody (normDef cfg d)) false := by
  have hb := blankIndent_of_allBlank hind
  simp only [defOk, Bool.and_eq_true] at hd
  obtain ⟨⟨⟨⟨⟨⟨⟨_, hname⟩, hdirs⟩, hifs⟩, htys⟩, hfields⟩, henum⟩, _⟩ := hd
  have h1 := P_word hb (cfg := cfg) h (tokText_name d.name hname).lexTo (StartOK_false _) (trimSpace_name _ hname)
  have h2 := T_implements hind d.interfaces (I.mk h1 (by simp [tightOf])) hifs
  have h3 := T_directiveList hb d.dirs false _ _ h2 hdirs
  have h4 := T_members hind d.types h3 htys
  have h5 := T_fieldList hind (g := false) d.fields h4 hfields
  have h6 := T_enumValueList hind (g := false) d.enumValues h5 henum
  have h7 := P_newline h6
  simpa [genDefBody, normDef, List.append_assoc] using h7

/-- `FormatDefinition` -/
theorem T_definition {w : W} {ts : List Tok} (extend : Bool) (d : Definition) (h : LexTo w.text ts false)
    (hd : defOk d = true) (hext : extend = true → d.desc = []) :
    LexTo (formatDefinition cfg extend d w).text
      (ts ++ (if keepDef cfg d = true then
          (if extend = true then tKw "extend" :: DefKind.keyword d.kind :: genDefBody (normDef cfg d)
           else descTok (normDesc cfg d.desc) ++ DefKind.keyword d.kind :: genDefBody (normDef cfg d))
        else [])) false := by
  have hb := blankIndent_of_allBlank hind
  by_cases hk : keepDef cfg d = true
  · have hk' : (!cfg.emitBuiltin && d.builtIn) = false := by
      simp only [keepDef, Bool.or_eq_true, Bool.not_eq_true'] at hk
      rcases hk with hk | hk <;> simp [hk]
    have hdesc : strRaw d.desc = true := by
      simp only [defOk, Bool.and_eq_true] at hd
      exact hd.1.1.1.1.1.1.1
    obtain ⟨kw1, kw2⟩ := tokText_kindKeyword d.kind
    have h1 := T_description hind d.desc (I.free (g := false) h) hdesc
    cases extend with
    | false =>
      have h2 := P_word hb (cfg := cfg) h1 kw1.lexTo (StartOK_false _) kw2
      have h3 := T_defBody hind d (I.mk h2 (by simp [tightOf])) hd
      simpa [formatDefinition, hk, hk', List.append_assoc] using h3
    | true =>
      have hd0 := hext rfl
      have e0 : descTok (normDesc cfg d.desc) = [] := by simp [descTok, normDesc, hd0]
      rw [e0] at h1
      have h2a := P_word hb (cfg := cfg) h1 (tokText_kw "extend" (by decide)).lexTo (StartOK_false _) (by decide)
      have h2 := P_word hb (cfg := cfg) (g := false) (I.mk h2a (by simp [tightOf])) kw1.lexTo (StartOK_false _) kw2
      have h3 := T_defBody hind d (I.mk h2 (by simp [tightOf])) hd
      simpa [formatDefinition, hk, hk', List.append_assoc] using h3
  · have hk' : (!cfg.emitBuiltin && d.builtIn) = true := by
      simp only [keepDef, Bool.or_eq_true, Bool.not_eq_true', not_or, Bool.not_eq_false] at hk
      simp [hk.1, hk.2]
    simpa [formatDefinition, hk, hk'] using h

omit hind in
theorem printBlock_nil {α : Type} (f : α → List Tok) : printBlock f [] = [] := rfl

omit hind in
theorem normDef_desc (cfg : Cfg) (d : Definition) : (normDef cfg d).desc = normDesc cfg d.desc := rfl

omit hind in
theorem normDef_kind (cfg : Cfg) (d : Definition) : (normDef cfg d).kind = d.kind := rfl

omit hind in
theorem formatLocations_state : ∀ (ls : List Bytes) (w : W), ls ≠ [] →
    (formatLocations cfg ls w).padNext = true ∧ (formatLocations cfg ls w).lineHead = false
  | [], _, h => absurd rfl h
  | [l], w, _ => by simp [formatLocations]
  | l :: m :: rest, w, _ => by
    have := formatLocations_state (m :: rest) (writeWord cfg [124] (writeWord cfg l w)) (by simp)
    simpa [formatLocations] using this

omit hind in
theorem printBlock_congr {α : Type} (f g : α → List Tok) (xs : List α) (h : ∀ x ∈ xs, f x = g x) :
    printBlock f xs = printBlock g xs := by
  unfold printBlock
  split
  · rfl
  · congr 2
    rw [List.flatMap_def, List.flatMap_def, List.map_congr_left h]

omit hind in
/-- for a definition of the shape its kind prescribes, the formatter's generic sequence is the
    unparser's body of that kind -/
theorem genDefBody_eq (cfg : Cfg) (d : Definition) (hs : shapeOk d = true) :
    genDefBody (normDef cfg d) = printDefBodyD descTok (normDef cfg d) := by
  obtain ⟨kind, desc, name, dirs, ifs, fields, types, evs, pos, bi⟩ := d
  cases kind <;>
    simp only [shapeOk, Bool.and_eq_true, List.isEmpty_iff, List.all_eq_true, Option.isNone_iff_eq_none] at hs
  · obtain ⟨⟨⟨rfl, rfl⟩, rfl⟩, rfl⟩ := hs
    simp [genDefBody, printDefBodyD, normDef, printImplements, printMembers, printBlock]
  · obtain ⟨⟨rfl, rfl⟩, hf⟩ := hs
    have e := printBlock_congr (genFieldD descTok) (printFieldDefD descTok) (fields.map (normFieldDef cfg)) (by
      intro f hfm
      simp only [List.mem_map] at hfm
      obtain ⟨f0, hf0, rfl⟩ := hfm
      simp [genFieldD, printFieldDefD, normFieldDef, hf f0 hf0, printDefault])
    simp [genDefBody, printDefBodyD, normDef, printMembers, printBlock_nil, e]
  · obtain ⟨⟨rfl, rfl⟩, hf⟩ := hs
    have e := printBlock_congr (genFieldD descTok) (printFieldDefD descTok) (fields.map (normFieldDef cfg)) (by
      intro f hfm
      simp only [List.mem_map] at hfm
      obtain ⟨f0, hf0, rfl⟩ := hfm
      simp [genFieldD, printFieldDefD, normFieldDef, hf f0 hf0, printDefault])
    simp [genDefBody, printDefBodyD, normDef, printMembers, printBlock_nil, e]
  · obtain ⟨⟨rfl, rfl⟩, rfl⟩ := hs
    simp [genDefBody, printDefBodyD, normDef, printImplements, printBlock]
  · obtain ⟨⟨rfl, rfl⟩, rfl⟩ := hs
    simp [genDefBody, printDefBodyD, normDef, printImplements, printMembers, printBlock]
  · obtain ⟨⟨⟨rfl, rfl⟩, rfl⟩, hf⟩ := hs
    have e := printBlock_congr (genFieldD descTok) (printInputFieldD descTok) (fields.map (normFieldDef cfg)) (by
      intro f hfm
      simp only [List.mem_map] at hfm
      obtain ⟨f0, hf0, rfl⟩ := hfm
      simp [genFieldD, printInputFieldD, normFieldDef, hf f0 hf0, printArgDefsD])
    simp [genDefBody, printDefBodyD, normDef, printImplements, printMembers, printBlock_nil, e]

/-- `FormatDefinitionList` for type definitions -/
theorem T_definitions : ∀ (ds : List Definition) (w : W) (ts : List Tok), LexTo w.text ts false →
    ds.all defOk = true →
    LexTo (formatDefinitionList cfg false ds w).text
      (ts ++ (((ds.filter (keepDef cfg)).map (normDef cfg)).map (printDefinitionD descTok)).flatten) false
  | [], w, ts, h, _ => by simpa [formatDefinitionList] using h
  | d :: ds, w, ts, h, hd => by
    simp only [List.all_cons, Bool.and_eq_true] at hd
    have hsh : shapeOk d = true := by
      have := hd.1; simp only [defOk, Bool.and_eq_true] at this; exact this.2
    have h1 := T_definition hind false d h hd.1 (by simp)
    have h2 := T_definitions ds _ _ h1 hd.2
    unfold formatDefinitionList at h2 ⊢
    by_cases hk : keepDef cfg d = true
    · simpa [hk, List.filter_cons, printDefinitionD, genDefBody_eq cfg d hsh, normDef_desc, normDef_kind,
        List.append_assoc] using h2
    · simpa [hk, List.filter_cons] using h2

/-- `FormatDefinitionList` for type extensions -/
theorem T_extensions : ∀ (ds : List Definition) (w : W) (ts : List Tok), LexTo w.text ts false →
    ds.all extOk = true →
    LexTo (formatDefinitionList cfg true ds w).text
      (ts ++ (((ds.filter (keepDef cfg)).map (normDef cfg)).map (printExtensionD descTok)).flatten) false
  | [], w, ts, h, _ => by simpa [formatDefinitionList] using h
  | d :: ds, w, ts, h, hd => by
    simp only [List.all_cons, Bool.and_eq_true, extOk, List.isEmpty_iff] at hd
    have hsh : shapeOk d = true := by
      have := hd.1.1; simp only [defOk, Bool.and_eq_true] at this; exact this.2
    have h1 := T_definition hind true d h hd.1.1 (fun _ => hd.1.2)
    have h2 := T_extensions ds _ _ h1 (by simpa [extOk] using hd.2)
    unfold formatDefinitionList at h2 ⊢
    by_cases hk : keepDef cfg d = true
    · simpa [hk, List.filter_cons, printExtensionD, genDefBody_eq cfg d hsh, normDef_kind, List.append_assoc] using h2
    · simpa [hk, List.filter_cons] using h2

/-! ### directive definitions -/

/-- the loop of the locations: `A | B | C` -/
theorem T_locations : ∀ (ls : List Bytes) (w : W) (ts : List Tok), ls ≠ [] → I false w ts →
    ls.all isNameB = true → LexTo (formatLocations cfg ls w).text (ts ++ printSep .pipe ls) true
  | [], _, _, h, _, _ => absurd rfl h
  | [l], w, ts, _, h, hl => by
    have hb := blankIndent_of_allBlank hind
    simp at hl
    simpa [formatLocations, printSep] using
      P_word hb (cfg := cfg) h (tokText_name l hl).lexTo (StartOK_false _) (trimSpace_name _ hl)
  | l :: m :: rest, w, ts, _, h, hl => by
    have hb := blankIndent_of_allBlank hind
    simp only [List.all_cons, Bool.and_eq_true] at hl
    have h1 := P_word hb (cfg := cfg) h (tokText_name l hl.1).lexTo (StartOK_false _) (trimSpace_name _ hl.1)
    have h2 := P_word hb (cfg := cfg) (g := false) (I.mk h1 (by simp [tightOf])) tokText_pipe.lexTo
      (StartOK_false _) (by decide)
    have h3 := T_locations (m :: rest) _ _ (by simp) (I.free h2) (by simp [hl.2])
    simpa [formatLocations, printSep, List.append_assoc] using h3

/-- `FormatDirectiveDefinition` -/
theorem T_directiveDef {w : W} {ts : List Tok} (d : DirectiveDef) (h : LexTo w.text ts false)
    (hd : dirDefOk d = true) :
    LexTo (formatDirectiveDefinition cfg srcZeroBuiltIn d w).text
      (ts ++ (if keepDirectiveDef cfg d = true then printDirectiveDefD descTok (normDirectiveDef cfg d) else []))
      false := by
  have hb := blankIndent_of_allBlank hind
  by_cases hk : keepDirectiveDef cfg d = true
  · have hk' : (!cfg.emitBuiltin && srcZeroBuiltIn d.pos.src) = false := by
      simp only [keepDirectiveDef, Bool.or_eq_true, Bool.not_eq_true'] at hk
      rcases hk with hk | hk <;> simp [hk]
    obtain ⟨desc, name, args, locs, rep, pos⟩ := d
    simp only [dirDefOk, Bool.and_eq_true, Bool.not_eq_true', List.isEmpty_eq_false_iff] at hd
    obtain ⟨⟨⟨⟨hdesc, hname⟩, hargs⟩, hlne⟩, hlocs⟩ := hd
    have h1 := T_description hind desc (I.free (g := false) h) hdesc
    have h2 := P_word hb (cfg := cfg) h1 (tokText_kw "directive" (by decide)).lexTo (StartOK_false _) (by decide)
    have h3 := P_str hb (cfg := cfg) (g := false) (I.mk h2 (by simp [tightOf])) tokText_at.lexTo (StartOK_false _)
    have h4 := P_word hb (cfg := cfg) (g := false) (I.free h3) (tokText_name name hname).lexTo (StartOK_false _)
      (trimSpace_name _ hname)
    have h5 : I false (if (!args.isEmpty) = true then
          formatArgumentDefinitionList cfg args (noPadding (writeWord cfg name (writeStr cfg [64]
            (writeWord cfg (str "directive") (writeDescription cfg desc w)))))
        else writeWord cfg name (writeStr cfg [64] (writeWord cfg (str "directive") (writeDescription cfg desc w))))
        (ts ++ descTok (normDesc cfg desc) ++ [tKw "directive"] ++ [tP .at] ++ [tName name]
          ++ printArgDefsD descTok (args.map (normArgDef cfg))) := by
      cases args with
      | nil => simpa [printArgDefsD] using I.mk (g := false) h4 (by simp [tightOf])
      | cons a as =>
        have := T_argDefList hind (g := true) (w := noPadding (writeWord cfg name (writeStr cfg [64]
          (writeWord cfg (str "directive") (writeDescription cfg desc w))))) (a :: as)
          (I.mk h4 (by simp [tightOf])) hargs
        have hfree : LexTo (formatArgumentDefinitionList cfg (a :: as) (noPadding (writeWord cfg name
            (writeStr cfg [64] (writeWord cfg (str "directive") (writeDescription cfg desc w)))))).text
            (ts ++ descTok (normDesc cfg desc) ++ [tKw "directive"] ++ [tP .at] ++ [tName name]
              ++ printArgDefsD descTok ((a :: as).map (normArgDef cfg))) true := this.glue
        exact I.mk (by simpa using hfree) (by simp [tightOf, formatArgumentDefinitionList])
    have h6 : I false (if rep = true then writeWord cfg (str "repeatable")
          (if (!args.isEmpty) = true then
            formatArgumentDefinitionList cfg args (noPadding (writeWord cfg name (writeStr cfg [64]
              (writeWord cfg (str "directive") (writeDescription cfg desc w)))))
          else writeWord cfg name (writeStr cfg [64] (writeWord cfg (str "directive") (writeDescription cfg desc w))))
        else
          (if (!args.isEmpty) = true then
            formatArgumentDefinitionList cfg args (noPadding (writeWord cfg name (writeStr cfg [64]
              (writeWord cfg (str "directive") (writeDescription cfg desc w)))))
          else writeWord cfg name (writeStr cfg [64] (writeWord cfg (str "directive") (writeDescription cfg desc w)))))
        (ts ++ descTok (normDesc cfg desc) ++ [tKw "directive"] ++ [tP .at] ++ [tName name]
          ++ printArgDefsD descTok (args.map (normArgDef cfg)) ++ (if rep = true then [tKw "repeatable"] else [])) := by
      cases rep with
      | false => simpa using h5
      | true =>
        have := P_word hb (cfg := cfg) h5 (tokText_kw "repeatable" (by decide)).lexTo (StartOK_false _) (by decide)
        exact I.mk (by simpa using this) (by simp [tightOf])
    have h7 := P_word hb (cfg := cfg) h6 (tokText_kw "on" (by decide)).lexTo (StartOK_false _) (by decide)
    have h8 := T_locations hind locs _ _ hlne (I.mk h7 (by simp [tightOf])) hlocs
    have h9 := P_newline (g := false) (I.mk h8 (by
      intro _
      have hst := fun w' => formatLocations_state (cfg := cfg) locs w' hlne
      simp [tightOf, hst]))
    have hle : locs.isEmpty = false := by cases locs <;> simp_all
    cases rep <;> cases hae : args.isEmpty <;>
      simpa [formatDirectiveDefinition, hk, hk', hle, hae, printDirectiveDefD, normDirectiveDef, List.append_assoc]
        using h9
  · have hk' : (!cfg.emitBuiltin && srcZeroBuiltIn d.pos.src) = true := by
      simp only [keepDirectiveDef, Bool.or_eq_true, Bool.not_eq_true', not_or, Bool.not_eq_false] at hk
      simp [hk.1, hk.2]
    simpa [formatDirectiveDefinition, hk, hk'] using h

theorem T_directiveDefs : ∀ (ds : List DirectiveDef) (w : W) (ts : List Tok), LexTo w.text ts false →
    ds.all dirDefOk = true →
    LexTo (ds.foldl (fun w dd => formatDirectiveDefinition cfg srcZeroBuiltIn dd w) w).text
      (ts ++ (((ds.filter (keepDirectiveDef cfg)).map (normDirectiveDef cfg)).map
        (printDirectiveDefD descTok)).flatten) false
  | [], w, ts, h, _ => by simpa using h
  | d :: ds, w, ts, h, hd => by
    simp only [List.all_cons, Bool.and_eq_true] at hd
    have h1 := T_directiveDef hind d h hd.1
    have h2 := T_directiveDefs ds _ _ h1 hd.2
    by_cases hk : keepDirectiveDef cfg d = true
    · simpa [hk, List.filter_cons, List.append_assoc] using h2
    · simpa [hk, List.filter_cons] using h2

/-! ### schema definitions and extensions -/

/-- `FormatOperationTypeDefinition` -/
theorem T_opType {w : W} {ts : List Tok} (o : OpTypeDef) (h : LexTo w.text ts false) (ho : opTypeOk o = true) :
    LexTo (formatOperationTypeDefinition cfg o w).text (ts ++ printOpType o) false := by
  have hb := blankIndent_of_allBlank hind
  simp only [opTypeOk, Bool.and_eq_true] at ho
  have h1 := P_nameColon hb o.op (I.free (g := false) h) ho.1
  have h2 := P_word hb (cfg := cfg) (g := false) (I.free h1) (tokText_name o.type ho.2).lexTo (StartOK_false _)
    (trimSpace_name _ ho.2)
  have h3 := P_newline (g := false) (I.mk h2 (by simp [tightOf]))
  simpa [formatOperationTypeDefinition, printOpType, List.append_assoc] using h3

theorem T_opTypes : ∀ (os : List OpTypeDef) (w : W) (ts : List Tok), LexTo w.text ts false →
    os.all opTypeOk = true →
    LexTo (os.foldl (fun w o => formatOperationTypeDefinition cfg o w) w).text (ts ++ os.flatMap printOpType) false
  | [], w, ts, h, _ => by simpa using h
  | o :: os, w, ts, h, ho => by
    simp only [List.all_cons, Bool.and_eq_true] at ho
    have h1 := T_opType hind o h ho.1
    have h2 := T_opTypes os _ _ h1 ho.2
    simpa [List.append_assoc] using h2

omit hind in
theorem foldl_dirs_flatMap (ds : List SchemaDef) (w : W) :
    ds.foldl (fun w d => formatDirectiveList cfg d.dirs w) w = formatDirectiveList cfg (ds.flatMap (·.dirs)) w := by
  induction ds generalizing w with
  | nil => simp [formatDirectiveList]
  | cons d ds ih =>
    simp only [List.foldl_cons, List.flatMap_cons, ih]
    simp [formatDirectiveList, List.foldl_append]

omit hind in
theorem foldl_opTypes_flatMap (ds : List SchemaDef) (w : W) :
    ds.foldl (fun w d => d.opTypes.foldl (fun w o => formatOperationTypeDefinition cfg o w) w) w
      = (ds.flatMap (·.opTypes)).foldl (fun w o => formatOperationTypeDefinition cfg o w) w := by
  induction ds generalizing w with
  | nil => simp
  | cons d ds ih => simp only [List.foldl_cons, List.flatMap_cons, ih, List.foldl_append]

omit hind in
theorem isSchemaDefinitionsEmpty_iff (ds : List SchemaDef) :
    isSchemaDefinitionsEmpty ds = (ds.flatMap (·.opTypes)).isEmpty := by
  induction ds with
  | nil => rfl
  | cons d ds ih =>
    simp only [isSchemaDefinitionsEmpty, List.all_cons, List.flatMap_cons] at ih ⊢
    rw [ih]
    cases d.opTypes <;> simp

omit hind in
theorem strRaw_append {a b : Bytes} (ha : strRaw a = true) (hb : strRaw b = true) : strRaw (a ++ b) = true := by
  obtain ⟨A, hA, rfl⟩ := (Utf8.valid_iff a).1 ha
  obtain ⟨B, hB, rfl⟩ := (Utf8.valid_iff b).1 hb
  refine (Utf8.valid_iff _).2 ⟨A ++ B, ?_, utf8Encode_append A B⟩
  intro c hc
  simp at hc
  rcases hc with hc | hc
  · exact hA c hc
  · exact hB c hc

omit hind in
theorem strRaw_flatMap_desc (ds : List SchemaDef) (h : ∀ d ∈ ds, strRaw d.desc = true) :
    strRaw (ds.flatMap (·.desc)) = true := by
  induction ds with
  | nil => decide
  | cons d ds ih =>
    simp only [List.flatMap_cons]
    exact strRaw_append (h d (by simp)) (ih fun x hx => h x (by simp [hx]))

/-- the directives and the `{ … }` block of a merged schema definition / extension -/
theorem T_schemaBlock {w : W} {ts : List Tok} (ds : List SchemaDef) (h : I false w ts)
    (hdirs : (ds.flatMap (·.dirs)).all dirOk = true) (hops : (ds.flatMap (·.opTypes)).all opTypeOk = true) :
    LexTo (writeStr cfg [125] (decIndent ((ds.flatMap (·.opTypes)).foldl
        (fun w o => formatOperationTypeDefinition cfg o w)
        (incIndent (writeNewline (writeStr cfg [123] (decIndent
          (formatDirectiveList cfg (ds.flatMap (·.dirs)) (incIndent w))))))))).text
      (ts ++ printDirectives ((ds.flatMap (·.dirs)).map normDir) ++ tP .braceL ::
        (ds.flatMap (·.opTypes)).flatMap printOpType ++ [tP .braceR]) false := by
  have hb := blankIndent_of_allBlank hind
  have h1 := T_directiveList hb (ds.flatMap (·.dirs)) false (incIndent w) _ (by unfold I at h ⊢; simpa [tightOf] using h)
    hdirs
  have h2 := P_str hb (cfg := cfg) (g := false) (w := decIndent _) (by unfold I at h1 ⊢; simpa [tightOf] using h1)
    tokText_braceL.lexTo (StartOK_false _)
  have h3 := P_newline (I.free (g := false) h2)
  have h4 := T_opTypes hind (ds.flatMap (·.opTypes)) (incIndent (writeNewline _)) _ (by simpa using h3) hops
  have h5 := P_str hb (cfg := cfg) (g := false) (w := decIndent _) (I.free (by simpa using h4))
    tokText_braceR.lexTo (StartOK_false _)
  simpa [List.append_assoc] using h5

omit hind in
theorem all_flatMap {α β : Type} (f : α → List β) (p : β → Bool) (xs : List α)
    (h : ∀ x ∈ xs, (f x).all p = true) : (xs.flatMap f).all p = true := by
  rw [List.all_eq_true]
  intro b hb
  simp only [List.mem_flatMap] at hb
  obtain ⟨x, hx, hbx⟩ := hb
  exact List.all_eq_true.1 (h x hx) b hbx

/-- the one definition all the definitions of the list are merged into -/
def mergedDef (cfg : Cfg) (ds : List SchemaDef) (p : Pos) : SchemaDef where
  desc := normDesc cfg (ds.flatMap (·.desc))
  dirs := (ds.flatMap (·.dirs)).map normDir
  opTypes := ds.flatMap (·.opTypes)
  pos := p

omit hind in
theorem mergeSchemaDefs_of_ne (cfg : Cfg) (ds : List SchemaDef) (h : ds ≠ []) :
    ∃ p, mergeSchemaDefs cfg ds = [mergedDef cfg ds p] := by
  cases ds with
  | nil => exact absurd rfl h
  | cons d0 rest => exact ⟨d0.pos, rfl⟩

/-- `FormatSchemaDefinitionList` for schema definitions: ONE merged block -/
theorem T_schemaDefs {w : W} {ts : List Tok} (ds : List SchemaDef) (h : LexTo w.text ts false)
    (hd : ds.all schemaDefOk = true) :
    LexTo (formatSchemaDefinitionList cfg false ds w).text
      (ts ++ ((mergeSchemaDefs cfg ds).map (printSchemaDefD descTok)).flatten) false := by
  have hb := blankIndent_of_allBlank hind
  by_cases hds : ds = []
  · subst hds; simpa [formatSchemaDefinitionList, mergeSchemaDefs] using h
  · obtain ⟨p, hm⟩ := mergeSchemaDefs_of_ne cfg ds hds
    have hie : ds.isEmpty = false := by cases ds <;> simp_all
    have hall : ∀ d ∈ ds, schemaDefOk d = true := List.all_eq_true.1 hd
    have hdesc := strRaw_flatMap_desc ds (fun d hd' => by
      have := hall d hd'; simp only [schemaDefOk, Bool.and_eq_true] at this; exact this.1.1)
    have hdirs := all_flatMap (·.dirs) dirOk ds (fun d hd' => by
      have := hall d hd'; simp only [schemaDefOk, Bool.and_eq_true] at this; exact this.1.2)
    have hops := all_flatMap (·.opTypes) opTypeOk ds (fun d hd' => by
      have := hall d hd'; simp only [schemaDefOk, Bool.and_eq_true] at this; exact this.2)
    have h1 := T_description hind (ds.flatMap (·.desc)) (I.free (g := false) h) hdesc
    have h2 := P_word hb (cfg := cfg) h1 (tokText_kw "schema" (by decide)).lexTo (StartOK_false _) (by decide)
    have h3 := T_schemaBlock hind ds (I.mk (g := false) h2 (by simp [tightOf])) hdirs hops
    have h4 := P_newline (I.free (g := false) h3)
    simpa [formatSchemaDefinitionList, hie, hm, mergedDef, printSchemaDefD, foldl_dirs_flatMap, foldl_opTypes_flatMap,
      List.append_assoc] using h4

/-- `FormatSchemaDefinitionList` for schema extensions: ONE merged `extend schema` -/
theorem T_schemaExts {w : W} {ts : List Tok} (ds : List SchemaDef) (h : LexTo w.text ts false)
    (hd : ds.all schemaExtOk = true) :
    LexTo (formatSchemaDefinitionList cfg true ds w).text
      (ts ++ ((mergeSchemaDefs cfg ds).map printSchemaExt).flatten) false := by
  have hb := blankIndent_of_allBlank hind
  by_cases hds : ds = []
  · subst hds; simpa [formatSchemaDefinitionList, mergeSchemaDefs] using h
  · obtain ⟨p, hm⟩ := mergeSchemaDefs_of_ne cfg ds hds
    have hie : ds.isEmpty = false := by cases ds <;> simp_all
    have hall : ∀ d ∈ ds, schemaExtOk d = true := List.all_eq_true.1 hd
    have hdesc0 : ds.flatMap (·.desc) = [] := by
      rw [List.flatMap_eq_nil_iff]
      intro d hd'
      have := hall d hd'; simp only [schemaExtOk, Bool.and_eq_true, List.isEmpty_iff] at this; exact this.1.1
    have hdirs := all_flatMap (·.dirs) dirOk ds (fun d hd' => by
      have := hall d hd'; simp only [schemaExtOk, Bool.and_eq_true] at this; exact this.1.2)
    have hops := all_flatMap (·.opTypes) opTypeOk ds (fun d hd' => by
      have := hall d hd'; simp only [schemaExtOk, Bool.and_eq_true] at this; exact this.2)
    have hwd : writeDescription cfg (ds.flatMap (·.desc)) w = w := by
      rw [hdesc0]; simp [writeDescription]
    have h1 := P_word hb (cfg := cfg) (I.free (g := false) h) (tokText_kw "extend" (by decide)).lexTo
      (StartOK_false _) (by decide)
    have h2 := P_word hb (cfg := cfg) (g := false) (I.mk h1 (by simp [tightOf]))
      (tokText_kw "schema" (by decide)).lexTo (StartOK_false _) (by decide)
    by_cases hemp : ds.flatMap (·.opTypes) = []
    · have h3 := T_directiveList hb (ds.flatMap (·.dirs)) false
        (incIndent (writeWord cfg (str "schema") (writeWord cfg (str "extend") w))) _
        (I.mk h2 (by simp [tightOf])) hdirs
      have h4 := P_newline (w := decIndent _) (g := false) (by unfold I at h3 ⊢; simpa [tightOf] using h3)
      have he : isSchemaDefinitionsEmpty ds = true := by
        rw [isSchemaDefinitionsEmpty_iff, hemp]; rfl
      simpa [formatSchemaDefinitionList, hie, hwd, he, hm, mergedDef, printSchemaExt, printBlock, hemp,
        foldl_dirs_flatMap, List.append_assoc] using h4
    · have h3 := T_schemaBlock hind ds (I.mk (g := false) h2 (by simp [tightOf])) hdirs hops
      have h4 := P_newline (I.free (g := false) h3)
      have hne : (ds.flatMap (·.opTypes)).isEmpty = false := by
        cases hx : ds.flatMap (·.opTypes) with
        | nil => exact absurd hx hemp
        | cons _ _ => rfl
      have he : isSchemaDefinitionsEmpty ds = false := by
        rw [isSchemaDefinitionsEmpty_iff, hne]
      simpa [formatSchemaDefinitionList, hie, hwd, he, hm, mergedDef, printSchemaExt, printBlock, hne,
        foldl_dirs_flatMap, foldl_opTypes_flatMap, List.append_assoc] using h4

/-! ### the document -/

/-- `FormatSchemaDocument` from the initial writer state -/
theorem T_schemaDocument (d : SchemaDoc) (hd : FormattableSchema d) :
    LexTo (fmtSchemaDoc cfg d) (printSchemaLongD descTok (normSchemaDoc cfg d)) false := by
  unfold FormattableSchema schemaDocOk at hd
  simp only [Bool.and_eq_true] at hd
  obtain ⟨⟨⟨⟨h1, h2⟩, h3⟩, h4⟩, h5⟩ := hd
  have h0 : LexTo (({} : W).text) [] false := by simpa [W.text] using LexTo_nil
  have a1 := T_schemaDefs hind d.schema h0 h1
  have a2 := T_schemaExts hind d.schemaExt a1 h2
  have a3 := T_directiveDefs hind d.directives _ _ a2 h3
  have a4 := T_definitions hind d.definitions _ _ a3 h4
  have a5 := T_extensions hind d.extensions _ _ a4 h5
  simpa [fmtSchemaDoc, formatSchemaDocument, printSchemaLongD, normSchemaDoc, List.append_assoc] using a5

/-- the text of a formatted type-system document lexes to the long-form tokens of the document -/
theorem tokensOf_fmtSchemaDoc (d : SchemaDoc) (hd : FormattableSchema d) :
    tokensOf (fmtSchemaDoc cfg d) = some (printSchemaLongD descTok (normSchemaDoc cfg d)) := by
  have h := T_schemaDocument hind d hd [] [] (Follow_nil _) Lexes_nil
  simpa using tokensOf_of_Lexes h

end Gql.Format
