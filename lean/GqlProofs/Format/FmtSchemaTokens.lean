import GqlProofs.Format.FmtTokens
import GqlProofs.Format.FormattableSchema
/-
  The formatter of type-system documents (`FormatSchemaDocument`), function by function: the text
  written is a complete sequence of token texts for the tokens of the normalised subtree.
  Hypothesis on the configuration: the indentation string consists of spaces and tabs (inside a
  block-string description any other byte would become part of the description).
-/
namespace Gql.Format
open Gql Gql.Lexer Gql.Grammar Gql.Print

variable {cfg : Cfg}

theorem blankIndent_of_allBlank (h : AllBlank cfg.indent) : BlankIndent cfg := by
  intro b hb
  have := h b hb
  simp [isBlank] at this
  rcases this with rfl | rfl <;> rfl

theorem allBlank_repeatBytes (ind : Bytes) (h : AllBlank ind) (n : Nat) : AllBlank (repeatBytes ind n) := by
  intro b hb
  simp [repeatBytes] at hb
  obtain ⟨l, ⟨_, rfl⟩, hb⟩ := hb
  exact h b hb

theorem allIgnored_lf : AllIgnored [10] := by intro b hb; simp at hb; subst hb; rfl

/-! ### words with inner blanks: `A & B`, `A | B` -/

theorem trimSpace_edges (s : Bytes) (h1 : ∀ b, s.head? = some b → isAsciiSpace b = false)
    (h2 : ∀ b, s.getLast? = some b → isAsciiSpace b = false) : trimSpace s = s := by
  have t1 : ∀ x : Bytes, (∀ b, x.head? = some b → isAsciiSpace b = false) → trimLeft x = x := by
    intro x hx
    cases x with
    | nil => rfl
    | cons b t => simp [trimLeft, hx b rfl]
  unfold trimSpace
  rw [t1 s h1, t1 s.reverse (by intro b hb; rw [List.head?_reverse] at hb; exact h2 b hb)]
  simp

theorem joinNames_ne_nil (sep : Bytes) : ∀ ns : List Name, ns ≠ [] → (∀ n ∈ ns, n ≠ []) → joinNames sep ns ≠ []
  | [], h, _ => absurd rfl h
  | [n], _, hn => by simpa [joinNames] using hn n (by simp)
  | n :: m :: rest, _, hn => by
    have := hn n (by simp)
    simp [joinNames, this]

theorem joinNames_head (sep : Bytes) : ∀ ns : List Name, (∀ n ∈ ns, n ≠ []) →
    ∀ b, (joinNames sep ns).head? = some b → ∃ n ∈ ns, b ∈ n
  | [], _, b, h => by simp [joinNames] at h
  | [n], _, b, h => ⟨n, by simp, List.mem_of_mem_head? (by simpa [joinNames] using h)⟩
  | n :: m :: rest, hn, b, h => by
    have hne := hn n (by simp)
    cases n with
    | nil => exact absurd rfl hne
    | cons x t =>
      simp [joinNames] at h
      exact ⟨x :: t, by simp, by simp [h]⟩

theorem joinNames_getLast (sep : Bytes) : ∀ ns : List Name, (∀ n ∈ ns, n ≠ []) →
    ∀ b, (joinNames sep ns).getLast? = some b → ∃ n ∈ ns, b ∈ n
  | [], _, b, h => by simp [joinNames] at h
  | [n], _, b, h => ⟨n, by simp, List.mem_of_mem_getLast? (by simpa [joinNames] using h)⟩
  | n :: m :: rest, hn, b, h => by
    have hJ := joinNames_ne_nil sep (m :: rest) (by simp) (fun x hx => hn x (by simp [hx]))
    have e : joinNames sep (n :: m :: rest) = (n ++ sep) ++ joinNames sep (m :: rest) := by simp [joinNames]
    rw [e, List.getLast?_append] at h
    have h' : (joinNames sep (m :: rest)).getLast? = some b := by
      cases hl : (joinNames sep (m :: rest)).getLast? with
      | none => exact absurd (List.getLast?_eq_none_iff.1 hl) hJ
      | some y => rw [hl] at h; simpa using h
    obtain ⟨x, hx, hb⟩ := joinNames_getLast sep (m :: rest) (fun x hx => hn x (by simp [hx])) b h'
    exact ⟨x, by simp [List.mem_cons] at hx ⊢; exact Or.inr hx, hb⟩

theorem isNameB_ne_nil {n : Bytes} (h : isNameB n = true) : n ≠ [] := by
  intro e; subst e; simp [isNameB] at h

theorem trimSpace_joinNames (sep : Bytes) (ns : List Name) (hn : ns.all isNameB = true) :
    trimSpace (joinNames sep ns) = joinNames sep ns := by
  have hall : ∀ n ∈ ns, isNameB n = true := List.all_eq_true.1 hn
  have hne : ∀ n ∈ ns, n ≠ [] := fun n h => isNameB_ne_nil (hall n h)
  refine trimSpace_edges _ ?_ ?_
  · intro b hb
    obtain ⟨n, hn1, hbn⟩ := joinNames_head sep ns hne b hb
    exact name_noSpace n (hall n hn1) b hbn
  · intro b hb
    obtain ⟨n, hn1, hbn⟩ := joinNames_getLast sep ns hne b hb
    exact name_noSpace n (hall n hn1) b hbn

/-- `strings.Join(names, " & ")` / `" | "` lexes to the names separated by the punctuator -/
theorem lexTo_joinNames (p : Nat) (k : Kind) (hp : punct p = some k) : ∀ ns : List Name, ns ≠ [] →
    ns.all isNameB = true → LexTo (joinNames [32, p, 32] ns) (printSep k ns) true
  | [], h, _ => absurd rfl h
  | [n], _, hn => by
    simp at hn
    simpa [joinNames, printSep] using (tokText_name n hn).lexTo
  | n :: m :: rest, _, hn => by
    simp only [List.all_cons, Bool.and_eq_true] at hn
    have ih := lexTo_joinNames p k hp (m :: rest) (by simp) (by simp [hn.2])
    have hsep : LexTo [32, p, 32] [tP k] false := by
      have h0 : LexTo [32] [] false := by
        simpa using (LexTo_nil).blank (bl := [32]) (by intro b hb; simp at hb; subst hb; rfl) (by simp)
      have h1 := (h0.append (tokText_punct p k hp).lexTo (StartOK_false _)).blank (bl := [32])
        (by intro b hb; simp at hb; subst hb; rfl) (by simp)
      simpa using h1
    have := ((tokText_name n hn.1).lexTo.append hsep (StartOK_cons _ 32 _ (by decide))).append ih (StartOK_false _)
    simpa [joinNames, printSep, List.append_assoc] using this

variable (hind : AllBlank cfg.indent)
include hind

/-! ### descriptions -/

/-- `WriteDescription` -/
theorem T_description {w : W} {ts : List Tok} (s : Bytes) (h : I false w ts) (hs : strRaw s = true) :
    I false (writeDescription cfg s w) (ts ++ descTok (normDesc cfg s)) := by
  have hb := blankIndent_of_allBlank hind
  by_cases hskip : s = [] ∨ cfg.omitDescription = true
  · have e1 : writeDescription cfg s w = w := by
      unfold writeDescription
      rcases hskip with h | h <;> simp [h]
    have e2 : descTok (normDesc cfg s) = [] := by
      rcases hskip with h | h <;> simp [descTok, normDesc, h]
    rw [e1, e2]; simpa using h
  · have hne : s ≠ [] := fun e => hskip (Or.inl e)
    have ho : cfg.omitDescription = false := by
      cases h' : cfg.omitDescription with
      | true => exact absurd (Or.inr h') hskip
      | false => rfl
    have hn : normDesc cfg s = s := by simp [normDesc, ho]
    cases hrep : blockStringRepresentable s with
    | true =>
      have htxt := writeDescription_text cfg s w hne ho hrep
      have h1 := (h.lead hb).append
        (tokText_blockDescription _ s (allBlank_repeatBytes _ hind w.indentSize) hs hrep).lexTo (StartOK_false _)
      have h2 := h1.blank allIgnored_lf (by simp)
      refine I.free ?_
      rw [htxt, hn]
      simpa [descTok, hne, hrep, List.append_assoc] using h2
    | false =>
      have htxt := writeDescription_text_quoted cfg s w hne ho hrep
      have h1 := (h.lead hb).append (tokText_string s hs).lexTo (StartOK_false _)
      have h2 := h1.blank allIgnored_lf (by simp)
      refine I.free ?_
      rw [htxt, hn]
      simpa [descTok, hne, hrep, quoteString, List.append_assoc] using h2

end Gql.Format
