import GqlProofs.Format.NormPreserve
import GqlProofs.Format.FormattableSchema
import GqlProofs.Parser.FwdSchemaTop
/-
  `normSchemaDoc cfg` keeps the side conditions of the parse ∘ print theorem of C06 (`ItemOK` for
  every item of the document), and the formatter's printers are the `…K` printers of that theorem
  with the description-kind function `descKind`.
-/
namespace Gql.Format
open Gql Gql.Lexer Gql.Grammar Gql.Print Gql.Parser

/-- the token kind the formatter chooses for a description -/
def descKind (d : Bytes) : Kind := if blockStringRepresentable d then .blockString else .string

theorem descKind_ok (d : Bytes) : DescKind (descKind d) := by
  unfold descKind DescKind; split <;> simp

theorem descTok_eq : descTok = printDescK descKind := rfl

theorem printItemK_eq : ∀ it : SItem, printItemK descKind it = (match it with
    | .schema s => printSchemaDefD descTok s
    | .schemaExt s => printSchemaExt s
    | .directive d => printDirectiveDefD descTok d
    | .definition d => printDefinitionD descTok d
    | .extension d => printExtensionD descTok d)
  | .schema _ => rfl
  | .schemaExt _ => rfl
  | .directive _ => rfl
  | .definition _ => rfl
  | .extension _ => rfl

/-- the five lists one after the other, as items -/
theorem printSchemaLongD_items (d : SchemaDoc) :
    printSchemaLongD descTok d = (itemsOf d).flatMap (printItemK descKind) := by
  simp [printSchemaLongD, itemsOf, List.flatMap_def, List.map_map, Function.comp_def, printItemK_eq]

/-! ### side conditions -/

theorem CDirs_norm (ds : List Directive) (h : CDirs ds) : CDirs (ds.map normDir) :=
  ⟨DirsOK_norm ds h.1, ConstDirectives_norm ds h.2⟩

theorem CDefault_norm (dv : Option Value) (h : CDefault dv) : CDefault (dv.map normValue) := by
  intro d hd
  cases dv with
  | none => simp at hd
  | some v =>
    simp at hd; subst hd
    exact ⟨ValueOK_norm v (h v rfl).1, ConstValue_norm v (h v rfl).2⟩

theorem ArgDefOK_norm (cfg : Cfg) (a : ArgDef) (h : ArgDefOK a) : ArgDefOK (normArgDef cfg a) :=
  ⟨CDefault_norm _ h.1, CDirs_norm _ h.2⟩

theorem ArgDefsOK_norm (cfg : Cfg) (as : List ArgDef) (h : ∀ a ∈ as, ArgDefOK a) :
    ∀ a ∈ as.map (normArgDef cfg), ArgDefOK a := by
  intro a ha
  simp only [List.mem_map] at ha
  obtain ⟨a0, ha0, rfl⟩ := ha
  exact ArgDefOK_norm cfg a0 (h a0 ha0)

theorem FieldDefOK_norm (cfg : Cfg) (f : FieldDef) (h : FieldDefOK f) : FieldDefOK (normFieldDef cfg f) :=
  ⟨ArgDefsOK_norm cfg _ h.1, by simp [normFieldDef, h.2.1], CDirs_norm _ h.2.2⟩

theorem InputFieldOK_norm (cfg : Cfg) (f : FieldDef) (h : InputFieldOK f) : InputFieldOK (normFieldDef cfg f) :=
  ⟨by simp [normFieldDef, h.1], CDefault_norm _ h.2.1, CDirs_norm _ h.2.2⟩

theorem EnumValOK_norm (cfg : Cfg) (e : EnumValDef) (h : EnumValOK e) : EnumValOK (normEnumVal cfg e) :=
  CDirs_norm _ h

theorem DefOK_norm (cfg : Cfg) (d : Definition) (h : DefOK d) : DefOK (normDef cfg d) := by
  obtain ⟨kind, desc, name, dirs, ifs, fields, types, evs, pos, bi⟩ := d
  obtain ⟨h1, h2⟩ := h
  refine ⟨CDirs_norm _ h1, ?_⟩
  cases kind <;> simp only [normDef] at h2 ⊢
  · obtain ⟨a, b, c, e⟩ := h2; subst a b c e; simp
  · obtain ⟨a, b, c⟩ := h2
    refine ⟨a, by simp [b], ?_⟩
    intro f hf; simp only [List.mem_map] at hf; obtain ⟨f0, hf0, rfl⟩ := hf
    exact FieldDefOK_norm cfg f0 (c f0 hf0)
  · obtain ⟨a, b, c⟩ := h2
    refine ⟨a, by simp [b], ?_⟩
    intro f hf; simp only [List.mem_map] at hf; obtain ⟨f0, hf0, rfl⟩ := hf
    exact FieldDefOK_norm cfg f0 (c f0 hf0)
  · obtain ⟨a, b, c⟩ := h2
    exact ⟨a, by simp [b], by simp [c]⟩
  · obtain ⟨a, b, c, e⟩ := h2
    refine ⟨a, by simp [b], c, ?_⟩
    intro x hx; simp only [List.mem_map] at hx; obtain ⟨x0, hx0, rfl⟩ := hx
    exact EnumValOK_norm cfg x0 (e x0 hx0)
  · obtain ⟨a, b, c, e⟩ := h2
    refine ⟨a, b, by simp [c], ?_⟩
    intro f hf; simp only [List.mem_map] at hf; obtain ⟨f0, hf0, rfl⟩ := hf
    exact InputFieldOK_norm cfg f0 (e f0 hf0)

theorem ExtendsSomething_norm (cfg : Cfg) (d : Definition) (h : ExtendsSomething d) :
    ExtendsSomething (normDef cfg d) := by
  obtain ⟨kind, desc, name, dirs, ifs, fields, types, evs, pos, bi⟩ := d
  cases kind <;> simp only [ExtendsSomething, normDef] at h ⊢ <;>
    simpa [List.map_eq_nil_iff] using h

theorem DirectiveDefOK_norm (cfg : Cfg) (d : DirectiveDef) (h : DirectiveDefOK d) :
    DirectiveDefOK (normDirectiveDef cfg d) :=
  ⟨ArgDefsOK_norm cfg _ h.1, h.2.1, h.2.2⟩

theorem CDirs_flatMap (ds : List SchemaDef) (h : ∀ d ∈ ds, CDirs d.dirs) : CDirs (ds.flatMap (·.dirs)) := by
  constructor
  · intro x hx
    simp only [List.mem_flatMap] at hx
    obtain ⟨d, hd, hxd⟩ := hx
    exact (h d hd).1 x hxd
  · intro x hx
    simp only [List.mem_flatMap] at hx
    obtain ⟨d, hd, hxd⟩ := hx
    exact (h d hd).2 x hxd

theorem SchemaDefOK_merge (cfg : Cfg) (ds : List SchemaDef) (h : ∀ d ∈ ds, SchemaDefOK d) :
    ∀ s ∈ mergeSchemaDefs cfg ds, SchemaDefOK s := by
  cases ds with
  | nil => intro s hs; simp [mergeSchemaDefs] at hs
  | cons d0 rest =>
    intro s hs
    simp only [mergeSchemaDefs, List.mem_singleton] at hs
    subst hs
    refine ⟨CDirs_norm _ (CDirs_flatMap _ fun d hd => (h d hd).1), ?_, ?_⟩
    · have := (h d0 (by simp)).2.1
      simp only [List.flatMap_cons]
      intro e
      exact this (List.append_eq_nil_iff.1 e).1
    · intro o ho
      simp only [List.mem_flatMap] at ho
      obtain ⟨d, hd, hod⟩ := ho
      exact (h d hd).2.2 o hod

theorem SchemaExtOK_merge (cfg : Cfg) (ds : List SchemaDef) (h : ∀ d ∈ ds, SchemaExtOK d) :
    ∀ s ∈ mergeSchemaDefs cfg ds, SchemaExtOK s := by
  cases ds with
  | nil => intro s hs; simp [mergeSchemaDefs] at hs
  | cons d0 rest =>
    intro s hs
    simp only [mergeSchemaDefs, List.mem_singleton] at hs
    subst hs
    have hdesc : (d0 :: rest).flatMap (·.desc) = [] := by
      rw [List.flatMap_eq_nil_iff]; intro d hd; exact (h d hd).1
    refine ⟨by simp [hdesc, normDesc], CDirs_norm _ (CDirs_flatMap _ fun d hd => (h d hd).2.1), ?_, ?_⟩
    · rcases (h d0 (by simp)).2.2.1 with h1 | h1
      · left
        simp only [List.flatMap_cons, List.map_append]
        intro e
        exact h1 (List.map_eq_nil_iff.1 (List.append_eq_nil_iff.1 e).1)
      · right
        simp only [List.flatMap_cons]
        intro e
        exact h1 (List.append_eq_nil_iff.1 e).1
    · intro o ho
      simp only [List.mem_flatMap] at ho
      obtain ⟨d, hd, hod⟩ := ho
      exact (h d hd).2.2.2 o hod

/-- every item of the normalised document satisfies the side conditions of C06's parse ∘ print -/
theorem itemOK_norm (cfg : Cfg) (d : SchemaDoc) (h : DocAll ItemOK d) :
    ∀ it ∈ itemsOf (normSchemaDoc cfg d), ItemOK it := by
  obtain ⟨h1, h2, h3, h4, h5⟩ := h
  intro it hit
  simp only [itemsOf, normSchemaDoc, List.mem_append, List.mem_map, List.mem_filter] at hit
  rcases hit with (((⟨s, hs, rfl⟩ | ⟨s, hs, rfl⟩) | ⟨x, ⟨x0, ⟨hx0, _⟩, rfl⟩, rfl⟩) | ⟨x, ⟨x0, ⟨hx0, _⟩, rfl⟩, rfl⟩) |
    ⟨x, ⟨x0, ⟨hx0, _⟩, rfl⟩, rfl⟩
  · exact SchemaDefOK_merge cfg d.schema h1 s hs
  · exact SchemaExtOK_merge cfg d.schemaExt h2 s hs
  · exact DirectiveDefOK_norm cfg x0 (h3 x0 hx0)
  · exact DefOK_norm cfg x0 (h4 x0 hx0)
  · have := h5 x0 hx0
    exact ⟨DefOK_norm cfg x0 this.1, by simp [normDef, normDesc, this.2.1], ExtendsSomething_norm cfg x0 this.2.2⟩

end Gql.Format
