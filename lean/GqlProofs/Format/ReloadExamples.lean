import GqlProofs.Format.ReloadMain
/-
  Small loaded schemas for the kernel-checked witnesses of C13 (second half).  All of them are loaded
  on top of the EMPTY prelude (`SchemaDoc.empty` has the shape of a prelude; the loader model does not
  need the built-in types), so that the name-sorted lists have at most two entries.
-/
namespace Gql.Format.Examples
open Gql Gql.Load Gql.Format Gql.Parser

/-- the schema `load` returns (the empty schema when it fails) -/
def loadD (sd : SchemaDoc) : Schema :=
  match load sd with
  | .ok s => s
  | _ => Schema.empty

theorem loadD_ok {sd : SchemaDoc} (h : (load sd).isOk = true) : load sd = .ok (loadD sd) := by
  unfold loadD
  cases hl : load sd with
  | ok s => rfl
  | err e => rw [hl] at h; cases h
  | panic => rw [hl] at h; cases h

theorem sortedByKey_single {α} (k : Name) (v : α) : sortedByKey [(k, v)] = [v] := by simp [sortedByKey]

theorem sortedByKey_pair {α} (a b : Name) (x y : α) :
    sortedByKey [(a, x), (b, y)] = if bytesLe a b then [x, y] else [y, x] := by
  unfold sortedByKey
  rw [List.mergeSort]
  simp [List.MergeSort.Internal.splitInTwo, List.merge]
  split <;> simp_all

def p1 : Pos := { start := 0, stop := 0, line := 1, col := 1, src := 1 }

def named (n : String) : GType := .named (str n) false p1

def field (n : String) (ty : String) (desc : Bytes := []) : FieldDef :=
  { desc := desc, name := str n, args := [], default := none, type := named ty, dirs := [], pos := p1 }

def mkDef (k : DefKind) (n : String) (fs : List FieldDef) (bi : Bool := false) : Definition :=
  { kind := k, desc := [], name := str n, dirs := [], interfaces := [], fields := fs, types := [], enumValues := [],
    pos := p1, builtIn := bi }

def docOf (defs : List Definition) : SchemaDoc :=
  { schema := [], schemaExt := [], directives := [], definitions := defs, extensions := [] }

/-- `"d" schema { query: Q }  type Q { f: Q }` -/
def describedSchemaDoc : SchemaDoc :=
  { docOf [mkDef .object "Q" [field "f" "Q"]] with
    schema := [{ desc := str "d", dirs := [], opTypes := [{ op := str "query", type := str "Q", pos := p1 }], pos := p1 }] }

/-- `type Query { f: Query }` -/
def plainQueryDoc : SchemaDoc := docOf [mkDef .object "Query" [field "f" "Query"]]

/-- `scalar Query` -/
def scalarQueryDoc : SchemaDoc := docOf [mkDef .scalar "Query" []]

/-- prelude `type __T { a: __T }` (built in), user `extend type __T { b: __T }` -/
def tinyPrelude : SchemaDoc := docOf [mkDef .object "__T" [field "a" "__T"] true]
def extendBuiltinDoc : SchemaDoc :=
  { docOf [] with extensions := [mkDef .object "__T" [field "b" "__T"]] }

/-- `input In { x: In }  directive @d("x" a: In b: In) on FIELD` -/
def describedArgDoc : SchemaDoc :=
  { docOf [mkDef .inputObject "In" [field "x" "In"]] with
    directives := [{ desc := [], name := str "d",
                     args := [{ desc := str "x", name := str "a", default := none, type := named "In", dirs := [], pos := p1 },
                              { desc := [], name := str "b", default := none, type := named "In", dirs := [], pos := p1 }],
                     locations := [str "FIELD"], repeatable := false, pos := p1 }] }

/-- `type Query { """a⏎b""" f: Query }` -/
def describedFieldDoc : SchemaDoc := docOf [mkDef .object "Query" [field "f" "Query" [97, 10, 98]]]

/-- `describedArgDoc` as it is printed with `WithoutDescription` -/
def describedArgDocPrinted : SchemaDoc :=
  { docOf [mkDef .inputObject "In" [field "x" "In"]] with
    directives := [{ desc := [], name := str "d",
                     args := [{ desc := [], name := str "a", default := none, type := named "In", dirs := [], pos := p1 },
                              { desc := [], name := str "b", default := none, type := named "In", dirs := [], pos := p1 }],
                     locations := [str "FIELD"], repeatable := false, pos := p1 }] }

/-- what is loaded back: the printed document, read as a user source -/
def printed (cfg : Cfg) (s : Schema) : SchemaDoc := setBuiltIn false (normSchemaDoc cfg (docOfSchema cfg s))

theorem printed_reparsed (cfg : Cfg) (s : Schema) : Reparsed cfg s (printed cfg s) := rfl

end Gql.Format.Examples
