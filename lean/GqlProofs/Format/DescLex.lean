import GqlProofs.Format.BlockLex
import GqlProofs.Format.Description
import GqlProofs.Lexer.SpecBlock
import GqlProofs.Format.TokText
/-
  The lexer model reads a block-string description as written by `WriteDescription` — every `"""`
  escaped as `\"""`, every line indented, the closing quotes on a line of their own — back as
  one BlockString token whose value is the description.
-/
namespace Gql.Format
open Gql Gql.Lexer

/-! ### `escapeTriple` -/

theorem escapeTriple_triple (r : Bytes) :
    escapeTriple (34 :: 34 :: 34 :: r) = 92 :: 34 :: 34 :: 34 :: escapeTriple r := by
  simp [escapeTriple]

theorem escapeTriple_cons_ne (b : Nat) (r : Bytes) (hb : b ≠ 34) : escapeTriple (b :: r) = b :: escapeTriple r := by
  rw [escapeTriple.eq_def]
  split
  · rename_i h; simp at h; exact absurd h.1 hb
  · rename_i h; simp at h; rw [h.1, h.2]
  · rename_i h; simp at h

theorem escapeTriple_quote (r : Bytes) (h : ∀ r', r ≠ 34 :: 34 :: r') :
    escapeTriple (34 :: r) = 34 :: escapeTriple r := by
  rw [escapeTriple.eq_def]
  split
  · rename_i rest h'; simp at h'; exact absurd h' (h rest)
  · rename_i h'; simp at h'; rw [h'.1, h'.2]
  · rename_i h'; simp at h'

theorem escapeTriple_append_ne (bs r : Bytes) (h : ∀ b ∈ bs, b ≠ 34) : escapeTriple (bs ++ r) = bs ++ escapeTriple r := by
  induction bs with
  | nil => rfl
  | cons b bs ih =>
    rw [List.cons_append, escapeTriple_cons_ne _ _ (h b (by simp)), ih (fun x hx => h x (by simp [hx]))]
    rfl

/-- escaped text never shows three quotes in a row (two, if the text does not start with two) -/
theorem quoteRun_escapeTriple (r Y : Bytes) (hY : Y.head? ≠ some 34) :
    quoteRun (escapeTriple r ++ Y) < 3 ∧ ((∀ r', r ≠ 34 :: 34 :: r') → quoteRun (escapeTriple r ++ Y) < 2) := by
  have hY0 : quoteRun Y = 0 := by
    cases Y with
    | nil => exact quoteRun_nil
    | cons y t => exact quoteRun_ne y t (by intro e; simp [e] at hY)
  cases r with
  | nil => simp [escapeTriple, hY0]
  | cons x r1 =>
    by_cases hx : x = 34
    · subst hx
      cases r1 with
      | nil =>
        rw [escapeTriple_quote [] (by simp)]
        simp [escapeTriple, quoteRun_q, hY0]
      | cons y r2 =>
        by_cases hy : y = 34
        · subst hy
          cases r2 with
          | nil =>
            rw [escapeTriple_quote [34] (by simp), escapeTriple_quote [] (by simp)]
            simp [escapeTriple, quoteRun_q, hY0]
          | cons z r3 =>
            by_cases hz : z = 34
            · subst hz
              rw [escapeTriple_triple]
              simp [quoteRun_ne 92 _ (by decide)]
            · rw [escapeTriple_quote (34 :: z :: r3) (by intro r' e; simp at e; exact hz e.1),
                escapeTriple_quote (z :: r3) (by intro r' e; simp at e; exact hz e.1),
                escapeTriple_cons_ne z r3 hz]
              simp [quoteRun_q, quoteRun_ne z _ hz]
        · rw [escapeTriple_quote (y :: r2) (by intro r' e; simp at e; exact hy e.1), escapeTriple_cons_ne y r2 hy]
          simp [quoteRun_q, quoteRun_ne y _ hy]
    · rw [escapeTriple_cons_ne x r1 hx]
      simp [quoteRun_ne x _ hx]

/-! ### the block loop on one escaped line -/

/-- an admissible character of a description line: a scalar, no control character except TAB
    (in particular neither LF nor CR) -/
def okChar (r : Nat) : Prop := IsScalar r ∧ (32 ≤ r ∨ r = 9)

theorem rbl_escape (q : Cur) (tl : Bytes) (c : Cur) (acc : Bytes) :
    readBlockLoop q (92 :: 34 :: 34 :: 34 :: tl) c acc = readBlockLoop q tl (c.adv 4 4) (34 :: 34 :: 34 :: acc) := by
  conv => lhs; rw [readBlockLoop.eq_def]
  simp

theorem utf8Encode_head_quote {S : List Nat} (hs : ∀ r ∈ S, IsScalar r) {t : Bytes}
    (h : utf8Encode S = 34 :: t) : ∃ S', S = 34 :: S' ∧ t = utf8Encode S' := by
  cases S with
  | nil => simp [utf8Encode] at h
  | cons x S' =>
    by_cases hx : x = 34
    · subst hx
      rw [utf8Encode_cons, encodeRune_quote] at h
      simp at h
      exact ⟨S', rfl, h.symm⟩
    · obtain ⟨b, bs, he, hb⟩ := encodeRune_head_ne_quote (hs x (by simp)) hx
      rw [utf8Encode_cons, he] at h
      simp at h
      exact absurd h.1 hb

theorem encodeRune_no_quote {r : Nat} (hr : IsScalar r) (h : r ≠ 34) : ∀ b ∈ encodeRune r, b ≠ 34 := by
  by_cases h80 : r < 0x80
  · rw [encodeRune_ascii h80]; intro b hb; simp at hb; omega
  · intro b hb
    have := encodeRune_high hr (by omega) b hb
    omega

/-- one line, written with `"""` escaped and followed by something that is not a quote, is copied -/
theorem rbl_line (q : Cur) (n : Nat) : ∀ (S : List Nat), S.length ≤ n → (∀ r ∈ S, okChar r) →
    ∀ (Y : Bytes) (c : Cur) (acc : Bytes), Y.head? ≠ some 34 →
      ∃ c', readBlockLoop q (escapeTriple (utf8Encode S) ++ Y) c acc
        = readBlockLoop q Y c' ((utf8Encode S).reverse ++ acc) := by
  induction n with
  | zero =>
    intro S hl _ Y c acc _
    have : S = [] := by cases S <;> simp_all
    subst this
    exact ⟨c, by simp [utf8Encode, escapeTriple]⟩
  | succ n ih =>
    intro S hl hok Y c acc hY
    cases S with
    | nil => exact ⟨c, by simp [utf8Encode, escapeTriple]⟩
    | cons r S1 =>
      have hr := hok r (by simp)
      have hok1 : ∀ x ∈ S1, okChar x := fun x hx => hok x (by simp [hx])
      have hs1 : ∀ x ∈ S1, IsScalar x := fun x hx => (hok1 x hx).1
      have hl1 : S1.length ≤ n := by simp at hl; omega
      rw [utf8Encode_cons]
      by_cases h34 : r = 34
      · subst h34
        rw [encodeRune_quote]
        simp only [List.cons_append, List.nil_append]
        by_cases htr : ∃ t, utf8Encode S1 = 34 :: 34 :: t
        · obtain ⟨t, ht⟩ := htr
          obtain ⟨S2, e2, ht2⟩ := utf8Encode_head_quote hs1 ht
          subst e2
          have hs2 : ∀ x ∈ S2, IsScalar x := fun x hx => hs1 x (by simp [hx])
          obtain ⟨S3, e3, ht3⟩ := utf8Encode_head_quote hs2 ht2.symm
          subst e3
          rw [ht, ht3, escapeTriple_triple]
          simp only [List.cons_append]
          rw [rbl_escape]
          obtain ⟨c', e⟩ := ih S3 (by simp at hl1; omega) (fun x hx => hok1 x (by simp [hx])) Y (c.adv 4 4)
            (34 :: 34 :: 34 :: acc) hY
          exact ⟨c', by rw [e]; simp⟩
        · have hnt : ∀ r', utf8Encode S1 ≠ 34 :: 34 :: r' := fun r' e => htr ⟨r', e⟩
          rw [escapeTriple_quote _ hnt]
          simp only [List.cons_append]
          have hq := (quoteRun_escapeTriple (utf8Encode S1) Y hY).2 hnt
          rw [rbl_quote q _ c acc (by rw [quoteRun_q]; omega)]
          obtain ⟨c', e⟩ := ih S1 hl1 hok1 Y (c.adv 1 1) (34 :: acc) hY
          exact ⟨c', by rw [e]; simp⟩
      · by_cases h92 : r = 92
        · subst h92
          have e92 : encodeRune 92 = [92] := by decide
          rw [e92]
          simp only [List.cons_append, List.nil_append]
          rw [escapeTriple_cons_ne 92 _ (by decide)]
          simp only [List.cons_append]
          have hq := (quoteRun_escapeTriple (utf8Encode S1) Y hY).1
          rw [rbl_backslash q _ c acc (by
            intro tl' e
            rw [e] at hq
            simp only [quoteRun_q] at hq
            omega)]
          obtain ⟨c', e⟩ := ih S1 hl1 hok1 Y (c.adv 1 1) (92 :: acc) hY
          exact ⟨c', by rw [e]; simp⟩
        · rw [escapeTriple_append_ne _ _ (encodeRune_no_quote hr.1 h34), List.append_assoc]
          obtain ⟨c1, e1⟩ := rbl_plain q r hr.1 (by rcases hr.2 with h | h; exact Or.inl h; exact Or.inr (Or.inl h))
            h34 h92 (escapeTriple (utf8Encode S1) ++ Y) c acc
          rw [e1]
          obtain ⟨c', e⟩ := ih S1 hl1 hok1 Y c1 ((encodeRune r).reverse ++ acc) hY
          exact ⟨c', by rw [e]; simp⟩

theorem rbl_lf (q : Cur) (Z : Bytes) (c : Cur) (acc : Bytes) :
    ∃ c', readBlockLoop q (10 :: Z) c acc = readBlockLoop q Z c' (10 :: acc) := by
  have e10 : encodeRune 10 = [10] := by decide
  obtain ⟨c', e⟩ := rbl_plain q 10 (by unfold IsScalar; omega) (Or.inr (Or.inr rfl)) (by decide) (by decide) Z c acc
  rw [e10] at e
  exact ⟨c', by simpa using e⟩

theorem rbl_blanks (q : Cur) (ind : Bytes) (hi : AllBlank ind) : ∀ (Z : Bytes) (c : Cur) (acc : Bytes),
    ∃ c', readBlockLoop q (ind ++ Z) c acc = readBlockLoop q Z c' (ind.reverse ++ acc) := by
  induction ind with
  | nil => intro Z c acc; exact ⟨c, by simp⟩
  | cons b ind ih =>
    intro Z c acc
    have hb : b = 32 ∨ b = 9 := by
      have := hi b (by simp); simpa [isBlank] using this
    have eb : encodeRune b = [b] := encodeRune_ascii (by omega)
    obtain ⟨c1, e1⟩ := rbl_plain q b (by unfold IsScalar; omega) (by omega) (by omega) (by omega) (ind ++ Z) c acc
    rw [eb] at e1
    obtain ⟨c', e⟩ := ih (fun x hx => hi x (by simp [hx])) Z c1 (b :: acc)
    have e1' : readBlockLoop q (b :: (ind ++ Z)) c acc = readBlockLoop q (ind ++ Z) c1 (b :: acc) := by
      simpa using e1
    exact ⟨c', by rw [List.cons_append, e1', e]; simp⟩

/-- a line of a description: admissible characters in UTF-8 -/
def OkLine (l : Bytes) : Prop := ∃ S : List Nat, (∀ r ∈ S, okChar r) ∧ l = utf8Encode S

theorem utf8Encode_append (a b : List Nat) : utf8Encode (a ++ b) = utf8Encode a ++ utf8Encode b := by
  simp [utf8Encode]

theorem okLine_blank {ind : Bytes} (hi : AllBlank ind) : ∃ S : List Nat, (∀ r ∈ S, okChar r) ∧ ind = utf8Encode S ∧
    ∀ b ∈ ind, b ≠ 34 := by
  have hb : ∀ b ∈ ind, b = 32 ∨ b = 9 := by
    intro b h; have := hi b h; simpa [isBlank] using this
  refine ⟨ind, ?_, ?_, ?_⟩
  · intro r h; have := hb r h; unfold okChar IsScalar; omega
  · exact (utf8Encode_ascii ind (by intro b h; have := hb b h; omega)).symm
  · intro b h; have := hb b h; omega

/-- the indented, escaped lines of a description body, each followed by LF, are copied -/
theorem rbl_lines (q : Cur) (ind : Bytes) (hi : AllBlank ind) : ∀ (ls : List Bytes), (∀ l ∈ ls, OkLine l) →
    ∀ (Z : Bytes) (c : Cur) (acc : Bytes),
      ∃ c', readBlockLoop q ((ls.map escapeTriple).flatMap (fun l => ind ++ l ++ [10]) ++ Z) c acc
        = readBlockLoop q Z c' ((ls.flatMap (fun l => ind ++ l ++ [10])).reverse ++ acc) := by
  intro ls
  induction ls with
  | nil => intro _ Z c acc; exact ⟨c, by simp⟩
  | cons l ls ih =>
    intro hok Z c acc
    obtain ⟨S, hS, rfl⟩ := hok l (by simp)
    obtain ⟨Si, hSi, ei, hq⟩ := okLine_blank hi
    -- the indented line is itself a line
    have e1 : ind ++ escapeTriple (utf8Encode S) = escapeTriple (utf8Encode (Si ++ S)) := by
      rw [utf8Encode_append, ← ei, escapeTriple_append_ne _ _ hq]
    have e2 : ind ++ utf8Encode S = utf8Encode (Si ++ S) := by rw [utf8Encode_append, ← ei]
    obtain ⟨c1, h1⟩ := rbl_line q (Si ++ S).length (Si ++ S) (Nat.le_refl _)
      (by intro r hr; simp at hr; rcases hr with hr | hr; exact hSi r hr; exact hS r hr)
      (10 :: ((ls.map escapeTriple).flatMap (fun l => ind ++ l ++ [10]) ++ Z)) c acc (by simp)
    obtain ⟨c2, h2⟩ := rbl_lf q ((ls.map escapeTriple).flatMap (fun l => ind ++ l ++ [10]) ++ Z) c1
      ((utf8Encode (Si ++ S)).reverse ++ acc)
    obtain ⟨c', h3⟩ := ih (fun x hx => hok x (by simp [hx])) Z c2 (10 :: ((utf8Encode (Si ++ S)).reverse ++ acc))
    refine ⟨c', ?_⟩
    have ht : ((utf8Encode S :: ls).map escapeTriple).flatMap (fun l => ind ++ l ++ [10]) ++ Z
        = escapeTriple (utf8Encode (Si ++ S)) ++
          10 :: ((ls.map escapeTriple).flatMap (fun l => ind ++ l ++ [10]) ++ Z) := by
      rw [← e1]; simp
    rw [ht, h1, h2, h3, ← e2]
    simp

/-! ### the lines of an escaped text are the escaped lines -/

theorem splitLines_prefix (r : Bytes) : ∀ l ls, splitLines r = l :: ls → ∃ t, r = l ++ t := by
  induction r with
  | nil => intro l ls h; simp [splitLines] at h; exact ⟨[], by simp [h.1]⟩
  | cons b r ih =>
    intro l ls h
    by_cases hb : b = 10
    · subst hb
      have : splitLines (10 :: r) = [] :: splitLines r := by simp [splitLines]
      rw [this] at h; simp at h
      exact ⟨10 :: r, by simp [← h.1]⟩
    · cases hs : splitLines r with
      | nil => exact absurd hs (splitLines_ne_nil r)
      | cons l0 ls0 =>
        rw [splitLines_cons_ne _ _ _ _ hb hs] at h
        simp at h
        obtain ⟨t, ht⟩ := ih l0 ls0 hs
        exact ⟨t, by rw [← h.1, ht]; simp⟩

theorem splitLines_escapeTriple (n : Nat) : ∀ s : Bytes, s.length ≤ n →
    splitLines (escapeTriple s) = (splitLines s).map escapeTriple := by
  induction n with
  | zero =>
    intro s hl
    have : s = [] := by cases s <;> simp_all
    subst this; simp [escapeTriple, splitLines]
  | succ n ih =>
    intro s hl
    cases s with
    | nil => simp [escapeTriple, splitLines]
    | cons b r =>
      have hlr : r.length ≤ n := by simp at hl; omega
      by_cases htr : b = 34 ∧ ∃ r2, r = 34 :: 34 :: r2
      · obtain ⟨rfl, r2, rfl⟩ := htr
        have ih2 := ih r2 (by simp at hlr; omega)
        cases hs : splitLines r2 with
        | nil => exact absurd hs (splitLines_ne_nil r2)
        | cons l0 ls0 =>
          rw [hs] at ih2
          simp only [List.map_cons] at ih2
          rw [escapeTriple_triple]
          rw [splitLines_cons_ne 92 _ _ _ (by decide) (splitLines_cons_ne 34 _ _ _ (by decide)
            (splitLines_cons_ne 34 _ _ _ (by decide) (splitLines_cons_ne 34 _ _ _ (by decide) ih2)))]
          rw [splitLines_cons_ne 34 _ _ _ (by decide) (splitLines_cons_ne 34 _ _ _ (by decide)
            (splitLines_cons_ne 34 _ _ _ (by decide) hs))]
          simp [escapeTriple_triple]
      · have hesc : escapeTriple (b :: r) = b :: escapeTriple r := by
          by_cases hb : b = 34
          · subst hb
            exact escapeTriple_quote r (fun r' e => htr ⟨rfl, r', e⟩)
          · exact escapeTriple_cons_ne b r hb
        rw [hesc]
        have ihr := ih r hlr
        by_cases hb10 : b = 10
        · subst hb10
          have e1 : splitLines (10 :: escapeTriple r) = [] :: splitLines (escapeTriple r) := by simp [splitLines]
          have e2 : splitLines (10 :: r) = [] :: splitLines r := by simp [splitLines]
          rw [e1, e2, ihr]; simp [escapeTriple]
        · cases hs : splitLines r with
          | nil => exact absurd hs (splitLines_ne_nil r)
          | cons l0 ls0 =>
            rw [hs] at ihr
            simp only [List.map_cons] at ihr
            rw [splitLines_cons_ne b _ _ _ hb10 ihr, splitLines_cons_ne b _ _ _ hb10 hs]
            simp only [List.map_cons]
            congr 1
            by_cases hb : b = 34
            · subst hb
              refine (escapeTriple_quote l0 ?_).symm
              intro r' e
              obtain ⟨t, ht⟩ := splitLines_prefix r l0 ls0 hs
              exact htr ⟨rfl, r' ++ t, by rw [ht, e]; simp⟩
            · exact (escapeTriple_cons_ne b l0 hb).symm

/-! ### the lines of a description are admissible lines -/

theorem splitLines_append_prefix (bs X : Bytes) (h : 10 ∉ bs) (l0 : Bytes) (ls : List Bytes)
    (hs : splitLines X = l0 :: ls) : splitLines (bs ++ X) = (bs ++ l0) :: ls := by
  induction bs with
  | nil => simpa using hs
  | cons b bs ih =>
    have hb : b ≠ 10 := by intro e; simp [e] at h
    have ht : 10 ∉ bs := by intro e; simp [e] at h
    rw [List.cons_append, splitLines_cons_ne b _ _ _ hb (ih ht)]
    rfl

theorem okLines_utf8 : ∀ (S0 : List Nat), (∀ r ∈ S0, IsScalar r ∧ (32 ≤ r ∨ r = 9 ∨ r = 10)) →
    ∀ l ∈ splitLines (utf8Encode S0), OkLine l := by
  intro S0
  induction S0 with
  | nil => intro _ l hl; simp [utf8Encode, splitLines] at hl; subst hl; exact ⟨[], by simp, by simp [utf8Encode]⟩
  | cons r S0 ih =>
    intro hok l hl
    have hr := hok r (by simp)
    have ih' := ih (fun x hx => hok x (by simp [hx]))
    rw [utf8Encode_cons] at hl
    cases hs : splitLines (utf8Encode S0) with
    | nil => exact absurd hs (splitLines_ne_nil _)
    | cons l0 ls0 =>
      rw [hs] at ih'
      by_cases h10 : r = 10
      · subst h10
        have e10 : encodeRune 10 = [10] := by decide
        have : splitLines ([10] ++ utf8Encode S0) = [] :: splitLines (utf8Encode S0) := by simp [splitLines]
        rw [e10, this, hs] at hl
        simp at hl
        rcases hl with rfl | rfl | hl
        · exact ⟨[], by simp, by simp [utf8Encode]⟩
        · exact ih' _ (by simp)
        · exact ih' _ (by simp [hl])
      · have hno : 10 ∉ encodeRune r := by
          by_cases h80 : r < 0x80
          · rw [encodeRune_ascii h80]; simp; omega
          · intro hm; have := encodeRune_high hr.1 (by omega) 10 hm; omega
        rw [splitLines_append_prefix _ _ hno l0 ls0 hs] at hl
        simp at hl
        rcases hl with rfl | hl
        · obtain ⟨S, hS, e⟩ := ih' l0 (by simp)
          refine ⟨r :: S, ?_, by rw [utf8Encode_cons, e]⟩
          intro x hx
          simp at hx
          rcases hx with rfl | hx
          · exact ⟨hr.1, by have := hr.2; omega⟩
          · exact hS x hx
        · exact ih' _ (by simp [hl])

/-- the lines of a well-formed UTF-8 text without control characters other than TAB and LF -/
theorem okLines_of_valid (s : Bytes) (hv : strRaw s = true)
    (hc : s.all (fun c => !(decide (c < 32) && c != 9 && c != 10)) = true) : ∀ l ∈ splitLines s, OkLine l := by
  obtain ⟨S0, hS0, e⟩ := (Utf8.valid_iff s).1 hv
  subst e
  refine okLines_utf8 S0 ?_
  intro r hr
  refine ⟨hS0 r hr, ?_⟩
  by_cases h32 : 32 ≤ r
  · exact Or.inl h32
  · right
    have hm : r ∈ utf8Encode S0 := by
      simp only [utf8Encode, List.mem_flatMap]
      exact ⟨r, hr, by rw [encodeRune_ascii (by omega)]; simp⟩
    have := List.all_eq_true.1 hc r hm
    simp at this
    omega

/-! ### the formatter's test and the representable class -/

theorem isBlankLine_iff (l : Bytes) : isBlankLine l = true ↔ leadingWs l = none := by
  induction l with
  | nil => simp [isBlankLine, leadingWs]
  | cons b r ih =>
    simp only [isBlankLine, List.all_cons, Bool.and_eq_true] at ih ⊢
    by_cases hb : isBlank b = true
    · have hb' : (b == 32 || b == 9) = true := hb
      simp only [leadingWs, hb, if_true, hb', true_and]
      rw [show (r.all fun b => b == 32 || b == 9) = true ↔ leadingWs r = none from ih]
      cases leadingWs r <;> simp
    · have hb' : (b == 32 || b == 9) = false := by simpa [isBlank] using hb
      simp [leadingWs, hb, hb']

theorem commonIndent_zero (ls : List Bytes) (l : Bytes) (hl : l ∈ ls) (h0 : leadingWs l = some 0) :
    commonIndent ls = some 0 := by
  induction ls with
  | nil => simp at hl
  | cons x xs ih =>
    simp at hl
    rcases hl with rfl | hl
    · simp only [commonIndent, h0]
      cases commonIndent xs <;> simp
    · simp only [commonIndent, ih hl]
      cases leadingWs x <;> simp

theorem blockRepresentable_of_model (s : Bytes) (h : blockStringRepresentable s = true) : BlockRepresentable s := by
  unfold blockStringRepresentable at h
  simp only [Bool.and_eq_true, Bool.not_eq_true'] at h
  obtain ⟨⟨⟨_, h1⟩, h2⟩, h3⟩ := h
  have hne := splitLines_ne_nil s
  refine ⟨?_, ?_, ?_⟩
  · cases hs : splitLines s with
    | nil => exact absurd hs hne
    | cons l ls =>
      refine ⟨l, ls, rfl, ?_⟩
      rw [hs] at h1
      intro e
      rw [← isBlankLine_iff] at e
      simp [e] at h1
  · cases hs : (splitLines s).reverse with
    | nil => simp at hs; exact absurd hs hne
    | cons l ls =>
      refine ⟨l, ls, rfl, ?_⟩
      have e : splitLines s = ls.reverse ++ [l] := by
        have := congrArg List.reverse hs; simpa using this
      rw [e] at h2
      intro e'
      rw [← isBlankLine_iff] at e'
      simp [e'] at h2
  · obtain ⟨l, hl, hp⟩ := List.any_eq_true.1 h3
    refine commonIndent_zero _ l hl ?_
    cases l with
    | nil => simp at hp
    | cons b r =>
      simp at hp
      have : isBlank b = false := by simp [isBlank]; exact ⟨hp.2.1, hp.2.2⟩
      simp [leadingWs, this]

/-- THE DESCRIPTION TOKEN: what `WriteDescription` writes in block form — `"""`, the indented lines
    with `"""` escaped, `"""` — is read back by the lexer model as one BlockString token whose
    value is the description, whatever separator or punctuator follows.  Hypotheses: the
    indentation consists of spaces and tabs, the description is well-formed UTF-8, and it passes
    the formatter's own test `blockStringRepresentable`. -/
theorem tokText_blockDescription (ind s : Bytes) (hi : AllBlank ind) (hv : strRaw s = true)
    (hrep : blockStringRepresentable s = true) :
    TokText (tripleQuote ++ descBody ind (escapeTriple s) ++ tripleQuote)
      { kind := .blockString, value := s } true := by
  intro post hf c
  have hpost : post.head? ≠ some 34 := by
    cases post with
    | nil => simp
    | cons x t => have := sepByte_cases (hf rfl x t rfl); simp; omega
  have hc : s.all (fun c => !(decide (c < 32) && c != 9 && c != 10)) = true := by
    unfold blockStringRepresentable at hrep
    simp only [Bool.and_eq_true] at hrep
    exact hrep.1.1.1
  have hlines := okLines_of_valid s hv hc
  have hsl := splitLines_escapeTriple s.length s (Nat.le_refl _)
  have htext : tripleQuote ++ descBody ind (escapeTriple s) ++ tripleQuote ++ post
      = 34 :: 34 :: 34 :: 10 :: (((splitLines s).map escapeTriple).flatMap (fun l => ind ++ l ++ [10])
          ++ (ind ++ 34 :: 34 :: 34 :: post)) := by
    simp [tripleQuote, descBody, hsl, List.append_assoc]
  rw [htext, readToken_stop 34 _ c (by decide), readTokenBody_block]
  obtain ⟨c1, h1⟩ := rbl_lf c (((splitLines s).map escapeTriple).flatMap (fun l => ind ++ l ++ [10])
    ++ (ind ++ 34 :: 34 :: 34 :: post)) (c.adv 3 3) []
  obtain ⟨c2, h2⟩ := rbl_lines c ind hi (splitLines s) hlines (ind ++ 34 :: 34 :: 34 :: post) c1 [10]
  obtain ⟨c3, h3⟩ := rbl_blanks c ind hi (34 :: 34 :: 34 :: post) c2
    (((splitLines s).flatMap (fun l => ind ++ l ++ [10])).reverse ++ [10])
  rw [h1, h2, h3, rbl_close c post hpost]
  refine ⟨_, _, rfl, ?_, by simp [Grammar.significant]⟩
  have hval : (ind.reverse ++ (((splitLines s).flatMap (fun l => ind ++ l ++ [10])).reverse ++ [10])).reverse
      = descBody ind s := by
    simp [descBody]
  simp only [Grammar.Tok.ofToken, hval]
  rw [blockStringValue_descBody ind s hi (blockRepresentable_of_model s hrep)]

end Gql.Format
