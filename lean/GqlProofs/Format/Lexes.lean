import GqlModel.Syntax.Grammar
import GqlProofs.Lexer.Progress
/-
  Compositional lexing, independent of the cursor.

  * `Lexes inp ts`: from every cursor the lexer model reads exactly the significant tokens `ts`
    (kind + value) out of `inp` and then EOF.  `Lexes inp ts → tokensOf inp = some ts`.
  * `LexTo txt ts tight`: `txt` is a complete prefix of token texts — whatever follows it
    (restricted by `Follow tight`) is lexed on its own:
        Lexes post ts' → Lexes (txt ++ post) (ts ++ ts').
    `tight = true` means the text ends in a word-like token (Name, Int, Float, String) with no
    separator after it, so the next byte must be a separator or a punctuator (`sepByte`);
    `tight = false` means anything may follow.
-/
namespace Gql.Format
open Gql Gql.Lexer Gql.Grammar

/-- cursor-independent lexing of a whole input -/
inductive Lexes : Bytes → List Tok → Prop
  | eof {inp : Bytes} : (∀ c, (ws inp c).1 = []) → Lexes inp []
  | tok {inp rest : Bytes} {t : Tok} {ts : List Tok} :
      (∀ c, ∃ tk c', readToken inp c = .tok tk rest c' ∧ Tok.ofToken tk = t ∧ significant tk = true) →
      Lexes rest ts → Lexes inp (t :: ts)

theorem lexFuel_of_Lexes {inp : Bytes} {ts : List Tok} (h : Lexes inp ts) :
    ∀ (fuel : Nat) (c : Cur) (acc : List Token), inp.length < fuel →
      ∃ toks, lexFuel fuel inp c acc = .done (acc.reverse ++ toks) ∧
        (toks.filter significant).map Tok.ofToken = ts := by
  induction h with
  | @eof inp hws =>
    intro fuel c acc hf
    cases fuel with
    | zero => omega
    | succ f =>
      have h1 := hws c
      refine ⟨[{ kind := .eof, value := [], start := (ws inp c).2.endR, stop := (ws inp c).2.endR + 0,
                 line := (ws inp c).2.line, col := colOf (ws inp c).2.endR (ws inp c).2.ls }], ?_, by simp [significant]⟩
      simp [lexFuel, readToken, h1, readTokenBody, simpleTok]
  | @tok inp rest t ts hstep _ ih =>
    intro fuel c acc hf
    cases fuel with
    | zero => omega
    | succ f =>
      obtain ⟨tk, c', h1, h2, h3⟩ := hstep c
      have hp := readToken_progress inp c
      rw [h1] at hp
      have hne : tk.kind ≠ .eof := by
        intro e; simp [significant, e] at h3
      have hlt : rest.length < f := by
        have := hp.2 hne; omega
      obtain ⟨toks, e1, e2⟩ := ih f c' (tk :: acc) hlt
      refine ⟨tk :: toks, ?_, by simp [h3, h2, e2]⟩
      simp [lexFuel, h1, hne, e1]

/-- the bridge to the grammar's token sequence -/
theorem tokensOf_of_Lexes {inp : Bytes} {ts : List Tok} (h : Lexes inp ts) : tokensOf inp = some ts := by
  obtain ⟨toks, e1, e2⟩ := lexFuel_of_Lexes h (inp.length + 1) Cur.init [] (by omega)
  simp [tokensOf, lexAll, e1, e2]

/-! ### ignored bytes -/

/-- the single-byte ignored characters: TAB, LF, CR, space, comma -/
def blankByte (b : Nat) : Bool := b == 9 || b == 10 || b == 13 || b == 32 || b == 44

def AllIgnored (bs : Bytes) : Prop := ∀ b ∈ bs, blankByte b = true

theorem ws_plain (b : Nat) (r : Bytes) (c : Cur) (h : b = 9 ∨ b = 32 ∨ b = 44) :
    ws (b :: r) c = ws r (c.adv 1 1) := by
  rw [ws.eq_def]; simp [h]

theorem ws_lf (r : Bytes) (c : Cur) : ws (10 :: r) c = ws r (c.adv 1 1).newline := by
  rw [ws.eq_def]; simp

theorem ws_crlf (r : Bytes) (c : Cur) : ws (13 :: 10 :: r) c = ws r (c.adv 2 2).newline := by
  rw [ws.eq_def]; simp

theorem ws_cr (r : Bytes) (c : Cur) (h : ∀ r', r ≠ 10 :: r') : ws (13 :: r) c = ws r (c.adv 1 1).newline := by
  rw [ws.eq_def]; simp

/-- a byte that is not ignored stops `ws` -/
theorem ws_stop (b : Nat) (r : Bytes) (c : Cur)
    (h : b ≠ 9 ∧ b ≠ 32 ∧ b ≠ 44 ∧ b ≠ 10 ∧ b ≠ 13 ∧ b ≠ 0xEF) : ws (b :: r) c = (b :: r, c) := by
  rw [ws.eq_def]; simp [h]

/-- skipping one ignored byte: the same scan from another cursor -/
theorem ws_blank (b : Nat) (r : Bytes) (c : Cur) (h : blankByte b = true) :
    ∃ c', ws (b :: r) c = ws r c' := by
  simp [blankByte] at h
  rcases h with (((h | h) | h) | h) | h
  · exact ⟨_, ws_plain b r c (by simp [h])⟩
  · subst h; exact ⟨_, ws_lf r c⟩
  · subst h
    by_cases hr : ∃ r', r = 10 :: r'
    · obtain ⟨r', rfl⟩ := hr
      refine ⟨c.adv 1 1, ?_⟩
      rw [ws_crlf, ws_lf]; simp [Cur.adv, Cur.newline]
    · exact ⟨_, ws_cr r c (fun r' e => hr ⟨r', e⟩)⟩
  · exact ⟨_, ws_plain b r c (by simp [h])⟩
  · exact ⟨_, ws_plain b r c (by simp [h])⟩

theorem readToken_blank (b : Nat) (r : Bytes) (c : Cur) (h : blankByte b = true) :
    ∃ c', readToken (b :: r) c = readToken r c' := by
  obtain ⟨c', e⟩ := ws_blank b r c h
  exact ⟨c', by unfold readToken; rw [e]⟩

theorem Lexes_blank_cons {r : Bytes} {ts : List Tok} (b : Nat) (hb : blankByte b = true) (h : Lexes r ts) :
    Lexes (b :: r) ts := by
  cases h with
  | eof hws =>
    refine .eof fun c => ?_
    obtain ⟨c', e⟩ := ws_blank b r c hb
    rw [e]; exact hws c'
  | tok hstep hrest =>
    refine .tok (fun c => ?_) hrest
    obtain ⟨c', e⟩ := readToken_blank b r c hb
    rw [e]; exact hstep c'

theorem Lexes_blank {bl r : Bytes} {ts : List Tok} (hb : AllIgnored bl) (h : Lexes r ts) : Lexes (bl ++ r) ts := by
  induction bl with
  | nil => simpa using h
  | cons b bl ih =>
    exact Lexes_blank_cons b (hb b (by simp)) (ih fun x hx => hb x (by simp [hx]))

theorem Lexes_nil : Lexes [] [] := .eof fun c => by simp [ws]

/-! ### what may follow a token -/

/-- separators and single-byte punctuators: after any of these bytes a new token starts, and none
    of them continues a Name, a number or a String. -/
def sepByte (b : Nat) : Bool :=
  blankByte b || b == 33 || b == 36 || b == 38 || b == 40 || b == 41 || b == 58 || b == 61 || b == 64 ||
  b == 91 || b == 93 || b == 123 || b == 125 || b == 124

/-- the restriction on the text that follows: after a tight end it must be empty or start with a
    separator / punctuator -/
def Follow (tight : Bool) (post : Bytes) : Prop :=
  tight = true → ∀ b t, post = b :: t → sepByte b = true

theorem Follow_false (post : Bytes) : Follow false post := by intro h; cases h
theorem Follow_nil (tg : Bool) : Follow tg [] := by intro _ b t h; cases h
theorem Follow_cons (tg : Bool) (b : Nat) (t : Bytes) (h : sepByte b = true) : Follow tg (b :: t) := by
  intro _ b' t' e; simp at e; rw [← e.1]; exact h

theorem sepByte_of_blank {b : Nat} (h : blankByte b = true) : sepByte b = true := by simp [sepByte, h]

/-- `txt` is a sequence of complete token texts for `ts` -/
def LexTo (txt : Bytes) (ts : List Tok) (tight : Bool) : Prop :=
  ∀ post ts', Follow tight post → Lexes post ts' → Lexes (txt ++ post) (ts ++ ts')

theorem LexTo_nil : LexTo [] [] false := by intro post ts' _ h; simpa using h

theorem LexTo.weaken {txt : Bytes} {ts : List Tok} {tg : Bool} (h : LexTo txt ts false) : LexTo txt ts tg :=
  fun post ts' _ hl => h post ts' (Follow_false _) hl

theorem LexTo.toTight {txt : Bytes} {ts : List Tok} {tg : Bool} (h : LexTo txt ts tg) : LexTo txt ts true := by
  cases tg with
  | true => exact h
  | false => exact h.weaken

/-- the text `x` may be glued after a text that ends `tight` -/
def StartOK (tight : Bool) (x : Bytes) : Prop :=
  tight = true → ∃ b t, x = b :: t ∧ sepByte b = true

theorem StartOK_false (x : Bytes) : StartOK false x := by intro h; cases h

theorem StartOK_cons (tg : Bool) (b : Nat) (t : Bytes) (h : sepByte b = true) : StartOK tg (b :: t) :=
  fun _ => ⟨b, t, rfl, h⟩

theorem LexTo.append {a b : Bytes} {ts us : List Tok} {tga tgb : Bool}
    (ha : LexTo a ts tga) (hb : LexTo b us tgb) (hs : StartOK tga b) : LexTo (a ++ b) (ts ++ us) tgb := by
  intro post ts' hf hl
  have h1 := hb post ts' hf hl
  have hf' : Follow tga (b ++ post) := by
    intro ht x t e
    obtain ⟨b0, t0, e0, hsb⟩ := hs ht
    subst e0
    simp at e
    rw [← e.1]; exact hsb
  have h2 := ha (b ++ post) (us ++ ts') hf' h1
  simpa [List.append_assoc] using h2

/-- ignored bytes after a text: whatever follows is free -/
theorem LexTo.blank {txt bl : Bytes} {ts : List Tok} {tg : Bool} (h : LexTo txt ts tg) (hb : AllIgnored bl)
    (hne : bl ≠ []) : LexTo (txt ++ bl) ts false := by
  intro post ts' _ hl
  have h1 : Lexes (bl ++ post) ts' := Lexes_blank hb hl
  have hf : Follow tg (bl ++ post) := by
    cases bl with
    | nil => exact absurd rfl hne
    | cons b t => exact Follow_cons tg b _ (sepByte_of_blank (hb b (by simp)))
  simpa [List.append_assoc] using h (bl ++ post) ts' hf h1

/-- ignored bytes (possibly none) after a text -/
theorem LexTo.blank' {txt bl : Bytes} {ts : List Tok} {tg : Bool} (h : LexTo txt ts tg) (hb : AllIgnored bl) :
    LexTo (txt ++ bl) ts tg := by
  by_cases hne : bl = []
  · subst hne; simpa using h
  · exact (h.blank hb hne).weaken

/-- one token text: whatever cursor, the lexer reads token `t` off `x ++ post` and leaves `post` -/
def TokText (x : Bytes) (t : Tok) (tight : Bool) : Prop :=
  ∀ post, Follow tight post → ∀ c, ∃ tk c', readToken (x ++ post) c = .tok tk post c' ∧
    Tok.ofToken tk = t ∧ significant tk = true

theorem TokText.lexTo {x : Bytes} {t : Tok} {tg : Bool} (h : TokText x t tg) : LexTo x [t] tg :=
  fun post _ hf hl => .tok (h post hf) hl

end Gql.Format
