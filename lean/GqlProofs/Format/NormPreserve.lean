import GqlProofs.Format.Formattable
import GqlProofs.Parser.FwdQuery
/-
  `normFmt` (block-string values become string values) keeps the side conditions of the
  parse ∘ print theorem of C05: grammar well-formedness (`WFOperation`, `WFFragment`) and the
  canonical unprinted parts (`OpOK`, `FragOK`).
-/
namespace Gql.Format
open Gql Gql.Lexer Gql.Print Gql.Parser

theorem normKind_ne_variable {k : ValueKind} (h : k ≠ .variable) : normKind k ≠ .variable := by
  cases k <;> simp_all [normKind]

mutual
  theorem ConstValue_norm : ∀ v : Value, ConstValue v → ConstValue (normValue v)
    | .mk k raw ch p, h => by
      simp only [ConstValue, normValue] at h ⊢
      exact ⟨normKind_ne_variable h.1, ConstChildren_norm ch h.2⟩
  theorem ConstChildren_norm : ∀ ch : Children, ConstChildren ch → ConstChildren (normChildren ch)
    | .nil, _ => by simp [normChildren, ConstChildren]
    | .cons n v p rest, h => by
      simp only [ConstChildren, normChildren] at h ⊢
      exact ⟨ConstValue_norm v h.1, ConstChildren_norm rest h.2⟩
end

theorem ConstDirectives_norm (ds : List Directive) (h : ConstDirectives ds) : ConstDirectives (ds.map normDir) := by
  intro d hd a ha
  simp only [List.mem_map] at hd
  obtain ⟨d0, hd0, rfl⟩ := hd
  simp only [normDir, List.mem_map] at ha
  obtain ⟨a0, ha0, rfl⟩ := ha
  exact ConstValue_norm _ (h d0 hd0 a0 ha0)

mutual
  theorem WFSelection_norm : ∀ s : Selection, WFSelection s → WFSelection (normSel s)
    | .field al nm args ds sel p, h => by
      simp only [WFSelection, normSel] at h ⊢
      exact WFSelections_norm sel h
    | .spread nm ds p, h => by simpa [WFSelection, normSel] using h
    | .inline tc ds sel p, h => by
      simp only [WFSelection, normSel] at h ⊢
      refine ⟨?_, WFSelections_norm sel h.2⟩
      cases sel with
      | nil => exact absurd rfl h.1
      | cons s rest => simp [normSels]
  theorem WFSelections_norm : ∀ sels : Selections, WFSelections sels → WFSelections (normSels sels)
    | .nil, _ => by simp [normSels, WFSelections]
    | .cons s rest, h => by
      simp only [WFSelections, normSels] at h ⊢
      exact ⟨WFSelection_norm s h.1, WFSelections_norm rest h.2⟩
end

theorem normSels_ne_nil {sel : Selections} (h : sel ≠ .nil) : normSels sel ≠ .nil := by
  cases sel with
  | nil => exact absurd rfl h
  | cons s rest => simp [normSels]

theorem WFVarDef_norm (v : VarDef) (h : WFVarDef v) : WFVarDef (normVarDef v) := by
  obtain ⟨var, type, dflt, dirs, pos⟩ := v
  refine ⟨?_, ConstDirectives_norm _ h.2⟩
  intro d hd
  cases dflt with
  | none => simp [normVarDef] at hd
  | some v0 =>
    simp [normVarDef] at hd
    subst hd
    exact ConstValue_norm v0 (h.1 v0 rfl)

theorem WFOperation_norm (o : OperationDef) (h : WFOperation o) : WFOperation (normOp o) := by
  obtain ⟨h1, h2, h3, h4⟩ := h
  refine ⟨h1, ?_, normSels_ne_nil h3, WFSelections_norm _ h4⟩
  intro v hv
  simp only [normOp, List.mem_map] at hv
  obtain ⟨v0, hv0, rfl⟩ := hv
  exact WFVarDef_norm v0 (h2 v0 hv0)

theorem WFFragment_norm (f : FragmentDef) (h : WFFragment f) : WFFragment (normFrag f) := by
  obtain ⟨h1, h2, h3, h4⟩ := h
  refine ⟨h1, ?_, normSels_ne_nil h3, WFSelections_norm _ h4⟩
  intro v hv
  simp only [normFrag, List.mem_map] at hv
  obtain ⟨v0, hv0, rfl⟩ := hv
  exact WFVarDef_norm v0 (h2 v0 hv0)

/-! ### the canonical unprinted parts -/

mutual
  theorem ValueOK_norm : ∀ v : Value, ValueOK v → ValueOK (normValue v)
    | .mk k raw ch p, h => by
      cases k <;> simp only [ValueOK, normValue, normKind] at h ⊢
      all_goals first
        | (subst h; rfl)
        | (obtain ⟨h1, h2⟩ := h; subst h1; exact ⟨rfl, h2⟩)
        | exact ⟨h.1, ItemsOK_norm ch h.2⟩
        | exact ⟨h.1, FieldsOK_norm ch h.2⟩
  theorem ItemsOK_norm : ∀ ch : Children, ItemsOK ch → ItemsOK (normChildren ch)
    | .nil, _ => by simp [normChildren, ItemsOK]
    | .cons n v p rest, h => by
      simp only [ItemsOK, normChildren] at h ⊢
      exact ⟨h.1, ValueOK_norm v h.2.1, ItemsOK_norm rest h.2.2⟩
  theorem FieldsOK_norm : ∀ ch : Children, FieldsOK ch → FieldsOK (normChildren ch)
    | .nil, _ => by simp [normChildren, FieldsOK]
    | .cons n v p rest, h => by
      simp only [FieldsOK, normChildren] at h ⊢
      exact ⟨ValueOK_norm v h.1, FieldsOK_norm rest h.2⟩
end

theorem ArgsOK_norm (as : List Argument) (h : ArgsOK as) : ArgsOK (as.map normArg) := by
  intro a ha
  simp only [List.mem_map] at ha
  obtain ⟨a0, ha0, rfl⟩ := ha
  exact ValueOK_norm _ (h a0 ha0)

theorem DirsOK_norm (ds : List Directive) (h : DirsOK ds) : DirsOK (ds.map normDir) := by
  intro d hd
  simp only [List.mem_map] at hd
  obtain ⟨d0, hd0, rfl⟩ := hd
  exact ArgsOK_norm _ (h d0 hd0)

mutual
  theorem SelOK_norm : ∀ s : Selection, SelOK s → SelOK (normSel s)
    | .field al nm args ds sel p, h => by
      simp only [SelOK, normSel] at h ⊢
      exact ⟨ArgsOK_norm _ h.1, DirsOK_norm _ h.2.1, SelsOK_norm sel h.2.2⟩
    | .spread nm ds p, h => by
      simp only [SelOK, normSel] at h ⊢
      exact DirsOK_norm _ h
    | .inline tc ds sel p, h => by
      simp only [SelOK, normSel] at h ⊢
      exact ⟨DirsOK_norm _ h.1, SelsOK_norm sel h.2⟩
  theorem SelsOK_norm : ∀ sels : Selections, SelsOK sels → SelsOK (normSels sels)
    | .nil, _ => by simp [normSels, SelsOK]
    | .cons s rest, h => by
      simp only [SelsOK, normSels] at h ⊢
      exact ⟨SelOK_norm s h.1, SelsOK_norm rest h.2⟩
end

theorem VarDefOK_norm (v : VarDef) (h : VarDefOK v) : VarDefOK (normVarDef v) := by
  obtain ⟨var, type, dflt, dirs, pos⟩ := v
  refine ⟨?_, DirsOK_norm _ h.2⟩
  intro d hd
  cases dflt with
  | none => simp [normVarDef] at hd
  | some v0 =>
    simp [normVarDef] at hd
    subst hd
    exact ValueOK_norm v0 (h.1 v0 rfl)

theorem OpOK_norm (o : OperationDef) (h : OpOK o) : OpOK (normOp o) := by
  obtain ⟨h1, h2, h3⟩ := h
  refine ⟨?_, DirsOK_norm _ h2, SelsOK_norm _ h3⟩
  intro v hv
  simp only [normOp, List.mem_map] at hv
  obtain ⟨v0, hv0, rfl⟩ := hv
  exact VarDefOK_norm v0 (h1 v0 hv0)

theorem FragOK_norm (f : FragmentDef) (h : FragOK f) : FragOK (normFrag f) := by
  obtain ⟨h1, h2, h3⟩ := h
  refine ⟨?_, DirsOK_norm _ h2, SelsOK_norm _ h3⟩
  intro v hv
  simp only [normFrag, List.mem_map] at hv
  obtain ⟨v0, hv0, rfl⟩ := hv
  exact VarDefOK_norm v0 (h1 v0 hv0)

/-- the long form of the formatter and the long form of the parse ∘ print theorem are the same list -/
theorem printOperationLong_eq_opLong (o : OperationDef) : printOperationLong o = opLong o := by
  simp [printOperationLong, opLong, List.append_assoc]

end Gql.Format
