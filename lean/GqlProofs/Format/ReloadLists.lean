import GqlProofs.Format.LoadTransfer
import GqlProofs.Schema.WfPerm
/-
  List and association-list lemmas for the reload theorem: finding by a duplicate-free key, the
  directive map `declareDirectives` builds (lookup formula, when it succeeds), association lists with
  the same lookups are permutations of each other.
-/
namespace Gql.Load
open Gql

/-! ### finding by key -/

theorem find?_key_of_mem {α} (key : α → Name) {l : List α} (hn : (l.map key).Nodup) {x : α} (hx : x ∈ l) :
    l.find? (fun y => key y == key x) = some x := by
  induction l with
  | nil => cases hx
  | cons y rest ih =>
    simp only [List.map_cons, List.nodup_cons] at hn
    simp only [List.find?_cons]
    by_cases hk : key y = key x
    · have : y = x := by
        rcases List.mem_cons.mp hx with h | h
        · exact h.symm
        · exact absurd (hk ▸ List.mem_map.mpr ⟨x, h, rfl⟩) hn.1
      simp [hk, this]
    · have hne : (key y == key x) = false := by simp [hk]
      rw [hne]
      rcases List.mem_cons.mp hx with h | h
      · exact absurd (h ▸ rfl) hk
      · exact ih hn.2 h

theorem find?_key_none {α} (key : α → Name) {l : List α} {n : Name} (h : ∀ y ∈ l, key y ≠ n) :
    l.find? (fun y => key y == n) = none := by
  rw [List.find?_eq_none]
  intro y hy
  simpa using h y hy

theorem find?_key_some {α} (key : α → Name) {l : List α} {n : Name} {x : α} (h : l.find? (fun y => key y == n) = some x) :
    x ∈ l ∧ key x = n :=
  ⟨List.mem_of_find?_eq_some h, by simpa using List.find?_some h⟩

/-- from `l₁.map f = l₂.map g`: the elements correspond -/
theorem exists_of_map_eq_left {α β γ} {f : α → γ} {g : β → γ} {l₁ : List α} {l₂ : List β} (h : l₁.map f = l₂.map g)
    {a : α} (ha : a ∈ l₁) : ∃ b ∈ l₂, f a = g b := by
  have : f a ∈ l₂.map g := h ▸ List.mem_map.mpr ⟨a, ha, rfl⟩
  obtain ⟨b, hb, e⟩ := List.mem_map.mp this
  exact ⟨b, hb, e.symm⟩

theorem exists_of_map_eq_right {α β γ} {f : α → γ} {g : β → γ} {l₁ : List α} {l₂ : List β} (h : l₁.map f = l₂.map g)
    {b : β} (hb : b ∈ l₂) : ∃ a ∈ l₁, f a = g b := by
  have : g b ∈ l₁.map f := h ▸ List.mem_map.mpr ⟨b, hb, rfl⟩
  obtain ⟨a, ha, e⟩ := List.mem_map.mp this
  exact ⟨a, ha, e⟩

/-! ### association lists -/

theorem mem_iff_lookup {α} {l : List (Name × α)} (hn : (l.map Prod.fst).Nodup) (k : Name) (v : α) :
    (k, v) ∈ l ↔ l.lookup k = some v :=
  ⟨fun h => lookup_of_mem_nodup hn h, fun h => mem_of_lookup h⟩

theorem nodup_of_keys_nodup {α} {l : List (Name × α)} (hn : (l.map Prod.fst).Nodup) : l.Nodup := by
  induction l with
  | nil => exact List.nodup_nil
  | cons p rest ih =>
    simp only [List.map_cons, List.nodup_cons] at hn ⊢
    exact ⟨fun h => hn.1 (List.mem_map.mpr ⟨p, h, rfl⟩), ih hn.2⟩

/-- two maps with the same lookups hold the same entries -/
theorem perm_of_lookup_eq {α} {l l' : List (Name × α)} (hn : (l.map Prod.fst).Nodup) (hn' : (l'.map Prod.fst).Nodup)
    (h : ∀ n, l'.lookup n = l.lookup n) : l'.Perm l := by
  rw [List.perm_ext_iff_of_nodup (nodup_of_keys_nodup hn') (nodup_of_keys_nodup hn)]
  intro p
  obtain ⟨k, v⟩ := p
  rw [mem_iff_lookup hn', mem_iff_lookup hn, h]

/-! ### `declareDirectives` -/

/-- the entry a run of `declareDirectives` leaves under `n`: the last declaration named `n`, else the old entry -/
def lastNamed (n : Name) (l : List DirectiveDef) (o : Option DirectiveDef) : Option DirectiveDef :=
  l.foldl (fun o dd => if dd.name = n then some dd else o) o

theorem declareDirectives_lookup_last {l : List DirectiveDef} {acc r : List (Name × DirectiveDef)}
    (h : declareDirectives l acc = .ok r) (n : Name) : r.lookup n = lastNamed n l (acc.lookup n) := by
  induction l generalizing acc with
  | nil => simp [declareDirectives] at h; subst h; rfl
  | cons dd rest ih =>
    simp only [declareDirectives] at h
    split at h
    · simp at h
    · rw [ih h, lookup_insertKV]
      simp only [lastNamed, List.foldl_cons]
      by_cases hn : n = dd.name
      · subst hn; simp
      · have : ¬ dd.name = n := fun e => hn e.symm
        simp [hn, this]

theorem declareDirectives_append {a b : List DirectiveDef} {acc r : List (Name × DirectiveDef)}
    (h : declareDirectives (a ++ b) acc = .ok r) :
    ∃ m, declareDirectives a acc = .ok m ∧ declareDirectives b m = .ok r := by
  induction a generalizing acc with
  | nil => exact ⟨acc, rfl, h⟩
  | cons dd rest ih =>
    simp only [List.cons_append, declareDirectives] at h ⊢
    split at h
    · simp at h
    · rename_i hc
      simp only [hc]
      exact ih h

theorem declareDirectives_append_ok {a b : List DirectiveDef} {acc m r : List (Name × DirectiveDef)}
    (h1 : declareDirectives a acc = .ok m) (h2 : declareDirectives b m = .ok r) :
    declareDirectives (a ++ b) acc = .ok r := by
  induction a generalizing acc with
  | nil => simp [declareDirectives] at h1; subst h1; exact h2
  | cons dd rest ih =>
    simp only [List.cons_append, declareDirectives] at h1 ⊢
    split at h1
    · simp at h1
    · rename_i hc
      simp only [hc]
      exact ih h1

/-- a successful run redeclares only the six names the loader lets a user redeclare -/
theorem declareDirectives_ok_cond {l : List DirectiveDef} {acc r : List (Name × DirectiveDef)}
    (h : declareDirectives l acc = .ok r) :
    ∀ dd ∈ l, builtinDirectiveNames.contains dd.name = true ∨ acc.lookup dd.name = none := by
  induction l generalizing acc with
  | nil => intro dd hdd; cases hdd
  | cons d rest ih =>
    simp only [declareDirectives] at h
    split at h
    · simp at h
    · rename_i hc
      intro dd hdd
      rcases List.mem_cons.mp hdd with e | hmem
      · subst e
        cases hb : builtinDirectiveNames.contains dd.name with
        | true => exact Or.inl rfl
        | false =>
          right
          cases hl : acc.lookup dd.name with
          | none => rfl
          | some x => exact absurd (by rw [hl, hb]; rfl) hc
      · rcases ih h dd hmem with h1 | h1
        · exact Or.inl h1
        · right
          rw [lookup_insertKV] at h1
          split at h1
          · cases h1
          · exact h1

theorem declareDirectives_ok_suff {l : List DirectiveDef} {acc : List (Name × DirectiveDef)}
    (hn : (l.map (·.name)).Nodup)
    (hc : ∀ dd ∈ l, builtinDirectiveNames.contains dd.name = true ∨ acc.lookup dd.name = none) :
    ∃ r, declareDirectives l acc = .ok r := by
  induction l generalizing acc with
  | nil => exact ⟨acc, rfl⟩
  | cons d rest ih =>
    simp only [List.map_cons, List.nodup_cons] at hn
    simp only [declareDirectives]
    have hd := hc d (by simp)
    have hcond : ((acc.lookup d.name).isSome && !builtinDirectiveNames.contains d.name) = false := by
      rcases hd with h | h
      · rw [h]; cases (acc.lookup d.name).isSome <;> rfl
      · rw [h]; rfl
    simp only [hcond, Bool.false_eq_true, ↓reduceIte]
    apply ih hn.2
    intro dd hdd
    rcases hc dd (by simp [hdd]) with h | h
    · exact Or.inl h
    · right
      rw [lookup_insertKV]
      have : ¬ dd.name = d.name := fun e => hn.1 (e ▸ List.mem_map.mpr ⟨dd, hdd, rfl⟩)
      simp [this, h]

theorem lastNamed_cases (n : Name) (l : List DirectiveDef) (o : Option DirectiveDef) :
    (lastNamed n l o = o ∧ ∀ dd ∈ l, dd.name ≠ n) ∨ ∃ dd ∈ l, dd.name = n ∧ lastNamed n l o = some dd := by
  induction l generalizing o with
  | nil => left; exact ⟨rfl, fun _ h => by cases h⟩
  | cons d rest ih =>
    simp only [lastNamed, List.foldl_cons]
    by_cases hd : d.name = n
    · simp only [hd, ↓reduceIte]
      rcases ih (some d) with ⟨h1, h2⟩ | ⟨dd, hdd, h1, h2⟩
      · right; exact ⟨d, by simp, hd, h1⟩
      · right; exact ⟨dd, by simp [hdd], h1, h2⟩
    · simp only [hd, ↓reduceIte]
      rcases ih o with ⟨h1, h2⟩ | ⟨dd, hdd, h1, h2⟩
      · left
        refine ⟨h1, ?_⟩
        intro dd hdd
        rcases List.mem_cons.mp hdd with e | e
        · subst e; exact hd
        · exact h2 dd e
      · right; exact ⟨dd, by simp [hdd], h1, h2⟩

theorem lastNamed_of_mem_nodup {n : Name} {l : List DirectiveDef} (hn : (l.map (·.name)).Nodup) {d : DirectiveDef}
    (hd : d ∈ l) (hname : d.name = n) (o : Option DirectiveDef) : lastNamed n l o = some d := by
  rcases lastNamed_cases n l o with ⟨_, h2⟩ | ⟨dd, hdd, h1, h2⟩
  · exact absurd hname (h2 d hd)
  · rw [h2]
    have h3 := find?_key_of_mem (·.name) hn hd
    have h4 := find?_key_of_mem (·.name) hn hdd
    rw [hname] at h3
    rw [h1] at h4
    rw [h3] at h4
    exact h4.symm ▸ rfl

theorem lastNamed_none {n : Name} {l : List DirectiveDef} (h : ∀ dd ∈ l, dd.name ≠ n) (o : Option DirectiveDef) :
    lastNamed n l o = o := by
  rcases lastNamed_cases n l o with ⟨h1, _⟩ | ⟨dd, hdd, h1, _⟩
  · exact h1
  · exact absurd h1 (h dd hdd)

end Gql.Load
