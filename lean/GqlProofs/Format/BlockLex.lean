import GqlModel.Lexer.Model
import GqlProofs.Format.Utf8
/-
  The block-string loop of the lexer model reads a "block-safe" text unchanged: no `"""`, no
  `\"""`, no CR, no control characters other than TAB and LF, well-formed UTF-8.
-/
namespace Gql.Format
open Gql Gql.Lexer

/-- leading quotes of a code point list -/
def quoteRunC : List Nat → Nat
  | 34 :: t => quoteRunC t + 1
  | _ => 0

def tripleAhead : List Nat → Bool
  | 34 :: 34 :: 34 :: _ => true
  | _ => false

def isScalarB (r : Nat) : Bool := decide (r < 0xD800) || (decide (0xE000 ≤ r) && decide (r < 0x110000))

theorem isScalarB_iff (r : Nat) : isScalarB r = true ↔ IsScalar r := by
  simp [isScalarB, IsScalar]

/-- A code point sequence that `readBlockLoop` copies verbatim when it is followed by the closing
    `"""`: scalars only, no control character except TAB/LF (in particular no CR), every quote
    run (also the one that would merge with the closing quotes) shorter than three, no backslash
    directly in front of three quotes. -/
def blockSafe : List Nat → Bool
  | [] => true
  | r :: rest =>
    isScalarB r && (decide (32 ≤ r) || r == 9 || r == 10) &&
    (r != 34 || decide (quoteRunC (r :: rest ++ [34, 34, 34]) < 3)) &&
    (r != 92 || !tripleAhead (rest ++ [34, 34, 34])) && blockSafe rest

theorem utf8Encode_cons (r : Nat) (cps : List Nat) : utf8Encode (r :: cps) = encodeRune r ++ utf8Encode cps := by
  simp [utf8Encode]

/-- the first byte of the encoding of a scalar other than the quote is not the quote -/
theorem encodeRune_head_ne_quote {x : Nat} (hx : IsScalar x) (h : x ≠ 34) :
    ∃ b bs, encodeRune x = b :: bs ∧ b ≠ 34 := by
  by_cases h80 : x < 0x80
  · exact ⟨x, [], encodeRune_ascii h80, h⟩
  · have hh := encodeRune_high hx (by omega)
    have hp := encodeRune_length_pos x
    cases he : encodeRune x with
    | nil => rw [he] at hp; simp at hp
    | cons b bs =>
      rw [he] at hh
      have := hh b (by simp)
      exact ⟨b, bs, rfl, by omega⟩

theorem quoteRun_of_ne {x : Nat} (hx : IsScalar x) (h : x ≠ 34) (Y : Bytes) :
    quoteRun (encodeRune x ++ Y) = 0 := by
  obtain ⟨b, bs, he, hb⟩ := encodeRune_head_ne_quote hx h
  rw [he]
  simp only [List.cons_append]
  unfold quoteRun
  split
  · rename_i heq; simp at heq; exact absurd heq.1 hb
  · rfl

theorem encodeRune_quote : encodeRune 34 = [34] := by decide

/-- closing quotes: a run of exactly three followed by something else ends the block string -/
theorem rbl_close (q : Cur) (R : Bytes) (hR : R.head? ≠ some 34) (c : Cur) (acc : Bytes) :
    readBlockLoop q (34 :: 34 :: 34 :: R) c acc =
      .tok { kind := .blockString, value := blockStringValue acc.reverse, start := q.endR,
             stop := c.endR + 3, line := q.line, col := colOf q.endR q.ls } R (c.adv 3 3) := by
  have hq : quoteRun R = 0 := by
    cases R with
    | nil => rfl
    | cons x xs =>
      unfold quoteRun
      split
      · rename_i heq; simp at heq; simp [heq.1] at hR
      · rfl
  have h3 : quoteRun (34 :: 34 :: 34 :: R) = 3 := by simp [quoteRun, hq]
  conv => lhs; rw [readBlockLoop.eq_def]
  simp [h3]

/-- a quote inside the text (run shorter than three) is copied -/
theorem rbl_quote (q : Cur) (tl : Bytes) (c : Cur) (acc : Bytes) (h : quoteRun (34 :: tl) < 3) :
    readBlockLoop q (34 :: tl) c acc = readBlockLoop q tl (c.adv 1 1) (34 :: acc) := by
  conv => lhs; rw [readBlockLoop.eq_def]
  have : ¬ (quoteRun (34 :: tl) ≥ 3) := by omega
  simp [this, encodeRune_quote]

/-- a backslash that does not start `\"""` is copied -/
theorem rbl_backslash (q : Cur) (tl : Bytes) (c : Cur) (acc : Bytes)
    (h : ∀ tl', tl ≠ 34 :: 34 :: 34 :: tl') :
    readBlockLoop q (92 :: tl) c acc = readBlockLoop q tl (c.adv 1 1) (92 :: acc) := by
  conv => lhs; rw [readBlockLoop.eq_def]
  simp

/-- any other admissible scalar is copied -/
theorem rbl_plain (q : Cur) (r : Nat) (hr : IsScalar r) (h1 : 32 ≤ r ∨ r = 9 ∨ r = 10) (h2 : r ≠ 34)
    (h3 : r ≠ 92) (tl : Bytes) (c : Cur) (acc : Bytes) :
    ∃ c', readBlockLoop q (encodeRune r ++ tl) c acc = readBlockLoop q tl c' ((encodeRune r).reverse ++ acc) := by
  have hd := decodeRune_encodeRune hr tl
  have hp := encodeRune_length_pos r
  by_cases h80 : r < 0x80
  · rw [encodeRune_ascii h80] at hd ⊢
    simp only [List.cons_append, List.nil_append] at hd ⊢
    conv => enter [1, c', 1]; rw [readBlockLoop.eq_def]
    have e0 : ¬ (r = 34 ∧ quoteRun (r :: tl) ≥ 3) := by intro h; exact h2 h.1
    have e1 : ¬ (r < 32 ∧ r ≠ 9 ∧ r ≠ 10 ∧ r ≠ 13) := by omega
    have e2 : r ≠ 13 := by omega
    have e3 : encodeRune r = [r] := encodeRune_ascii h80
    simp only [e0, e1, h3, e2, if_false, hd]
    by_cases h127 : r ≥ 127
    · simp only [h127, if_true, List.length_cons, List.length_nil]
      exact ⟨_, by rw [e3]; rfl⟩
    · simp only [h127, if_false]
      exact ⟨_, by rw [e3]; rfl⟩
  · have hh := encodeRune_high hr (by omega)
    cases he : encodeRune r with
    | nil => rw [he] at hp; simp at hp
    | cons b bs =>
      rw [he] at hd hh
      have hb := hh b (by simp)
      simp only [List.cons_append] at hd ⊢
      conv => enter [1, c', 1]; rw [readBlockLoop.eq_def]
      have e0 : ¬ (b = 34 ∧ quoteRun (b :: (bs ++ tl)) ≥ 3) := by intro h; omega
      have e1 : ¬ (b < 32 ∧ b ≠ 9 ∧ b ≠ 10 ∧ b ≠ 13) := by omega
      have e2 : b ≠ 13 := by omega
      have e3 : b ≠ 92 := by omega
      have e4 : b ≥ 127 := by omega
      have e5 : b ≠ 10 := by omega
      simp only [e0, e1, e3, e2, e4, e5, if_false, if_true, hd, List.length_cons]
      have e6 : (bs ++ tl).drop (bs.length + 1 - 1) = tl := by simp
      rw [e6, ← he]
      exact ⟨_, rfl⟩

theorem blockSafe_scalars : ∀ (cps : List Nat), blockSafe cps = true → ∀ r ∈ cps, IsScalar r
  | [], _, r, hr => by simp at hr
  | x :: xs, h, r, hr => by
    simp only [blockSafe, Bool.and_eq_true] at h
    simp at hr
    rcases hr with rfl | hr
    · exact (isScalarB_iff _).1 h.1.1.1.1
    · exact blockSafe_scalars xs h.2 r hr

/-- quote lookahead on bytes from the lookahead on code points -/
theorem quoteRun_lt_three (rest : List Nat) (hs : ∀ r ∈ rest, IsScalar r) (R : Bytes)
    (h : quoteRunC (34 :: rest ++ [34, 34, 34]) < 3) :
    quoteRun (34 :: (utf8Encode rest ++ 34 :: 34 :: 34 :: R)) < 3 := by
  match rest, hs, h with
  | [], _, h => simp [quoteRunC] at h
  | [34], _, h => simp [quoteRunC] at h
  | 34 :: 34 :: _, _, h => simp [quoteRunC] at h; omega
  | 34 :: y :: t, hs, h =>
    by_cases hy : y = 34
    · subst hy; simp [quoteRunC] at h; omega
    · have hys := hs y (by simp)
      rw [utf8Encode_cons, encodeRune_quote, utf8Encode_cons]
      simp only [List.cons_append, List.nil_append, List.append_assoc, quoteRun]
      rw [quoteRun_of_ne hys hy]; omega
  | x :: t, hs, h =>
    by_cases hx : x = 34
    · subst hx
      match t, hs, h with
      | [], _, h => simp [quoteRunC] at h
      | y :: t', hs, h =>
        by_cases hy : y = 34
        · subst hy; simp [quoteRunC] at h; omega
        · have hys := hs y (by simp)
          rw [utf8Encode_cons, encodeRune_quote, utf8Encode_cons]
          simp only [List.cons_append, List.nil_append, List.append_assoc, quoteRun]
          rw [quoteRun_of_ne hys hy]; omega
    · have hxs := hs x (by simp)
      rw [utf8Encode_cons]
      simp only [List.append_assoc, quoteRun]
      rw [quoteRun_of_ne hxs hx]; omega

/-- backslash lookahead on bytes from the lookahead on code points -/
theorem no_triple_ahead (rest : List Nat) (hs : ∀ r ∈ rest, IsScalar r) (R : Bytes)
    (h : tripleAhead (rest ++ [34, 34, 34]) = false) :
    ∀ tl', utf8Encode rest ++ 34 :: 34 :: 34 :: R ≠ 34 :: 34 :: 34 :: tl' := by
  intro tl' e
  -- the first code point among the first three that is not a quote lies in `rest`
  have key : ∀ (x : Nat) (t : List Nat) (Y : Bytes), IsScalar x → x ≠ 34 →
      ∀ z zs, encodeRune x ++ Y = z :: zs → z ≠ 34 := by
    intro x t Y hx hne z zs hz
    obtain ⟨b, bs, he, hb⟩ := encodeRune_head_ne_quote hx hne
    rw [he] at hz; simp at hz; rw [← hz.1]; exact hb
  match rest, hs, h, e with
  | [], _, h, _ => simp [tripleAhead] at h
  | x :: t, hs, h, e =>
    by_cases hx : x = 34
    · subst hx
      match t, hs, h, e with
      | [], _, h, _ => simp [tripleAhead] at h
      | y :: t', hs, h, e =>
        by_cases hy : y = 34
        · subst hy
          match t', hs, h, e with
          | [], _, h, _ => simp [tripleAhead] at h
          | z :: t'', hs, h, e =>
            by_cases hz : z = 34
            · subst hz; simp [tripleAhead] at h
            · rw [utf8Encode_cons, encodeRune_quote, utf8Encode_cons, encodeRune_quote, utf8Encode_cons] at e
              simp only [List.cons_append, List.nil_append, List.append_assoc, List.cons.injEq, true_and] at e
              cases hz' : encodeRune z ++ (utf8Encode t'' ++ 34 :: 34 :: 34 :: R) with
              | nil => rw [hz'] at e; simp at e
              | cons a as =>
                rw [hz'] at e; simp at e
                exact key z t'' _ (hs z (by simp)) hz a as hz' e.1
        · rw [utf8Encode_cons, encodeRune_quote, utf8Encode_cons] at e
          simp only [List.cons_append, List.nil_append, List.append_assoc, List.cons.injEq, true_and] at e
          cases hy' : encodeRune y ++ (utf8Encode t' ++ 34 :: 34 :: 34 :: R) with
          | nil => rw [hy'] at e; simp at e
          | cons a as =>
            rw [hy'] at e; simp at e
            exact key y t' _ (hs y (by simp)) hy a as hy' e.1
    · rw [utf8Encode_cons] at e
      simp only [List.append_assoc] at e
      exact key x t _ (hs x (by simp)) hx 34 _ e rfl

/-- The block-string loop copies a block-safe text and stops at the closing quotes: the token value
    is `blockStringValue` of what was accumulated plus the text, the remaining input is `R`. -/
theorem rbl_blockSafe (q : Cur) (R : Bytes) (hR : R.head? ≠ some 34) (cps : List Nat)
    (hsafe : blockSafe cps = true) :
    ∀ (c : Cur) (acc : Bytes), ∃ t c',
      readBlockLoop q (utf8Encode cps ++ 34 :: 34 :: 34 :: R) c acc = .tok t R c' ∧
      t.kind = .blockString ∧ t.value = blockStringValue (acc.reverse ++ utf8Encode cps) := by
  induction cps with
  | nil =>
    intro c acc
    have : utf8Encode [] ++ 34 :: 34 :: 34 :: R = 34 :: 34 :: 34 :: R := by simp [utf8Encode]
    rw [this, rbl_close q R hR]
    exact ⟨_, _, rfl, rfl, by simp [utf8Encode]⟩
  | cons r rest ih =>
    intro c acc
    have hsc := blockSafe_scalars _ hsafe
    simp only [blockSafe, Bool.and_eq_true, Bool.or_eq_true, decide_eq_true_eq, beq_iff_eq, bne_iff_ne,
      Bool.not_eq_true'] at hsafe
    obtain ⟨⟨⟨⟨h1, h2⟩, h3⟩, h4⟩, h5⟩ := hsafe
    have ih := ih h5
    have hr : IsScalar r := hsc r (by simp)
    have hrs : ∀ x ∈ rest, IsScalar x := fun x hx => hsc x (by simp [hx])
    rw [utf8Encode_cons, List.append_assoc]
    by_cases hq : r = 34
    · subst hq
      have h3' : quoteRunC (34 :: rest ++ [34, 34, 34]) < 3 := by
        rcases h3 with h3 | h3
        · exact absurd rfl h3
        · exact h3
      rw [encodeRune_quote]
      simp only [List.cons_append, List.nil_append]
      rw [rbl_quote q _ c acc (quoteRun_lt_three rest hrs R h3')]
      obtain ⟨t, c', e1, e2, e3⟩ := ih (c.adv 1 1) (34 :: acc)
      exact ⟨t, c', e1, e2, by rw [e3]; simp⟩
    · by_cases hb : r = 92
      · subst hb
        have h4' : tripleAhead (rest ++ [34, 34, 34]) = false := by
          rcases h4 with h4 | h4
          · exact absurd rfl h4
          · exact h4
        have e92 : encodeRune 92 = [92] := by decide
        rw [e92]
        simp only [List.cons_append, List.nil_append]
        rw [rbl_backslash q _ c acc (no_triple_ahead rest hrs R h4')]
        obtain ⟨t, c', e1, e2, e3⟩ := ih (c.adv 1 1) (92 :: acc)
        exact ⟨t, c', e1, e2, by rw [e3]; simp⟩
      · have h2' : 32 ≤ r ∨ r = 9 ∨ r = 10 := by
          rcases h2 with (h2 | h2) | h2
          · exact Or.inl h2
          · exact Or.inr (Or.inl h2)
          · exact Or.inr (Or.inr h2)
        obtain ⟨c1, e0⟩ := rbl_plain q r hr h2' hq hb (utf8Encode rest ++ 34 :: 34 :: 34 :: R) c acc
        rw [e0]
        obtain ⟨t, c', e1, e2, e3⟩ := ih c1 ((encodeRune r).reverse ++ acc)
        exact ⟨t, c', e1, e2, by rw [e3]; simp⟩

end Gql.Format
