import GqlModel.Syntax.Print
/-
  The token sequence the FORMATTER writes for an executable document, as a variant of the unparser
  `Print.printQuery`.  Two deliberate differences (both are spellings the tree cannot tell apart):

  * `FormatOperationDefinition` always writes the operation keyword, also for an operation that
    could be written in the shorthand form (`{ a }` comes out as `query { a }`):
    `printOperationLong`;
  * `FormatQueryDocument` writes all operations first and then all fragments, whatever the source
    order was: `printQueryLong` does not interleave by position.
-/
namespace Gql.Print
open Gql Gql.Lexer Gql.Grammar

/-- OperationDefinition, never in the shorthand form -/
def printOperationLong (o : OperationDef) : List Tok :=
  tName o.op :: (if o.name = [] then [] else [tName o.name]) ++ printVarDefs o.vars ++ printDirectives o.dirs
    ++ printSelectionSet o.sel

/-- all operations, then all fragments -/
def printQueryLong (d : QueryDoc) : List Tok :=
  (d.ops.map printOperationLong ++ d.frags.map printFragment).flatten

theorem printOperationLong_of_not_bare (o : OperationDef) (h : OperationDef.isBare o = false) :
    printOperationLong o = printOperation o := by
  simp [printOperationLong, printOperation, h]

/-- for an operation in shorthand form the long form has the keyword `query` in front -/
theorem printOperationLong_of_bare (o : OperationDef) (h : OperationDef.isBare o = true) :
    printOperationLong o = tKw "query" :: printOperation o := by
  simp only [OperationDef.isBare, Bool.and_eq_true, beq_iff_eq, List.isEmpty_iff] at h
  obtain ⟨⟨⟨h1, h2⟩, h3⟩, h4⟩ := h
  have hb : OperationDef.isBare o = true := by
    simp [OperationDef.isBare, h1, h2, h3, h4]
  simp [printOperationLong, printOperation, hb, h1, h2, h3, h4, tKw, tName, printVarDefs, printDirectives]

end Gql.Print
