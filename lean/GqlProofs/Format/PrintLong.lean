import GqlModel.Syntax.Print
/-
  The token sequence the FORMATTER writes for an executable document, as a variant of the unparser
  `Print.printQuery`.  Two deliberate differences (both are spellings the tree cannot tell apart):

  * `FormatOperationDefinition` always writes the operation keyword, also for an operation that
    could be written in the shorthand form (`{ a }` comes out as `query { a }`):
    `printOperationLong`;
  * `FormatQueryDocument` writes all operations first and then all fragments, whatever the source
    order was: `printQueryLong` does not interleave by position.
-/
namespace Gql.Print
open Gql Gql.Lexer Gql.Grammar

/-- OperationDefinition, never in the shorthand form -/
def printOperationLong (o : OperationDef) : List Tok :=
  tName o.op :: (if o.name = [] then [] else [tName o.name]) ++ printVarDefs o.vars ++ printDirectives o.dirs
    ++ printSelectionSet o.sel

/-- all operations, then all fragments -/
def printQueryLong (d : QueryDoc) : List Tok :=
  (d.ops.map printOperationLong ++ d.frags.map printFragment).flatten

theorem printOperationLong_of_not_bare (o : OperationDef) (h : OperationDef.isBare o = false) :
    printOperationLong o = printOperation o := by
  simp [printOperationLong, printOperation, h]

/-- for an operation in shorthand form the long form has the keyword `query` in front -/
theorem printOperationLong_of_bare (o : OperationDef) (h : OperationDef.isBare o = true) :
    printOperationLong o = tKw "query" :: printOperation o := by
  simp only [OperationDef.isBare, Bool.and_eq_true, beq_iff_eq, List.isEmpty_iff] at h
  obtain ⟨⟨⟨h1, h2⟩, h3⟩, h4⟩ := h
  have hb : OperationDef.isBare o = true := by
    simp [OperationDef.isBare, h1, h2, h3, h4]
  simp [printOperationLong, printOperation, hb, h1, h2, h3, h4, tKw, tName, printVarDefs, printDirectives]

/-! ### type-system documents

  The unparser of C06 with the Description printer as a parameter `pd` (the formatter writes a
  description as a block string when it can and as a quoted string otherwise, so the token KIND
  differs from `printDesc`, which always gives a String token; the parser reads both alike), and
  with the five definition lists one after the other instead of interleaved by position
  (`FormatSchemaDocument` writes schema definitions, schema extensions, directive definitions,
  type definitions, type extensions, in this order).  With `pd := printDesc` these are the
  functions of `Print` (`printDefinitionD_printDesc` …). -/

def printArgDefD (pd : Bytes → List Tok) (a : ArgDef) : List Tok :=
  pd a.desc ++ tName a.name :: tP .colon :: printType a.type ++ printDefault a.default ++ printDirectives a.dirs

def printArgDefsD (pd : Bytes → List Tok) (as : List ArgDef) : List Tok :=
  if as.isEmpty then [] else tP .parenL :: as.flatMap (printArgDefD pd) ++ [tP .parenR]

def printFieldDefD (pd : Bytes → List Tok) (f : FieldDef) : List Tok :=
  pd f.desc ++ tName f.name :: printArgDefsD pd f.args ++ tP .colon :: printType f.type ++ printDirectives f.dirs

def printInputFieldD (pd : Bytes → List Tok) (f : FieldDef) : List Tok :=
  pd f.desc ++ tName f.name :: tP .colon :: printType f.type ++ printDefault f.default ++ printDirectives f.dirs

def printEnumValD (pd : Bytes → List Tok) (e : EnumValDef) : List Tok :=
  pd e.desc ++ tName e.name :: printDirectives e.dirs

def printDefBodyD (pd : Bytes → List Tok) (d : Definition) : List Tok :=
  match d.kind with
  | .scalar => tName d.name :: printDirectives d.dirs
  | .object => tName d.name :: printImplements d.interfaces ++ printDirectives d.dirs ++ printBlock (printFieldDefD pd) d.fields
  | .interface => tName d.name :: printImplements d.interfaces ++ printDirectives d.dirs ++ printBlock (printFieldDefD pd) d.fields
  | .union => tName d.name :: printDirectives d.dirs ++ printMembers d.types
  | .enum => tName d.name :: printDirectives d.dirs ++ printBlock (printEnumValD pd) d.enumValues
  | .inputObject => tName d.name :: printDirectives d.dirs ++ printBlock (printInputFieldD pd) d.fields

def printDefinitionD (pd : Bytes → List Tok) (d : Definition) : List Tok :=
  pd d.desc ++ DefKind.keyword d.kind :: printDefBodyD pd d

def printExtensionD (pd : Bytes → List Tok) (d : Definition) : List Tok :=
  tKw "extend" :: DefKind.keyword d.kind :: printDefBodyD pd d

def printSchemaDefD (pd : Bytes → List Tok) (s : SchemaDef) : List Tok :=
  pd s.desc ++ tKw "schema" :: printDirectives s.dirs ++ tP .braceL :: s.opTypes.flatMap printOpType ++ [tP .braceR]

def printDirectiveDefD (pd : Bytes → List Tok) (d : DirectiveDef) : List Tok :=
  pd d.desc ++ tKw "directive" :: tP .at :: tName d.name :: printArgDefsD pd d.args
    ++ (if d.repeatable then [tKw "repeatable"] else []) ++ tKw "on" :: printSep .pipe d.locations

/-- the five lists one after the other -/
def printSchemaLongD (pd : Bytes → List Tok) (d : SchemaDoc) : List Tok :=
  (d.schema.map (printSchemaDefD pd) ++ d.schemaExt.map printSchemaExt ++ d.directives.map (printDirectiveDefD pd)
    ++ d.definitions.map (printDefinitionD pd) ++ d.extensions.map (printExtensionD pd)).flatten

theorem printArgDefD_printDesc : printArgDefD printDesc = printArgDef := rfl
theorem printArgDefsD_printDesc : printArgDefsD printDesc = printArgDefs := rfl
theorem printFieldDefD_printDesc : printFieldDefD printDesc = printFieldDef := rfl
theorem printInputFieldD_printDesc : printInputFieldD printDesc = printInputField := rfl
theorem printEnumValD_printDesc : printEnumValD printDesc = printEnumVal := rfl
theorem printDefBodyD_printDesc : printDefBodyD printDesc = printDefBody := rfl
theorem printDefinitionD_printDesc : printDefinitionD printDesc = printDefinition := rfl
theorem printExtensionD_printDesc : printExtensionD printDesc = printExtension := rfl
theorem printSchemaDefD_printDesc : printSchemaDefD printDesc = printSchemaDef := rfl
theorem printDirectiveDefD_printDesc : printDirectiveDefD printDesc = printDirectiveDef := rfl

end Gql.Print
