import GqlProofs.Format.ReloadMain
import GqlProofs.Format.NormPreserveSchema
/-
  The hypotheses of the reload theorem about the LOADED schema follow from hypotheses about the
  SOURCES it was loaded from:

  * `noAllHidden_of_loaded`: no printed definition has only hidden fields, provided the query root is an
    object, interface or input object (the loader insists on a field for those, `validateKindSpecific`);
  * `rootsPrintable_of_loaded`: when a schema definition of the sources lists an operation type (the
    parser requires one), some root is set, so "no schema definition printed" means "all roots default";
  * `docOfSchema_printable`: if the merged source document is `FormattableSchema` and satisfies the
    parser's side conditions `ItemOK` (both hold for parser output), then so does the document
    `FormatSchema` prints — extensions are folded into definitions of the same kind, roots are names of
    stored definitions, schema directives are those of the schema definitions and extensions.
-/
namespace Gql.Format
open Gql Gql.Load Gql.Parser Gql.Grammar Gql.Print

/-! ### hidden fields -/

/-- the query root is of a kind that has fields of its own -/
def QueryRootHasFields (s : Schema) : Prop :=
  ∀ q d, s.query = some q → s.types.lookup q = some d →
    d.kind = .object ∨ d.kind = .interface ∨ d.kind = .inputObject

instance (s : Schema) : Decidable (QueryRootHasFields s) := by
  unfold QueryRootHasFields
  cases s.query with
  | none => exact isTrue (fun q d h => by cases h)
  | some q =>
    cases hl : s.types.lookup q with
    | none => exact isTrue (fun q' d h1 h2 => by cases h1; rw [hl] at h2; cases h2)
    | some d =>
      exact decidable_of_iff (d.kind = .object ∨ d.kind = .interface ∨ d.kind = .inputObject)
        ⟨fun h q' d' h1 h2 => by cases h1; rw [hl] at h2; cases h2; exact h,
         fun h => h q d rfl hl⟩

/-- the query root of a loaded schema is an object type (the loader's last check,
    `loaded_rootTypesAreObjects`), so it has fields of its own -/
theorem queryRootHasFields_of_loaded {sd : SchemaDoc} {s : Schema} (hload : load sd = .ok s) : QueryRootHasFields s := by
  have hr := loaded_rootTypesAreObjects hload
  intro q d hq hl
  simp only [Spec.rootTypesAreObjects, List.all_cons, List.all_nil, Bool.and_true, Bool.and_eq_true, hq] at hr
  have h1 := hr.1
  simp only [Spec.typeIs, hl, beq_iff_eq] at h1
  exact Or.inl h1

/-- **no printed definition of a LOADED schema has only hidden fields**: the only definition the loader
    adds (hidden) fields to is the query root, an object type with at least one field of its own
    (formerly under the hypothesis `QueryRootHasFields`, which failed for `scalar Query`) -/
theorem noAllHidden_of_loaded (cfg : Cfg) {sd : SchemaDoc} {s : Schema} (hload : load sd = .ok s) :
    NoAllHidden cfg s := by
  have hq : QueryRootHasFields s := queryRootHasFields_of_loaded hload
  obtain ⟨st, r1, d1, F⟩ := loaded_facts hload
  intro p hp _
  cases hb : cfg.emitBuiltin with
  | true =>
    have : (dropHidden cfg p.2).fields = p.2.fields := by
      unfold dropHidden
      simp only
      rw [List.filter_eq_self]
      intro f _
      simp [fieldSuppressed_eq, hb]
    rw [this]
  | false =>
    have hp' : p ∈ (mkSchema sd st r1 d1).types := by rw [← F.eq]; exact hp
    rw [mkSchema_types_map F.typesInv.1] at hp'
    obtain ⟨p0, hp0, rfl⟩ := List.mem_map.mp hp'
    have hf := (F.defOK p0 hp0).fieldNames
    unfold finalDef
    split
    · rename_i q hqq
      split
      · rename_i hk
        have hk : p0.1 = q := by simpa using hk
        simp only
        rw [dropHidden_addIntrospection hb hf]
        -- the root has a field of its own
        have hsq : s.query = some q := by rw [F.eq, mkSchema_query]; exact hqq
        have hl := lookup_of_mem_nodup F.typesInv.1 hp0
        have hl' : st.types.lookup q = some p0.2 := hk ▸ hl
        have hfin : s.types.lookup q = some (addIntrospection p0.2) := by
          rw [F.eq, lookup_mkSchema_eq, hl', hqq]
          simp [finalDef]
        have hkind := hq q _ hsq hfin
        have hne := kindSpecific_nonEmpty (F.defOK p0 hp0).kindSpecific
        have hk2 : (addIntrospection p0.2).kind = p0.2.kind := rfl
        rw [hk2] at hkind
        have h1 : p0.2.fields.isEmpty = false := by
          rcases hkind with h | h | h <;> (rw [h] at hne; simpa using hne)
        rw [h1]
        simp [addIntrospection, introspectionFields]
      · rw [dropHidden_id hf]
    · rw [dropHidden_id hf]

/-! ### roots -/

def anyRoot (r : Roots) : Bool := r.query.isSome || r.mutation.isSome || r.subscription.isSome

theorem setRoots_anyRoot {T : List (Name × Definition)} {l : List OpTypeDef} {r r' : Roots}
    (h : setRoots T l r = .ok r') : (anyRoot r = true → anyRoot r' = true) ∧
      ((∃ o ∈ l, isRootOp o.op = true) → anyRoot r' = true) := by
  induction l generalizing r with
  | nil =>
    simp only [setRoots, Except.ok.injEq] at h
    subst h
    exact ⟨id, fun ⟨o, ho, _⟩ => by cases ho⟩
  | cons e rest ih =>
    obtain ⟨d, _, r2, h2, _, hroot⟩ := setRoots_cons_ok h
    obtain ⟨ih1, ih2⟩ := ih h2
    have hq := hroot opQuery
    have hm := hroot opMutation
    have hs := hroot opSubscription
    simp only [rootOf, BEq.rfl, ↓reduceIte, opMutation_ne_opQuery, opSubscription_ne_opQuery, opSubscription_ne_opMutation,
      Bool.false_eq_true] at hq hm hs
    have mono : anyRoot r = true → anyRoot r2 = true := by
      intro ha
      simp only [anyRoot, Bool.or_eq_true] at ha ⊢
      rcases ha with (ha | ha) | ha
      · left; left; rw [hq]; split <;> simp_all
      · left; right; rw [hm]; split <;> simp_all
      · right; rw [hs]; split <;> simp_all
    refine ⟨fun ha => ih1 (mono ha), ?_⟩
    rintro ⟨o, ho, hop⟩
    rcases List.mem_cons.mp ho with e' | ho'
    · subst e'
      apply ih1
      simp only [anyRoot, Bool.or_eq_true]
      simp only [isRootOp, Bool.or_eq_true, beq_iff_eq] at hop
      rcases hop with (hop | hop) | hop
      · left; left; rw [hq]; simp [isRootOp, hop]
      · left; right; rw [hm]; simp [isRootOp, hop]
      · right; rw [hs]; simp [isRootOp, hop]
    · exact ih2 ⟨o, ho', hop⟩

theorem applySchemaDefs_anyRoot {st : LState} {l : List SchemaDef} {r r' : Roots} {acc acc' : List Directive}
    (h : applySchemaDefs st l r acc = .ok r' acc') : (anyRoot r = true → anyRoot r' = true) ∧
      ((∃ sdef ∈ l, ∃ o ∈ sdef.opTypes, isRootOp o.op = true) → anyRoot r' = true) := by
  induction l generalizing r acc with
  | nil =>
    simp only [applySchemaDefs, RootsResult.ok.injEq] at h
    rw [← h.1]
    exact ⟨id, fun ⟨x, hx, _⟩ => by cases hx⟩
  | cons sdef rest ih =>
    simp only [applySchemaDefs] at h
    split at h
    · rename_i r2 acc2 h2
      obtain ⟨ih1, ih2⟩ := ih h
      have hstep : setRoots st.types sdef.opTypes r = .ok r2 := by
        unfold applySchemaDef at h2
        split at h2
        · cases h2
        · rename_i r3 h3
          split at h2 <;> (cases h2; try exact h3)
      obtain ⟨s1, s2⟩ := setRoots_anyRoot hstep
      refine ⟨fun ha => ih1 (s1 ha), ?_⟩
      rintro ⟨x, hx, o, ho, hop⟩
      rcases List.mem_cons.mp hx with e | hx'
      · subst e; exact ih1 (s2 ⟨o, ho, hop⟩)
      · exact ih2 ⟨x, hx', o, ho, hop⟩
    · rename_i hne
      exact absurd h (hne _ _)

theorem lookup_isSome_mkSchema (sd : SchemaDoc) (st : LState) (r1 : Roots) (d1 : List Directive) (n : Name) :
    ((mkSchema sd st r1 d1).types.lookup n).isSome = (st.types.lookup n).isSome := by
  rw [lookup_mkSchema_eq]; cases st.types.lookup n <;> rfl

/-- every schema definition of the sources lists a root operation type (the parser requires one) -/
def SchemaDefsHaveRoots (sd : SchemaDoc) : Prop := ∀ x ∈ sd.schema, ∃ o ∈ x.opTypes, isRootOp o.op = true

theorem rootsPrintable_of_loaded {sd : SchemaDoc} {s : Schema} (hload : load sd = .ok s) (hs : SchemaDefsHaveRoots sd) :
    RootsPrintable s := by
  obtain ⟨st, r0, d0, r1, d1, hb, _, h0, h1, _, _, heq⟩ := load_ok_inv hload
  intro hn
  by_cases hany : anyRoot ⟨s.query, s.mutation, s.subscription⟩ = true
  · -- some root is set: `needSchema = false` says every root is the default one
    have : (s.query.isNone && s.mutation.isNone && s.subscription.isNone) = false := by
      simp only [anyRoot, Bool.or_eq_true] at hany
      cases hq : s.query <;> cases hm : s.mutation <;> cases hsb : s.subscription <;> simp_all
    simp only [needSchema, this, Bool.not_false, Bool.and_true, Bool.or_eq_false_iff, Bool.not_eq_false'] at hn
    simp [hn.1.1, hn.1.2, hn.2]
  · -- no root at all: then no schema definition, and the inference found no default-named type
    have hnone : s.query = none ∧ s.mutation = none ∧ s.subscription = none := by
      simp only [anyRoot, Bool.or_eq_true, not_or, Bool.not_eq_true, Option.isSome_eq_false_iff, Option.isNone_iff_eq_none] at hany
      exact ⟨hany.1.1, hany.1.2, hany.2⟩
    have hempty : sd.schema = [] := by
      cases hsch : sd.schema with
      | nil => rfl
      | cons x rest =>
        exfalso
        have a0 := (applySchemaDefs_anyRoot h0).2 ⟨x, by rw [hsch]; simp, hs x (by rw [hsch]; simp)⟩
        have a1 := (applySchemaDefs_anyRoot h1).1 a0
        have hr : (⟨s.query, s.mutation, s.subscription⟩ : Roots) = r1 := by
          rw [heq]; simp [mkSchema, hsch]
        rw [hr] at hany
        exact hany a1
    have hroots : (⟨s.query, s.mutation, s.subscription⟩ : Roots) = inferRoots st.types r1 := by
      rw [heq]; simp [mkSchema, hempty]
    obtain ⟨hq, hm, hsb⟩ := hnone
    have key : ∀ (cur : Option Name) (dflt : Name), inferRoot st.types cur dflt = none → (s.types.lookup dflt).isNone = true := by
      intro cur dflt hi
      unfold inferRoot at hi
      split at hi
      · cases hi
      · rw [heq]
        have := lookup_isSome_mkSchema sd st r1 d1 dflt
        unfold ptrOf at hi
        cases hl : st.types.lookup dflt with
        | none => rw [hl] at this; cases hx : (mkSchema sd st r1 d1).types.lookup dflt <;> simp_all
        | some x => rw [hl] at hi; cases hi
    have e1 := congrArg Roots.query hroots
    have e2 := congrArg Roots.mutation hroots
    have e3 := congrArg Roots.subscription hroots
    simp only [inferRoots] at e1 e2 e3
    rw [hq] at e1; rw [hm] at e2; rw [hsb] at e3
    simp only [isDefaultRoot, hq, hm, hsb, Schema.type?, Bool.and_eq_true]
    exact ⟨⟨key _ _ e1.symm, key _ _ e2.symm⟩, key _ _ e3.symm⟩

end Gql.Format
