import GqlModel.Format.Model
import GqlModel.Schema.Model
/-
  `FormatSchema` (loaded schemas) prints a DOCUMENT: `docOfSchema cfg s` is the schema document
  whose `FormatSchemaDocument` text is, byte for byte, the `FormatSchema` text of `s`.

  * `docOfSchemaRaw s`: the schema definition exactly when the model decides to write one
    (`needSchema`), with the root operation types that are set, in the order query, mutation,
    subscription, and with the schema directives; otherwise — when there are schema directives —
    ONE `extend schema @…`; the directive definitions and the type definitions sorted by name (the
    values of the Go maps in the order of `sort.Strings(keys)`); no extensions.
    `formatSchema_eq_raw`: the two formatter entry points produce the same writer state, for every
    configuration and every schema (no hypothesis).
  * `docOfSchema cfg s`: the same document without the fields the formatter hides (`__schema`, `__type`:
    `__`-name and no position, unless `WithBuiltin`).  The text is the same PROVIDED no printed
    definition loses ALL its fields (`NoAllHidden`): a definition with fields that are all hidden is
    printed with an empty block `{` `}` — `scalar Query` USED TO BE a loaded schema where this happens
    (the loader appended the introspection fields to whatever type was the query root; since the repair
    of the root kinds the query root is an object type and `NoAllHidden` holds of every loaded schema,
    `noAllHidden_of_loaded`); see `C13_schema_hidden_fields_rejected`.
-/
namespace Gql.Format
open Gql

/-- the root operation types that are set, in the formatter's order -/
def rootOpType (kw : Bytes) : Option Name → List OpTypeDef
  | some n => [{ op := kw, type := n, pos := Pos.zero }]
  | none => []

def rootOpTypes (s : Schema) : List OpTypeDef :=
  rootOpType (str "query") s.query ++ rootOpType (str "mutation") s.mutation ++
    rootOpType (str "subscription") s.subscription

/-- the document `FormatSchema` prints, hidden fields still inside -/
def docOfSchemaRaw (s : Schema) : SchemaDoc :=
  { schema := if needSchema s then [{ desc := [], dirs := s.schemaDirectives, opTypes := rootOpTypes s, pos := Pos.zero }] else [],
    schemaExt := if !needSchema s && !s.schemaDirectives.isEmpty then
        [{ desc := [], dirs := s.schemaDirectives, opTypes := [], pos := Pos.zero }] else [],
    directives := sortedByKey s.directives,
    definitions := sortedByKey s.types,
    extensions := [] }

/-- a definition without the fields `FormatFieldDefinition` hides -/
def dropHidden (cfg : Cfg) (d : Definition) : Definition :=
  { d with fields := d.fields.filter fun f => !fieldSuppressed cfg.emitBuiltin f.name f.pos }

/-- the document `FormatSchema` prints -/
def docOfSchema (cfg : Cfg) (s : Schema) : SchemaDoc :=
  { docOfSchemaRaw s with definitions := (sortedByKey s.types).map (dropHidden cfg) }

/-- no printed definition has fields that are ALL hidden -/
def NoAllHidden (cfg : Cfg) (s : Schema) : Prop :=
  ∀ p ∈ s.types, (cfg.emitBuiltin = true ∨ p.2.builtIn = false) →
    (dropHidden cfg p.2).fields.isEmpty = p.2.fields.isEmpty

instance (cfg : Cfg) (s : Schema) : Decidable (NoAllHidden cfg s) := by unfold NoAllHidden; infer_instance

/-! ### indentation does not matter away from a line head -/

section Indent
variable (cfg : Cfg)

/-- `f` neither reads the indentation nor leaves the line: it commutes with `incIndent` -/
def IndentFree (f : W → W) : Prop :=
  ∀ w : W, w.lineHead = false → (f w).lineHead = false ∧ f (incIndent w) = incIndent (f w)

theorem IndentFree.comp {f g : W → W} (hf : IndentFree f) (hg : IndentFree g) : IndentFree (fun w => g (f w)) := by
  intro w hw
  obtain ⟨h1, h2⟩ := hf w hw
  obtain ⟨h3, h4⟩ := hg (f w) h1
  exact ⟨h3, by simp only [h2, h4]⟩

theorem IndentFree.id : IndentFree (fun w => w) := fun _ hw => ⟨hw, rfl⟩

theorem indentFree_writeWord (x : Bytes) : IndentFree (writeWord cfg x) := by
  intro w hw
  obtain ⟨ch, n, p, lh⟩ := w
  simp only at hw; subst hw
  cases p <;> simp [writeWord, incIndent, W.raw]

theorem indentFree_writeStr (x : Bytes) : IndentFree (writeStr cfg x) := by
  intro w hw
  obtain ⟨ch, n, p, lh⟩ := w
  simp only at hw; subst hw
  cases p <;> simp [writeStr, incIndent, W.raw]

theorem indentFree_noPadding : IndentFree noPadding := by
  intro w hw; exact ⟨hw, rfl⟩

theorem indentFree_needPadding : IndentFree needPadding := by
  intro w hw; exact ⟨hw, rfl⟩

theorem indentFree_formatArgument (a : Argument) : IndentFree (formatArgument cfg a) := by
  unfold formatArgument
  exact ((((((indentFree_writeWord cfg a.name).comp indentFree_noPadding).comp (indentFree_writeStr cfg [58])).comp
    indentFree_needPadding).comp (indentFree_writeStr cfg _)))

theorem indentFree_formatArguments : ∀ as : List Argument, IndentFree (formatArguments cfg as)
  | [] => by
    have : formatArguments cfg [] = fun w => w := by funext w; simp [formatArguments]
    rw [this]; exact IndentFree.id
  | [a] => by
    have : formatArguments cfg [a] = formatArgument cfg a := by funext w; simp [formatArguments]
    rw [this]; exact indentFree_formatArgument cfg a
  | a :: b :: rest => by
    have : formatArguments cfg (a :: b :: rest) =
        fun w => formatArguments cfg (b :: rest) (writeWord cfg [44] (noPadding (formatArgument cfg a w))) := by
      funext w; simp [formatArguments]
    rw [this]
    exact (((indentFree_formatArgument cfg a).comp indentFree_noPadding).comp (indentFree_writeWord cfg [44])).comp
      (indentFree_formatArguments (b :: rest))

theorem indentFree_formatArgumentList (as : List Argument) : IndentFree (formatArgumentList cfg as) := by
  by_cases h : as.isEmpty = true
  · have : formatArgumentList cfg as = fun w => w := by funext w; simp [formatArgumentList, h]
    rw [this]; exact IndentFree.id
  · have : formatArgumentList cfg as =
        fun w => needPadding (writeStr cfg [41] (formatArguments cfg as (writeStr cfg [40] (noPadding w)))) := by
      funext w; simp [formatArgumentList, h]
    rw [this]
    exact (((indentFree_noPadding.comp (indentFree_writeStr cfg [40])).comp (indentFree_formatArguments cfg as)).comp
      (indentFree_writeStr cfg [41])).comp indentFree_needPadding

theorem indentFree_formatDirective (d : Directive) : IndentFree (formatDirective cfg d) := by
  unfold formatDirective
  exact ((indentFree_writeStr cfg [64]).comp (indentFree_writeWord cfg d.name)).comp
    (indentFree_formatArgumentList cfg d.args)

theorem indentFree_formatDirectiveList (ds : List Directive) : IndentFree (formatDirectiveList cfg ds) := by
  induction ds with
  | nil =>
    have : formatDirectiveList cfg [] = fun w => w := by funext w; simp [formatDirectiveList]
    rw [this]; exact IndentFree.id
  | cons d rest ih =>
    have : formatDirectiveList cfg (d :: rest) = fun w => formatDirectiveList cfg rest (formatDirective cfg d w) := by
      funext w; simp [formatDirectiveList]
    rw [this]
    exact (indentFree_formatDirective cfg d).comp ih

theorem decIndent_incIndent (w : W) : decIndent (incIndent w) = w := by
  obtain ⟨ch, n, p, lh⟩ := w
  simp [decIndent, incIndent]

/-- the directives of the `schema` line: written inside `incIndent … decIndent` by
    `FormatSchemaDefinitionList`, plainly by `FormatSchema` -/
theorem directives_indented (ds : List Directive) (w : W) (hw : w.lineHead = false) :
    decIndent (formatDirectiveList cfg ds (incIndent w)) = formatDirectiveList cfg ds w := by
  rw [(indentFree_formatDirectiveList cfg ds w hw).2, decIndent_incIndent]

end Indent

/-! ### the schema definition -/

theorem writeWord_lineHead (cfg : Cfg) (x : Bytes) (w : W) : (writeWord cfg x w).lineHead = false := by
  obtain ⟨ch, n, p, lh⟩ := w
  cases p <;> cases lh <;> simp [writeWord, writeIndent, W.raw]

theorem rootLine (cfg : Cfg) (kw n : Bytes) (w : W) :
    formatOperationTypeDefinition cfg { op := kw, type := n, pos := Pos.zero } w =
      (w |> writeWord cfg kw |> noPadding |> writeStr cfg [58] |> needPadding |> writeWord cfg n |> writeNewline) := rfl

/-- `FormatSchemaDefinitionList` on the one definition of `docOfSchemaRaw` -/
theorem schemaDefinitionList_one (cfg : Cfg) (dirs : List Directive) (ops : List OpTypeDef) (w : W) :
    formatSchemaDefinitionList cfg false [{ desc := [], dirs := dirs, opTypes := ops, pos := Pos.zero }] w =
      writeNewline (writeStr cfg [125] (decIndent (ops.foldl (fun w o => formatOperationTypeDefinition cfg o w)
        (incIndent (writeNewline (writeStr cfg [123]
          (formatDirectiveList cfg dirs (writeWord cfg (str "schema") w)))))))) := by
  have hd := directives_indented cfg dirs (writeWord cfg (str "schema") w) (writeWord_lineHead _ _ _)
  simp [formatSchemaDefinitionList, writeDescription, hd]

theorem schemaExtensionList_one (cfg : Cfg) (dirs : List Directive) (w : W) :
    formatSchemaDefinitionList cfg true [{ desc := [], dirs := dirs, opTypes := [], pos := Pos.zero }] w =
      writeNewline (formatDirectiveList cfg dirs (writeWord cfg (str "schema") (writeWord cfg (str "extend") w))) := by
  have hd := directives_indented cfg dirs (writeWord cfg (str "schema") (writeWord cfg (str "extend") w))
    (writeWord_lineHead _ _ _)
  simp [formatSchemaDefinitionList, writeDescription, hd, isSchemaDefinitionsEmpty]

/-- the head of `FormatSchema`: the schema definition, or the schema extension, or nothing -/
def schemaHead (cfg : Cfg) (s : Schema) (w : W) : W :=
  let st := (w, false)
    |> formatRoot cfg s (str "query") s.query
    |> formatRoot cfg s (str "mutation") s.mutation
    |> formatRoot cfg s (str "subscription") s.subscription
  if st.2 then st.1 |> decIndent |> writeStr cfg [125] |> writeNewline
  else if !s.schemaDirectives.isEmpty then
    st.1 |> writeWord cfg (str "extend") |> writeWord cfg (str "schema")
      |> formatDirectiveList cfg s.schemaDirectives |> writeNewline
  else st.1

theorem formatSchema_eq_head (cfg : Cfg) (s : Schema) (w : W) (b : Nat → Bool) :
    formatSchema cfg s w b =
      (sortedByKey s.types).foldl (fun w d => formatDefinition cfg false d w)
        ((sortedByKey s.directives).foldl (fun w d => formatDirectiveDefinition cfg b d w) (schemaHead cfg s w)) := by
  simp [formatSchema, schemaHead, schemaDescriptionPrinted]

theorem needSchema_some_root {s : Schema} (h : needSchema s = true) :
    s.query.isSome = true ∨ s.mutation.isSome = true ∨ s.subscription.isSome = true := by
  simp only [needSchema, Bool.and_eq_true, Bool.not_eq_true', Bool.and_eq_false_imp] at h
  cases hq : s.query <;> cases hm : s.mutation <;> cases hs : s.subscription <;> simp_all

theorem schemaHead_eq (cfg : Cfg) (s : Schema) (w : W) :
    schemaHead cfg s w =
      formatSchemaDefinitionList cfg true (docOfSchemaRaw s).schemaExt
        (formatSchemaDefinitionList cfg false (docOfSchemaRaw s).schema w) := by
  cases hn : needSchema s with
  | false =>
    have h1 : (docOfSchemaRaw s).schema = [] := by simp [docOfSchemaRaw, hn]
    rw [h1]
    by_cases hd : s.schemaDirectives.isEmpty = true
    · have h2 : (docOfSchemaRaw s).schemaExt = [] := by simp [docOfSchemaRaw, hn, hd]
      rw [h2]
      simp [schemaHead, formatRoot, hn, hd, formatSchemaDefinitionList]
    · have h2 : (docOfSchemaRaw s).schemaExt = [{ desc := [], dirs := s.schemaDirectives, opTypes := [], pos := Pos.zero }] := by
        simp [docOfSchemaRaw, hn, hd]
      rw [h2, schemaExtensionList_one]
      simp [schemaHead, formatRoot, hn, hd, formatSchemaDefinitionList]
  | true =>
    have h1 : (docOfSchemaRaw s).schema =
        [{ desc := [], dirs := s.schemaDirectives, opTypes := rootOpTypes s, pos := Pos.zero }] := by
      simp [docOfSchemaRaw, hn]
    have h2 : (docOfSchemaRaw s).schemaExt = [] := by simp [docOfSchemaRaw, hn]
    rw [h1, h2, schemaDefinitionList_one]
    have hr := needSchema_some_root hn
    cases hq : s.query <;> cases hm : s.mutation <;> cases hs : s.subscription <;>
      simp [hq, hm, hs] at hr <;>
      simp [schemaHead, formatRoot, hn, hq, hm, hs, rootOpTypes, rootOpType, formatSchemaDefinitionList,
        formatOperationTypeDefinition]

/-- **`FormatSchema` = `FormatSchemaDocument` of `docOfSchemaRaw`**, as writer states -/
theorem formatSchema_eq_raw (cfg : Cfg) (s : Schema) (w : W) (b : Nat → Bool) :
    formatSchema cfg s w b = formatSchemaDocument cfg (docOfSchemaRaw s) w b := by
  rw [formatSchema_eq_head, schemaHead_eq]
  simp [formatSchemaDocument, formatDefinitionList, docOfSchemaRaw]

/-! ### hidden fields -/

theorem foldl_fields_hidden (cfg : Cfg) (fs : List FieldDef) (w : W) :
    (fs.filter fun f => !fieldSuppressed cfg.emitBuiltin f.name f.pos).foldl (fun w f => formatFieldDefinition cfg f w) w
      = fs.foldl (fun w f => formatFieldDefinition cfg f w) w := by
  induction fs generalizing w with
  | nil => rfl
  | cons f rest ih =>
    cases hf : fieldSuppressed cfg.emitBuiltin f.name f.pos with
    | true =>
      have : formatFieldDefinition cfg f w = w := by simp [formatFieldDefinition, hf]
      simp [List.filter_cons, hf, this, ih]
    | false => simp [List.filter_cons, hf, ih]

theorem formatFieldList_hidden (cfg : Cfg) (d : Definition)
    (h : (dropHidden cfg d).fields.isEmpty = d.fields.isEmpty) (w : W) :
    formatFieldList cfg (dropHidden cfg d).fields w = formatFieldList cfg d.fields w := by
  unfold formatFieldList
  rw [h]
  split
  · rfl
  · simp only [dropHidden, foldl_fields_hidden]

theorem formatDefinition_hidden (cfg : Cfg) (ext : Bool) (d : Definition)
    (h : (cfg.emitBuiltin = true ∨ d.builtIn = false) → (dropHidden cfg d).fields.isEmpty = d.fields.isEmpty) (w : W) :
    formatDefinition cfg ext (dropHidden cfg d) w = formatDefinition cfg ext d w := by
  unfold formatDefinition
  have hb : (dropHidden cfg d).builtIn = d.builtIn := rfl
  rw [hb]
  split
  · rfl
  · rename_i hc
    have hc' : cfg.emitBuiltin = true ∨ d.builtIn = false := by
      cases he : cfg.emitBuiltin <;> cases hbi : d.builtIn <;> simp_all
    simp only [formatFieldList_hidden cfg d (h hc')]
    rfl

theorem foldl_definitions_hidden (cfg : Cfg) (ds : List Definition)
    (h : ∀ d ∈ ds, (cfg.emitBuiltin = true ∨ d.builtIn = false) → (dropHidden cfg d).fields.isEmpty = d.fields.isEmpty)
    (w : W) :
    (ds.map (dropHidden cfg)).foldl (fun w d => formatDefinition cfg false d w) w
      = ds.foldl (fun w d => formatDefinition cfg false d w) w := by
  induction ds generalizing w with
  | nil => rfl
  | cons d rest ih =>
    simp only [List.map_cons, List.foldl_cons]
    rw [formatDefinition_hidden cfg false d (h d (by simp)), ih (fun d' hd' => h d' (by simp [hd']))]

theorem mem_sortedByKey {α} (m : List (Name × α)) (x : α) : x ∈ sortedByKey m ↔ ∃ p ∈ m, p.2 = x := by
  unfold sortedByKey
  simp only [List.mem_map]
  constructor
  · rintro ⟨p, hp, rfl⟩; exact ⟨p, (List.mergeSort_perm _ _).mem_iff.mp hp, rfl⟩
  · rintro ⟨p, hp, rfl⟩; exact ⟨p, (List.mergeSort_perm _ _).mem_iff.mpr hp, rfl⟩

/-- **`FormatSchema` = `FormatSchemaDocument` of `docOfSchema cfg`** when no definition loses all its fields -/
theorem formatSchema_eq_doc (cfg : Cfg) (s : Schema) (h : NoAllHidden cfg s) (w : W) (b : Nat → Bool) :
    formatSchema cfg s w b = formatSchemaDocument cfg (docOfSchema cfg s) w b := by
  rw [formatSchema_eq_raw]
  have hdefs : ∀ d ∈ sortedByKey s.types, (cfg.emitBuiltin = true ∨ d.builtIn = false) →
      (dropHidden cfg d).fields.isEmpty = d.fields.isEmpty := by
    intro d hd
    obtain ⟨p, hp, rfl⟩ := (mem_sortedByKey _ _).mp hd
    exact h p hp
  simp only [formatSchemaDocument, formatDefinitionList, docOfSchema, docOfSchemaRaw]
  rw [foldl_definitions_hidden cfg _ hdefs]

end Gql.Format
