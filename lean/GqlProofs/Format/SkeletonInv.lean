import GqlProofs.Format.LoadSkeleton
import GqlProofs.Format.FormattableSchema
/-
  The skeleton of a definition (`Gql.Load.skDef`, what the loader reads) does not change under
  position erasure nor under the formatter's normalisation (`normDef cfg`: block-string values become
  string values, descriptions are dropped with `WithoutDescription`).  Hence a definition `d'` with
  `d'.erasePos = (normDef cfg d).erasePos` — what the parser returns for the formatted text of `d` —
  has the skeleton of `d`.
-/
namespace Gql.Format
open Gql Gql.Load

theorem skValue_erasePos (v : Value) : skValue v.erasePos = skValue v := by
  cases v with
  | mk k raw ch p => cases k <;> rfl

theorem normKind_null (k : ValueKind) : (normKind k = ValueKind.null) ↔ (k = ValueKind.null) := by
  cases k <;> simp [normKind]

theorem skValue_normValue (v : Value) : skValue (normValue v) = skValue v := by
  cases v with
  | mk k raw ch p =>
    simp only [skValue, normValue, Value.kind]
    by_cases h : k = .null
    · subst h; rfl
    · have : ¬ normKind k = .null := fun e => h ((normKind_null k).mp e)
      simp [h, this]

theorem skArg_erasePos (a : Argument) : skArg a.erasePos = skArg a := by
  simp [skArg, Argument.erasePos, skValue_erasePos]

theorem skArg_normArg (a : Argument) : skArg (normArg a) = skArg a := by
  simp [skArg, normArg, skValue_normValue]

theorem skDir_erasePos (d : Directive) : skDir d.erasePos = skDir d := by
  simp [skDir, Directive.erasePos, List.map_map, Function.comp_def, skArg_erasePos]

theorem skDir_normDir (d : Directive) : skDir (normDir d) = skDir d := by
  simp [skDir, normDir, List.map_map, Function.comp_def, skArg_normArg]

theorem skDirs_erasePos (ds : List Directive) : (ds.map Directive.erasePos).map skDir = ds.map skDir := by
  simp [List.map_map, Function.comp_def, skDir_erasePos]

theorem skDirs_normDir (ds : List Directive) : (ds.map normDir).map skDir = ds.map skDir := by
  simp [List.map_map, Function.comp_def, skDir_normDir]

theorem erasePos_erasePos_type (t : GType) : t.erasePos.erasePos = t.erasePos := by
  induction t with
  | named n nn p => rfl
  | list e nn p ih => simp [GType.erasePos, ih]

theorem optMap_skValue_erasePos (o : Option Value) : (o.map Value.erasePos).map skValue = o.map skValue := by
  cases o <;> simp [skValue_erasePos]

theorem optMap_skValue_norm (o : Option Value) : (o.map normValue).map skValue = o.map skValue := by
  cases o <;> simp [skValue_normValue]

theorem skArgDef_erasePos (a : ArgDef) : skArgDef a.erasePos = skArgDef a := by
  simp [skArgDef, ArgDef.erasePos, List.map_map, Option.map_map, Function.comp_def, skValue_erasePos, skValue_normValue, skDir_erasePos, skDir_normDir, erasePos_erasePos_type]

theorem skArgDef_norm (cfg : Cfg) (a : ArgDef) : skArgDef (normArgDef cfg a) = skArgDef a := by
  simp [skArgDef, normArgDef, List.map_map, Option.map_map, Function.comp_def, skValue_erasePos, skValue_normValue, skDir_erasePos, skDir_normDir, erasePos_erasePos_type]

theorem skArgDefs_erasePos (as : List ArgDef) : (as.map ArgDef.erasePos).map skArgDef = as.map skArgDef := by
  simp [List.map_map, Function.comp_def, skArgDef_erasePos]

theorem skArgDefs_norm (cfg : Cfg) (as : List ArgDef) : (as.map (normArgDef cfg)).map skArgDef = as.map skArgDef := by
  simp [List.map_map, Function.comp_def, skArgDef_norm]

theorem skField_erasePos (f : FieldDef) : skField f.erasePos = skField f := by
  simp [skField, FieldDef.erasePos, skArgDef_erasePos, List.map_map, Option.map_map, Function.comp_def, skValue_erasePos, skValue_normValue, skDir_erasePos, skDir_normDir, erasePos_erasePos_type]

theorem skField_norm (cfg : Cfg) (f : FieldDef) : skField (normFieldDef cfg f) = skField f := by
  simp [skField, normFieldDef, skArgDef_norm, List.map_map, Option.map_map, Function.comp_def, skValue_erasePos, skValue_normValue, skDir_erasePos, skDir_normDir, erasePos_erasePos_type]

theorem skEnumVal_erasePos (e : EnumValDef) : skEnumVal e.erasePos = skEnumVal e := by
  simp [skEnumVal, EnumValDef.erasePos, List.map_map, Option.map_map, Function.comp_def, skValue_erasePos, skValue_normValue, skDir_erasePos, skDir_normDir, erasePos_erasePos_type]

theorem skEnumVal_norm (cfg : Cfg) (e : EnumValDef) : skEnumVal (normEnumVal cfg e) = skEnumVal e := by
  simp [skEnumVal, normEnumVal, List.map_map, Option.map_map, Function.comp_def, skValue_erasePos, skValue_normValue, skDir_erasePos, skDir_normDir, erasePos_erasePos_type]

theorem skDef_erasePos (d : Definition) : skDef d.erasePos = skDef d := by
  simp [skDef, Definition.erasePos, skField_erasePos, skEnumVal_erasePos, List.map_map, Option.map_map, Function.comp_def, skValue_erasePos, skValue_normValue, skDir_erasePos, skDir_normDir, erasePos_erasePos_type]

theorem skDef_norm (cfg : Cfg) (d : Definition) : skDef (normDef cfg d) = skDef d := by
  simp [skDef, normDef, skField_norm, skEnumVal_norm, List.map_map, Option.map_map, Function.comp_def, skValue_erasePos, skValue_normValue, skDir_erasePos, skDir_normDir, erasePos_erasePos_type]

theorem skDirDef_erasePos (d : DirectiveDef) : skDirDef d.erasePos = skDirDef d := by
  simp [skDirDef, DirectiveDef.erasePos, skArgDef_erasePos, List.map_map, Option.map_map, Function.comp_def, skValue_erasePos, skValue_normValue, skDir_erasePos, skDir_normDir, erasePos_erasePos_type]

theorem skDirDef_norm (cfg : Cfg) (d : DirectiveDef) : skDirDef (normDirectiveDef cfg d) = skDirDef d := by
  simp [skDirDef, normDirectiveDef, skArgDef_norm, List.map_map, Option.map_map, Function.comp_def, skValue_erasePos, skValue_normValue, skDir_erasePos, skDir_normDir, erasePos_erasePos_type]

/-- what the parser returns for the formatted text of `d` has the skeleton of `d` -/
theorem skDef_of_reparsed {cfg : Cfg} {d d' : Definition} (h : d'.erasePos = (normDef cfg d).erasePos) :
    skDef d' = skDef d := by
  rw [← skDef_erasePos d', h, skDef_erasePos, skDef_norm]

theorem skDirDef_of_reparsed {cfg : Cfg} {d d' : DirectiveDef} (h : d'.erasePos = (normDirectiveDef cfg d).erasePos) :
    skDirDef d' = skDirDef d := by
  rw [← skDirDef_erasePos d', h, skDirDef_erasePos, skDirDef_norm]

theorem skDirs_of_reparsed {ds ds' : List Directive}
    (h : ds'.map Directive.erasePos = (ds.map normDir).map Directive.erasePos) : ds'.map skDir = ds.map skDir := by
  rw [← skDirs_erasePos ds', h, skDirs_erasePos, skDirs_normDir]

end Gql.Format
