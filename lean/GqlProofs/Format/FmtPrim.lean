import GqlProofs.Format.Formattable
import GqlProofs.Format.Writer
/-
  Values, types and the writer primitives, token by token.

  `I g w ts`: the text written so far (`w.text`) is a complete sequence of token texts for `ts`,
  and it is safe to continue in writer state `w`: if the text ends `tight` (in a Name, number or
  String with nothing after it) then either the pad flag guarantees a space before the next write
  (`padNext ∧ ¬lineHead`) or — `g = true`, "glue mode" — the caller promises that the next write
  starts with a separator / punctuator.
-/
namespace Gql.Format
open Gql Gql.Lexer Gql.Grammar Gql.Print

/-! ### values -/

theorem allIgnored_comma : AllIgnored [44] := by intro b hb; simp at hb; subst hb; rfl

theorem lexTo_comma : LexTo [44] [] false := by
  simpa using (LexTo_nil).blank allIgnored_comma (by simp)

theorem lexTo_sep (first : Bool) : LexTo (if first then [] else [44]) [] false := by
  cases first
  · exact lexTo_comma
  · exact LexTo_nil

theorem startOK_items (rest : Children) (g : Bool) : StartOK g (renderListItems false rest ++ [93]) := by
  cases rest with
  | nil => exact StartOK_cons _ _ _ (by decide)
  | cons n v p r => simp only [renderListItems]; exact StartOK_cons _ 44 _ (by decide)

theorem startOK_fields (rest : Children) (g : Bool) : StartOK g (renderObjFields false rest ++ [125]) := by
  cases rest with
  | nil => exact StartOK_cons _ _ _ (by decide)
  | cons n v p r => simp only [renderObjFields]; exact StartOK_cons _ 44 _ (by decide)

mutual
  /-- `Value.String()` lexes to the tokens of the value (block strings come back as strings) -/
  theorem lexTo_value : ∀ v : Value, valueOk v = true → LexTo (renderValue v) (printValue (normValue v)) true
    | .mk k raw ch p, h => by
      cases k with
      | «variable» =>
        simp only [valueOk] at h
        exact tokText_dollar.lexTo.append (tokText_name raw h).lexTo (StartOK_false _)
      | int =>
        simp only [valueOk] at h
        exact (tokText_number .int raw (Or.inl rfl) h).lexTo
      | float =>
        simp only [valueOk] at h
        exact (tokText_number .float raw (Or.inr rfl) h).lexTo
      | string => exact (tokText_string_bytes raw).lexTo
      | block => exact (tokText_string_bytes raw).lexTo
      | boolean =>
        simp only [valueOk] at h
        exact (tokText_name raw h).lexTo
      | null =>
        simp only [valueOk] at h
        exact (tokText_name raw h).lexTo
      | «enum» =>
        simp only [valueOk] at h
        exact (tokText_name raw h).lexTo
      | list =>
        simp only [valueOk] at h
        have := tokText_bracketL.lexTo.append (lexTo_items ch h true) (StartOK_false _)
        simpa [renderValue, normValue, normKind, printValue] using this.toTight
      | object =>
        simp only [valueOk] at h
        have := tokText_braceL.lexTo.append (lexTo_fields ch h true) (StartOK_false _)
        simpa [renderValue, normValue, normKind, printValue] using this.toTight
  theorem lexTo_items : ∀ ch : Children, itemsOk ch = true → ∀ first : Bool,
      LexTo (renderListItems first ch ++ [93]) (printItems (normChildren ch) ++ [tP .bracketR]) false
    | .nil, _, first => by
      simpa [renderListItems, normChildren, printItems] using tokText_bracketR.lexTo
    | .cons n v p rest, h, first => by
      simp only [itemsOk, Bool.and_eq_true] at h
      have hv := lexTo_value v h.1
      have hr := lexTo_items rest h.2 false
      have := ((lexTo_sep first).append hv (StartOK_false _)).append hr (startOK_items rest true)
      simpa [renderListItems, normChildren, printItems, List.append_assoc] using this
  theorem lexTo_fields : ∀ ch : Children, fieldsOk ch = true → ∀ first : Bool,
      LexTo (renderObjFields first ch ++ [125]) (printObjFields (normChildren ch) ++ [tP .braceR]) false
    | .nil, _, first => by
      simpa [renderObjFields, normChildren, printObjFields] using tokText_braceR.lexTo
    | .cons n v p rest, h, first => by
      simp only [fieldsOk, Bool.and_eq_true] at h
      have hn := (tokText_name n h.1.1).lexTo
      have hv := lexTo_value v h.1.2
      have hr := lexTo_fields rest h.2 false
      have := ((((lexTo_sep first).append hn (StartOK_false _)).append tokText_colon.lexTo
        (StartOK_cons _ _ _ (by decide))).append hv (StartOK_false _)).append hr (startOK_fields rest true)
      simpa [renderObjFields, normChildren, printObjFields, List.append_assoc] using this
end

/-! ### types -/

theorem lexTo_bangIf (nn : Bool) : LexTo (if nn then [33] else []) (bangIf nn) false := by
  cases nn
  · exact LexTo_nil
  · exact tokText_bang.lexTo

theorem startOK_bangIf (nn g : Bool) (post : Bytes) (b : Nat) (h : sepByte b = true) :
    StartOK g ((if nn then [33] else []) ++ b :: post) := by
  cases nn
  · exact StartOK_cons _ _ _ h
  · exact StartOK_cons _ 33 _ (by decide)

/-- `Type.String()` lexes to the tokens of the type; it ends in `!`, `]` or a Name -/
theorem lexTo_type : ∀ t : GType, typeOk t = true → LexTo t.render (printType t) true
  | .named n nn p, h => by
    simp only [typeOk] at h
    cases nn with
    | false => simpa [GType.render, printType, bangIf] using (tokText_name n h).lexTo
    | true =>
      have := (tokText_name n h).lexTo.append tokText_bang.lexTo (StartOK_cons _ _ _ (by decide))
      simpa [GType.render, printType, bangIf] using this.toTight
  | .list e nn p, h => by
    simp only [typeOk] at h
    have he := lexTo_type e h
    have h1 := (tokText_bracketL.lexTo.append he (StartOK_false _)).append tokText_bracketR.lexTo
      (StartOK_cons _ _ _ (by decide))
    have := h1.append (lexTo_bangIf nn) (StartOK_false _)
    simpa [GType.render, printType, List.append_assoc] using this.toTight

/-! ### words are written unchanged -/

theorem trimLeft_id (s : Bytes) (h : ∀ b ∈ s, isAsciiSpace b = false) : trimLeft s = s := by
  cases s with
  | nil => rfl
  | cons b t => simp [trimLeft, h b (by simp)]

theorem trimSpace_id (s : Bytes) (h : ∀ b ∈ s, isAsciiSpace b = false) : trimSpace s = s := by
  unfold trimSpace
  rw [trimLeft_id s h, trimLeft_id s.reverse (by intro b hb; exact h b (by simpa using hb))]
  simp

theorem isNameCont_noSpace {b : Nat} (h : isNameCont b = true) : isAsciiSpace b = false := by
  have hb : (65 ≤ b ∧ b ≤ 90) ∨ (97 ≤ b ∧ b ≤ 122) ∨ b = 95 ∨ (48 ≤ b ∧ b ≤ 57) := by
    simp [isNameCont, isNameStart, isDigit] at h; omega
  simp [isAsciiSpace]; omega

theorem name_noSpace (n : Bytes) (h : isNameB n = true) : ∀ b ∈ n, isAsciiSpace b = false := by
  cases n with
  | nil => simp [isNameB] at h
  | cons x tl =>
    simp only [isNameB, Bool.and_eq_true, List.all_eq_true] at h
    intro b hb
    simp at hb
    rcases hb with rfl | hb
    · exact isNameCont_noSpace (by simp [isNameCont, h.1])
    · exact isNameCont_noSpace (h.2 b hb)

theorem trimSpace_name (n : Bytes) (h : isNameB n = true) : trimSpace n = n :=
  trimSpace_id n (name_noSpace n h)

theorem type_noSpace : ∀ t : GType, typeOk t = true → ∀ b ∈ t.render, isAsciiSpace b = false
  | .named n nn p, h => by
    simp only [typeOk] at h
    intro b hb
    cases nn <;> simp [GType.render] at hb
    · exact name_noSpace n h b hb
    · rcases hb with hb | rfl
      · exact name_noSpace n h b hb
      · decide
  | .list e nn p, h => by
    simp only [typeOk] at h
    have ih := type_noSpace e h
    intro b hb
    cases nn <;> simp [GType.render] at hb
    · rcases hb with rfl | hb | rfl
      · decide
      · exact ih b hb
      · decide
    · rcases hb with rfl | hb | rfl | rfl
      · decide
      · exact ih b hb
      · decide
      · decide

/-! ### writer state -/

@[simp] theorem noPadding_text (w : W) : (noPadding w).text = w.text := rfl
@[simp] theorem needPadding_text (w : W) : (needPadding w).text = w.text := rfl
@[simp] theorem incIndent_text (w : W) : (incIndent w).text = w.text := rfl
@[simp] theorem decIndent_text (w : W) : (decIndent w).text = w.text := rfl
@[simp] theorem noPadding_pad (w : W) : (noPadding w).padNext = false := rfl
@[simp] theorem needPadding_pad (w : W) : (needPadding w).padNext = true := rfl
@[simp] theorem incIndent_pad (w : W) : (incIndent w).padNext = w.padNext := rfl
@[simp] theorem decIndent_pad (w : W) : (decIndent w).padNext = w.padNext := rfl
@[simp] theorem noPadding_lh (w : W) : (noPadding w).lineHead = w.lineHead := rfl
@[simp] theorem needPadding_lh (w : W) : (needPadding w).lineHead = w.lineHead := rfl
@[simp] theorem incIndent_lh (w : W) : (incIndent w).lineHead = w.lineHead := rfl
@[simp] theorem decIndent_lh (w : W) : (decIndent w).lineHead = w.lineHead := rfl
@[simp] theorem writeWord_pad (cfg : Cfg) (x : Bytes) (w : W) : (writeWord cfg x w).padNext = true :=
  (writeWord_state cfg x w).2.1
@[simp] theorem writeWord_lh (cfg : Cfg) (x : Bytes) (w : W) : (writeWord cfg x w).lineHead = false :=
  (writeWord_state cfg x w).1
@[simp] theorem writeStr_pad (cfg : Cfg) (x : Bytes) (w : W) : (writeStr cfg x w).padNext = false :=
  (writeStr_state cfg x w).2.1
@[simp] theorem writeStr_lh (cfg : Cfg) (x : Bytes) (w : W) : (writeStr cfg x w).lineHead = false :=
  (writeStr_state cfg x w).1
@[simp] theorem writeNewline_pad (w : W) : (writeNewline w).padNext = false := (writeNewline_state w).2.1
@[simp] theorem writeNewline_lh (w : W) : (writeNewline w).lineHead = true := (writeNewline_state w).1

/-- does the state leave the end of the text unprotected? -/
def tightOf (g : Bool) (w : W) : Bool := g || (w.padNext && !w.lineHead)

/-- the lexing invariant of the writer -/
def I (g : Bool) (w : W) (ts : List Tok) : Prop := LexTo w.text ts (tightOf g w)

theorem I.mk {g : Bool} {w : W} {ts : List Tok} {tg : Bool} (h : LexTo w.text ts tg)
    (ht : tg = true → tightOf g w = true) : I g w ts := by
  unfold I
  cases tg with
  | false => exact h.weaken
  | true => rw [ht rfl]; exact h

theorem I.free {g : Bool} {w : W} {ts : List Tok} (h : LexTo w.text ts false) : I g w ts := h.weaken

theorem I.glue {g : Bool} {w : W} {ts : List Tok} (h : I g w ts) : LexTo w.text ts true := LexTo.toTight h

theorem I.mono {g : Bool} {w : W} {ts : List Tok} (h : I false w ts) : I g w ts := by
  unfold I at *
  cases g with
  | false => exact h
  | true => simpa [tightOf] using h.toTight

theorem allIgnored_repeat (ind : Bytes) (h : AllIgnored ind) (n : Nat) : AllIgnored (repeatBytes ind n) := by
  intro b hb
  simp [repeatBytes] at hb
  obtain ⟨l, ⟨_, rfl⟩, hb⟩ := hb
  exact h b hb

/-- after the indentation / pad space that the next write puts first, the text is as free as the
    mode promises -/
theorem I.lead {cfg : Cfg} (hind : BlankIndent cfg) {g : Bool} {w : W} {ts : List Tok} (h : I g w ts) :
    LexTo (w.text ++ lead cfg w) ts g := by
  unfold I tightOf at h
  unfold Format.lead
  cases hl : w.lineHead with
  | true =>
    simp [hl] at h ⊢
    exact h.blank' (allIgnored_repeat _ hind _)
  | false =>
    cases hp : w.padNext with
    | true =>
      simp [hl, hp] at h ⊢
      exact (h.blank (bl := [32]) (by intro b hb; simp at hb; subst hb; rfl) (by simp)).weaken
    | false =>
      simp [hl, hp] at h ⊢
      exact h

/-- `WriteWord` of a word that stands for the tokens `us` -/
theorem P_word {cfg : Cfg} (hind : BlankIndent cfg) {g : Bool} {w : W} {ts us : List Tok} {x : Bytes} {tg : Bool}
    (h : I g w ts) (hx : LexTo x us tg) (hs : StartOK g x) (ht : trimSpace x = x) :
    LexTo (writeWord cfg x w).text (ts ++ us) tg := by
  rw [writeWord_text, ht]
  exact (h.lead hind).append hx hs

/-- `WriteString` of a text that stands for the tokens `us` -/
theorem P_str {cfg : Cfg} (hind : BlankIndent cfg) {g : Bool} {w : W} {ts us : List Tok} {x : Bytes} {tg : Bool}
    (h : I g w ts) (hx : LexTo x us tg) (hs : StartOK g x) :
    LexTo (writeStr cfg x w).text (ts ++ us) tg := by
  rw [writeStr_text]
  exact (h.lead hind).append hx hs

/-- the comma the formatter writes between list elements is no token -/
theorem P_comma {cfg : Cfg} (hind : BlankIndent cfg) {g : Bool} {w : W} {ts : List Tok} (h : I g w ts) :
    LexTo (writeWord cfg [44] w).text ts false := by
  have := P_word hind h lexTo_comma (StartOK_cons _ _ _ (by decide)) (by decide)
  simpa using this

theorem P_newline {g : Bool} {w : W} {ts : List Tok} (h : I g w ts) : LexTo (writeNewline w).text ts false := by
  rw [writeNewline_text]
  exact LexTo.blank h (by intro b hb; simp at hb; subst hb; rfl) (by simp)

/-- `name:` as the formatter writes it: WriteWord, NoPadding, WriteString(":"), NeedPadding -/
theorem P_nameColon {cfg : Cfg} (hind : BlankIndent cfg) {w : W} {ts : List Tok} (nm : Bytes)
    (h : I false w ts) (hn : isNameB nm = true) :
    LexTo (needPadding (writeStr cfg [58] (noPadding (writeWord cfg nm w)))).text
      (ts ++ [tName nm, tP .colon]) false := by
  have h1 := P_word hind h (tokText_name nm hn).lexTo (StartOK_false _) (trimSpace_name nm hn)
  have h2 := P_str (cfg := cfg) hind (g := true) (w := noPadding (writeWord cfg nm w))
    (I.mk h1 (by simp [tightOf])) tokText_colon.lexTo (StartOK_cons _ _ _ (by decide))
  simpa [List.append_assoc] using h2

end Gql.Format
