import GqlProofs.Format.TokText
import GqlProofs.Format.PrintLong
/-
  `Formattable`: the explicit, decidable well-formedness of a syntax tree under which the text the
  formatter writes lexes back to the tokens of the tree.  Every condition is something the lexer /
  parser guarantee for a parsed document:

  * names (field names, aliases, argument names, variable names, type names, directive names,
    enum / boolean / null raw texts, operation keyword) are lexer Names (`isNameB`);
  * Int / Float raw texts are one number lexeme of that kind (`numRaw`: the specification's
    `numberToken` reads exactly the raw text);
  * string VALUES (quoted or block) are arbitrary byte strings: `Value.String()` writes both as a
    quoted string, every byte ≥ 0x80 verbatim, and the lexer keeps the source bytes of a string
    literal whether or not it contains escapes (`C12_quote_roundtrip_bytes`; before the repair of
    `readString` well-formed UTF-8 had to be required here);
  * a selection set that the grammar requires (operation, fragment definition, inline fragment) is
    not empty: the formatter writes nothing at all for an empty one, not `{}`.

  `normFmt`: what the formatter deliberately does not keep: `Value.String()` writes a block-string
  VALUE as a quoted string, so its kind comes back as `.string`.  Nothing else changes
  (`emitComments` is not modelled, the tree carries no comments).
-/
namespace Gql.Format
open Gql Gql.Lexer Gql.Grammar Gql.Print

/-! ### normal form -/

def normKind : ValueKind → ValueKind
  | .block => .string
  | k => k

mutual
  def normValue : Value → Value
    | .mk k raw ch p => .mk (normKind k) raw (normChildren ch) p
  def normChildren : Children → Children
    | .nil => .nil
    | .cons n v p rest => .cons n (normValue v) p (normChildren rest)
end

def normArg (a : Argument) : Argument := { a with value := normValue a.value }
def normDir (d : Directive) : Directive := { d with args := d.args.map normArg }

mutual
  def normSel : Selection → Selection
    | .field al nm args ds sel p => .field al nm (args.map normArg) (ds.map normDir) (normSels sel) p
    | .spread nm ds p => .spread nm (ds.map normDir) p
    | .inline tc ds sel p => .inline tc (ds.map normDir) (normSels sel) p
  def normSels : Selections → Selections
    | .nil => .nil
    | .cons s rest => .cons (normSel s) (normSels rest)
end

def normVarDef (v : VarDef) : VarDef :=
  { v with default := v.default.map normValue, dirs := v.dirs.map normDir }

def normOp (o : OperationDef) : OperationDef :=
  { o with vars := o.vars.map normVarDef, dirs := o.dirs.map normDir, sel := normSels o.sel }

def normFrag (f : FragmentDef) : FragmentDef :=
  { f with vars := f.vars.map normVarDef, dirs := f.dirs.map normDir, sel := normSels f.sel }

/-- the document the formatter's text stands for -/
def normFmt (d : QueryDoc) : QueryDoc := { ops := d.ops.map normOp, frags := d.frags.map normFrag }

/-! ### well-formedness -/

mutual
  def valueOk : Value → Bool
    | .mk k raw ch _ =>
      match k with
      | .variable => isNameB raw
      | .boolean => isNameB raw
      | .null => isNameB raw
      | .enum => isNameB raw
      | .int => numRaw .int raw
      | .float => numRaw .float raw
      | .string => true
      | .block => true
      | .list => itemsOk ch
      | .object => fieldsOk ch
  def itemsOk : Children → Bool
    | .nil => true
    | .cons _ v _ rest => valueOk v && itemsOk rest
  def fieldsOk : Children → Bool
    | .nil => true
    | .cons n v _ rest => isNameB n && valueOk v && fieldsOk rest
end

def typeOk : GType → Bool
  | .named n _ _ => isNameB n
  | .list e _ _ => typeOk e

def argOk (a : Argument) : Bool := isNameB a.name && valueOk a.value
def dirOk (d : Directive) : Bool := isNameB d.name && d.args.all argOk

mutual
  def selOk : Selection → Bool
    | .field al nm args ds sel _ => isNameB al && isNameB nm && args.all argOk && ds.all dirOk && selsOk sel
    | .spread nm ds _ => isNameB nm && ds.all dirOk
    | .inline tc ds sel _ =>
      (tc.isEmpty || isNameB tc) && ds.all dirOk && (match sel with | .nil => false | _ => true) && selsOk sel
  def selsOk : Selections → Bool
    | .nil => true
    | .cons s rest => selOk s && selsOk rest
end

def varDefOk (v : VarDef) : Bool :=
  isNameB v.var && typeOk v.type && (match v.default with | some d => valueOk d | none => true) && v.dirs.all dirOk

def opOk (o : OperationDef) : Bool :=
  isNameB o.op && (o.name.isEmpty || isNameB o.name) && o.vars.all varDefOk && o.dirs.all dirOk &&
  (match o.sel with | .nil => false | _ => true) && selsOk o.sel

def fragOk (f : FragmentDef) : Bool :=
  isNameB f.name && f.vars.all varDefOk && isNameB f.typeCond && f.dirs.all dirOk &&
  (match f.sel with | .nil => false | _ => true) && selsOk f.sel

def docOk (d : QueryDoc) : Bool := d.ops.all opOk && d.frags.all fragOk

/-- the executable documents whose formatted text is proved to lex back to their tokens -/
def Formattable (d : QueryDoc) : Prop := docOk d = true

instance (d : QueryDoc) : Decidable (Formattable d) := by unfold Formattable; infer_instance

/-- the indentation strings covered: any sequence of ignored single bytes (TAB, LF, CR, space,
    comma), the empty string included -/
def BlankIndent (cfg : Cfg) : Prop := AllIgnored cfg.indent

end Gql.Format
