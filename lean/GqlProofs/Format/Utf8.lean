import GqlModel.Basic.Utf8
/-
  UTF-8 facts needed by the quoting theorems: `decodeRune` inverts `encodeRune` on Unicode
  scalar values, whatever follows.
-/
namespace Gql

/-- Unicode scalar value: a code point that is not a surrogate -/
def IsScalar (r : Nat) : Prop := r < 0xD800 ∨ (0xE000 ≤ r ∧ r < 0x110000)

instance (r : Nat) : Decidable (IsScalar r) := by unfold IsScalar; exact inferInstance

theorem encodeRune_ascii {r : Nat} (h : r < 0x80) : encodeRune r = [r] := by
  simp [encodeRune, h]

theorem decodeRune_two (b0 b1 : Nat) (rest : Bytes) (h0 : 0xC2 ≤ b0) (h0' : b0 < 0xE0)
    (h1 : 0x80 ≤ b1) (h1' : b1 ≤ 0xBF) :
    decodeRune (b0 :: b1 :: rest) = (b0 % 32 * 64 + b1 % 64, 2) := by
  have a1 : ¬ b0 < 0x80 := by omega
  have a2 : ¬ b0 < 0xC2 := by omega
  simp [decodeRune, isCont, a1, a2, h0', h1, h1']

theorem decodeRune_three (b0 b1 b2 : Nat) (rest : Bytes) (h0 : 0xE0 ≤ b0) (h0' : b0 < 0xF0)
    (h1 : (if b0 = 0xE0 then 0xA0 else 0x80) ≤ b1) (h1' : b1 ≤ (if b0 = 0xED then 0x9F else 0xBF))
    (h2 : 0x80 ≤ b2) (h2' : b2 ≤ 0xBF) :
    decodeRune (b0 :: b1 :: b2 :: rest) = (b0 % 16 * 4096 + b1 % 64 * 64 + b2 % 64, 3) := by
  have a1 : ¬ b0 < 0x80 := by omega
  have a2 : ¬ b0 < 0xC2 := by omega
  have a3 : ¬ b0 < 0xE0 := by omega
  simp [decodeRune, isCont, a1, a2, a3, h0', h1, h1', h2, h2']

theorem decodeRune_four (b0 b1 b2 b3 : Nat) (rest : Bytes) (h0 : 0xF0 ≤ b0) (h0' : b0 < 0xF5)
    (h1 : (if b0 = 0xF0 then 0x90 else 0x80) ≤ b1) (h1' : b1 ≤ (if b0 = 0xF4 then 0x8F else 0xBF))
    (h2 : 0x80 ≤ b2) (h2' : b2 ≤ 0xBF) (h3 : 0x80 ≤ b3) (h3' : b3 ≤ 0xBF) :
    decodeRune (b0 :: b1 :: b2 :: b3 :: rest)
      = (b0 % 8 * 262144 + b1 % 64 * 4096 + b2 % 64 * 64 + b3 % 64, 4) := by
  have a1 : ¬ b0 < 0x80 := by omega
  have a2 : ¬ b0 < 0xC2 := by omega
  have a3 : ¬ b0 < 0xE0 := by omega
  have a4 : ¬ b0 < 0xF0 := by omega
  simp [decodeRune, isCont, a1, a2, a3, a4, h0', h1, h1', h2, h2', h3, h3']

theorem encodeRune_two {r : Nat} (h1 : ¬ r < 0x80) (h2 : r < 0x800) :
    encodeRune r = [0xC0 + r / 64, 0x80 + r % 64] := by
  simp [encodeRune, h1, h2]

theorem encodeRune_three {r : Nat} (h : IsScalar r) (h2 : ¬ r < 0x800) (h3 : r < 0x10000) :
    encodeRune r = [0xE0 + r / 4096, 0x80 + r / 64 % 64, 0x80 + r % 64] := by
  unfold IsScalar at h
  have h1 : ¬ r < 0x80 := by omega
  have hs : ((decide (0xD800 ≤ r) && decide (r ≤ 0xDFFF)) || decide (0x10FFFF < r)) = false := by
    simp; omega
  simp [encodeRune, h1, h2, h3, hs]

theorem encodeRune_four {r : Nat} (h : IsScalar r) (h3 : ¬ r < 0x10000) :
    encodeRune r = [0xF0 + r / 262144, 0x80 + r / 4096 % 64, 0x80 + r / 64 % 64, 0x80 + r % 64] := by
  unfold IsScalar at h
  have h1 : ¬ r < 0x80 := by omega
  have h2 : ¬ r < 0x800 := by omega
  have hs : ((decide (0xD800 ≤ r) && decide (r ≤ 0xDFFF)) || decide (0x10FFFF < r)) = false := by
    simp; omega
  simp [encodeRune, h1, h2, h3, hs]

theorem decodeRune_encodeRune {r : Nat} (h : IsScalar r) (rest : Bytes) :
    decodeRune (encodeRune r ++ rest) = (r, (encodeRune r).length) := by
  have h' := h
  unfold IsScalar at h'
  by_cases h1 : r < 0x80
  · simp [encodeRune, h1, decodeRune]
  · by_cases h2 : r < 0x800
    · rw [encodeRune_two h1 h2]
      simp only [List.cons_append, List.nil_append]
      rw [decodeRune_two (0xC0 + r / 64) (0x80 + r % 64) rest (by omega) (by omega) (by omega) (by omega)]
      simp only [List.length_cons, List.length_nil, Prod.mk.injEq]; exact ⟨by omega, by trivial⟩
    · by_cases h3 : r < 0x10000
      · rw [encodeRune_three h h2 h3]
        simp only [List.cons_append, List.nil_append]
        rw [decodeRune_three (0xE0 + r / 4096) (0x80 + r / 64 % 64) (0x80 + r % 64) rest (by omega) (by omega)
          (by split <;> omega) (by split <;> omega) (by omega) (by omega)]
        simp only [List.length_cons, List.length_nil, Prod.mk.injEq]; exact ⟨by omega, by trivial⟩
      · rw [encodeRune_four h h3]
        simp only [List.cons_append, List.nil_append]
        rw [decodeRune_four (0xF0 + r / 262144) (0x80 + r / 4096 % 64) (0x80 + r / 64 % 64) (0x80 + r % 64) rest
          (by omega) (by omega) (by split <;> omega) (by split <;> omega) (by omega) (by omega) (by omega) (by omega)]
        simp only [List.length_cons, List.length_nil, Prod.mk.injEq]; exact ⟨by omega, by trivial⟩

/-- every byte of the encoding of a non-ASCII scalar is ≥ 0x80 (and < 0x100) -/
theorem encodeRune_high {r : Nat} (h : IsScalar r) (h1 : 0x80 ≤ r) :
    ∀ b ∈ encodeRune r, 0x80 ≤ b ∧ b < 0x100 := by
  have h' := h
  unfold IsScalar at h'
  have n1 : ¬ r < 0x80 := by omega
  by_cases h2 : r < 0x800
  · rw [encodeRune_two n1 h2]; intro b hb; simp at hb; omega
  · by_cases h3 : r < 0x10000
    · rw [encodeRune_three h h2 h3]; intro b hb; simp at hb; omega
    · rw [encodeRune_four h h3]; intro b hb; simp at hb; omega

theorem encodeRune_length_pos (r : Nat) : 0 < (encodeRune r).length := by
  unfold encodeRune
  split
  · simp
  · split
    · simp
    · split
      · simp
      · split <;> simp

end Gql
