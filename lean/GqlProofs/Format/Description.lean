import GqlModel.Format.Model
/-
  `WriteDescription` renders a description as a block string.  This file proves what text is
  written (`writeDescription_text`) and for which descriptions `blockStringValue` of that text
  is the description again (`blockStringValue_descBody`).
-/
namespace Gql.Format
open Gql Gql.Lexer

/-- the text between the opening and the closing `"""` written by `writeDescription` when the
    current indentation string is `ind` -/
def descBody (ind d : Bytes) : Bytes :=
  10 :: (splitLines d).flatMap (fun l => ind ++ l ++ [10]) ++ ind

/-- the class of descriptions the block-string rendering can represent -/
def BlockRepresentable (d : Bytes) : Prop :=
  (∃ l ls, splitLines d = l :: ls ∧ leadingWs l ≠ none) ∧          -- first line not blank
  (∃ l ls, (splitLines d).reverse = l :: ls ∧ leadingWs l ≠ none) ∧ -- last line not blank
  commonIndent (splitLines d) = some 0                              -- some non-blank line is not indented

instance (d : Bytes) : Decidable (BlockRepresentable d) := by
  unfold BlockRepresentable
  have : ∀ xs : List Bytes, Decidable (∃ l ls, xs = l :: ls ∧ leadingWs l ≠ none) := by
    intro xs
    cases xs with
    | nil => exact isFalse (by simp)
    | cons l ls =>
      by_cases h : leadingWs l = none
      · exact isFalse (by simp [h])
      · exact isTrue ⟨l, ls, rfl, h⟩
  exact inferInstance

/- ---------- writer ---------- -/

@[simp] theorem W.text_raw (w : W) (s : Bytes) : (w.raw s).text = w.text ++ s := by
  simp [W.raw, W.text]

/-- what `writeStr` / `writeWord` put in front of their argument -/
def lead (cfg : Cfg) (w : W) : Bytes :=
  if w.lineHead then repeatBytes cfg.indent w.indentSize else if w.padNext then [32] else []

theorem writeStr_text (cfg : Cfg) (s : Bytes) (w : W) :
    (writeStr cfg s w).text = w.text ++ lead cfg w ++ s := by
  obtain ⟨ch, n, p, lh⟩ := w
  cases p <;> cases lh <;> simp [writeStr, lead, writeIndent, W.raw, W.text]

theorem writeStr_state (cfg : Cfg) (s : Bytes) (w : W) :
    (writeStr cfg s w).lineHead = false ∧ (writeStr cfg s w).padNext = false ∧
    (writeStr cfg s w).indentSize = w.indentSize := by
  obtain ⟨ch, n, p, lh⟩ := w
  cases p <;> cases lh <;> simp [writeStr, writeIndent, W.raw]

theorem writeNewline_text (w : W) : (writeNewline w).text = w.text ++ [10] := by
  simp [writeNewline, W.text, W.raw]

theorem writeNewline_state (w : W) :
    (writeNewline w).lineHead = true ∧ (writeNewline w).padNext = false ∧
    (writeNewline w).indentSize = w.indentSize := by
  simp [writeNewline, W.raw]

/-- one line of a description, written at a line head -/
theorem descLine (cfg : Cfg) (l : Bytes) (w : W) (h : w.lineHead = true) :
    (writeNewline (writeStr cfg l w)).text = w.text ++ repeatBytes cfg.indent w.indentSize ++ l ++ [10] ∧
    (writeNewline (writeStr cfg l w)).lineHead = true ∧
    (writeNewline (writeStr cfg l w)).indentSize = w.indentSize := by
  have a := writeStr_text cfg l w
  have b := writeStr_state cfg l w
  have c := writeNewline_text (writeStr cfg l w)
  have d := writeNewline_state (writeStr cfg l w)
  refine ⟨?_, d.1, by rw [d.2.2, b.2.2]⟩
  rw [c, a]; simp [lead, h]

theorem descLines (cfg : Cfg) (ls : List Bytes) (w : W) (h : w.lineHead = true) :
    let w' := ls.foldl (fun w l => writeNewline (writeStr cfg l w)) w
    w'.text = w.text ++ ls.flatMap (fun l => repeatBytes cfg.indent w.indentSize ++ l ++ [10]) ∧
    w'.lineHead = true ∧ w'.indentSize = w.indentSize := by
  induction ls generalizing w with
  | nil => simp [h]
  | cons l ls ih =>
    obtain ⟨a, b, c⟩ := descLine cfg l w h
    have := ih (writeNewline (writeStr cfg l w)) b
    simp only [List.foldl_cons, List.flatMap_cons]
    refine ⟨?_, this.2.1, by rw [this.2.2, c]⟩
    rw [this.1, a, c]; simp

/-- The text `writeDescription` writes for a description the block form can represent:
    optional lead, `"""`, the body (with `"""` escaped), `"""`, newline. -/
theorem writeDescription_text (cfg : Cfg) (d : Bytes) (w : W) (hd : d ≠ []) (ho : cfg.omitDescription = false)
    (hrep : blockStringRepresentable d = true) :
    (writeDescription cfg d w).text =
      w.text ++ lead cfg w ++ tripleQuote ++ descBody (repeatBytes cfg.indent w.indentSize) (escapeTriple d)
        ++ tripleQuote ++ [10] := by
  have hd' : d.isEmpty = false := by cases d <;> simp at hd ⊢
  unfold writeDescription
  simp only [hd', ho, hrep, Bool.or_false, Bool.false_eq_true, if_false, Bool.not_true]
  have s1 := writeStr_text cfg tripleQuote w
  have t1 := writeStr_state cfg tripleQuote w
  have s2 := writeNewline_text (writeStr cfg tripleQuote w)
  have t2 := writeNewline_state (writeStr cfg tripleQuote w)
  have L := descLines cfg (splitLines (escapeTriple d)) (writeNewline (writeStr cfg tripleQuote w)) t2.1
  simp only at L
  obtain ⟨L1, L2, L3⟩ := L
  have i1 : (writeNewline (writeStr cfg tripleQuote w)).indentSize = w.indentSize := by rw [t2.2.2, t1.2.2]
  rw [writeNewline_text, writeStr_text, L1, s2, s1]
  simp [lead, L2, L3, i1, descBody]

/-- The text written for a description the block form cannot represent: a quoted string. -/
theorem writeDescription_text_quoted (cfg : Cfg) (d : Bytes) (w : W) (hd : d ≠ []) (ho : cfg.omitDescription = false)
    (hrep : blockStringRepresentable d = false) :
    (writeDescription cfg d w).text = w.text ++ lead cfg w ++ gqlQuote d ++ [10] := by
  have hd' : d.isEmpty = false := by cases d <;> simp at hd ⊢
  unfold writeDescription
  simp only [hd', ho, hrep, Bool.or_false, Bool.false_eq_true, if_false, Bool.not_false, if_true]
  rw [writeNewline_text, writeStr_text]
  rfl

/- ---------- block string value of the body ---------- -/

theorem splitLines_ne_nil (bs : Bytes) : splitLines bs ≠ [] := by
  induction bs with
  | nil => simp [splitLines]
  | cons b tl ih =>
    unfold splitLines
    split
    · simp
    · cases h : splitLines tl with
      | nil => exact absurd h ih
      | cons l ls => simp

theorem splitLines_cons_ne (b : Nat) (tl l : Bytes) (ls : List Bytes) (h : b ≠ 10)
    (hs : splitLines tl = l :: ls) : splitLines (b :: tl) = (b :: l) :: ls := by
  conv => lhs; unfold splitLines
  simp only [h, if_false, hs]

/-- a text without newline followed by a newline is one line -/
theorem splitLines_line (a X : Bytes) (h : 10 ∉ a) : splitLines (a ++ 10 :: X) = a :: splitLines X := by
  induction a with
  | nil => simp [splitLines]
  | cons b tl ih =>
    have hb : b ≠ 10 := by intro e; simp [e] at h
    have ht : 10 ∉ tl := by intro e; simp [e] at h
    rw [List.cons_append, splitLines_cons_ne _ _ _ _ hb (ih ht)]

theorem splitLines_single (a : Bytes) (h : 10 ∉ a) : splitLines a = [a] := by
  induction a with
  | nil => simp [splitLines]
  | cons b tl ih =>
    have hb : b ≠ 10 := by intro e; simp [e] at h
    have ht : 10 ∉ tl := by intro e; simp [e] at h
    rw [splitLines_cons_ne _ _ _ _ hb (ih ht)]

theorem splitLines_no_nl (d : Bytes) : ∀ l ∈ splitLines d, 10 ∉ l := by
  induction d with
  | nil => simp [splitLines]
  | cons b tl ih =>
    have hne := splitLines_ne_nil tl
    by_cases hb : b = 10
    · subst hb
      have : splitLines (10 :: tl) = [] :: splitLines tl := by simp [splitLines]
      rw [this]; intro l hl; simp at hl; rcases hl with rfl | hl
      · simp
      · exact ih l hl
    · cases hs : splitLines tl with
      | nil => exact absurd hs hne
      | cons l0 ls =>
        rw [splitLines_cons_ne _ _ _ _ hb hs]
        rw [hs] at ih
        intro l hl
        simp at hl
        rcases hl with rfl | hl
        · have := ih l0 (by simp)
          intro e; simp at e; rcases e with e | e
          · exact hb e.symm
          · exact this e
        · exact ih l (by simp [hl])

theorem joinLines_splitLines (d : Bytes) : joinLines (splitLines d) = d := by
  induction d with
  | nil => simp [splitLines, joinLines]
  | cons b tl ih =>
    have hne := splitLines_ne_nil tl
    cases hs : splitLines tl with
    | nil => exact absurd hs hne
    | cons l ls =>
      rw [hs] at ih
      by_cases hb : b = 10
      · subst hb
        have : splitLines (10 :: tl) = [] :: splitLines tl := by simp [splitLines]
        rw [this, hs]; simp [joinLines, ih]
      · rw [splitLines_cons_ne _ _ _ _ hb hs]
        cases ls with
        | nil => simp [joinLines] at ih ⊢; exact ih
        | cons l2 ls2 => simp [joinLines] at ih ⊢; exact ih

/-- an indentation string made of blanks -/
def AllBlank (ind : Bytes) : Prop := ∀ b ∈ ind, isBlank b = true

theorem allBlank_no_nl {ind : Bytes} (h : AllBlank ind) : 10 ∉ ind := by
  intro e; have := h 10 e; simp [isBlank] at this

theorem leadingWs_blank_append {ind : Bytes} (h : AllBlank ind) (l : Bytes) :
    leadingWs (ind ++ l) = (leadingWs l).map (· + ind.length) := by
  induction ind with
  | nil => simp
  | cons b tl ih =>
    have hb := h b (by simp)
    have ht : AllBlank tl := fun x hx => h x (by simp [hx])
    simp only [List.cons_append, leadingWs, hb, if_true, ih ht, List.length_cons, Option.map_map]
    congr 1

theorem leadingWs_blank {ind : Bytes} (h : AllBlank ind) : leadingWs ind = none := by
  have := leadingWs_blank_append h []
  simpa [leadingWs] using this

/-- the lines of the body: an empty first line, the indented lines, the indentation alone -/
theorem splitLines_body (ind : Bytes) (hi : AllBlank ind) (ls : List Bytes) (hl : ∀ l ∈ ls, 10 ∉ l) :
    splitLines (ls.flatMap (fun l => ind ++ l ++ [10]) ++ ind) = ls.map (ind ++ ·) ++ [ind] := by
  induction ls with
  | nil => simpa using splitLines_single ind (allBlank_no_nl hi)
  | cons l ls ih =>
    have h1 : 10 ∉ ind ++ l := by
      intro e; simp at e; rcases e with e | e
      · exact allBlank_no_nl hi e
      · exact hl l (by simp) e
    have := splitLines_line (ind ++ l) (ls.flatMap (fun l => ind ++ l ++ [10]) ++ ind) h1
    simp only [List.flatMap_cons, List.map_cons, List.cons_append, List.append_assoc, List.nil_append] at this ⊢
    have ih' := ih (fun x hx => hl x (by simp [hx]))
    simp only [List.append_assoc] at ih'
    rw [this, ih']

theorem commonIndent_map {ind : Bytes} (hi : AllBlank ind) (ls : List Bytes) :
    commonIndent (ls.map (ind ++ ·)) = (commonIndent ls).map (· + ind.length) := by
  induction ls with
  | nil => simp [commonIndent]
  | cons l ls ih =>
    simp only [List.map_cons, commonIndent, leadingWs_blank_append hi, ih]
    cases leadingWs l <;> cases commonIndent ls <;> simp

theorem commonIndent_append_blank (ls : List Bytes) (x : Bytes) (hx : leadingWs x = none) :
    commonIndent (ls ++ [x]) = commonIndent ls := by
  induction ls with
  | nil => simp [commonIndent, hx]
  | cons l ls ih => simp only [List.cons_append, commonIndent, ih]

theorem dropBlankFront_of_head (l : Bytes) (ls : List Bytes) (h : leadingWs l ≠ none) :
    dropBlankFront (l :: ls) = l :: ls := by
  simp [dropBlankFront, h]

/-- `blockStringValue` of the rendered body is the description, for every representable
    description and every indentation made of blanks. -/
theorem blockStringValue_descBody (ind d : Bytes) (hi : AllBlank ind) (hd : BlockRepresentable d) :
    blockStringValue (descBody ind d) = d := by
  obtain ⟨⟨l0, ls0, hfirst, hl0⟩, ⟨ll, lls, hlast, hll⟩, hci⟩ := hd
  have hlines : splitLines (descBody ind d) = [] :: ((splitLines d).map (ind ++ ·) ++ [ind]) := by
    unfold descBody
    have : splitLines (10 :: ((splitLines d).flatMap (fun l => ind ++ l ++ [10]) ++ ind))
        = [] :: splitLines ((splitLines d).flatMap (fun l => ind ++ l ++ [10]) ++ ind) := by
      simp [splitLines]
    rw [List.cons_append, this, splitLines_body ind hi _ (splitLines_no_nl d)]
  have hci' : commonIndent ((splitLines d).map (ind ++ ·) ++ [ind]) = some ind.length := by
    rw [commonIndent_append_blank _ _ (leadingWs_blank hi), commonIndent_map hi, hci]
    simp
  have hstrip : ((splitLines d).map (ind ++ ·) ++ [ind]).map (stripIndent ind.length) = splitLines d ++ [[]] := by
    simp [stripIndent, List.map_map, Function.comp_def]
  unfold blockStringValue
  simp only [hlines, hci', hstrip]
  -- drop the blank first line and the blank last line
  have hf : dropBlankFront ([] :: (splitLines d ++ [[]])) = splitLines d ++ [[]] := by
    rw [hfirst]
    simp only [dropBlankFront, leadingWs, if_true, List.cons_append]
    exact dropBlankFront_of_head _ _ hl0
  rw [hf]
  have hb : dropBlankBack (splitLines d ++ [[]]) = splitLines d := by
    unfold dropBlankBack
    rw [List.reverse_append, hlast]
    simp only [List.reverse_cons, List.reverse_nil, List.nil_append, List.cons_append, dropBlankFront,
      leadingWs, if_true]
    simp only [hll, if_false]
    rw [← hlast, List.reverse_reverse]
  rw [hb, joinLines_splitLines]

end Gql.Format
