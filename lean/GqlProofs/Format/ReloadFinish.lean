import GqlProofs.Format.ReloadLookup
/-
  The loader accepts `prelude ⊕ P`: its state is built without error and stores, name by name,
  definitions with the skeletons of the original state (`SkEq`), so every validator passes again;
  the possible-types / implements relations hold the same entries up to order.
-/
namespace Gql.Format
open Gql Gql.Load Gql.Parser

/-! ### relations only depend on skeletons -/

theorem ptrOf_skTypes (T : List (Name × Definition)) (n : Name) : ptrOf (skTypes T) n = ptrOf T n := by
  unfold ptrOf
  rw [lookup_skTypes]
  cases T.lookup n <;> rfl

theorem possPushes_sk (T : List (Name × Definition)) (d : Definition) :
    possPushes (skTypes T) (skDef d) = possPushes T d := by
  unfold possPushes
  have h1 : (skDef d).kind = d.kind := rfl
  have h2 : (skDef d).types = d.types := rfl
  have h3 : (skDef d).name = d.name := rfl
  have h4 : (skDef d).interfaces = d.interfaces := rfl
  simp only [h1, h2, h3, h4, ptrOf_skTypes]

theorem implPushes_sk (T : List (Name × Definition)) (d : Definition) :
    implPushes (skTypes T) (skDef d) = implPushes T d := by
  unfold implPushes
  have h1 : (skDef d).kind = d.kind := rfl
  have h2 : (skDef d).types = d.types := rfl
  have h3 : (skDef d).name = d.name := rfl
  have h4 : (skDef d).interfaces = d.interfaces := rfl
  simp only [h1, h2, h3, h4, ptrOf_skTypes]

theorem skTypes_keys (T : List (Name × Definition)) : (skTypes T).map Prod.fst = T.map Prod.fst := by
  simp [skTypes, List.map_map, Function.comp_def]

theorem flatMap_sk (T : List (Name × Definition)) (G : List (Name × Definition) → Definition → List (Name × Option Name))
    (hG : ∀ d, G (skTypes T) (skDef d) = G T d) :
    ((skTypes T).map Prod.snd).flatMap (G (skTypes T)) = (T.map Prod.snd).flatMap (G T) := by
  simp only [skTypes, List.map_map, List.flatMap_map, Function.comp_def]
  congr 1
  funext p
  exact hG p.2

/-- two type maps with the same skeletons under the same names -/
def SameSk (T T' : List (Name × Definition)) : Prop :=
  (T.map Prod.fst).Nodup ∧ (T'.map Prod.fst).Nodup ∧ ∀ n, (T'.lookup n).map skDef = (T.lookup n).map skDef

theorem SameSk.perm {T T' : List (Name × Definition)} (h : SameSk T T') : (skTypes T').Perm (skTypes T) := by
  apply perm_of_lookup_eq
  · rw [skTypes_keys]; exact h.1
  · rw [skTypes_keys]; exact h.2.1
  · intro n; rw [lookup_skTypes, lookup_skTypes]; exact h.2.2 n

theorem SameSk.keys_perm {T T' : List (Name × Definition)} (h : SameSk T T') : (T'.map Prod.fst).Perm (T.map Prod.fst) := by
  have := h.perm.map Prod.fst
  rwa [skTypes_keys, skTypes_keys] at this

theorem SameSk.lookup_sk {T T' : List (Name × Definition)} (h : SameSk T T') (n : Name) :
    (skTypes T').lookup n = (skTypes T).lookup n := by
  rw [lookup_skTypes, lookup_skTypes]; exact h.2.2 n

theorem SameSk.possible_entries {T T' : List (Name × Definition)} (h : SameSk T T') (k : Name) :
    (entriesOf (buildRelations T').1 k).Perm (entriesOf (buildRelations T).1 k) := by
  rw [Gql.Load.possible_entries, Gql.Load.possible_entries, ← flatMap_sk T' possPushes (possPushes_sk T'),
    ← flatMap_sk T possPushes (possPushes_sk T), possPushes_congr h.lookup_sk]
  exact (((h.perm.map Prod.snd).flatMap_right _).filter _).map _

theorem SameSk.implements_entries {T T' : List (Name × Definition)} (h : SameSk T T') (k : Name) :
    (entriesOf (buildRelations T').2 k).Perm (entriesOf (buildRelations T).2 k) := by
  rw [Gql.Load.implements_entries, Gql.Load.implements_entries, ← flatMap_sk T' implPushes (implPushes_sk T'),
    ← flatMap_sk T implPushes (implPushes_sk T), implPushes_congr h.lookup_sk]
  exact (((h.perm.map Prod.snd).flatMap_right _).filter _).map _

theorem relOut_entries_perm {rel rel' : Rel} {k : Name} (h : (entriesOf rel' k).Perm (entriesOf rel k)) :
    (((relOut rel').lookup k).getD []).Perm (((relOut rel).lookup k).getD []) := by
  rw [lookup_relOut, lookup_relOut]
  unfold entriesOf at h
  cases h1 : rel'.lookup k <;> cases h2 : rel.lookup k <;> simp only [h1, h2, Option.getD, Option.map] at h ⊢
  · exact List.Perm.refl _
  · exact h.map _
  · exact h.map _
  · exact h.map _

/-! ### the reloaded state -/

section
variable {cfg : Cfg} {pre u : SchemaDoc} {s : Schema} {st : LState} {r1 : Roots} {d1 : List Directive} {P : SchemaDoc}
variable (C : Ctx cfg pre u s st r1 d1 P)
include C

/-- the loader state of `prelude ⊕ P` -/
theorem Ctx.reload_state :
    ∃ st' acc0, buildState (pre.merge P) = .ok st' ∧ st'.types = reTypes pre P ∧
      declareDirectives u.directives acc0 = .ok st.directives ∧ declareDirectives P.directives acc0 = .ok st'.directives := by
  obtain ⟨acc0, h0, h1⟩ := directives_split C.built
  obtain ⟨D, hD⟩ := C.reload_directives_ok h0 h1
  have hd : declareDirectives (pre.merge P).directives [] = .ok D := declareDirectives_append_ok h0 hD
  have hext : (pre.merge P).extensions = [] := by simp [SchemaDoc.merge, C.hpre.noExt, C.hP.extensions]
  exact ⟨_, acc0, buildState_noExt hext C.reload_names_nodup hd, rfl, h1, hD⟩

theorem Ctx.sameSk {st' : LState} (hb' : buildState (pre.merge P) = .ok st') (ht : st'.types = reTypes pre P) :
    SameSk st.types st'.types :=
  ⟨C.F.typesInv.1, (buildState_inv hb').1.1, fun n => by rw [ht]; exact C.sk_types n⟩

theorem Ctx.skEq {st' : LState} {acc0 : List (Name × DirectiveDef)} (hb' : buildState (pre.merge P) = .ok st')
    (ht : st'.types = reTypes pre P) (h1 : declareDirectives u.directives acc0 = .ok st.directives)
    (hD : declareDirectives P.directives acc0 = .ok st'.directives) : SkEq st st' := by
  refine ⟨(C.sameSk hb' ht).2.2, C.sk_dirs h1 hD, ?_⟩
  apply isCovariant_congr (noNil_of_buildState C.built)
  intro k
  have e1 : st.possible = (buildRelations st.types).1 := congrArg Prod.fst C.F.rel
  have e2 : st'.possible = (buildRelations st'.types).1 := congrArg Prod.fst (buildState_inv hb').2.2
  rw [e1, e2]
  exact (C.sameSk hb' ht).possible_entries k

end

end Gql.Format
