import GqlProofs.Format.ReloadFinish
/-
  The reload theorem for the MODELS: for a schema `s` loaded from `prelude ⊕ u` and a document `P`
  that is, up to positions, what `FormatSchema` prints for `s` (without `WithBuiltin`), the loader
  accepts `prelude ⊕ P` and returns a schema that is `ReloadEquiv` to `s`.
-/
namespace Gql.Format
open Gql Gql.Load Gql.Parser

/-! ### the equivalence -/

/-- `s'` is `s` reloaded from its formatted text: the same root operation types; name by name the same
    types and directive definitions — a built-in type / a prelude directive definition is the identical
    definition, every other one is the original up to positions and up to what the formatter
    normalises (`normDef cfg`: a block-string VALUE comes back as a string value; `WithoutDescription`
    drops descriptions); the same schema directives up to positions; possible types and implementers
    of every name up to order.  The order of the maps is irrelevant (lookups, key lists up to
    permutation).  `Schema.Description` is NOT kept (`description`): `FormatSchema` never prints it. -/
structure ReloadEquiv (cfg : Cfg) (s s' : Schema) : Prop where
  query : s'.query = s.query
  mutation : s'.mutation = s.mutation
  subscription : s'.subscription = s.subscription
  schemaDirectives : s'.schemaDirectives.map Directive.erasePos = (s.schemaDirectives.map normDir).map Directive.erasePos
  description : s'.description = []
  typeNames : (s'.types.map Prod.fst).Perm (s.types.map Prod.fst)
  types : ∀ n d, s.types.lookup n = some d → ∃ d', s'.types.lookup n = some d' ∧
    (d.builtIn = true → d' = d) ∧ (d.builtIn = false → d'.erasePos = (normDef cfg d).erasePos)
  directiveNames : (s'.directives.map Prod.fst).Perm (s.directives.map Prod.fst)
  directives : ∀ n dd, s.directives.lookup n = some dd → ∃ dd', s'.directives.lookup n = some dd' ∧
    (dd.pos.src = 0 → dd' = dd) ∧ (dd.pos.src ≠ 0 → dd'.erasePos = (normDirectiveDef cfg dd).erasePos)
  possible : ∀ k, (s'.possible k).Perm (s.possible k)
  implementsOf : ∀ k, (s'.implementsOf k).Perm (s.implementsOf k)

/-- when no schema definition is printed, loading the text infers the same roots:
    every root is the default-named type, or absent with no type of the default name -/
def RootsPrintable (s : Schema) : Prop :=
  needSchema s = false →
    (isDefaultRoot s s.query (str "Query") && isDefaultRoot s s.mutation (str "Mutation") &&
      isDefaultRoot s s.subscription (str "Subscription")) = true

instance (s : Schema) : Decidable (RootsPrintable s) := by unfold RootsPrintable; infer_instance

/-! ### root operation types, without positions -/

def setRootsP (T : List (Name × Definition)) : List (Bytes × Name) → Roots → Option Roots
  | [], r => some r
  | (op, ty) :: rest, r =>
    match T.lookup ty with
    | none => none
    | some d =>
      if op == opQuery then
        if r.query.isSome then none else setRootsP T rest { r with query := some d.name }
      else if op == opMutation then
        if r.mutation.isSome then none else setRootsP T rest { r with mutation := some d.name }
      else if op == opSubscription then
        if r.subscription.isSome then none else setRootsP T rest { r with subscription := some d.name }
      else setRootsP T rest r

theorem setRoots_toOption (T : List (Name × Definition)) (l : List OpTypeDef) (r : Roots) :
    (setRoots T l r).toOption = setRootsP T (l.map fun e => (e.op, e.type)) r := by
  induction l generalizing r with
  | nil => rfl
  | cons e rest ih =>
    simp only [setRoots, List.map_cons, setRootsP]
    cases T.lookup e.type with
    | none => rfl
    | some d =>
      simp only
      split
      · split
        · rfl
        · exact ih _
      · split
        · split
          · rfl
          · exact ih _
        · split
          · split
            · rfl
            · exact ih _
          · exact ih _

theorem setRoots_of_P {T : List (Name × Definition)} {l : List OpTypeDef} {r r' : Roots}
    (h : setRootsP T (l.map fun e => (e.op, e.type)) r = some r') : setRoots T l r = .ok r' := by
  have := setRoots_toOption T l r
  rw [h] at this
  cases hs : setRoots T l r with
  | error e => rw [hs] at this; cases this
  | ok x => rw [hs] at this; simp only [Except.toOption, Option.some.injEq] at this; rw [this]

theorem opPairs_of_erasePos {l l' : List OpTypeDef} (h : l'.map OpTypeDef.erasePos = l.map OpTypeDef.erasePos) :
    (l'.map fun e => (e.op, e.type)) = l.map fun e => (e.op, e.type) := by
  have := congrArg (List.map fun e : OpTypeDef => (e.op, e.type)) h
  simpa [List.map_map, Function.comp_def, OpTypeDef.erasePos] using this

/-- the roots that are set resolve, by their own names, in `T` -/
def RootsResolve (T : List (Name × Definition)) (s : Schema) : Prop :=
  (∀ n, s.query = some n → ∃ d, T.lookup n = some d ∧ d.name = n) ∧
  (∀ n, s.mutation = some n → ∃ d, T.lookup n = some d ∧ d.name = n) ∧
  (∀ n, s.subscription = some n → ∃ d, T.lookup n = some d ∧ d.name = n)

theorem setRootsP_rootOpTypes {T : List (Name × Definition)} {s : Schema} (h : RootsResolve T s) :
    setRootsP T ((rootOpTypes s).map fun e => (e.op, e.type)) noRoots =
      some { query := s.query, mutation := s.mutation, subscription := s.subscription } := by
  obtain ⟨hq, hm, hs⟩ := h
  have eq1 : (str "query" : Bytes) = opQuery := rfl
  have eq2 : (str "mutation" : Bytes) = opMutation := rfl
  have eq3 : (str "subscription" : Bytes) = opSubscription := rfl
  cases hqq : s.query with
  | none =>
    cases hmm : s.mutation with
    | none =>
      cases hss : s.subscription with
      | none => simp [rootOpTypes, rootOpType, hqq, hmm, hss, setRootsP, noRoots]
      | some c =>
        obtain ⟨dc, hc1, hc2⟩ := hs c hss
        simp [rootOpTypes, rootOpType, hqq, hmm, hss, setRootsP, noRoots, hc1, hc2, eq3, opSubscription_ne_opQuery,
          opSubscription_ne_opMutation]
    | some b =>
      obtain ⟨db, hb1, hb2⟩ := hm b hmm
      cases hss : s.subscription with
      | none => simp [rootOpTypes, rootOpType, hqq, hmm, hss, setRootsP, noRoots, hb1, hb2, eq2, opMutation_ne_opQuery]
      | some c =>
        obtain ⟨dc, hc1, hc2⟩ := hs c hss
        simp [rootOpTypes, rootOpType, hqq, hmm, hss, setRootsP, noRoots, hb1, hb2, hc1, hc2, eq2, eq3,
          opMutation_ne_opQuery, opSubscription_ne_opQuery, opSubscription_ne_opMutation]
  | some a =>
    obtain ⟨da, ha1, ha2⟩ := hq a hqq
    cases hmm : s.mutation with
    | none =>
      cases hss : s.subscription with
      | none => simp [rootOpTypes, rootOpType, hqq, hmm, hss, setRootsP, noRoots, ha1, ha2, eq1]
      | some c =>
        obtain ⟨dc, hc1, hc2⟩ := hs c hss
        simp [rootOpTypes, rootOpType, hqq, hmm, hss, setRootsP, noRoots, ha1, ha2, hc1, hc2, eq1, eq3,
          opSubscription_ne_opQuery, opSubscription_ne_opMutation]
    | some b =>
      obtain ⟨db, hb1, hb2⟩ := hm b hmm
      cases hss : s.subscription with
      | none =>
        simp [rootOpTypes, rootOpType, hqq, hmm, hss, setRootsP, noRoots, ha1, ha2, hb1, hb2, eq1, eq2,
          opMutation_ne_opQuery]
      | some c =>
        obtain ⟨dc, hc1, hc2⟩ := hs c hss
        simp [rootOpTypes, rootOpType, hqq, hmm, hss, setRootsP, noRoots, ha1, ha2, hb1, hb2, hc1, hc2, eq1, eq2, eq3,
          opMutation_ne_opQuery, opSubscription_ne_opQuery, opSubscription_ne_opMutation]

/-! ### the schema directives passed their check -/

theorem validateDirectives_append {st : LState} {a b : List Directive} {loc : Bytes} {cur : Option Name}
    (ha : validateDirectives st a loc cur = .pass) (hb : validateDirectives st b loc cur = .pass) :
    validateDirectives st (a ++ b) loc cur = .pass := by
  unfold validateDirectives at *
  rw [each_eq_pass] at *
  intro d hd
  rcases List.mem_append.mp hd with h | h
  · exact ha d h
  · exact hb d h

theorem applySchemaDefs_dirs_pass {st : LState} {l : List SchemaDef} {r r' : Roots} {acc acc' : List Directive}
    (h : applySchemaDefs st l r acc = .ok r' acc') (hacc : validateDirectives st acc locSchema none = .pass) :
    validateDirectives st acc' locSchema none = .pass := by
  induction l generalizing r acc with
  | nil => simp [applySchemaDefs] at h; rw [← h.2]; exact hacc
  | cons sdef rest ih =>
    simp only [applySchemaDefs] at h
    split at h
    · rename_i r2 acc2 h2
      refine ih h ?_
      unfold applySchemaDef at h2
      split at h2
      · cases h2
      · split at h2
        · cases h2
        · cases h2
        · rename_i hv
          simp only [RootsResult.ok.injEq] at h2
          rw [← h2.2]
          exact validateDirectives_append hacc hv
    · rename_i hne
      exact absurd h (hne _ _)

theorem applySchemaDefs_dirs_eq {st : LState} {l : List SchemaDef} {r r' : Roots} {acc acc' : List Directive}
    (h : applySchemaDefs st l r acc = .ok r' acc') : acc' = acc ++ l.flatMap (·.dirs) := by
  induction l generalizing r acc with
  | nil => simp [applySchemaDefs] at h; rw [← h.2]; simp
  | cons sdef rest ih =>
    simp only [applySchemaDefs] at h
    split at h
    · rename_i r2 acc2 h2
      have := ih h
      unfold applySchemaDef at h2
      split at h2
      · cases h2
      · split at h2
        · cases h2
        · cases h2
        · simp only [RootsResult.ok.injEq] at h2
          rw [this, ← h2.2]
          simp
    · rename_i hne
      exact absurd h (hne _ _)

/-- `load_ok_inv` and `loaded_facts` for the same state -/
theorem loaded_run {sd : SchemaDoc} {s : Schema} (h : load sd = .ok s) :
    ∃ st r1 d1, Facts sd s st r1 d1 ∧ validateTypeDefinitions st = .pass ∧ validateDirectiveDefinitions st = .pass ∧
      validateDirectives st d1 locSchema none = .pass ∧ d1 = (sd.schema ++ sd.schemaExt).flatMap (·.dirs) := by
  obtain ⟨st, r0, d0, r1, d1, hb, _, h0, h1, ht, hd, hs, hk⟩ := load_ok_inv' h
  obtain ⟨hti, hdi, hrel⟩ := buildState_inv hb
  have hr0 := applySchemaDefs_ok hti (r := noRoots) (acc := [])
    ⟨by simp [noRoots], by simp [noRoots], by simp [noRoots]⟩ (by simp [SchemaDirsOK]) h0
  have hr1 := applySchemaDefs_ok hti hr0.1 hr0.2 h1
  have hnil : validateDirectives st [] locSchema none = .pass := rfl
  have hd1 : d1 = (sd.schema ++ sd.schemaExt).flatMap (·.dirs) := by
    rw [applySchemaDefs_dirs_eq h1, applySchemaDefs_dirs_eq h0]; simp
  refine ⟨st, r1, d1, ⟨hs, hb, hti, hdi, hrel, ?_, ?_, ?_, hr1.2, hk⟩, ht, hd,
    applySchemaDefs_dirs_pass h1 (applySchemaDefs_dirs_pass h0 hnil), hd1⟩
  · intro p hp
    exact validateTypeDefinitions_pass ht p.1 p.2 (lookup_of_mem_nodup hti.1 hp)
  · intro p hp
    exact validateDirectiveDefinitions_pass hd p.1 p.2 (lookup_of_mem_nodup hdi.1 hp)
  · unfold finalRoots
    split
    · exact inferRoots_ok hti hr1.1
    · exact hr1.1

end Gql.Format
