import GqlProofs.Format.ReloadDoc
/-
  Name by name: what the loader stores for `prelude ⊕ P` (the reparsed text) against what it stored for
  `prelude ⊕ u` (the original sources).
  * a type that is not built in comes back as its reparsed definition (`lookup_user`),
  * a built-in type is the prelude's definition, unchanged (`lookup_builtin`), nothing else appears;
  * the same for directive definitions (`dlookup_user`, `dlookup_prelude`, `dlookup_none`), and the
    directive map of the reparsed text is built without error (`reload_directives_ok`).
-/
namespace Gql.Format
open Gql Gql.Load Gql.Parser

theorem normDef_builtIn_false (cfg : Cfg) {x : Definition} (h : x.builtIn = false) :
    ({ normDef cfg x with builtIn := false } : Definition) = normDef cfg x := by
  cases x
  simp only [normDef] at h ⊢
  subst h
  rfl

/-- the type map the loader builds for `prelude ⊕ P` -/
def reTypes (pre P : SchemaDoc) : List (Name × Definition) := (pre.merge P).definitions.map fun d => (d.name, d)

theorem lookup_reTypes (pre P : SchemaDoc) (n : Name) :
    (reTypes pre P).lookup n = (pre.definitions.find? (·.name == n)).or (P.definitions.find? (·.name == n)) := by
  unfold reTypes
  rw [lookup_map_pairs]
  simp only [SchemaDoc.merge, List.find?_append]

section
variable {cfg : Cfg} {pre u : SchemaDoc} {s : Schema} {st : LState} {r1 : Roots} {d1 : List Directive} {P : SchemaDoc}
variable (C : Ctx cfg pre u s st r1 d1 P)
include C

theorem Ctx.P_names_nodup : (P.definitions.map (·.name)).Nodup := by
  rw [C.hP.def_names]; exact C.userDefs_nodup

/-- every reparsed definition is the reparse of a printed one, and conversely -/
theorem Ctx.reparsed_of_user {x : Definition} (hx : x ∈ userDefs cfg s) (hbi : x.builtIn = false) :
    ∃ d' ∈ P.definitions, d'.erasePos = (normDef cfg x).erasePos := by
  obtain ⟨d', hd', e⟩ := exists_of_map_eq_right C.hP.definitions hx
  refine ⟨d', hd', ?_⟩
  simp only at e
  rw [normDef_builtIn_false cfg hbi] at e
  exact e

theorem Ctx.user_of_reparsed {d' : Definition} (hd' : d' ∈ P.definitions) :
    ∃ x ∈ userDefs cfg s, d'.name = x.name := by
  obtain ⟨x, hx, e⟩ := exists_of_map_eq_left C.hP.definitions hd'
  refine ⟨x, hx, ?_⟩
  have := congrArg Definition.name e
  simpa [Definition.erasePos, normDef] using this

omit C in
theorem name_of_reparsed {cfg : Cfg} {x d' : Definition} (h : d'.erasePos = (normDef cfg x).erasePos) : d'.name = x.name := by
  have := congrArg Definition.name h
  simpa [Definition.erasePos, normDef] using this

theorem Ctx.lookup_user {n : Name} {x : Definition} (hl : st.types.lookup n = some x) (hbi : x.builtIn = false) :
    ∃ d', (reTypes pre P).lookup n = some d' ∧ d'.erasePos = (normDef cfg x).erasePos := by
  have hmem := mem_of_lookup hl
  have hname : x.name = n := C.F.typesInv.2 _ hmem
  have hx : x ∈ userDefs cfg s := C.mem_userDefs.mpr ⟨(n, x), hmem, hbi, rfl⟩
  obtain ⟨d', hd', e⟩ := C.reparsed_of_user hx hbi
  have hn' : d'.name = n := (name_of_reparsed e).trans hname
  refine ⟨d', ?_, e⟩
  rw [lookup_reTypes]
  have h1 : pre.definitions.find? (·.name == n) = none := by
    apply find?_key_none Definition.name
    intro d hd e'
    exact C.user_name_not_prelude hx hd (hname.trans e'.symm)
  have h2 : P.definitions.find? (·.name == n) = some d' := by
    have := find?_key_of_mem Definition.name C.P_names_nodup hd'
    rw [hn'] at this
    exact this
  rw [h1, h2]; rfl

theorem Ctx.lookup_builtin {n : Name} {x : Definition} (hl : st.types.lookup n = some x) (hbi : x.builtIn = true) :
    (reTypes pre P).lookup n = some x := by
  have hmem := mem_of_lookup hl
  have hname : x.name = n := C.F.typesInv.2 _ hmem
  have hx : x ∈ pre.definitions := builtin_types_from_prelude C.hpre C.hu C.built hmem hbi
  rw [lookup_reTypes]
  have h1 : pre.definitions.find? (·.name == n) = some x := by
    have := find?_key_of_mem Definition.name C.pre_names_nodup hx
    rw [hname] at this
    exact this
  rw [h1]; rfl

theorem Ctx.lookup_absent {n : Name} (hl : st.types.lookup n = none) : (reTypes pre P).lookup n = none := by
  rw [lookup_reTypes]
  have h1 : pre.definitions.find? (·.name == n) = none := by
    apply find?_key_none Definition.name
    intro d hd e
    have := prelude_types_stored C.hpre C.hu C.built hd
    rw [e, hl] at this; cases this
  have h2 : P.definitions.find? (·.name == n) = none := by
    apply find?_key_none Definition.name
    intro d' hd' e
    obtain ⟨x, hx, hn⟩ := C.user_of_reparsed hd'
    obtain ⟨p, hp, _, rfl⟩ := C.mem_userDefs.mp hx
    have hk : p.1 = n := ((C.F.typesInv.2 p hp).symm.trans hn.symm).trans e
    have := lookup_of_mem_nodup C.F.typesInv.1 hp
    rw [hk, hl] at this; cases this
  rw [h1, h2]; rfl

/-- name by name, the reloaded type map holds definitions with the skeletons of the original ones -/
theorem Ctx.sk_types (n : Name) : ((reTypes pre P).lookup n).map skDef = (st.types.lookup n).map skDef := by
  cases hl : st.types.lookup n with
  | none => rw [C.lookup_absent hl]
  | some x =>
    cases hbi : x.builtIn with
    | true => rw [C.lookup_builtin hl hbi]
    | false =>
      obtain ⟨d', h1, h2⟩ := C.lookup_user hl hbi
      rw [h1]
      simp only [Option.map, skDef_of_reparsed h2]

/-! ### directive definitions -/

theorem Ctx.directives_eq : s.directives = st.directives := by rw [C.F.eq]; rfl

theorem Ctx.keepDirectiveDef_eq (dd : DirectiveDef) : keepDirectiveDef cfg dd = !(dd.pos.src == 0) := by
  simp [keepDirectiveDef, C.hb, srcZeroBuiltIn]

theorem Ctx.userDirs_perm : (userDirs cfg s).Perm ((st.directives.map Prod.snd).filter fun dd => !(dd.pos.src == 0)) := by
  unfold userDirs
  have h1 : (sortedByKey s.directives).Perm (st.directives.map Prod.snd) := by
    rw [C.directives_eq]
    unfold sortedByKey
    exact (List.mergeSort_perm _ _).map _
  have h3 := h1.filter (keepDirectiveDef cfg)
  have h4 : (st.directives.map Prod.snd).filter (keepDirectiveDef cfg) =
      (st.directives.map Prod.snd).filter fun dd => !(dd.pos.src == 0) := by
    apply List.filter_congr
    intro d _
    exact C.keepDirectiveDef_eq d
  rw [h4] at h3
  exact h3

theorem Ctx.mem_userDirs {dd : DirectiveDef} :
    dd ∈ userDirs cfg s ↔ ∃ p ∈ st.directives, p.2.pos.src ≠ 0 ∧ p.2 = dd := by
  rw [C.userDirs_perm.mem_iff]
  simp only [List.mem_filter, List.mem_map, Bool.not_eq_eq_eq_not, Bool.not_true, beq_eq_false_iff_ne]
  constructor
  · rintro ⟨⟨p, hp, rfl⟩, hb⟩; exact ⟨p, hp, hb, rfl⟩
  · rintro ⟨p, hp, hb, rfl⟩; exact ⟨⟨p, hp, rfl⟩, hb⟩

theorem Ctx.userDirs_nodup : ((userDirs cfg s).map (·.name)).Nodup := by
  rw [(C.userDirs_perm.map _).nodup_iff]
  have : (((st.directives.map Prod.snd).filter fun dd => !(dd.pos.src == 0)).map (·.name)).Sublist
      ((st.directives.map Prod.snd).map (·.name)) := (List.filter_sublist).map _
  apply this.nodup
  have : (st.directives.map Prod.snd).map (·.name) = st.directives.map Prod.fst := by
    rw [List.map_map]
    apply List.map_congr_left
    intro p hp
    exact C.F.dirsInv.2 p hp
  rw [this]
  exact C.F.dirsInv.1

theorem Ctx.P_dir_names_nodup : (P.directives.map (·.name)).Nodup := by
  rw [C.hP.dir_names]; exact C.userDirs_nodup

omit C in
theorem dname_of_reparsed {cfg : Cfg} {x d' : DirectiveDef} (h : d'.erasePos = (normDirectiveDef cfg x).erasePos) :
    d'.name = x.name := by
  have := congrArg DirectiveDef.name h
  simpa [DirectiveDef.erasePos, normDirectiveDef] using this

/-- a reparsed directive definition stems from a stored user definition of the same name -/
theorem Ctx.userDir_of_reparsed {d' : DirectiveDef} (hd' : d' ∈ P.directives) :
    ∃ dd, st.directives.lookup d'.name = some dd ∧ dd.pos.src ≠ 0 ∧ d'.erasePos = (normDirectiveDef cfg dd).erasePos := by
  obtain ⟨x, hx, e⟩ := exists_of_map_eq_left C.hP.directives hd'
  obtain ⟨p, hp, hs, rfl⟩ := C.mem_userDirs.mp hx
  refine ⟨p.2, ?_, hs, e⟩
  have hk : p.2.name = p.1 := C.F.dirsInv.2 p hp
  rw [dname_of_reparsed e, hk]
  exact lookup_of_mem_nodup C.F.dirsInv.1 hp

/-- the directive map of the reparsed text is built without error -/
theorem Ctx.reload_directives_ok {acc0 : List (Name × DirectiveDef)} (h0 : declareDirectives pre.directives [] = .ok acc0)
    (h1 : declareDirectives u.directives acc0 = .ok st.directives) :
    ∃ D, declareDirectives P.directives acc0 = .ok D := by
  apply declareDirectives_ok_suff C.P_dir_names_nodup
  intro d' hd'
  obtain ⟨dd, hl, hs, _⟩ := C.userDir_of_reparsed hd'
  exact (user_directive_facts C.hpre C.hu h0 h1 hl hs).2.2

theorem Ctx.dlookup_user {acc0 D : List (Name × DirectiveDef)} (hD : declareDirectives P.directives acc0 = .ok D)
    {n : Name} {dd : DirectiveDef} (hl : st.directives.lookup n = some dd) (hs : dd.pos.src ≠ 0) :
    ∃ d', D.lookup n = some d' ∧ d'.erasePos = (normDirectiveDef cfg dd).erasePos := by
  have hmem := mem_of_lookup hl
  have hname : dd.name = n := C.F.dirsInv.2 _ hmem
  have hx : dd ∈ userDirs cfg s := C.mem_userDirs.mpr ⟨(n, dd), hmem, hs, rfl⟩
  obtain ⟨d', hd', e⟩ := exists_of_map_eq_right C.hP.directives hx
  refine ⟨d', ?_, e⟩
  rw [declareDirectives_lookup_last hD]
  exact lastNamed_of_mem_nodup C.P_dir_names_nodup hd' ((dname_of_reparsed e).trans hname) _

theorem Ctx.no_reparsed_named {n : Name} (h : ∀ dd, st.directives.lookup n = some dd → dd.pos.src = 0) :
    ∀ d' ∈ P.directives, d'.name ≠ n := by
  intro d' hd' e
  obtain ⟨dd, hl, hs, _⟩ := C.userDir_of_reparsed hd'
  rw [e] at hl
  exact hs (h dd hl)

theorem Ctx.dlookup_prelude {acc0 D : List (Name × DirectiveDef)}
    (h1 : declareDirectives u.directives acc0 = .ok st.directives) (hD : declareDirectives P.directives acc0 = .ok D)
    {n : Name} {dd : DirectiveDef} (hl : st.directives.lookup n = some dd) (hs : dd.pos.src = 0) :
    D.lookup n = some dd := by
  rw [declareDirectives_lookup_last hD, lastNamed_none, prelude_directive_facts C.hu h1 hl hs]
  apply C.no_reparsed_named
  intro dd' hl'
  rw [hl] at hl'
  simp only [Option.some.injEq] at hl'
  rw [← hl']; exact hs

theorem Ctx.dlookup_absent {acc0 D : List (Name × DirectiveDef)}
    (h1 : declareDirectives u.directives acc0 = .ok st.directives) (hD : declareDirectives P.directives acc0 = .ok D)
    {n : Name} (hl : st.directives.lookup n = none) : D.lookup n = none := by
  rw [declareDirectives_lookup_last hD, lastNamed_none, absent_directive_facts h1 hl]
  apply C.no_reparsed_named
  intro dd' hl'
  rw [hl] at hl'; cases hl'

theorem Ctx.sk_dirs {acc0 D : List (Name × DirectiveDef)} (h1 : declareDirectives u.directives acc0 = .ok st.directives)
    (hD : declareDirectives P.directives acc0 = .ok D) (n : Name) :
    (D.lookup n).map skDirDef = (st.directives.lookup n).map skDirDef := by
  cases hl : st.directives.lookup n with
  | none => rw [C.dlookup_absent h1 hD hl]
  | some dd =>
    by_cases hs : dd.pos.src = 0
    · rw [C.dlookup_prelude h1 hD hl hs]
    · obtain ⟨d', h2, h3⟩ := C.dlookup_user hD hl hs
      rw [h2]
      simp only [Option.map, skDirDef_of_reparsed h3]

end

end Gql.Format
