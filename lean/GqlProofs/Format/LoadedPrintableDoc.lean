import GqlProofs.Format.LoadedPrintable
/-
  `docOfSchema_printable`: the document `FormatSchema` prints for a schema loaded from a formattable,
  grammatical source document is again formattable and grammatical (`FormattableSchema`, `DocAll ItemOK`:
  the hypotheses of the formatter → parser bridge `C13_format_roundtrip`).
-/
namespace Gql.Format
open Gql Gql.Load Gql.Parser Gql.Grammar Gql.Print

/-- a definition the bridge can handle: formattable and satisfying the parser's side conditions -/
def DefGood (d : Definition) : Prop := defOk d = true ∧ Gql.Parser.DefOK d

theorem cdirs_append {a b : List Directive} (ha : CDirs a) (hb : CDirs b) : CDirs (a ++ b) := by
  constructor
  · intro x hx
    rcases List.mem_append.mp hx with h | h
    · exact ha.1 x h
    · exact hb.1 x h
  · intro x hx
    rcases List.mem_append.mp hx with h | h
    · exact ha.2 x h
    · exact hb.2 x h

theorem cdirs_nil : CDirs [] := by
  constructor <;> intro x hx <;> cases hx

theorem defOk_applyExt {d e : Definition} (hd : defOk d = true) (he : defOk e = true) (hk : e.kind = d.kind) :
    defOk (applyExt e d) = true := by
  unfold defOk at hd he ⊢
  simp only [Bool.and_eq_true] at hd he ⊢
  obtain ⟨⟨⟨⟨⟨⟨⟨d1, d2⟩, d3⟩, d4⟩, d5⟩, d6⟩, d7⟩, d8⟩ := hd
  obtain ⟨⟨⟨⟨⟨⟨⟨_, _⟩, e3⟩, e4⟩, e5⟩, e6⟩, e7⟩, e8⟩ := he
  refine ⟨⟨⟨⟨⟨⟨⟨d1, d2⟩, ?_⟩, ?_⟩, ?_⟩, ?_⟩, ?_⟩, ?_⟩
  · simp only [applyExt, List.all_append, Bool.and_eq_true]; exact ⟨d3, e3⟩
  · simp only [applyExt, List.all_append, Bool.and_eq_true]; exact ⟨d4, e4⟩
  · simp only [applyExt, List.all_append, Bool.and_eq_true]; exact ⟨d5, e5⟩
  · simp only [applyExt, List.all_append, Bool.and_eq_true]; exact ⟨d6, e6⟩
  · simp only [applyExt, List.all_append, Bool.and_eq_true]; exact ⟨d7, e7⟩
  · unfold shapeOk at d8 e8 ⊢
    rw [hk] at e8
    have hk' : (applyExt e d).kind = d.kind := rfl
    rw [hk']
    cases hkd : d.kind <;> simp only [hkd] at d8 e8 ⊢ <;>
      simp only [Bool.and_eq_true, List.isEmpty_iff] at d8 e8 ⊢ <;>
      simp_all [applyExt, List.all_append]

theorem parserDefOK_applyExt {d e : Definition} (hd : Gql.Parser.DefOK d) (he : Gql.Parser.DefOK e) (hk : e.kind = d.kind) :
    Gql.Parser.DefOK (applyExt e d) := by
  unfold Gql.Parser.DefOK at hd he ⊢
  obtain ⟨hd1, hd2⟩ := hd
  obtain ⟨he1, he2⟩ := he
  refine ⟨cdirs_append hd1 he1, ?_⟩
  rw [hk] at he2
  have hk' : (applyExt e d).kind = d.kind := rfl
  rw [hk']
  cases hkd : d.kind <;> simp only [hkd] at hd2 he2 ⊢
  · obtain ⟨a1, a2, a3, a4⟩ := hd2; obtain ⟨b1, b2, b3, b4⟩ := he2
    simp [applyExt, a1, a2, a3, a4, b1, b2, b3, b4]
  · obtain ⟨a1, a2, a3⟩ := hd2; obtain ⟨b1, b2, b3⟩ := he2
    refine ⟨by simp [applyExt, a1, b1], by simp [applyExt, a2, b2], ?_⟩
    intro f hf
    rcases List.mem_append.mp hf with h | h
    · exact a3 f h
    · exact b3 f h
  · obtain ⟨a1, a2, a3⟩ := hd2; obtain ⟨b1, b2, b3⟩ := he2
    refine ⟨by simp [applyExt, a1, b1], by simp [applyExt, a2, b2], ?_⟩
    intro f hf
    rcases List.mem_append.mp hf with h | h
    · exact a3 f h
    · exact b3 f h
  · obtain ⟨a1, a2, a3⟩ := hd2; obtain ⟨b1, b2, b3⟩ := he2
    simp [applyExt, a1, a2, a3, b1, b2, b3]
  · obtain ⟨a1, a2, a3, a4⟩ := hd2; obtain ⟨b1, b2, b3, b4⟩ := he2
    refine ⟨by simp [applyExt, a1, b1], by simp [applyExt, a2, b2], by simp [applyExt, a3, b3], ?_⟩
    intro f hf
    rcases List.mem_append.mp hf with h | h
    · exact a4 f h
    · exact b4 f h
  · obtain ⟨a1, a2, a3, a4⟩ := hd2; obtain ⟨b1, b2, b3, b4⟩ := he2
    refine ⟨by simp [applyExt, a1, b1], by simp [applyExt, a2, b2], by simp [applyExt, a3, b3], ?_⟩
    intro f hf
    rcases List.mem_append.mp hf with h | h
    · exact a4 f h
    · exact b4 f h

theorem defGood_applyExt {d e : Definition} (hd : DefGood d) (he : DefGood e) (hk : e.kind = d.kind) :
    DefGood (applyExt e d) :=
  ⟨defOk_applyExt hd.1 he.1 hk, parserDefOK_applyExt hd.2 he.2 hk⟩

theorem defGood_extStub {e : Definition} (he : DefGood e) : DefGood (extStub e) := by
  constructor
  · have hn : isNameB e.name = true := by
      have := he.1
      unfold defOk at this
      simp only [Bool.and_eq_true] at this
      exact this.1.1.1.1.1.1.2
    have hs : strRaw ([] : Bytes) = true := by decide
    unfold defOk shapeOk extStub
    cases e.kind <;> simp [hn, hs]
  · unfold Gql.Parser.DefOK extStub
    refine ⟨cdirs_nil, ?_⟩
    cases e.kind <;> simp

theorem defGood_fold (es : List Definition) (d : Definition) (hd : DefGood d)
    (hes : ∀ e ∈ es, DefGood e ∧ e.kind = d.kind) : DefGood (es.foldl (fun d e => applyExt e d) d) := by
  induction es generalizing d with
  | nil => exact hd
  | cons e rest ih =>
    simp only [List.foldl_cons]
    apply ih
    · exact defGood_applyExt hd (hes e (by simp)).1 (hes e (by simp)).2
    · intro e' he'
      exact ⟨(hes e' (by simp [he'])).1, (hes e' (by simp [he'])).2⟩

/-- every definition the loader stores is good when the definitions and extensions of the document are -/
theorem state_types_good {sd : SchemaDoc} {st : LState} (hb : buildState sd = .ok st)
    (hdefs : ∀ d ∈ sd.definitions, DefGood d) (hexts : ∀ e ∈ sd.extensions, DefGood e) :
    ∀ p ∈ st.types, DefGood p.2 := by
  intro p hp
  obtain ⟨hti, _, _⟩ := buildState_inv hb
  have hl := lookup_of_mem_nodup hti.1 hp
  rw [state_lookup hb] at hl
  have hK := buildState_ext_kinds hb
  have hmemE : ∀ e ∈ sd.extensions.filter (·.name == p.1), e ∈ sd.extensions ∧ e.name = p.1 := by
    intro e he
    obtain ⟨h1, h2⟩ := List.mem_filter.mp he
    exact ⟨h1, by simpa using h2⟩
  cases hf : sd.definitions.find? (·.name == p.1) with
  | some d =>
    rw [hf] at hl
    simp only [mergedFrom, Option.some.injEq] at hl
    rw [← hl]
    obtain ⟨hdm, hdn⟩ := find?_key_some Definition.name hf
    apply defGood_fold _ _ (hdefs d hdm)
    intro e he
    obtain ⟨he1, he2⟩ := hmemE e he
    refine ⟨hexts e he1, ?_⟩
    simp only [Spec.extensionKindsMatch, List.all_eq_true] at hK
    have := hK e he1
    rw [he2, hf] at this
    exact (by simpa using this : d.kind = e.kind).symm
  | none =>
    rw [hf] at hl
    cases he : sd.extensions.filter (·.name == p.1) with
    | nil => rw [he] at hl; simp [mergedFrom] at hl
    | cons e es =>
      rw [he] at hl
      simp only [mergedFrom, Option.some.injEq] at hl
      rw [← hl]
      have hemem : e ∈ sd.extensions.filter (·.name == p.1) := by rw [he]; simp
      obtain ⟨he1, he2⟩ := hmemE e hemem
      apply defGood_fold _ _ (defGood_extStub (hexts e he1))
      intro e' he'
      have he'mem : e' ∈ sd.extensions.filter (·.name == p.1) := by rw [he]; exact he'
      obtain ⟨h1, h2⟩ := hmemE e' he'mem
      exact ⟨hexts e' h1, (ext_kinds_agree hK hf he1 he2 h1 h2).symm⟩

theorem dropHidden_finalDef {cfg : Cfg} (hb : cfg.emitBuiltin = false) (q : Option Name) {p : Name × Definition}
    (hf : ∀ f ∈ p.2.fields, hasDunder f.name = false) : dropHidden cfg (finalDef q p).2 = p.2 := by
  unfold finalDef
  split
  · split
    · exact dropHidden_addIntrospection hb hf
    · exact dropHidden_id hf
  · exact dropHidden_id hf

theorem isNameB_rootOps : isNameB (str "query") = true ∧ isNameB (str "mutation") = true ∧
    isNameB (str "subscription") = true := by decide

theorem rootOpType_ok (kw : Bytes) (hk : isNameB kw = true) (hop : isOperationType kw) (r : Option Name)
    (hr : ∀ n, r = some n → isNameB n = true) :
    (rootOpType kw r).all opTypeOk = true ∧ ∀ o ∈ rootOpType kw r, isOperationType o.op := by
  cases r with
  | none => exact ⟨rfl, fun o ho => by cases ho⟩
  | some n =>
    refine ⟨by simp [rootOpType, opTypeOk, hk, hr n rfl], ?_⟩
    intro o ho
    simp only [rootOpType, List.mem_singleton] at ho
    subst ho
    exact hop

theorem rootOpTypes_ok {s : Schema} (hq : ∀ n, s.query = some n → isNameB n = true)
    (hm : ∀ n, s.mutation = some n → isNameB n = true) (hs : ∀ n, s.subscription = some n → isNameB n = true) :
    (rootOpTypes s).all opTypeOk = true ∧ ∀ o ∈ rootOpTypes s, isOperationType o.op := by
  obtain ⟨n1, n2, n3⟩ := isNameB_rootOps
  obtain ⟨a1, a2⟩ := rootOpType_ok (str "query") n1 (Or.inl rfl) s.query hq
  obtain ⟨b1, b2⟩ := rootOpType_ok (str "mutation") n2 (Or.inr (Or.inl rfl)) s.mutation hm
  obtain ⟨c1, c2⟩ := rootOpType_ok (str "subscription") n3 (Or.inr (Or.inr rfl)) s.subscription hs
  unfold rootOpTypes
  refine ⟨by simp only [List.all_append, a1, b1, c1, Bool.and_self], ?_⟩
  intro o ho
  simp only [List.mem_append] at ho
  rcases ho with (ho | ho) | ho
  · exact a2 o ho
  · exact b2 o ho
  · exact c2 o ho

/-- **the document `FormatSchema` prints for a schema loaded from a formattable, grammatical document is
    formattable and grammatical** (configurations without `WithBuiltin`) -/
theorem docOfSchema_printable {cfg : Cfg} (hb : cfg.emitBuiltin = false) {sd : SchemaDoc} {s : Schema}
    (hload : load sd = .ok s) (hF : FormattableSchema sd) (hI : DocAll ItemOK sd) :
    FormattableSchema (docOfSchema cfg s) ∧ DocAll ItemOK (docOfSchema cfg s) := by
  obtain ⟨st, r1, d1, F, _, _, _, hd1⟩ := loaded_run hload
  unfold FormattableSchema schemaDocOk at hF
  simp only [Bool.and_eq_true, List.all_eq_true] at hF
  obtain ⟨⟨⟨⟨f1, f2⟩, f3⟩, f4⟩, f5⟩ := hF
  obtain ⟨i1, i2, i3, i4, i5⟩ := hI
  -- stored definitions
  have G : ∀ p ∈ st.types, DefGood p.2 := by
    apply state_types_good F.built
    · exact fun d hd => ⟨f4 d hd, i4 d hd⟩
    · intro e he
      have := f5 e he
      simp only [extOk, Bool.and_eq_true] at this
      exact ⟨this.1, (i5 e he).1⟩
  have hdefs : ∀ x ∈ (sortedByKey s.types).map (dropHidden cfg), ∃ p ∈ st.types, x = p.2 := by
    intro x hx
    obtain ⟨y, hy, rfl⟩ := List.mem_map.mp hx
    obtain ⟨p', hp', rfl⟩ := (mem_sortedByKey _ _).mp hy
    have hp'' : p' ∈ (mkSchema sd st r1 d1).types := by rw [← F.eq]; exact hp'
    rw [mkSchema_types_map F.typesInv.1] at hp''
    obtain ⟨p0, hp0, rfl⟩ := List.mem_map.mp hp''
    exact ⟨p0, hp0, dropHidden_finalDef hb _ (F.defOK p0 hp0).fieldNames⟩
  have hdirs : ∀ x ∈ sortedByKey s.directives, x ∈ sd.directives := by
    intro x hx
    obtain ⟨p, hp, rfl⟩ := (mem_sortedByKey _ _).mp hx
    have : s.directives = st.directives := by rw [F.eq]; rfl
    rw [this] at hp
    exact state_directives_mem F.built p hp
  -- schema directives
  have hsd : s.schemaDirectives = (sd.schema ++ sd.schemaExt).flatMap (·.dirs) := by rw [← hd1, F.eq]; rfl
  have hsd1 : s.schemaDirectives.all dirOk = true := by
    rw [hsd, List.all_eq_true]
    intro x hx
    simp only [List.mem_flatMap, List.mem_append] at hx
    obtain ⟨sdef, hs | hs, hxd⟩ := hx
    · have := f1 sdef hs
      simp only [schemaDefOk, Bool.and_eq_true, List.all_eq_true] at this
      exact this.1.2 x hxd
    · have := f2 sdef hs
      simp only [schemaExtOk, Bool.and_eq_true, List.all_eq_true] at this
      exact this.1.2 x hxd
  have hsd2 : CDirs s.schemaDirectives := by
    rw [hsd, List.flatMap_append]
    exact cdirs_append (CDirs_flatMap _ fun d hd => (i1 d hd).1) (CDirs_flatMap _ fun d hd => (i2 d hd).2.1)
  -- roots are names of stored definitions
  have hrootname : ∀ n, (st.types.lookup n).isSome → isNameB n = true := by
    intro n hn
    cases hl : st.types.lookup n with
    | none => rw [hl] at hn; cases hn
    | some d =>
      have hm := mem_of_lookup hl
      have hg := (G _ hm).1
      unfold defOk at hg
      simp only [Bool.and_eq_true] at hg
      have hname : d.name = n := F.typesInv.2 _ hm
      rw [← hname]
      exact hg.1.1.1.1.1.1.2
  have hroots := F.roots
  have hfr : finalRoots sd st r1 = ⟨s.query, s.mutation, s.subscription⟩ := by rw [F.eq]; rfl
  rw [hfr] at hroots
  obtain ⟨ro1, ro2⟩ := rootOpTypes_ok (s := s) (fun n hn => hrootname n (hroots.1 n hn))
    (fun n hn => hrootname n (hroots.2.1 n hn)) (fun n hn => hrootname n (hroots.2.2 n hn))
  have hs0 : strRaw ([] : Bytes) = true := by decide
  constructor
  · -- FormattableSchema
    unfold FormattableSchema schemaDocOk docOfSchema docOfSchemaRaw
    simp only [Bool.and_eq_true, List.all_eq_true]
    refine ⟨⟨⟨⟨?_, ?_⟩, ?_⟩, ?_⟩, ?_⟩
    · intro x hx
      split at hx
      · simp only [List.mem_singleton] at hx
        subst hx
        simp [schemaDefOk, hs0, hsd1, ro1]
      · cases hx
    · intro x hx
      split at hx
      · simp only [List.mem_singleton] at hx
        subst hx
        simp [schemaExtOk, hsd1]
      · cases hx
    · intro x hx
      exact f3 x (hdirs x hx)
    · intro x hx
      obtain ⟨p, hp, rfl⟩ := hdefs x hx
      exact (G p hp).1
    · intro x hx; cases hx
  · -- ItemOK
    unfold docOfSchema docOfSchemaRaw
    refine ⟨?_, ?_, ?_, ?_, ?_⟩
    · intro x hx
      simp only at hx
      split at hx
      · rename_i hn
        simp only [List.mem_singleton] at hx
        subst hx
        refine ⟨hsd2, ?_, ro2⟩
        simp only
        intro hnil
        have := needSchema_some_root hn
        unfold rootOpTypes rootOpType at hnil
        cases h1 : s.query <;> cases h2 : s.mutation <;> cases h3 : s.subscription <;> simp_all
      · cases hx
    · intro x hx
      simp only at hx
      split at hx
      · rename_i hc
        simp only [List.mem_singleton] at hx
        subst hx
        refine ⟨rfl, hsd2, Or.inl ?_, fun o ho => by cases ho⟩
        simp only [Bool.and_eq_true, Bool.not_eq_eq_eq_not, Bool.not_true, List.isEmpty_eq_false_iff] at hc
        simpa using hc.2
      · cases hx
    · intro x hx
      exact i3 x (hdirs x hx)
    · intro x hx
      obtain ⟨p, hp, rfl⟩ := hdefs x hx
      exact (G p hp).2
    · intro x hx; cases hx

end Gql.Format
