import GqlProofs.Format.ReloadLists
import GqlProofs.Format.SchemaDocOf
import GqlProofs.Format.FormattableSchema
/-
  The loader state of `prelude ⊕ user document`: which entries come from the prelude.

  `PreludeShape pre`: what `parser.ParseSchemas` gives for the built-in source — every definition
  flagged built in, every directive definition from source 0, no extensions, no schema definition.
  `UserShape pre u`: the user sources — nothing flagged built in, directive definitions from sources ≥ 1,
  and NO EXTENSION OF A PRELUDE TYPE (the formatter skips built-in types, so such an extension would be
  lost: see `C13_schema_reload_needs_no_builtin_extension`).
-/
namespace Gql.Format
open Gql Gql.Load

structure PreludeShape (pre : SchemaDoc) : Prop where
  noSchema : pre.schema = []
  noSchemaExt : pre.schemaExt = []
  noExt : pre.extensions = []
  defsBuiltIn : ∀ d ∈ pre.definitions, d.builtIn = true
  dirsSrc : ∀ dd ∈ pre.directives, dd.pos.src = 0

structure UserShape (pre u : SchemaDoc) : Prop where
  defsUser : ∀ d ∈ u.definitions, d.builtIn = false
  dirsSrc : ∀ dd ∈ u.directives, dd.pos.src ≠ 0
  extNotBuiltin : ∀ e ∈ u.extensions, ∀ d ∈ pre.definitions, e.name ≠ d.name

instance (pre : SchemaDoc) : Decidable (PreludeShape pre) :=
  decidable_of_iff (pre.schema = [] ∧ pre.schemaExt = [] ∧ pre.extensions = [] ∧
      (∀ d ∈ pre.definitions, d.builtIn = true) ∧ ∀ dd ∈ pre.directives, dd.pos.src = 0)
    ⟨fun ⟨a, b, c, d, e⟩ => ⟨a, b, c, d, e⟩, fun ⟨a, b, c, d, e⟩ => ⟨a, b, c, d, e⟩⟩

instance (pre u : SchemaDoc) : Decidable (UserShape pre u) :=
  decidable_of_iff ((∀ d ∈ u.definitions, d.builtIn = false) ∧ (∀ dd ∈ u.directives, dd.pos.src ≠ 0) ∧
      ∀ e ∈ u.extensions, ∀ d ∈ pre.definitions, e.name ≠ d.name)
    ⟨fun ⟨a, b, c⟩ => ⟨a, b, c⟩, fun ⟨a, b, c⟩ => ⟨a, b, c⟩⟩

theorem foldl_applyExt_builtIn (es : List Definition) (d : Definition) :
    (es.foldl (fun d e => applyExt e d) d).builtIn = d.builtIn := by
  induction es generalizing d with
  | nil => rfl
  | cons e rest ih => simp only [List.foldl_cons]; rw [ih]; rfl

section Original
variable {pre u : SchemaDoc} {st : LState}

/-- the prelude's definitions are stored untouched -/
theorem prelude_types_stored (hpre : PreludeShape pre) (hu : UserShape pre u) (hb : buildState (pre.merge u) = .ok st)
    {d : Definition} (hd : d ∈ pre.definitions) : st.types.lookup d.name = some d := by
  rw [state_lookup hb]
  have hn := buildState_defs_nodup hb
  have hfind : (pre.merge u).definitions.find? (·.name == d.name) = some d :=
    find?_key_of_mem Definition.name hn (by simp [SchemaDoc.merge, hd])
  have hext : (pre.merge u).extensions.filter (·.name == d.name) = [] := by
    rw [List.filter_eq_nil_iff]
    intro e he
    simp only [SchemaDoc.merge, hpre.noExt, List.nil_append] at he
    simpa using hu.extNotBuiltin e he d hd
  rw [hfind, hext]
  rfl

/-- … and every entry flagged built in is one of them -/
theorem builtin_types_from_prelude (hpre : PreludeShape pre) (hu : UserShape pre u)
    (hb : buildState (pre.merge u) = .ok st) {p : Name × Definition} (hp : p ∈ st.types) (hbi : p.2.builtIn = true) :
    p.2 ∈ pre.definitions := by
  obtain ⟨hti, _, _⟩ := buildState_inv hb
  have hl := lookup_of_mem_nodup hti.1 hp
  rw [state_lookup hb] at hl
  cases hf : (pre.merge u).definitions.find? (·.name == p.1) with
  | none =>
    rw [hf] at hl
    cases he : (pre.merge u).extensions.filter (·.name == p.1) with
    | nil => rw [he] at hl; simp [mergedFrom] at hl
    | cons e es =>
      rw [he] at hl
      simp only [mergedFrom, Option.some.injEq] at hl
      rw [← hl, foldl_applyExt_builtIn] at hbi
      cases hbi
  | some b =>
    rw [hf] at hl
    obtain ⟨hbm, hbn⟩ := find?_key_some Definition.name hf
    simp only [mergedFrom, Option.some.injEq] at hl
    have hbb : b.builtIn = true := by rw [← hl, foldl_applyExt_builtIn] at hbi; exact hbi
    have hbpre : b ∈ pre.definitions := by
      simp only [SchemaDoc.merge, List.mem_append] at hbm
      rcases hbm with h | h
      · exact h
      · rw [hu.defsUser b h] at hbb; cases hbb
    have hext : (pre.merge u).extensions.filter (·.name == p.1) = [] := by
      rw [List.filter_eq_nil_iff]
      intro e he
      simp only [SchemaDoc.merge, hpre.noExt, List.nil_append] at he
      rw [← hbn]
      simpa using hu.extNotBuiltin e he b hbpre
    rw [hext] at hl
    simp only [List.foldl_nil] at hl
    rw [← hl]; exact hbpre

/-- the directive map: the prelude's map, then the user's declarations -/
theorem directives_split (hb : buildState (pre.merge u) = .ok st) :
    ∃ acc0, declareDirectives pre.directives [] = .ok acc0 ∧ declareDirectives u.directives acc0 = .ok st.directives := by
  unfold buildState at hb
  split at hb
  · simp at hb
  · split at hb
    · simp at hb
    · split at hb
      split at hb
      · simp at hb
      · rename_i dirs hd
        simp only [Except.ok.injEq] at hb
        subst hb
        exact declareDirectives_append hd

theorem prelude_acc_src (hpre : PreludeShape pre) {acc0 : List (Name × DirectiveDef)}
    (h0 : declareDirectives pre.directives [] = .ok acc0) : ∀ p ∈ acc0, p.2.pos.src = 0 := by
  intro p hp
  rcases declareDirectives_mem h0 p hp with h | h
  · cases h
  · exact hpre.dirsSrc _ h

/-- a stored directive definition from a user source: declared by the user; its name is new or one of the
    six the loader lets a user redeclare -/
theorem user_directive_facts (hpre : PreludeShape pre) (hu : UserShape pre u) {acc0 : List (Name × DirectiveDef)}
    (h0 : declareDirectives pre.directives [] = .ok acc0) (h1 : declareDirectives u.directives acc0 = .ok st.directives)
    {n : Name} {dd : DirectiveDef} (hl : st.directives.lookup n = some dd) (hs : dd.pos.src ≠ 0) :
    dd ∈ u.directives ∧ dd.name = n ∧ (builtinDirectiveNames.contains n = true ∨ acc0.lookup n = none) := by
  rw [declareDirectives_lookup_last h1] at hl
  rcases lastNamed_cases n u.directives (acc0.lookup n) with ⟨h2, _⟩ | ⟨d', hd', hn', h2⟩
  · rw [h2] at hl
    exact absurd (prelude_acc_src hpre h0 _ (mem_of_lookup hl)) hs
  · rw [h2] at hl
    simp only [Option.some.injEq] at hl
    subst hl
    refine ⟨hd', hn', ?_⟩
    rw [← hn']
    exact declareDirectives_ok_cond h1 d' hd'

/-- a stored directive definition from source 0 is the prelude's, and no user declaration has its name -/
theorem prelude_directive_facts (hu : UserShape pre u) {acc0 : List (Name × DirectiveDef)}
    (h1 : declareDirectives u.directives acc0 = .ok st.directives)
    {n : Name} {dd : DirectiveDef} (hl : st.directives.lookup n = some dd) (hs : dd.pos.src = 0) :
    acc0.lookup n = some dd := by
  rw [declareDirectives_lookup_last h1] at hl
  rcases lastNamed_cases n u.directives (acc0.lookup n) with ⟨h2, _⟩ | ⟨d', hd', _, h2⟩
  · rw [h2] at hl; exact hl
  · rw [h2] at hl
    simp only [Option.some.injEq] at hl
    subst hl
    exact absurd hs (hu.dirsSrc d' hd')

theorem absent_directive_facts {acc0 : List (Name × DirectiveDef)}
    (h1 : declareDirectives u.directives acc0 = .ok st.directives) {n : Name} (hl : st.directives.lookup n = none) :
    acc0.lookup n = none := by
  cases h : acc0.lookup n with
  | none => rfl
  | some x =>
    have := (declareDirectives_keys h1).1 n (by rw [h]; rfl)
    rw [hl] at this; cases this

end Original

end Gql.Format
