import GqlProofs.Schema.Perm
import GqlProofs.Parser.ErasePos
import GqlProofs.Format.Formattable
/-
  The loader (`Gql.Load`) decides acceptance from the SKELETON of the definitions only: names, kinds,
  type expressions, whether a default value is present, which arguments a directive application
  supplies and whether a supplied value is `null`.  It never looks at positions (they only go into
  error messages), descriptions, or the contents of values.

  `skDef d` is a definition with everything else replaced by a constant; `skState st` the loader state
  with every stored definition replaced by its skeleton.  For every validator `v`
      (v (skState st) (sk x)).ok = (v st x).ok            (`…_sk`)
  where `Chk.ok` is "the check passed".  Two definitions with the same skeleton (in particular: a
  definition and what the parser returns for its formatted text) are therefore accepted alike.
-/
namespace Gql.Load
open Gql

/-! ### pass-ness as a Boolean -/

def Chk.ok : Chk → Bool
  | .pass => true
  | _ => false

theorem ok_iff {c : Chk} : c.ok = true ↔ c = .pass := by cases c <;> simp [Chk.ok]

@[simp] theorem ok_pass : Chk.pass.ok = true := rfl
@[simp] theorem ok_fail (e : LoadError) : (Chk.fail e).ok = false := rfl
@[simp] theorem ok_panic : Chk.panic.ok = false := rfl
@[simp] theorem ok_failAt (p : Pos) (m : Bytes) : (failAt p m).ok = false := rfl

@[simp] theorem ok_andThen (a : Chk) (b : Unit → Chk) : (a.andThen b).ok = (a.ok && (b ()).ok) := by
  cases a <;> simp [Chk.andThen, Chk.ok]

theorem ok_each {α} (xs : List α) (f : α → Chk) : (each xs f).ok = xs.all (fun x => (f x).ok) := by
  induction xs with
  | nil => rfl
  | cons x rest ih => simp [each, ih]

theorem ok_ite (c : Prop) [Decidable c] (a b : Chk) : (if c then a else b).ok = if c then a.ok else b.ok := by
  split <;> rfl

theorem band_congr {a a' b b' : Bool} (h1 : a = a') (h2 : b = b') : (a && b) = (a' && b') := by rw [h1, h2]

theorem each_map {α β} (g : α → β) (xs : List α) (f : β → Chk) : each (xs.map g) f = each xs (fun x => f (g x)) := by
  induction xs with
  | nil => rfl
  | cons x rest ih => simp [each, ih]

/-! ### skeletons -/

def skValue (v : Value) : Value := .mk (if v.kind = .null then .null else .int) [] .nil Pos.zero

def skArg (a : Argument) : Argument := { name := a.name, value := skValue a.value, pos := Pos.zero }

def skDir (d : Directive) : Directive := { name := d.name, args := d.args.map skArg, pos := Pos.zero }

def skArgDef (a : ArgDef) : ArgDef :=
  { desc := [], name := a.name, default := a.default.map skValue, type := a.type.erasePos, dirs := a.dirs.map skDir,
    pos := Pos.zero }

def skField (f : FieldDef) : FieldDef :=
  { desc := [], name := f.name, args := f.args.map skArgDef, default := f.default.map skValue, type := f.type.erasePos,
    dirs := f.dirs.map skDir, pos := Pos.zero }

def skEnumVal (e : EnumValDef) : EnumValDef := { desc := [], name := e.name, dirs := e.dirs.map skDir, pos := Pos.zero }

def skDef (d : Definition) : Definition :=
  { kind := d.kind, desc := [], name := d.name, dirs := d.dirs.map skDir, interfaces := d.interfaces,
    fields := d.fields.map skField, types := d.types, enumValues := d.enumValues.map skEnumVal, pos := Pos.zero,
    builtIn := d.builtIn }

def skDirDef (d : DirectiveDef) : DirectiveDef :=
  { desc := [], name := d.name, args := d.args.map skArgDef, locations := d.locations, repeatable := d.repeatable,
    pos := Pos.zero }

def skOpType (o : OpTypeDef) : OpTypeDef := { op := o.op, type := o.type, pos := Pos.zero }

def skTypes (l : List (Name × Definition)) : List (Name × Definition) := l.map fun p => (p.1, skDef p.2)
def skDirs (l : List (Name × DirectiveDef)) : List (Name × DirectiveDef) := l.map fun p => (p.1, skDirDef p.2)

def skState (st : LState) : LState :=
  { types := skTypes st.types, directives := skDirs st.directives, possible := st.possible, implements := st.implements }

theorem lookup_mapSnd {α β} (f : α → β) (l : List (Name × α)) (n : Name) :
    (l.map fun p => (p.1, f p.2)).lookup n = (l.lookup n).map f := by
  induction l with
  | nil => rfl
  | cons p rest ih =>
    obtain ⟨k, v⟩ := p
    simp only [List.map_cons, List.lookup]
    split <;> simp [ih]

theorem lookup_skTypes (l : List (Name × Definition)) (n : Name) : (skTypes l).lookup n = (l.lookup n).map skDef :=
  lookup_mapSnd skDef l n

theorem lookup_skDirs (l : List (Name × DirectiveDef)) (n : Name) : (skDirs l).lookup n = (l.lookup n).map skDirDef :=
  lookup_mapSnd skDirDef l n

theorem type?_skState (st : LState) (n : Name) : (skState st).type? n = (st.type? n).map skDef := lookup_skTypes _ _

/-! ### type expressions -/

theorem namedOf_erasePos (t : GType) : namedOf t.erasePos = namedOf t := by cases t <;> rfl
theorem nonNull_erasePos (t : GType) : t.erasePos.nonNull = t.nonNull := by cases t <;> rfl

theorem name_erasePos (t : GType) : t.erasePos.name = t.name := by
  induction t with
  | named n nn p => rfl
  | list e nn p ih => simpa [GType.erasePos, GType.name] using ih

theorem render_erasePos (t : GType) : t.erasePos.render = t.render := by
  induction t with
  | named n nn p => rfl
  | list e nn p ih => simp [GType.erasePos, GType.render, ih]

theorem isCovariant_sk (st : LState) : ∀ r a : GType, isCovariant (skState st) r.erasePos a.erasePos = isCovariant st r a := by
  intro r
  induction r with
  | named rn rnn rp =>
    intro a
    simp [isCovariant, GType.erasePos, nonNull_erasePos, namedOf_erasePos, skState]
  | list re rnn rp ih =>
    intro a
    cases a with
    | named an ann ap => simp [isCovariant, GType.erasePos]
    | list ae ann ap => simp [isCovariant, GType.erasePos, ih]

/-! ### the validators -/

theorem ok_validateName (p : Pos) (n : Name) : (validateName p n).ok = !hasDunder n := by
  unfold validateName
  split <;> simp_all

theorem ok_validateTypeRef (st : LState) (t : GType) : (validateTypeRef st t).ok = (st.type? t.name).isSome := by
  unfold validateTypeRef
  split <;> simp_all

theorem validateTypeRef_sk (st : LState) (t : GType) :
    (validateTypeRef (skState st) t.erasePos).ok = (validateTypeRef st t).ok := by
  simp [ok_validateTypeRef, type?_skState, name_erasePos]

theorem argDefForName_sk (as : List ArgDef) (n : Name) :
    argDefForName (as.map skArgDef) n = (argDefForName as n).map skArgDef := by
  unfold argDefForName
  rw [List.find?_map]
  rfl

theorem argForName_sk (as : List Argument) (n : Name) : argForName (as.map skArg) n = (argForName as n).map skArg := by
  unfold argForName
  rw [List.find?_map]
  rfl

theorem fieldForName_sk (fs : List FieldDef) (n : Name) : fieldForName (fs.map skField) n = (fieldForName fs n).map skField := by
  unfold fieldForName
  rw [List.find?_map]
  rfl

theorem skValue_null (v : Value) : ((skValue v).kind = ValueKind.null) ↔ (v.kind = ValueKind.null) := by
  cases v with
  | mk k raw ch p =>
    simp only [skValue, Value.kind]
    by_cases h : k = .null <;> simp [h]

theorem validateDirectiveUse_sk (st : LState) (loc : Bytes) (cur : Option Name) (dir : Directive) :
    (validateDirectiveUse (skState st) loc cur (skDir dir)).ok = (validateDirectiveUse st loc cur dir).ok := by
  unfold validateDirectiveUse
  simp only [ok_andThen, ok_validateName]
  have hn : (skDir dir).name = dir.name := rfl
  have hl : (skState st).directives.lookup dir.name = (st.directives.lookup dir.name).map skDirDef := lookup_skDirs _ _
  rw [hn, hl]
  refine band_congr rfl (band_congr ?_ ?_)
  · cases cur with
    | none => rfl
    | some c => simp only [ok_ite, ok_failAt, ok_pass]
  cases hd : st.directives.lookup dir.name with
  | none => rfl
  | some dd =>
    simp only [Option.map, ok_andThen, ok_each, ok_ite, ok_failAt, ok_pass]
    have ha : (skDir dir).args = dir.args.map skArg := rfl
    have hda : (skDirDef dd).args = dd.args.map skArgDef := rfl
    have hdl : (skDirDef dd).locations = dd.locations := rfl
    rw [ha, hda, hdl]
    refine band_congr rfl (band_congr ?_ ?_)
    · rw [List.all_map]
      apply List.all_congr rfl
      intro arg
      simp only [Function.comp]
      have : (skArg arg).name = arg.name := rfl
      rw [this, argDefForName_sk]
      cases argDefForName dd.args arg.name <;> rfl
    · rw [List.all_map]
      apply List.all_congr rfl
      intro sa
      simp only [Function.comp]
      have h1 : (skArgDef sa).type.nonNull = sa.type.nonNull := nonNull_erasePos _
      have h2 : (skArgDef sa).default.isNone = sa.default.isNone := by
        show (sa.default.map skValue).isNone = _
        cases sa.default <;> rfl
      have h3 : (skArgDef sa).name = sa.name := rfl
      rw [h1, h2, h3, argForName_sk]
      split
      · cases hf : argForName dir.args sa.name with
        | none => rfl
        | some a =>
          simp only [Option.map]
          have hv : (skArg a).value = skValue a.value := rfl
          rw [hv]
          by_cases hk : a.value.kind = ValueKind.null
          · simp [hk, (skValue_null a.value).mpr hk]
          · have : ¬ (skValue a.value).kind = ValueKind.null := fun h => hk ((skValue_null _).mp h)
            simp [hk, this]
      · rfl

theorem validateDirectives_sk (st : LState) (ds : List Directive) (loc : Bytes) (cur : Option Name) :
    (validateDirectives (skState st) (ds.map skDir) loc cur).ok = (validateDirectives st ds loc cur).ok := by
  unfold validateDirectives
  rw [each_map, ok_each, ok_each]
  apply List.all_congr rfl
  intro d
  exact validateDirectiveUse_sk st loc cur d

theorem validateArgs_sk (st : LState) (args : List ArgDef) (cur : Option Name) :
    (validateArgs (skState st) (args.map skArgDef) cur).ok = (validateArgs st args cur).ok := by
  unfold validateArgs
  rw [each_map, ok_each, ok_each]
  apply List.all_congr rfl
  intro a
  simp only [ok_andThen, ok_validateName]
  have h1 : (skArgDef a).name = a.name := rfl
  have h2 : (skArgDef a).type = a.type.erasePos := rfl
  have h3 : (skArgDef a).dirs = a.dirs.map skDir := rfl
  rw [h1, h2, h3, validateTypeRef_sk, validateDirectives_sk, name_erasePos, type?_skState]
  congr 2
  cases st.type? a.type.name with
  | none => rfl
  | some d =>
    simp only [Option.map]
    have : (skDef d).kind = d.kind := rfl
    rw [this]
    split <;> rfl

theorem validateTypeImplementsAncestors_sk (st : LState) (d : Definition) (i : Name) :
    (validateTypeImplementsAncestors (skState st) (skDef d) i).ok = (validateTypeImplementsAncestors st d i).ok := by
  unfold validateTypeImplementsAncestors
  rw [type?_skState]
  cases st.type? i with
  | none => rfl
  | some intf =>
    simp only [Option.map, ok_each]
    have h1 : (skDef intf).interfaces = intf.interfaces := rfl
    have h2 : (skDef d).interfaces = d.interfaces := rfl
    have h3 : (skDef d).name = d.name := rfl
    rw [h1, h2, h3]
    apply List.all_congr rfl
    intro t
    simp only [ok_ite, ok_failAt, ok_pass]

theorem validateImplementsField_sk (st : LState) (d intf : Definition) (rf : FieldDef) :
    (validateImplementsField (skState st) (skDef d) (skDef intf) (skField rf)).ok =
      (validateImplementsField st d intf rf).ok := by
  unfold validateImplementsField
  have h1 : (skDef d).fields = d.fields.map skField := rfl
  have h2 : (skField rf).name = rf.name := rfl
  rw [h1, h2, fieldForName_sk]
  cases fieldForName d.fields rf.name with
  | none => rfl
  | some found =>
    simp only [Option.map, ok_andThen, ok_each]
    have h3 : (skField rf).type = rf.type.erasePos := rfl
    have h4 : (skField found).type = found.type.erasePos := rfl
    have h5 : (skField rf).args = rf.args.map skArgDef := rfl
    have h6 : (skField found).args = found.args.map skArgDef := rfl
    rw [h3, h4, h5, h6, isCovariant_sk]
    refine band_congr ?_ (band_congr ?_ ?_)
    · cases isCovariant st rf.type found.type with
      | none => rfl
      | some b => cases b <;> rfl
    · rw [List.all_map]
      apply List.all_congr rfl
      intro ra
      simp only [Function.comp]
      have : (skArgDef ra).name = ra.name := rfl
      rw [this, argDefForName_sk]
      cases argDefForName found.args ra.name with
      | none => rfl
      | some fa =>
        simp only [Option.map]
        have e1 : (skArgDef ra).type = ra.type.erasePos := rfl
        have e2 : (skArgDef fa).type = fa.type.erasePos := rfl
        rw [e1, e2, render_erasePos, render_erasePos]
        simp only [ok_ite, ok_failAt, ok_pass]
    · rw [List.all_map]
      apply List.all_congr rfl
      intro fa
      simp only [Function.comp]
      have e1 : (skArgDef fa).name = fa.name := rfl
      have e2 : (skArgDef fa).type.nonNull = fa.type.nonNull := nonNull_erasePos _
      have e3 : (skArgDef fa).default.isNone = fa.default.isNone := by
        show (fa.default.map skValue).isNone = _
        cases fa.default <;> rfl
      have e4 : (argDefForName (rf.args.map skArgDef) fa.name).isNone = (argDefForName rf.args fa.name).isNone := by
        rw [argDefForName_sk]; cases argDefForName rf.args fa.name <;> rfl
      rw [e1, e2, e3, e4]
      simp only [ok_ite, ok_failAt, ok_pass]

theorem validateImplements_sk (st : LState) (d : Definition) (i : Name) :
    (validateImplements (skState st) (skDef d) i).ok = (validateImplements st d i).ok := by
  unfold validateImplements
  rw [type?_skState]
  cases st.type? i with
  | none => rfl
  | some intf =>
    simp only [Option.map]
    have h1 : (skDef intf).kind = intf.kind := rfl
    have h2 : (skDef intf).fields = intf.fields.map skField := rfl
    rw [h1, h2]
    split
    · rfl
    · simp only [ok_andThen, each_map, ok_each, validateTypeImplementsAncestors_sk]
      refine band_congr ?_ rfl
      apply List.all_congr rfl
      intro rf
      exact validateImplementsField_sk st d intf rf

theorem checkUniqueFields_sk (dn : Name) (fs : List FieldDef) :
    (checkUniqueFields dn (fs.map skField)).ok = (checkUniqueFields dn fs).ok := by
  induction fs with
  | nil => rfl
  | cons f rest ih =>
    simp only [List.map_cons, checkUniqueFields, ok_andThen, ih, each_map, ok_each]
    refine band_congr ?_ rfl
    apply List.all_congr rfl
    intro f2
    have h1 : (skField f).name = f.name := rfl
    have h2 : (skField f2).name = f2.name := rfl
    rw [h1, h2]
    simp only [ok_ite, ok_failAt, ok_pass]

theorem validateKindSpecific_sk (st : LState) (d : Definition) :
    (validateKindSpecific (skState st) (skDef d)).ok = (validateKindSpecific st d).ok := by
  unfold validateKindSpecific
  have hk : (skDef d).kind = d.kind := rfl
  have hf : (skDef d).fields = d.fields.map skField := rfl
  have he : (skDef d).enumValues = d.enumValues.map skEnumVal := rfl
  have hfe : (d.fields.map skField).isEmpty = d.fields.isEmpty := by cases d.fields <;> rfl
  have hee : (d.enumValues.map skEnumVal).isEmpty = d.enumValues.isEmpty := by cases d.enumValues <;> rfl
  have hfield : ∀ (g : Definition → Chk) (g' : Definition → Chk), (∀ t, (g' (skDef t)).ok = (g t).ok) → ∀ f : FieldDef,
      (match (skState st).type? (skField f).type.name with | some t => g' t | none => Chk.pass).ok =
      (match st.type? f.type.name with | some t => g t | none => Chk.pass).ok := by
    intro g g' hg f
    have : (skField f).type.name = f.type.name := name_erasePos _
    rw [this, type?_skState]
    cases st.type? f.type.name with
    | none => rfl
    | some t => exact hg t
  rw [hk, hf, he]
  cases d.kind with
  | scalar => rfl
  | union => rfl
  | object =>
    simp only [hfe]
    split
    · rfl
    · rw [each_map, ok_each, ok_each]
      apply List.all_congr rfl
      intro f
      apply hfield
      intro t
      have : (skDef t).kind = t.kind := rfl
      rw [this]
      simp only [ok_ite, ok_failAt, ok_pass]
  | interface =>
    simp only [hfe]
    split
    · rfl
    · rw [each_map, ok_each, ok_each]
      apply List.all_congr rfl
      intro f
      apply hfield
      intro t
      have : (skDef t).kind = t.kind := rfl
      rw [this]
      simp only [ok_ite, ok_failAt, ok_pass]
  | inputObject =>
    simp only [hfe]
    split
    · rfl
    · rw [each_map, ok_each, ok_each]
      apply List.all_congr rfl
      intro f
      apply hfield
      intro t
      have : (skDef t).kind = t.kind := rfl
      rw [this]
      simp only [ok_ite, ok_failAt, ok_pass]
  | enum =>
    simp only [hee]
    split
    · rfl
    · rw [each_map, ok_each, ok_each]
      apply List.all_congr rfl
      intro v
      have h1 : (skEnumVal v).name = v.name := rfl
      have h2 : (skEnumVal v).dirs = v.dirs.map skDir := rfl
      simp only [ok_andThen, ok_validateName, h1, h2, validateDirectives_sk, ok_ite, ok_failAt, ok_pass]

theorem validateDefinition_sk (st : LState) (d : Definition) :
    (validateDefinition (skState st) (skDef d)).ok = (validateDefinition st d).ok := by
  unfold validateDefinition
  have hk : (skDef d).kind = d.kind := rfl
  have hf : (skDef d).fields = d.fields.map skField := rfl
  have ht : (skDef d).types = d.types := rfl
  have hi : (skDef d).interfaces = d.interfaces := rfl
  have hn : (skDef d).name = d.name := rfl
  have hb : (skDef d).builtIn = d.builtIn := rfl
  have hd : (skDef d).dirs = d.dirs.map skDir := rfl
  simp only [ok_andThen, validateKindSpecific_sk, hf, checkUniqueFields_sk, hn, hb, hd, hk, validateDirectives_sk, ht, hi]
  refine band_congr ?_ (band_congr ?_ (band_congr ?_ (band_congr rfl (band_congr rfl (band_congr ?_ rfl)))))
  · rw [each_map, ok_each, ok_each]
    apply List.all_congr rfl
    intro f
    have h1 : (skField f).name = f.name := rfl
    have h2 : (skField f).type = f.type.erasePos := rfl
    have h3 : (skField f).args = f.args.map skArgDef := rfl
    have h4 : (skField f).dirs = f.dirs.map skDir := rfl
    simp only [ok_andThen, ok_validateName, h1, h2, h3, h4, validateTypeRef_sk, validateArgs_sk, validateDirectives_sk]
  · rw [ok_each, ok_each]
    apply List.all_congr rfl
    intro m
    rw [type?_skState]
    cases st.type? m with
    | none => rfl
    | some t =>
      simp only [Option.map]
      have : (skDef t).kind = t.kind := rfl
      rw [this]
      simp only [ok_ite, ok_failAt, ok_pass]
  · rw [ok_each, ok_each]
    apply List.all_congr rfl
    intro i
    exact validateImplements_sk st d i
  · simp only [ok_ite, ok_validateName, ok_pass]

theorem validateDirectiveDef_sk (st : LState) (dd : DirectiveDef) :
    (validateDirectiveDef (skState st) (skDirDef dd)).ok = (validateDirectiveDef st dd).ok := by
  unfold validateDirectiveDef
  have h1 : (skDirDef dd).name = dd.name := rfl
  have h2 : (skDirDef dd).args = dd.args.map skArgDef := rfl
  simp only [ok_andThen, ok_validateName, h1, h2, validateArgs_sk]

end Gql.Load
