import GqlProofs.Lexer.SpecStep
import GqlProofs.Lexer.Utf8Valid
import GqlProofs.Format.NumExt
import GqlProofs.Format.QuoteLex
import GqlModel.Syntax.Print
import GqlModel.Format.Model
/-
  One lemma per kind of token text the formatter emits: the text, followed by anything `Follow`
  allows, is read by `readToken` (from every cursor) as exactly one token of the expected kind and
  value, and the rest is left untouched (`TokText`).
-/
namespace Gql.Format
open Gql Gql.Lexer Gql.Grammar Gql.Print

theorem readToken_stop (b : Nat) (r : Bytes) (c : Cur)
    (h : b ≠ 9 ∧ b ≠ 32 ∧ b ≠ 44 ∧ b ≠ 10 ∧ b ≠ 13 ∧ b ≠ 0xEF) :
    readToken (b :: r) c = readTokenBody (b :: r) c := by
  unfold readToken; rw [ws_stop b r c h]

theorem simpleTok_facts (k : Kind) (v : Bytes) (c : Cur) (nb nr : Nat) (rest : Bytes)
    (hk : k ≠ .comment ∧ k ≠ .eof) :
    ∃ tk c', simpleTok k v c nb nr rest = .tok tk rest c' ∧ Tok.ofToken tk = { kind := k, value := v } ∧
      significant tk = true := by
  refine ⟨_, _, rfl, rfl, ?_⟩
  simp [significant, hk.1, hk.2]

/-! ### punctuators -/

theorem tokText_punct (b : Nat) (k : Kind) (hp : punct b = some k) : TokText [b] (tP k) false := by
  intro post _ c
  have hm := lookup_mem punctTable b k hp
  have hall : ∀ p ∈ punctTable, (p.1 ≠ 9 ∧ p.1 ≠ 32 ∧ p.1 ≠ 44 ∧ p.1 ≠ 10 ∧ p.1 ≠ 13 ∧ p.1 ≠ 0xEF) ∧
      (p.2 ≠ Kind.comment ∧ p.2 ≠ Kind.eof) := by decide
  obtain ⟨h1, h2⟩ := hall (b, k) hm
  show ∃ tk c', readToken (b :: post) c = _ ∧ _
  rw [readToken_stop b post c h1, readTokenBody_punct b post c k hp]
  exact simpleTok_facts k [] c 1 1 post h2

theorem tokText_bang : TokText [33] (tP .bang) false := tokText_punct 33 .bang (by decide)
theorem tokText_dollar : TokText [36] (tP .dollar) false := tokText_punct 36 .dollar (by decide)
theorem tokText_amp : TokText [38] (tP .amp) false := tokText_punct 38 .amp (by decide)
theorem tokText_parenL : TokText [40] (tP .parenL) false := tokText_punct 40 .parenL (by decide)
theorem tokText_parenR : TokText [41] (tP .parenR) false := tokText_punct 41 .parenR (by decide)
theorem tokText_colon : TokText [58] (tP .colon) false := tokText_punct 58 .colon (by decide)
theorem tokText_equals : TokText [61] (tP .equals) false := tokText_punct 61 .equals (by decide)
theorem tokText_at : TokText [64] (tP .at) false := tokText_punct 64 .at (by decide)
theorem tokText_bracketL : TokText [91] (tP .bracketL) false := tokText_punct 91 .bracketL (by decide)
theorem tokText_bracketR : TokText [93] (tP .bracketR) false := tokText_punct 93 .bracketR (by decide)
theorem tokText_braceL : TokText [123] (tP .braceL) false := tokText_punct 123 .braceL (by decide)
theorem tokText_braceR : TokText [125] (tP .braceR) false := tokText_punct 125 .braceR (by decide)
theorem tokText_pipe : TokText [124] (tP .pipe) false := tokText_punct 124 .pipe (by decide)

theorem tokText_spread : TokText [46, 46, 46] (tP .spread) false := by
  intro post _ c
  show ∃ tk c', readToken (46 :: 46 :: 46 :: post) c = _ ∧ _
  rw [readToken_stop 46 _ c (by decide), readTokenBody_other 46 _ c (by decide)]
  simp only [if_true]
  exact simpleTok_facts .spread [] c 3 3 post (by decide)

/-! ### names -/

/-- a lexer Name: NameStart NameContinue* -/
def isNameB : Bytes → Bool
  | [] => false
  | b :: tl => isNameStart b && tl.all isNameCont

theorem nameSpan_all (tl X : Bytes) (h : tl.all isNameCont = true) (hX : Inert X) :
    nameSpan (tl ++ X) = (tl, X) := by
  induction tl with
  | nil =>
    cases X with
    | nil => simp [nameSpan]
    | cons c t => simp [nameSpan, isNameCont_sep (hX c t rfl)]
  | cons a tl ih =>
    simp only [List.all_cons, Bool.and_eq_true] at h
    simp [nameSpan, h.1, ih h.2]

theorem isNameStart_facts {b : Nat} (h : isNameStart b = true) :
    (b ≠ 9 ∧ b ≠ 32 ∧ b ≠ 44 ∧ b ≠ 10 ∧ b ≠ 13 ∧ b ≠ 0xEF) ∧ punct b = none ∧ b ≠ 46 ∧ b ≠ 35 := by
  have hb : (65 ≤ b ∧ b ≤ 90) ∨ (97 ≤ b ∧ b ≤ 122) ∨ b = 95 := by
    simp [isNameStart] at h; omega
  refine ⟨by omega, ?_, by omega, by omega⟩
  cases hp : punct b with
  | none => rfl
  | some k =>
    have hm := lookup_mem punctTable b k hp
    have hall : ∀ p ∈ punctTable, isNameStart p.1 = false := by decide
    have := hall (b, k) hm
    simp [h] at this

theorem tokText_name (n : Name) (h : isNameB n = true) : TokText n (tName n) true := by
  intro post hf c
  cases n with
  | nil => simp [isNameB] at h
  | cons b tl =>
    simp only [isNameB, Bool.and_eq_true] at h
    obtain ⟨hws, hp, h46, h35⟩ := isNameStart_facts h.1
    show ∃ tk c', readToken (b :: (tl ++ post)) c = _ ∧ _
    rw [readToken_stop b _ c hws, readTokenBody_name b _ c hp h46 h35 h.1,
      nameSpan_all tl post h.2 (Inert_of_Follow hf)]
    exact simpleTok_facts .name (b :: tl) c _ _ post (by decide)

theorem tokText_kw (s : String) (h : isNameB (str s) = true) : TokText (str s) (tKw s) true :=
  tokText_name (str s) h

/-! ### numbers -/

theorem numberToken_head {b : Nat} {tl : Bytes} {p : Kind × List Nat × List Nat}
    (h : Spec.numberToken (b :: tl) = some p) : b = 45 ∨ isDigit b = true := by
  by_cases h45 : b = 45
  · exact Or.inl h45
  · right
    cases hd : isDigit b with
    | true => rfl
    | false =>
      exfalso
      have e1 : stripSign (b :: tl) = (0, b :: tl) := by
        rw [stripSign.eq_def]; split
        · rename_i h'; simp at h'; exact absurd h'.1 h45
        · rfl
      have h48 : b ≠ 48 := by
        intro e; subst e; simp [isDigit] at hd
      have hdc : Spec.isDigitC b = false := hd
      have e2 : Spec.integerPart (b :: tl) = none := by
        rw [integerPart_eq, e1]
        simp only [List.replicate]
        rw [intPart_cons _ b tl h48]
        simp [hdc]
      rw [numberToken_eq, e2] at h
      simp at h

theorem tokText_number (k : Kind) (raw : Bytes) (hk : k = .int ∨ k = .float) (h : numRaw k raw = true) :
    TokText raw { kind := k, value := raw } true := by
  intro post hf c
  have h0 : Spec.numberToken raw = some (k, raw, []) := by simpa [numRaw] using h
  cases raw with
  | nil => simp [Spec.numberToken, Spec.integerPart] at h0
  | cons b tl =>
    have hhd := numberToken_head h0
    have hb : (b = 45 ∨ (48 ≤ b ∧ b ≤ 57)) := by
      rcases hhd with h | h
      · exact Or.inl h
      · right; simpa [isDigit] using h
    have hns : ¬ isNameStart b = true := by simp [isNameStart]; omega
    have hp : punct b = none := by
      cases hp : punct b with
      | none => rfl
      | some k' =>
        have hm := lookup_mem punctTable b k' hp
        have hall : ∀ p ∈ punctTable, ¬ (p.1 = 45 ∨ (48 ≤ p.1 ∧ p.1 ≤ 57)) := by decide
        exact absurd hb (hall (b, k') hm)
    show ∃ tk c', readToken (b :: (tl ++ post)) c = _ ∧ _
    rw [readToken_stop b _ c (by omega), readTokenBody_number b _ c hp (by omega) (by omega) hns hhd]
    have := readNumber_numRaw k (b :: tl) post h (Inert_of_Follow hf) c
    simp only [List.cons_append] at this
    rw [this]
    refine ⟨_, _, rfl, rfl, ?_⟩
    rcases hk with rfl | rfl <;> simp [significant]

/-! ### strings -/

/-- `readToken` on `gqlQuote bs ++ rest`, for ARBITRARY bytes `bs`, returns the String token with
    value `bs` and the remaining input `rest`, unless the text is mistaken for the start of a block
    string (empty value followed by a quote). -/
theorem readToken_gqlQuote_bytes (bs : Bytes) (rest : Bytes) (c : Cur)
    (hblk : bs ≠ [] ∨ rest.head? ≠ some 34) :
    ∃ t c', readToken (gqlQuote bs ++ rest) c = .tok t rest c' ∧
      t.kind = .string ∧ t.value = bs := by
  have hws : ws (34 :: (gqlQuoteBody bs ++ 34 :: rest)) c
      = (34 :: (gqlQuoteBody bs ++ 34 :: rest), c) := by
    rw [ws.eq_def]; simp
  have hnb : ∀ tl', gqlQuoteBody bs ++ 34 :: rest ≠ 34 :: 34 :: tl' := by
    intro tl' h
    cases bs with
    | nil =>
      simp [gqlQuoteBody] at h
      rcases hblk with h' | h'
      · exact h' rfl
      · cases rest with
        | nil => simp at h
        | cons x xs => simp at h h'; exact h' h.1
    | cons b xs =>
      simp only [gqlQuoteBody] at h
      obtain ⟨x, xs', hg, hx⟩ := gqlEscapeByte_head b
      rw [hg] at h
      simp at h
      exact hx h.1
  obtain ⟨t, c', h1, h2, h3⟩ := rsl_gqlQuoteBody_bytes c rest _ bs (Nat.le_refl _) (c.adv 1 1) [] false
  refine ⟨t, c', ?_, h2, by simpa using h3⟩
  have hq : gqlQuote bs ++ rest = 34 :: (gqlQuoteBody bs ++ 34 :: rest) := by
    simp [gqlQuote]
  rw [hq]
  unfold readToken
  rw [hws]
  rw [readTokenBody_string _ c (fun body e => hnb body e)]
  exact h1

/-- `readToken` on `gqlQuote bs ++ rest` (bs well-formed UTF-8) returns the String token with value
    `bs` and the remaining input `rest`, unless the text is mistaken for the start of a block string
    (empty value followed by a quote).  Special case of `readToken_gqlQuote_bytes`. -/
theorem readToken_gqlQuote (cps : List Nat) (hs : ∀ r ∈ cps, IsScalar r) (rest : Bytes) (c : Cur)
    (hblk : cps ≠ [] ∨ rest.head? ≠ some 34) :
    ∃ t c', readToken (gqlQuote (utf8Encode cps) ++ rest) c = .tok t rest c' ∧
      t.kind = .string ∧ t.value = utf8Encode cps := by
  refine readToken_gqlQuote_bytes (utf8Encode cps) rest c ?_
  rcases hblk with h | h
  · left
    intro h0
    cases cps with
    | nil => exact h rfl
    | cons r t =>
      have hp := encodeRune_length_pos r
      have := congrArg List.length h0
      simp only [utf8Encode, List.flatMap_cons, List.length_append, List.length_nil] at this
      omega
  · exact Or.inr h

/-- a string value: well-formed UTF-8 (decidable) -/
def strRaw (raw : Bytes) : Bool := (Utf8.decode raw).isSome

/-- the quoted form of ANY byte string is the token text of the String token with that value -/
theorem tokText_string_bytes (raw : Bytes) :
    TokText (quoteString raw) { kind := .string, value := raw } true := by
  intro post hf c
  have hblk : raw ≠ [] ∨ post.head? ≠ some 34 := by
    right
    cases post with
    | nil => simp
    | cons x t =>
      have := sepByte_cases (hf rfl x t rfl)
      simp; omega
  obtain ⟨t, c', h1, h2, h3⟩ := readToken_gqlQuote_bytes raw post c hblk
  refine ⟨t, c', h1, ?_, ?_⟩
  · cases t; simp_all [Tok.ofToken]
  · simp [significant, h2]

theorem tokText_string (raw : Bytes) (_h : strRaw raw = true) :
    TokText (quoteString raw) { kind := .string, value := raw } true :=
  tokText_string_bytes raw

end Gql.Format
