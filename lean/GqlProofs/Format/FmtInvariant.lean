import GqlProofs.Format.Formattable
import GqlProofs.Parser.ErasePos
/-
  What the formatter of executable documents does not look at:
  * recorded positions (`fmtQuery_erasePos`),
  * the string / block-string distinction of VALUES (`fmtQuery_normFmt`).
  Together: two documents whose normal forms agree up to positions are formatted alike.
-/
namespace Gql.Format
open Gql Gql.Lexer Gql.Print

variable {cfg : Cfg}

/-! ### positions -/

mutual
  theorem renderValue_erasePos : ∀ v : Value, renderValue v.erasePos = renderValue v
    | .mk k raw ch p => by
      cases k <;> simp [Value.erasePos, renderValue, renderListItems_erasePos, renderObjFields_erasePos]
  theorem renderListItems_erasePos : ∀ (ch : Children) (first : Bool),
      renderListItems first ch.erasePos = renderListItems first ch
    | .nil, _ => rfl
    | .cons n v p rest, first => by
      simp [Children.erasePos, renderListItems, renderValue_erasePos v, renderListItems_erasePos rest]
  theorem renderObjFields_erasePos : ∀ (ch : Children) (first : Bool),
      renderObjFields first ch.erasePos = renderObjFields first ch
    | .nil, _ => rfl
    | .cons n v p rest, first => by
      simp [Children.erasePos, renderObjFields, renderValue_erasePos v, renderObjFields_erasePos rest]
end

theorem render_erasePos : ∀ t : GType, t.erasePos.render = t.render
  | .named n nn p => rfl
  | .list e nn p => by simp [GType.erasePos, GType.render, render_erasePos e]

theorem formatArgument_erasePos (a : Argument) (w : W) :
    formatArgument cfg a.erasePos w = formatArgument cfg a w := by
  simp [formatArgument, Argument.erasePos, renderValue_erasePos]

theorem formatArguments_erasePos : ∀ (as : List Argument) (w : W),
    formatArguments cfg (as.map Argument.erasePos) w = formatArguments cfg as w
  | [], w => rfl
  | [a], w => by simp [formatArguments, formatArgument_erasePos]
  | a :: b :: rest, w => by
    have ih := formatArguments_erasePos (b :: rest)
    simp only [List.map_cons] at ih
    simp [formatArguments, formatArgument_erasePos, ih]

theorem formatArgumentList_erasePos (as : List Argument) (w : W) :
    formatArgumentList cfg (as.map Argument.erasePos) w = formatArgumentList cfg as w := by
  simp [formatArgumentList, formatArguments_erasePos]

theorem formatDirective_erasePos (d : Directive) (w : W) :
    formatDirective cfg d.erasePos w = formatDirective cfg d w := by
  simp [formatDirective, Directive.erasePos, formatArgumentList_erasePos]

theorem formatDirectiveList_erasePos (ds : List Directive) (w : W) :
    formatDirectiveList cfg (ds.map Directive.erasePos) w = formatDirectiveList cfg ds w := by
  simp [formatDirectiveList, List.foldl_map, formatDirective_erasePos]

theorem formatVariableDefinition_erasePos (d : VarDef) (w : W) :
    formatVariableDefinition cfg d.erasePos w = formatVariableDefinition cfg d w := by
  obtain ⟨var, type, dflt, dirs, pos⟩ := d
  cases dflt <;>
    simp [formatVariableDefinition, VarDef.erasePos, formatType, formatValue, render_erasePos,
      renderValue_erasePos, formatDirectiveList_erasePos]

theorem formatVariableDefinitions_erasePos : ∀ (ds : List VarDef) (w : W),
    formatVariableDefinitions cfg (ds.map VarDef.erasePos) w = formatVariableDefinitions cfg ds w
  | [], w => rfl
  | [a], w => by simp [formatVariableDefinitions, formatVariableDefinition_erasePos]
  | a :: b :: rest, w => by
    have ih := formatVariableDefinitions_erasePos (b :: rest)
    simp only [List.map_cons] at ih
    simp [formatVariableDefinitions, formatVariableDefinition_erasePos, ih]

theorem formatVariableDefinitionList_erasePos (ds : List VarDef) (w : W) :
    formatVariableDefinitionList cfg (ds.map VarDef.erasePos) w = formatVariableDefinitionList cfg ds w := by
  simp [formatVariableDefinitionList, formatVariableDefinitions_erasePos]

mutual
  theorem formatSelection_erasePos : ∀ (s : Selection) (w : W),
      formatSelection cfg s.erasePos w = formatSelection cfg s w
    | .field al nm args ds sel p, w => by
      simp [Selection.erasePos, formatSelection, formatArgumentList_erasePos, formatDirectiveList_erasePos,
        formatSelectionSet_erasePos sel]
    | .spread nm ds p, w => by
      simp [Selection.erasePos, formatSelection, formatDirectiveList_erasePos]
    | .inline tc ds sel p, w => by
      simp [Selection.erasePos, formatSelection, formatDirectiveList_erasePos, formatSelectionSet_erasePos sel]
  theorem formatSelectionSet_erasePos : ∀ (sel : Selections) (w : W),
      formatSelectionSet cfg sel.erasePos w = formatSelectionSet cfg sel w
    | .nil, w => rfl
    | .cons s rest, w => by
      simp [Selections.erasePos, formatSelectionSet, formatSelection_erasePos s, formatSelections_erasePos rest]
  theorem formatSelections_erasePos : ∀ (sels : Selections) (w : W),
      formatSelections cfg sels.erasePos w = formatSelections cfg sels w
    | .nil, w => rfl
    | .cons s rest, w => by
      simp [Selections.erasePos, formatSelections, formatSelection_erasePos s, formatSelections_erasePos rest]
end

theorem formatOperationDefinition_erasePos (o : OperationDef) (w : W) :
    formatOperationDefinition cfg o.erasePos w = formatOperationDefinition cfg o w := by
  obtain ⟨op, name, vars, dirs, sel, pos⟩ := o
  cases sel with
  | nil =>
    simp [formatOperationDefinition, OperationDef.erasePos, Selections.erasePos,
      formatVariableDefinitionList_erasePos, formatDirectiveList_erasePos]
  | cons s rest =>
    have e := formatSelectionSet_erasePos (cfg := cfg) (.cons s rest)
    simp only [Selections.erasePos] at e
    simp [formatOperationDefinition, OperationDef.erasePos, Selections.erasePos,
      formatVariableDefinitionList_erasePos, formatDirectiveList_erasePos, e]

theorem formatFragmentDefinition_erasePos (f : FragmentDef) (w : W) :
    formatFragmentDefinition cfg f.erasePos w = formatFragmentDefinition cfg f w := by
  obtain ⟨name, vars, tc, dirs, sel, pos⟩ := f
  cases sel with
  | nil =>
    simp [formatFragmentDefinition, FragmentDef.erasePos, Selections.erasePos,
      formatVariableDefinitionList_erasePos, formatDirectiveList_erasePos]
  | cons s rest =>
    have e := formatSelectionSet_erasePos (cfg := cfg) (.cons s rest)
    simp only [Selections.erasePos] at e
    simp [formatFragmentDefinition, FragmentDef.erasePos, Selections.erasePos,
      formatVariableDefinitionList_erasePos, formatDirectiveList_erasePos, e]

/-- the formatter does not look at positions -/
theorem fmtQuery_erasePos (d : QueryDoc) : fmtQuery cfg d.erasePos = fmtQuery cfg d := by
  have e1 : ∀ o w, formatOperationDefinition cfg (OperationDef.erasePos o) w = formatOperationDefinition cfg o w :=
    formatOperationDefinition_erasePos
  have e2 : ∀ f w, formatFragmentDefinition cfg (FragmentDef.erasePos f) w = formatFragmentDefinition cfg f w :=
    formatFragmentDefinition_erasePos
  simp [fmtQuery, formatQueryDocument, QueryDoc.erasePos, List.foldl_map, e1, e2]

/-! ### the string / block-string distinction of values -/

mutual
  theorem renderValue_norm : ∀ v : Value, renderValue (normValue v) = renderValue v
    | .mk k raw ch p => by
      cases k <;> simp [normValue, normKind, renderValue, renderListItems_norm, renderObjFields_norm]
  theorem renderListItems_norm : ∀ (ch : Children) (first : Bool),
      renderListItems first (normChildren ch) = renderListItems first ch
    | .nil, _ => rfl
    | .cons n v p rest, first => by
      simp [normChildren, renderListItems, renderValue_norm v, renderListItems_norm rest]
  theorem renderObjFields_norm : ∀ (ch : Children) (first : Bool),
      renderObjFields first (normChildren ch) = renderObjFields first ch
    | .nil, _ => rfl
    | .cons n v p rest, first => by
      simp [normChildren, renderObjFields, renderValue_norm v, renderObjFields_norm rest]
end

theorem formatArgument_norm (a : Argument) (w : W) :
    formatArgument cfg (normArg a) w = formatArgument cfg a w := by
  simp [formatArgument, normArg, renderValue_norm]

theorem formatArguments_norm : ∀ (as : List Argument) (w : W),
    formatArguments cfg (as.map normArg) w = formatArguments cfg as w
  | [], w => rfl
  | [a], w => by simp [formatArguments, formatArgument_norm]
  | a :: b :: rest, w => by
    have ih := formatArguments_norm (b :: rest)
    simp only [List.map_cons] at ih
    simp [formatArguments, formatArgument_norm, ih]

theorem formatArgumentList_norm (as : List Argument) (w : W) :
    formatArgumentList cfg (as.map normArg) w = formatArgumentList cfg as w := by
  simp [formatArgumentList, formatArguments_norm]

theorem formatDirective_norm (d : Directive) (w : W) :
    formatDirective cfg (normDir d) w = formatDirective cfg d w := by
  simp [formatDirective, normDir, formatArgumentList_norm]

theorem formatDirectiveList_norm (ds : List Directive) (w : W) :
    formatDirectiveList cfg (ds.map normDir) w = formatDirectiveList cfg ds w := by
  simp [formatDirectiveList, List.foldl_map, formatDirective_norm]

theorem formatVariableDefinition_norm (d : VarDef) (w : W) :
    formatVariableDefinition cfg (normVarDef d) w = formatVariableDefinition cfg d w := by
  obtain ⟨var, type, dflt, dirs, pos⟩ := d
  cases dflt <;>
    simp [formatVariableDefinition, normVarDef, formatType, formatValue, renderValue_norm, formatDirectiveList_norm]

theorem formatVariableDefinitions_norm : ∀ (ds : List VarDef) (w : W),
    formatVariableDefinitions cfg (ds.map normVarDef) w = formatVariableDefinitions cfg ds w
  | [], w => rfl
  | [a], w => by simp [formatVariableDefinitions, formatVariableDefinition_norm]
  | a :: b :: rest, w => by
    have ih := formatVariableDefinitions_norm (b :: rest)
    simp only [List.map_cons] at ih
    simp [formatVariableDefinitions, formatVariableDefinition_norm, ih]

theorem formatVariableDefinitionList_norm (ds : List VarDef) (w : W) :
    formatVariableDefinitionList cfg (ds.map normVarDef) w = formatVariableDefinitionList cfg ds w := by
  simp [formatVariableDefinitionList, formatVariableDefinitions_norm]

mutual
  theorem formatSelection_norm : ∀ (s : Selection) (w : W),
      formatSelection cfg (normSel s) w = formatSelection cfg s w
    | .field al nm args ds sel p, w => by
      simp [normSel, formatSelection, formatArgumentList_norm, formatDirectiveList_norm,
        formatSelectionSet_norm sel]
    | .spread nm ds p, w => by
      simp [normSel, formatSelection, formatDirectiveList_norm]
    | .inline tc ds sel p, w => by
      simp [normSel, formatSelection, formatDirectiveList_norm, formatSelectionSet_norm sel]
  theorem formatSelectionSet_norm : ∀ (sel : Selections) (w : W),
      formatSelectionSet cfg (normSels sel) w = formatSelectionSet cfg sel w
    | .nil, w => rfl
    | .cons s rest, w => by
      simp [normSels, formatSelectionSet, formatSelection_norm s, formatSelections_norm rest]
  theorem formatSelections_norm : ∀ (sels : Selections) (w : W),
      formatSelections cfg (normSels sels) w = formatSelections cfg sels w
    | .nil, w => rfl
    | .cons s rest, w => by
      simp [normSels, formatSelections, formatSelection_norm s, formatSelections_norm rest]
end

theorem formatOperationDefinition_norm (o : OperationDef) (w : W) :
    formatOperationDefinition cfg (normOp o) w = formatOperationDefinition cfg o w := by
  obtain ⟨op, name, vars, dirs, sel, pos⟩ := o
  cases sel with
  | nil =>
    simp [formatOperationDefinition, normOp, normSels, formatVariableDefinitionList_norm, formatDirectiveList_norm]
  | cons s rest =>
    have e := formatSelectionSet_norm (cfg := cfg) (.cons s rest)
    simp only [normSels] at e
    simp [formatOperationDefinition, normOp, normSels, formatVariableDefinitionList_norm,
      formatDirectiveList_norm, e]

theorem formatFragmentDefinition_norm (f : FragmentDef) (w : W) :
    formatFragmentDefinition cfg (normFrag f) w = formatFragmentDefinition cfg f w := by
  obtain ⟨name, vars, tc, dirs, sel, pos⟩ := f
  cases sel with
  | nil =>
    simp [formatFragmentDefinition, normFrag, normSels, formatVariableDefinitionList_norm, formatDirectiveList_norm]
  | cons s rest =>
    have e := formatSelectionSet_norm (cfg := cfg) (.cons s rest)
    simp only [normSels] at e
    simp [formatFragmentDefinition, normFrag, normSels, formatVariableDefinitionList_norm,
      formatDirectiveList_norm, e]

/-- the formatter writes a block-string value exactly like the string value with the same text -/
theorem fmtQuery_normFmt (d : QueryDoc) : fmtQuery cfg (normFmt d) = fmtQuery cfg d := by
  have e1 : ∀ o w, formatOperationDefinition cfg (normOp o) w = formatOperationDefinition cfg o w :=
    formatOperationDefinition_norm
  have e2 : ∀ f w, formatFragmentDefinition cfg (normFrag f) w = formatFragmentDefinition cfg f w :=
    formatFragmentDefinition_norm
  simp [fmtQuery, formatQueryDocument, normFmt, List.foldl_map, e1, e2]

/-- documents whose normal forms agree up to positions are formatted alike -/
theorem fmtQuery_congr (d d' : QueryDoc) (h : d'.erasePos = (normFmt d).erasePos) :
    fmtQuery cfg d' = fmtQuery cfg d := by
  rw [← fmtQuery_erasePos d', h, fmtQuery_erasePos, fmtQuery_normFmt]

end Gql.Format
