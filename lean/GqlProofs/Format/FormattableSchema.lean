import GqlProofs.Format.Formattable
import GqlProofs.Format.DescLex
/-
  Type-system documents: what the formatter deliberately does not keep (`normSchemaDoc cfg`), the
  Description token it writes (`descTok`), and the decidable well-formedness `FormattableSchema`.

  `normSchemaDoc cfg d`:
  * block-string VALUES (default values, directive arguments) become string values, as in C12;
  * `WithoutDescription`: every description is dropped;
  * without `WithBuiltin`: definitions flagged built-in and directive definitions of source 0 (the
    prelude) are not written;
  * all schema definitions are MERGED into one block (descriptions concatenated, directives and
    operation types appended), likewise all schema extensions.

  `FormattableSchema d` (all of it holds for parser output): names are lexer Names, numbers number
  lexemes, string values and descriptions well-formed UTF-8; the parts of a definition that its
  kind does not have are empty (a scalar has no fields, an object field no default value, an input
  field no arguments, …); extensions and schema extensions carry no description; a directive
  definition has a location; no field is one the formatter hides (`__`-name without position:
  only the loader adds those).
-/
namespace Gql.Format
open Gql Gql.Lexer Gql.Grammar Gql.Print

/-- the Description token the formatter writes: a block string when it can, else a quoted string -/
def descTok (d : Bytes) : List Tok :=
  if d = [] then [] else [{ kind := if blockStringRepresentable d then .blockString else .string, value := d }]

def normDesc (cfg : Cfg) (d : Bytes) : Bytes := if cfg.omitDescription then [] else d

def normArgDef (cfg : Cfg) (a : ArgDef) : ArgDef :=
  { a with desc := normDesc cfg a.desc, default := a.default.map normValue, dirs := a.dirs.map normDir }

def normFieldDef (cfg : Cfg) (f : FieldDef) : FieldDef :=
  { f with desc := normDesc cfg f.desc, args := f.args.map (normArgDef cfg), default := f.default.map normValue,
           dirs := f.dirs.map normDir }

def normEnumVal (cfg : Cfg) (e : EnumValDef) : EnumValDef :=
  { e with desc := normDesc cfg e.desc, dirs := e.dirs.map normDir }

def normDef (cfg : Cfg) (d : Definition) : Definition :=
  { d with desc := normDesc cfg d.desc, dirs := d.dirs.map normDir, fields := d.fields.map (normFieldDef cfg),
           enumValues := d.enumValues.map (normEnumVal cfg) }

def normDirectiveDef (cfg : Cfg) (d : DirectiveDef) : DirectiveDef :=
  { d with desc := normDesc cfg d.desc, args := d.args.map (normArgDef cfg) }

/-- `FormatSchemaDefinitionList` writes ONE block for all the definitions of the list -/
def mergeSchemaDefs (cfg : Cfg) : List SchemaDef → List SchemaDef
  | [] => []
  | d0 :: rest =>
    [{ desc := normDesc cfg ((d0 :: rest).flatMap (·.desc)), dirs := ((d0 :: rest).flatMap (·.dirs)).map normDir,
       opTypes := (d0 :: rest).flatMap (·.opTypes), pos := d0.pos }]

def keepDirectiveDef (cfg : Cfg) (d : DirectiveDef) : Bool := cfg.emitBuiltin || !srcZeroBuiltIn d.pos.src
def keepDef (cfg : Cfg) (d : Definition) : Bool := cfg.emitBuiltin || !d.builtIn

/-- the document the formatter's text stands for -/
def normSchemaDoc (cfg : Cfg) (d : SchemaDoc) : SchemaDoc :=
  { schema := mergeSchemaDefs cfg d.schema, schemaExt := mergeSchemaDefs cfg d.schemaExt,
    directives := (d.directives.filter (keepDirectiveDef cfg)).map (normDirectiveDef cfg),
    definitions := (d.definitions.filter (keepDef cfg)).map (normDef cfg),
    extensions := (d.extensions.filter (keepDef cfg)).map (normDef cfg) }

/-! ### well-formedness -/

def defaultOk : Option Value → Bool
  | some v => valueOk v
  | none => true

def argDefOk (a : ArgDef) : Bool :=
  strRaw a.desc && isNameB a.name && typeOk a.type && defaultOk a.default && a.dirs.all dirOk

def fieldDefOk (f : FieldDef) : Bool :=
  strRaw f.desc && isNameB f.name && f.args.all argDefOk && typeOk f.type && defaultOk f.default &&
  f.dirs.all dirOk && !fieldSuppressed false f.name f.pos

def enumValOk (e : EnumValDef) : Bool := strRaw e.desc && isNameB e.name && e.dirs.all dirOk

/-- the parts a definition of this kind does not have are empty -/
def shapeOk (d : Definition) : Bool :=
  match d.kind with
  | .scalar => d.interfaces.isEmpty && d.types.isEmpty && d.fields.isEmpty && d.enumValues.isEmpty
  | .object => d.types.isEmpty && d.enumValues.isEmpty && d.fields.all (fun f => f.default.isNone)
  | .interface => d.types.isEmpty && d.enumValues.isEmpty && d.fields.all (fun f => f.default.isNone)
  | .union => d.interfaces.isEmpty && d.fields.isEmpty && d.enumValues.isEmpty
  | .enum => d.interfaces.isEmpty && d.types.isEmpty && d.fields.isEmpty
  | .inputObject => d.interfaces.isEmpty && d.types.isEmpty && d.enumValues.isEmpty &&
      d.fields.all (fun f => f.args.isEmpty)

def defOk (d : Definition) : Bool :=
  strRaw d.desc && isNameB d.name && d.dirs.all dirOk && d.interfaces.all isNameB && d.types.all isNameB &&
  d.fields.all fieldDefOk && d.enumValues.all enumValOk && shapeOk d

def extOk (d : Definition) : Bool := defOk d && d.desc.isEmpty

def dirDefOk (d : DirectiveDef) : Bool :=
  strRaw d.desc && isNameB d.name && d.args.all argDefOk && !d.locations.isEmpty && d.locations.all isNameB

def opTypeOk (o : OpTypeDef) : Bool := isNameB o.op && isNameB o.type

def schemaDefOk (s : SchemaDef) : Bool := strRaw s.desc && s.dirs.all dirOk && s.opTypes.all opTypeOk

def schemaExtOk (s : SchemaDef) : Bool := s.desc.isEmpty && s.dirs.all dirOk && s.opTypes.all opTypeOk

def schemaDocOk (d : SchemaDoc) : Bool :=
  d.schema.all schemaDefOk && d.schemaExt.all schemaExtOk && d.directives.all dirDefOk &&
  d.definitions.all defOk && d.extensions.all extOk

/-- the type-system documents whose formatted text is proved to lex back to their tokens -/
def FormattableSchema (d : SchemaDoc) : Prop := schemaDocOk d = true

instance (d : SchemaDoc) : Decidable (FormattableSchema d) := by unfold FormattableSchema; infer_instance

end Gql.Format
