import GqlProofs.Format.ReloadSchema
import GqlProofs.Schema.Roots
/-
  Assembly of the reload theorem for the models (`reload_main`).
-/
namespace Gql.Format
open Gql Gql.Load Gql.Parser

theorem lookup_mkSchema_eq (sd : SchemaDoc) (st : LState) (r1 : Roots) (d1 : List Directive) (n : Name) :
    (mkSchema sd st r1 d1).types.lookup n =
      (st.types.lookup n).map fun x => (finalDef (finalRoots sd st r1).query (n, x)).2 := by
  cases h : st.types.lookup n with
  | some x => rw [lookup_final h]; rfl
  | none =>
    rw [mkSchema_types]
    split
    · rw [lookup_modifyKV, h]; simp
    · rw [h]; rfl

theorem keys_mkSchema (sd : SchemaDoc) (st : LState) (r1 : Roots) (d1 : List Directive) :
    (mkSchema sd st r1 d1).types.map Prod.fst = st.types.map Prod.fst := by
  rw [mkSchema_types]
  split
  · exact keys_modifyKV _ _ _
  · rfl

theorem finalDef_builtIn (q : Option Name) (p : Name × Definition) : (finalDef q p).2.builtIn = p.2.builtIn := by
  unfold finalDef; split
  · split <;> rfl
  · rfl

theorem introspection_norm (cfg : Cfg) :
    (introspectionFields.map (normFieldDef cfg)).map FieldDef.erasePos = introspectionFields.map FieldDef.erasePos := by
  cases h : cfg.omitDescription <;>
    simp [introspectionFields, normFieldDef, normArgDef, normDesc, h, FieldDef.erasePos, ArgDef.erasePos]

/-- the introspection fields the loader appends are the same on both sides -/
theorem finalDef_reparsed {cfg : Cfg} (q : Option Name) (n : Name) {x x' : Definition}
    (h : x'.erasePos = (normDef cfg x).erasePos) :
    (finalDef q (n, x')).2.erasePos = (normDef cfg (finalDef q (n, x)).2).erasePos := by
  unfold finalDef
  split
  · split
    · have hf := congrArg Definition.fields h
      simp only [Definition.erasePos, normDef] at hf
      have hk := congrArg Definition.kind h
      have hd := congrArg Definition.desc h
      have hn := congrArg Definition.name h
      have hdi := congrArg Definition.dirs h
      have hi := congrArg Definition.interfaces h
      have ht := congrArg Definition.types h
      have he := congrArg Definition.enumValues h
      have hb := congrArg Definition.builtIn h
      simp only [Definition.erasePos, normDef] at hk hd hn hdi hi ht he hb
      simp only [Definition.erasePos, normDef, addIntrospection, List.map_append, hf, hk, hd, hn, hdi, hi, ht, he, hb,
        introspection_norm]
    · exact h
  · exact h

section
variable {cfg : Cfg} {pre u : SchemaDoc} {s : Schema} {st : LState} {r1 : Roots} {d1 : List Directive} {P : SchemaDoc}
variable (C : Ctx cfg pre u s st r1 d1 P)
include C

theorem Ctx.roots_eq : finalRoots (pre.merge u) st r1 = ⟨s.query, s.mutation, s.subscription⟩ := by
  rw [C.F.eq]; rfl

theorem Ctx.rootsResolve {st' : LState} (hb' : buildState (pre.merge P) = .ok st') (ht : st'.types = reTypes pre P) :
    RootsResolve st'.types s := by
  have hinv := (buildState_inv hb').1
  have key : ∀ n, (st.types.lookup n).isSome → ∃ d, st'.types.lookup n = some d ∧ d.name = n := by
    intro n hn
    have := (C.sameSk hb' ht).2.2 n
    cases h' : st'.types.lookup n with
    | none =>
      rw [h'] at this
      cases h0 : st.types.lookup n with
      | none => rw [h0] at hn; cases hn
      | some x => rw [h0] at this; cases this
    | some d => exact ⟨d, rfl, hinv.2 (n, d) (mem_of_lookup h')⟩
  have hr := C.F.roots
  rw [C.roots_eq] at hr
  exact ⟨fun n hn => key n (hr.1 n hn), fun n hn => key n (hr.2.1 n hn), fun n hn => key n (hr.2.2 n hn)⟩

/-- the equivalence, once the reloaded roots, schema directives and description are known -/
theorem Ctx.equiv {st' : LState} {acc0 : List (Name × DirectiveDef)} (hb' : buildState (pre.merge P) = .ok st')
    (ht : st'.types = reTypes pre P) (h1 : declareDirectives u.directives acc0 = .ok st.directives)
    (hD : declareDirectives P.directives acc0 = .ok st'.directives) {r1' : Roots} {d1' : List Directive}
    (hroots : finalRoots (pre.merge P) st' r1' = ⟨s.query, s.mutation, s.subscription⟩)
    (hdirs : d1'.map Directive.erasePos = (s.schemaDirectives.map normDir).map Directive.erasePos)
    (hdesc : (match (pre.merge P).schema with | [d] => d.desc | _ => []) = []) :
    ReloadEquiv cfg s (mkSchema (pre.merge P) st' r1' d1') := by
  have hS := C.sameSk hb' ht
  have hq' : (finalRoots (pre.merge P) st' r1').query = s.query := by rw [hroots]
  have hq : (finalRoots (pre.merge u) st r1).query = s.query := by rw [C.roots_eq]
  have hsd : s.directives = st.directives := C.directives_eq
  refine ⟨?_, ?_, ?_, hdirs, hdesc, ?_, ?_, ?_, ?_, ?_, ?_⟩
  · rw [mkSchema_query, hq']
  · show (finalRoots (pre.merge P) st' r1').mutation = s.mutation
    rw [hroots]
  · show (finalRoots (pre.merge P) st' r1').subscription = s.subscription
    rw [hroots]
  · rw [keys_mkSchema]
    have : s.types.map Prod.fst = st.types.map Prod.fst := by rw [C.F.eq]; exact keys_mkSchema _ _ _ _
    rw [this]
    exact hS.keys_perm
  · intro n d hl
    have hl0 : (mkSchema (pre.merge u) st r1 d1).types.lookup n = some d := by rw [← C.F.eq]; exact hl
    rw [lookup_mkSchema_eq, hq] at hl0
    cases hx : st.types.lookup n with
    | none => rw [hx] at hl0; cases hl0
    | some x =>
      rw [hx] at hl0
      simp only [Option.map, Option.some.injEq] at hl0
      have hbd : d.builtIn = x.builtIn := by rw [← hl0]; exact finalDef_builtIn _ _
      rw [lookup_mkSchema_eq, hq']
      cases hbx : x.builtIn with
      | true =>
        have := C.lookup_builtin hx hbx
        rw [← ht] at this
        refine ⟨d, by rw [this]; simp [hl0], fun _ => rfl, fun h => ?_⟩
        rw [hbd, hbx] at h; cases h
      | false =>
        obtain ⟨x', h2, h3⟩ := C.lookup_user hx hbx
        rw [← ht] at h2
        refine ⟨(finalDef s.query (n, x')).2, by rw [h2]; rfl, fun h => ?_, fun _ => ?_⟩
        · rw [hbd, hbx] at h; cases h
        · rw [← hl0]; exact finalDef_reparsed s.query n h3
  · show (st'.directives.map Prod.fst).Perm (s.directives.map Prod.fst)
    rw [hsd]
    have hp : (skDirs st'.directives).Perm (skDirs st.directives) := by
      apply perm_of_lookup_eq
      · simpa [skDirs, List.map_map, Function.comp_def] using C.F.dirsInv.1
      · simpa [skDirs, List.map_map, Function.comp_def] using (buildState_inv hb').2.1.1
      · intro n; rw [lookup_skDirs, lookup_skDirs]; exact C.sk_dirs h1 hD n
    have := hp.map Prod.fst
    simpa [skDirs, List.map_map, Function.comp_def] using this
  · intro n dd hl
    rw [hsd] at hl
    show ∃ dd', st'.directives.lookup n = some dd' ∧ _
    by_cases hs : dd.pos.src = 0
    · exact ⟨dd, C.dlookup_prelude h1 hD hl hs, fun _ => rfl, fun h => absurd hs h⟩
    · obtain ⟨d', h2, h3⟩ := C.dlookup_user hD hl hs
      exact ⟨d', h2, fun h => absurd h hs, fun _ => h3⟩
  · intro k
    rw [C.F.eq, possible_mkSchema, possible_mkSchema]
    have e1 : st.possible = (buildRelations st.types).1 := congrArg Prod.fst C.F.rel
    have e2 : st'.possible = (buildRelations st'.types).1 := congrArg Prod.fst (buildState_inv hb').2.2
    rw [e1, e2]
    exact (hS.possible_entries k).map _
  · intro k
    rw [C.F.eq, implementsOf_mkSchema, implementsOf_mkSchema]
    have e1 : st.implements = (buildRelations st.types).2 := congrArg Prod.snd C.F.rel
    have e2 : st'.implements = (buildRelations st'.types).2 := congrArg Prod.snd (buildState_inv hb').2.2
    rw [e1, e2]
    exact (hS.implements_entries k).map _

end

theorem schemaDef_components {X M : SchemaDef} (h : X.erasePos = M.erasePos) :
    X.desc = M.desc ∧ X.dirs.map Directive.erasePos = M.dirs.map Directive.erasePos ∧
      X.opTypes.map OpTypeDef.erasePos = M.opTypes.map OpTypeDef.erasePos := by
  have h1 := congrArg SchemaDef.desc h
  have h2 := congrArg SchemaDef.dirs h
  have h3 := congrArg SchemaDef.opTypes h
  simp only [SchemaDef.erasePos] at h1 h2 h3
  exact ⟨h1, h2, h3⟩

theorem apply_one {st : LState} {X : SchemaDef} {r r' : Roots} {acc : List Directive}
    (hops : setRoots st.types X.opTypes r = .ok r') (hd : validateDirectives st X.dirs locSchema none = .pass) :
    applySchemaDefs st [X] r acc = .ok r' (acc ++ X.dirs) := by
  simp [applySchemaDefs, applySchemaDef, hops, hd]

theorem normDesc_nil (cfg : Cfg) : normDesc cfg [] = [] := by unfold normDesc; split <;> rfl

/-- the roots `inferRoots` finds when no schema definition was printed -/
theorem inferRoots_printable {T : List (Name × Definition)} {s : Schema}
    (hl : ∀ n, (T.lookup n).isSome = (s.types.lookup n).isSome) (hres : RootsResolve T s)
    (hd : (isDefaultRoot s s.query (str "Query") && isDefaultRoot s s.mutation (str "Mutation") &&
      isDefaultRoot s s.subscription (str "Subscription")) = true) :
    inferRoots T noRoots = ⟨s.query, s.mutation, s.subscription⟩ := by
  simp only [Bool.and_eq_true] at hd
  obtain ⟨⟨hq, hm⟩, hs⟩ := hd
  have key : ∀ (root : Option Name) (dflt : Name), isDefaultRoot s root dflt = true →
      (∀ n, root = some n → ∃ d, T.lookup n = some d ∧ d.name = n) → ptrOf T dflt = root := by
    intro root dflt hdr hres
    unfold ptrOf
    cases root with
    | some n =>
      have hn : n = dflt := by simpa [isDefaultRoot] using hdr
      obtain ⟨d, h1, h2⟩ := hres n rfl
      rw [← hn, h1]; simp [h2]
    | none =>
      have hnone : (s.types.lookup dflt).isSome = false := by
        simpa [isDefaultRoot, Schema.type?] using hdr
      have := hl dflt
      rw [hnone] at this
      cases h : T.lookup dflt with
      | none => rfl
      | some x => rw [h] at this; cases this
  simp only [inferRoots, inferRoot, noRoots]
  rw [show nameQuery = str "Query" from rfl, show nameMutation = str "Mutation" from rfl,
    show nameSubscription = str "Subscription" from rfl, key _ _ hq hres.1, key _ _ hm hres.2.1, key _ _ hs hres.2.2]

/-- the last check of the loader (root operation types are object types) transfers along a
    skeleton-equivalence of states: it reads only the kind of the root definitions -/
theorem checkRootKinds_transfer {st st' : LState} (E : SkEq st st') {r : Roots}
    (h : checkRootKinds st r = .pass) : checkRootKinds st' r = .pass := by
  rw [checkRootKinds_pass_iff] at h ⊢
  intro o ho n d' hr hl'
  have := E.types n
  rw [hl'] at this
  cases hl : st.types.lookup n with
  | none => rw [hl] at this; cases this
  | some d =>
    rw [hl] at this
    simp only [Option.map_some, Option.some.injEq] at this
    have hk : (skDef d').kind = (skDef d).kind := congrArg Definition.kind this
    have hk : d'.kind = d.kind := hk
    rw [hk]
    exact h o ho n d hr hl

/-- **the reload theorem for the models** -/
theorem reload_main {cfg : Cfg} {pre u : SchemaDoc} {s : Schema} {P : SchemaDoc} (hb : cfg.emitBuiltin = false)
    (hpre : PreludeShape pre) (hu : UserShape pre u) (hload : load (pre.merge u) = .ok s) (hP : Reparsed cfg s P)
    (hrp : RootsPrintable s) : ∃ s', load (pre.merge P) = .ok s' ∧ ReloadEquiv cfg s s' := by
  obtain ⟨st, r1, d1, F, hvt, hvd, hsd, _⟩ := loaded_run hload
  have C : Ctx cfg pre u s st r1 d1 P := ⟨hb, hpre, hu, F, hP⟩
  obtain ⟨st', acc0, hb', ht, h1, hD⟩ := C.reload_state
  have E := C.skEq hb' ht h1 hD
  have hvt' := validateTypeDefinitions_transfer E hvt
  have hvd' := validateDirectiveDefinitions_transfer E hvd
  have hsdirs : s.schemaDirectives = d1 := by rw [F.eq]; rfl
  have hschema : (pre.merge P).schema = P.schema := by simp [SchemaDoc.merge, hpre.noSchema]
  have hschemaExt : (pre.merge P).schemaExt = P.schemaExt := by simp [SchemaDoc.merge, hpre.noSchemaExt]
  have hRR := C.rootsResolve hb' ht
  have hdirsOK : ∀ ds : List Directive, ds.map Directive.erasePos = (s.schemaDirectives.map normDir).map Directive.erasePos →
      validateDirectives st' ds locSchema none = .pass := by
    intro ds hds
    apply validateDirectives_transfer E (skDirs_of_reparsed hds)
    rw [hsdirs]; exact hsd
  -- the roots of the reloaded schema are those of `s`, whose definitions have the same kinds in both states
  have hkinds : checkRootKinds st' ⟨s.query, s.mutation, s.subscription⟩ = .pass := by
    apply checkRootKinds_transfer E
    have : (⟨s.query, s.mutation, s.subscription⟩ : Roots) = finalRoots (pre.merge u) st r1 := by rw [F.eq]; rfl
    rw [this]; exact F.rootKinds
  have hload' : ∀ r0 d0 r1' d1', P.schema.length ≤ 1 → applySchemaDefs st' P.schema noRoots [] = .ok r0 d0 →
      applySchemaDefs st' P.schemaExt r0 d0 = .ok r1' d1' →
      finalRoots (pre.merge P) st' r1' = ⟨s.query, s.mutation, s.subscription⟩ →
      load (pre.merge P) = .ok (mkSchema (pre.merge P) st' r1' d1') := by
    intro r0 d0 r1' d1' hlen h0 h1' hfr
    simp only [load, hb']
    apply finish_eq_ok (r0 := r0) (d0 := d0)
    · rw [hschema]; exact hlen
    · rw [hschema]; exact h0
    · rw [hschemaExt]; exact h1'
    · exact hvt'
    · exact hvd'
    · rw [hfr]; exact hkinds
  cases hn : needSchema s with
  | true =>
    have e1 := hP.schema
    have e2 := hP.schemaExt
    simp only [docOfSchemaRaw, hn, ↓reduceIte, mergeSchemaDefs, List.flatMap_cons, List.flatMap_nil, List.append_nil,
      List.map_cons, List.map_nil, Bool.not_true, Bool.false_and, Bool.false_eq_true, List.map_eq_nil_iff] at e1 e2
    obtain ⟨X, hX, hXe⟩ := List.map_eq_singleton_iff.mp e1
    obtain ⟨hXd, hXdirs, hXops⟩ := schemaDef_components hXe
    simp only at hXd hXdirs hXops
    have hops : setRoots st'.types X.opTypes noRoots = .ok ⟨s.query, s.mutation, s.subscription⟩ := by
      apply setRoots_of_P
      rw [opPairs_of_erasePos hXops]
      exact setRootsP_rootOpTypes hRR
    have h0 := apply_one (acc := []) hops (hdirsOK X.dirs hXdirs)
    refine ⟨_, hload' _ _ _ _ (by rw [hX]; simp) (by rw [hX]; exact h0) (by rw [e2]; rfl)
      (by unfold finalRoots; rw [hschema, hX]; rfl), ?_⟩
    apply C.equiv hb' ht h1 hD
    · unfold finalRoots; rw [hschema, hX]; rfl
    · simpa using hXdirs
    · rw [hschema, hX]; simp only; rw [hXd, normDesc_nil]
  | false =>
    have hdef := hrp hn
    have e1 := hP.schema
    simp only [docOfSchemaRaw, hn, Bool.false_eq_true, ↓reduceIte, mergeSchemaDefs, List.map_nil, List.map_eq_nil_iff] at e1
    have hinf : inferRoots st'.types noRoots = ⟨s.query, s.mutation, s.subscription⟩ := by
      apply inferRoots_printable _ hRR hdef
      intro n
      have h2 := (C.sameSk hb' ht).2.2 n
      have h3 : (s.types.lookup n).isSome = (st.types.lookup n).isSome := by
        rw [F.eq, lookup_mkSchema_eq]; cases st.types.lookup n <;> rfl
      rw [h3]
      cases ha : st'.types.lookup n <;> cases hb2 : st.types.lookup n <;> rw [ha, hb2] at h2 <;> first | rfl | cases h2
    have hfin : ∀ r, finalRoots (pre.merge P) st' r = inferRoots st'.types r := by
      intro r; unfold finalRoots; rw [hschema, e1]; rfl
    have hdesc : (match (pre.merge P).schema with | [d] => d.desc | _ => []) = [] := by rw [hschema, e1]
    by_cases hde : s.schemaDirectives.isEmpty = true
    · have e2 := hP.schemaExt
      simp only [docOfSchemaRaw, hn, hde, Bool.not_false, Bool.not_true, Bool.and_false, Bool.false_eq_true, ↓reduceIte,
        mergeSchemaDefs, List.map_nil, List.map_eq_nil_iff] at e2
      refine ⟨_, hload' noRoots [] noRoots [] (by rw [e1]; simp) (by rw [e1]; rfl) (by rw [e2]; rfl)
        (by rw [hfin]; exact hinf), ?_⟩
      apply C.equiv hb' ht h1 hD
      · rw [hfin]; exact hinf
      · have : s.schemaDirectives = [] := by simpa using hde
        rw [this]; rfl
      · exact hdesc
    · have e2 := hP.schemaExt
      simp only [docOfSchemaRaw, hn, hde, Bool.not_false, Bool.and_self, ↓reduceIte, mergeSchemaDefs, List.flatMap_cons,
        List.flatMap_nil, List.append_nil, List.map_cons, List.map_nil] at e2
      obtain ⟨X, hX, hXe⟩ := List.map_eq_singleton_iff.mp e2
      obtain ⟨_, hXdirs, hXops⟩ := schemaDef_components hXe
      simp only [List.map_nil, List.map_eq_nil_iff] at hXdirs hXops
      have hops : setRoots st'.types X.opTypes noRoots = .ok noRoots := by rw [hXops]; rfl
      have h0 := apply_one (acc := []) hops (hdirsOK X.dirs hXdirs)
      refine ⟨_, hload' noRoots [] _ _ (by rw [e1]; simp) (by rw [e1]; rfl) (by rw [hX]; exact h0)
        (by rw [hfin]; exact hinf), ?_⟩
      apply C.equiv hb' ht h1 hD
      · rw [hfin]; exact hinf
      · simpa using hXdirs
      · exact hdesc

end Gql.Format
