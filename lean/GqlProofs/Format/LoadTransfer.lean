import GqlProofs.Format.LoadSkeleton
/-
  Transfer of acceptance between two loader states whose stored definitions have the same
  skeletons under the same names (`SkEq`): whatever passes its validator in the one passes in the
  other.  The order of the maps does not matter (everything is stated through lookups).
-/
namespace Gql.Load
open Gql

/-- the same lookups (types, directive definitions) and the same covariance test -/
structure StateEqL (st st' : LState) : Prop where
  types : ∀ n, st'.type? n = st.type? n
  dirs : ∀ n, st'.directives.lookup n = st.directives.lookup n
  cov : ∀ r a, isCovariant st' r a = isCovariant st r a

section
variable {st st' : LState} (E : StateEqL st st')
include E

theorem validateDirectives_congrL (ds : List Directive) (loc : Bytes) (cur : Option Name) :
    validateDirectives st' ds loc cur = validateDirectives st ds loc cur := by
  unfold validateDirectives validateDirectiveUse
  simp only [E.dirs]

theorem validateTypeRef_congrL (t : GType) : validateTypeRef st' t = validateTypeRef st t := by
  unfold validateTypeRef
  simp only [E.types]

theorem validateArgs_congrL (args : List ArgDef) (cur : Option Name) :
    validateArgs st' args cur = validateArgs st args cur := by
  unfold validateArgs
  simp only [E.types, validateTypeRef_congrL E, validateDirectives_congrL E]

theorem validateImplements_congrL (d : Definition) : validateImplements st' d = validateImplements st d := by
  funext i
  unfold validateImplements validateImplementsField validateTypeImplementsAncestors
  simp only [E.types, E.cov]

theorem validateKindSpecific_congrL (d : Definition) : validateKindSpecific st' d = validateKindSpecific st d := by
  unfold validateKindSpecific
  simp only [E.types, validateDirectives_congrL E]

theorem validateDefinition_congrL (d : Definition) : validateDefinition st' d = validateDefinition st d := by
  unfold validateDefinition
  simp only [E.types, validateTypeRef_congrL E, validateArgs_congrL E, validateDirectives_congrL E,
    validateImplements_congrL E, validateKindSpecific_congrL E]

theorem validateDirectiveDef_congrL (dd : DirectiveDef) : validateDirectiveDef st' dd = validateDirectiveDef st dd := by
  unfold validateDirectiveDef
  simp only [validateArgs_congrL E]

end

theorem isCovariant_skState (st : LState) : ∀ r a : GType, isCovariant (skState st) r a = isCovariant st r a := by
  intro r
  induction r with
  | named rn rnn rp => intro a; simp [isCovariant, skState]
  | list re rnn rp ih =>
    intro a
    cases a with
    | named an ann ap => simp [isCovariant]
    | list ae ann ap => simp [isCovariant, ih]

/-- `st'` stores, under the same names, definitions with the same skeletons as `st` -/
structure SkEq (st st' : LState) : Prop where
  types : ∀ n, (st'.types.lookup n).map skDef = (st.types.lookup n).map skDef
  dirs : ∀ n, (st'.directives.lookup n).map skDirDef = (st.directives.lookup n).map skDirDef
  cov : ∀ r a, isCovariant st' r a = isCovariant st r a

theorem SkEq.stateEqL {st st' : LState} (E : SkEq st st') : StateEqL (skState st) (skState st') :=
  ⟨fun n => by rw [type?_skState, type?_skState]; exact E.types n,
   fun n => by
     show (skDirs st'.directives).lookup n = (skDirs st.directives).lookup n
     rw [lookup_skDirs, lookup_skDirs]; exact E.dirs n,
   fun r a => by rw [isCovariant_skState, isCovariant_skState]; exact E.cov r a⟩

section
variable {st st' : LState} (E : SkEq st st')
include E

theorem validateDefinition_transfer {d d' : Definition} (h : skDef d' = skDef d)
    (hp : validateDefinition st d = .pass) : validateDefinition st' d' = .pass := by
  rw [← ok_iff] at hp ⊢
  rw [← validateDefinition_sk, h, validateDefinition_congrL E.stateEqL, validateDefinition_sk]
  exact hp

theorem validateDirectiveDef_transfer {d d' : DirectiveDef} (h : skDirDef d' = skDirDef d)
    (hp : validateDirectiveDef st d = .pass) : validateDirectiveDef st' d' = .pass := by
  rw [← ok_iff] at hp ⊢
  rw [← validateDirectiveDef_sk, h, validateDirectiveDef_congrL E.stateEqL, validateDirectiveDef_sk]
  exact hp

theorem validateDirectives_transfer {ds ds' : List Directive} (h : ds'.map skDir = ds.map skDir) (loc : Bytes)
    (cur : Option Name) (hp : validateDirectives st ds loc cur = .pass) : validateDirectives st' ds' loc cur = .pass := by
  rw [← ok_iff] at hp ⊢
  rw [← validateDirectives_sk, h, validateDirectives_congrL E.stateEqL, validateDirectives_sk]
  exact hp

theorem validateTypeDefinitions_transfer (h : validateTypeDefinitions st = .pass) :
    validateTypeDefinitions st' = .pass := by
  unfold validateTypeDefinitions at h ⊢
  rw [each_eq_pass] at h ⊢
  intro k hk
  rw [mem_sortNames, ← lookup_isSome_iff_mem_keys] at hk
  have ht := E.types k
  cases h' : st'.types.lookup k with
  | none => rw [h'] at hk; cases hk
  | some d' =>
    cases h0 : st.types.lookup k with
    | none => rw [h', h0] at ht; cases ht
    | some d =>
      rw [h', h0] at ht
      simp only [Option.map, Option.some.injEq] at ht
      have hk0 : k ∈ sortNames (st.types.map Prod.fst) := by
        rw [mem_sortNames, ← lookup_isSome_iff_mem_keys, h0]; rfl
      have := h k hk0
      simp only [LState.type?, h0] at this
      simp only [LState.type?, h']
      exact validateDefinition_transfer E ht this

theorem validateDirectiveDefinitions_transfer (h : validateDirectiveDefinitions st = .pass) :
    validateDirectiveDefinitions st' = .pass := by
  unfold validateDirectiveDefinitions at h ⊢
  rw [each_eq_pass] at h ⊢
  intro k hk
  rw [mem_sortNames, ← lookup_isSome_iff_mem_keys] at hk
  have ht := E.dirs k
  cases h' : st'.directives.lookup k with
  | none => rw [h'] at hk; cases hk
  | some d' =>
    cases h0 : st.directives.lookup k with
    | none => rw [h', h0] at ht; cases ht
    | some d =>
      rw [h', h0] at ht
      simp only [Option.map, Option.some.injEq] at ht
      have hk0 : k ∈ sortNames (st.directives.map Prod.fst) := by
        rw [mem_sortNames, ← lookup_isSome_iff_mem_keys, h0]; rfl
      have := h k hk0
      simp only [h0] at this
      simp only []
      exact validateDirectiveDef_transfer E ht this

end

end Gql.Load
