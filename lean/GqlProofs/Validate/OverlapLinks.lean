import GqlProofs.Validate.OverlapWalk
import GqlProofs.Validate.OverlapDocF
/-
  OverlappingFieldsCanBeMerged: the memo-free judgments do not depend on the link table as long as
  everything the judgment can reach is linked (`holds_transport`) — so the snapshot of an event at
  whose time everything reachable is linked (`EvLinked`) can be exchanged for the table in which
  every selection node of the document is linked (`fullLinks`).
-/
namespace Gql.Validate
open Gql Gql.Validate.Rules

/-- the environment of an observer call on the schema view -/
abbrev envV (s : SV) (d : QueryDoc) (l : Links) : Env := overlapEnv s d l

/- ---------- collected fields and spreads are nodes of the selection set ---------- -/

mutual
  theorem collectFields_inSels (s : SV) (l : Links) : ∀ (sels : Selections) (p : Option Definition) (f : FInfo),
      f ∈ collectFields s l p sels → InSels sels (.sel f.sel')
    | .nil, _, _, h => by simp [collectFields] at h
    | .cons y rest, p, f, h => by
      simp only [collectFields, List.mem_append] at h
      rcases h with h | h
      · exact InSels.head _ _ _ (collectFieldsSel_inSel s l y p f h)
      · exact InSels.tail _ _ _ (collectFields_inSels s l rest p f h)
  theorem collectFieldsSel_inSel (s : SV) (l : Links) : ∀ (y : Selection) (p : Option Definition) (f : FInfo),
      f ∈ collectFieldsSel s l p y → InSel y (.sel f.sel')
    | .field al nm args dirs sub pos, p, f, h => by
      simp only [collectFieldsSel, List.mem_singleton] at h
      subst h
      exact InSel.self _
    | .inline tc dirs sub pos, p, f, h => by
      simp only [collectFieldsSel] at h
      exact InSel.inlineSub _ _ _ _ _ (collectFields_inSels s l sub _ f h)
    | .spread _ _ _, _, _, h => by simp [collectFieldsSel] at h
end

mutual
  theorem collectSpreads_inSels : ∀ (sels : Selections) (sp : SpreadNode),
      sp ∈ collectSpreads sels → InSels sels (.sel (.spread sp.name sp.dirs sp.pos))
    | .nil, _, h => by simp [collectSpreads] at h
    | .cons y rest, sp, h => by
      simp only [collectSpreads, List.mem_append] at h
      rcases h with h | h
      · exact InSels.head _ _ _ (collectSpreadsSel_inSel y sp h)
      · exact InSels.tail _ _ _ (collectSpreads_inSels rest sp h)
  theorem collectSpreadsSel_inSel : ∀ (y : Selection) (sp : SpreadNode),
      sp ∈ collectSpreadsSel y → InSel y (.sel (.spread sp.name sp.dirs sp.pos))
    | .field .., _, h => by simp [collectSpreadsSel] at h
    | .inline tc dirs sub pos, sp, h => by
      simp only [collectSpreadsSel] at h
      exact InSel.inlineSub _ _ _ _ _ (collectSpreads_inSels sub sp h)
    | .spread nm dirs pos, sp, h => by
      simp only [collectSpreadsSel, List.mem_singleton] at h
      subst h
      exact InSel.self _
end

mutual
  theorem collectSpreads_names : ∀ (sels : Selections) (sp : SpreadNode),
      sp ∈ collectSpreads sels → sp.name ∈ Spec.spreadsOfSels sels
    | .nil, _, h => by simp [collectSpreads] at h
    | .cons y rest, sp, h => by
      simp only [collectSpreads, List.mem_append] at h
      simp only [Spec.spreadsOfSels, List.mem_append]
      rcases h with h | h
      · exact Or.inl (collectSpreadsSel_names y sp h)
      · exact Or.inr (collectSpreads_names rest sp h)
  theorem collectSpreadsSel_names : ∀ (y : Selection) (sp : SpreadNode),
      sp ∈ collectSpreadsSel y → sp.name ∈ Spec.spreadsOfSel y
    | .field .., _, h => by simp [collectSpreadsSel] at h
    | .inline tc dirs sub pos, sp, h => by
      simp only [collectSpreadsSel] at h
      simp only [Spec.spreadsOfSel]
      exact collectSpreads_names sub sp h
    | .spread nm dirs pos, sp, h => by
      simp only [collectSpreadsSel, List.mem_singleton] at h
      subst h
      simp [Spec.spreadsOfSel]
end

mutual
  /-- nodes below a node of a selection set are nodes of the selection set -/
  theorem inSels_trans : ∀ (sels : Selections) (y : Selection) (i : Item), InSels sels (.sel y) → InSel y i → InSels sels i
    | .nil, _, _, h, _ => by cases h
    | .cons x rest, y, i, h, hi => by
      cases h with
      | head _ _ _ hx => exact InSels.head _ _ _ (inSel_trans x y i hx hi)
      | tail _ _ _ hx => exact InSels.tail _ _ _ (inSels_trans rest y i hx hi)
  theorem inSel_trans : ∀ (x y : Selection) (i : Item), InSel x (.sel y) → InSel y i → InSel x i
    | .field al nm args dirs sub pos, y, i, h, hi => by
      cases h with
      | self => exact hi
      | fieldSub _ _ _ _ _ _ _ hs => exact InSel.fieldSub _ _ _ _ _ _ _ (inSels_trans sub y i hs hi)
    | .inline tc dirs sub pos, y, i, h, hi => by
      cases h with
      | self => exact hi
      | inlineSub _ _ _ _ _ hs => exact InSel.inlineSub _ _ _ _ _ (inSels_trans sub y i hs hi)
    | .spread nm dirs pos, y, i, h, hi => by
      cases h with
      | self => exact hi
end

/- ---------- `LinkedAll` descends ---------- -/

theorem LinkedAll.sub {s : SV} {l l0 : Links} {d : QueryDoc} {sels : Selections} {p : Option Definition} {f : FInfo}
    (h : LinkedAll l d sels) (hf : f ∈ collectFields s l0 p sels) : LinkedAll l d f.node.sel := by
  have hin := collectFields_inSels s l0 sels p f hf
  constructor
  · intro y hy
    exact h.1 y (inSels_trans sels _ _ hin (InSel.fieldSub _ _ _ _ _ _ _ hy))
  · intro n g hr hg y hy
    exact h.2 n g (hr.mono (collectFields_spreads s l0 sels p f hf)) hg y hy

theorem LinkedAll.self_linked {s : SV} {l l0 : Links} {d : QueryDoc} {sels : Selections} {p : Option Definition} {f : FInfo}
    (h : LinkedAll l d sels) (hf : f ∈ collectFields s l0 p sels) : l.linked f.node.pos.start = true :=
  h.1 _ (collectFields_inSels s l0 sels p f hf)

theorem LinkedAll.spread {l : Links} {d : QueryDoc} {sels : Selections} {sp : SpreadNode}
    (h : LinkedAll l d sels) (hsp : sp ∈ collectSpreads sels) :
    l.linked sp.pos.start = true ∧ ∀ F, fragForName d sp.name = some F → LinkedAll l d F.sel := by
  refine ⟨h.1 _ (collectSpreads_inSels sels sp hsp), fun F hF => ⟨fun y hy => ?_, fun n g hr hg y hy => ?_⟩⟩
  · exact h.2 sp.name F (Reach.base (collectSpreads_names sels sp hsp)) hF y hy
  · refine h.2 n g (Reach.trans (Reach.base (collectSpreads_names sels sp hsp)) ?_) hg y hy
    unfold Spec.fragSpreads
    rw [fragByName_eq, hF]
    exact hr

/-- a spread node that is linked, with everything below its fragment -/
def SpreadLinked (l : Links) (d : QueryDoc) (sp : SpreadNode) : Prop :=
  l.linked sp.pos.start = true ∧ ∀ F, fragForName d sp.name = some F → LinkedAll l d F.sel

/- ---------- the collectors under two link tables ---------- -/

mutual
  theorem collectFields_congr (s : SV) (l l' : Links) : ∀ (sels : Selections) (p : Option Definition),
      (∀ y, InSels sels (.sel y) → l.linked (selPos y).start = l'.linked (selPos y).start) →
        collectFields s l p sels = collectFields s l' p sels
    | .nil, _, _ => rfl
    | .cons y rest, p, h => by
      simp only [collectFields]
      rw [collectFieldsSel_congr s l l' y p (fun z hz => h z (InSels.head _ _ _ hz)),
        collectFields_congr s l l' rest p (fun z hz => h z (InSels.tail _ _ _ hz))]
  theorem collectFieldsSel_congr (s : SV) (l l' : Links) : ∀ (y : Selection) (p : Option Definition),
      (∀ z, InSel y (.sel z) → l.linked (selPos z).start = l'.linked (selPos z).start) →
        collectFieldsSel s l p y = collectFieldsSel s l' p y
    | .field al nm args dirs sub pos, p, h => by
      simp only [collectFieldsSel]
      have := h _ (InSel.self _)
      simp only [selPos] at this
      rw [this]
    | .inline tc dirs sub pos, p, h => by
      simp only [collectFieldsSel]
      exact collectFields_congr s l l' sub _ (fun z hz => h z (InSel.inlineSub _ _ _ _ _ hz))
    | .spread _ _ _, _, _ => rfl
end

theorem collectFields_linked_congr (s : SV) {l l' : Links} {d : QueryDoc} {sels : Selections} (p : Option Definition)
    (h : LinkedAll l d sels) (h' : LinkedAll l' d sels) : collectFields s l p sels = collectFields s l' p sels :=
  collectFields_congr s l l' sels p (fun y hy => by rw [h.1 y hy, h'.1 y hy])

theorem spreadDef_linked {l : Links} {d : QueryDoc} {sp : SpreadNode} (h : l.linked sp.pos.start = true) :
    l.spreadDef d sp.name sp.pos = fragForName d sp.name := by
  simp [Links.spreadDef, h]

/- ---------- transport ---------- -/

def JLinked (l : Links) (d : QueryDoc) : Jg → Prop
  | .conf _ a b => LinkedAll l d a.node.sel ∧ LinkedAll l d b.node.sel
  | .sub _ a b => LinkedAll l d a.node.sel ∧ LinkedAll l d b.node.sel
  | .chain _ _ sels sp => LinkedAll l d sels ∧ SpreadLinked l d sp
  | .check _ a b => SpreadLinked l d a ∧ SpreadLinked l d b

theorem holds_transport (s : SV) (d : QueryDoc) (l l' : Links) {j : Jg} (h : Holds (envV s d l) j) :
    JLinked l d j → JLinked l' d j → Holds (envV s d l') j := by
  induction h with
  | names hoa hob hex hne => exact fun _ _ => .names hoa hob hex hne
  | args hoa hob hex ha => exact fun _ _ => .args hoa hob hex ha
  | types hoa hob hda hdb hc => exact fun _ _ => .types hoa hob hda hdb hc
  | sub hoa hob _ ih => exact fun h1 h2 => .sub hoa hob (ih h1 h2)
  | @subFields ex a b a' b' ha' hb' hrn _ ih =>
    intro h1 h2
    have ea : subFields (envV s d l) a = subFields (envV s d l') a := collectFields_linked_congr s _ h1.1 h2.1
    have eb : subFields (envV s d l) b = subFields (envV s d l') b := collectFields_linked_congr s _ h1.2 h2.2
    refine .subFields (ea ▸ ha') (eb ▸ hb') hrn (ih ⟨h1.1.sub ha', h1.2.sub hb'⟩ ⟨h2.1.sub ha', h2.2.sub hb'⟩)
  | @subChainB ex a b sp hsp _ ih =>
    intro h1 h2
    exact .subChainB hsp (ih ⟨h1.1, h1.2.spread hsp⟩ ⟨h2.1, h2.2.spread hsp⟩)
  | @subChainA ex a b sp hsp _ ih =>
    intro h1 h2
    exact .subChainA hsp (ih ⟨h1.2, h1.1.spread hsp⟩ ⟨h2.2, h2.1.spread hsp⟩)
  | @subCheck ex a b sa sb hsa hsb _ ih =>
    intro h1 h2
    exact .subCheck hsa hsb (ih ⟨h1.1.spread hsa, h1.2.spread hsb⟩ ⟨h2.1.spread hsa, h2.2.spread hsb⟩)
  | @chainHere ex parent sels sp F a g hF hid ha hg hrn _ ih =>
    intro h1 h2
    have hF0 : fragForName d sp.name = some F := by
      have : (envV s d l).l.spreadDef (envV s d l).d sp.name sp.pos = some F := hF
      rw [show (envV s d l).l = l from rfl, show (envV s d l).d = d from rfl, spreadDef_linked h1.2.1] at this
      exact this
    have hF' : (envV s d l').l.spreadDef (envV s d l').d sp.name sp.pos = some F := by
      show l'.spreadDef d sp.name sp.pos = some F
      rw [spreadDef_linked h2.2.1]
      exact hF0
    have ea : collectFields s l parent sels = collectFields s l' parent sels := collectFields_linked_congr s _ h1.1 h2.1
    have eg : fragFieldList (envV s d l) F = fragFieldList (envV s d l') F :=
      collectFields_linked_congr s _ (h1.2.2 F hF0) (h2.2.2 F hF0)
    refine .chainHere hF' hid (ea ▸ ha) (eg ▸ hg) hrn
      (ih ⟨h1.1.sub ha, (h1.2.2 F hF0).sub hg⟩ ⟨h2.1.sub ha, (h2.2.2 F hF0).sub hg⟩)
  | @chainNext ex parent sels sp sp' F hF hid hsp' hne _ ih =>
    intro h1 h2
    have hF0 : fragForName d sp.name = some F := by
      have : l.spreadDef d sp.name sp.pos = some F := hF
      rw [spreadDef_linked h1.2.1] at this
      exact this
    have hF' : (envV s d l').l.spreadDef (envV s d l').d sp.name sp.pos = some F := by
      show l'.spreadDef d sp.name sp.pos = some F
      rw [spreadDef_linked h2.2.1]
      exact hF0
    exact .chainNext hF' hid hsp' hne (ih ⟨h1.1, (h1.2.2 F hF0).spread hsp'⟩ ⟨h2.1, (h2.2.2 F hF0).spread hsp'⟩)
  | @checkHere ex a b A B fa fb hne hA hB hfa hfb hrn _ ih =>
    intro h1 h2
    have hA0 : fragForName d a.name = some A := by
      have : l.spreadDef d a.name a.pos = some A := hA
      rw [spreadDef_linked h1.1.1] at this
      exact this
    have hB0 : fragForName d b.name = some B := by
      have : l.spreadDef d b.name b.pos = some B := hB
      rw [spreadDef_linked h1.2.1] at this
      exact this
    have hA' : (envV s d l').l.spreadDef (envV s d l').d a.name a.pos = some A := by
      show l'.spreadDef d a.name a.pos = some A
      rw [spreadDef_linked h2.1.1]; exact hA0
    have hB' : (envV s d l').l.spreadDef (envV s d l').d b.name b.pos = some B := by
      show l'.spreadDef d b.name b.pos = some B
      rw [spreadDef_linked h2.2.1]; exact hB0
    have ea : fragFieldList (envV s d l) A = fragFieldList (envV s d l') A :=
      collectFields_linked_congr s _ (h1.1.2 A hA0) (h2.1.2 A hA0)
    have eb : fragFieldList (envV s d l) B = fragFieldList (envV s d l') B :=
      collectFields_linked_congr s _ (h1.2.2 B hB0) (h2.2.2 B hB0)
    exact .checkHere hne hA' hB' (ea ▸ hfa) (eb ▸ hfb) hrn
      (ih ⟨(h1.1.2 A hA0).sub hfa, (h1.2.2 B hB0).sub hfb⟩ ⟨(h2.1.2 A hA0).sub hfa, (h2.2.2 B hB0).sub hfb⟩)
  | @checkRight ex a b x A B hne hA hB hx _ ih =>
    intro h1 h2
    have hA0 : fragForName d a.name = some A := by
      have : l.spreadDef d a.name a.pos = some A := hA
      rw [spreadDef_linked h1.1.1] at this
      exact this
    have hB0 : fragForName d b.name = some B := by
      have : l.spreadDef d b.name b.pos = some B := hB
      rw [spreadDef_linked h1.2.1] at this
      exact this
    have hA' : (envV s d l').l.spreadDef (envV s d l').d a.name a.pos = some A := by
      show l'.spreadDef d a.name a.pos = some A
      rw [spreadDef_linked h2.1.1]; exact hA0
    have hB' : (envV s d l').l.spreadDef (envV s d l').d b.name b.pos = some B := by
      show l'.spreadDef d b.name b.pos = some B
      rw [spreadDef_linked h2.2.1]; exact hB0
    exact .checkRight hne hA' hB' hx (ih ⟨h1.1, (h1.2.2 B hB0).spread hx⟩ ⟨h2.1, (h2.2.2 B hB0).spread hx⟩)
  | @checkLeft ex a b x A B hne hA hB hx _ ih =>
    intro h1 h2
    have hA0 : fragForName d a.name = some A := by
      have : l.spreadDef d a.name a.pos = some A := hA
      rw [spreadDef_linked h1.1.1] at this
      exact this
    have hB0 : fragForName d b.name = some B := by
      have : l.spreadDef d b.name b.pos = some B := hB
      rw [spreadDef_linked h1.2.1] at this
      exact this
    have hA' : (envV s d l').l.spreadDef (envV s d l').d a.name a.pos = some A := by
      show l'.spreadDef d a.name a.pos = some A
      rw [spreadDef_linked h2.1.1]; exact hA0
    have hB' : (envV s d l').l.spreadDef (envV s d l').d b.name b.pos = some B := by
      show l'.spreadDef d b.name b.pos = some B
      rw [spreadDef_linked h2.2.1]; exact hB0
    exact .checkLeft hne hA' hB' hx (ih ⟨(h1.1.2 A hA0).spread hx, h1.2⟩ ⟨(h2.1.2 A hA0).spread hx, h2.2⟩)

/-- the verdict about a selection set does not depend on the link table once everything reachable is linked -/
theorem topHolds_transport (s : SV) (d : QueryDoc) (l l' : Links) (parent : Option Definition) (sels : Selections)
    (h1 : LinkedAll l d sels) (h2 : LinkedAll l' d sels) (h : TopHolds (envV s d l) parent sels) :
    TopHolds (envV s d l') parent sels := by
  have ef : collectFields s l parent sels = collectFields s l' parent sels := collectFields_linked_congr s _ h1 h2
  rcases h with ⟨a, b, hs, hrn, hh⟩ | ⟨sp, hsp, hh⟩ | ⟨sa, sb, hs, hh⟩
  · have ha : a ∈ collectFields s l parent sels := hs.subset (by simp)
    have hb : b ∈ collectFields s l parent sels := hs.subset (by simp)
    refine Or.inl ⟨a, b, ?_, hrn, holds_transport s d l l' hh ⟨h1.sub ha, h1.sub hb⟩ ⟨h2.sub ha, h2.sub hb⟩⟩
    show [a, b].Sublist (collectFields s l' parent sels)
    rw [← ef]
    exact hs
  · exact Or.inr (Or.inl ⟨sp, hsp, holds_transport s d l l' hh ⟨h1, h1.spread hsp⟩ ⟨h2, h2.spread hsp⟩⟩)
  · have ha : sa ∈ collectSpreads sels := hs.subset (by simp)
    have hb : sb ∈ collectSpreads sels := hs.subset (by simp)
    exact Or.inr (Or.inr ⟨sa, sb, hs, holds_transport s d l l' hh ⟨h1.spread ha, h1.spread hb⟩ ⟨h2.spread ha, h2.spread hb⟩⟩)

end Gql.Validate
