import GqlModel.Validate.Rules
/-
  Engine-level lemmas for C18: `runAll` is an event-major, rule-minor interleaving of the
  columns of independent state machines.
-/
namespace Gql.Validate
open Gql

def rnames (rs : List Running) : List Bytes := rs.map (·.rule.name)

theorem Running.step_ok {s : SV} {d : QueryDoc} {r r' : Running} {e : Event} {errs : List Err}
    (h : r.step s d e = .ok (r', errs)) :
    r'.rule = r.rule ∧ ∀ x ∈ errs, x.rule = r.rule.name := by
  unfold Running.step at h
  split at h
  · injection h with h; injection h with h1 h2
    subst h1; subst h2
    refine ⟨rfl, ?_⟩
    intro x hx
    simp [RErr.toErr] at hx
    obtain ⟨_, _, rfl⟩ := hx
    rfl
  · cases h

/-- all errors of one event are tagged with names of the rule list, and the rule list keeps its rules -/
theorem stepAll_ok {s : SV} {d : QueryDoc} {e : Event} :
    ∀ {rs rs' : List Running} {errs : List Err}, stepAll s d e rs = .ok (rs', errs) →
      rs'.map (·.rule) = rs.map (·.rule) ∧ ∀ x ∈ errs, x.rule ∈ rnames rs
  | [], rs', errs, h => by
    simp [stepAll] at h
    obtain ⟨rfl, rfl⟩ := h
    simp
  | r :: rs, rs', errs, h => by
    simp only [stepAll] at h
    split at h
    · cases h
    · rename_i r1 e1 h1
      split at h
      · cases h
      · rename_i rs1 e2 h2
        injection h with h; injection h with ha hb
        subst ha; subst hb
        have ⟨hr, ht⟩ := Running.step_ok h1
        have ⟨hrs, hts⟩ := stepAll_ok h2
        refine ⟨by simp [hr, hrs], ?_⟩
        intro x hx
        simp only [List.mem_append] at hx
        rcases hx with hx | hx
        · simp [rnames, ht x hx]
        · have := hts x hx
          simp only [rnames, List.map_cons, List.mem_cons] at *
          exact Or.inr this

theorem rnames_stepAll {s : SV} {d : QueryDoc} {e : Event} {rs rs' : List Running} {errs : List Err}
    (h : stepAll s d e rs = .ok (rs', errs)) : rnames rs' = rnames rs := by
  have := (stepAll_ok h).1
  have h2 := congrArg (List.map (·.name)) this
  simpa [rnames, List.map_map, Function.comp_def] using h2

/-- filtering the errors of one event by the name of a member rule gives that rule's own step -/
theorem stepAll_filter {s : SV} {d : QueryDoc} {e : Event} :
    ∀ {rs rs' : List Running} {errs : List Err}, stepAll s d e rs = .ok (rs', errs) →
      (rnames rs).Nodup → ∀ r ∈ rs, ∃ r' er, r.step s d e = .ok (r', er) ∧ r' ∈ rs' ∧
        errs.filter (fun x => decide (x.rule = r.rule.name)) = er
  | [], _, _, _, _, r, hr => by cases hr
  | r0 :: rs, rs', errs, h, hnd, r, hr => by
    simp only [stepAll] at h
    split at h
    · cases h
    · rename_i r1 e1 h1
      split at h
      · cases h
      · rename_i rs1 e2 h2
        injection h with h; injection h with ha hb
        subst ha; subst hb
        have ⟨_, ht⟩ := Running.step_ok h1
        have ⟨_, hts⟩ := stepAll_ok h2
        simp only [rnames, List.map_cons, List.nodup_cons] at hnd
        rcases List.mem_cons.1 hr with rfl | hr'
        · refine ⟨r1, e1, h1, List.mem_cons_self, ?_⟩
          rw [List.filter_append]
          have a1 : e1.filter (fun x => decide (x.rule = r.rule.name)) = e1 := by
            apply List.filter_eq_self.2
            intro x hx; simp [ht x hx]
          have a2 : e2.filter (fun x => decide (x.rule = r.rule.name)) = [] := by
            apply List.filter_eq_nil_iff.2
            intro x hx
            have := hts x hx
            simp only [decide_eq_true_eq]
            intro heq
            exact hnd.1 (heq ▸ this)
          simp [a1, a2]
        · obtain ⟨r', er, hs, hm, hf⟩ := stepAll_filter h2 hnd.2 r hr'
          refine ⟨r', er, hs, List.mem_cons_of_mem _ hm, ?_⟩
          rw [List.filter_append]
          have a1 : e1.filter (fun x => decide (x.rule = r.rule.name)) = [] := by
            apply List.filter_eq_nil_iff.2
            intro x hx
            simp only [decide_eq_true_eq]
            intro heq
            have hmem : r.rule.name ∈ rs.map (·.rule.name) := List.mem_map.2 ⟨r, hr', rfl⟩
            rw [ht x hx] at heq
            exact hnd.1 (heq ▸ hmem)
          simp [a1, hf]

theorem runAll_single_cons {s : SV} {d : QueryDoc} {r : Running} {e : Event} {es : List Event} :
    runAll s d [r] (e :: es) =
      match r.step s d e with
      | .error m => .error m
      | .ok (r', er) =>
        match runAll s d [r'] es with
        | .error m => .error m
        | .ok errs => .ok (er ++ errs) := by
  simp only [runAll, stepAll]
  cases h : r.step s d e with
  | error m => rfl
  | ok p =>
    obtain ⟨r', er⟩ := p
    simp only [List.append_nil]
    cases runAll s d [r'] es <;> rfl

/-- composition: the column of a member rule is the filter of the whole by its name -/
theorem runAll_filter {s : SV} {d : QueryDoc} :
    ∀ {evs : List Event} {rs : List Running} {errs : List Err}, runAll s d rs evs = .ok errs →
      (rnames rs).Nodup → ∀ r ∈ rs,
        runAll s d [r] evs = .ok (errs.filter (fun x => decide (x.rule = r.rule.name)))
  | [], rs, errs, h, _, r, _ => by
    simp [runAll] at h
    subst h
    simp [runAll]
  | e :: es, rs, errs, h, hnd, r, hr => by
    simp only [runAll] at h
    split at h
    · cases h
    · rename_i rs1 e1 h1
      split at h
      · cases h
      · rename_i e2 h2
        injection h with h
        subst h
        obtain ⟨r', er, hs, hm, hf⟩ := stepAll_filter h1 hnd r hr
        have hn : (rnames rs1).Nodup := by rw [rnames_stepAll h1]; exact hnd
        have ih := runAll_filter h2 hn r' hm
        have hrule := (Running.step_ok hs).1
        rw [runAll_single_cons, hs]
        simp only [ih, List.filter_append, hf, hrule]

theorem runAll_rule_mem {s : SV} {d : QueryDoc} :
    ∀ {evs : List Event} {rs : List Running} {errs : List Err}, runAll s d rs evs = .ok errs →
      ∀ x ∈ errs, x.rule ∈ rnames rs
  | [], rs, errs, h, x, hx => by
    simp [runAll] at h
    subst h
    cases hx
  | e :: es, rs, errs, h, x, hx => by
    simp only [runAll] at h
    split at h
    · cases h
    · rename_i rs1 e1 h1
      split at h
      · cases h
      · rename_i e2 h2
        injection h with h
        subst h
        rcases List.mem_append.1 hx with hx | hx
        · exact (stepAll_ok h1).2 x hx
        · have := runAll_rule_mem h2 x hx
          rwa [rnames_stepAll h1] at this

/-- if every member runs alone without panic, one event of the whole list does not panic either -/
theorem stepAll_of_singles {s : SV} {d : QueryDoc} {e : Event} {es : List Event} :
    ∀ {rs : List Running}, (∀ r ∈ rs, ∃ x, runAll s d [r] (e :: es) = .ok x) →
      ∃ rs' errs, stepAll s d e rs = .ok (rs', errs) ∧ ∀ r' ∈ rs', ∃ x, runAll s d [r'] es = .ok x
  | [], _ => ⟨[], [], rfl, by intro r hr; cases hr⟩
  | r :: rs, h => by
    obtain ⟨x, hx⟩ := h r List.mem_cons_self
    rw [runAll_single_cons] at hx
    cases hs : r.step s d e with
    | error m => rw [hs] at hx; cases hx
    | ok p =>
      obtain ⟨r', er⟩ := p
      rw [hs] at hx
      simp only at hx
      cases hr : runAll s d [r'] es with
      | error m => rw [hr] at hx; cases hx
      | ok y =>
        obtain ⟨rs', errs, h1, h2⟩ := stepAll_of_singles (rs := rs) (fun q hq => h q (List.mem_cons_of_mem _ hq))
        refine ⟨r' :: rs', er ++ errs, by simp [stepAll, hs, h1], ?_⟩
        intro q hq
        rcases List.mem_cons.1 hq with rfl | hq
        · exact ⟨y, hr⟩
        · exact h2 q hq

theorem runAll_of_singles {s : SV} {d : QueryDoc} :
    ∀ {evs : List Event} {rs : List Running}, (∀ r ∈ rs, ∃ x, runAll s d [r] evs = .ok x) →
      ∃ errs, runAll s d rs evs = .ok errs
  | [], _, _ => ⟨[], rfl⟩
  | e :: es, rs, h => by
    obtain ⟨rs', errs, h1, h2⟩ := stepAll_of_singles h
    obtain ⟨errs2, h3⟩ := runAll_of_singles h2
    exact ⟨errs ++ errs2, by simp [runAll, h1, h3]⟩

end Gql.Validate

namespace Gql.Validate
open Gql

/-- pointwise relation of two lists of equal length (core Lean has no `Forall2`) -/
inductive Forall2 {α β : Type} (R : α → β → Prop) : List α → List β → Prop
  | nil : Forall2 R [] []
  | cons {a b l₁ l₂} : R a b → Forall2 R l₁ l₂ → Forall2 R (a :: l₁) (b :: l₂)

theorem Forall2.length_eq {α β : Type} {R : α → β → Prop} {l₁ : List α} {l₂ : List β}
    (h : Forall2 R l₁ l₂) : l₁.length = l₂.length := by
  induction h with
  | nil => rfl
  | cons _ _ ih => simp [ih]

/-- relation between an error of a suggesting rule and the error of its `…WithoutSuggestions`
    twin: same locations, the message without suggestion is a prefix -/
def NoSuggErr (n' : Bytes) (e e' : Err) : Prop := e'.rule = n' ∧ e'.locs = e.locs ∧ e'.msg <+: e.msg

inductive NoSuggRes (n' : Bytes) : Except Bytes (List Err) → Except Bytes (List Err) → Prop
  | ok {es es' : List Err} : Forall2 (NoSuggErr n') es es' → NoSuggRes n' (.ok es) (.ok es')
  | panic (m : Bytes) : NoSuggRes n' (.error m) (.error m)

theorem forall₂_map_dropSugg (n n' : Bytes) :
    ∀ errs : List RErr, Forall2 (NoSuggErr n') (errs.map (RErr.toErr n)) ((errs.map RErr.dropSugg).map (RErr.toErr n'))
  | [] => .nil
  | e :: rest => .cons ⟨rfl, rfl, by simp [RErr.toErr, RErr.dropSugg]⟩ (forall₂_map_dropSugg n n' rest)

theorem forall₂_append' {α β : Type} {R : α → β → Prop} {a₁ a₂ : List α} {b₁ b₂ : List β}
    (h₁ : Forall2 R a₁ b₁) (h₂ : Forall2 R a₂ b₂) : Forall2 R (a₁ ++ a₂) (b₁ ++ b₂) := by
  induction h₁ with
  | nil => exact h₂
  | cons h _ ih => exact .cons h ih

/-- the `…WithoutSuggestions` twin of a rule, run alone from the same state, produces the same
    errors minus the suggestion suffix, and panics exactly when the rule does -/
theorem runAll_withoutSuggestions {s : SV} {d : QueryDoc} (n' : Bytes) (r : Rule) :
    ∀ (evs : List Event) (st : r.σ),
      NoSuggRes n' (runAll s d [⟨r, st⟩] evs) (runAll s d [⟨r.withoutSuggestions n', st⟩] evs)
  | [], _ => .ok .nil
  | e :: es, st => by
    rw [runAll_single_cons, runAll_single_cons]
    simp only [Running.step, Rule.withoutSuggestions]
    cases h : r.step s d st e with
    | panic m => exact .panic m
    | ok st' errs =>
      simp only
      have ih := runAll_withoutSuggestions (s := s) (d := d) n' r es st'
      simp only [Rule.withoutSuggestions] at ih
      revert ih
      generalize runAll s d [⟨r, st'⟩] es = a
      generalize runAll s d [⟨{ name := n', σ := r.σ, init := r.init, step := _ }, st'⟩] es = b
      intro ih
      cases ih with
      | ok hf => exact .ok (forall₂_append' (forall₂_map_dropSugg _ _ errs) hf)
      | panic m => exact .panic m

end Gql.Validate

namespace Gql.Validate
open Gql

theorem validateV_ok_iff {rs : List Rule} {s : SV} {d : QueryDoc} {errs : List Err} :
    validateV rs s d = .ok errs ↔ ∃ evs, walkDoc s d = some evs ∧ runAll s d (rs.map Rule.start) evs = .ok errs := by
  unfold validateV
  cases walkDoc s d with
  | none => simp
  | some evs =>
    cases h : runAll s d (rs.map Rule.start) evs with
    | ok e => simp [h]
    | error m => simp [h]

theorem rnames_start (rs : List Rule) : rnames (rs.map Rule.start) = rs.map (·.name) := by
  simp [rnames, Rule.start, List.map_map, Function.comp_def]

/-- outcome relation between a rule and its `…WithoutSuggestions` twin, both run alone: both
    return normally with error lists of the same length whose errors correspond one to one (same
    locations, the twin's message is a prefix of the rule's message), or both panic alike -/
inductive NoSuggestTwin (n' : Bytes) : VResult → VResult → Prop
  | ok {es es' : List Err} : Forall2 (NoSuggErr n') es es' → NoSuggestTwin n' (.ok es) (.ok es')
  | panic (m : Bytes) : NoSuggestTwin n' (.panic m) (.panic m)
  | outOfFuel : NoSuggestTwin n' .outOfFuel .outOfFuel

theorem validate_withoutSuggestions (n' : Bytes) (r : Rule) (s : Schema) (d : QueryDoc) :
    NoSuggestTwin n' (validate [r] s d) (validate [r.withoutSuggestions n'] s d) := by
  unfold validate validateV
  cases walkDoc s.view d with
  | none => exact .outOfFuel
  | some evs =>
    have key := runAll_withoutSuggestions (s := s.view) (d := d) n' r evs r.init
    change NoSuggestTwin n'
      (match runAll s.view d [⟨r, r.init⟩] evs with
        | .ok errs => VResult.ok errs
        | .error m => VResult.panic m)
      (match runAll s.view d [⟨r.withoutSuggestions n', r.init⟩] evs with
        | .ok errs => VResult.ok errs
        | .error m => VResult.panic m)
    generalize runAll s.view d [⟨r, r.init⟩] evs = a at key ⊢
    generalize runAll s.view d [⟨r.withoutSuggestions n', r.init⟩] evs = b at key ⊢
    cases key with
    | ok hf => exact .ok hf
    | panic m => exact .panic m

end Gql.Validate
