import GqlProofs.Validate.NoPanic
/-
  The fuelled searches inside rules never run out of fuel (so their `model: out of fuel` panic is
  unreachable): MaxIntrospectionDepth (chain of fragments being visited has distinct names),
  SingleFieldSubscriptions and NoFragmentCycles (global visited sets only grow).
-/
namespace Gql.Validate
open Gql Gql.Validate.Rules

theorem fragForName_name {d : QueryDoc} {n : Name} {f : FragmentDef} (h : fragForName d n = some f) : f.name = n := by
  have := List.find?_some h
  simpa using this

theorem spreadDef_some {l : Links} {d : QueryDoc} {n : Name} {p : Pos} {f : FragmentDef}
    (h : l.spreadDef d n p = some f) : fragForName d n = some f := by
  unfold Links.spreadDef at h
  split at h
  · exact h
  · cases h

/- ---------- MaxIntrospectionDepth ---------- -/

def DJumpOK (d : QueryDoc) (n : Nat) (J : DJump) : Prop :=
  ∀ visited depth cl sels, unvisited d visited + 1 ≤ n → ∃ b, J visited depth cl sels = some b

mutual
  theorem checkDepthSelection_ok (l : Links) (d : QueryDoc) (J : DJump) (n : Nat) (hJ : DJumpOK d n J) :
      ∀ (x : Selection) (visited : List Name) (depth : Nat) (cl : Cleared), unvisited d visited ≤ n →
        ∃ b, checkDepthSelection l d J visited depth cl x = some b
    | .field _ nm _ _ sub _, visited, depth, cl, h => by
      unfold checkDepthSelection
      split
      · split
        · exact ⟨_, rfl⟩
        · exact checkDepthSelections_ok l d J n hJ sub visited (depth + 1) cl h
      · exact checkDepthSelections_ok l d J n hJ sub visited depth cl h
    | .spread nm _ p, visited, depth, cl, h => by
      unfold checkDepthSelection
      split
      · exact ⟨_, rfl⟩
      · rename_i hc
        split
        · exact ⟨_, rfl⟩
        · cases hs : l.spreadDef d nm p with
          | none => exact ⟨_, rfl⟩
          | some f =>
            simp only
            have hf := spreadDef_some hs
            have hn := fragForName_name hf
            have hc' : visited.contains f.name = false := by rw [hn]; simpa using hc
            have hlt := unvisited_lt d visited f (fragForName_mem hf) hc'
            rw [hn] at hlt
            obtain ⟨r, hr⟩ := hJ (nm :: visited) depth cl f.sel (by omega)
            rw [hr]
            obtain ⟨b, cl'⟩ := r
            cases b <;> exact ⟨_, rfl⟩
    | .inline _ _ sub _, visited, depth, cl, h => by
      unfold checkDepthSelection
      exact checkDepthSelections_ok l d J n hJ sub visited depth cl h
  theorem checkDepthSelections_ok (l : Links) (d : QueryDoc) (J : DJump) (n : Nat) (hJ : DJumpOK d n J) :
      ∀ (xs : Selections) (visited : List Name) (depth : Nat) (cl : Cleared), unvisited d visited ≤ n →
        ∃ b, checkDepthSelections l d J visited depth cl xs = some b
    | .nil, _, _, _, _ => ⟨_, rfl⟩
    | .cons x rest, visited, depth, cl, h => by
      unfold checkDepthSelections
      obtain ⟨r, hb⟩ := checkDepthSelection_ok l d J n hJ x visited depth cl h
      rw [hb]
      obtain ⟨b, cl'⟩ := r
      cases b with
      | true => exact ⟨_, rfl⟩
      | false => exact checkDepthSelections_ok l d J n hJ rest visited depth cl' h
end

theorem depthLevel_ok (l : Links) (d : QueryDoc) : ∀ n, DJumpOK d n (depthLevel l d n)
  | 0 => by intro _ _ _ _ h; omega
  | n + 1 => by
    intro visited depth cl sels h
    simp only [depthLevel]
    exact checkDepthSelections_ok l d _ n (depthLevel_ok l d n) sels visited depth cl (by omega)

theorem maxIntrospectionDepth_neverPanics : maxIntrospectionDepth.NeverPanics := by
  intro s d st e m h
  simp only [maxIntrospectionDepth, Rule.statelessP] at h
  cases hstep : maxIntrospectionDepthStep s d e with
  | ok errs => rw [hstep] at h; cases h
  | error m' =>
    unfold maxIntrospectionDepthStep at hstep
    cases hp : e.p with
    | field f parent dfn =>
      rw [hp] at hstep
      simp only at hstep
      split at hstep
      · obtain ⟨b, hb⟩ := checkDepthSelection_ok e.links d _ (d.frags.length + 1)
          (depthLevel_ok e.links d (d.frags.length + 1)) (.field f.alias f.name f.args f.dirs f.sel f.pos) [] 0 []
          (by rw [unvisited_nil]; omega)
        rw [hb] at hstep
        obtain ⟨b1, cl1⟩ := b
        cases b1 <;> cases hstep
      · cases hstep
    | _ => rw [hp] at hstep; cases hstep

/- ---------- SingleFieldSubscriptions ---------- -/

def TopJumpOK (d : QueryDoc) (n : Nat) (J : TopJump) : Prop :=
  ∀ sels (st : TopState), unvisited d st.inFrag + 1 ≤ n → ∃ r, J sels st = some r ∧ st.inFrag ⊆ r.inFrag

theorem topWalk_ok (s : SV) (root : Name) (l : Links) (d : QueryDoc) (J : TopJump) (n : Nat) (hJ : TopJumpOK d n J) :
    ∀ (sels : Selections) (st : TopState), unvisited d st.inFrag ≤ n →
      ∃ r, topWalk s root l d J sels st = some r ∧ st.inFrag ⊆ r.inFrag
  | .nil, st, _ => ⟨st, by simp [topWalk], fun _ hx => hx⟩
  | .cons (.field al nm _ _ _ p) rest, st, h => by
    unfold topWalk
    exact topWalk_ok s root l d J n hJ rest { st with fields := st.fields ++ [(if al != [] then al else nm, nm, p)] } h
  | .cons (.inline tc _ sub _) rest, st, h => by
    unfold topWalk
    split
    · obtain ⟨r1, h1, m1⟩ := topWalk_ok s root l d J n hJ sub st h
      rw [h1]
      simp only
      obtain ⟨r2, h2, m2⟩ := topWalk_ok s root l d J n hJ rest r1 (Nat.le_trans (unvisited_mono d m1) h)
      exact ⟨r2, h2, fun a ha => m2 (m1 ha)⟩
    · exact topWalk_ok s root l d J n hJ rest st h
  | .cons (.spread nm _ p) rest, st, h => by
    unfold topWalk
    cases hs : l.spreadDef d nm p with
    | none => exact ⟨st, rfl, fun _ hx => hx⟩
    | some f =>
      simp only
      split
      · exact topWalk_ok s root l d J n hJ rest st h
      · rename_i hc
        have hf := spreadDef_some hs
        have hc' : st.inFrag.contains f.name = false := by simpa using hc
        have hlt := unvisited_lt d st.inFrag f (fragForName_mem hf) hc'
        split
        · obtain ⟨r1, h1, m1⟩ := hJ f.sel { st with inFrag := f.name :: st.inFrag } (by simp only; omega)
          rw [h1]
          simp only
          have m1' : st.inFrag ⊆ r1.inFrag := fun a ha => m1 (List.mem_cons_of_mem _ ha)
          obtain ⟨r2, h2, m2⟩ := topWalk_ok s root l d J n hJ rest r1 (Nat.le_trans (unvisited_mono d m1') h)
          exact ⟨r2, h2, fun a ha => m2 (m1' ha)⟩
        · obtain ⟨r2, h2, m2⟩ := topWalk_ok s root l d J n hJ rest { st with inFrag := f.name :: st.inFrag }
            (by simp only; omega)
          exact ⟨r2, h2, fun a ha => m2 (List.mem_cons_of_mem _ ha)⟩

theorem topLevel_ok (s : SV) (root : Name) (l : Links) (d : QueryDoc) : ∀ n, TopJumpOK d n (topLevel s root l d n)
  | 0 => by intro _ _ h; omega
  | n + 1 => by
    intro sels st h
    simp only [topLevel]
    exact topWalk_ok s root l d _ n (topLevel_ok s root l d n) sels st (by omega)

theorem singleFieldSubscriptions_neverPanics : singleFieldSubscriptions.NeverPanics := by
  intro s d st e m h
  simp only [singleFieldSubscriptions, Rule.statelessP] at h
  cases hstep : singleFieldSubscriptionsStep s d e with
  | ok errs => rw [hstep] at h; cases h
  | error m' =>
    unfold singleFieldSubscriptionsStep at hstep
    cases hp : e.p with
    | operation op used =>
      rw [hp] at hstep
      simp only at hstep
      split at hstep
      · cases hstep
      · obtain ⟨r, hr, _⟩ := topLevel_ok s (s.subscription.getD []) e.links d (d.frags.length + 1) op.sel
          { fields := [], inFrag := [] } (by simp only [unvisited_nil]; omega)
        rw [hr] at hstep
        cases hstep
    | _ => rw [hp] at hstep; cases hstep

/- ---------- NoFragmentCycles ---------- -/

theorem unvisited_le_length (d : QueryDoc) (v : List Name) : unvisited d v ≤ d.frags.length := by
  unfold unvisited
  exact List.length_filter_le _ _

def CycRecOK (d : QueryDoc) (n : Nat) (R : CycRec) : Prop :=
  ∀ (frag : FragmentDef) path index (st : CycState), frag ∈ d.frags → unvisited d st.visited + 1 ≤ n →
    ∃ r, R frag path index st = some r ∧ st.visited ⊆ r.visited

theorem cycLoop_ok (d : QueryDoc) (R : CycRec) (n : Nat) (hR : CycRecOK d n R) (path : List SpreadNode)
    (index : List (Name × Nat)) :
    ∀ (nodes : List SpreadNode) (st : CycState), unvisited d st.visited + 1 ≤ n →
      ∃ r, cycLoop d R path index nodes st = some r ∧ st.visited ⊆ r.visited
  | [], st, _ => ⟨st, rfl, fun _ hx => hx⟩
  | node :: rest, st, h => by
    unfold cycLoop
    split
    · split
      · rename_i f hf
        obtain ⟨r1, h1, m1⟩ := hR f (path ++ [node]) index st (fragForName_mem hf) h
        rw [h1]
        simp only
        obtain ⟨r2, h2, m2⟩ := cycLoop_ok d R n hR path index rest r1
          (by have := unvisited_mono d m1; omega)
        exact ⟨r2, h2, fun a ha => m2 (m1 ha)⟩
      · exact cycLoop_ok d R n hR path index rest st h
    · exact cycLoop_ok d R n hR path index rest _ h

theorem cycLevel_ok (d : QueryDoc) : ∀ n, CycRecOK d n (cycLevel d n)
  | 0 => by intro _ _ _ _ _ h; omega
  | n + 1 => by
    intro frag path index st hmem h
    simp only [cycLevel]
    split
    · exact ⟨st, rfl, fun _ hx => hx⟩
    · rename_i hc
      have hc' : st.visited.contains frag.name = false := by simpa using hc
      have hlt := unvisited_lt d st.visited frag hmem hc'
      split
      · exact ⟨_, rfl, fun a ha => List.mem_cons_of_mem _ ha⟩
      · obtain ⟨r, hr, hm⟩ := cycLoop_ok d (cycLevel d n) n (cycLevel_ok d n) path ((frag.name, path.length) :: index)
          (spreadsOf frag.sel) { st with visited := frag.name :: st.visited } (by simp only; omega)
        exact ⟨r, hr, fun a ha => hm (List.mem_cons_of_mem _ ha)⟩

theorem noFragmentCycles_neverPanics : noFragmentCycles.NeverPanics := by
  intro s d st e m h
  simp only [noFragmentCycles] at h
  unfold noFragmentCyclesStep at h
  cases hp : e.p with
  | fragment f dfn =>
    rw [hp] at h
    simp only at h
    have key : ∃ r, cycLevel d (d.frags.length + 2) f [] [] { visited := st, errs := [] } = some r := by
      simp only [cycLevel]
      split
      · exact ⟨_, rfl⟩
      · split
        · exact ⟨_, rfl⟩
        · obtain ⟨r, hr, _⟩ := cycLoop_ok d (cycLevel d (d.frags.length + 1)) (d.frags.length + 1)
            (cycLevel_ok d _) [] [(f.name, ([] : List SpreadNode).length)] (spreadsOf f.sel)
            { visited := f.name :: st, errs := [] } (by have := unvisited_le_length d (f.name :: st); simp only; omega)
          exact ⟨r, hr⟩
    obtain ⟨r, hr⟩ := key
    rw [hr] at h
    cases h
  | _ => rw [hp] at h; cases h

/-- every modelled rule except KnownRootType (29 of the 30) -/
def panicFreeRules' : List Rule := panicFreeRules ++ [maxIntrospectionDepth, singleFieldSubscriptions, noFragmentCycles]

theorem panicFreeRules'_neverPanic : ∀ r ∈ panicFreeRules', r.NeverPanics := by
  intro r hr
  rcases List.mem_append.1 hr with h | h
  · exact panicFreeRules_neverPanic r h
  · simp only [List.mem_cons, List.mem_nil_iff, or_false] at h
    rcases h with h | h | h <;> subst h
    · exact maxIntrospectionDepth_neverPanics
    · exact singleFieldSubscriptions_neverPanics
    · exact noFragmentCycles_neverPanics

end Gql.Validate
