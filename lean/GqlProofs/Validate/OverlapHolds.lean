import GqlProofs.Validate.OverlapRel
/-
  OverlappingFieldsCanBeMerged: the memo-free semantics `Holds` and its SOUNDNESS half: every
  conflict the memoised functions report is derivable.
-/
namespace Gql.Validate
open Gql Gql.Validate.Rules

/-- the fields of `field.SelectionSet` as `findConflictsBetweenSubSelectionSets` collects them -/
def subFields (env : Env) (a : FInfo) : List FInfo := collectFields env.s env.l (a.next env.s) a.node.sel

/-- the fields of a fragment definition's selection set -/
def fragFieldList (env : Env) (F : FragmentDef) : List FInfo :=
  collectFields env.s env.l (env.s.type? F.typeCond) F.sel

inductive Jg
  | conf (pe : Bool) (a b : FInfo)
  | sub (ex : Bool) (a b : FInfo)
  | chain (ex : Bool) (parent : Option Definition) (sels : Selections) (sp : SpreadNode)
  | check (ex : Bool) (a b : SpreadNode)

inductive Holds (env : Env) : Jg → Prop
  | names {pe : Bool} {a b : FInfo} {oa ob : Definition} :
      a.obj = some oa → b.obj = some ob → (pe || goExcl a b) = false → a.node.name ≠ b.node.name →
      Holds env (.conf pe a b)
  | args {pe : Bool} {a b : FInfo} {oa ob : Definition} :
      a.obj = some oa → b.obj = some ob → (pe || goExcl a b) = false →
      sameArguments a.node.args b.node.args = false → Holds env (.conf pe a b)
  | types {pe : Bool} {a b : FInfo} {oa ob : Definition} {da db : FieldDef} :
      a.obj = some oa → b.obj = some ob → a.dfn = some da → b.dfn = some db →
      doTypesConflict env.s da.type db.type = true → Holds env (.conf pe a b)
  | sub {pe : Bool} {a b : FInfo} {oa ob : Definition} :
      a.obj = some oa → b.obj = some ob → Holds env (.sub (pe || goExcl a b) a b) → Holds env (.conf pe a b)
  | subFields {ex : Bool} {a b a' b' : FInfo} :
      a' ∈ subFields env a → b' ∈ subFields env b → rnOf a' = rnOf b' → Holds env (.conf ex a' b') →
      Holds env (.sub ex a b)
  | subChainB {ex : Bool} {a b : FInfo} {sp : SpreadNode} :
      sp ∈ collectSpreads b.node.sel → Holds env (.chain ex (a.next env.s) a.node.sel sp) → Holds env (.sub ex a b)
  | subChainA {ex : Bool} {a b : FInfo} {sp : SpreadNode} :
      sp ∈ collectSpreads a.node.sel → Holds env (.chain ex (b.next env.s) b.node.sel sp) → Holds env (.sub ex a b)
  | subCheck {ex : Bool} {a b : FInfo} {sa sb : SpreadNode} :
      sa ∈ collectSpreads a.node.sel → sb ∈ collectSpreads b.node.sel → Holds env (.check ex sa sb) →
      Holds env (.sub ex a b)
  | chainHere {ex : Bool} {parent : Option Definition} {sels : Selections} {sp : SpreadNode} {F : FragmentDef}
      {a g : FInfo} :
      env.l.spreadDef env.d sp.name sp.pos = some F → selId sels ≠ selId F.sel →
      a ∈ collectFields env.s env.l parent sels → g ∈ fragFieldList env F → rnOf a = rnOf g →
      Holds env (.conf ex a g) → Holds env (.chain ex parent sels sp)
  | chainNext {ex : Bool} {parent : Option Definition} {sels : Selections} {sp sp' : SpreadNode} {F : FragmentDef} :
      env.l.spreadDef env.d sp.name sp.pos = some F → selId sels ≠ selId F.sel →
      sp' ∈ collectSpreads F.sel → sp'.name ≠ sp.name → Holds env (.chain ex parent sels sp') →
      Holds env (.chain ex parent sels sp)
  | checkHere {ex : Bool} {a b : SpreadNode} {A B : FragmentDef} {fa fb : FInfo} :
      a.name ≠ b.name → env.l.spreadDef env.d a.name a.pos = some A → env.l.spreadDef env.d b.name b.pos = some B →
      fa ∈ fragFieldList env A → fb ∈ fragFieldList env B → rnOf fa = rnOf fb → Holds env (.conf ex fa fb) →
      Holds env (.check ex a b)
  | checkRight {ex : Bool} {a b x : SpreadNode} {A B : FragmentDef} :
      a.name ≠ b.name → env.l.spreadDef env.d a.name a.pos = some A → env.l.spreadDef env.d b.name b.pos = some B →
      x ∈ collectSpreads B.sel → Holds env (.check ex a x) → Holds env (.check ex a b)
  | checkLeft {ex : Bool} {a b x : SpreadNode} {A B : FragmentDef} :
      a.name ≠ b.name → env.l.spreadDef env.d a.name a.pos = some A → env.l.spreadDef env.d b.name b.pos = some B →
      x ∈ collectSpreads A.sel → Holds env (.check ex x b) → Holds env (.check ex a b)

/-- what `findConflictsWithinSelectionSet` reports about the selection set `(parent, sels)` -/
def TopHolds (env : Env) (parent : Option Definition) (sels : Selections) : Prop :=
  (∃ a b, [a, b].Sublist (collectFields env.s env.l parent sels) ∧ rnOf a = rnOf b ∧ Holds env (.conf false a b)) ∨
  (∃ sp ∈ collectSpreads sels, Holds env (.chain false parent sels sp)) ∨
  (∃ sa sb, [sa, sb].Sublist (collectSpreads sels) ∧ Holds env (.check false sa sb))

/- ---------- soundness half ---------- -/

/-- `fc` only reports derivable conflicts -/
def FCHolds (env : Env) (fc : FC) : Prop :=
  ∀ excl a b st st' c, fc excl a b st = some (st', some c) → Holds env (.conf excl a b)

theorem fcStep_holds {env : Env} {fc : FC} (hfc : FCHolds env fc) {excl : Bool} {fa fb : FInfo} {st : OSt}
    {r : OSt × List Conflict} (h : fcStep fc excl fa fb st = some r) (hne : r.2 ≠ []) : Holds env (.conf excl fa fb) := by
  unfold fcStep at h
  split at h
  · cases h
  · rename_i st1 c h1
    injection h with h
    subst h
    cases c with
    | none => exact absurd rfl hne
    | some c => exact hfc _ _ _ _ _ _ h1

/-- a conflict between two field lists (as maps) comes from two fields of the same response name -/
theorem between_holds {env : Env} {fc : FC} (hfc : FCHolds env fc) (excl : Bool) (LA LB : List FInfo) (st : OSt)
    (r : OSt × List Conflict) (h : collectConflictsBetween fc excl (fmOfList LB) (fmOfList LA) st = some r)
    (hne : r.2 ≠ []) : ∃ a ∈ LA, ∃ b ∈ LB, rnOf a = rnOf b ∧ Holds env (.conf excl a b) := by
  rw [between_eq] at h
  obtain ⟨e, he, st1, r1, h1, hne1⟩ := stLoop_exists _ _ _ _ h hne
  unfold betweenStep at h1
  split at h1
  · injection h1 with h1
    subst h1
    exact absurd rfl hne1
  · rename_i fsB hB
    obtain ⟨fa, hfa, st2, r2, h2, hne2⟩ := stLoop_exists _ _ _ _ h1 hne1
    obtain ⟨fb, hfb, st3, r3, h3, hne3⟩ := stLoop_exists _ _ _ _ h2 hne2
    have ha := entry_mem e he fa hfa
    have hb : fb ∈ bucket LB e.1 := by rw [← fmGet_mem hB]; exact hfb
    have hb' := mem_bucket.1 hb
    exact ⟨fa, ha.1, fb, hb'.1, ha.2.trans hb'.2.symm, fcStep_holds hfc h3 hne3⟩

theorem pairTriangle_holds {env : Env} {fc : FC} (hfc : FCHolds env fc) :
    ∀ (fs : List FInfo) (st : OSt) (r : OSt × List Conflict), pairTriangle fc fs st = some r → r.2 ≠ [] →
      ∃ a b, [a, b].Sublist fs ∧ Holds env (.conf false a b)
  | [], st, r, h, hne => by
    simp only [pairTriangle] at h
    injection h with h
    subst h
    exact absurd rfl hne
  | fa :: rest, st, r, h, hne => by
    simp only [pairTriangle, pairRow_eq] at h
    cases h1 : stLoop (fcStep fc false fa) rest st with
    | none => rw [h1] at h; cases h
    | some r1 =>
      obtain ⟨st1, c1⟩ := r1
      rw [h1] at h
      simp only at h
      cases h2 : pairTriangle fc rest st1 with
      | none => rw [h2] at h; cases h
      | some r2 =>
        obtain ⟨st2, c2⟩ := r2
        rw [h2] at h
        simp only at h
        injection h with h
        subst h
        by_cases hc : c1 = []
        · subst hc
          obtain ⟨a, b, hs, hh⟩ := pairTriangle_holds hfc rest st1 _ h2 (by simpa using hne)
          exact ⟨a, b, hs.trans (List.sublist_cons_self _ _), hh⟩
        · obtain ⟨fb, hfb, st3, r3, h3, hne3⟩ := stLoop_exists _ _ _ _ h1 hc
          refine ⟨fa, fb, ?_, fcStep_holds hfc h3 hne3⟩
          exact List.Sublist.cons_cons _ (List.singleton_sublist.2 hfb)

theorem fmPush_sublist (rn : Name) (f : FInfo) (L0 : List FInfo) : ∀ (m : FMap), (∀ e ∈ m, e.2.Sublist L0) →
    ∀ e ∈ fmPush rn f m, e.2.Sublist (L0 ++ [f])
  | [], _, e, he => by
    simp only [fmPush, List.mem_singleton] at he
    subst he
    exact List.sublist_append_right _ _
  | (k, fs) :: rest, hm, e, he => by
    simp only [fmPush] at he
    split at he
    · rcases List.mem_cons.1 he with he | he
      · subst he
        exact List.Sublist.append (hm (k, fs) (List.mem_cons_self ..)) (List.Sublist.refl _)
      · exact (hm e (List.mem_cons_of_mem _ he)).trans (List.sublist_append_left _ _)
    · rcases List.mem_cons.1 he with he | he
      · subst he
        exact (hm (k, fs) (List.mem_cons_self ..)).trans (List.sublist_append_left _ _)
      · exact fmPush_sublist rn f L0 rest (fun e' he' => hm e' (List.mem_cons_of_mem _ he')) e he

/-- every bucket lists its fields in the order in which they were collected -/
theorem entry_sublist (L : List FInfo) : ∀ e ∈ fmOfList L, e.2.Sublist L := by
  unfold fmOfList
  suffices h : ∀ (L L0 : List FInfo) (m : FMap), (∀ e ∈ m, e.2.Sublist L0) →
      ∀ e ∈ L.foldl (fun m f => fmPush (responseName f.node) f m) m, e.2.Sublist (L0 ++ L) by
    have := h L [] [] (fun e he => by cases he)
    simpa using this
  intro L
  induction L with
  | nil => intro L0 m hm; simpa using hm
  | cons f rest ih =>
    intro L0 m hm
    simp only [List.foldl_cons]
    have := ih (L0 ++ [f]) _ (fmPush_sublist (responseName f.node) f L0 m hm)
    simpa using this

theorem within_holds_aux {env : Env} {fc : FC} (hfc : FCHolds env fc) (L : List FInfo) :
    ∀ (A : FMap), (∀ e ∈ A, e ∈ fmOfList L) → ∀ (st : OSt) (r : OSt × List Conflict),
      collectConflictsWithin fc A st = some r → r.2 ≠ [] →
      ∃ a b, [a, b].Sublist L ∧ rnOf a = rnOf b ∧ Holds env (.conf false a b)
  | [], _, st, r, h, hne => by
    simp only [collectConflictsWithin] at h
    injection h with h
    subst h
    exact absurd rfl hne
  | (rn, fs) :: rest, hA, st, r, h, hne => by
    simp only [collectConflictsWithin] at h
    cases h1 : pairTriangle fc fs st with
    | none => rw [h1] at h; cases h
    | some r1 =>
      obtain ⟨st1, c1⟩ := r1
      rw [h1] at h
      simp only at h
      cases h2 : collectConflictsWithin fc rest st1 with
      | none => rw [h2] at h; cases h
      | some r2 =>
        obtain ⟨st2, c2⟩ := r2
        rw [h2] at h
        simp only at h
        injection h with h
        subst h
        by_cases hc : c1 = []
        · subst hc
          exact within_holds_aux hfc L rest (fun e he => hA e (List.mem_cons_of_mem _ he)) st1 _ h2 (by simpa using hne)
        · obtain ⟨a, b, hs, hh⟩ := pairTriangle_holds hfc fs st _ h1 hc
          have hent := hA (rn, fs) (List.mem_cons_self ..)
          refine ⟨a, b, hs.trans (entry_sublist L (rn, fs) hent), ?_, hh⟩
          have ha := (entry_mem (rn, fs) hent a (hs.subset (by simp))).2
          have hb := (entry_mem (rn, fs) hent b (hs.subset (by simp))).2
          exact ha.trans hb.symm


theorem within_holds {env : Env} {fc : FC} (hfc : FCHolds env fc) (L : List FInfo) (st : OSt) (r : OSt × List Conflict)
    (h : collectConflictsWithin fc (fmOfList L) st = some r) (hne : r.2 ≠ []) :
    ∃ a b, [a, b].Sublist L ∧ rnOf a = rnOf b ∧ Holds env (.conf false a b) :=
  within_holds_aux hfc L _ (fun _ he => he) st r h hne

theorem append_ne_nil_cases {α : Type} {a b : List α} (h : a ++ b ≠ []) : a ≠ [] ∨ (a = [] ∧ b ≠ []) := by
  cases a with
  | nil => exact Or.inr ⟨rfl, by simpa using h⟩
  | cons x xs => exact Or.inl (by simp)

theorem chain_holds {env : Env} {fc : FC} (hfc : FCHolds env fc) (excl : Bool) (parent : Option Definition)
    (sels : Selections) :
    ∀ n sp st r, chain env fc excl (getFieldsAndFragmentNames env.s env.l parent sels).1 n sp st = some r → r.2 ≠ [] →
      Holds env (.chain excl parent sels sp)
  | 0, _, _, _, h, _ => by simp [chain] at h
  | n + 1, sp, st, r, h, hne => by
    unfold chain at h
    simp only at h
    split at h
    · injection h with h; subst h; exact absurd rfl hne
    · cases hs : env.l.spreadDef env.d sp.name sp.pos with
      | none => rw [hs] at h; injection h with h; subst h; exact absurd rfl hne
      | some f =>
        rw [hs] at h
        simp only at h
        split at h
        · injection h with h; subst h; exact absurd rfl hne
        · rename_i hfirst
          have hid : selId sels ≠ selId f.sel := by
            intro e
            apply hfirst
            simp only [getFieldsAndFragmentNames, Env.fragFields, e, beq_self_eq_true]
          split at h
          · cases h
          · rename_i st2 c1 h1
            split at h
            · cases h
            · rename_i st3 c2 h2
              injection h with h
              subst h
              rcases append_ne_nil_cases hne with hc | ⟨_, hc⟩
              · obtain ⟨a, ha, g, hg, hrn, hh⟩ := between_holds hfc excl _ _ _ _ h1 hc
                exact .chainHere hs hid ha hg hrn hh
              · obtain ⟨sp', hsp', st4, r4, h4, hne4⟩ := stLoop_exists _ _ _ _ h2 hc
                have hm := List.mem_filter.1 hsp'
                have hnm : sp'.name ≠ sp.name := by simpa using hm.2
                exact .chainNext hs hid hm.1 hnm (chain_holds hfc excl parent sels n sp' st4 r4 h4 hne4)

theorem check_holds {env : Env} {fc : FC} (hfc : FCHolds env fc) (excl : Bool) :
    ∀ n a b st r, check env fc excl n a b st = some r → r.2 ≠ [] → Holds env (.check excl a b)
  | 0, _, _, _, _, h, _ => by simp [check] at h
  | n + 1, a, b, st, r, h, hne => by
    unfold check at h
    simp only at h
    split at h
    · injection h with h; subst h; exact absurd rfl hne
    · rename_i hname
      have hnm : a.name ≠ b.name := by simpa using hname
      split at h
      · injection h with h; subst h; exact absurd rfl hne
      · split at h
        · rename_i fa fb hsa hsb
          split at h
          · cases h
          · rename_i st2 c1 h1
            split at h
            · cases h
            · rename_i st3 c2 h2
              split at h
              · cases h
              · rename_i st4 c3 h3
                injection h with h
                subst h
                rcases append_ne_nil_cases hne with hc | ⟨_, hc⟩
                · rcases append_ne_nil_cases hc with hc | ⟨_, hc⟩
                  · obtain ⟨x, hx, y, hy, hrn, hh⟩ := between_holds hfc excl _ _ _ _ h1 hc
                    exact .checkHere hnm hsa hsb hx hy hrn hh
                  · obtain ⟨x, hx, st5, r5, h5, hne5⟩ := stLoop_exists _ _ _ _ h2 hc
                    exact .checkRight hnm hsa hsb hx (check_holds hfc excl n a x st5 r5 h5 hne5)
                · obtain ⟨x, hx, st5, r5, h5, hne5⟩ := stLoop_exists _ _ _ _ h3 hc
                  exact .checkLeft hnm hsa hsb hx (check_holds hfc excl n x b st5 r5 h5 hne5)
        · injection h with h; subst h; exact absurd rfl hne

theorem subSets_holds {env : Env} {fc : FC} (hfc : FCHolds env fc) (excl : Bool) (a b : FInfo) (st : OSt)
    (r : OSt × List Conflict) (h : findConflictsBetweenSubSelectionSets env fc excl a b st = some r) (hne : r.2 ≠ []) :
    Holds env (.sub excl a b) := by
  unfold findConflictsBetweenSubSelectionSets at h
  simp only at h
  split at h
  · cases h
  · rename_i st1 c1 h1
    split at h
    · cases h
    · rename_i st2 c2 h2
      split at h
      · cases h
      · rename_i st3 c3 h3
        split at h
        · cases h
        · rename_i st4 c4 h4
          injection h with h
          subst h
          rcases append_ne_nil_cases hne with hc | ⟨_, hc⟩
          · rcases append_ne_nil_cases hc with hc | ⟨_, hc⟩
            · rcases append_ne_nil_cases hc with hc | ⟨_, hc⟩
              · obtain ⟨x, hx, y, hy, hrn, hh⟩ := between_holds hfc excl _ _ _ _ h1 hc
                exact .subFields hx hy hrn hh
              · obtain ⟨sp, hsp, st5, r5, h5, hne5⟩ := stLoop_exists _ _ _ _ h2 hc
                exact .subChainB hsp (chain_holds hfc excl _ _ _ sp st5 r5 h5 hne5)
            · obtain ⟨sp, hsp, st5, r5, h5, hne5⟩ := stLoop_exists _ _ _ _ h3 hc
              exact .subChainA hsp (chain_holds hfc excl _ _ _ sp st5 r5 h5 hne5)
          · obtain ⟨sa, hsa, st5, r5, h5, hne5⟩ := stLoop_exists _ _ _ _ h4 hc
            obtain ⟨sb, hsb, st6, r6, h6, hne6⟩ := stLoop_exists _ _ _ _ h5 hne5
            exact .subCheck hsa hsb (check_holds hfc excl _ sa sb st6 r6 h6 hne6)

theorem goExcl_eq {a b : FInfo} {oa ob : Definition} (hoa : a.obj = some oa) (hob : b.obj = some ob) :
    goExcl a b = (oa.name != ob.name && oa.kind == DefKind.object && ob.kind == DefKind.object &&
      a.dfn.isSome && b.dfn.isSome) := by
  simp only [goExcl, hoa, hob]

theorem findConflictBody_holds (env : Env)
    (sub : Bool → FInfo → FInfo → OSt → Option (OSt × List Conflict))
    (excl0 : Bool) (a b : FInfo) (st st' : OSt) (c : Conflict)
    (hsub : ∀ excl st1 r, sub excl a b st1 = some r → r.2 ≠ [] → Holds env (.sub excl a b))
    (h : findConflictBody env.s sub excl0 a b st = some (st', some c)) : Holds env (.conf excl0 a b) := by
  unfold findConflictBody at h
  simp only at h
  split at h
  · rename_i oa ob hoa hob
    rw [← goExcl_eq hoa hob] at h
    split at h
    · rename_i hc
      simp only [Bool.and_eq_true, Bool.not_eq_true', bne_iff_ne, ne_eq] at hc
      exact .names hoa hob hc.1 hc.2
    · split at h
      · rename_i hc
        simp only [Bool.and_eq_true, Bool.not_eq_true'] at hc
        exact .args hoa hob hc.1 hc.2
      · split at h
        · rename_i ta tb htc
          split at htc
          · rename_i da db hda hdb
            split at htc
            · rename_i hconf
              exact .types hoa hob hda hdb hconf
            · cases htc
          · cases htc
        · split at h
          · cases h
          · injection h with h
            injection h with _ h
            cases h
          · rename_i st1 c1 cs hs
            exact .sub hoa hob (hsub _ _ _ hs (by simp))
  · injection h with h
    injection h with _ h
    cases h

theorem fcLevel_holds (env : Env) : ∀ n, FCHolds env (fcLevel env n)
  | 0 => by
    intro _ _ _ _ _ _ h
    simp [fcLevel] at h
  | n + 1 => by
    intro excl a b st st' c h
    simp only [fcLevel] at h
    exact findConflictBody_holds env _ excl a b st st' c
      (fun excl' st1 r h' hne => subSets_holds (fcLevel_holds env n) excl' a b st1 r h' hne) h

theorem withinLoop_holds {env : Env} {fc : FC} (hfc : FCHolds env fc) (parent : Option Definition) (sels : Selections) :
    ∀ (sps : List SpreadNode) st r,
      withinLoop env fc (getFieldsAndFragmentNames env.s env.l parent sels).1 sps st = some r → r.2 ≠ [] →
      (∃ sp ∈ sps, Holds env (.chain false parent sels sp)) ∨
      (∃ sa sb, [sa, sb].Sublist sps ∧ Holds env (.check false sa sb))
  | [], st, r, h, hne => by
    simp only [withinLoop] at h
    injection h with h
    subst h
    exact absurd rfl hne
  | sa :: rest, st, r, h, hne => by
    simp only [withinLoop] at h
    split at h
    · cases h
    · rename_i st1 c1 h1
      split at h
      · cases h
      · rename_i st2 c2 h2
        split at h
        · cases h
        · rename_i st3 c3 h3
          injection h with h
          subst h
          rcases append_ne_nil_cases hne with hc | ⟨_, hc⟩
          · rcases append_ne_nil_cases hc with hc | ⟨_, hc⟩
            · exact Or.inl ⟨sa, List.mem_cons_self .., chain_holds hfc false parent sels _ sa st _ h1 hc⟩
            · obtain ⟨sb, hsb, st5, r5, h5, hne5⟩ := stLoop_exists _ _ _ _ h2 hc
              exact Or.inr ⟨sa, sb, List.Sublist.cons_cons _ (List.singleton_sublist.2 hsb),
                check_holds hfc false _ sa sb st5 r5 h5 hne5⟩
          · rcases withinLoop_holds hfc parent sels rest st2 _ h3 hc with ⟨sp, hsp, hh⟩ | ⟨x, y, hs, hh⟩
            · exact Or.inl ⟨sp, List.mem_cons_of_mem _ hsp, hh⟩
            · exact Or.inr ⟨x, y, hs.trans (List.sublist_cons_self _ _), hh⟩

theorem top_holds {env : Env} {fc : FC} (hfc : FCHolds env fc) (parent : Option Definition) (sels : Selections)
    (st : OSt) (r : OSt × List Conflict) (h : findConflictsWithinSelectionSet env fc parent sels st = some r)
    (hne : r.2 ≠ []) : TopHolds env parent sels := by
  unfold findConflictsWithinSelectionSet at h
  split at h
  · injection h with h
    subst h
    exact absurd rfl hne
  · simp only at h
    split at h
    · cases h
    · rename_i st1 c1 h1
      split at h
      · cases h
      · rename_i st2 c2 h2
        injection h with h
        subst h
        rcases append_ne_nil_cases hne with hc | ⟨_, hc⟩
        · exact Or.inl (within_holds hfc _ _ _ h1 hc)
        · exact Or.inr (withinLoop_holds hfc parent sels _ _ _ h2 hc)

/-- SOUNDNESS of one observer call with respect to the memo-free semantics -/
theorem overlapRun_holds (s : SV) (d : QueryDoc) (l : Links) (parent : Option Definition) (sels : Selections)
    (st : OSt) (r : OSt × List Conflict) (h : overlapRun s d l parent sels st = some r) (hne : r.2 ≠ []) :
    TopHolds (overlapEnv s d l) parent sels := by
  unfold overlapRun at h
  simp only at h
  exact top_holds (fcLevel_holds _ _) parent sels st r h hne

end Gql.Validate
