import GqlProofs.Validate.OverlapFull
/-
  OverlappingFieldsCanBeMerged on documents WITHOUT fragment spreads: the rule reports nothing iff
  `Spec.fieldSelectionMerging` holds (`overlap_flat_iff`).
-/
namespace Gql.Validate
open Gql Gql.Validate.Rules

/- ---------- the rule on spread-free selection sets: no memo is consulted ---------- -/

def flatFrame : TFrame :=
  { I := fun _ => True, T := fun _ _ => True, refl := fun _ => trivial, trans := fun _ _ => trivial,
    tick := fun _ _ => ⟨trivial, trivial⟩ }

def FlatPair (a b : FInfo) : Prop := FlatBelow a ∧ FlatBelow b

theorem fcLevel_silent_flat (env : Env) : ∀ n, FCSilent flatFrame env (fcLevel env n) FlatPair
  | 0 => by
    intro _ _ _ _ _ _ _ h
    simp [fcLevel] at h
  | n + 1 => by
    intro excl a b st st' hP hI h
    simp only [fcLevel] at h
    refine findConflictBody_silent env _ excl a b st st'
      (fun excl' => subSets_silent (fcLevel_silent_flat env n) excl' a b ?_ ?_ ?_ ?_) hI h
    · intro a' ha' b' hb'
      exact ⟨flat_sub ha' hP.1, flat_sub hb' hP.2⟩
    · intro sp hsp
      rw [collectSpreads_flat _ hP.2] at hsp
      cases hsp
    · intro sp hsp
      rw [collectSpreads_flat _ hP.1] at hsp
      cases hsp
    · intro sa hsa
      rw [collectSpreads_flat _ hP.1] at hsa
      cases hsa

/-- a silent observer call on a spread-free selection set refutes `TopHolds` -/
theorem overlapRun_silent_flat (s : SV) (d : QueryDoc) (l : Links) (parent : Option Definition) (sels : Selections)
    (hflat : Spec.spreadsOfSels sels = []) (st : OSt) (r : OSt × List Conflict)
    (h : overlapRun s d l parent sels st = some r) (he : r.2 = []) : ¬ TopHolds (envV s d l) parent sels := by
  unfold overlapRun at h
  simp only at h
  refine (top_silent (F := flatFrame) (fcLevel_silent_flat _ _) parent sels ?_ ?_ ?_ st r trivial h he).1
  · intro a ha b hb
    exact ⟨flat_sub ha hflat, flat_sub hb hflat⟩
  · intro sp hsp
    rw [collectSpreads_flat _ hflat] at hsp
    cases hsp
  · intro sa hsa
    rw [collectSpreads_flat _ hflat] at hsa
    cases hsa

/- ---------- depth bound ---------- -/

mutual
  theorem sdepth_le_nodes : ∀ sels : Selections, sdepth sels ≤ Spec.selsNodes sels
    | .nil => Nat.le_refl _
    | .cons x rest => by
      simp only [sdepth, Spec.selsNodes]
      have := sdepthSel_le_nodes x
      have := sdepth_le_nodes rest
      omega
  theorem sdepthSel_le_nodes : ∀ x : Selection, sdepthSel x ≤ Spec.selNodes x
    | .field _ _ _ _ sub _ => by
      simp only [sdepthSel, Spec.selNodes]
      have := sdepth_le_nodes sub
      omega
    | .inline _ _ sub _ => by
      simp only [sdepthSel, Spec.selNodes]
      have := sdepth_le_nodes sub
      omega
    | .spread _ _ _ => by simp [sdepthSel]
end

mutual
  theorem inSels_sdepth : ∀ (sels : Selections) (y : Selection), InSels sels (.sel y) → sdepthSel y ≤ sdepth sels
    | .nil, _, h => by cases h
    | .cons x rest, y, h => by
      simp only [sdepth]
      cases h with
      | head _ _ _ hx => have := inSel_sdepth x y hx; omega
      | tail _ _ _ hx => have := inSels_sdepth rest y hx; omega
  theorem inSel_sdepth : ∀ (x y : Selection), InSel x (.sel y) → sdepthSel y ≤ sdepthSel x
    | .field al nm args dirs sub p, y, h => by
      cases h with
      | self => exact Nat.le_refl _
      | fieldSub _ _ _ _ _ _ _ hs =>
        simp only [sdepthSel]
        have := inSels_sdepth sub y hs
        omega
    | .inline tc dirs sub p, y, h => by
      cases h with
      | self => exact Nat.le_refl _
      | inlineSub _ _ _ _ _ hs =>
        simp only [sdepthSel]
        exact inSels_sdepth sub y hs
    | .spread nm dirs p, y, h => by
      cases h with
      | self => exact Nat.le_refl _
end

theorem le_sum_of_mem {x : Nat} : ∀ {l : List Nat}, x ∈ l → x ≤ l.sum
  | y :: rest, h => by
    simp only [List.sum_cons]
    rcases List.mem_cons.1 h with rfl | h
    · omega
    · have := le_sum_of_mem h; omega

theorem inDocSel_sdepth {d : QueryDoc} {y : Selection} (h : InDocSel d (.sel y)) : sdepthSel y + 1 ≤ Spec.mergeFuel d := by
  unfold Spec.mergeFuel
  rcases h with ⟨op, hop, hi⟩ | ⟨f, hf, hi⟩
  · have h1 := inSels_sdepth _ _ hi
    have h2 := sdepth_le_nodes op.sel
    have h3 : Spec.selsNodes op.sel ≤ (d.ops.map fun op => Spec.selsNodes op.sel).sum :=
      le_sum_of_mem (List.mem_map.2 ⟨op, hop, rfl⟩)
    omega
  · have h1 := inSels_sdepth _ _ hi
    have h2 := sdepth_le_nodes f.sel
    have h3 : Spec.selsNodes f.sel ≤ (d.frags.map fun f => Spec.selsNodes f.sel).sum :=
      le_sum_of_mem (List.mem_map.2 ⟨f, hf, rfl⟩)
    omega

theorem pairwise_of_sublist_pairs {α : Type} {R : α → α → Prop} : ∀ (l : List α),
    (∀ a b, [a, b].Sublist l → R a b) → l.Pairwise R
  | [], _ => List.Pairwise.nil
  | x :: xs, h => by
    refine List.Pairwise.cons (fun y hy => h x y (List.Sublist.cons_cons _ (List.singleton_sublist.2 hy))) ?_
    exact pairwise_of_sublist_pairs xs (fun a b hs => h a b (hs.trans (List.sublist_cons_self _ _)))

/- ---------- the semantic equivalence on spread-free documents ---------- -/

section
variable {s : Schema} {d : QueryDoc} (H : OvHyps s d) (hflat : Spec.allSpreadNames d = [])
include H hflat

omit H in
theorem flatDoc_sels {sels : Selections} (h : ∀ y, InSels sels (.sel y) → InDocSel d (.sel y)) :
    Spec.spreadsOfSels sels = [] := by
  apply List.eq_nil_iff_forall_not_mem.2
  intro n hn
  obtain ⟨dirs, p, hi⟩ := (mem_spreadsOfSels_iff n sels).1 hn
  have : n ∈ Spec.allSpreadNames d := by
    rcases h _ hi with ⟨op, hop, hi'⟩ | ⟨f, hf, hi'⟩
    · exact mem_allSpreadNames.2 (Or.inl ⟨op, hop, (mem_spreadsOfSels_iff n _).2 ⟨dirs, p, hi'⟩⟩)
    · exact mem_allSpreadNames.2 (Or.inr ⟨f, hf, (mem_spreadsOfSels_iff n _).2 ⟨dirs, p, hi'⟩⟩)
  rw [hflat] at this
  cases this

omit H in
theorem flatDoc_docSets {t : Spec.TSet} (ht : t ∈ Spec.docSets s d) : Spec.spreadsOfSels t.sels = [] :=
  flatDoc_sels hflat (docSets_inDoc ht)

omit H in
theorem flatDoc_docF {a : FInfo} (ha : DocF s d (fullLinks d) a) : FlatBelow a := by
  apply flatDoc_sels hflat
  intro y hy
  have hin := docSels_mem_inDocSel s d _ ha.inDoc
  rcases hin with ⟨op, hop, hi⟩ | ⟨f, hf, hi⟩
  · exact Or.inl ⟨op, hop, inSels_trans _ _ _ hi (InSel.fieldSub _ _ _ _ _ _ _ hy)⟩
  · exact Or.inr ⟨f, hf, inSels_trans _ _ _ hi (InSel.fieldSub _ _ _ _ _ _ _ hy)⟩

omit H hflat in
/-- on a spread-free selection set only the comparisons within its own fields remain -/
theorem topHolds_flat {p : Option Definition} {sels : Selections} (hf : Spec.spreadsOfSels sels = []) (l : Links) :
    TopHolds (envOf s d l) p sels ↔
      ∃ a b, [a, b].Sublist (collectFields s.view l p sels) ∧ rnOf a = rnOf b ∧ Holds (envOf s d l) (.conf false a b) := by
  constructor
  · rintro (h | ⟨sp, hsp, _⟩ | ⟨sa, sb, hs, _⟩)
    · exact h
    · rw [collectSpreads_flat _ hf] at hsp
      cases hsp
    · rw [collectSpreads_flat _ hf] at hs
      simp at hs
  · exact Or.inl

theorem flat_semantic (hj : Spec.mergingJudged s d = true) :
    (∀ t ∈ Spec.docSets s d, ¬ TopHolds (envOf s d (fullLinks d)) t.parent t.sels) ↔
      Spec.fieldSelectionMerging s d = true := by
  have hfuel : ∃ k, Spec.mergeFuel d = k + 1 := ⟨_, rfl⟩
  obtain ⟨k, hk⟩ := hfuel
  unfold Spec.fieldSelectionMerging
  rw [hj]
  simp only [Bool.not_true, Bool.false_or, List.all_eq_true]
  constructor
  · intro hclean t ht
    have hcb : CleanBelow s d (fullLinks d) := by
      intro a ha fa
      have hset := docSets_field ha.inDoc
      rw [← ha.next_fieldType H] at hset
      have := hclean _ hset
      rw [topHolds_flat fa] at this
      exact pairwise_of_sublist_pairs _ (fun x y hs hrn hh => this ⟨x, y, hs, hrn, hh⟩)
    have hft := flatDoc_docSets hflat ht
    rw [hk, fieldsInSetCanMerge_succ, collectSet_flat s d (fullLinks d) _ _ hft, allPairs_iff, List.pairwise_map]
    have := hclean t ht
    rw [topHolds_flat hft] at this
    refine (pairwise_of_sublist_pairs _ (fun x y hs => ?_) : (collectFields s.view (fullLinks d) t.parent t.sels).Pairwise
      fun x y => x ∈ collectFields s.view (fullLinks d) t.parent t.sels → y ∈ collectFields s.view (fullLinks d) t.parent t.sels →
        (rnOf x = rnOf y → ¬ Holds (envOf s d (fullLinks d)) (.conf false x y))).imp_of_mem ?_
    · exact fun _ _ hrn hh => this ⟨x, y, hs, hrn, hh⟩
    · intro x y hx hy hxy
      by_cases hkey : (toM x).key = (toM y).key
      · have dx := DocF.ofSet ht hx
        have dy := DocF.ofSet ht hy
        exact pairOK_of_clean H hcb k x y dx dy (flatDoc_docF hflat dx) (flatDoc_docF hflat dy)
          (hxy hx hy (by simpa [toM_key, rnOf] using hkey))
      · simp [pairOK, hkey]
  · intro hspec t ht hth
    have hft := flatDoc_docSets hflat ht
    rw [topHolds_flat hft] at hth
    obtain ⟨a, b, hs, hrn, hh⟩ := hth
    have ha : a ∈ collectFields s.view (fullLinks d) t.parent t.sels := hs.subset (by simp)
    have hb : b ∈ collectFields s.view (fullLinks d) t.parent t.sels := hs.subset (by simp)
    have da := DocF.ofSet ht ha
    have db := DocF.ofSet ht hb
    have hdep : sdepth a.node.sel ≤ k := by
      have h1 := inDocSel_sdepth (docSels_mem_inDocSel s d _ da.inDoc)
      simp only [FInfo.sel', sdepthSel] at h1
      omega
    have hB := holds_flat H hh da db (flatDoc_docF hflat da) (flatDoc_docF hflat db) k hdep
    have hkey : ((toM a).key != (toM b).key) = false := by
      simp only [toM_key]
      have : responseName a.node = responseName b.node := hrn
      simp [this]
    have hpair : pairOK s d k (toM a) (toM b) = false := by
      unfold pairOK
      rw [hkey]
      rcases hB with h1 | ⟨_, h2⟩
      · rw [h1]; rfl
      · rw [h2]; simp
    have := hspec t ht
    rw [hk, fieldsInSetCanMerge_succ, collectSet_flat s d (fullLinks d) _ _ hft,
      allPairs_false_of_pair (pairOK s d k) (List.Sublist.map toM hs) hpair] at this
    cases this

end


/- ---------- the run ---------- -/

theorem silentRun_mem {s : SV} {d : QueryDoc} : ∀ {evs : List Event} {st : OSt}, SilentRun s d st evs →
    ∀ e ∈ evs, ∃ st1 st2, overlappingFieldsStep s d st1 e = .ok st2 []
  | [], _, _, e, he => by cases he
  | e0 :: es, st, h, e, he => by
    obtain ⟨st', h1, h2⟩ := h
    rcases List.mem_cons.1 he with rfl | he
    · exact ⟨st, st', h1⟩
    · exact silentRun_mem h2 e he

/-- a silent step is a silent observer call -/
theorem step_silent_run {s : SV} {d : QueryDoc} {st st' : OSt} {e : Event} {p : Option Definition} {sels : Selections}
    (hset : eventSet s e = some (p, sels)) (h : overlappingFieldsStep s d st e = .ok st' []) :
    overlapRun s d e.links p sels st = some (st', []) := by
  rw [overlappingFieldsStep_eq, hset] at h
  simp only at h
  split at h
  · cases h
  · rename_i st2 cs hr
    injection h with h1 h2
    subst h1
    rw [hr]
    cases cs with
    | nil => rfl
    | cons c cs => simp at h2

/-- if no observer call can report anything, the run is silent -/
theorem silentRun_of_clean (s : SV) (d : QueryDoc) : ∀ (evs : List Event) (st : OSt), PSym st.pairs →
    (∀ e ∈ evs, ∀ p sels, eventSet s e = some (p, sels) → ¬ TopHolds (envV s d e.links) p sels) → SilentRun s d st evs
  | [], _, _, _ => trivial
  | e :: es, st, hP, hc => by
    obtain ⟨st', errs, h1, hP', _⟩ := overlappingFieldsStep_ok s d st e hP
    have herrs : errs = [] := by
      rw [overlappingFieldsStep_eq] at h1
      cases hset : eventSet s e with
      | none =>
        rw [hset] at h1
        injection h1 with _ h1
        exact h1.symm
      | some ps =>
        obtain ⟨p, sels⟩ := ps
        rw [hset] at h1
        simp only at h1
        split at h1
        · cases h1
        · rename_i st2 cs hr
          injection h1 with _ h1
          subst h1
          cases hcs : cs with
          | nil => rfl
          | cons c cs' =>
            exfalso
            exact hc e (List.mem_cons_self ..) p sels hset
              (overlapRun_holds s d e.links p sels st (st2, cs) hr (by rw [hcs]; simp))
    subst herrs
    exact ⟨st', h1, silentRun_of_clean s d es st' hP' (fun e' he' => hc e' (List.mem_cons_of_mem _ he'))⟩

/-- **spread-free documents**: the rule reports nothing iff §5.3.2 holds -/
theorem overlap_flat_iff (s : Schema) (d : QueryDoc) (H : OvHyps s d) (hflat : Spec.allSpreadNames d = [])
    (hj : Spec.mergingJudged s d = true) (hu : Spec.fragmentNameUniqueness d = true)
    (hused : Spec.fragmentsMustBeUsed d = true) :
    validate [overlappingFieldsCanBeMerged] s d = .ok [] ↔ Spec.fieldSelectionMerging s d = true := by
  obtain ⟨evs, hw⟩ := walkDoc_isSome s.view d
  have hac : Acyclic d := by
    apply acyclic_of_spec
    unfold Spec.mergingJudged at hj
    simp only [Bool.and_eq_true] at hj
    exact hj.1.1.1.1.2
  have hlk := walkDoc_evLinked s.view d hac evs hw
  rw [validate_overlap_nil s d evs hw, ← flat_semantic H hflat hj]
  constructor
  · intro hrun t ht
    obtain ⟨e, he, hset⟩ := eventSet_complete s d evs hw H.wp hu hac hused t ht
    obtain ⟨st1, st2, hstep⟩ := silentRun_mem hrun e he
    have hr := step_silent_run hset hstep
    have hft := flatDoc_docSets hflat ht
    have h1 := overlapRun_silent_flat s.view d e.links t.parent t.sels hft st1 _ hr rfl
    intro hth
    exact h1 (topHolds_transport s.view d _ _ _ _ (docSets_linkedAll ht) (eventSet_linked s.view d (hlk e he) hset) hth)
  · intro hclean
    refine silentRun_of_clean s.view d evs OSt.init PSym_nil (fun e he p sels hset hth => ?_)
    have ht := eventSet_sound s d evs hw H.wp e he p sels hset
    exact hclean _ ht (topHolds_transport s.view d _ _ _ _ (eventSet_linked s.view d (hlk e he) hset) (docSets_linkedAll ht) hth)

end Gql.Validate
