import GqlProofs.Validate.OverlapFull
/-
  §5.3.2 "the set of selections … including visiting fragments": the specification's collected sets
  (`Spec.collectSet`, `Spec.mergedSet`) as lists of the rule's collected fields.

  `flatSels` mirrors `Spec.collectSels` on `FInfo` (`collectSels_mirror`); its members are the own
  fields of the selection set and the fields of the fragments reachable through spreads
  (`SReachL`/`RFldL`: soundness `flatSels_sound`), and with enough fuel every such field is a member
  or lies in a fragment visited before (`FlatC`, `flatLevel_complete`).
-/
namespace Gql.Validate
open Gql Gql.Validate.Rules

abbrev FJump := Option Definition → Selections → List Name → List FInfo × List Name

mutual
  def flatSel (sv : SV) (l : Links) (d : QueryDoc) (jump : FJump) (parent : Option Definition) :
      Selection → List Name → List FInfo × List Name
    | .field al nm args dirs sub p, vis =>
      ([{ node := ⟨al, nm, args, dirs, sub, p⟩, sparent := parent, sdfn := staticFieldDef parent nm,
          linked := l.linked p.start }], vis)
    | .spread nm _ _, vis =>
      if vis.contains nm then ([], vis)
      else match fragForName d nm with
        | none => ([], nm :: vis)
        | some f => jump (sv.type? f.typeCond) f.sel (nm :: vis)
    | .inline tc _ sub _, vis => flatSels sv l d jump (inlineNext sv parent tc) sub vis
  def flatSels (sv : SV) (l : Links) (d : QueryDoc) (jump : FJump) (parent : Option Definition) :
      Selections → List Name → List FInfo × List Name
    | .nil, vis => ([], vis)
    | .cons x rest, vis =>
      let r1 := flatSel sv l d jump parent x vis
      let r2 := flatSels sv l d jump parent rest r1.2
      (r1.1 ++ r2.1, r2.2)
end

def flatLevel (sv : SV) (l : Links) (d : QueryDoc) : Nat → FJump
  | 0 => fun _ _ vis => ([], vis)
  | n + 1 => fun parent sels vis => flatSels sv l d (flatLevel sv l d n) parent sels vis

/- ---------- mirror ---------- -/

def JMirror (jump : Spec.MJump) (fj : FJump) : Prop :=
  ∀ p sels vis, jump p sels vis = ((fj p sels vis).1.map toM, (fj p sels vis).2)

mutual
  theorem collectSel_mirror (s : Schema) (d : QueryDoc) (l : Links) {jump : Spec.MJump} {fj : FJump} (hj : JMirror jump fj) :
      ∀ (x : Selection) (parent : Option Definition) (vis : List Name),
        Spec.collectSel s d jump parent x vis =
          ((flatSel s.view l d fj parent x vis).1.map toM, (flatSel s.view l d fj parent x vis).2)
    | .field al nm args dirs sub p, parent, vis => by simp [Spec.collectSel, flatSel, toM]
    | .spread nm dirs p, parent, vis => by
      simp only [Spec.collectSel, flatSel, fragByName_eq]
      split
      · rfl
      · cases fragForName d nm with
        | none => rfl
        | some f => exact hj _ _ _
    | .inline tc dirs sub p, parent, vis => by
      simp only [Spec.collectSel, flatSel, inlineNext_eq]
      exact collectSels_mirror s d l hj sub _ vis
  theorem collectSels_mirror (s : Schema) (d : QueryDoc) (l : Links) {jump : Spec.MJump} {fj : FJump} (hj : JMirror jump fj) :
      ∀ (sels : Selections) (parent : Option Definition) (vis : List Name),
        Spec.collectSels s d jump parent sels vis =
          ((flatSels s.view l d fj parent sels vis).1.map toM, (flatSels s.view l d fj parent sels vis).2)
    | .nil, _, _ => rfl
    | .cons x rest, parent, vis => by
      simp only [Spec.collectSels, flatSels, collectSel_mirror s d l hj x parent vis,
        collectSels_mirror s d l hj rest parent, List.map_append]
end

theorem collectLevel_mirror (s : Schema) (d : QueryDoc) (l : Links) : ∀ n,
    JMirror (Spec.collectLevel s d n) (flatLevel s.view l d n)
  | 0 => fun _ _ _ => rfl
  | n + 1 => fun p sels vis => by
    simp only [Spec.collectLevel, flatLevel]
    exact collectSels_mirror s d l (collectLevel_mirror s d l n) sels p vis

/-- the collected fields of a selection set, as the specification lists them -/
def flatSet (s : Schema) (d : QueryDoc) (l : Links) (parent : Option Definition) (sels : Selections) : List FInfo :=
  (flatLevel s.view l d (d.frags.length + 1) parent sels []).1

theorem collectSet_mirror (s : Schema) (d : QueryDoc) (l : Links) (parent : Option Definition) (sels : Selections) :
    Spec.collectSet s d parent sels = (flatSet s d l parent sels).map toM := by
  unfold Spec.collectSet flatSet
  rw [collectLevel_mirror s d l]

/- ---------- reachable fields ---------- -/

/-- fragment names reachable from a list of spreads through the spreads collected from fragment
    definitions (through inline fragments, not into sub-selections of fields) -/
inductive SReachL (d : QueryDoc) (sps : List SpreadNode) : Name → Prop
  | base {sp : SpreadNode} : sp ∈ sps → SReachL d sps sp.name
  | step {m : Name} {F : FragmentDef} {sp : SpreadNode} :
      SReachL d sps m → fragForName d m = some F → sp ∈ collectSpreads F.sel → SReachL d sps sp.name

theorem SReachL.mono {d : QueryDoc} {a b : List SpreadNode} (h : ∀ x ∈ a, x ∈ b) {n : Name} (hr : SReachL d a n) :
    SReachL d b n := by
  induction hr with
  | base hs => exact .base (h _ hs)
  | step _ hF hsp ih => exact .step ih hF hsp

theorem SReachL.trans {d : QueryDoc} {sps : List SpreadNode} {m n : Name} {F : FragmentDef} (hm : SReachL d sps m)
    (hF : fragForName d m = some F) (hn : SReachL d (collectSpreads F.sel) n) : SReachL d sps n := by
  induction hn with
  | base hs => exact .step hm hF hs
  | step _ hF' hsp ih => exact .step ih hF' hsp

/-- the fields of a fragment definition -/
def fragFieldsOf (sv : SV) (l : Links) (F : FragmentDef) : List FInfo := collectFields sv l (sv.type? F.typeCond) F.sel

/-- own field, or field of a reachable fragment -/
def RFldL (sv : SV) (l : Links) (d : QueryDoc) (own : List FInfo) (sps : List SpreadNode) (f : FInfo) : Prop :=
  f ∈ own ∨ ∃ n F, SReachL d sps n ∧ fragForName d n = some F ∧ f ∈ fragFieldsOf sv l F

theorem RFldL.mono {sv : SV} {l : Links} {d : QueryDoc} {own own' : List FInfo} {sps sps' : List SpreadNode} {f : FInfo}
    (h : RFldL sv l d own sps f) (h1 : ∀ x ∈ own, x ∈ own') (h2 : ∀ x ∈ sps, x ∈ sps') : RFldL sv l d own' sps' f := by
  rcases h with h | ⟨n, F, hr, hF, hf⟩
  · exact Or.inl (h1 _ h)
  · exact Or.inr ⟨n, F, hr.mono h2, hF, hf⟩

/-- reachable fields of a selection set -/
def RFld (sv : SV) (l : Links) (d : QueryDoc) (p : Option Definition) (sels : Selections) (f : FInfo) : Prop :=
  RFldL sv l d (collectFields sv l p sels) (collectSpreads sels) f

/- ---------- soundness ---------- -/

def JSound (sv : SV) (l : Links) (d : QueryDoc) (fj : FJump) : Prop :=
  ∀ p sels vis f, f ∈ (fj p sels vis).1 → RFld sv l d p sels f

mutual
  theorem flatSel_sound (sv : SV) (l : Links) (d : QueryDoc) {fj : FJump} (hj : JSound sv l d fj) :
      ∀ (x : Selection) (parent : Option Definition) (vis : List Name) (f : FInfo),
        f ∈ (flatSel sv l d fj parent x vis).1 → RFldL sv l d (collectFieldsSel sv l parent x) (collectSpreadsSel x) f
    | .field al nm args dirs sub p, parent, vis, f, h => by
      simp only [flatSel, List.mem_singleton] at h
      subst h
      exact Or.inl (by simp [collectFieldsSel])
    | .spread nm dirs p, parent, vis, f, h => by
      simp only [flatSel] at h
      split at h
      · cases h
      · cases hF : fragForName d nm with
        | none => rw [hF] at h; cases h
        | some F =>
          rw [hF] at h
          simp only at h
          have hb : SReachL d (collectSpreadsSel (.spread nm dirs p)) nm :=
            SReachL.base (sp := ⟨nm, dirs, p⟩) (by simp [collectSpreadsSel])
          rcases hj _ _ _ f h with h | ⟨n, G, hr, hG, hf⟩
          · exact Or.inr ⟨nm, F, hb, hF, h⟩
          · exact Or.inr ⟨n, G, hb.trans hF hr, hG, hf⟩
    | .inline tc dirs sub p, parent, vis, f, h => by
      simp only [flatSel] at h
      simp only [collectFieldsSel, collectSpreadsSel]
      exact flatSels_sound sv l d hj sub _ vis f h
  theorem flatSels_sound (sv : SV) (l : Links) (d : QueryDoc) {fj : FJump} (hj : JSound sv l d fj) :
      ∀ (sels : Selections) (parent : Option Definition) (vis : List Name) (f : FInfo),
        f ∈ (flatSels sv l d fj parent sels vis).1 → RFld sv l d parent sels f
    | .nil, _, _, _, h => by simp [flatSels] at h
    | .cons x rest, parent, vis, f, h => by
      simp only [flatSels, List.mem_append] at h
      unfold RFld
      simp only [collectFields, collectSpreads]
      rcases h with h | h
      · exact (flatSel_sound sv l d hj x parent vis f h).mono (fun _ hx => List.mem_append_left _ hx)
          (fun _ hx => List.mem_append_left _ hx)
      · exact (flatSels_sound sv l d hj rest parent _ f h).mono (fun _ hx => List.mem_append_right _ hx)
          (fun _ hx => List.mem_append_right _ hx)
end

theorem flatLevel_sound (sv : SV) (l : Links) (d : QueryDoc) : ∀ n, JSound sv l d (flatLevel sv l d n)
  | 0 => fun _ _ _ _ h => by simp [flatLevel] at h
  | n + 1 => fun p sels vis f h => by
    simp only [flatLevel] at h
    exact flatSels_sound sv l d (flatLevel_sound sv l d n) sels p vis f h


/- ---------- own fields are listed, in order ---------- -/

mutual
  theorem flatSel_own (sv : SV) (l : Links) (d : QueryDoc) (fj : FJump) :
      ∀ (x : Selection) (parent : Option Definition) (vis : List Name),
        (collectFieldsSel sv l parent x).Sublist (flatSel sv l d fj parent x vis).1
    | .field al nm args dirs sub p, parent, vis => by simp [collectFieldsSel, flatSel]
    | .spread nm dirs p, parent, vis => by simp [collectFieldsSel]
    | .inline tc dirs sub p, parent, vis => by
      simp only [collectFieldsSel, flatSel]
      exact flatSels_own sv l d fj sub _ vis
  theorem flatSels_own (sv : SV) (l : Links) (d : QueryDoc) (fj : FJump) :
      ∀ (sels : Selections) (parent : Option Definition) (vis : List Name),
        (collectFields sv l parent sels).Sublist (flatSels sv l d fj parent sels vis).1
    | .nil, _, _ => by simp [collectFields, flatSels]
    | .cons x rest, parent, vis => by
      simp only [collectFields, flatSels]
      exact List.Sublist.append (flatSel_own sv l d fj x parent vis) (flatSels_own sv l d fj rest parent _)
end

/- ---------- completeness ---------- -/

/-- what one collection adds: the names of the spreads it met are visited afterwards, and every
    fragment that BECAME visited has all its fields in the output and its own spreads visited -/
structure FlatC (sv : SV) (l : Links) (d : QueryDoc) (sps : List SpreadNode) (vis : List Name)
    (r : List FInfo × List Name) : Prop where
  mono : vis ⊆ r.2
  src : ∀ sp ∈ sps, sp.name ∈ r.2
  new : ∀ n ∈ r.2, n ∉ vis → ∀ F, fragForName d n = some F →
    (∀ f ∈ fragFieldsOf sv l F, f ∈ r.1) ∧ ∀ sp ∈ collectSpreads F.sel, sp.name ∈ r.2

def JComplete (sv : SV) (l : Links) (d : QueryDoc) (n : Nat) (fj : FJump) : Prop :=
  ∀ p sels vis, unvisited d vis + 1 ≤ n →
    FlatC sv l d (collectSpreads sels) vis (fj p sels vis) ∧ ∀ f ∈ collectFields sv l p sels, f ∈ (fj p sels vis).1

theorem FlatC.seq {sv : SV} {l : Links} {d : QueryDoc} {s1 s2 : List SpreadNode} {vis : List Name}
    {r1 r2 : List FInfo × List Name} (h1 : FlatC sv l d s1 vis r1) (h2 : FlatC sv l d s2 r1.2 r2) :
    FlatC sv l d (s1 ++ s2) vis (r1.1 ++ r2.1, r2.2) where
  mono := fun _ hx => h2.mono (h1.mono hx)
  src := fun sp hsp => by
    rcases List.mem_append.1 hsp with h | h
    · exact h2.mono (h1.src sp h)
    · exact h2.src sp h
  new := fun n hn hnv F hF => by
    by_cases hm : n ∈ r1.2
    · obtain ⟨a, b⟩ := h1.new n hm hnv F hF
      exact ⟨fun f hf => List.mem_append_left _ (a f hf), fun sp hsp => h2.mono (b sp hsp)⟩
    · obtain ⟨a, b⟩ := h2.new n hn hm F hF
      exact ⟨fun f hf => List.mem_append_right _ (a f hf), b⟩

mutual
  theorem flatSel_complete (sv : SV) (l : Links) (d : QueryDoc) (k : Nat) {fj : FJump} (hj : JComplete sv l d k fj) :
      ∀ (x : Selection) (parent : Option Definition) (vis : List Name), unvisited d vis ≤ k →
        FlatC sv l d (collectSpreadsSel x) vis (flatSel sv l d fj parent x vis)
    | .field al nm args dirs sub p, parent, vis, _ =>
      { mono := fun _ h => h, src := fun sp h => by simp [collectSpreadsSel] at h,
        new := fun n hn hnv => absurd hn hnv }
    | .spread nm dirs p, parent, vis, hk => by
      simp only [flatSel]
      split
      · rename_i hc
        exact { mono := fun _ h => h
                src := fun sp h => by
                  simp only [collectSpreadsSel, List.mem_singleton] at h
                  subst h
                  exact List.contains_iff_mem.1 hc
                new := fun n hn hnv => absurd hn hnv }
      · rename_i hc
        have hnot : nm ∉ vis := fun hm => hc (List.contains_iff_mem.2 hm)
        cases hF : fragForName d nm with
        | none =>
          exact { mono := fun _ h => List.mem_cons_of_mem _ h
                  src := fun sp h => by
                    simp only [collectSpreadsSel, List.mem_singleton] at h
                    subst h
                    exact List.mem_cons_self
                  new := fun n hn hnv F hF' => by
                    rcases List.mem_cons.1 hn with rfl | hn
                    · rw [hF] at hF'; cases hF'
                    · exact absurd hn hnv }
        | some F =>
          simp only
          have hname : F.name = nm := fragForName_name hF
          have hlt := unvisited_lt d vis F (fragForName_mem hF) (by
            rw [hname]
            cases h : vis.contains nm with
            | false => rfl
            | true => exact absurd h hc)
          rw [hname] at hlt
          obtain ⟨hc1, hown⟩ := hj (sv.type? F.typeCond) F.sel (nm :: vis) (by omega)
          exact { mono := fun _ h => hc1.mono (List.mem_cons_of_mem _ h)
                  src := fun sp h => by
                    simp only [collectSpreadsSel, List.mem_singleton] at h
                    subst h
                    exact hc1.mono List.mem_cons_self
                  new := fun n hn hnv G hG => by
                    by_cases hnm : n = nm
                    · subst hnm
                      rw [hF] at hG
                      injection hG with hG
                      subst hG
                      exact ⟨hown, hc1.src⟩
                    · exact hc1.new n hn (fun hm => by
                        rcases List.mem_cons.1 hm with h | h
                        · exact hnm h
                        · exact hnv h) G hG }
    | .inline tc dirs sub p, parent, vis, hk => by
      simp only [flatSel, collectSpreadsSel]
      exact flatSels_complete sv l d k hj sub _ vis hk
  theorem flatSels_complete (sv : SV) (l : Links) (d : QueryDoc) (k : Nat) {fj : FJump} (hj : JComplete sv l d k fj) :
      ∀ (sels : Selections) (parent : Option Definition) (vis : List Name), unvisited d vis ≤ k →
        FlatC sv l d (collectSpreads sels) vis (flatSels sv l d fj parent sels vis)
    | .nil, _, vis, _ =>
      { mono := fun _ h => h, src := fun sp h => by simp [collectSpreads] at h,
        new := fun n hn hnv => absurd hn hnv }
    | .cons x rest, parent, vis, hk => by
      simp only [flatSels, collectSpreads]
      have h1 := flatSel_complete sv l d k hj x parent vis hk
      have h2 := flatSels_complete sv l d k hj rest parent (flatSel sv l d fj parent x vis).2
        (Nat.le_trans (unvisited_mono d h1.mono) hk)
      exact h1.seq h2
end

theorem flatLevel_complete (sv : SV) (l : Links) (d : QueryDoc) : ∀ n, JComplete sv l d n (flatLevel sv l d n)
  | 0 => fun _ _ _ h => by omega
  | n + 1 => fun p sels vis hk => by
    simp only [flatLevel]
    exact ⟨flatSels_complete sv l d n (flatLevel_complete sv l d n) sels p vis (by omega),
      fun f hf => (flatSels_own sv l d _ sels p vis).subset hf⟩

/-- from a closed visited set, everything reachable is visited afterwards -/
theorem FlatC.reach {sv : SV} {l : Links} {d : QueryDoc} {sps : List SpreadNode} {vis : List Name}
    {r : List FInfo × List Name} (h : FlatC sv l d sps vis r)
    (hclosed : ∀ m ∈ vis, ∀ F, fragForName d m = some F → ∀ sp ∈ collectSpreads F.sel, sp.name ∈ vis) :
    ∀ n, SReachL d sps n → n ∈ r.2 := by
  intro n hr
  induction hr with
  | base hs => exact h.src _ hs
  | @step m F sp _ hF hsp ih =>
    by_cases hm : m ∈ vis
    · exact h.mono (hclosed m hm F hF sp hsp)
    · exact (h.new m ih hm F hF).2 sp hsp

/-- the fields reachable from a selection set are members of its collected set -/
theorem flatSet_complete (s : Schema) (d : QueryDoc) (l : Links) (parent : Option Definition) (sels : Selections)
    {f : FInfo} (h : RFld s.view l d parent sels f) : f ∈ flatSet s d l parent sels := by
  unfold flatSet
  obtain ⟨hc, hown⟩ := flatLevel_complete s.view l d (d.frags.length + 1) parent sels []
    (by have := unvisited_le_length d []; omega)
  rcases h with h | ⟨n, F, hr, hF, hf⟩
  · exact hown f h
  · have hn := hc.reach (fun _ hm => by cases hm) n hr
    exact (hc.new n hn (fun hm => by cases hm) F hF).1 f hf

theorem flatSet_sound (s : Schema) (d : QueryDoc) (l : Links) (parent : Option Definition) (sels : Selections)
    {f : FInfo} (h : f ∈ flatSet s d l parent sels) : RFld s.view l d parent sels f :=
  flatLevel_sound s.view l d _ parent sels [] f h

theorem flatSet_own (s : Schema) (d : QueryDoc) (l : Links) (parent : Option Definition) (sels : Selections) :
    (collectFields s.view l parent sels).Sublist (flatSet s d l parent sels) := by
  unfold flatSet
  exact flatSels_own s.view l d _ sels parent []

end Gql.Validate
