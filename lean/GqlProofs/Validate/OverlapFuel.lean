import GqlProofs.Validate.OverlapPairs
import GqlProofs.Validate.RuleFuel
/-
  OverlappingFieldsCanBeMerged, part 2 of the termination argument: the model never runs out of
  fuel (`overlapRun … ≠ none`).

  * `findConflict` recursion (`fcLevel`): every nested call has added a fresh
    `(fieldA, fieldB, exclusive)` triple to the in-progress set, the triples come from the finite
    universe of reachable field nodes, so `2·F² + 1` levels suffice (pigeonhole:
    `fcLevel_ok`);
  * the (E) chain (`chain`): a frame that recurses has added the name of a fragment definition to
    the local `comparedFragments`, which is handed on and only grows along the chain's loops, so
    `K + 1` frames suffice (`chain_ok`);
  * the (G) recursion (`check`): a frame that recurses has turned a fresh
    `(fragment name, fragment name, exclusive)` triple of `comparedFragmentPairs` from "not had" to
    "had", and `comparedFragmentPairs` only advances (`Adv`) through everything else that runs
    in between, so `2·K² + 1` frames suffice (`check_ok`).
-/
namespace Gql.Validate
open Gql Gql.Validate.Rules

/- ---------- the universe of reachable field nodes ---------- -/

mutual
  /-- `(pos.start, sub-selection)` of every field node of a selection set, at any depth -/
  def allFields : Selections → List (Nat × Selections)
    | .nil => []
    | .cons x rest => allFieldsSel x ++ allFields rest
  def allFieldsSel : Selection → List (Nat × Selections)
    | .field _ _ _ _ sub p => (p.start, sub) :: allFields sub
    | .inline _ _ sub _ => allFields sub
    | .spread _ _ _ => []
end

mutual
  theorem length_allFields : ∀ sels : Selections, (allFields sels).length = countFields sels
    | .nil => rfl
    | .cons x rest => by
      simp only [allFields, countFields, List.length_append, length_allFieldsSel x, length_allFields rest]
  theorem length_allFieldsSel : ∀ x : Selection, (allFieldsSel x).length = countFieldsSel x
    | .field _ _ _ _ sub _ => by simp only [allFieldsSel, countFieldsSel, List.length_cons, length_allFields sub]
    | .inline _ _ sub _ => by simp only [allFieldsSel, countFieldsSel, length_allFields sub]
    | .spread _ _ _ => rfl
end

mutual
  /-- the field nodes below a field node of `sels` are field nodes of `sels` -/
  theorem allFields_sub : ∀ (sels : Selections) (k : Nat) (sub : Selections), (k, sub) ∈ allFields sels →
      ∀ x ∈ allFields sub, x ∈ allFields sels
    | .nil, _, _, h, _, _ => by simp [allFields] at h
    | .cons y rest, k, sub, h, x, hx => by
      simp only [allFields, List.mem_append] at h ⊢
      rcases h with h | h
      · exact Or.inl (allFieldsSel_sub y k sub h x hx)
      · exact Or.inr (allFields_sub rest k sub h x hx)
  theorem allFieldsSel_sub : ∀ (y : Selection) (k : Nat) (sub : Selections), (k, sub) ∈ allFieldsSel y →
      ∀ x ∈ allFields sub, x ∈ allFieldsSel y
    | .field _ _ _ _ sub0 p, k, sub, h, x, hx => by
      simp only [allFieldsSel, List.mem_cons] at h ⊢
      rcases h with h | h
      · injection h with _ h2
        subst h2
        exact Or.inr hx
      · exact Or.inr (allFields_sub sub0 k sub h x hx)
    | .inline _ _ sub0 _, k, sub, h, x, hx => by
      simp only [allFieldsSel] at h ⊢
      exact allFields_sub sub0 k sub h x hx
    | .spread _ _ _, _, _, h, _, _ => by simp [allFieldsSel] at h
end

mutual
  /-- collected fields are field nodes of the selection set they were collected from -/
  theorem collectFields_mem (s : SV) (l : Links) : ∀ (sels : Selections) (parent : Option Definition) (f : FInfo),
      f ∈ collectFields s l parent sels → (f.key, f.node.sel) ∈ allFields sels
    | .nil, _, _, h => by simp [collectFields] at h
    | .cons y rest, parent, f, h => by
      simp only [collectFields, allFields, List.mem_append] at h ⊢
      rcases h with h | h
      · exact Or.inl (collectFieldsSel_mem s l y parent f h)
      · exact Or.inr (collectFields_mem s l rest parent f h)
  theorem collectFieldsSel_mem (s : SV) (l : Links) : ∀ (y : Selection) (parent : Option Definition) (f : FInfo),
      f ∈ collectFieldsSel s l parent y → (f.key, f.node.sel) ∈ allFieldsSel y
    | .field _ _ _ _ sub p, parent, f, h => by
      simp only [collectFieldsSel, List.mem_singleton] at h
      subst h
      simp [allFieldsSel, FInfo.key]
    | .inline tc _ sub _, parent, f, h => by
      simp only [collectFieldsSel, allFieldsSel] at h ⊢
      exact collectFields_mem s l sub _ f h
    | .spread _ _ _, _, _, h => by simp [collectFieldsSel] at h
end

abbrev Univ := List (Nat × Selections)

/-- the field nodes one top-level call on `sels` can reach -/
def univOf (d : QueryDoc) (sels : Selections) : Univ :=
  allFields sels ++ d.frags.flatMap fun f => allFields f.sel

theorem length_fragFields (fs : List FragmentDef) :
    (fs.flatMap fun f => allFields f.sel).length = sumNat (fs.map fun f => countFields f.sel) := by
  induction fs with
  | nil => rfl
  | cons f rest ih =>
    simp only [List.flatMap_cons, List.length_append, List.map_cons, sumNat, List.foldr_cons, length_allFields] at ih ⊢
    rw [ih]

theorem length_univOf (d : QueryDoc) (sels : Selections) : (univOf d sels).length = reachableFieldCount d sels := by
  simp only [univOf, List.length_append, length_allFields, length_fragFields, reachableFieldCount, fragFieldCount]

/-- the universe contains the field nodes below each of its members -/
def UClosed (U : Univ) : Prop := ∀ k sub, (k, sub) ∈ U → ∀ x ∈ allFields sub, x ∈ U

/-- the universe contains the field nodes of every fragment definition -/
def UFrags (d : QueryDoc) (U : Univ) : Prop := ∀ f ∈ d.frags, ∀ x ∈ allFields f.sel, x ∈ U

theorem univOf_closed (d : QueryDoc) (sels : Selections) : UClosed (univOf d sels) := by
  intro k sub h x hx
  simp only [univOf, List.mem_append, List.mem_flatMap] at h ⊢
  rcases h with h | ⟨f, hf, h⟩
  · exact Or.inl (allFields_sub sels k sub h x hx)
  · exact Or.inr ⟨f, hf, allFields_sub f.sel k sub h x hx⟩

theorem univOf_frags (d : QueryDoc) (sels : Selections) : UFrags d (univOf d sels) := by
  intro f hf x hx
  simp only [univOf, List.mem_append, List.mem_flatMap]
  exact Or.inr ⟨f, hf, hx⟩

/-- a collected field whose node is in the universe -/
def Good (U : Univ) (f : FInfo) : Prop := (f.key, f.node.sel) ∈ U

def GoodMap (U : Univ) (A : FMap) : Prop := ∀ e ∈ A, ∀ f ∈ e.2, Good U f

theorem fmPush_all (Q : FInfo → Prop) (rn : Name) (f0 : FInfo) (h0 : Q f0) :
    ∀ m : FMap, (∀ e ∈ m, ∀ f ∈ e.2, Q f) → ∀ e ∈ fmPush rn f0 m, ∀ f ∈ e.2, Q f
  | [], _, e, he, f, hf => by
    simp only [fmPush, List.mem_singleton] at he
    subst he
    simp only [List.mem_singleton] at hf
    subst hf
    exact h0
  | (k, fs) :: rest, hm, e, he, f, hf => by
    simp only [fmPush] at he
    split at he
    · rcases List.mem_cons.1 he with he | he
      · subst he
        rcases List.mem_append.1 hf with hf | hf
        · exact hm (k, fs) (List.mem_cons_self ..) f hf
        · simp only [List.mem_singleton] at hf
          subst hf
          exact h0
      · exact hm e (List.mem_cons_of_mem _ he) f hf
    · rcases List.mem_cons.1 he with he | he
      · subst he
        exact hm (k, fs) (List.mem_cons_self ..) f hf
      · exact fmPush_all Q rn f0 h0 rest (fun e' he' => hm e' (List.mem_cons_of_mem _ he')) e he f hf

theorem fmOfList_all (Q : FInfo → Prop) (fs : List FInfo) (h : ∀ f ∈ fs, Q f) :
    ∀ e ∈ fmOfList fs, ∀ f ∈ e.2, Q f := by
  unfold fmOfList
  suffices hgen : ∀ (fs : List FInfo) (m : FMap), (∀ f ∈ fs, Q f) → (∀ e ∈ m, ∀ f ∈ e.2, Q f) →
      ∀ e ∈ fs.foldl (fun m f => fmPush (responseName f.node) f m) m, ∀ f ∈ e.2, Q f from
    hgen fs [] h (fun e he => by cases he)
  intro fs
  induction fs with
  | nil => intro m _ hm; exact hm
  | cons f0 rest ih =>
    intro m hfs hm
    simp only [List.foldl_cons]
    exact ih _ (fun f hf => hfs f (List.mem_cons_of_mem _ hf))
      (fmPush_all Q _ f0 (hfs f0 (List.mem_cons_self ..)) m hm)

theorem lookup_mem {α β : Type} [BEq α] [LawfulBEq α] (k : α) (v : β) :
    ∀ l : List (α × β), l.lookup k = some v → (k, v) ∈ l
  | [], h => by simp at h
  | (k', v') :: rest, h => by
    rw [List.lookup_cons] at h
    split at h
    · rename_i hk
      have hk' : k = k' := by simpa using hk
      injection h with h
      subst hk' h
      exact List.mem_cons_self ..
    · exact List.mem_cons_of_mem _ (lookup_mem k v rest h)

theorem goodMap_get {U : Univ} {B : FMap} (hB : GoodMap U B) {rn : Name} {fs : List FInfo}
    (h : fmGet B rn = some fs) : ∀ f ∈ fs, Good U f :=
  fun f hf => hB (rn, fs) (lookup_mem rn fs B h) f hf

/-- the fields collected from a selection set all of whose field nodes are in the universe -/
theorem goodMap_collect {U : Univ} (s : SV) (l : Links) (parent : Option Definition) (sels : Selections)
    (h : ∀ x ∈ allFields sels, x ∈ U) : GoodMap U (getFieldsAndFragmentNames s l parent sels).1 := by
  unfold getFieldsAndFragmentNames
  exact fmOfList_all (Good U) _ fun f hf => h _ (collectFields_mem s l sels parent f hf)

theorem goodMap_sub {U : Univ} (hcl : UClosed U) (s : SV) (l : Links) (parent : Option Definition) {a : FInfo}
    (ha : Good U a) : GoodMap U (getFieldsAndFragmentNames s l parent a.node.sel).1 :=
  goodMap_collect s l parent a.node.sel (hcl _ _ ha)

theorem goodMap_frag {U : Univ} (env : Env) (hfr : UFrags env.d U) {f : FragmentDef} (hf : f ∈ env.d.frags) :
    GoodMap U (env.fragFields f).1 := by
  unfold Env.fragFields
  exact goodMap_collect _ _ _ f.sel (hfr f hf)

/- ---------- loops over `findConflict` ---------- -/

/-- `findConflict` (at in-progress set `C`) answers on all reachable fields and only advances
    `comparedFragmentPairs` -/
def FCOk (U : Univ) (fc : FC) (C : Comparing) : Prop :=
  ∀ excl a b P, Good U a → Good U b → PSym P → ∃ r, fc excl a b C P = some r ∧ Adv P r.1

theorem pairRow_ok {U : Univ} {fc : FC} {C : Comparing} (hfc : FCOk U fc C) (excl : Bool) {fa : FInfo}
    (ha : Good U fa) : ∀ (fbs : List FInfo), (∀ f ∈ fbs, Good U f) → ∀ P, PSym P →
      ∃ r, pairRow fc excl C fa fbs P = some r ∧ Adv P r.1
  | [], _, P, hP => ⟨(P, []), rfl, Adv_refl hP⟩
  | fb :: rest, hb, P, hP => by
    obtain ⟨⟨P1, c⟩, h1, a1⟩ := hfc excl fa fb P ha (hb fb (List.mem_cons_self ..)) hP
    obtain ⟨⟨P2, cs⟩, h2, a2⟩ := pairRow_ok hfc excl ha rest (fun f hf => hb f (List.mem_cons_of_mem _ hf)) P1 a1.1
    refine ⟨(P2, optToList c ++ cs), ?_, Adv_trans a1 a2⟩
    simp only [pairRow, h1, h2]

theorem pairGrid_ok {U : Univ} {fc : FC} {C : Comparing} (hfc : FCOk U fc C) (excl : Bool) {fsB : List FInfo}
    (hB : ∀ f ∈ fsB, Good U f) : ∀ (fsA : List FInfo), (∀ f ∈ fsA, Good U f) → ∀ P, PSym P →
      ∃ r, pairGrid fc excl C fsB fsA P = some r ∧ Adv P r.1
  | [], _, P, hP => ⟨(P, []), rfl, Adv_refl hP⟩
  | fa :: rest, hA, P, hP => by
    obtain ⟨⟨P1, c1⟩, h1, a1⟩ := pairRow_ok hfc excl (hA fa (List.mem_cons_self ..)) fsB hB P hP
    obtain ⟨⟨P2, c2⟩, h2, a2⟩ := pairGrid_ok hfc excl hB rest (fun f hf => hA f (List.mem_cons_of_mem _ hf)) P1 a1.1
    refine ⟨(P2, c1 ++ c2), ?_, Adv_trans a1 a2⟩
    simp only [pairGrid, h1, h2]

theorem between_ok {U : Univ} {fc : FC} {C : Comparing} (hfc : FCOk U fc C) (excl : Bool) {B : FMap}
    (hB : GoodMap U B) : ∀ (A : FMap), GoodMap U A → ∀ P, PSym P →
      ∃ r, collectConflictsBetween fc excl C B A P = some r ∧ Adv P r.1
  | [], _, P, hP => ⟨(P, []), rfl, Adv_refl hP⟩
  | (rn, fsA) :: rest, hA, P, hP => by
    have hrest : GoodMap U rest := fun e he => hA e (List.mem_cons_of_mem _ he)
    unfold collectConflictsBetween
    cases hg : fmGet B rn with
    | none => exact between_ok hfc excl hB rest hrest P hP
    | some fsB =>
      simp only
      obtain ⟨⟨P1, c1⟩, h1, a1⟩ := pairGrid_ok hfc excl (goodMap_get hB hg) fsA
        (hA (rn, fsA) (List.mem_cons_self ..)) P hP
      obtain ⟨⟨P2, c2⟩, h2, a2⟩ := between_ok hfc excl hB rest hrest P1 a1.1
      refine ⟨(P2, c1 ++ c2), ?_, Adv_trans a1 a2⟩
      simp only [h1, h2]

theorem pairTriangle_ok {U : Univ} {fc : FC} {C : Comparing} (hfc : FCOk U fc C) :
    ∀ (fs : List FInfo), (∀ f ∈ fs, Good U f) → ∀ P, PSym P →
      ∃ r, pairTriangle fc C fs P = some r ∧ Adv P r.1
  | [], _, P, hP => ⟨(P, []), rfl, Adv_refl hP⟩
  | fa :: rest, hA, P, hP => by
    have hrest : ∀ f ∈ rest, Good U f := fun f hf => hA f (List.mem_cons_of_mem _ hf)
    obtain ⟨⟨P1, c1⟩, h1, a1⟩ := pairRow_ok hfc false (hA fa (List.mem_cons_self ..)) rest hrest P hP
    obtain ⟨⟨P2, c2⟩, h2, a2⟩ := pairTriangle_ok hfc rest hrest P1 a1.1
    refine ⟨(P2, c1 ++ c2), ?_, Adv_trans a1 a2⟩
    simp only [pairTriangle, h1, h2]

theorem within_ok {U : Univ} {fc : FC} {C : Comparing} (hfc : FCOk U fc C) :
    ∀ (A : FMap), GoodMap U A → ∀ P, PSym P → ∃ r, collectConflictsWithin fc C A P = some r ∧ Adv P r.1
  | [], _, P, hP => ⟨(P, []), rfl, Adv_refl hP⟩
  | (rn, fs) :: rest, hA, P, hP => by
    have hrest : GoodMap U rest := fun e he => hA e (List.mem_cons_of_mem _ he)
    obtain ⟨⟨P1, c1⟩, h1, a1⟩ := pairTriangle_ok hfc fs (hA (rn, fs) (List.mem_cons_self ..)) P hP
    obtain ⟨⟨P2, c2⟩, h2, a2⟩ := within_ok hfc rest hrest P1 a1.1
    refine ⟨(P2, c1 ++ c2), ?_, Adv_trans a1 a2⟩
    simp only [collectConflictsWithin, h1, h2]

/- ---------- generic loops ---------- -/

/-- a loop threading `comparedFragmentPairs`, under a bound on the `check` measure (which the
    loop cannot increase) -/
theorem pairsLoop_ok (d : QueryDoc) (n : Nat) {α : Type} (step : α → Pairs → Option (Pairs × List Conflict)) :
    ∀ (xs : List α), (∀ x ∈ xs, ∀ P, PSym P → unHas d P + 1 ≤ n → ∃ r, step x P = some r ∧ Adv P r.1) →
      ∀ P, PSym P → unHas d P + 1 ≤ n → ∃ r, pairsLoop step xs P = some r ∧ Adv P r.1
  | [], _, P, hP, _ => ⟨(P, []), rfl, Adv_refl hP⟩
  | x :: rest, h, P, hP, hb => by
    obtain ⟨⟨P1, c1⟩, h1, a1⟩ := h x (List.mem_cons_self ..) P hP hb
    have hb1 : unHas d P1 + 1 ≤ n := Nat.le_trans (Nat.succ_le_succ (unHas_mono d a1.2)) hb
    obtain ⟨⟨P2, c2⟩, h2, a2⟩ := pairsLoop_ok d n step rest (fun y hy => h y (List.mem_cons_of_mem _ hy)) P1 a1.1 hb1
    refine ⟨(P2, c1 ++ c2), ?_, Adv_trans a1 a2⟩
    simp only [pairsLoop, h1, h2]

/-- the bound that always holds -/
def maxUnHas (d : QueryDoc) : Nat := 2 * d.frags.length * d.frags.length + 1

theorem unHas_lt_max (d : QueryDoc) (P : Pairs) : unHas d P + 1 ≤ maxUnHas d :=
  Nat.succ_le_succ (unHas_le_max d P)

/-- the same loop without a bound -/
theorem pairsLoop_ok' (d : QueryDoc) {α : Type} (step : α → Pairs → Option (Pairs × List Conflict))
    (xs : List α) (h : ∀ x ∈ xs, ∀ P, PSym P → ∃ r, step x P = some r ∧ Adv P r.1) :
    ∀ P, PSym P → ∃ r, pairsLoop step xs P = some r ∧ Adv P r.1 :=
  fun P hP => pairsLoop_ok d (maxUnHas d) step xs (fun x hx P hP _ => h x hx P hP) P hP (unHas_lt_max d P)

/-- a chain step: answers when enough frames are left for the fragments not yet compared, hands
    back a larger `comparedFragments` -/
def ChainStepOk (d : QueryDoc) (n : Nat) (step : SpreadNode → List Name → Pairs → Option ChainSt) : Prop :=
  ∀ sp M P, PSym P → unvisited d M + 1 ≤ n → ∃ r, step sp M P = some r ∧ M ⊆ r.1 ∧ Adv P r.2.1

theorem chainLoop_ok {d : QueryDoc} {n : Nat} {step : SpreadNode → List Name → Pairs → Option ChainSt}
    (h : ChainStepOk d n step) : ∀ (sps : List SpreadNode) M P, PSym P → unvisited d M + 1 ≤ n →
      ∃ r, chainLoop step sps M P = some r ∧ M ⊆ r.1 ∧ Adv P r.2.1
  | [], M, P, hP, _ => ⟨(M, P, []), rfl, fun _ hx => hx, Adv_refl hP⟩
  | sp :: rest, M, P, hP, hb => by
    obtain ⟨⟨M1, P1, c1⟩, h1, m1, a1⟩ := h sp M P hP hb
    have hb1 : unvisited d M1 + 1 ≤ n := Nat.le_trans (Nat.succ_le_succ (unvisited_mono d m1)) hb
    obtain ⟨⟨M2, P2, c2⟩, h2, m2, a2⟩ := chainLoop_ok h rest M1 P1 a1.1 hb1
    refine ⟨(M2, P2, c1 ++ c2), ?_, fun x hx => m2 (m1 hx), Adv_trans a1 a2⟩
    simp only [chainLoop, h1, h2]

/- ---------- the (E) chain ---------- -/

theorem chain_ok {U : Univ} (env : Env) {fc : FC} {C : Comparing} (hfc : FCOk U fc C) (hfr : UFrags env.d U)
    (excl : Bool) {A : FMap} (hA : GoodMap U A) : ∀ n, ChainStepOk env.d n (chain env fc excl C A n)
  | 0 => by intro _ _ _ _ h; omega
  | n + 1 => by
    intro sp M P hP hb
    unfold chain
    split
    · exact ⟨(M, P, []), rfl, fun _ hx => hx, Adv_refl hP⟩
    · rename_i hc
      have hM1 : M ⊆ sp.name :: M := fun _ hx => List.mem_cons_of_mem _ hx
      simp only
      cases hs : env.l.spreadDef env.d sp.name sp.pos with
      | none => exact ⟨(sp.name :: M, P, []), rfl, hM1, Adv_refl hP⟩
      | some f =>
        simp only
        split
        · exact ⟨(sp.name :: M, P, []), rfl, hM1, Adv_refl hP⟩
        · have hf := spreadDef_some hs
          have hmem := fragForName_mem hf
          have hname := fragForName_name hf
          have hc' : M.contains f.name = false := by rw [hname]; simpa using hc
          have hlt := unvisited_lt env.d M f hmem hc'
          rw [hname] at hlt
          obtain ⟨⟨P1, c1⟩, h1, a1⟩ := between_ok hfc excl (goodMap_frag env hfr hmem) A hA P hP
          have hb1 : unvisited env.d (sp.name :: M) + 1 ≤ n := by omega
          obtain ⟨⟨M2, P2, c2⟩, h2, m2, a2⟩ := chainLoop_ok (chain_ok env hfc hfr excl hA n)
            ((env.fragFields f).2.filter fun x => x.name != sp.name) (sp.name :: M) P1 a1.1 hb1
          refine ⟨(M2, P2, c1 ++ c2), ?_, fun x hx => m2 (hM1 hx), Adv_trans a1 a2⟩
          simp only [h1, h2]

/- ---------- the (G) recursion ---------- -/

theorem spreadDef_fragName {l : Links} {d : QueryDoc} {n : Name} {p : Pos} {f : FragmentDef}
    (h : l.spreadDef d n p = some f) : n ∈ fragNames d := by
  have hf := spreadDef_some h
  rw [← fragForName_name hf]
  exact List.mem_map.2 ⟨f, fragForName_mem hf, rfl⟩

theorem check_ok {U : Univ} (env : Env) {fc : FC} {C : Comparing} (hfc : FCOk U fc C) (hfr : UFrags env.d U)
    (excl : Bool) : ∀ n a b P, PSym P → unHas env.d P + 1 ≤ n →
      ∃ r, check env fc excl C n a b P = some r ∧ Adv P r.1
  | 0, _, _, _, _, h => by omega
  | n + 1, a, b, P, hP, hb => by
    unfold check
    split
    · exact ⟨(P, []), rfl, Adv_refl hP⟩
    · split
      · exact ⟨(P, []), rfl, Adv_refl hP⟩
      · rename_i hne hhas
        have hhas' : P.has a.name b.name excl = false := by simpa using hhas
        have a0 : Adv P (P.add a.name b.name excl) := Adv_add hP _ _ _ hhas'
        simp only
        split
        · rename_i fa fb hsa hsb
          have hma := fragForName_mem (spreadDef_some hsa)
          have hmb := fragForName_mem (spreadDef_some hsb)
          -- everything that happens after the `Add` stays below the bound of the nested frames
          have hbound : ∀ Q, PLe (P.add a.name b.name excl) Q → unHas env.d Q + 1 ≤ n := by
            intro Q hQ
            have := unHas_add_lt env.d hP excl (spreadDef_fragName hsa) (spreadDef_fragName hsb) hhas' hQ
            omega
          obtain ⟨⟨P1, c1⟩, h1, a1⟩ := between_ok hfc excl (goodMap_frag env hfr hmb) _
            (goodMap_frag env hfr hma) _ a0.1
          obtain ⟨⟨P2, c2⟩, h2, a2⟩ := pairsLoop_ok env.d n (fun x => check env fc excl C n a x) (env.fragFields fb).2
            (fun x _ Q hQ hQb => check_ok env hfc hfr excl n a x Q hQ hQb) P1 a1.1 (hbound P1 a1.2)
          obtain ⟨⟨P3, c3⟩, h3, a3⟩ := pairsLoop_ok env.d n (fun x => check env fc excl C n x b) (env.fragFields fa).2
            (fun x _ Q hQ hQb => check_ok env hfc hfr excl n x b Q hQ hQb) P2 a2.1
            (hbound P2 (PLe_trans a1.2 a2.2))
          refine ⟨(P3, c1 ++ c2 ++ c3), ?_, Adv_trans a0 (Adv_trans a1 (Adv_trans a2 a3))⟩
          simp only [h1, h2, h3]
        · exact ⟨(P.add a.name b.name excl, []), rfl, a0⟩

/- ---------- one `findConflict` level ---------- -/

/-- the fuel the environment hands to the two inner recursions is enough -/
structure EnvFuelOk (env : Env) : Prop where
  chain : env.d.frags.length + 1 ≤ env.chainFuel
  check : maxUnHas env.d ≤ env.checkFuel

theorem betweenFragments_ok {U : Univ} (env : Env) (hE : EnvFuelOk env) {fc : FC} {C : Comparing} (hfc : FCOk U fc C)
    (hfr : UFrags env.d U) (excl : Bool) (a b : SpreadNode) (P : Pairs) (hP : PSym P) :
    ∃ r, collectConflictsBetweenFragments env fc excl C a b P = some r ∧ Adv P r.1 :=
  check_ok env hfc hfr excl env.checkFuel a b P hP (Nat.le_trans (unHas_lt_max env.d P) hE.check)

theorem chainFresh_ok {U : Univ} (env : Env) (hE : EnvFuelOk env) {fc : FC} {C : Comparing} (hfc : FCOk U fc C)
    (hfr : UFrags env.d U) (excl : Bool) {A : FMap} (hA : GoodMap U A) (sp : SpreadNode) (P : Pairs) (hP : PSym P) :
    ∃ r, chainFresh env fc excl C A sp P = some r ∧ Adv P r.1 := by
  obtain ⟨⟨M1, P1, c1⟩, h1, _, a1⟩ := chain_ok env hfc hfr excl hA env.chainFuel sp [] P hP
    (by rw [unvisited_nil]; exact hE.chain)
  exact ⟨(P1, c1), by simp only [chainFresh, h1], a1⟩

theorem subSets_ok {U : Univ} (env : Env) (hE : EnvFuelOk env) {fc : FC} {C : Comparing} (hfc : FCOk U fc C)
    (hcl : UClosed U) (hfr : UFrags env.d U) (excl : Bool) {a b : FInfo} (ha : Good U a) (hb : Good U b)
    (P : Pairs) (hP : PSym P) :
    ∃ r, findConflictsBetweenSubSelectionSets env fc excl a b C P = some r ∧ Adv P r.1 := by
  unfold findConflictsBetweenSubSelectionSets
  simp only
  have gA := goodMap_sub hcl env.s env.l (a.next env.s) ha
  have gB := goodMap_sub hcl env.s env.l (b.next env.s) hb
  obtain ⟨⟨P1, c1⟩, h1, a1⟩ := between_ok hfc excl gB _ gA P hP
  obtain ⟨⟨P2, c2⟩, h2, a2⟩ := pairsLoop_ok' env.d (chainFresh env fc excl C
      (getFieldsAndFragmentNames env.s env.l (a.next env.s) a.node.sel).1)
    (getFieldsAndFragmentNames env.s env.l (b.next env.s) b.node.sel).2
    (fun sp _ Q hQ => chainFresh_ok env hE hfc hfr excl gA sp Q hQ) P1 a1.1
  obtain ⟨⟨P3, c3⟩, h3, a3⟩ := pairsLoop_ok' env.d (chainFresh env fc excl C
      (getFieldsAndFragmentNames env.s env.l (b.next env.s) b.node.sel).1)
    (getFieldsAndFragmentNames env.s env.l (a.next env.s) a.node.sel).2
    (fun sp _ Q hQ => chainFresh_ok env hE hfc hfr excl gB sp Q hQ) P2 a2.1
  obtain ⟨⟨P4, c4⟩, h4, a4⟩ := pairsLoop_ok' env.d
    (fun sa => pairsLoop (collectConflictsBetweenFragments env fc excl C sa)
      (getFieldsAndFragmentNames env.s env.l (b.next env.s) b.node.sel).2)
    (getFieldsAndFragmentNames env.s env.l (a.next env.s) a.node.sel).2
    (fun sa _ Q hQ => pairsLoop_ok' env.d _ _ (fun sb _ Q' hQ' => betweenFragments_ok env hE hfc hfr excl sa sb Q' hQ') Q hQ)
    P3 a3.1
  refine ⟨(P4, c1 ++ c2 ++ c3 ++ c4), ?_, Adv_trans a1 (Adv_trans a2 (Adv_trans a3 a4))⟩
  simp only [h1, h2, h3, h4]

/-- `findConflict` answers if the call of `findConflictsBetweenSubSelectionSets` it may make — with
    the in-progress set extended by a triple that was NOT in it — answers -/
theorem findConflictBody_ok (s : SV)
    (sub : Bool → FInfo → FInfo → Comparing → Pairs → Option (Pairs × List Conflict))
    (excl0 : Bool) (a b : FInfo) (C : Comparing) (P : Pairs) (hP : PSym P)
    (hsub : ∀ excl, (a.key, b.key, excl) ∉ C → ∃ r, sub excl a b ((a.key, b.key, excl) :: C) P = some r ∧ Adv P r.1) :
    ∃ r, findConflictBody s sub excl0 a b C P = some r ∧ Adv P r.1 := by
  unfold findConflictBody
  simp only
  split
  · split
    · exact ⟨_, rfl, Adv_refl hP⟩
    · split
      · exact ⟨_, rfl, Adv_refl hP⟩
      · split
        · exact ⟨_, rfl, Adv_refl hP⟩
        · split
          · exact ⟨_, rfl, Adv_refl hP⟩
          · rename_i hc
            rename_i t1 t2 _ _ _ _ _ _
            have hc' : (a.key, b.key, excl0 || (t1.name != t2.name && t1.kind == DefKind.object &&
                t2.kind == DefKind.object && a.dfn.isSome && b.dfn.isSome)) ∉ C := by simpa using hc
            obtain ⟨⟨P1, cs⟩, h1, a1⟩ := hsub _ hc'
            rw [h1]
            cases cs with
            | nil => exact ⟨_, rfl, a1⟩
            | cons c cs => exact ⟨_, rfl, a1⟩
  · exact ⟨_, rfl, Adv_refl hP⟩

/-- `findConflict` at in-progress set `C` calls `findConflictsBetweenSubSelectionSets` only with the
    same two fields and `C` extended by their triple, and only if that triple is NOT in `C`: the
    in-progress set strictly grows along the recursion and stays duplicate-free -/
theorem findConflictBody_calls_fresh (s : SV)
    (sub sub' : Bool → FInfo → FInfo → Comparing → Pairs → Option (Pairs × List Conflict))
    (excl0 : Bool) (a b : FInfo) (C : Comparing) (P : Pairs)
    (h : ∀ excl, (a.key, b.key, excl) ∉ C →
      sub excl a b ((a.key, b.key, excl) :: C) P = sub' excl a b ((a.key, b.key, excl) :: C) P) :
    findConflictBody s sub excl0 a b C P = findConflictBody s sub' excl0 a b C P := by
  unfold findConflictBody
  simp only
  split
  · split
    · rfl
    · split
      · rfl
      · split
        · rfl
        · split
          · rfl
          · rename_i t1 t2 _ _ _ _ _ _ hc
            have hc' : (a.key, b.key, excl0 || (t1.name != t2.name && t1.kind == DefKind.object &&
                t2.kind == DefKind.object && a.dfn.isSome && b.dfn.isSome)) ∉ C := by simpa using hc
            rw [h _ hc']
  · rfl

/- ---------- the `findConflict` recursion: pigeonhole on the in-progress set ---------- -/

/-- a duplicate-free in-progress set over the universe has at most `2·F²` elements -/
theorem comparing_length_le (U : Univ) (C : Comparing) (hnd : C.Nodup) (hsub : ∀ t ∈ C, t ∈ allTriples (U.map (·.1))) :
    C.length ≤ 2 * U.length * U.length := by
  have h := List.Nodup.length_le_of_subset hnd (fun t ht => hsub t ht)
  rw [length_allTriples] at h
  simpa using h

def keysOf (U : Univ) : List Nat := U.map (·.1)

theorem good_key {U : Univ} {f : FInfo} (h : Good U f) : f.key ∈ keysOf U :=
  List.mem_map.2 ⟨_, h, rfl⟩

/-- With `n` levels left and an in-progress set `C` of pairwise distinct triples over the universe,
    `n + |C| > 2·F²` is enough: each level adds a new triple, and there are only `2·F²`. -/
theorem fcLevel_ok {U : Univ} (env : Env) (hE : EnvFuelOk env) (hcl : UClosed U) (hfr : UFrags env.d U) :
    ∀ (n : Nat) (C : Comparing), C.Nodup → (∀ t ∈ C, t ∈ allTriples (keysOf U)) →
      2 * U.length * U.length + 1 ≤ n + C.length → FCOk U (fcLevel env n) C
  | 0, C, hnd, hsub, hlen => by
    have h := List.Nodup.length_le_of_subset hnd (fun t ht => hsub t ht)
    rw [length_allTriples] at h
    simp only [keysOf, List.length_map] at h
    omega
  | n + 1, C, hnd, hsub, hlen => by
    intro excl0 a b P ha hb hP
    simp only [fcLevel]
    apply findConflictBody_ok env.s _ excl0 a b C P hP
    intro excl hnot
    have hfc : FCOk U (fcLevel env n) ((a.key, b.key, excl) :: C) :=
      fcLevel_ok env hE hcl hfr n ((a.key, b.key, excl) :: C)
        (List.nodup_cons.2 ⟨hnot, hnd⟩)
        (fun t ht => by
          rcases List.mem_cons.1 ht with ht | ht
          · subst ht; exact mem_allTriples excl (good_key ha) (good_key hb)
          · exact hsub t ht)
        (by simp only [List.length_cons]; omega)
    exact subSets_ok env hE hfc hcl hfr excl ha hb P hP

/- ---------- the top-level call ---------- -/

theorem withinLoop_ok {U : Univ} (env : Env) (hE : EnvFuelOk env) {fc : FC} (hfc : FCOk U fc []) (hfr : UFrags env.d U)
    {A : FMap} (hA : GoodMap U A) : ∀ (sps : List SpreadNode) M P, PSym P →
      ∃ r, withinLoop env fc A sps M P = some r ∧ Adv P r.2.1
  | [], M, P, hP => ⟨(M, P, []), rfl, Adv_refl hP⟩
  | sa :: rest, M, P, hP => by
    obtain ⟨⟨M1, P1, c1⟩, h1, _, a1⟩ := chain_ok env hfc hfr false hA env.chainFuel sa M P hP
      (Nat.le_trans (Nat.succ_le_succ (unvisited_le_length env.d M)) hE.chain)
    obtain ⟨⟨P2, c2⟩, h2, a2⟩ := pairsLoop_ok' env.d (collectConflictsBetweenFragments env fc false [] sa) rest
      (fun sb _ Q hQ => betweenFragments_ok env hE hfc hfr false sa sb Q hQ) P1 a1.1
    obtain ⟨⟨M3, P3, c3⟩, h3, a3⟩ := withinLoop_ok env hE hfc hfr hA rest M1 P2 a2.1
    refine ⟨(M3, P3, c1 ++ c2 ++ c3), ?_, Adv_trans a1 (Adv_trans a2 a3)⟩
    simp only [withinLoop, h1, h2, h3]

theorem findConflictsWithinSelectionSet_ok {U : Univ} (env : Env) (hE : EnvFuelOk env) {fc : FC} (hfc : FCOk U fc [])
    (hfr : UFrags env.d U) (parent : Option Definition) (sels : Selections) (hsels : ∀ x ∈ allFields sels, x ∈ U)
    (P : Pairs) (hP : PSym P) :
    ∃ r, findConflictsWithinSelectionSet env fc parent sels P = some r ∧ Adv P r.1 := by
  unfold findConflictsWithinSelectionSet
  split
  · exact ⟨(P, []), rfl, Adv_refl hP⟩
  · simp only
    have gA := goodMap_collect env.s env.l parent sels hsels
    obtain ⟨⟨P1, c1⟩, h1, a1⟩ := within_ok hfc _ gA P hP
    obtain ⟨⟨M2, P2, c2⟩, h2, a2⟩ := withinLoop_ok env hE hfc hfr gA
      (getFieldsAndFragmentNames env.s env.l parent sels).2 [] P1 a1.1
    exact ⟨(P2, c1 ++ c2), by simp only [h1, h2], Adv_trans a1 a2⟩

theorem overlapEnv_fuelOk (s : SV) (d : QueryDoc) (l : Links) : EnvFuelOk (overlapEnv s d l) :=
  ⟨by simp only [overlapEnv, overlapChainFuel]; omega, by simp only [overlapEnv, overlapCheckFuel, maxUnHas]; omega⟩

/-- one observer call never runs out of fuel, and leaves `comparedFragmentPairs` symmetric -/
theorem overlapRun_ok (s : SV) (d : QueryDoc) (l : Links) (parent : Option Definition) (sels : Selections)
    (P : Pairs) (hP : PSym P) : ∃ r, overlapRun s d l parent sels P = some r ∧ Adv P r.1 := by
  unfold overlapRun
  simp only
  have hE := overlapEnv_fuelOk s d l
  have hfc : FCOk (univOf d sels) (fcLevel (overlapEnv s d l) (overlapFuel d sels)) [] :=
    fcLevel_ok (overlapEnv s d l) hE (univOf_closed d sels) (univOf_frags d sels) (overlapFuel d sels) []
      List.nodup_nil (fun t ht => by cases ht)
      (by simp only [length_univOf, overlapFuel, List.length_nil]; omega)
  exact findConflictsWithinSelectionSet_ok (overlapEnv s d l) hE hfc (univOf_frags d sels) parent sels
    (fun x hx => by simp only [univOf, List.mem_append]; exact Or.inl hx) P hP

end Gql.Validate
