import GqlProofs.Validate.OverlapRun
import GqlProofs.Validate.OverlapFlat
/-
  OverlappingFieldsCanBeMerged: the link table in which every selection node of the document is
  linked (`fullLinks`), and the collected fields of the selection sets of `Spec.docSets` under it
  (`DocF.ofSet`).
-/
namespace Gql.Validate
open Gql Gql.Validate.Rules

mutual
  def selPositions : Selections → List Nat
    | .nil => []
    | .cons x rest => selPositionsSel x ++ selPositions rest
  def selPositionsSel : Selection → List Nat
    | .field _ _ _ _ sub p => p.start :: selPositions sub
    | .inline _ _ sub p => p.start :: selPositions sub
    | .spread _ _ p => [p.start]
end

/-- every selection node of the document is linked -/
def fullLinks (d : QueryDoc) : Links :=
  { vlinks := [], sels := d.ops.flatMap (fun op => selPositions op.sel) ++ d.frags.flatMap (fun f => selPositions f.sel) }

mutual
  theorem inSels_positions : ∀ (sels : Selections) (y : Selection), InSels sels (.sel y) → (selPos y).start ∈ selPositions sels
    | .nil, _, h => by cases h
    | .cons x rest, y, h => by
      simp only [selPositions, List.mem_append]
      cases h with
      | head _ _ _ hx => exact Or.inl (inSel_positions x y hx)
      | tail _ _ _ hx => exact Or.inr (inSels_positions rest y hx)
  theorem inSel_positions : ∀ (x y : Selection), InSel x (.sel y) → (selPos y).start ∈ selPositionsSel x
    | .field al nm args dirs sub p, y, h => by
      simp only [selPositionsSel, List.mem_cons]
      cases h with
      | self => exact Or.inl rfl
      | fieldSub _ _ _ _ _ _ _ hs => exact Or.inr (inSels_positions sub y hs)
    | .inline tc dirs sub p, y, h => by
      simp only [selPositionsSel, List.mem_cons]
      cases h with
      | self => exact Or.inl rfl
      | inlineSub _ _ _ _ _ hs => exact Or.inr (inSels_positions sub y hs)
    | .spread nm dirs p, y, h => by
      cases h with
      | self => simp [selPositionsSel, selPos]
end

theorem fullLinks_linked {d : QueryDoc} {y : Selection} (h : InDocSel d (.sel y)) :
    (fullLinks d).linked (selPos y).start = true := by
  simp only [Links.linked, fullLinks, List.contains_iff_mem, List.mem_append, List.mem_flatMap]
  rcases h with ⟨op, hop, hi⟩ | ⟨f, hf, hi⟩
  · exact Or.inl ⟨op, hop, inSels_positions _ _ hi⟩
  · exact Or.inr ⟨f, hf, inSels_positions _ _ hi⟩

theorem fullLinks_linkedAll {d : QueryDoc} {sels : Selections} (h : ∀ y, InSels sels (.sel y) → InDocSel d (.sel y)) :
    LinkedAll (fullLinks d) d sels :=
  ⟨fun y hy => fullLinks_linked (h y hy),
   fun _ g _ hg _ hy => fullLinks_linked (Or.inr ⟨g, fragForName_mem hg, hy⟩)⟩

/-- the nodes of a selection set of `Spec.docSets` are nodes of the document -/
theorem docSets_inDoc {s : Schema} {d : QueryDoc} {t : Spec.TSet} (ht : t ∈ Spec.docSets s d) :
    ∀ y, InSels t.sels (.sel y) → InDocSel d (.sel y) := by
  intro y hy
  simp only [Spec.docSets, List.mem_append, List.mem_map, List.mem_filterMap] at ht
  rcases ht with (⟨op, hop, rfl⟩ | ⟨f, hf, rfl⟩) | ⟨x, hx, hsome⟩
  · exact Or.inl ⟨op, hop, hy⟩
  · exact Or.inr ⟨f, hf, hy⟩
  · have hin := docSels_mem_inDocSel s d x hx
    obtain ⟨par, z⟩ := x
    cases z with
    | spread nm dirs pos => simp at hsome
    | inline tc dirs sub pos =>
      simp only [Option.some.injEq] at hsome
      subst hsome
      rcases hin with ⟨op, hop, hi⟩ | ⟨f, hf, hi⟩
      · exact Or.inl ⟨op, hop, inSels_trans _ _ _ hi (InSel.inlineSub _ _ _ _ _ hy)⟩
      · exact Or.inr ⟨f, hf, inSels_trans _ _ _ hi (InSel.inlineSub _ _ _ _ _ hy)⟩
    | field al nm args dirs sub pos =>
      simp only [Option.some.injEq] at hsome
      subst hsome
      rcases hin with ⟨op, hop, hi⟩ | ⟨f, hf, hi⟩
      · exact Or.inl ⟨op, hop, inSels_trans _ _ _ hi (InSel.fieldSub _ _ _ _ _ _ _ hy)⟩
      · exact Or.inr ⟨f, hf, inSels_trans _ _ _ hi (InSel.fieldSub _ _ _ _ _ _ _ hy)⟩

theorem docSets_linkedAll {s : Schema} {d : QueryDoc} {t : Spec.TSet} (ht : t ∈ Spec.docSets s d) :
    LinkedAll (fullLinks d) d t.sels := fullLinks_linkedAll (docSets_inDoc ht)

/-- the typed nodes of a selection set of `Spec.docSets` are members of `Spec.docSels` -/
theorem docSets_typed {s : Schema} {d : QueryDoc} {t : Spec.TSet} (ht : t ∈ Spec.docSets s d) :
    ∀ x ∈ Spec.typedSels s t.parent t.sels, x ∈ Spec.docSels s d := by
  intro x hx
  simp only [Spec.docSets, List.mem_append, List.mem_map, List.mem_filterMap] at ht
  rcases ht with (⟨op, hop, rfl⟩ | ⟨f, hf, rfl⟩) | ⟨z, hz, hsome⟩
  · simp only [Spec.docSels, List.mem_append, List.mem_flatMap]
    exact Or.inl ⟨op, hop, hx⟩
  · simp only [Spec.docSels, List.mem_append, List.mem_flatMap]
    exact Or.inr ⟨f, hf, hx⟩
  · obtain ⟨par, y⟩ := z
    cases y with
    | spread nm dirs pos => simp at hsome
    | inline tc dirs sub pos =>
      simp only [Option.some.injEq] at hsome
      subst hsome
      refine docSels_trans s d _ x hz ?_
      simp only [Spec.typedSel, List.mem_cons]
      exact Or.inr hx
    | field al nm args dirs sub pos =>
      simp only [Option.some.injEq] at hsome
      subst hsome
      refine docSels_trans s d _ x hz ?_
      simp only [Spec.typedSel, List.mem_cons]
      exact Or.inr hx

mutual
  theorem allFields_inSels : ∀ (sels : Selections) (x : Nat × Selections), x ∈ allFields sels →
      ∃ y, InSels sels (.sel y) ∧ (selPos y).start = x.1
    | .nil, _, h => by simp [allFields] at h
    | .cons z rest, x, h => by
      simp only [allFields, List.mem_append] at h
      rcases h with h | h
      · obtain ⟨y, hy, e⟩ := allFieldsSel_inSel z x h
        exact ⟨y, InSels.head _ _ _ hy, e⟩
      · obtain ⟨y, hy, e⟩ := allFields_inSels rest x h
        exact ⟨y, InSels.tail _ _ _ hy, e⟩
  theorem allFieldsSel_inSel : ∀ (z : Selection) (x : Nat × Selections), x ∈ allFieldsSel z →
      ∃ y, InSel z (.sel y) ∧ (selPos y).start = x.1
    | .field al nm args dirs sub p, x, h => by
      simp only [allFieldsSel, List.mem_cons] at h
      rcases h with rfl | h
      · exact ⟨_, InSel.self _, rfl⟩
      · obtain ⟨y, hy, e⟩ := allFields_inSels sub x h
        exact ⟨y, InSel.fieldSub _ _ _ _ _ _ _ hy, e⟩
    | .inline tc dirs sub p, x, h => by
      simp only [allFieldsSel] at h
      obtain ⟨y, hy, e⟩ := allFields_inSels sub x h
      exact ⟨y, InSel.inlineSub _ _ _ _ _ hy, e⟩
    | .spread _ _ _, _, h => by simp [allFieldsSel] at h
end

/-- the collected fields of a selection set of `Spec.docSets`, under the full link table -/
theorem DocF.ofSet {s : Schema} {d : QueryDoc} {t : Spec.TSet} (ht : t ∈ Spec.docSets s d) {a : FInfo}
    (ha : a ∈ collectFields s.view (fullLinks d) t.parent t.sels) : DocF s d (fullLinks d) a := by
  have hs := collectFields_shape s.view (fullLinks d) _ _ a ha
  have hin := collectFields_inSels s.view (fullLinks d) _ _ a ha
  refine ⟨docSets_typed ht _ (collectFields_typed s (fullLinks d) _ _ a ha), hs.1, ?_, ?_⟩
  · rw [hs.2]
    exact fullLinks_linked (docSets_inDoc ht _ hin)
  · intro x hx
    obtain ⟨y, hy, e⟩ := allFields_inSels _ x hx
    rw [← e]
    exact fullLinks_linked (docSets_inDoc ht _ (inSels_trans _ _ _ hin (InSel.fieldSub _ _ _ _ _ _ _ hy)))

end Gql.Validate
