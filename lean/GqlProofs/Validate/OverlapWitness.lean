import GqlProofs.Validate.Witness
/-
  Concrete documents for kernel-checked runs of the OverlappingFieldsCanBeMerged model: what the
  parser / loader produce for the quoted texts (minus the prelude; positions only need distinct
  `start` offsets and the line/column the error location prints).
-/
namespace Gql.Validate.OverlapWitness
open Gql Gql.Validate Gql.Validate.Witness

def fld (n ty : String) : FieldDef :=
  { desc := [], name := str n, args := [], default := none, type := tNamed ty, dirs := [], pos := Pos.zero }

def nodeFields : List FieldDef := [fld "id" "ID", fld "u" "Node", fld "x" "Int"]

def composite (k : DefKind) (n : String) : Definition :=
  { kind := k, desc := [], name := str n, dirs := [], interfaces := [], fields := nodeFields, types := [],
    enumValues := [], pos := Pos.zero, builtIn := false }

/-- `type Query { id: ID u: Node x: Int }  interface Node { id: ID u: Node x: Int }` -/
def schema : Schema :=
  { Schema.empty with
    query := some (str "Query"),
    types := [(str "ID", scalar "ID"), (str "Int", scalar "Int"), (str "Node", composite .interface "Node"),
              (str "Query", composite .object "Query")] }

def leaf (al n : String) (o : Nat) : Selection := .field (str al) (str n) [] [] .nil (at' o)

/-- `{ u { ...F } } fragment F on Node { u { id ...F } ...F }` — a fragment that reaches itself both
    directly and through a field (the shape on which the unrepaired rule overflowed the stack) -/
def docCycle : QueryDoc :=
  { ops := [{ op := str "query", name := [], vars := [], dirs := [],
              sel := .cons (.field (str "u") (str "u") [] [] (.cons (.spread (str "F") [] (at' 6)) .nil) (at' 2)) .nil,
              pos := at' 0 }],
    frags := [{ name := str "F", vars := [], typeCond := str "Node", dirs := [],
                sel := .cons (.field (str "u") (str "u") [] []
                          (.cons (leaf "id" "id" 38) (.cons (.spread (str "F") [] (at' 41)) .nil)) (at' 34))
                        (.cons (.spread (str "F") [] (at' 48)) .nil),
                pos := at' 15 }] }

/-- `{ a: id a: u { id } }` -/
def docDifferent : QueryDoc :=
  { ops := [{ op := str "query", name := [], vars := [], dirs := [],
              sel := .cons (leaf "a" "id" 2) (.cons (.field (str "a") (str "u") [] [] (.cons (leaf "id" "id" 15) .nil) (at' 8)) .nil),
              pos := at' 0 }],
    frags := [] }

/-- `{ u { a: id } u { a: x } }` — a nested conflict -/
def docNested : QueryDoc :=
  { ops := [{ op := str "query", name := [], vars := [], dirs := [],
              sel := .cons (.field (str "u") (str "u") [] [] (.cons (leaf "a" "id" 6) .nil) (at' 2))
                      (.cons (.field (str "u") (str "u") [] [] (.cons (leaf "a" "x" 18) .nil) (at' 14)) .nil),
              pos := at' 0 }],
    frags := [] }

end Gql.Validate.OverlapWitness
