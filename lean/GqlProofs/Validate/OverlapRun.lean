import GqlProofs.Validate.OverlapLinks
import GqlProofs.Validate.OverlapSafe
import GqlProofs.ValSpec.UnusedFragments
/-
  OverlappingFieldsCanBeMerged, the run: `validate [rule]` reports nothing iff every observer call
  does (`validate_overlap_nil`); the observer calls are about the selection sets of
  `Spec.docSets` — every call is about one of them (`eventSet_sound`) and every one of them has a
  call (`eventSet_complete`, for documents all of whose fragments are reachable from an
  operation).
-/
namespace Gql.Validate
open Gql Gql.Validate.Rules

/- ---------- the run of the single rule ---------- -/

/-- every observer call of the run returns without a conflict -/
def SilentRun (s : SV) (d : QueryDoc) : OSt → List Event → Prop
  | _, [] => True
  | st, e :: es => ∃ st', overlappingFieldsStep s d st e = .ok st' [] ∧ SilentRun s d st' es

theorem runAll_overlap_nil (s : SV) (d : QueryDoc) : ∀ (evs : List Event) (st : OSt),
    runAll s d [({ rule := overlappingFieldsCanBeMerged, st := st } : Running)] evs = .ok [] ↔ SilentRun s d st evs
  | [], st => by simp [runAll, SilentRun]
  | e :: es, st => by
    rw [runAll_single_cons, overlap_running_step]
    simp only [SilentRun]
    cases hst : overlappingFieldsStep s d st e with
    | panic m => simp
    | ok st' errs =>
      simp only
      have ih := runAll_overlap_nil s d es st'
      cases hr : runAll s d [({ rule := overlappingFieldsCanBeMerged, st := st' } : Running)] es with
      | error m =>
        rw [hr] at ih
        simp only [reduceCtorEq, false_iff] at ih ⊢
        rintro ⟨st'', h1, h2⟩
        injection h1 with h1 _
        subst h1
        exact ih h2
      | ok errs' =>
        rw [hr] at ih
        simp only [Except.ok.injEq, List.append_eq_nil_iff, List.map_eq_nil_iff] at ih ⊢
        constructor
        · rintro ⟨h1, h2⟩
          subst h1
          exact ⟨st', rfl, ih.1 h2⟩
        · rintro ⟨st'', h1, h2⟩
          injection h1 with h1 h1'
          subst h1
          exact ⟨h1', ih.2 h2⟩

theorem validate_overlap_nil (s : Schema) (d : QueryDoc) (evs : List Event) (hw : walkDoc s.view d = some evs) :
    validate [overlappingFieldsCanBeMerged] s d = .ok [] ↔ SilentRun s.view d OSt.init evs := by
  unfold validate
  rw [validateV_ok_iff]
  constructor
  · rintro ⟨evs', hw', hr⟩
    rw [hw] at hw'
    cases hw'
    exact (runAll_overlap_nil s.view d evs OSt.init).1 hr
  · intro h
    exact ⟨evs, hw, (runAll_overlap_nil s.view d evs OSt.init).2 h⟩

/- ---------- the selection set of an observer call ---------- -/

/-- the selection set (with the type in scope) an observer of the rule is called for -/
def eventSet (s : SV) (e : Event) : Option (Option Definition × Selections) :=
  match e.p with
  | .operation op _ => some ((opRoot s op.op).1, op.sel)
  | .field f _ dfn => if e.cur.isNone then none else some (dfn.bind fun fd => s.type? fd.type.name, f.sel)
  | .inlineFragment f parent => some (inlineNext s parent f.typeCond, f.sel)
  | .fragment f dfn => some (dfn, f.sel)
  | _ => none

theorem overlappingFieldsStep_eq (s : SV) (d : QueryDoc) (st : OSt) (e : Event) :
    overlappingFieldsStep s d st e =
      match eventSet s e with
      | none => .ok st []
      | some (parent, sels) =>
        match overlapRun s d e.links parent sels st with
        | none => .panic overlapOutOfFuel
        | some (st', cs) => .ok st' (cs.map Conflict.toErr) := by
  unfold overlappingFieldsStep eventSet
  cases e.p with
  | field f par dfn =>
    simp only
    by_cases hc : e.cur.isNone = true
    · simp only [hc, if_true]
    · simp only [hc, Bool.false_eq_true, if_false]
      rfl
  | _ => rfl

/-- the selection set of an event: everything reachable from it is linked -/
theorem eventSet_linked (s : SV) (d : QueryDoc) {e : Event} (hl : EvLinked d e) {p : Option Definition} {sels : Selections}
    (h : eventSet s e = some (p, sels)) : LinkedAll e.links d sels := by
  unfold eventSet at h
  unfold EvLinked at hl
  cases hp : e.p with
  | operation op u => simp only [hp] at h hl; injection h with h; injection h with _ h; subst h; exact hl
  | field f par dfn =>
    simp only [hp] at h hl
    split at h
    · cases h
    · injection h with h; injection h with _ h; subst h; exact hl
  | inlineFragment f par => simp only [hp] at h hl; injection h with h; injection h with _ h; subst h; exact hl
  | fragment f dfn => simp only [hp] at h hl; injection h with h; injection h with _ h; subst h; exact hl
  | fragmentSpread f dfn par => simp [hp] at h
  | directive dd dfn par loc => simp [hp] at h
  | directiveList ds => simp [hp] at h
  | value v ex dfn => simp [hp] at h
  | «variable» v dfn => simp [hp] at h

/- ---------- which selection sets ---------- -/

/-- shape of the `operation` and `fragment` events -/
def TopSound (s : SV) (d : QueryDoc) : Payload → Prop
  | .operation op _ => op ∈ d.ops
  | .fragment f dfn => f ∈ d.frags ∧ dfn = s.type? f.typeCond
  | _ => True

theorem topSound_sites (s : SV) (d : QueryDoc) : DocSites s d (fun _ => True) (TopSound s d) :=
  { value := fun _ _ _ => trivial, directive := fun _ _ _ => trivial, directiveList := fun _ => trivial,
    field := fun _ _ _ => trivial, inline := fun _ _ => trivial, spread := fun _ _ _ => trivial,
    frags := fun _ _ _ _ => trivial, ops := fun _ _ _ _ => trivial, varDef := fun _ => trivial,
    operation := fun _ _ h => h, fragment := fun _ h => ⟨h, rfl⟩ }

theorem docSets_op {s : Schema} {d : QueryDoc} {op : OperationDef} (h : op ∈ d.ops) :
    (⟨Spec.rootDef s op.op, op.sel⟩ : Spec.TSet) ∈ Spec.docSets s d := by
  simp only [Spec.docSets, List.mem_append, List.mem_map]
  exact Or.inl (Or.inl ⟨op, h, rfl⟩)

theorem docSets_frag {s : Schema} {d : QueryDoc} {f : FragmentDef} (h : f ∈ d.frags) :
    (⟨s.type? f.typeCond, f.sel⟩ : Spec.TSet) ∈ Spec.docSets s d := by
  simp only [Spec.docSets, List.mem_append, List.mem_map]
  exact Or.inl (Or.inr ⟨f, h, rfl⟩)

theorem docSets_field {s : Schema} {d : QueryDoc} {p : Option Definition} {al nm : Name} {args : List Argument}
    {dirs : List Directive} {sub : Selections} {pos : Pos}
    (h : (⟨p, .field al nm args dirs sub pos⟩ : Spec.TSel) ∈ Spec.docSels s d) :
    (⟨Spec.fieldType s p nm, sub⟩ : Spec.TSet) ∈ Spec.docSets s d := by
  simp only [Spec.docSets, List.mem_append, List.mem_filterMap]
  exact Or.inr ⟨_, h, rfl⟩

theorem docSets_inline {s : Schema} {d : QueryDoc} {p : Option Definition} {tc : Name}
    {dirs : List Directive} {sub : Selections} {pos : Pos}
    (h : (⟨p, .inline tc dirs sub pos⟩ : Spec.TSel) ∈ Spec.docSels s d) :
    (⟨Spec.inlineType s p tc, sub⟩ : Spec.TSet) ∈ Spec.docSets s d := by
  simp only [Spec.docSets, List.mem_append, List.mem_filterMap]
  exact Or.inr ⟨_, h, rfl⟩

section
variable (s : Schema) (d : QueryDoc) (evs : List Event) (hw : walkDoc s.view d = some evs)
  (hwp : Spec.wellParented s d = true)
include hw hwp

/-- every observer call is about a selection set of `Spec.docSets`, with its declarative type -/
theorem eventSet_sound (e : Event) (he : e ∈ evs) (p : Option Definition) (sels : Selections)
    (h : eventSet s.view e = some (p, sels)) : (⟨p, sels⟩ : Spec.TSet) ∈ Spec.docSets s d := by
  have htop := walkDoc_all (topSound_sites s.view d) evs hw e he
  have hw' := walkDoc_w s.view d evs hw e he
  have hwp' := hwp
  unfold Spec.wellParented at hwp'
  simp only [List.all_eq_true] at hwp'
  unfold eventSet at h
  cases hp : e.p with
  | operation op u =>
    rw [hp] at htop
    simp only [hp] at h
    injection h with h
    injection h with h1 h2
    subst h1 h2
    rw [opRoot_def]
    exact docSets_op htop
  | field f par dfn =>
    rw [hp] at hw'
    simp only [hp] at h
    split at h
    · cases h
    · injection h with h
      injection h with h1 h2
      subst h1 h2
      obtain ⟨h1, h2⟩ := hw'
      have hmem := (inDocW_iff s d hwp _ _).1 h1
      have := docSets_field hmem
      rw [h2]
      have e1 := wNext_eq s par f.alias f.name f.args f.dirs f.sel f.pos (hwp' _ hmem)
      unfold wNext at e1
      rw [e1]
      exact this
  | inlineFragment f par =>
    rw [hp] at hw'
    simp only [hp] at h
    injection h with h
    injection h with h1 h2
    subst h1 h2
    have hmem := (inDocW_iff s d hwp _ _).1 hw'
    rw [inlineNext_eq]
    exact docSets_inline hmem
  | fragment f dfn =>
    rw [hp] at htop
    simp only [hp] at h
    injection h with h
    injection h with h1 h2
    subst h1 h2
    rw [htop.2]
    exact docSets_frag htop.1
  | fragmentSpread f dfn par => simp [hp] at h
  | directive dd dfn par loc => simp [hp] at h
  | directiveList ds => simp [hp] at h
  | value v ex dfn => simp [hp] at h
  | «variable» v dfn => simp [hp] at h

variable (hu : Spec.fragmentNameUniqueness d = true) (hac : Acyclic d) (hused : Spec.fragmentsMustBeUsed d = true)
include hu hac hused

/-- every selection set of `Spec.docSets` has an observer call -/
theorem eventSet_complete (t : Spec.TSet) (ht : t ∈ Spec.docSets s d) :
    ∃ e ∈ evs, eventSet s.view e = some (t.parent, t.sels) := by
  have hwp' := hwp
  unfold Spec.wellParented at hwp'
  simp only [List.all_eq_true] at hwp'
  have hev := walkDoc_events s.view d evs hw
  have hnd : (d.frags.map (·.name)).Nodup := (distinct_iff_nodup _).1 hu
  simp only [Spec.docSets, List.mem_append, List.mem_map, List.mem_filterMap] at ht
  rcases ht with (⟨op, hop, rfl⟩ | ⟨f, hf, rfl⟩) | ⟨x, hx, hsome⟩
  · have : op ∈ opEvents evs := by rw [hev.1]; exact hop
    obtain ⟨e, he, u, hp⟩ := mem_opEvents.1 this
    refine ⟨e, he, ?_⟩
    simp only [eventSet, hp, opRoot_def]
  · have : f ∈ fragDefEvents evs := by rw [hev.2]; exact hf
    obtain ⟨e, he, dfn, hp⟩ := mem_fragDefEvents.1 this
    have htop := walkDoc_all (topSound_sites s.view d) evs hw e he
    rw [hp] at htop
    refine ⟨e, he, ?_⟩
    simp only [eventSet, hp, htop.2]
    rfl
  · obtain ⟨par, y⟩ := x
    cases y with
    | spread nm dirs pos => simp at hsome
    | inline tc dirs sub pos =>
      simp only [Option.some.injEq] at hsome
      subst hsome
      have h1 := (inDocW_iff s d hwp par _).2 hx
      obtain ⟨e, he, hp⟩ := walkDoc_hasW s.view d evs hw _ _ h1
      refine ⟨e, he, ?_⟩
      simp only [eventSet, hp, inlineNext_eq]
    | field al nm args dirs sub pos =>
      simp only [Option.some.injEq] at hsome
      subst hsome
      have h1 := (inDocW_iff s d hwp par _).2 hx
      -- the operation in whose scope the node lies
      have hscope : ∃ op ∈ d.ops, NodeScope s.view d (Spec.spreadsOfSels op.sel)
          (InSelsW s.view (opRoot s.view op.op).1 op.sel) par (.field al nm args dirs sub pos) := by
        rcases h1 with ⟨op, hop, hi⟩ | ⟨f, hf, hi⟩
        · exact ⟨op, hop, Or.inl hi⟩
        · have hc : ∀ f ∈ d.frags, ¬ Reach d (Spec.spreadsOfSels f.sel) f.name := by
            intro g hg hr
            apply hac g.name
            rw [fragSpreads_of_forName (fragForName_of_nodup hnd hg)]
            exact hr
          have hus : ∀ f ∈ d.frags, f.name ∈ Spec.allSpreadNames d := by
            intro g hg
            unfold Spec.fragmentsMustBeUsed at hused
            simp only [List.all_eq_true] at hused
            simpa using hused g hg
          obtain ⟨op, hop, hr⟩ := used_reachable d hnd hc hus (unvisited d []) [] f hf (Nat.le_refl _)
            (fun v hv => by cases hv)
          exact ⟨op, hop, Or.inr ⟨f.name, f, hr, fragForName_of_nodup hnd hf, hi⟩⟩
      obtain ⟨op, hop, hns⟩ := hscope
      obtain ⟨e, he, hcur, hp⟩ := ((walkDoc_scope_complete s.view d evs hw op hop).nodes _ _ hns).1
      refine ⟨e, he, ?_⟩
      have e1 := wNext_eq s par al nm args dirs sub pos (hwp' _ hx)
      unfold wNext at e1
      simp only [eventSet, hp, hcur, Option.isNone_some, Bool.false_eq_true, if_false, e1]

end

end Gql.Validate
