import GqlProofs.Validate.OverlapSpecFalse
import GqlProofs.Validate.OverlapMemo
/-
  OverlappingFieldsCanBeMerged: why what the rule skips is harmless.  If NO selection set of the
  document has a derivable conflict (`NoTop`), then no two distinct fields reachable from one
  selection set conflict (`core`), and a conflict between a field reachable from the sub-selection
  of `x` and one reachable from the sub-selection of `y` is a derivable `sub` judgment for `x`, `y`
  (`sub_of_cross`) — although two spreads of the same name are never compared, a fragment's fields
  are compared among themselves only by the observer of that fragment, and `check` stops at a
  spread with the name of the other side.
-/
namespace Gql.Validate
open Gql Gql.Validate.Rules

/-- no selection set of the document has a derivable conflict -/
def NoTop (s : Schema) (d : QueryDoc) : Prop :=
  ∀ t ∈ Spec.docSets s d, ¬ TopHolds (envOf s d (fullLinks d)) t.parent t.sels

/-- a selection set of the document is identified by its first selection node -/
def IdsInj (s : Schema) (d : QueryDoc) : Prop :=
  ∀ t ∈ Spec.docSets s d, ∀ t' ∈ Spec.docSets s d, selId t.sels = selId t'.sels → t.sels ≠ .nil → t = t'

/-- a path of spreads, from the root -/
inductive SPath (d : QueryDoc) : SpreadNode → Name → Prop
  | here {sp : SpreadNode} : SPath d sp sp.name
  | next {sp sp' : SpreadNode} {F : FragmentDef} {n : Name} :
      fragForName d sp.name = some F → sp' ∈ collectSpreads F.sel → SPath d sp' n → SPath d sp n

theorem SPath.snoc {d : QueryDoc} {sp : SpreadNode} {m : Name} (h : SPath d sp m) {F : FragmentDef} {sp' : SpreadNode}
    (hF : fragForName d m = some F) (hsp' : sp' ∈ collectSpreads F.sel) : SPath d sp sp'.name := by
  induction h with
  | here => exact .next hF hsp' .here
  | next hF0 hx _ ih => exact .next hF0 hx (ih hF)

theorem spath_of_sreach {d : QueryDoc} {sps : List SpreadNode} {n : Name} (h : SReachL d sps n) :
    ∃ sp ∈ sps, SPath d sp n := by
  induction h with
  | base hs => exact ⟨_, hs, .here⟩
  | step _ hF hsp ih =>
    obtain ⟨sp0, h0, hp⟩ := ih
    exact ⟨sp0, h0, hp.snoc hF hsp⟩

theorem sreach_of_spath {d : QueryDoc} {sp : SpreadNode} {n : Name} (h : SPath d sp n) : SReachL d [sp] n := by
  induction h with
  | here => exact .base (List.mem_singleton.2 rfl)
  | next hF hsp' _ ih => exact ih.lift hF hsp'

/-- a path that does not end at its root continues below the root's fragment -/
theorem SPath.beneath {d : QueryDoc} {sp : SpreadNode} {n : Name} (h : SPath d sp n) (hne : n ≠ sp.name) :
    ∃ F, fragForName d sp.name = some F ∧ SReachL d (collectSpreads F.sel) n := by
  cases h with
  | here => exact absurd rfl hne
  | next hF hsp' hp => exact ⟨_, hF, (sreach_of_spath hp).single hsp'⟩

/-- the rank along a path -/
theorem SPath.reach {d : QueryDoc} {sp : SpreadNode} {n : Name} (h : SPath d sp n) :
    n = sp.name ∨ Reach d (Spec.fragSpreads d sp.name) n := by
  induction h with
  | here => exact Or.inl rfl
  | @next sp sp' F n hF hsp' _ ih =>
    right
    have hb : Reach d (Spec.fragSpreads d sp.name) sp'.name := by
      rw [fragSpreads_of_forName hF]
      exact Reach.base (collectSpreads_names _ _ hsp')
    rcases ih with rfl | ih
    · exact hb
    · exact Reach.trans hb ih

theorem rkN_frag_le {d : QueryDoc} {a n : Name} (h : n = a ∨ Reach d (Spec.fragSpreads d a) n) :
    rkN d (Spec.fragSpreads d n) ≤ rkN d (Spec.fragSpreads d a) := by
  rcases h with rfl | h
  · exact Nat.le_refl _
  · exact rkN_mono (fun x hx => Reach.trans h hx)

section
variable {s : Schema} {d : QueryDoc} (S : SemHyps s d) (hids : IdsInj s d) (NT : NoTop s d)
include S hids NT

omit hids in
/-- two distinct own fields of a selection set: the rule compares them -/
theorem own_pair_false {t : Spec.TSet} (ht : t ∈ Spec.docSets s d) {u v : FInfo}
    (hu : u ∈ collectFields s.view (fullLinks d) t.parent t.sels) (hv : v ∈ collectFields s.view (fullLinks d) t.parent t.sels)
    (hne : u ≠ v) (hrn : rnOf u = rnOf v) (hh : Holds (envOf s d (fullLinks d)) (.conf false u v)) : False := by
  rcases sublist_pair_of_mem hne hu hv with h | h
  · exact NT t ht (Or.inl ⟨u, v, h, hrn, hh⟩)
  · exact NT t ht (Or.inl ⟨v, u, h, hrn.symm, holds_swap S.H S.sym hh ⟨DocF.ofSet ht hu, DocF.ofSet ht hv⟩⟩)

omit NT in
/-- a selection set is not the selection set of a fragment it reaches -/
theorem selId_ne_reach {t : Spec.TSet} (ht : t ∈ Spec.docSets s d) (hne : t.sels ≠ .nil) {n : Name} {F : FragmentDef}
    (hr : Reach d (Spec.spreadsOfSels t.sels) n) (hF : fragForName d n = some F) : selId t.sels ≠ selId F.sel := by
  intro e
  have := hids t ht ⟨s.type? F.typeCond, F.sel⟩ (docSets_frag (fragForName_mem hF)) e hne
  have hs : t.sels = F.sel := by rw [this]
  rw [hs] at hr
  apply S.acyclic n
  rw [fragSpreads_of_forName hF]
  exact hr

omit hids NT in
/-- a conflict between an own field and a field of a fragment at the end of a path is a `chain` judgment -/
theorem chain_of_path {ex : Bool} {p : Option Definition} {sels : Selections} {a g : FInfo} {G : FragmentDef}
    (ha : a ∈ collectFields s.view (fullLinks d) p sels) (hg : g ∈ fragFieldsOf s.view (fullLinks d) G)
    (hrn : rnOf a = rnOf g) (hh : Holds (envOf s d (fullLinks d)) (.conf ex a g)) :
    ∀ {sp : SpreadNode} {n : Name}, SPath d sp n → fragForName d n = some G → DSpread d sp →
      (∀ m F, (m = sp.name ∨ Reach d (Spec.fragSpreads d sp.name) m) → fragForName d m = some F → selId sels ≠ selId F.sel) →
      Holds (envOf s d (fullLinks d)) (.chain ex p sels sp) := by
  intro sp n hp
  induction hp with
  | @here sp =>
    intro hG hsp hside
    have hdef : (envOf s d (fullLinks d)).l.spreadDef (envOf s d (fullLinks d)).d sp.name sp.pos = some G := by
      show (fullLinks d).spreadDef d sp.name sp.pos = some G
      rw [spreadDef_full hsp]; exact hG
    exact .chainHere hdef (hside _ G (Or.inl rfl) hG) ha hg hrn hh
  | @next sp sp' F n hF hsp' _ ih =>
    intro hG hsp hside
    have hdef : (envOf s d (fullLinks d)).l.spreadDef (envOf s d (fullLinks d)).d sp.name sp.pos = some F := by
      show (fullLinks d).spreadDef d sp.name sp.pos = some F
      rw [spreadDef_full hsp]; exact hF
    have hb : Reach d (Spec.fragSpreads d sp.name) sp'.name := by
      rw [fragSpreads_of_forName hF]
      exact Reach.base (collectSpreads_names _ _ hsp')
    have hnm : sp'.name ≠ sp.name := by
      intro e
      rw [e] at hb
      exact S.acyclic _ hb
    refine .chainNext hdef (hside _ F (Or.inl rfl) hF) hsp' hnm
      (ih hG (frag_spread (fragForName_mem hF) hsp') (fun m F' hm hF' => hside m F' ?_ hF'))
    rcases hm with rfl | hm
    · exact Or.inr hb
    · exact Or.inr (Reach.trans hb hm)

end


theorem SPath.root_defined {d : QueryDoc} {sp : SpreadNode} {n : Name} (h : SPath d sp n) {F : FragmentDef}
    (hF : fragForName d n = some F) : ∃ F', fragForName d sp.name = some F' := by
  cases h with
  | here => exact ⟨F, hF⟩
  | next hF' => exact ⟨_, hF'⟩

/-- a field at the end of a path is reachable from the selection set of the root's fragment -/
theorem rfld_of_path {s : Schema} {d : QueryDoc} {a : SpreadNode} {n : Name} (h : SPath d a n) {F A : FragmentDef}
    (hF : fragForName d n = some F) {u : FInfo} (hu : u ∈ fragFieldsOf s.view (fullLinks d) F) {m : Name} (hm : a.name = m)
    (hA : fragForName d m = some A) : RFld s.view (fullLinks d) d (s.type? A.typeCond) A.sel u := by
  subst hm
  by_cases hn : n = a.name
  · subst hn
    rw [hF] at hA
    injection hA with hA
    subst hA
    exact Or.inl hu
  · obtain ⟨F', hF', hr⟩ := h.beneath hn
    rw [hF'] at hA
    injection hA with hA
    subst hA
    exact Or.inr ⟨n, F, hr, hF, hu⟩

section
variable {s : Schema} {d : QueryDoc} (S : SemHyps s d)
include S

/-- no two distinct reachable fields of a fragment of rank below `ρ` conflict -/
def CoreBelow (s : Schema) (d : QueryDoc) (ρ : Nat) : Prop :=
  ∀ M ∈ d.frags, rkS d M.sel < ρ → ∀ u v, RFld s.view (fullLinks d) d (s.type? M.typeCond) M.sel u →
    RFld s.view (fullLinks d) d (s.type? M.typeCond) M.sel v → u ≠ v → rnOf u = rnOf v →
    Holds (envOf s d (fullLinks d)) (.conf false u v) → False

/-- a conflict between fields of two different fragments at the ends of two paths whose roots have
    different names is a `check` judgment for the roots — unless a fragment below is not clean -/
theorem checkPath {ex : Bool} {ρ : Nat} (hlow : CoreBelow s d ρ) {u v : FInfo} {F1 F2 : FragmentDef} {n1 n2 : Name}
    (hu : u ∈ fragFieldsOf s.view (fullLinks d) F1) (hv : v ∈ fragFieldsOf s.view (fullLinks d) F2)
    (hF1 : fragForName d n1 = some F1) (hF2 : fragForName d n2 = some F2) (hn : n1 ≠ n2) (hne : u ≠ v)
    (hrn : rnOf u = rnOf v) (hh : Holds (envOf s d (fullLinks d)) (.conf ex u v)) :
    ∀ {b : SpreadNode}, SPath d b n2 → DSpread d b → rkSp d b < ρ → ∀ {a : SpreadNode}, SPath d a n1 → DSpread d a →
      rkSp d a < ρ → a.name ≠ b.name → Holds (envOf s d (fullLinks d)) (.check ex a b) := by
  have hdef : ∀ {sp : SpreadNode} {F : FragmentDef}, DSpread d sp → fragForName d sp.name = some F →
      (envOf s d (fullLinks d)).l.spreadDef (envOf s d (fullLinks d)).d sp.name sp.pos = some F := by
    intro sp F hsp hF
    show (fullLinks d).spreadDef d sp.name sp.pos = some F
    rw [spreadDef_full hsp]; exact hF
  intro b hb
  induction hb with
  | @here b =>
    intro hDb hrb a ha
    induction ha with
    | @here a =>
      intro hDa _ hnm
      exact .checkHere hnm (hdef hDa hF1) (hdef hDb hF2) hu hv hrn hh
    | @next a a' A n1' hA ha' hp' ih =>
      intro hDa hra hnm
      by_cases he : a'.name = b.name
      · exfalso
        have hru : RFld s.view (fullLinks d) d (s.type? F2.typeCond) F2.sel u := rfld_of_path hp' hF1 hu he hF2
        have hrk : rkS d F2.sel < ρ := by rw [← rkSp_eq hF2]; exact hrb
        exact hlow F2 (fragForName_mem hF2) hrk u v hru (Or.inl hv) hne hrn (holds_unflag hh)
      · obtain ⟨A', hA'⟩ := hp'.root_defined hF1
        have hlt := rkSp_lt S.acyclic ha' hA'
        have hra' : rkSp d a = rkS d A.sel := rkSp_eq hA
        exact .checkLeft hnm (hdef hDa hA) (hdef hDb hF2) ha'
          (ih hF1 hn (frag_spread (fragForName_mem hA) ha') (by omega) he)
  | @next b b' B n2' hB hb' hp' ih =>
    intro hDb hrb a ha hDa hra hnm
    obtain ⟨A, hA⟩ := ha.root_defined hF1
    by_cases he : a.name = b'.name
    · exfalso
      have hru : RFld s.view (fullLinks d) d (s.type? A.typeCond) A.sel u := rfld_of_path ha hF1 hu rfl hA
      have hrv : RFld s.view (fullLinks d) d (s.type? A.typeCond) A.sel v := rfld_of_path hp' hF2 hv he.symm hA
      have hrk : rkS d A.sel < ρ := by rw [← rkSp_eq hA]; exact hra
      exact hlow A (fragForName_mem hA) hrk u v hru hrv hne hrn (holds_unflag hh)
    · obtain ⟨B', hB'⟩ := hp'.root_defined hF2
      have hlt := rkSp_lt S.acyclic hb' hB'
      have hrb' : rkSp d b = rkS d B.sel := rkSp_eq hB
      exact .checkRight hnm (hdef hDa hA) (hdef hDb hB) hb'
        (ih hF2 hn (frag_spread (fragForName_mem hB) hb') (by omega) ha hDa hra he)

variable (hids : IdsInj s d) (NT : NoTop s d)
include hids NT

/-- **no two distinct fields reachable from one selection set conflict**, if no selection set of the
    document has a derivable conflict -/
theorem core : ∀ (ρ : Nat) (t : Spec.TSet), t ∈ Spec.docSets s d → rkS d t.sels < ρ → ∀ u v,
    RFld s.view (fullLinks d) d t.parent t.sels u → RFld s.view (fullLinks d) d t.parent t.sels v → u ≠ v →
    rnOf u = rnOf v → Holds (envOf s d (fullLinks d)) (.conf false u v) → False
  | 0, _, _, h, _, _, _, _, _, _, _ => by omega
  | ρ + 1, t, ht, hr, u, v, hu, hv, hne, hrn, hh => by
    have hlow : CoreBelow s d (rkS d t.sels) := fun M hM hrM u' v' hu' hv' =>
      core ρ ⟨s.type? M.typeCond, M.sel⟩ (docSets_frag hM) (by simp only; omega) u' v' hu' hv'
    have hnil : t.sels ≠ .nil := rfld_ne_nil hu
    have hside : ∀ {sp : SpreadNode}, sp ∈ collectSpreads t.sels → ∀ m F,
        (m = sp.name ∨ Reach d (Spec.fragSpreads d sp.name) m) → fragForName d m = some F → selId t.sels ≠ selId F.sel := by
      intro sp hsp m F hm hF
      refine selId_ne_reach S hids ht hnil ?_ hF
      have hb : Reach d (Spec.spreadsOfSels t.sels) sp.name := Reach.base (collectSpreads_names _ _ hsp)
      rcases hm with rfl | hm
      · exact hb
      · exact Reach.trans hb hm
    rcases hu with hu | ⟨n1, F1, hr1, hF1, hu⟩
    · rcases hv with hv | ⟨n2, F2, hr2, hF2, hv⟩
      · exact own_pair_false S NT ht hu hv hne hrn hh
      · obtain ⟨sp, hsp, hp⟩ := spath_of_sreach hr2
        exact NT t ht (Or.inr (Or.inl ⟨sp, hsp,
          chain_of_path S hu hv hrn hh hp hF2 (docSet_spread ht hsp) (hside hsp)⟩))
    · have du : DocF s d (fullLinks d) u := rfld_docF ht (Or.inr ⟨n1, F1, hr1, hF1, hu⟩)
      rcases hv with hv | ⟨n2, F2, hr2, hF2, hv⟩
      · obtain ⟨sp, hsp, hp⟩ := spath_of_sreach hr1
        have hh' := holds_swap S.H S.sym hh ⟨du, DocF.ofSet ht hv⟩
        exact NT t ht (Or.inr (Or.inl ⟨sp, hsp,
          chain_of_path S hv hu hrn.symm hh' hp hF1 (docSet_spread ht hsp) (hside hsp)⟩))
      · by_cases hn : n1 = n2
        · subst hn
          rw [hF1] at hF2
          injection hF2 with hF2
          subst hF2
          exact own_pair_false S NT (t := ⟨s.type? F1.typeCond, F1.sel⟩) (docSets_frag (fragForName_mem hF1)) hu hv hne hrn hh
        · obtain ⟨sp1, hsp1, hp1⟩ := spath_of_sreach hr1
          obtain ⟨sp2, hsp2, hp2⟩ := spath_of_sreach hr2
          obtain ⟨M1, hM1⟩ := hp1.root_defined hF1
          obtain ⟨M2, hM2⟩ := hp2.root_defined hF2
          have hk1 := rkSp_lt S.acyclic hsp1 hM1
          have hk2 := rkSp_lt S.acyclic hsp2 hM2
          by_cases he : sp1.name = sp2.name
          · have hru : RFld s.view (fullLinks d) d (s.type? M1.typeCond) M1.sel u := rfld_of_path hp1 hF1 hu rfl hM1
            have hrv : RFld s.view (fullLinks d) d (s.type? M1.typeCond) M1.sel v := rfld_of_path hp2 hF2 hv he.symm hM1
            have hrk : rkS d M1.sel < rkS d t.sels := by rw [← rkSp_eq hM1]; omega
            exact hlow M1 (fragForName_mem hM1) hrk u v hru hrv hne hrn hh
          · have hc := checkPath S hlow hu hv hF1 hF2 hn hne hrn hh hp2 (docSet_spread ht hsp2) (by omega)
              hp1 (docSet_spread ht hsp1) (by omega) he
            have hsne : sp1 ≠ sp2 := fun e => he (by rw [e])
            rcases sublist_pair_of_mem hsne hsp1 hsp2 with h | h
            · exact NT t ht (Or.inr (Or.inr ⟨sp1, sp2, h, hc⟩))
            · exact NT t ht (Or.inr (Or.inr ⟨sp2, sp1, h, holds_swap S.H S.sym hc trivial⟩))

/-- `core` for every selection set of the document -/
theorem core_all {t : Spec.TSet} (ht : t ∈ Spec.docSets s d) {u v : FInfo}
    (hu : RFld s.view (fullLinks d) d t.parent t.sels u) (hv : RFld s.view (fullLinks d) d t.parent t.sels v) (hne : u ≠ v)
    (hrn : rnOf u = rnOf v) : ¬ Holds (envOf s d (fullLinks d)) (.conf false u v) :=
  fun hh => core S hids NT (rkS d t.sels + 1) t ht (by omega) u v hu hv hne hrn hh

end

end Gql.Validate
