import GqlModel.Validate.Walk
/-
  Termination of the walker (C02): the jump levels of `walkDoc` never run out.

  Measure: `unvisited d v` = number of fragment definitions of the document whose name is not in
  the visited set `v`.  The walker only jumps into a fragment whose name is not yet visited and
  marks it first, so along a chain of nested jumps the measure strictly decreases; along a
  selection set the visited set only grows.
-/
namespace Gql.Validate
open Gql

def unvisited (d : QueryDoc) (v : List Name) : Nat := (d.frags.filter fun f => !v.contains f.name).length

theorem filter_length_le_of_imp {α : Type} (p q : α → Bool) (h : ∀ x, q x = true → p x = true) :
    ∀ l : List α, (l.filter q).length ≤ (l.filter p).length
  | [] => Nat.le_refl _
  | x :: xs => by
    have ih := filter_length_le_of_imp p q h xs
    simp only [List.filter_cons]
    by_cases hq : q x = true
    · simp [hq, h x hq]; exact ih
    · by_cases hp : p x = true
      · simp [hq, hp]; omega
      · simp [hq, hp]; exact ih

theorem filter_length_lt_of_imp {α : Type} (p q : α → Bool) (h : ∀ x, q x = true → p x = true) (x0 : α)
    (hp0 : p x0 = true) (hq0 : q x0 = false) :
    ∀ l : List α, x0 ∈ l → (l.filter q).length + 1 ≤ (l.filter p).length
  | [], hm => by cases hm
  | x :: xs, hm => by
    simp only [List.filter_cons]
    rcases List.mem_cons.1 hm with rfl | hm'
    · have := filter_length_le_of_imp p q h xs
      simp [hp0, hq0]; omega
    · have ih := filter_length_lt_of_imp p q h x0 hp0 hq0 xs hm'
      by_cases hq : q x = true
      · simp [hq, h x hq]; exact ih
      · by_cases hp : p x = true
        · simp [hq, hp]; omega
        · simp [hq, hp]; exact ih

theorem unvisited_mono (d : QueryDoc) {v v' : List Name} (h : v ⊆ v') : unvisited d v' ≤ unvisited d v := by
  unfold unvisited
  apply filter_length_le_of_imp
  intro f hf
  simp only [Bool.not_eq_true', List.contains_eq_mem, decide_eq_false_iff_not] at *
  exact fun hm => hf (h hm)

theorem unvisited_lt (d : QueryDoc) (v : List Name) (f : FragmentDef) (hf : f ∈ d.frags)
    (hn : v.contains f.name = false) : unvisited d (f.name :: v) + 1 ≤ unvisited d v := by
  unfold unvisited
  apply filter_length_lt_of_imp _ _ _ f _ _ _ hf
  · intro x hx
    simp only [Bool.not_eq_true', List.contains_eq_mem, decide_eq_false_iff_not, List.mem_cons, not_or] at *
    exact hx.2
  · simpa using hn
  · simp

theorem fragForName_mem {d : QueryDoc} {n : Name} {f : FragmentDef} (h : fragForName d n = some f) : f ∈ d.frags :=
  List.mem_of_find?_eq_some h

/- the value / argument / directive walkers do not touch `visited` -/

mutual
  theorem walkValue_visited (s : SV) (cur : Option OperationDef) (exp : Option GType) (dfn : Option Definition) :
      ∀ (v : Value) (ws : WS), (walkValue s cur exp dfn v ws).1.visited = ws.visited
    | .mk k raw ch p, ws => by
      unfold walkValue
      have h1 : ∀ ws1 : WS, (walkObjChildren s cur dfn ch ws1).1.visited = ws1.visited :=
        fun ws1 => walkObjChildren_visited s cur dfn ch ws1
      have h2 : ∀ ws1 : WS, (walkListChildren s cur exp dfn ch ws1).1.visited = ws1.visited :=
        fun ws1 => walkListChildren_visited s cur exp dfn ch ws1
      cases k <;> cases cur <;> simp [h1, h2]
  theorem walkObjChildren_visited (s : SV) (cur : Option OperationDef) (dfn : Option Definition) :
      ∀ (ch : Children) (ws : WS), (walkObjChildren s cur dfn ch ws).1.visited = ws.visited
    | .nil, ws => by simp [walkObjChildren]
    | .cons name v p rest, ws => by
      unfold walkObjChildren
      simp only
      rw [walkObjChildren_visited s cur dfn rest, walkValue_visited]
  theorem walkListChildren_visited (s : SV) (cur : Option OperationDef) (exp : Option GType) (dfn : Option Definition) :
      ∀ (ch : Children) (ws : WS), (walkListChildren s cur exp dfn ch ws).1.visited = ws.visited
    | .nil, ws => by simp [walkListChildren]
    | .cons name v p rest, ws => by
      unfold walkListChildren
      simp only
      rw [walkListChildren_visited s cur exp dfn rest, walkValue_visited]
end

theorem walkArgs_visited (s : SV) (cur : Option OperationDef) (ad : Option (List ArgDef)) :
    ∀ (as : List Argument) (ws : WS), (walkArgs s cur ad as ws).1.visited = ws.visited
  | [], ws => rfl
  | a :: rest, ws => by
    simp only [walkArgs]
    rw [walkArgs_visited s cur ad rest, walkValue_visited]

theorem walkDirectiveItems_visited (s : SV) (cur : Option OperationDef) (parent : Option Definition) (loc : Bytes) :
    ∀ (ds : List Directive) (ws : WS), (walkDirectiveItems s cur parent loc ds ws).1.visited = ws.visited
  | [], ws => rfl
  | dir :: rest, ws => by
    simp only [walkDirectiveItems]
    rw [walkDirectiveItems_visited s cur parent loc rest, walkArgs_visited]

theorem walkDirectives_visited (s : SV) (cur : Option OperationDef) (parent : Option Definition) (ds : List Directive)
    (loc : Bytes) (ws : WS) : (walkDirectives s cur parent ds loc ws).1.visited = ws.visited := by
  simp only [walkDirectives]
  exact walkDirectiveItems_visited s cur parent loc ds ws

theorem markSel_visited (ws : WS) (n : Nat) : (ws.markSel n).visited = ws.visited := rfl

/-- a jump that succeeds (and only grows `visited`) whenever strictly fewer than `n` fragments
    are unvisited -/
def JumpOK (d : QueryDoc) (n : Nat) (J : Jump) : Prop :=
  ∀ parent sels (ws : WS), unvisited d ws.visited + 1 ≤ n → ∃ r, J parent sels ws = some r ∧ ws.visited ⊆ r.1.visited

mutual
  theorem walkSelection_ok (s : SV) (d : QueryDoc) (cur : Option OperationDef) (J : Jump) (n : Nat) (hJ : JumpOK d n J) :
      ∀ (x : Selection) (parent : Option Definition) (ws : WS), unvisited d ws.visited ≤ n →
        ∃ r, walkSelection s d cur J parent x ws = some r ∧ ws.visited ⊆ r.1.visited
    | .field al nm args dirs sub p, parent, ws, h => by
      unfold walkSelection
      simp only
      generalize hdfn : (if nm == nameTypename then some typenameDef else
        match parent with
        | some pd => fieldForName pd.fields nm
        | none => none) = dfn
      have hv : (walkDirectives s cur (dfn.bind fun fd => s.type? fd.type.name) dirs locField
          (walkArgs s cur (dfn.map (·.args)) args (ws.markSel p.start)).1).1.visited = ws.visited := by
        rw [walkDirectives_visited, walkArgs_visited, markSel_visited]
      obtain ⟨r3, h3, hm3⟩ := walkSelections_ok s d cur J n hJ sub (dfn.bind fun fd => s.type? fd.type.name) _ (by rw [hv]; exact h)
      rw [h3]
      exact ⟨_, rfl, by rw [hv] at hm3; exact hm3⟩
    | .inline tc dirs sub p, parent, ws, h => by
      unfold walkSelection
      simp only
      have hv : (walkDirectives s cur (if tc != [] then s.type? tc else parent) dirs locInlineFragment
          (ws.markSel p.start)).1.visited = ws.visited := by
        rw [walkDirectives_visited, markSel_visited]
      obtain ⟨r3, h3, hm3⟩ := walkSelections_ok s d cur J n hJ sub (if tc != [] then s.type? tc else parent) _ (by rw [hv]; exact h)
      rw [h3]
      exact ⟨_, rfl, by rw [hv] at hm3; exact hm3⟩
    | .spread nm dirs p, parent, ws, h => by
      unfold walkSelection
      simp only
      have hv : ∀ nx, (walkDirectives s cur nx dirs locFragmentSpread (ws.markSel p.start)).1.visited = ws.visited := by
        intro nx
        rw [walkDirectives_visited, markSel_visited]
      cases hf : fragForName d nm with
      | none => exact ⟨_, rfl, by simp only [hv]; exact fun _ hx => hx⟩
      | some f =>
        simp only
        split
        · exact ⟨_, rfl, by simp only [hv]; exact fun _ hx => hx⟩
        · rename_i hc
          rw [hv] at hc
          have hc' : ws.visited.contains f.name = false := by simpa using hc
          have hlt := unvisited_lt d ws.visited f (fragForName_mem hf) hc'
          obtain ⟨r3, h3, hm3⟩ := hJ (Option.bind (some f) fun f => s.type? f.typeCond) f.sel
            (walkDirectives s cur (Option.bind (some f) fun f => s.type? f.typeCond) f.dirs locFragmentDefinition
              { (walkDirectives s cur (Option.bind (some f) fun f => s.type? f.typeCond) dirs locFragmentSpread
                  (ws.markSel p.start)).1 with
                visited := f.name :: (walkDirectives s cur (Option.bind (some f) fun f => s.type? f.typeCond) dirs
                  locFragmentSpread (ws.markSel p.start)).1.visited }).1
            (by simp only [walkDirectives_visited, markSel_visited]; omega)
          rw [h3]
          refine ⟨_, rfl, ?_⟩
          simp only [walkDirectives_visited, markSel_visited] at hm3
          exact fun a ha => hm3 (List.mem_cons_of_mem _ ha)
  theorem walkSelections_ok (s : SV) (d : QueryDoc) (cur : Option OperationDef) (J : Jump) (n : Nat) (hJ : JumpOK d n J) :
      ∀ (xs : Selections) (parent : Option Definition) (ws : WS), unvisited d ws.visited ≤ n →
        ∃ r, walkSelections s d cur J parent xs ws = some r ∧ ws.visited ⊆ r.1.visited
    | .nil, parent, ws, _ => ⟨(ws, []), by simp [walkSelections], fun _ hx => hx⟩
    | .cons x rest, parent, ws, h => by
      unfold walkSelections
      obtain ⟨r1, h1, hm1⟩ := walkSelection_ok s d cur J n hJ x parent ws h
      rw [h1]
      simp only
      obtain ⟨r2, h2, hm2⟩ := walkSelections_ok s d cur J n hJ rest parent r1.1
        (Nat.le_trans (unvisited_mono d hm1) h)
      rw [h2]
      exact ⟨_, rfl, fun a ha => hm2 (hm1 ha)⟩
end

theorem walkLevel_jumpOK (s : SV) (d : QueryDoc) (cur : Option OperationDef) : ∀ n, JumpOK d n (walkLevel s d cur n)
  | 0 => by intro _ _ _ h; omega
  | n + 1 => by
    intro parent sels ws h
    simp only [walkLevel]
    exact walkSelections_ok s d cur _ n (walkLevel_jumpOK s d cur n) sels parent ws (by omega)

theorem unvisited_nil (d : QueryDoc) : unvisited d [] = d.frags.length := by
  simp [unvisited]

/-- the level `walkFuel d` is enough for any selection set when nothing is visited yet -/
theorem walkLevel_fuel_ok (s : SV) (d : QueryDoc) (cur : Option OperationDef) (parent : Option Definition)
    (sels : Selections) (ws : WS) (hv : ws.visited = []) :
    ∃ r, walkLevel s d cur (walkFuel d) parent sels ws = some r := by
  obtain ⟨r, h, _⟩ := walkLevel_jumpOK s d cur (walkFuel d) parent sels ws
    (by rw [hv, unvisited_nil]; simp [walkFuel])
  exact ⟨r, h⟩

theorem walkOperation_isSome (s : SV) (d : QueryDoc) (op : OperationDef) (l : Links) :
    ∃ r, walkOperation s d (walkFuel d) op l = some r := by
  unfold walkOperation
  simp only
  obtain ⟨r, h⟩ := walkLevel_fuel_ok s d (some op) (opRoot s op.op).1 op.sel
    (walkDirectives s (some op) (opRoot s op.op).1 op.dirs (opRoot s op.op).2
      (walkVarDefsB s (some op) op.vars { visited := [], links := l, used := [] }).1).1
    (by
      rw [walkDirectives_visited]
      have : ∀ (vs : List VarDef) (ws : WS), (walkVarDefsB s (some op) vs ws).1.visited = ws.visited := by
        intro vs
        induction vs with
        | nil => intro ws; rfl
        | cons v rest ih =>
          intro ws
          simp only [walkVarDefsB]
          rw [ih, walkDirectives_visited]
          cases v.default with
          | none => rfl
          | some dv => exact walkValue_visited ..
      rw [this])
  rw [h]
  exact ⟨_, rfl⟩

theorem walkFragment_isSome (s : SV) (d : QueryDoc) (f : FragmentDef) (l : Links) :
    ∃ r, walkFragment s d (walkFuel d) f l = some r := by
  unfold walkFragment
  simp only
  obtain ⟨r, h⟩ := walkLevel_fuel_ok s d none (s.type? f.typeCond) f.sel
    (walkDirectives s none (s.type? f.typeCond) f.dirs locFragmentDefinition { visited := [], links := l, used := [] }).1
    (by rw [walkDirectives_visited])
  rw [h]
  exact ⟨_, rfl⟩

theorem walkOps_isSome (s : SV) (d : QueryDoc) : ∀ (ops : List OperationDef) (l : Links),
    ∃ r, walkOps s d (walkFuel d) ops l = some r
  | [], l => ⟨_, rfl⟩
  | op :: rest, l => by
    obtain ⟨r1, h1⟩ := walkOperation_isSome s d op l
    obtain ⟨r2, h2⟩ := walkOps_isSome s d rest r1.1
    refine ⟨(r2.1, r1.2 ++ r2.2), ?_⟩
    simp only [walkOps, h1, h2]

theorem walkFrags_isSome (s : SV) (d : QueryDoc) : ∀ (fs : List FragmentDef) (l : Links),
    ∃ r, walkFrags s d (walkFuel d) fs l = some r
  | [], l => ⟨_, rfl⟩
  | f :: rest, l => by
    obtain ⟨r1, h1⟩ := walkFragment_isSome s d f l
    obtain ⟨r2, h2⟩ := walkFrags_isSome s d rest r1.1
    refine ⟨(r2.1, r1.2 ++ r2.2), ?_⟩
    simp only [walkFrags, h1, h2]

/-- the walker never runs out of jump levels -/
theorem walkDoc_isSome (s : SV) (d : QueryDoc) : ∃ evs, walkDoc s d = some evs := by
  obtain ⟨r1, h1⟩ := walkOps_isSome s d d.ops Links.empty
  obtain ⟨r2, h2⟩ := walkFrags_isSome s d d.frags r1.1
  refine ⟨r1.2 ++ r2.2, ?_⟩
  simp only [walkDoc, h1, h2]

end Gql.Validate
