import GqlProofs.Validate.OverlapSpecTrue
import GqlProofs.Validate.OverlapRunMemo
/-
  OverlappingFieldsCanBeMerged ⇔ `Spec.fieldSelectionMerging` on documents without fragment cycles
  (`overlap_iff`).
-/
namespace Gql.Validate
open Gql Gql.Validate.Rules

section
variable {s : Schema} {d : QueryDoc} (S : SemHyps s d)
include S

/-- §5.3.2 holds if no selection set has a derivable conflict -/
theorem noTop_spec (hids : IdsInj s d) (hnest : IdsNested s d) (NT : NoTop s d) (hj : Spec.mergingJudged s d = true) :
    Spec.fieldSelectionMerging s d = true := by
  obtain ⟨k, hk⟩ : ∃ k, Spec.mergeFuel d = k + 1 := ⟨_, rfl⟩
  unfold Spec.fieldSelectionMerging
  rw [hj]
  simp only [Bool.not_true, Bool.false_or, List.all_eq_true]
  intro t ht
  rw [hk, fieldsInSetCanMerge_succ, collectSet_mirror s d (fullLinks d), allPairs_iff, List.pairwise_map]
  refine pairwise_of_sublist_pairs _ (fun u v hs => ?_)
  have hu := flatSet_sound s d (fullLinks d) _ _ (hs.subset (by simp : u ∈ [u, v]))
  have hv := flatSet_sound s d (fullLinks d) _ _ (hs.subset (by simp : v ∈ [u, v]))
  by_cases hkey : (toM u).key = (toM v).key
  · have hrn : rnOf u = rnOf v := by simpa [toM_key, rnOf] using hkey
    refine pairGood S hids hnest NT k u v (rfld_docF ht hu) (rfld_docF ht hv) ?_
    by_cases he : u = v
    · exact Or.inl he
    · exact Or.inr (core_all S hids NT ht hu hv he hrn)
  · simp [pairOK, hkey]

/-- … and conversely -/
theorem spec_noTop (hj : Spec.mergingJudged s d = true) (h : Spec.fieldSelectionMerging s d = true) : NoTop s d := by
  intro t ht hth
  obtain ⟨t', ht', hf⟩ := topHolds_specFalse S ht hth
  unfold Spec.fieldSelectionMerging at h
  rw [hj] at h
  simp only [Bool.not_true, Bool.false_or, List.all_eq_true] at h
  rw [h t' ht'] at hf
  cases hf

end

theorem defined_of_spec {d : QueryDoc} (h : Spec.fragmentSpreadTargetDefined d = true) :
    ∀ sp, DSpread d sp → ∃ F, fragForName d sp.name = some F := by
  intro sp hsp
  unfold Spec.fragmentSpreadTargetDefined at h
  simp only [List.all_eq_true] at h
  have hmem : sp.name ∈ Spec.allSpreadNames d := by
    rcases hsp with ⟨op, hop, hi⟩ | ⟨f, hf, hi⟩
    · exact mem_allSpreadNames.2 (Or.inl ⟨op, hop, (mem_spreadsOfSels_iff _ _).2 ⟨_, _, hi⟩⟩)
    · exact mem_allSpreadNames.2 (Or.inr ⟨f, hf, (mem_spreadsOfSels_iff _ _).2 ⟨_, _, hi⟩⟩)
  have := h _ hmem
  rw [fragByName_eq] at this
  cases hF : fragForName d sp.name with
  | none => rw [hF] at this; cases this
  | some F => exact ⟨F, rfl⟩

/-- **OverlappingFieldsCanBeMerged reports nothing iff §5.3.2 holds**, for documents without fragment
    cycles, with unique fragment names, all fragments used and all spreads defined -/
theorem overlap_iff (s : Schema) (d : QueryDoc) (H : OvHyps s d) (hj : Spec.mergingJudged s d = true)
    (hu : Spec.fragmentNameUniqueness d = true) (hused : Spec.fragmentsMustBeUsed d = true)
    (hsym : ArgsSym s d) (hrefl : ArgsRefl s d) (hids : IdsInj s d) (hnest : IdsNested s d) :
    validate [overlappingFieldsCanBeMerged] s d = .ok [] ↔ Spec.fieldSelectionMerging s d = true := by
  have hjj := hj
  unfold Spec.mergingJudged at hjj
  simp only [Bool.and_eq_true] at hjj
  have hac : Acyclic d := acyclic_of_spec d hjj.1.1.1.1.2
  have hnd : (d.frags.map (·.name)).Nodup := (distinct_iff_nodup _).1 hu
  have S : SemHyps s d := ⟨H, hac, hnd, hsym, hrefl⟩
  have M : MemoHyps s d := ⟨H, hac, defined_of_spec hjj.1.1.1.1.1, hids, hsym⟩
  rw [overlap_silent_iff s d M hu hused]
  exact ⟨fun NT => noTop_spec S hids hnest NT hj, fun h => spec_noTop S hj h⟩

end Gql.Validate
