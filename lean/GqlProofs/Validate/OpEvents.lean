import GqlProofs.Validate.RuleFuel
/-
  `operation` events carry operations of the document (needed to state panic freedom of
  KnownRootType, whose explicit `panic` is reached exactly on an operation kind that the parser
  never produces), and panic freedom relative to a predicate on events.
-/
namespace Gql.Validate
open Gql Gql.Validate.Rules

def Payload.isOperation : Payload → Bool
  | .operation .. => true
  | _ => false

/-- no `operation` event in the list -/
def noOps (evs : List Event) : Bool := evs.all fun e => !e.p.isOperation

theorem noOps_append (a b : List Event) : noOps (a ++ b) = (noOps a && noOps b) := by
  simp [noOps, List.all_append]

mutual
  theorem walkValue_noOps (s : SV) (cur : Option OperationDef) (exp : Option GType) (dfn : Option Definition) :
      ∀ (v : Value) (ws : WS), noOps (walkValue s cur exp dfn v ws).2 = true
    | .mk k raw ch p, ws => by
      unfold walkValue
      have h1 : ∀ ws1 : WS, noOps (walkObjChildren s cur dfn ch ws1).2 = true :=
        fun ws1 => walkObjChildren_noOps s cur dfn ch ws1
      have h2 : ∀ ws1 : WS, noOps (walkListChildren s cur exp dfn ch ws1).2 = true :=
        fun ws1 => walkListChildren_noOps s cur exp dfn ch ws1
      cases k <;> simp [noOps_append, h1, h2] <;> simp [noOps, Payload.isOperation]
  theorem walkObjChildren_noOps (s : SV) (cur : Option OperationDef) (dfn : Option Definition) :
      ∀ (ch : Children) (ws : WS), noOps (walkObjChildren s cur dfn ch ws).2 = true
    | .nil, ws => by simp [walkObjChildren, noOps]
    | .cons name v p rest, ws => by
      unfold walkObjChildren
      simp only [noOps_append]
      rw [walkObjChildren_noOps s cur dfn rest, walkValue_noOps]
      rfl
  theorem walkListChildren_noOps (s : SV) (cur : Option OperationDef) (exp : Option GType) (dfn : Option Definition) :
      ∀ (ch : Children) (ws : WS), noOps (walkListChildren s cur exp dfn ch ws).2 = true
    | .nil, ws => by simp [walkListChildren, noOps]
    | .cons name v p rest, ws => by
      unfold walkListChildren
      simp only [noOps_append]
      rw [walkListChildren_noOps s cur exp dfn rest, walkValue_noOps]
      rfl
end

theorem walkArgs_noOps (s : SV) (cur : Option OperationDef) (ad : Option (List ArgDef)) :
    ∀ (as : List Argument) (ws : WS), noOps (walkArgs s cur ad as ws).2 = true
  | [], ws => rfl
  | a :: rest, ws => by
    simp only [walkArgs, noOps_append]
    rw [walkArgs_noOps s cur ad rest, walkValue_noOps]
    rfl

theorem walkDirectiveItems_noOps (s : SV) (cur : Option OperationDef) (parent : Option Definition) (loc : Bytes) :
    ∀ (ds : List Directive) (ws : WS), noOps (walkDirectiveItems s cur parent loc ds ws).2 = true
  | [], ws => rfl
  | dir :: rest, ws => by
    simp only [walkDirectiveItems, noOps_append]
    rw [walkArgs_noOps]
    have := walkDirectiveItems_noOps s cur parent loc rest (walkArgs s cur (Option.map (·.args) (s.directive? dir.name)) dir.args ws).1
    simp only [noOps, List.all_cons, Payload.isOperation] at this ⊢
    simp [this]

theorem walkDirectives_noOps (s : SV) (cur : Option OperationDef) (parent : Option Definition) (ds : List Directive)
    (loc : Bytes) (ws : WS) : noOps (walkDirectives s cur parent ds loc ws).2 = true := by
  simp only [walkDirectives, noOps_append, walkDirectiveItems_noOps]
  simp [noOps, Payload.isOperation]

def JumpNoOps (J : Jump) : Prop := ∀ parent sels (ws : WS) r, J parent sels ws = some r → noOps r.2 = true

mutual
  theorem walkSelection_noOps (s : SV) (d : QueryDoc) (cur : Option OperationDef) (J : Jump) (hJ : JumpNoOps J) :
      ∀ (x : Selection) (parent : Option Definition) (ws : WS) r, walkSelection s d cur J parent x ws = some r →
        noOps r.2 = true
    | .field al nm args dirs sub p, parent, ws, r, h => by
      unfold walkSelection at h
      simp only at h
      split at h
      · cases h
      · rename_i r3 h3
        injection h with h
        subst h
        have hb := walkSelections_noOps s d cur J hJ sub _ _ r3 h3
        simp only [noOps_append, walkArgs_noOps, walkDirectives_noOps, hb]
        simp [noOps, Payload.isOperation]
    | .inline tc dirs sub p, parent, ws, r, h => by
      unfold walkSelection at h
      simp only at h
      split at h
      · cases h
      · rename_i r3 h3
        injection h with h
        subst h
        have hb := walkSelections_noOps s d cur J hJ sub _ _ r3 h3
        simp only [noOps_append, walkDirectives_noOps, hb]
        simp [noOps, Payload.isOperation]
    | .spread nm dirs p, parent, ws, r, h => by
      unfold walkSelection at h
      simp only at h
      cases hf : fragForName d nm with
      | none =>
        rw [hf] at h
        simp only at h
        injection h with h
        subst h
        simp only [noOps_append, walkDirectives_noOps]
        simp [noOps, Payload.isOperation]
      | some f =>
        rw [hf] at h
        simp only at h
        split at h
        · injection h with h
          subst h
          simp only [noOps_append, walkDirectives_noOps]
          simp [noOps, Payload.isOperation]
        · split at h
          · cases h
          · rename_i r3 h3
            injection h with h
            subst h
            have hb := hJ _ _ _ r3 h3
            simp only [noOps_append, walkDirectives_noOps, hb]
            simp [noOps, Payload.isOperation]
  theorem walkSelections_noOps (s : SV) (d : QueryDoc) (cur : Option OperationDef) (J : Jump) (hJ : JumpNoOps J) :
      ∀ (xs : Selections) (parent : Option Definition) (ws : WS) r, walkSelections s d cur J parent xs ws = some r →
        noOps r.2 = true
    | .nil, parent, ws, r, h => by
      simp only [walkSelections] at h
      injection h with h
      subst h
      rfl
    | .cons x rest, parent, ws, r, h => by
      unfold walkSelections at h
      split at h
      · cases h
      · rename_i r1 h1
        split at h
        · cases h
        · rename_i r2 h2
          injection h with h
          subst h
          simp only [noOps_append, walkSelection_noOps s d cur J hJ x parent ws r1 h1,
            walkSelections_noOps s d cur J hJ rest parent r1.1 r2 h2]
          rfl
end

theorem walkLevel_noOps (s : SV) (d : QueryDoc) (cur : Option OperationDef) : ∀ n, JumpNoOps (walkLevel s d cur n)
  | 0 => by intro _ _ _ _ h; simp [walkLevel] at h
  | n + 1 => by
    intro parent sels ws r h
    simp only [walkLevel] at h
    exact walkSelections_noOps s d cur _ (walkLevel_noOps s d cur n) sels parent ws r h

theorem walkVarDefsA_noOps (s : SV) (cur : Option OperationDef) (ws : WS) :
    ∀ vs : List VarDef, noOps (walkVarDefsA s cur ws vs) = true
  | [] => rfl
  | v :: rest => by
    have := walkVarDefsA_noOps s cur ws rest
    simp only [noOps, walkVarDefsA, List.all_cons, Payload.isOperation] at this ⊢
    simp [this]

theorem walkVarDefsB_noOps (s : SV) (cur : Option OperationDef) :
    ∀ (vs : List VarDef) (ws : WS), noOps (walkVarDefsB s cur vs ws).2 = true
  | [], ws => rfl
  | v :: rest, ws => by
    simp only [walkVarDefsB, noOps_append]
    rw [walkVarDefsB_noOps s cur rest, walkDirectives_noOps]
    cases v.default with
    | none => rfl
    | some dv => simp [walkValue_noOps]

/-- every `operation` event of the list is about one of `ops` -/
def OpsIn (ops : List OperationDef) (evs : List Event) : Prop :=
  ∀ e ∈ evs, ∀ op u, e.p = .operation op u → op ∈ ops

theorem opsIn_of_noOps (ops : List OperationDef) (evs : List Event) (h : noOps evs = true) : OpsIn ops evs := by
  intro e he op u hp
  have := List.all_eq_true.1 h e he
  simp [hp, Payload.isOperation] at this

theorem OpsIn.append {ops : List OperationDef} {a b : List Event} (ha : OpsIn ops a) (hb : OpsIn ops b) : OpsIn ops (a ++ b) := by
  intro e he
  rcases List.mem_append.1 he with h | h
  · exact ha e h
  · exact hb e h

theorem OpsIn.mono {ops ops' : List OperationDef} {a : List Event} (h : OpsIn ops a) (hs : ∀ x ∈ ops, x ∈ ops') : OpsIn ops' a :=
  fun e he op u hp => hs op (h e he op u hp)

theorem walkOperation_opsIn (s : SV) (d : QueryDoc) (fuel : Nat) (op : OperationDef) (l : Links) (r : Links × List Event)
    (h : walkOperation s d fuel op l = some r) : OpsIn [op] r.2 := by
  unfold walkOperation at h
  simp only at h
  split at h
  · cases h
  · rename_i r4 h4
    injection h with h
    subst h
    have hb := walkLevel_noOps s d (some op) fuel _ _ _ r4 h4
    refine OpsIn.append (opsIn_of_noOps _ _ ?_) ?_
    · simp only [noOps_append, walkVarDefsA_noOps, walkVarDefsB_noOps, walkDirectives_noOps, hb]
      rfl
    · intro e he op' u hp
      simp only [List.mem_singleton] at he
      subst he
      simp only at hp
      injection hp with h1 _
      simp [h1]

theorem walkFragment_noOps (s : SV) (d : QueryDoc) (fuel : Nat) (f : FragmentDef) (l : Links) (r : Links × List Event)
    (h : walkFragment s d fuel f l = some r) : noOps r.2 = true := by
  unfold walkFragment at h
  simp only at h
  split at h
  · cases h
  · rename_i r2 h2
    injection h with h
    subst h
    have hb := walkLevel_noOps s d none fuel _ _ _ r2 h2
    simp only [noOps_append, walkDirectives_noOps, hb]
    simp [noOps, Payload.isOperation]

theorem walkOps_opsIn (s : SV) (d : QueryDoc) (fuel : Nat) :
    ∀ (ops : List OperationDef) (l : Links) (r : Links × List Event), walkOps s d fuel ops l = some r → OpsIn ops r.2
  | [], l, r, h => by
    simp only [walkOps] at h
    injection h with h
    subst h
    intro e he
    cases he
  | op :: rest, l, r, h => by
    simp only [walkOps] at h
    split at h
    · cases h
    · rename_i r1 h1
      split at h
      · cases h
      · rename_i r2 h2
        injection h with h
        subst h
        refine OpsIn.append ((walkOperation_opsIn s d fuel op l r1 h1).mono ?_) ((walkOps_opsIn s d fuel rest r1.1 r2 h2).mono ?_)
        · intro x hx
          simp only [List.mem_singleton] at hx
          subst hx
          exact List.mem_cons_self
        · intro x hx
          exact List.mem_cons_of_mem _ hx

theorem walkFrags_noOps (s : SV) (d : QueryDoc) (fuel : Nat) :
    ∀ (fs : List FragmentDef) (l : Links) (r : Links × List Event), walkFrags s d fuel fs l = some r → noOps r.2 = true
  | [], l, r, h => by
    simp only [walkFrags] at h
    injection h with h
    subst h
    rfl
  | f :: rest, l, r, h => by
    simp only [walkFrags] at h
    split at h
    · cases h
    · rename_i r1 h1
      split at h
      · cases h
      · rename_i r2 h2
        injection h with h
        subst h
        simp only [noOps_append, walkFragment_noOps s d fuel f l r1 h1, walkFrags_noOps s d fuel rest r1.1 r2 h2]
        rfl

theorem walkDoc_opsIn (s : SV) (d : QueryDoc) (evs : List Event) (h : walkDoc s d = some evs) : OpsIn d.ops evs := by
  unfold walkDoc at h
  split at h
  · cases h
  · rename_i r1 h1
    split at h
    · cases h
    · rename_i r2 h2
      injection h with h
      subst h
      exact OpsIn.append (walkOps_opsIn s d _ d.ops _ r1 h1) (opsIn_of_noOps _ _ (walkFrags_noOps s d _ d.frags _ r2 h2))

/- ---------- panic freedom relative to a predicate on events ---------- -/

def Rule.NeverPanicsOn (P : Event → Prop) (r : Rule) : Prop := ∀ s d st e m, P e → r.step s d st e ≠ .panic m

theorem Rule.NeverPanics.on {r : Rule} (h : r.NeverPanics) (P : Event → Prop) : r.NeverPanicsOn P :=
  fun s d st e m _ => h s d st e m

theorem stepAll_neverPanicsOn {P : Event → Prop} {s : SV} {d : QueryDoc} {e : Event} (he : P e) :
    ∀ {rs : List Running}, (∀ r ∈ rs, r.rule.NeverPanicsOn P) → ∃ p, stepAll s d e rs = .ok p
  | [], _ => ⟨_, rfl⟩
  | r :: rs, h => by
    obtain ⟨p, hp⟩ := stepAll_neverPanicsOn he (rs := rs) (fun q hq => h q (List.mem_cons_of_mem _ hq))
    have hr := h r List.mem_cons_self
    simp only [stepAll, Running.step]
    cases hs : r.rule.step s d r.st e with
    | panic m => exact absurd hs (hr s d r.st e m he)
    | ok st' errs =>
      obtain ⟨rs', errs'⟩ := p
      rw [hp]
      exact ⟨_, rfl⟩

theorem runAll_neverPanicsOn {P : Event → Prop} {s : SV} {d : QueryDoc} :
    ∀ {evs : List Event} {rs : List Running}, (∀ e ∈ evs, P e) → (∀ r ∈ rs, r.rule.NeverPanicsOn P) →
      ∃ errs, runAll s d rs evs = .ok errs
  | [], _, _, _ => ⟨_, rfl⟩
  | e :: es, rs, hP, h => by
    obtain ⟨p, hp⟩ := stepAll_neverPanicsOn (s := s) (d := d) (hP e List.mem_cons_self) h
    obtain ⟨rs', errs⟩ := p
    have hrules := (stepAll_ok hp).1
    have h' : ∀ r ∈ rs', r.rule.NeverPanicsOn P := by
      intro r hr
      have : r.rule ∈ rs'.map (·.rule) := List.mem_map.2 ⟨r, hr, rfl⟩
      rw [hrules] at this
      obtain ⟨q, hq, he⟩ := List.mem_map.1 this
      rw [← he]
      exact h q hq
    obtain ⟨errs2, h2⟩ := runAll_neverPanicsOn (s := s) (d := d) (evs := es) (fun x hx => hP x (List.mem_cons_of_mem _ hx)) h'
    exact ⟨errs ++ errs2, by simp only [runAll, hp, h2]⟩

/-- the operation kinds the parser produces (`""` is accepted by the code like `query`) -/
def parserOpKinds : List Operation := [opQuery, opMutation, opSubscription, []]

/-- an event whose operation (if it is an `operation` event) has a kind the parser produces -/
def OpKindOK (e : Event) : Prop := ∀ op u, e.p = .operation op u → op.op ∈ parserOpKinds

theorem knownRootType_neverPanicsOn : knownRootType.NeverPanicsOn OpKindOK := by
  intro s d st e m hP h
  simp only [knownRootType, Rule.statelessP] at h
  cases hstep : knownRootTypeStep s d e with
  | ok errs => rw [hstep] at h; cases h
  | error m' =>
    unfold knownRootTypeStep at hstep
    cases hp : e.p with
    | operation op used =>
      rw [hp] at hstep
      simp only at hstep
      have hk := hP op used hp
      simp only [parserOpKinds, List.mem_cons, List.mem_nil_iff, or_false] at hk
      split at hstep
      · split at hstep <;> cases hstep
      · rename_i hne
        simp only [Bool.or_eq_true, beq_iff_eq, not_or] at hne
        rcases hk with h1 | h1 | h1 | h1
        · exact absurd h1 hne.1.1.1
        · exact absurd h1 hne.1.2
        · exact absurd h1 hne.2
        · exact absurd h1 hne.1.1.2
    | _ => rw [hp] at hstep; cases hstep

end Gql.Validate
