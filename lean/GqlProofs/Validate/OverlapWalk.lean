import GqlProofs.ValSpec.IntrospectionLinks
import GqlProofs.ValSpec.Cycles
/-
  OverlappingFieldsCanBeMerged, the link table: in a document without fragment cycles, at the time
  of EVERY `field`, `inlineFragment`, `operation` and `fragment` event all selection nodes written
  in the selection set of the node, and in every fragment definition reachable from it, have been
  linked by the walker (`walkDoc_evLinked`).

  The walker fires the event of a node after it has walked the node's selection set, jumping into
  every fragment not yet visited in the current walk.  A fragment visited earlier is completely
  marked unless it is still "in progress" (grey: the walker is inside it); in a document without
  cycles nothing reachable from the current node is grey.
-/
namespace Gql.Validate
open Gql Gql.Validate.Rules

/-- every selection node written in `sels`, and in every fragment reachable from it, is linked -/
def LinkedAll (l : Links) (d : QueryDoc) (sels : Selections) : Prop :=
  (∀ y, InSels sels (.sel y) → l.linked (selPos y).start = true) ∧
  ∀ n g, Reach d (Spec.spreadsOfSels sels) n → fragForName d n = some g →
    ∀ y, InSels g.sel (.sel y) → l.linked (selPos y).start = true

/-- all nodes of the fragment are linked, its spread targets visited -/
def MarksAll (d : QueryDoc) (ws : WS) (f : FragmentDef) : Prop :=
  (∀ y, InSels f.sel (.sel y) → ws.links.linked (selPos y).start = true) ∧
  ∀ m ∈ Spec.spreadsOfSels f.sel, ∀ g, fragForName d m = some g → m ∈ ws.visited

/-- every visited fragment that is not grey is completely marked -/
def DoneExcept (d : QueryDoc) (G : List Name) (ws : WS) : Prop :=
  ∀ n ∈ ws.visited, n ∉ G → ∀ f, fragForName d n = some f → MarksAll d ws f

/-- nothing reachable from the names is grey -/
def NoGrey (d : QueryDoc) (G : List Name) (names : List Name) : Prop := ∀ n, Reach d names n → n ∉ G

theorem MarksAll.ext {d : QueryDoc} {ws ws' : WS} {f : FragmentDef} (h : MarksAll d ws f)
    (hm : ∀ k, ws.links.linked k = true → ws'.links.linked k = true) (hv : ws.visited ⊆ ws'.visited) :
    MarksAll d ws' f :=
  ⟨fun y hi => hm _ (h.1 y hi), fun m hmem g hg => hv (h.2 m hmem g hg)⟩

theorem FragDone.toMarksAll {s : SV} {d : QueryDoc} {cur : Option OperationDef} {r : WS × List Event} {f : FragmentDef}
    (h : FragDone s d cur r f) : MarksAll d r.1 f := by
  refine ⟨fun y hi => ?_, h.2.2⟩
  obtain ⟨p', hp'⟩ := inSels_lift s f.sel (s.type? f.typeCond) _ hi
  exact (h.1 p' _ hp').2.1

theorem DoneExcept.frame {d : QueryDoc} {G : List Name} {ws ws' : WS} (h : DoneExcept d G ws) (hv : ws'.visited = ws.visited)
    (hm : ∀ k, ws.links.linked k = true → ws'.links.linked k = true) : DoneExcept d G ws' := by
  intro n hn hg f hf
  rw [hv] at hn
  exact (h n hn hg f hf).ext hm (by rw [hv]; exact fun _ hx => hx)

theorem DoneExcept.after {s : SV} {d : QueryDoc} {cur : Option OperationDef} {names : List Name} {G : List Name}
    {nodes : Option Definition → Selection → Prop} {ws : WS} {r : WS × List Event}
    (h : DoneExcept d G ws) (hw : WalkC s d cur names nodes ws r) : DoneExcept d G r.1 := by
  intro n hn hg f hf
  by_cases hold : n ∈ ws.visited
  · exact (h n hold hg f hf).ext hw.marks hw.mono
  · obtain ⟨g, hg', hd⟩ := hw.new n hn hold
    rw [hf] at hg'
    injection hg' with hg'
    subst hg'
    exact hd.toMarksAll

theorem NoGrey.mono {d : QueryDoc} {G : List Name} {a b : List Name} (h : NoGrey d G b) (hab : ∀ x ∈ a, x ∈ b) :
    NoGrey d G a := fun n hr => h n (hr.mono hab)

section walk
variable (s : SV) (d : QueryDoc) (cur : Option OperationDef)

/-- after the complete walk of a selection set from which nothing grey is reachable, everything
    reachable from it is linked -/
theorem linkedAll_after (J : Jump) (hJ : JumpC s d cur J) (sub : Selections) (parent : Option Definition) (ws : WS)
    (r : WS × List Event) (G : List Name) (hd : DoneExcept d G ws) (hg : NoGrey d G (Spec.spreadsOfSels sub))
    (h : walkSelections s d cur J parent sub ws = some r) : LinkedAll r.1.links d sub := by
  have hw := walkSelections_c s d cur J hJ sub parent ws r h
  have hd' := hd.after hw
  have key : ∀ n, Reach d (Spec.spreadsOfSels sub) n → ∀ g, fragForName d n = some g → n ∈ r.1.visited := by
    intro n hr
    induction hr with
    | base hn => exact fun g hg' => hw.src _ hn g hg'
    | step hm hn ih =>
      intro g hg'
      obtain ⟨f, hf, _, _, hn'⟩ := fragSpreads_defined hn
      exact (hd' _ (ih f hf) (hg _ hm) f hf).2 _ hn' g hg'
  constructor
  · intro y hi
    obtain ⟨p', hp'⟩ := inSels_lift s sub parent _ hi
    exact (hw.nodes p' _ hp').2.1
  · intro n g hr hg' y hi
    exact (hd' n (key n hr g hg') (hg n hr) g hg').1 y hi

/-- what the rule needs at the time of an event -/
def EvLinked (e : Event) : Prop :=
  match e.p with
  | .field f _ _ => LinkedAll e.links d f.sel
  | .inlineFragment f _ => LinkedAll e.links d f.sel
  | .operation op _ => LinkedAll e.links d op.sel
  | .fragment f _ => LinkedAll e.links d f.sel
  | _ => True

/-- payloads of events that are about values, directives and variable definitions -/
def ValLike : Payload → Prop
  | .value .. => True
  | .directive .. => True
  | .directiveList .. => True
  | .variable .. => True
  | _ => False

theorem valLike_sites : ValSites s ValLike :=
  { value := fun _ _ _ => trivial, directive := fun _ _ _ => trivial, directiveList := fun _ => trivial }

theorem evLinked_of_valLike {evs : List Event} (h : AllP ValLike evs) : ∀ e ∈ evs, EvLinked d e := by
  intro e he
  have := h e he
  unfold EvLinked
  cases hp : e.p <;> simp only [hp, ValLike] at this ⊢

def JumpLk (J : Jump) : Prop :=
  ∀ parent sels (ws : WS) r G, DoneExcept d G ws → NoGrey d G (Spec.spreadsOfSels sels) → J parent sels ws = some r →
    ∀ e ∈ r.2, EvLinked d e

variable (hac : Acyclic d)
include hac

mutual
  theorem walkSelection_lk (J : Jump) (hJ : JumpC s d cur J) (hJL : JumpLk d J) :
      ∀ (x : Selection) (parent : Option Definition) (ws : WS) r (G : List Name), DoneExcept d G ws →
        NoGrey d G (Spec.spreadsOfSel x) → walkSelection s d cur J parent x ws = some r → ∀ e ∈ r.2, EvLinked d e
    | .field al nm args dirs sub p, parent, ws, r, G, hd, hg, h => by
      unfold walkSelection at h
      simp only at h
      split at h
      · cases h
      · rename_i r3 h3
        injection h with h
        subst h
        have hd2 : ∀ w : WS, w.visited = ws.visited → w.links.sels = (ws.markSel p.start).links.sels → DoneExcept d G w :=
          fun w hv hs => hd.frame hv (pre_linked ws p.start w hs).2
        have hlk := linkedAll_after s d cur J hJ sub _ _ r3 G
          (hd2 _ (by rw [walkDirectives_visited, walkArgs_visited, markSel_visited])
            (by rw [walkDirectives_sels, walkArgs_sels])) hg h3
        have ih := walkSelections_lk J hJ hJL sub _ _ r3 G
          (hd2 _ (by rw [walkDirectives_visited, walkArgs_visited, markSel_visited])
            (by rw [walkDirectives_sels, walkArgs_sels])) hg h3
        intro e he
        simp only [List.mem_append, List.mem_singleton] at he
        rcases he with ((he | he) | he) | he
        · exact evLinked_of_valLike d (walkArgs_all (valLike_sites s).value cur _ args _) e he
        · exact evLinked_of_valLike d (walkDirectives_all (valLike_sites s) cur _ dirs _ _) e he
        · exact ih e he
        · subst he
          exact hlk
    | .inline tc dirs sub p, parent, ws, r, G, hd, hg, h => by
      unfold walkSelection at h
      simp only at h
      split at h
      · cases h
      · rename_i r3 h3
        injection h with h
        subst h
        have hd3 : DoneExcept d G (walkDirectives s cur (if tc != [] then s.type? tc else parent) dirs locInlineFragment
            (ws.markSel p.start)).1 :=
          hd.frame (by rw [walkDirectives_visited, markSel_visited])
            (pre_linked ws p.start _ (by rw [walkDirectives_sels])).2
        have hlk := linkedAll_after s d cur J hJ sub _ _ r3 G hd3 hg h3
        have ih := walkSelections_lk J hJ hJL sub _ _ r3 G hd3 hg h3
        intro e he
        simp only [List.mem_append, List.mem_singleton] at he
        rcases he with (he | he) | he
        · exact evLinked_of_valLike d (walkDirectives_all (valLike_sites s) cur _ dirs _ _) e he
        · exact ih e he
        · subst he
          exact hlk
    | .spread nm dirs p, parent, ws, r, G, hd, hg, h => by
      unfold walkSelection at h
      simp only at h
      have hdirs : ∀ par ws', ∀ e ∈ (walkDirectives s cur par dirs locFragmentSpread ws').2, EvLinked d e :=
        fun par ws' => evLinked_of_valLike d (walkDirectives_all (valLike_sites s) cur par dirs _ _)
      cases hf : fragForName d nm with
      | none =>
        rw [hf] at h
        simp only at h
        injection h with h
        subst h
        intro e he
        simp only [List.mem_append, List.mem_singleton] at he
        rcases he with he | he
        · exact hdirs _ _ e he
        · subst he; trivial
      | some f =>
        have hname : f.name = nm := fragForName_name hf
        rw [hf] at h
        simp only at h
        split at h
        · injection h with h
          subst h
          intro e he
          simp only [List.mem_append, List.mem_singleton] at he
          rcases he with he | he
          · exact hdirs _ _ e he
          · subst he; trivial
        · split at h
          · cases h
          · rename_i r3 h3
            injection h with h
            subst h
            -- the state in which the jump starts: `f` has become grey
            have hv0 : (walkDirectives s cur ((some f).bind fun f => s.type? f.typeCond) f.dirs locFragmentDefinition
                { (walkDirectives s cur ((some f).bind fun f => s.type? f.typeCond) dirs locFragmentSpread (ws.markSel p.start)).1 with
                  visited := f.name :: (walkDirectives s cur ((some f).bind fun f => s.type? f.typeCond) dirs locFragmentSpread
                    (ws.markSel p.start)).1.visited }).1.visited = f.name :: ws.visited := by
              rw [walkDirectives_visited]
              simp only [walkDirectives_visited, markSel_visited]
            have hl0 : ∀ k, ws.links.linked k = true →
                (walkDirectives s cur ((some f).bind fun f => s.type? f.typeCond) f.dirs locFragmentDefinition
                { (walkDirectives s cur ((some f).bind fun f => s.type? f.typeCond) dirs locFragmentSpread (ws.markSel p.start)).1 with
                  visited := f.name :: (walkDirectives s cur ((some f).bind fun f => s.type? f.typeCond) dirs locFragmentSpread
                    (ws.markSel p.start)).1.visited }).1.links.linked k = true := by
              intro k hk
              rw [linked_of_sels (walkDirectives_sels _ _ _ _ _ _)]
              exact (pre_linked ws p.start _ (walkDirectives_sels s cur _ dirs locFragmentSpread (ws.markSel p.start))).2 k hk
            have hdj : DoneExcept d (f.name :: G) (walkDirectives s cur ((some f).bind fun f => s.type? f.typeCond) f.dirs
                locFragmentDefinition
                { (walkDirectives s cur ((some f).bind fun f => s.type? f.typeCond) dirs locFragmentSpread (ws.markSel p.start)).1 with
                  visited := f.name :: (walkDirectives s cur ((some f).bind fun f => s.type? f.typeCond) dirs locFragmentSpread
                    (ws.markSel p.start)).1.visited }).1 := by
              intro n hn hng g hg'
              rw [hv0] at hn
              have hne : n ≠ f.name := fun e => hng (by rw [e]; exact List.mem_cons_self)
              have hn' : n ∈ ws.visited := by
                rcases List.mem_cons.1 hn with h | h
                · exact absurd h hne
                · exact h
              exact (hd n hn' (fun hG => hng (List.mem_cons_of_mem _ hG)) g hg').ext hl0
                (by rw [hv0]; exact fun _ hx => List.mem_cons_of_mem _ hx)
            have hgj : NoGrey d (f.name :: G) (Spec.spreadsOfSels f.sel) := by
              intro n hr hmem
              have hr' : Reach d (Spec.fragSpreads d nm) n := by
                unfold Spec.fragSpreads
                rw [fragByName_eq, hf]
                exact hr
              rcases List.mem_cons.1 hmem with h | h
              · rw [h, hname] at hr'
                exact hac nm hr'
              · exact hg n (Reach.trans (Reach.base (by simp [Spec.spreadsOfSel])) hr') h
            have ih := hJL _ _ _ r3 _ hdj hgj h3
            intro e he
            simp only [List.mem_append, List.mem_singleton] at he
            rcases he with ((he | he) | he) | he
            · exact hdirs _ _ e he
            · exact evLinked_of_valLike d (walkDirectives_all (valLike_sites s) cur _ f.dirs _ _) e he
            · exact ih e he
            · subst he; trivial
  theorem walkSelections_lk (J : Jump) (hJ : JumpC s d cur J) (hJL : JumpLk d J) :
      ∀ (xs : Selections) (parent : Option Definition) (ws : WS) r (G : List Name), DoneExcept d G ws →
        NoGrey d G (Spec.spreadsOfSels xs) → walkSelections s d cur J parent xs ws = some r → ∀ e ∈ r.2, EvLinked d e
    | .nil, parent, ws, r, G, hd, hg, h => by
      simp only [walkSelections] at h
      injection h with h
      subst h
      intro e he
      cases he
    | .cons x rest, parent, ws, r, G, hd, hg, h => by
      unfold walkSelections at h
      split at h
      · cases h
      · rename_i r1 h1
        split at h
        · cases h
        · rename_i r2 h2
          injection h with h
          subst h
          have hd1 := hd.after (walkSelection_c s d cur J hJ x parent ws r1 h1)
          have ih1 := walkSelection_lk J hJ hJL x parent ws r1 G hd
            (hg.mono (fun n hn => by simp only [Spec.spreadsOfSels, List.mem_append]; exact Or.inl hn)) h1
          have ih2 := walkSelections_lk J hJ hJL rest parent r1.1 r2 G hd1
            (hg.mono (fun n hn => by simp only [Spec.spreadsOfSels, List.mem_append]; exact Or.inr hn)) h2
          intro e he
          rcases List.mem_append.1 he with he | he
          · exact ih1 e he
          · exact ih2 e he
end

theorem walkLevel_lk : ∀ n, JumpLk d (walkLevel s d cur n)
  | 0 => by intro _ _ _ _ _ _ _ h; simp [walkLevel] at h
  | n + 1 => by
    intro parent sels ws r G hd hg h
    simp only [walkLevel] at h
    exact walkSelections_lk s d cur hac _ (walkLevel_c s d cur n) (walkLevel_lk n) sels parent ws r G hd hg h

end walk

theorem doneExcept_of_nil {d : QueryDoc} {ws : WS} (h : ws.visited = []) : DoneExcept d [] ws := by
  intro n hn
  rw [h] at hn
  cases hn

theorem noGrey_nil (d : QueryDoc) (names : List Name) : NoGrey d [] names := fun _ _ h => by cases h

theorem walkVarDefsA_valLike (s : SV) (cur : Option OperationDef) (ws : WS) :
    ∀ vs : List VarDef, AllP ValLike (walkVarDefsA s cur ws vs)
  | [] => AllP.nil
  | _ :: rest => AllP.cons trivial (walkVarDefsA_valLike s cur ws rest)

theorem walkOperation_lk (s : SV) (d : QueryDoc) (hac : Acyclic d) (k : Nat) (op : OperationDef) (l : Links)
    (r : Links × List Event) (h : walkOperation s d (k + 1) op l = some r) : ∀ e ∈ r.2, EvLinked d e := by
  unfold walkOperation at h
  simp only at h
  split at h
  · cases h
  · rename_i r4 h4
    injection h with h
    subst h
    simp only [walkLevel] at h4
    have hd0 : DoneExcept d [] (walkDirectives s (some op) (opRoot s op.op).1 op.dirs (opRoot s op.op).2
        (walkVarDefsB s (some op) op.vars { visited := [], links := l, used := [] }).1).1 :=
      doneExcept_of_nil (by rw [walkDirectives_visited, walkVarDefsB_visited])
    have h1 := walkSelections_lk s d (some op) hac _ (walkLevel_c s d (some op) k) (walkLevel_lk s d (some op) hac k)
      op.sel _ _ r4 [] hd0 (noGrey_nil d _) h4
    have h2 := linkedAll_after s d (some op) _ (walkLevel_c s d (some op) k) op.sel _ _ r4 [] hd0 (noGrey_nil d _) h4
    intro e he
    simp only [List.mem_append, List.mem_singleton] at he
    rcases he with (((he | he) | he) | he) | he
    · exact evLinked_of_valLike d (walkVarDefsA_valLike s (some op) _ op.vars) e he
    · exact evLinked_of_valLike d (walkVarDefsB_all (valLike_sites s) (some op) op.vars _) e he
    · exact evLinked_of_valLike d (walkDirectives_all (valLike_sites s) (some op) _ op.dirs _ _) e he
    · exact h1 e he
    · subst he
      exact h2

theorem walkFragment_lk (s : SV) (d : QueryDoc) (hac : Acyclic d) (k : Nat) (f : FragmentDef) (l : Links)
    (r : Links × List Event) (h : walkFragment s d (k + 1) f l = some r) : ∀ e ∈ r.2, EvLinked d e := by
  unfold walkFragment at h
  simp only at h
  split at h
  · cases h
  · rename_i r2 h2
    injection h with h
    subst h
    simp only [walkLevel] at h2
    have hd0 : DoneExcept d [] (walkDirectives s none (s.type? f.typeCond) f.dirs locFragmentDefinition
        { visited := [], links := l, used := [] }).1 :=
      doneExcept_of_nil (by rw [walkDirectives_visited])
    have h1 := walkSelections_lk s d none hac _ (walkLevel_c s d none k) (walkLevel_lk s d none hac k)
      f.sel _ _ r2 [] hd0 (noGrey_nil d _) h2
    have h3 := linkedAll_after s d none _ (walkLevel_c s d none k) f.sel _ _ r2 [] hd0 (noGrey_nil d _) h2
    intro e he
    simp only [List.mem_append, List.mem_singleton] at he
    rcases he with (he | he) | he
    · exact evLinked_of_valLike d (walkDirectives_all (valLike_sites s) none _ f.dirs _ _) e he
    · exact h1 e he
    · subst he
      exact h3

theorem walkOps_lk (s : SV) (d : QueryDoc) (hac : Acyclic d) (k : Nat) :
    ∀ (ops : List OperationDef) (l : Links) (r : Links × List Event), walkOps s d (k + 1) ops l = some r →
      ∀ e ∈ r.2, EvLinked d e
  | [], _, r, h, e, he => by
    simp only [walkOps] at h
    injection h with h
    subst h
    cases he
  | o :: rest, l, r, h, e, he => by
    unfold walkOps at h
    split at h
    · cases h
    · rename_i r1 h1
      split at h
      · cases h
      · rename_i r2 h2
        injection h with h
        subst h
        rcases List.mem_append.1 he with he | he
        · exact walkOperation_lk s d hac k o l r1 h1 e he
        · exact walkOps_lk s d hac k rest r1.1 r2 h2 e he

theorem walkFrags_lk (s : SV) (d : QueryDoc) (hac : Acyclic d) (k : Nat) :
    ∀ (fs : List FragmentDef) (l : Links) (r : Links × List Event), walkFrags s d (k + 1) fs l = some r →
      ∀ e ∈ r.2, EvLinked d e
  | [], _, r, h, e, he => by
    simp only [walkFrags] at h
    injection h with h
    subst h
    cases he
  | f :: rest, l, r, h, e, he => by
    unfold walkFrags at h
    split at h
    · cases h
    · rename_i r1 h1
      split at h
      · cases h
      · rename_i r2 h2
        injection h with h
        subst h
        rcases List.mem_append.1 he with he | he
        · exact walkFragment_lk s d hac k f l r1 h1 e he
        · exact walkFrags_lk s d hac k rest r1.1 r2 h2 e he

/-- in a document without fragment cycles every selection-set event sees everything it can reach linked -/
theorem walkDoc_evLinked (s : SV) (d : QueryDoc) (hac : Acyclic d) (evs : List Event) (h : walkDoc s d = some evs) :
    ∀ e ∈ evs, EvLinked d e := by
  unfold walkDoc walkFuel at h
  split at h
  · cases h
  · rename_i r1 h1
    split at h
    · cases h
    · rename_i r2 h2
      injection h with h
      subst h
      intro e he
      rcases List.mem_append.1 he with he | he
      · exact walkOps_lk s d hac _ d.ops _ r1 h1 e he
      · exact walkFrags_lk s d hac _ d.frags _ r2 h2 e he

end Gql.Validate
