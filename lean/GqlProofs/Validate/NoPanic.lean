import GqlProofs.Validate.Compose
import GqlProofs.Validate.WalkTerm
/-
  Panic freedom of the engine for rules whose steps never panic (C02).
-/
namespace Gql.Validate
open Gql Gql.Validate.Rules

/-- no step of the rule reaches a Go panic site (nor the model's out-of-fuel outcome) -/
def Rule.NeverPanics (r : Rule) : Prop := ∀ s d st e m, r.step s d st e ≠ .panic m

theorem neverPanics_stateless (n : Bytes) (f : SV → QueryDoc → Event → List RErr) : (Rule.stateless n f).NeverPanics := by
  intro s d st e m h
  simp [Rule.stateless] at h

theorem neverPanics_withoutSuggestions (n : Bytes) (r : Rule) (h : r.NeverPanics) : (r.withoutSuggestions n).NeverPanics := by
  intro s d st e m hm
  simp only [Rule.withoutSuggestions] at hm
  split at hm
  · cases hm
  · rename_i m' hs
    exact h s d st e m' hs

theorem stepAll_neverPanics {s : SV} {d : QueryDoc} {e : Event} :
    ∀ {rs : List Running}, (∀ r ∈ rs, r.rule.NeverPanics) → ∃ p, stepAll s d e rs = .ok p
  | [], _ => ⟨_, rfl⟩
  | r :: rs, h => by
    obtain ⟨p, hp⟩ := stepAll_neverPanics (rs := rs) (fun q hq => h q (List.mem_cons_of_mem _ hq))
    have hr := h r List.mem_cons_self
    simp only [stepAll, Running.step]
    cases hs : r.rule.step s d r.st e with
    | panic m => exact absurd hs (hr s d r.st e m)
    | ok st' errs =>
      obtain ⟨rs', errs'⟩ := p
      rw [hp]
      exact ⟨_, rfl⟩

theorem runAll_neverPanics {s : SV} {d : QueryDoc} :
    ∀ {evs : List Event} {rs : List Running}, (∀ r ∈ rs, r.rule.NeverPanics) → ∃ errs, runAll s d rs evs = .ok errs
  | [], _, _ => ⟨_, rfl⟩
  | e :: es, rs, h => by
    obtain ⟨p, hp⟩ := stepAll_neverPanics (s := s) (d := d) (e := e) h
    obtain ⟨rs', errs⟩ := p
    have hrules := (stepAll_ok hp).1
    have h' : ∀ r ∈ rs', r.rule.NeverPanics := by
      intro r hr
      have : r.rule ∈ rs'.map (·.rule) := List.mem_map.2 ⟨r, hr, rfl⟩
      rw [hrules] at this
      obtain ⟨q, hq, he⟩ := List.mem_map.1 this
      rw [← he]
      exact h q hq
    obtain ⟨errs2, h2⟩ := runAll_neverPanics (s := s) (d := d) (evs := es) h'
    exact ⟨errs ++ errs2, by simp only [runAll, hp, h2]⟩

/-- rule lists made of never-panicking rules always return an error list -/
theorem validateV_neverPanics (rs : List Rule) (s : SV) (d : QueryDoc) (h : ∀ r ∈ rs, r.NeverPanics) :
    ∃ errs, validateV rs s d = .ok errs := by
  obtain ⟨evs, hw⟩ := walkDoc_isSome s d
  have h' : ∀ q ∈ rs.map Rule.start, q.rule.NeverPanics := by
    intro q hq
    obtain ⟨r, hr, rfl⟩ := List.mem_map.1 hq
    exact h r hr
  obtain ⟨errs, he⟩ := runAll_neverPanics (s := s) (d := d) (evs := evs) h'
  exact ⟨errs, by simp only [validateV, hw, he]⟩

/-- the modelled rules in which no Go panic site (and no fuelled search) occurs -/
def panicFreeRules : List Rule :=
  [ fieldsOnCorrectType, fragmentsOnCompositeTypes, knownArgumentNames, knownDirectives, knownFragmentNames,
    knownTypeNames, loneAnonymousOperation, noUndefinedVariables, noUnusedFragments, noUnusedVariables,
    possibleFragmentSpreads, providedRequiredArguments, scalarLeafs, uniqueArgumentNames,
    uniqueDirectivesPerLocation, uniqueFragmentNames, uniqueInputFieldNames, uniqueOperationNames,
    uniqueVariableNames, variablesAreInputTypes, variablesInAllowedPosition,
    fieldsOnCorrectTypeWithoutSuggestions, knownArgumentNamesWithoutSuggestions, knownTypeNamesWithoutSuggestions,
    -- since the repairs of R2a/R2b (nil `VariableDefinition`), of `Definition.Fields[0]` and of R15
    -- (`Value.Value` on out-of-range literals) the body of ValuesOfCorrectType has no panic site left
    valuesOfCorrectType, valuesOfCorrectTypeWithoutSuggestions ]

theorem knownDirectives_neverPanics : knownDirectives.NeverPanics := by
  intro s d st e m h
  simp only [knownDirectives, knownDirectivesStep] at h
  repeat' split at h
  all_goals cases h

theorem noUnusedFragments_neverPanics : noUnusedFragments.NeverPanics := by
  intro s d st e m h
  simp only [noUnusedFragments, noUnusedFragmentsStep] at h
  repeat' split at h
  all_goals cases h

theorem uniqueFragmentNames_neverPanics : uniqueFragmentNames.NeverPanics := by
  intro s d st e m h
  simp only [uniqueFragmentNames, uniqueFragmentNamesStep] at h
  repeat' split at h
  all_goals cases h

theorem uniqueOperationNames_neverPanics : uniqueOperationNames.NeverPanics := by
  intro s d st e m h
  simp only [uniqueOperationNames, uniqueOperationNamesStep] at h
  repeat' split at h
  all_goals cases h

theorem panicFreeRules_neverPanic : ∀ r ∈ panicFreeRules, r.NeverPanics := by
  intro r hr
  simp only [panicFreeRules, List.mem_cons, List.mem_nil_iff, or_false] at hr
  rcases hr with h | h | h | h | h | h | h | h | h | h | h | h | h | h | h | h | h | h | h | h | h | h | h | h | h | h <;> subst h
  all_goals first
    | exact neverPanics_stateless _ _
    | exact knownDirectives_neverPanics
    | exact noUnusedFragments_neverPanics
    | exact uniqueFragmentNames_neverPanics
    | exact uniqueOperationNames_neverPanics
    | exact neverPanics_withoutSuggestions _ _ (neverPanics_stateless _ _)

end Gql.Validate
