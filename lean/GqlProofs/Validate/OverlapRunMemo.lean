import GqlProofs.Validate.OverlapMemo
import GqlProofs.Validate.OverlapFlatMain
/-
  OverlappingFieldsCanBeMerged: the whole run against the memo-free semantics.  On a document
  without fragment cycles the rule reports nothing iff no selection set of `Spec.docSets` has a
  derivable conflict (`overlap_silent_iff`) — the memos and the order in which the walker links
  the nodes do not change the verdict.
-/
namespace Gql.Validate
open Gql Gql.Validate.Rules

theorem step_none {s : SV} {d : QueryDoc} {st st' : OSt} {e : Event} {errs : List RErr} (hset : eventSet s e = none)
    (h : overlappingFieldsStep s d st e = .ok st' errs) : st' = st := by
  rw [overlappingFieldsStep_eq, hset] at h
  injection h with h _
  exact h.symm

section
variable (s : Schema) (d : QueryDoc) (M : MemoHyps s d)
include M

/-- the silent run keeps the fragment-pair memo refuted and refutes `TopHolds` for every observer call -/
theorem silentRun_memo : ∀ (evs : List Event) (st : OSt), PairsI s d (rkTop d) st.pairs →
    (∀ e ∈ evs, EvLinked d e) →
    (∀ e ∈ evs, ∀ p sels, eventSet s.view e = some (p, sels) → (⟨p, sels⟩ : Spec.TSet) ∈ Spec.docSets s d) →
    SilentRun s.view d st evs →
    ∀ e ∈ evs, ∀ p sels, eventSet s.view e = some (p, sels) → ¬ TopHolds (envOf s d (fullLinks d)) p sels
  | [], _, _, _, _, _, e, he => by cases he
  | e0 :: es, st, hP, hlk, hsound, hrun, e, he => by
    obtain ⟨st', hstep, hrest⟩ := hrun
    have hthis : (∀ p sels, eventSet s.view e0 = some (p, sels) → ¬ TopHolds (envOf s d (fullLinks d)) p sels) ∧
        PairsI s d (rkTop d) st'.pairs := by
      cases hset : eventSet s.view e0 with
      | none =>
        rw [step_none hset hstep]
        exact ⟨fun _ _ h => (by cases h), hP⟩
      | some ps =>
        obtain ⟨p, sels⟩ := ps
        have hr := step_silent_run hset hstep
        have ht := hsound e0 (List.mem_cons_self ..) p sels hset
        have hl := eventSet_linked s.view d (hlk e0 (List.mem_cons_self ..)) hset
        rw [overlapRun_congr p sels st ⟨hl, docSets_linkedAll ht⟩] at hr
        have := overlapRun_memo M ⟨p, sels⟩ ht st hP _ hr rfl
        refine ⟨fun p' sels' h => ?_, this.2⟩
        injection h with h
        injection h with h1 h2
        subst h1 h2
        exact this.1
    rcases List.mem_cons.1 he with rfl | he
    · exact hthis.1
    · exact silentRun_memo es st' hthis.2 (fun x hx => hlk x (List.mem_cons_of_mem _ hx))
        (fun x hx => hsound x (List.mem_cons_of_mem _ hx)) hrest e he

/-- **the rule against its memo-free semantics**: on a document without fragment cycles (unique
    fragment names, every fragment used) OverlappingFieldsCanBeMerged reports nothing iff no selection
    set of the document has a derivable conflict -/
theorem overlap_silent_iff (hu : Spec.fragmentNameUniqueness d = true) (hused : Spec.fragmentsMustBeUsed d = true) :
    validate [overlappingFieldsCanBeMerged] s d = .ok [] ↔
      ∀ t ∈ Spec.docSets s d, ¬ TopHolds (envOf s d (fullLinks d)) t.parent t.sels := by
  obtain ⟨evs, hw⟩ := walkDoc_isSome s.view d
  have hlk := walkDoc_evLinked s.view d M.acyclic evs hw
  have hsound := eventSet_sound s d evs hw M.H.wp
  rw [validate_overlap_nil s d evs hw]
  constructor
  · intro hrun t ht
    obtain ⟨e, he, hset⟩ := eventSet_complete s d evs hw M.H.wp hu M.acyclic hused t ht
    exact silentRun_memo s d M evs OSt.init (fun _ _ _ _ _ _ hh => by simp [OSt.init, Pairs.has] at hh) hlk hsound hrun
      e he _ _ hset
  · intro hclean
    refine silentRun_of_clean s.view d evs OSt.init PSym_nil (fun e he p sels hset hth => ?_)
    have ht := hsound e he p sels hset
    exact hclean _ ht (topHolds_transport s.view d _ _ _ _ (eventSet_linked s.view d (hlk e he) hset) (docSets_linkedAll ht) hth)

end

end Gql.Validate
