import GqlProofs.Validate.OverlapSound
import GqlModel.Validate.Spec.Fields
/-
  OverlappingFieldsCanBeMerged, completeness (C08): correspondences between what the rule model
  computes on its collected fields (`FInfo`) and what the specification computes on its merged
  fields (`Spec.MField`).

  * `toM`: the specification's view of a collected field;
  * `sameArguments` of the model IS `Spec.sameArguments` (`sameArguments_eq_spec`);
  * `doTypesConflict` is the negation of the wrapper/leaf test of `SameResponseShape`
    (`doTypesConflict_eq`), for schemas whose type table is keyed by the names of its definitions;
  * `goExcl` (the rule's "parents are two different Object types") is the negation of the
    specification's `mayOverlap` test when both parents are determined and both fields defined.
-/
namespace Gql.Validate
open Gql Gql.Validate.Rules

/-- the specification's view of a collected field -/
def toM (f : FInfo) : Spec.MField :=
  { parent := f.sparent, alias := f.node.alias, name := f.node.name, args := f.node.args, sel := f.node.sel }

theorem toM_key (f : FInfo) : (toM f).key = responseName f.node := by
  unfold Spec.MField.key responseName toM
  by_cases h : f.node.alias = []
  · simp [h]
  · simp [h]

/- ---------- arguments ---------- -/

mutual
  theorem sameValue_eq_spec : ∀ (v1 v2 : Value), sameValue v1 v2 = Spec.sameValue v1 v2
    | .mk k1 r1 c1 p1, .mk k2 r2 c2 p2 => by
      unfold sameValue Spec.sameValue
      simp only [Value.kind, Value.raw, Value.children]
      by_cases hk : k1 = .object
      · subst hk
        simp only [beq_self_eq_true, if_true]
        rw [sameChildren_fields_spec c1 c2 c2]
        simp only [Bool.and_assoc]
      · have hk' : (k1 == ValueKind.object) = false := by simpa using hk
        simp only [hk', Bool.false_eq_true, if_false]
        rw [← sameChildren_items_spec c1 c2 c2]
        simp only [Bool.and_assoc]
  theorem sameChildren_fields_spec : ∀ (c1 r2 all2 : Children),
      sameChildren true c1 r2 all2 = Spec.sameFields c1 all2
    | .nil, _, _ => by simp [sameChildren, Spec.sameFields]
    | .cons n1 v1 p1 rest1, r2, all2 => by
      unfold sameChildren Spec.sameFields
      simp only [if_true]
      rw [sameChildren_fields_spec rest1 (childrenTail r2) all2, ← sameFieldIn_spec n1 v1 all2]
      rfl
  theorem sameFieldIn_spec (n1 : Name) (v1 : Value) : ∀ (c : Children),
      (match findChild c n1 with | none => false | some v2 => sameValue v1 v2) = Spec.sameFieldIn n1 v1 c
    | .nil => by simp [findChild, Spec.sameFieldIn]
    | .cons n2 v2 p2 rest => by
      unfold findChild Spec.sameFieldIn
      by_cases h : n2 = n1
      · subst h
        simp only [beq_self_eq_true, if_true]
        exact sameValue_eq_spec v1 v2
      · have h1 : (n2 == n1) = false := by simpa using h
        have h2 : (n1 == n2) = false := by simpa using (fun e => h e.symm)
        simp only [h1, h2, Bool.false_eq_true, if_false]
        exact sameFieldIn_spec n1 v1 rest
  theorem sameChildren_items_spec : ∀ (c1 r2 all2 : Children),
      (c1.length == r2.length && sameChildren false c1 r2 all2) = Spec.sameItems c1 r2
    | .nil, .nil, _ => by simp [sameChildren, Spec.sameItems, Children.length]
    | .nil, .cons _ _ _ _, _ => by simp [Spec.sameItems, Children.length]
    | .cons n1 v1 p1 rest1, .nil, _ => by simp [Spec.sameItems, Children.length]
    | .cons n1 v1 p1 rest1, .cons n2 v2 p2 rest2, all2 => by
      unfold sameChildren Spec.sameItems
      simp only [Bool.false_eq_true, if_false, childrenTail, Children.length]
      rw [← sameChildren_items_spec rest1 rest2 all2, sameValue_eq_spec v1 v2]
      have : (rest1.length + 1 == rest2.length + 1) = (rest1.length == rest2.length) := by
        simp
      rw [this]
      cases (rest1.length == rest2.length) <;> cases Spec.sameValue v1 v2 <;> simp
end

theorem sameArguments_eq_spec (as bs : List Argument) : sameArguments as bs = Spec.sameArguments as bs := by
  unfold sameArguments Spec.sameArguments
  congr 1
  congr 1
  funext a
  congr 1
  funext b
  rw [sameValue_eq_spec]

/- ---------- types ---------- -/

/-- the leaf test of `SameResponseShape` at two named types -/
def specNamed (s : Schema) (x y : Name) : Bool :=
  match s.type? x, s.type? y with
  | some dx, some dy => if Spec.isLeaf dx || Spec.isLeaf dy then x == y else true
  | _, _ => true

/-- the type table is keyed by the names of the definitions (loaded schemas: `Closed.keys`) -/
def KeysOK (s : Schema) : Prop := ∀ n t, s.type? n = some t → t.name = n

theorem isLeafType_eq_isLeaf (t : Definition) : isLeafType t = Spec.isLeaf t := by
  unfold isLeafType Spec.isLeaf
  exact Bool.or_comm _ _

theorem doTypesConflict_eq (s : Schema) (hk : KeysOK s) : ∀ (t1 t2 : GType),
    doTypesConflict s.view t1 t2 = !Spec.sameWrappers (specNamed s) t1 t2
  | .list e1 nn1 _, .list e2 nn2 _ => by
    unfold doTypesConflict Spec.sameWrappers
    rw [doTypesConflict_eq s hk e1 e2]
    cases nn1 <;> cases nn2 <;> simp
  | .list _ _ _, .named _ _ _ => by simp [doTypesConflict, Spec.sameWrappers]
  | .named _ _ _, .list _ _ _ => by simp [doTypesConflict, Spec.sameWrappers]
  | .named n1 nn1 _, .named n2 nn2 _ => by
    unfold doTypesConflict Spec.sameWrappers specNamed
    simp only [Schema.view]
    cases h1 : s.type? n1 with
    | none => cases nn1 <;> cases nn2 <;> simp
    | some t1 =>
      cases h2 : s.type? n2 with
      | none => cases nn1 <;> cases nn2 <;> simp
      | some t2 =>
        simp only [isLeafType_eq_isLeaf, hk n1 t1 h1, hk n2 t2 h2]
        cases nn1 <;> cases nn2 <;> cases (Spec.isLeaf t1 || Spec.isLeaf t2) <;> simp [bne]

end Gql.Validate
