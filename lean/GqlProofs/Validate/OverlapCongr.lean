import GqlProofs.Validate.OverlapLinks
/-
  OverlappingFieldsCanBeMerged: an observer call computes the same under two link tables in both
  of which everything reachable from its selection set is linked (`overlapRun_congr`).
-/
namespace Gql.Validate
open Gql Gql.Validate.Rules

theorem stLoop_congr {α : Type} {f g : α → OSt → Option (OSt × List Conflict)} :
    ∀ (xs : List α), (∀ x ∈ xs, ∀ st, f x st = g x st) → ∀ st, stLoop f xs st = stLoop g xs st
  | [], _, _ => rfl
  | x :: rest, h, st => by
    simp only [stLoop]
    rw [h x (List.mem_cons_self ..) st]
    cases g x st with
    | none => rfl
    | some r1 =>
      obtain ⟨st1, c1⟩ := r1
      simp only
      rw [stLoop_congr rest (fun y hy => h y (List.mem_cons_of_mem _ hy)) st1]

section
variable (s : SV) (d : QueryDoc) (l l' : Links)

/-- both tables link everything below the field -/
def BothBelow (a : FInfo) : Prop := LinkedAll l d a.node.sel ∧ LinkedAll l' d a.node.sel

def BothSels (sels : Selections) : Prop := LinkedAll l d sels ∧ LinkedAll l' d sels

def BothSpread (sp : SpreadNode) : Prop := SpreadLinked l d sp ∧ SpreadLinked l' d sp

variable {s d l l'}

theorem BothSels.fields {sels : Selections} (h : BothSels d l l' sels) (p : Option Definition) :
    collectFields s l p sels = collectFields s l' p sels := collectFields_linked_congr s p h.1 h.2

theorem BothSels.get {sels : Selections} (h : BothSels d l l' sels) (p : Option Definition) :
    getFieldsAndFragmentNames s l p sels = getFieldsAndFragmentNames s l' p sels := by
  unfold getFieldsAndFragmentNames
  rw [h.fields p]

theorem BothSels.sub {sels : Selections} (h : BothSels d l l' sels) {p : Option Definition} {f : FInfo}
    (hf : f ∈ collectFields s l p sels) : BothBelow d l l' f := ⟨h.1.sub hf, h.2.sub hf⟩

theorem BothSels.spread {sels : Selections} (h : BothSels d l l' sels) {sp : SpreadNode} (hsp : sp ∈ collectSpreads sels) :
    BothSpread d l l' sp := ⟨h.1.spread hsp, h.2.spread hsp⟩

theorem BothSpread.def_eq {sp : SpreadNode} (h : BothSpread d l l' sp) :
    l.spreadDef d sp.name sp.pos = l'.spreadDef d sp.name sp.pos := by
  rw [spreadDef_linked h.1.1, spreadDef_linked h.2.1]

theorem BothSpread.frag {sp : SpreadNode} (h : BothSpread d l l' sp) {F : FragmentDef}
    (hF : l.spreadDef d sp.name sp.pos = some F) : BothSels d l l' F.sel := by
  rw [spreadDef_linked h.1.1] at hF
  exact ⟨h.1.2 F hF, h.2.2 F hF⟩

/-- two `findConflict`s that agree on fields linked in both tables -/
def FCEq (d : QueryDoc) (l l' : Links) (fc fc' : FC) : Prop :=
  ∀ excl a b st, BothBelow d l l' a → BothBelow d l l' b → fc excl a b st = fc' excl a b st

theorem between_congr {fc fc' : FC} (h : FCEq d l l' fc fc') (excl : Bool) (LA LB : List FInfo)
    (hA : ∀ a ∈ LA, BothBelow d l l' a) (hB : ∀ b ∈ LB, BothBelow d l l' b) (st : OSt) :
    collectConflictsBetween fc excl (fmOfList LB) (fmOfList LA) st =
      collectConflictsBetween fc' excl (fmOfList LB) (fmOfList LA) st := by
  rw [between_eq, between_eq]
  apply stLoop_congr
  intro e he st1
  unfold betweenStep
  cases hg : fmGet (fmOfList LB) e.1 with
  | none => rfl
  | some fsB =>
    simp only
    apply stLoop_congr
    intro fa hfa st2
    apply stLoop_congr
    intro fb hfb st3
    unfold fcStep
    have hb : fb ∈ bucket LB e.1 := by rw [← fmGet_mem hg]; exact hfb
    rw [h excl fa fb st3 (hA fa (entry_mem e he fa hfa).1) (hB fb (mem_bucket.1 hb).1)]

theorem between_congr' {fc fc' : FC} (h : FCEq d l l' fc fc') (excl : Bool) (A B : FMap) (LA LB : List FInfo)
    (eA : A = fmOfList LA) (eB : B = fmOfList LB)
    (hA : ∀ a ∈ LA, BothBelow d l l' a) (hB : ∀ b ∈ LB, BothBelow d l l' b) (st : OSt) :
    collectConflictsBetween fc excl B A st = collectConflictsBetween fc' excl B A st := by
  subst eA eB
  exact between_congr h excl LA LB hA hB st

theorem pairTriangle_congr {fc fc' : FC} (h : FCEq d l l' fc fc') :
    ∀ (fs : List FInfo), (∀ a ∈ fs, BothBelow d l l' a) → ∀ st, pairTriangle fc fs st = pairTriangle fc' fs st
  | [], _, _ => rfl
  | fa :: rest, hA, st => by
    simp only [pairTriangle, pairRow_eq]
    have : stLoop (fcStep fc false fa) rest st = stLoop (fcStep fc' false fa) rest st := by
      apply stLoop_congr
      intro fb hfb st1
      unfold fcStep
      rw [h false fa fb st1 (hA fa (List.mem_cons_self ..)) (hA fb (List.mem_cons_of_mem _ hfb))]
    rw [this]
    cases stLoop (fcStep fc' false fa) rest st with
    | none => rfl
    | some r1 =>
      obtain ⟨st1, c1⟩ := r1
      simp only
      rw [pairTriangle_congr h rest (fun a ha => hA a (List.mem_cons_of_mem _ ha)) st1]

theorem within_congr {fc fc' : FC} (h : FCEq d l l' fc fc') :
    ∀ (A : FMap), (∀ e ∈ A, ∀ a ∈ e.2, BothBelow d l l' a) → ∀ st,
      collectConflictsWithin fc A st = collectConflictsWithin fc' A st
  | [], _, _ => rfl
  | (rn, fs) :: rest, hA, st => by
    simp only [collectConflictsWithin]
    rw [pairTriangle_congr h fs (hA (rn, fs) (List.mem_cons_self ..)) st]
    cases pairTriangle fc' fs st with
    | none => rfl
    | some r1 =>
      obtain ⟨st1, c1⟩ := r1
      simp only
      rw [within_congr h rest (fun e he => hA e (List.mem_cons_of_mem _ he)) st1]

theorem chain_congr {fc fc' : FC} (h : FCEq d l l' fc fc') (excl : Bool) {p : Option Definition} {sels : Selections}
    (hs : BothSels d l l' sels) :
    ∀ n sp st, BothSpread d l l' sp →
      chain (envV s d l) fc excl (getFieldsAndFragmentNames s l p sels).1 n sp st =
        chain (envV s d l') fc' excl (getFieldsAndFragmentNames s l p sels).1 n sp st
  | 0, _, _, _ => rfl
  | n + 1, sp, st, hsp => by
    unfold chain
    simp only
    split
    · rfl
    · have hd : (envV s d l).l.spreadDef (envV s d l).d sp.name sp.pos =
          (envV s d l').l.spreadDef (envV s d l').d sp.name sp.pos := hsp.def_eq
      rw [← hd]
      cases hF : (envV s d l).l.spreadDef (envV s d l).d sp.name sp.pos with
      | none => rfl
      | some F =>
        have hFs : BothSels d l l' F.sel := hsp.frag hF
        have hff : (envV s d l).fragFields F = (envV s d l').fragFields F := hFs.get _
        simp only
        rw [← hff]
        split
        · rfl
        · rw [between_congr' h excl _ _ (collectFields s l p sels) (collectFields s l ((envV s d l).s.type? F.typeCond) F.sel) (by rfl) (by rfl)
            (fun a ha => hs.sub ha) (fun b hb => hFs.sub hb) _]
          split
          · rfl
          · rename_i st2 c1 _
            have e : stLoop (chain (envV s d l) fc excl (getFieldsAndFragmentNames s l p sels).1 n)
                (List.filter (fun x => x.name != sp.name) ((envV s d l).fragFields F).2) st2 =
              stLoop (chain (envV s d l') fc' excl (getFieldsAndFragmentNames s l p sels).1 n)
                (List.filter (fun x => x.name != sp.name) ((envV s d l).fragFields F).2) st2 :=
              stLoop_congr _ (fun sp' hsp' st' => chain_congr h excl hs n sp' st' (hFs.spread (List.mem_filter.1 hsp').1)) st2
            rw [e]

theorem check_congr {fc fc' : FC} (h : FCEq d l l' fc fc') (excl : Bool) :
    ∀ n a b st, BothSpread d l l' a → BothSpread d l l' b →
      check (envV s d l) fc excl n a b st = check (envV s d l') fc' excl n a b st
  | 0, _, _, _, _, _ => rfl
  | n + 1, a, b, st, ha, hb => by
    unfold check
    simp only
    split
    · rfl
    · split
      · rfl
      · have hda : (envV s d l).l.spreadDef (envV s d l).d a.name a.pos =
            (envV s d l').l.spreadDef (envV s d l').d a.name a.pos := ha.def_eq
        have hdb : (envV s d l).l.spreadDef (envV s d l).d b.name b.pos =
            (envV s d l').l.spreadDef (envV s d l').d b.name b.pos := hb.def_eq
        rw [← hda, ← hdb]
        cases hA : (envV s d l).l.spreadDef (envV s d l).d a.name a.pos with
        | none => rfl
        | some A =>
          cases hB : (envV s d l).l.spreadDef (envV s d l).d b.name b.pos with
          | none => rfl
          | some B =>
            have hAs : BothSels d l l' A.sel := ha.frag hA
            have hBs : BothSels d l l' B.sel := hb.frag hB
            have hfa : (envV s d l).fragFields A = (envV s d l').fragFields A := hAs.get _
            have hfb : (envV s d l).fragFields B = (envV s d l').fragFields B := hBs.get _
            simp only
            rw [← hfa, ← hfb]
            rw [between_congr' h excl _ _ (collectFields s l ((envV s d l).s.type? A.typeCond) A.sel)
              (collectFields s l ((envV s d l).s.type? B.typeCond) B.sel) (by rfl) (by rfl)
              (fun x hx => hAs.sub hx) (fun x hx => hBs.sub hx) _]
            split
            · rfl
            · rename_i st2 c1 _
              have e2 : stLoop (fun x => check (envV s d l) fc excl n a x) ((envV s d l).fragFields B).2 st2 =
                  stLoop (fun x => check (envV s d l') fc' excl n a x) ((envV s d l).fragFields B).2 st2 :=
                stLoop_congr _ (fun x hx st' => check_congr h excl n a x st' ha (hBs.spread hx)) st2
              rw [e2]
              split
              · rfl
              · rename_i st3 c2 _
                have e3 : stLoop (fun x => check (envV s d l) fc excl n x b) ((envV s d l).fragFields A).2 st3 =
                    stLoop (fun x => check (envV s d l') fc' excl n x b) ((envV s d l).fragFields A).2 st3 :=
                  stLoop_congr _ (fun x hx st' => check_congr h excl n x b st' (hAs.spread hx) hb) st3
                rw [e3]

theorem subSets_congr {fc fc' : FC} (h : FCEq d l l' fc fc') (excl : Bool) {a b : FInfo}
    (ha : BothBelow d l l' a) (hb : BothBelow d l l' b) (st : OSt) :
    findConflictsBetweenSubSelectionSets (envV s d l) fc excl a b st =
      findConflictsBetweenSubSelectionSets (envV s d l') fc' excl a b st := by
  have hA : BothSels d l l' a.node.sel := ha
  have hB : BothSels d l l' b.node.sel := hb
  unfold findConflictsBetweenSubSelectionSets
  have eA : getFieldsAndFragmentNames (envV s d l).s (envV s d l).l (a.next (envV s d l).s) a.node.sel =
      getFieldsAndFragmentNames (envV s d l').s (envV s d l').l (a.next (envV s d l').s) a.node.sel := hA.get _
  have eB : getFieldsAndFragmentNames (envV s d l).s (envV s d l).l (b.next (envV s d l).s) b.node.sel =
      getFieldsAndFragmentNames (envV s d l').s (envV s d l').l (b.next (envV s d l').s) b.node.sel := hB.get _
  simp only
  rw [← eA, ← eB]
  rw [between_congr' h excl _ _ (collectFields s l (a.next s) a.node.sel) (collectFields s l (b.next s) b.node.sel) (by rfl) (by rfl)
    (fun x hx => hA.sub hx) (fun x hx => hB.sub hx) _]
  split
  · rfl
  · rename_i st1 c1 _
    have e2 : stLoop (fieldsAndFragment (envV s d l) fc excl
          (getFieldsAndFragmentNames (envV s d l).s (envV s d l).l (a.next (envV s d l).s) a.node.sel).1)
          (getFieldsAndFragmentNames (envV s d l).s (envV s d l).l (b.next (envV s d l).s) b.node.sel).2 st1 =
        stLoop (fieldsAndFragment (envV s d l') fc' excl
          (getFieldsAndFragmentNames (envV s d l).s (envV s d l).l (a.next (envV s d l).s) a.node.sel).1)
          (getFieldsAndFragmentNames (envV s d l).s (envV s d l).l (b.next (envV s d l).s) b.node.sel).2 st1 :=
      stLoop_congr _ (fun sp hsp st' => chain_congr h excl hA _ sp st' (hB.spread hsp)) st1
    rw [e2]
    split
    · rfl
    · rename_i st2 c2 _
      have e3 : stLoop (fieldsAndFragment (envV s d l) fc excl
            (getFieldsAndFragmentNames (envV s d l).s (envV s d l).l (b.next (envV s d l).s) b.node.sel).1)
            (getFieldsAndFragmentNames (envV s d l).s (envV s d l).l (a.next (envV s d l).s) a.node.sel).2 st2 =
          stLoop (fieldsAndFragment (envV s d l') fc' excl
            (getFieldsAndFragmentNames (envV s d l).s (envV s d l).l (b.next (envV s d l).s) b.node.sel).1)
            (getFieldsAndFragmentNames (envV s d l).s (envV s d l).l (a.next (envV s d l).s) a.node.sel).2 st2 :=
        stLoop_congr _ (fun sp hsp st' => chain_congr h excl hB _ sp st' (hA.spread hsp)) st2
      rw [e3]
      split
      · rfl
      · rename_i st3 c3 _
        have e4 : stLoop (fun sa => stLoop (collectConflictsBetweenFragments (envV s d l) fc excl sa)
              (getFieldsAndFragmentNames (envV s d l).s (envV s d l).l (b.next (envV s d l).s) b.node.sel).2)
              (getFieldsAndFragmentNames (envV s d l).s (envV s d l).l (a.next (envV s d l).s) a.node.sel).2 st3 =
            stLoop (fun sa => stLoop (collectConflictsBetweenFragments (envV s d l') fc' excl sa)
              (getFieldsAndFragmentNames (envV s d l).s (envV s d l).l (b.next (envV s d l).s) b.node.sel).2)
              (getFieldsAndFragmentNames (envV s d l).s (envV s d l).l (a.next (envV s d l).s) a.node.sel).2 st3 :=
          stLoop_congr _ (fun sa hsa st' => stLoop_congr _ (fun sb hsb st'' =>
            check_congr h excl _ sa sb st'' (hA.spread hsa) (hB.spread hsb)) st') st3
        rw [e4]

theorem findConflictBody_congr (sv : SV) {sub sub' : Bool → FInfo → FInfo → OSt → Option (OSt × List Conflict)}
    (pe : Bool) (a b : FInfo) (st : OSt) (h : ∀ excl st1, sub excl a b st1 = sub' excl a b st1) :
    findConflictBody sv sub pe a b st = findConflictBody sv sub' pe a b st := by
  unfold findConflictBody
  simp only [h]

theorem fcLevel_congr : ∀ k, FCEq d l l' (fcLevel (envV s d l) k) (fcLevel (envV s d l') k)
  | 0 => fun _ _ _ _ _ _ => rfl
  | k + 1 => by
    intro excl a b st ha hb
    simp only [fcLevel]
    exact findConflictBody_congr s excl a b st (fun excl' st1 => subSets_congr (fcLevel_congr k) excl' ha hb st1)

theorem withinLoop_congr {fc fc' : FC} (h : FCEq d l l' fc fc') {p : Option Definition} {sels : Selections}
    (hs : BothSels d l l' sels) :
    ∀ (sps : List SpreadNode), (∀ sp ∈ sps, BothSpread d l l' sp) → ∀ st,
      withinLoop (envV s d l) fc (getFieldsAndFragmentNames s l p sels).1 sps st =
        withinLoop (envV s d l') fc' (getFieldsAndFragmentNames s l p sels).1 sps st
  | [], _, _ => rfl
  | sa :: rest, hsp, st => by
    simp only [withinLoop]
    have e1 : fieldsAndFragment (envV s d l) fc false (getFieldsAndFragmentNames s l p sels).1 sa st =
        fieldsAndFragment (envV s d l') fc' false (getFieldsAndFragmentNames s l p sels).1 sa st :=
      chain_congr h false hs _ sa st (hsp sa (List.mem_cons_self ..))
    rw [e1]
    split
    · rfl
    · rename_i st1 c1 _
      have e2 : stLoop (collectConflictsBetweenFragments (envV s d l) fc false sa) rest st1 =
          stLoop (collectConflictsBetweenFragments (envV s d l') fc' false sa) rest st1 :=
        stLoop_congr _ (fun sb hsb st' => check_congr h false _ sa sb st' (hsp sa (List.mem_cons_self ..))
          (hsp sb (List.mem_cons_of_mem _ hsb))) st1
      rw [e2]
      split
      · rfl
      · rename_i st2 c2 _
        rw [withinLoop_congr h hs rest (fun sp hsp' => hsp sp (List.mem_cons_of_mem _ hsp')) st2]

/-- one observer call under two link tables in which everything reachable is linked -/
theorem overlapRun_congr (p : Option Definition) (sels : Selections) (st : OSt) (hs : BothSels d l l' sels) :
    overlapRun s d l p sels st = overlapRun s d l' p sels st := by
  unfold overlapRun findConflictsWithinSelectionSet
  simp only
  split
  · rfl
  · have eg : getFieldsAndFragmentNames (overlapEnv s d l).s (overlapEnv s d l).l p sels =
        getFieldsAndFragmentNames (overlapEnv s d l').s (overlapEnv s d l').l p sels := hs.get p
    rw [← eg]
    have hfc := fcLevel_congr (s := s) (d := d) (l := l) (l' := l') (overlapFuel d sels)
    rw [within_congr hfc (getFieldsAndFragmentNames (overlapEnv s d l).s (overlapEnv s d l).l p sels).1.map
      (fun e he a ha => hs.sub (entry_mem (L := collectFields s l p sels) e he a ha).1)]
    generalize collectConflictsWithin (fcLevel (overlapEnv s d l') (overlapFuel d sels))
      (getFieldsAndFragmentNames (overlapEnv s d l).s (overlapEnv s d l).l p sels).1.map { st with seen := [] } = X
    cases X with
    | none => rfl
    | some r1 =>
      obtain ⟨st1, c1⟩ := r1
      have e2 : withinLoop (overlapEnv s d l) (fcLevel (overlapEnv s d l) (overlapFuel d sels))
            (getFieldsAndFragmentNames (overlapEnv s d l).s (overlapEnv s d l).l p sels).1
            (getFieldsAndFragmentNames (overlapEnv s d l).s (overlapEnv s d l).l p sels).2 st1 =
          withinLoop (overlapEnv s d l') (fcLevel (overlapEnv s d l') (overlapFuel d sels))
            (getFieldsAndFragmentNames (overlapEnv s d l).s (overlapEnv s d l).l p sels).1
            (getFieldsAndFragmentNames (overlapEnv s d l).s (overlapEnv s d l).l p sels).2 st1 :=
        withinLoop_congr (s := s) (p := p) hfc hs (getFieldsAndFragmentNames (overlapEnv s d l).s (overlapEnv s d l).l p sels).2
          (fun sp hsp => hs.spread hsp) st1
      simp only
      rw [e2]

end

end Gql.Validate
