import GqlProofs.Validate.OverlapCost
import GqlProofs.Validate.OverlapArgs
/-
  OverlappingFieldsCanBeMerged: soundness of the reported conflicts (C08, partial).

  `Sound s U pe c`: the conflict message `c`, produced while the parent fields were
  (`pe = true`) / were not (`pe = false`) known to be mutually exclusive, is backed by two field
  nodes `a`, `b` of the universe `U` (the selection set the observer was called for and the
  fragment definitions — `univOf`) with the SAME response name such that
    * "different fields":       no enclosing pair and not `a`,`b` themselves are exclusive
                                (`goExcl`: both parents are Object types with different names and
                                both field definitions are known), and the field names differ;
    * "differing arguments":    the same, the names are equal, and `¬ ArgsSame` (OverlapArgs);
    * "conflicting types":      both field definitions are known and `doTypesConflict` holds of
                                their types (this branch is taken for exclusive parents as well,
                                as §5.3.2 SameResponseShape demands);
    * "subfields":              a non-empty list of conflicts that are sound in the context
                                `pe || goExcl a b`.
  So the first two kinds are only ever reported for two same-named-response fields that the rule
  could NOT prove to lie on different object types — a spec-valid document (where
  FieldsInSetCanMerge demands equal names and identical arguments for exactly such pairs) is never
  rejected by those branches.

  What is not proved here (completeness, and that `a`,`b` are reachable from the two parents —
  the sub-selection sets followed through fragment spreads): see Props/C08.lean.
-/
namespace Gql.Validate
open Gql Gql.Validate.Rules

/-- `findConflict`'s own exclusivity test -/
def goExcl (a b : FInfo) : Bool :=
  match a.obj, b.obj with
  | some oa, some ob =>
    oa.name != ob.name && oa.kind == .object && ob.kind == .object && a.dfn.isSome && b.dfn.isSome
  | _, _ => false

inductive Sound (s : SV) (U : Univ) : Bool → Conflict → Prop
  | differentFields {pe : Bool} {a b : FInfo} :
      Good U a → Good U b → responseName a.node = responseName b.node →
      pe = false → goExcl a b = false → a.node.name ≠ b.node.name →
      Sound s U pe (.mk (responseName a.node) (dq a.node.name ++ andSep ++ dq b.node.name ++ msgDifferentFields) []
        b.node.pos)
  | differingArguments {pe : Bool} {a b : FInfo} :
      Good U a → Good U b → responseName a.node = responseName b.node →
      pe = false → goExcl a b = false → a.node.name = b.node.name → ¬ ArgsSame a.node.args b.node.args →
      Sound s U pe (.mk (responseName a.node) msgDifferingArguments [] b.node.pos)
  | conflictingTypes {pe : Bool} {a b : FInfo} {da db : FieldDef} :
      Good U a → Good U b → responseName a.node = responseName b.node →
      a.dfn = some da → b.dfn = some db → doTypesConflict s da.type db.type = true →
      Sound s U pe (.mk (responseName a.node) (typesConflictMsg da.type db.type) [] b.node.pos)
  | subfields {pe : Bool} {a b : FInfo} {c : Conflict} {cs : List Conflict} :
      Good U a → Good U b → responseName a.node = responseName b.node →
      (∀ x ∈ c :: cs, Sound s U (pe || goExcl a b) x) →
      Sound s U pe (.mk (responseName a.node) [] (c :: cs) b.node.pos)

/-- all conflicts of a list are sound in context `pe` -/
def AllSound (s : SV) (U : Univ) (pe : Bool) (cs : List Conflict) : Prop := ∀ c ∈ cs, Sound s U pe c

theorem allSound_nil {s : SV} {U : Univ} {pe : Bool} : AllSound s U pe [] := fun _ h => by cases h

theorem allSound_append {s : SV} {U : Univ} {pe : Bool} {xs ys : List Conflict}
    (hx : AllSound s U pe xs) (hy : AllSound s U pe ys) : AllSound s U pe (xs ++ ys) := by
  intro c hc
  rcases List.mem_append.1 hc with h | h
  · exact hx c h
  · exact hy c h

/- ---------- field maps are keyed by response name ---------- -/

/-- good, and filed under its response name -/
def GoodK (U : Univ) (k : Name) (f : FInfo) : Prop := Good U f ∧ responseName f.node = k

def GoodMapK (U : Univ) (A : FMap) : Prop := ∀ e ∈ A, ∀ f ∈ e.2, GoodK U e.1 f

theorem fmPush_allK (Q : Name → FInfo → Prop) (rn : Name) (f0 : FInfo) (h0 : Q rn f0) :
    ∀ m : FMap, (∀ e ∈ m, ∀ f ∈ e.2, Q e.1 f) → ∀ e ∈ fmPush rn f0 m, ∀ f ∈ e.2, Q e.1 f
  | [], _, e, he, f, hf => by
    simp only [fmPush, List.mem_singleton] at he
    subst he
    simp only [List.mem_singleton] at hf
    subst hf
    exact h0
  | (k, fs) :: rest, hm, e, he, f, hf => by
    simp only [fmPush] at he
    split at he
    · rename_i hk
      have hk' : k = rn := by simpa using hk
      rcases List.mem_cons.1 he with he | he
      · subst he
        rcases List.mem_append.1 hf with hf | hf
        · exact hm (k, fs) (List.mem_cons_self ..) f hf
        · simp only [List.mem_singleton] at hf
          subst hf
          simp only
          rw [hk']
          exact h0
      · exact hm e (List.mem_cons_of_mem _ he) f hf
    · rcases List.mem_cons.1 he with he | he
      · subst he
        exact hm (k, fs) (List.mem_cons_self ..) f hf
      · exact fmPush_allK Q rn f0 h0 rest (fun e' he' => hm e' (List.mem_cons_of_mem _ he')) e he f hf

theorem fmOfList_allK (Q : Name → FInfo → Prop) (fs : List FInfo) (h : ∀ f ∈ fs, Q (responseName f.node) f) :
    ∀ e ∈ fmOfList fs, ∀ f ∈ e.2, Q e.1 f := by
  unfold fmOfList
  suffices hgen : ∀ (fs : List FInfo) (m : FMap), (∀ f ∈ fs, Q (responseName f.node) f) →
      (∀ e ∈ m, ∀ f ∈ e.2, Q e.1 f) →
      ∀ e ∈ fs.foldl (fun m f => fmPush (responseName f.node) f m) m, ∀ f ∈ e.2, Q e.1 f from
    hgen fs [] h (fun e he => by cases he)
  intro fs
  induction fs with
  | nil => intro m _ hm; exact hm
  | cons f0 rest ih =>
    intro m hfs hm
    simp only [List.foldl_cons]
    exact ih _ (fun f hf => hfs f (List.mem_cons_of_mem _ hf))
      (fmPush_allK Q _ f0 (hfs f0 (List.mem_cons_self ..)) m hm)

theorem goodMapK_collect {U : Univ} (s : SV) (l : Links) (parent : Option Definition) (sels : Selections)
    (h : ∀ x ∈ allFields sels, x ∈ U) : GoodMapK U (getFieldsAndFragmentNames s l parent sels).1.map := by
  unfold getFieldsAndFragmentNames
  exact fmOfList_allK (GoodK U) _ fun f hf => ⟨h _ (collectFields_mem s l sels parent f hf), rfl⟩

theorem goodMapK_sub {U : Univ} (hcl : UClosed U) (s : SV) (l : Links) (parent : Option Definition) {a : FInfo}
    (ha : Good U a) : GoodMapK U (getFieldsAndFragmentNames s l parent a.node.sel).1.map :=
  goodMapK_collect s l parent a.node.sel (hcl _ _ ha)

theorem goodMapK_frag {U : Univ} (env : Env) (hfr : UFrags env.d U) {f : FragmentDef} (hf : f ∈ env.d.frags) :
    GoodMapK U (env.fragFields f).1.map := by
  unfold Env.fragFields
  exact goodMapK_collect _ _ _ f.sel (hfr f hf)

theorem goodMapK_get {U : Univ} {B : FMap} (hB : GoodMapK U B) {rn : Name} {fs : List FInfo}
    (h : fmGet B rn = some fs) : ∀ f ∈ fs, GoodK U rn f :=
  fun f hf => hB (rn, fs) (lookup_mem rn fs B h) f hf

/- ---------- loops over `findConflict` ---------- -/

/-- whatever `findConflict` reports for two good fields of one response name is sound -/
def FCSound (s : SV) (U : Univ) (fc : FC) : Prop :=
  ∀ excl a b st r, Good U a → Good U b → responseName a.node = responseName b.node →
    fc excl a b st = some r → AllSound s U excl (optToList r.2)

theorem pairRow_sound {s : SV} {U : Univ} {fc : FC} (hfc : FCSound s U fc) (excl : Bool) {k : Name}
    {fa : FInfo} (ha : GoodK U k fa) : ∀ (fbs : List FInfo), (∀ f ∈ fbs, GoodK U k f) → ∀ st r,
      pairRow fc excl fa fbs st = some r → AllSound s U excl r.2
  | [], _, st, r, h => by
    simp only [pairRow] at h
    injection h with h
    subst h
    exact allSound_nil
  | fb :: rest, hb, st, r, h => by
    simp only [pairRow] at h
    cases h1 : fc excl fa fb st with
    | none => rw [h1] at h; cases h
    | some r1 =>
      obtain ⟨st1, c⟩ := r1
      rw [h1] at h
      simp only at h
      cases h2 : pairRow fc excl fa rest st1 with
      | none => rw [h2] at h; cases h
      | some r2 =>
        obtain ⟨st2, cs⟩ := r2
        rw [h2] at h
        simp only at h
        injection h with h
        subst h
        have hb0 := hb fb (List.mem_cons_self ..)
        exact allSound_append (hfc excl fa fb st _ ha.1 hb0.1 (ha.2.trans hb0.2.symm) h1)
          (pairRow_sound hfc excl ha rest (fun f hf => hb f (List.mem_cons_of_mem _ hf)) st1 _ h2)

theorem pairGrid_sound {s : SV} {U : Univ} {fc : FC} (hfc : FCSound s U fc) (excl : Bool) {k : Name}
    {fsB : List FInfo} (hB : ∀ f ∈ fsB, GoodK U k f) : ∀ (fsA : List FInfo), (∀ f ∈ fsA, GoodK U k f) → ∀ st r,
      pairGrid fc excl fsB fsA st = some r → AllSound s U excl r.2
  | [], _, st, r, h => by
    simp only [pairGrid] at h
    injection h with h
    subst h
    exact allSound_nil
  | fa :: rest, hA, st, r, h => by
    simp only [pairGrid] at h
    cases h1 : pairRow fc excl fa fsB st with
    | none => rw [h1] at h; cases h
    | some r1 =>
      obtain ⟨st1, c1⟩ := r1
      rw [h1] at h
      simp only at h
      cases h2 : pairGrid fc excl fsB rest st1 with
      | none => rw [h2] at h; cases h
      | some r2 =>
        obtain ⟨st2, c2⟩ := r2
        rw [h2] at h
        simp only at h
        injection h with h
        subst h
        exact allSound_append (pairRow_sound hfc excl (hA fa (List.mem_cons_self ..)) fsB hB st _ h1)
          (pairGrid_sound hfc excl hB rest (fun f hf => hA f (List.mem_cons_of_mem _ hf)) st1 _ h2)

theorem between_sound {s : SV} {U : Univ} {fc : FC} (hfc : FCSound s U fc) (excl : Bool) {B : FMap}
    (hB : GoodMapK U B) : ∀ (A : FMap), GoodMapK U A → ∀ st r,
      collectConflictsBetween fc excl B A st = some r → AllSound s U excl r.2
  | [], _, st, r, h => by
    simp only [collectConflictsBetween] at h
    injection h with h
    subst h
    exact allSound_nil
  | (rn, fsA) :: rest, hA, st, r, h => by
    have hrest : GoodMapK U rest := fun e he => hA e (List.mem_cons_of_mem _ he)
    unfold collectConflictsBetween at h
    cases hg : fmGet B rn with
    | none =>
      rw [hg] at h
      exact between_sound hfc excl hB rest hrest st r h
    | some fsB =>
      rw [hg] at h
      simp only at h
      cases h1 : pairGrid fc excl fsB fsA st with
      | none => rw [h1] at h; cases h
      | some r1 =>
        obtain ⟨st1, c1⟩ := r1
        rw [h1] at h
        simp only at h
        cases h2 : collectConflictsBetween fc excl B rest st1 with
        | none => rw [h2] at h; cases h
        | some r2 =>
          obtain ⟨st2, c2⟩ := r2
          rw [h2] at h
          simp only at h
          injection h with h
          subst h
          exact allSound_append
            (pairGrid_sound hfc excl (goodMapK_get hB hg) fsA (hA (rn, fsA) (List.mem_cons_self ..)) st _ h1)
            (between_sound hfc excl hB rest hrest st1 _ h2)

theorem pairTriangle_sound {s : SV} {U : Univ} {fc : FC} (hfc : FCSound s U fc) {k : Name} :
    ∀ (fs : List FInfo), (∀ f ∈ fs, GoodK U k f) → ∀ st r, pairTriangle fc fs st = some r → AllSound s U false r.2
  | [], _, st, r, h => by
    simp only [pairTriangle] at h
    injection h with h
    subst h
    exact allSound_nil
  | fa :: rest, hA, st, r, h => by
    have hrest : ∀ f ∈ rest, GoodK U k f := fun f hf => hA f (List.mem_cons_of_mem _ hf)
    simp only [pairTriangle] at h
    cases h1 : pairRow fc false fa rest st with
    | none => rw [h1] at h; cases h
    | some r1 =>
      obtain ⟨st1, c1⟩ := r1
      rw [h1] at h
      simp only at h
      cases h2 : pairTriangle fc rest st1 with
      | none => rw [h2] at h; cases h
      | some r2 =>
        obtain ⟨st2, c2⟩ := r2
        rw [h2] at h
        simp only at h
        injection h with h
        subst h
        exact allSound_append (pairRow_sound hfc false (hA fa (List.mem_cons_self ..)) rest hrest st _ h1)
          (pairTriangle_sound hfc rest hrest st1 _ h2)

theorem within_sound {s : SV} {U : Univ} {fc : FC} (hfc : FCSound s U fc) :
    ∀ (A : FMap), GoodMapK U A → ∀ st r, collectConflictsWithin fc A st = some r → AllSound s U false r.2
  | [], _, st, r, h => by
    simp only [collectConflictsWithin] at h
    injection h with h
    subst h
    exact allSound_nil
  | (rn, fs) :: rest, hA, st, r, h => by
    have hrest : GoodMapK U rest := fun e he => hA e (List.mem_cons_of_mem _ he)
    simp only [collectConflictsWithin] at h
    cases h1 : pairTriangle fc fs st with
    | none => rw [h1] at h; cases h
    | some r1 =>
      obtain ⟨st1, c1⟩ := r1
      rw [h1] at h
      simp only at h
      cases h2 : collectConflictsWithin fc rest st1 with
      | none => rw [h2] at h; cases h
      | some r2 =>
        obtain ⟨st2, c2⟩ := r2
        rw [h2] at h
        simp only at h
        injection h with h
        subst h
        exact allSound_append (pairTriangle_sound hfc fs (hA (rn, fs) (List.mem_cons_self ..)) st _ h1)
          (within_sound hfc rest hrest st1 _ h2)

/- ---------- generic loop ---------- -/

theorem stLoop_sound {s : SV} {U : Univ} {pe : Bool} {α : Type} (step : α → OSt → Option (OSt × List Conflict)) :
    ∀ (xs : List α), (∀ x ∈ xs, ∀ st r, step x st = some r → AllSound s U pe r.2) → ∀ st r,
      stLoop step xs st = some r → AllSound s U pe r.2
  | [], _, st, r, h => by
    simp only [stLoop] at h
    injection h with h
    subst h
    exact allSound_nil
  | x :: rest, hs, st, r, h => by
    simp only [stLoop] at h
    cases h1 : step x st with
    | none => rw [h1] at h; cases h
    | some r1 =>
      obtain ⟨st1, c1⟩ := r1
      rw [h1] at h
      simp only at h
      cases h2 : stLoop step rest st1 with
      | none => rw [h2] at h; cases h
      | some r2 =>
        obtain ⟨st2, c2⟩ := r2
        rw [h2] at h
        simp only at h
        injection h with h
        subst h
        exact allSound_append (hs x (List.mem_cons_self ..) st _ h1)
          (stLoop_sound step rest (fun y hy => hs y (List.mem_cons_of_mem _ hy)) st1 _ h2)

/- ---------- chain and check ---------- -/

theorem chain_sound {s : SV} {U : Univ} (env : Env) {fc : FC} (hfc : FCSound s U fc) (hfr : UFrags env.d U)
    (excl : Bool) {A : FM} (hA : GoodMapK U A.map) :
    ∀ n sp st r, chain env fc excl A n sp st = some r → AllSound s U excl r.2
  | 0, _, _, _, h => by simp [chain] at h
  | n + 1, sp, st, r, h => by
    unfold chain at h
    simp only at h
    split at h
    · injection h with h; subst h; exact allSound_nil
    · cases hs : env.l.spreadDef env.d sp.name sp.pos with
      | none => rw [hs] at h; injection h with h; subst h; exact allSound_nil
      | some f =>
        rw [hs] at h
        simp only at h
        split at h
        · injection h with h; subst h; exact allSound_nil
        · have hmem := fragForName_mem (spreadDef_some hs)
          split at h
          · cases h
          · rename_i st2 c1 h1
            split at h
            · cases h
            · rename_i st3 c2 h2
              injection h with h
              subst h
              exact allSound_append (between_sound hfc excl (goodMapK_frag env hfr hmem) A.map hA _ _ h1)
                (stLoop_sound _ _ (fun sp' _ st' r' h' => chain_sound env hfc hfr excl hA n sp' st' r' h') _ _ h2)

theorem check_sound {s : SV} {U : Univ} (env : Env) {fc : FC} (hfc : FCSound s U fc) (hfr : UFrags env.d U)
    (excl : Bool) : ∀ n a b st r, check env fc excl n a b st = some r → AllSound s U excl r.2
  | 0, _, _, _, _, h => by simp [check] at h
  | n + 1, a, b, st, r, h => by
    unfold check at h
    simp only at h
    split at h
    · injection h with h; subst h; exact allSound_nil
    · split at h
      · injection h with h; subst h; exact allSound_nil
      · split at h
        · rename_i fa fb hsa hsb
          have hma := fragForName_mem (spreadDef_some hsa)
          have hmb := fragForName_mem (spreadDef_some hsb)
          split at h
          · cases h
          · rename_i st2 c1 h1
            split at h
            · cases h
            · rename_i st3 c2 h2
              split at h
              · cases h
              · rename_i st4 c3 h3
                injection h with h
                subst h
                exact allSound_append
                  (allSound_append
                    (between_sound hfc excl (goodMapK_frag env hfr hmb) _ (goodMapK_frag env hfr hma) _ _ h1)
                    (stLoop_sound _ _ (fun x _ Q r' h' => check_sound env hfc hfr excl n a x Q r' h') _ _ h2))
                  (stLoop_sound _ _ (fun x _ Q r' h' => check_sound env hfc hfr excl n x b Q r' h') _ _ h3)
        · injection h with h; subst h; exact allSound_nil

/- ---------- one `findConflict` level ---------- -/

theorem subSets_sound {s : SV} {U : Univ} (env : Env) {fc : FC} (hfc : FCSound s U fc) (hcl : UClosed U)
    (hfr : UFrags env.d U) (excl : Bool) {a b : FInfo} (ha : Good U a) (hb : Good U b) (st : OSt)
    (r : OSt × List Conflict) (h : findConflictsBetweenSubSelectionSets env fc excl a b st = some r) :
    AllSound s U excl r.2 := by
  unfold findConflictsBetweenSubSelectionSets at h
  simp only at h
  have gA := goodMapK_sub hcl env.s env.l (a.next env.s) ha
  have gB := goodMapK_sub hcl env.s env.l (b.next env.s) hb
  split at h
  · cases h
  · rename_i st1 c1 h1
    split at h
    · cases h
    · rename_i st2 c2 h2
      split at h
      · cases h
      · rename_i st3 c3 h3
        split at h
        · cases h
        · rename_i st4 c4 h4
          injection h with h
          subst h
          exact allSound_append
            (allSound_append
              (allSound_append (between_sound hfc excl gB _ gA st _ h1)
                (stLoop_sound _ _ (fun sp _ Q r' h' => chain_sound env hfc hfr excl gA _ sp Q r' h') _ _ h2))
              (stLoop_sound _ _ (fun sp _ Q r' h' => chain_sound env hfc hfr excl gB _ sp Q r' h') _ _ h3))
            (stLoop_sound _ _ (fun sa _ Q r' h' =>
              stLoop_sound _ _ (fun sb _ Q' r'' h'' => check_sound env hfc hfr excl _ sa sb Q' r'' h'') Q r' h') _ _ h4)

/-- `findConflict` reports only sound conflicts if the conflicts it gets from
    `findConflictsBetweenSubSelectionSets` are sound in the context it calls it with -/
theorem findConflictBody_sound (s : SV) (U : Univ)
    (sub : Bool → FInfo → FInfo → OSt → Option (OSt × List Conflict))
    (excl0 : Bool) (a b : FInfo) (st : OSt) (ha : Good U a) (hb : Good U b)
    (hrn : responseName a.node = responseName b.node)
    (hsub : ∀ excl st' r, sub excl a b st' = some r → AllSound s U excl r.2)
    (r : OSt × Option Conflict) (h : findConflictBody s sub excl0 a b st = some r) :
    AllSound s U excl0 (optToList r.2) := by
  unfold findConflictBody at h
  simp only at h
  split at h
  · rename_i oa ob hoa hob
    have hge : goExcl a b = (oa.name != ob.name && oa.kind == DefKind.object && ob.kind == DefKind.object &&
        a.dfn.isSome && b.dfn.isSome) := by
      simp only [goExcl, hoa, hob]
    rw [← hge] at h
    split at h
    · -- different fields
      rename_i hc
      injection h with h
      subst h
      simp only [Bool.and_eq_true, Bool.not_eq_true', Bool.or_eq_false_iff, bne_iff_ne, ne_eq] at hc
      intro c hc'
      simp only [optToList, List.mem_singleton] at hc'
      subst hc'
      exact .differentFields ha hb hrn hc.1.1 hc.1.2 hc.2
    · split at h
      · -- differing arguments
        rename_i hn hc
        injection h with h
        subst h
        simp only [Bool.and_eq_true, Bool.not_eq_true', Bool.or_eq_false_iff] at hc
        have hname : a.node.name = b.node.name := by
          simp only [Bool.and_eq_true, Bool.not_eq_true', Bool.or_eq_false_iff, bne_iff_ne, ne_eq, not_and,
            Decidable.not_not] at hn
          exact hn hc.1
        intro c hc'
        simp only [optToList, List.mem_singleton] at hc'
        subst hc'
        refine .differingArguments ha hb hrn hc.1.1 hc.1.2 hname ?_
        intro hsame
        rw [(sameArguments_iff _ _).2 hsame] at hc
        exact absurd hc.2 (by simp)
      · split at h
        · -- conflicting types
          rename_i ta tb htc
          injection h with h
          subst h
          intro c hc'
          simp only [optToList, List.mem_singleton] at hc'
          subst hc'
          split at htc
          · rename_i da db hda hdb
            split at htc
            · rename_i hconf
              injection htc with htc
              injection htc with h1 h2
              subst h1 h2
              exact .conflictingTypes ha hb hrn hda hdb hconf
            · cases htc
          · cases htc
        · split at h
          · cases h
          · injection h with h
            subst h
            exact allSound_nil
          · rename_i st1 c cs hs
            injection h with h
            subst h
            intro x hx
            simp only [optToList, List.mem_singleton] at hx
            subst hx
            exact .subfields ha hb hrn (hsub _ _ _ hs)
  · injection h with h
    subst h
    exact allSound_nil

theorem fcLevel_sound {s : SV} {U : Univ} (env : Env) (hs : env.s = s) (hcl : UClosed U) (hfr : UFrags env.d U) :
    ∀ n, FCSound s U (fcLevel env n)
  | 0 => by
    intro _ _ _ _ _ _ _ _ h
    simp [fcLevel] at h
  | n + 1 => by
    intro excl a b st r ha hb hrn h
    simp only [fcLevel] at h
    rw [hs] at h
    exact findConflictBody_sound s U _ excl a b st ha hb hrn
      (fun excl' st' r' h' => subSets_sound env (fcLevel_sound env hs hcl hfr n) hcl hfr excl' ha hb st' r' h') r h

/- ---------- the top-level call ---------- -/

theorem withinLoop_sound {s : SV} {U : Univ} (env : Env) {fc : FC} (hfc : FCSound s U fc) (hfr : UFrags env.d U)
    {A : FM} (hA : GoodMapK U A.map) : ∀ (sps : List SpreadNode) st r,
      withinLoop env fc A sps st = some r → AllSound s U false r.2
  | [], st, r, h => by
    simp only [withinLoop] at h
    injection h with h
    subst h
    exact allSound_nil
  | sa :: rest, st, r, h => by
    simp only [withinLoop] at h
    split at h
    · cases h
    · rename_i st1 c1 h1
      split at h
      · cases h
      · rename_i st2 c2 h2
        split at h
        · cases h
        · rename_i st3 c3 h3
          injection h with h
          subst h
          exact allSound_append
            (allSound_append (chain_sound env hfc hfr false hA _ _ _ _ h1)
              (stLoop_sound _ _ (fun sb _ Q r' h' => check_sound env hfc hfr false _ sa sb Q r' h') _ _ h2))
            (withinLoop_sound env hfc hfr hA rest st2 _ h3)

theorem findConflictsWithinSelectionSet_sound {s : SV} {U : Univ} (env : Env) {fc : FC} (hfc : FCSound s U fc)
    (hfr : UFrags env.d U) (parent : Option Definition) (sels : Selections) (hsels : ∀ x ∈ allFields sels, x ∈ U)
    (st : OSt) (r : OSt × List Conflict) (h : findConflictsWithinSelectionSet env fc parent sels st = some r) :
    AllSound s U false r.2 := by
  unfold findConflictsWithinSelectionSet at h
  split at h
  · injection h with h
    subst h
    exact allSound_nil
  · simp only at h
    have gA := goodMapK_collect env.s env.l parent sels hsels
    split at h
    · cases h
    · rename_i st1 c1 h1
      split at h
      · cases h
      · rename_i st2 c2 h2
        injection h with h
        subst h
        exact allSound_append (within_sound hfc _ gA _ _ h1) (withinLoop_sound env hfc hfr gA _ _ _ h2)

/-- every conflict that one observer call reports is sound (context: parents not exclusive) -/
theorem overlapRun_sound (s : SV) (d : QueryDoc) (l : Links) (parent : Option Definition) (sels : Selections)
    (st : OSt) (r : OSt × List Conflict) (h : overlapRun s d l parent sels st = some r) :
    AllSound s (univOf d sels) false r.2 := by
  unfold overlapRun at h
  simp only at h
  exact findConflictsWithinSelectionSet_sound (overlapEnv s d l)
    (fcLevel_sound (overlapEnv s d l) rfl (univOf_closed d sels) (univOf_frags d sels) _)
    (univOf_frags d sels) parent sels
    (fun x hx => by simp only [univOf, List.mem_append]; exact Or.inl hx) st r h

end Gql.Validate
