import GqlProofs.Validate.OverlapFuel
import GqlProofs.Validate.OverlapArgs
/-
  OverlappingFieldsCanBeMerged: soundness of the reported conflicts (C08, partial).

  `Sound s U pe c`: the conflict message `c`, produced while the parent fields were
  (`pe = true`) / were not (`pe = false`) known to be mutually exclusive, is backed by two field
  nodes `a`, `b` of the universe `U` (the selection set the observer was called for and the
  fragment definitions — `univOf`) with the SAME response name such that
    * "different fields":       no enclosing pair and not `a`,`b` themselves are exclusive
                                (`goExcl`: both parents are Object types with different names and
                                both field definitions are known), and the field names differ;
    * "differing arguments":    the same, the names are equal, and `¬ ArgsSame` (OverlapArgs);
    * "conflicting types":      both field definitions are known and `doTypesConflict` holds of
                                their types (this branch is taken for exclusive parents as well,
                                as §5.3.2 SameResponseShape demands);
    * "subfields":              a non-empty list of conflicts that are sound in the context
                                `pe || goExcl a b`.
  So the first two kinds are only ever reported for two same-named-response fields that the rule
  could NOT prove to lie on different object types — a spec-valid document (where
  FieldsInSetCanMerge demands equal names and identical arguments for exactly such pairs) is never
  rejected by those branches.

  What is not proved here (completeness, and that `a`,`b` are reachable from the two parents —
  the sub-selection sets followed through fragment spreads): see Props/C08.lean.
-/
namespace Gql.Validate
open Gql Gql.Validate.Rules

/-- `findConflict`'s own exclusivity test -/
def goExcl (a b : FInfo) : Bool :=
  match a.obj, b.obj with
  | some oa, some ob =>
    oa.name != ob.name && oa.kind == .object && ob.kind == .object && a.dfn.isSome && b.dfn.isSome
  | _, _ => false

inductive Sound (s : SV) (U : Univ) : Bool → Conflict → Prop
  | differentFields {pe : Bool} {a b : FInfo} :
      Good U a → Good U b → responseName a.node = responseName b.node →
      pe = false → goExcl a b = false → a.node.name ≠ b.node.name →
      Sound s U pe (.mk (responseName a.node) (dq a.node.name ++ andSep ++ dq b.node.name ++ msgDifferentFields) []
        b.node.pos)
  | differingArguments {pe : Bool} {a b : FInfo} :
      Good U a → Good U b → responseName a.node = responseName b.node →
      pe = false → goExcl a b = false → a.node.name = b.node.name → ¬ ArgsSame a.node.args b.node.args →
      Sound s U pe (.mk (responseName a.node) msgDifferingArguments [] b.node.pos)
  | conflictingTypes {pe : Bool} {a b : FInfo} {da db : FieldDef} :
      Good U a → Good U b → responseName a.node = responseName b.node →
      a.dfn = some da → b.dfn = some db → doTypesConflict s da.type db.type = true →
      Sound s U pe (.mk (responseName a.node) (typesConflictMsg da.type db.type) [] b.node.pos)
  | subfields {pe : Bool} {a b : FInfo} {c : Conflict} {cs : List Conflict} :
      Good U a → Good U b → responseName a.node = responseName b.node →
      (∀ x ∈ c :: cs, Sound s U (pe || goExcl a b) x) →
      Sound s U pe (.mk (responseName a.node) [] (c :: cs) b.node.pos)

/-- all conflicts of a list are sound in context `pe` -/
def AllSound (s : SV) (U : Univ) (pe : Bool) (cs : List Conflict) : Prop := ∀ c ∈ cs, Sound s U pe c

theorem allSound_nil {s : SV} {U : Univ} {pe : Bool} : AllSound s U pe [] := fun _ h => by cases h

theorem allSound_append {s : SV} {U : Univ} {pe : Bool} {xs ys : List Conflict}
    (hx : AllSound s U pe xs) (hy : AllSound s U pe ys) : AllSound s U pe (xs ++ ys) := by
  intro c hc
  rcases List.mem_append.1 hc with h | h
  · exact hx c h
  · exact hy c h

/- ---------- field maps are keyed by response name ---------- -/

/-- good, and filed under its response name -/
def GoodK (U : Univ) (k : Name) (f : FInfo) : Prop := Good U f ∧ responseName f.node = k

def GoodMapK (U : Univ) (A : FMap) : Prop := ∀ e ∈ A, ∀ f ∈ e.2, GoodK U e.1 f

theorem fmPush_allK (Q : Name → FInfo → Prop) (rn : Name) (f0 : FInfo) (h0 : Q rn f0) :
    ∀ m : FMap, (∀ e ∈ m, ∀ f ∈ e.2, Q e.1 f) → ∀ e ∈ fmPush rn f0 m, ∀ f ∈ e.2, Q e.1 f
  | [], _, e, he, f, hf => by
    simp only [fmPush, List.mem_singleton] at he
    subst he
    simp only [List.mem_singleton] at hf
    subst hf
    exact h0
  | (k, fs) :: rest, hm, e, he, f, hf => by
    simp only [fmPush] at he
    split at he
    · rename_i hk
      have hk' : k = rn := by simpa using hk
      rcases List.mem_cons.1 he with he | he
      · subst he
        rcases List.mem_append.1 hf with hf | hf
        · exact hm (k, fs) (List.mem_cons_self ..) f hf
        · simp only [List.mem_singleton] at hf
          subst hf
          simp only
          rw [hk']
          exact h0
      · exact hm e (List.mem_cons_of_mem _ he) f hf
    · rcases List.mem_cons.1 he with he | he
      · subst he
        exact hm (k, fs) (List.mem_cons_self ..) f hf
      · exact fmPush_allK Q rn f0 h0 rest (fun e' he' => hm e' (List.mem_cons_of_mem _ he')) e he f hf

theorem fmOfList_allK (Q : Name → FInfo → Prop) (fs : List FInfo) (h : ∀ f ∈ fs, Q (responseName f.node) f) :
    ∀ e ∈ fmOfList fs, ∀ f ∈ e.2, Q e.1 f := by
  unfold fmOfList
  suffices hgen : ∀ (fs : List FInfo) (m : FMap), (∀ f ∈ fs, Q (responseName f.node) f) →
      (∀ e ∈ m, ∀ f ∈ e.2, Q e.1 f) →
      ∀ e ∈ fs.foldl (fun m f => fmPush (responseName f.node) f m) m, ∀ f ∈ e.2, Q e.1 f from
    hgen fs [] h (fun e he => by cases he)
  intro fs
  induction fs with
  | nil => intro m _ hm; exact hm
  | cons f0 rest ih =>
    intro m hfs hm
    simp only [List.foldl_cons]
    exact ih _ (fun f hf => hfs f (List.mem_cons_of_mem _ hf))
      (fmPush_allK Q _ f0 (hfs f0 (List.mem_cons_self ..)) m hm)

theorem goodMapK_collect {U : Univ} (s : SV) (l : Links) (parent : Option Definition) (sels : Selections)
    (h : ∀ x ∈ allFields sels, x ∈ U) : GoodMapK U (getFieldsAndFragmentNames s l parent sels).1 := by
  unfold getFieldsAndFragmentNames
  exact fmOfList_allK (GoodK U) _ fun f hf => ⟨h _ (collectFields_mem s l sels parent f hf), rfl⟩

theorem goodMapK_sub {U : Univ} (hcl : UClosed U) (s : SV) (l : Links) (parent : Option Definition) {a : FInfo}
    (ha : Good U a) : GoodMapK U (getFieldsAndFragmentNames s l parent a.node.sel).1 :=
  goodMapK_collect s l parent a.node.sel (hcl _ _ ha)

theorem goodMapK_frag {U : Univ} (env : Env) (hfr : UFrags env.d U) {f : FragmentDef} (hf : f ∈ env.d.frags) :
    GoodMapK U (env.fragFields f).1 := by
  unfold Env.fragFields
  exact goodMapK_collect _ _ _ f.sel (hfr f hf)

theorem goodMapK_get {U : Univ} {B : FMap} (hB : GoodMapK U B) {rn : Name} {fs : List FInfo}
    (h : fmGet B rn = some fs) : ∀ f ∈ fs, GoodK U rn f :=
  fun f hf => hB (rn, fs) (lookup_mem rn fs B h) f hf

/- ---------- loops over `findConflict` ---------- -/

/-- whatever `findConflict` reports for two good fields of one response name is sound -/
def FCSound (s : SV) (U : Univ) (fc : FC) : Prop :=
  ∀ excl a b C P r, Good U a → Good U b → responseName a.node = responseName b.node →
    fc excl a b C P = some r → AllSound s U excl (optToList r.2)

theorem pairRow_sound {s : SV} {U : Univ} {fc : FC} (hfc : FCSound s U fc) (excl : Bool) (C : Comparing) {k : Name}
    {fa : FInfo} (ha : GoodK U k fa) : ∀ (fbs : List FInfo), (∀ f ∈ fbs, GoodK U k f) → ∀ P r,
      pairRow fc excl C fa fbs P = some r → AllSound s U excl r.2
  | [], _, P, r, h => by
    simp only [pairRow] at h
    injection h with h
    subst h
    exact allSound_nil
  | fb :: rest, hb, P, r, h => by
    simp only [pairRow] at h
    cases h1 : fc excl fa fb C P with
    | none => rw [h1] at h; cases h
    | some r1 =>
      obtain ⟨P1, c⟩ := r1
      rw [h1] at h
      simp only at h
      cases h2 : pairRow fc excl C fa rest P1 with
      | none => rw [h2] at h; cases h
      | some r2 =>
        obtain ⟨P2, cs⟩ := r2
        rw [h2] at h
        simp only at h
        injection h with h
        subst h
        have hb0 := hb fb (List.mem_cons_self ..)
        exact allSound_append (hfc excl fa fb C P _ ha.1 hb0.1 (ha.2.trans hb0.2.symm) h1)
          (pairRow_sound hfc excl C ha rest (fun f hf => hb f (List.mem_cons_of_mem _ hf)) P1 _ h2)

theorem pairGrid_sound {s : SV} {U : Univ} {fc : FC} (hfc : FCSound s U fc) (excl : Bool) (C : Comparing) {k : Name}
    {fsB : List FInfo} (hB : ∀ f ∈ fsB, GoodK U k f) : ∀ (fsA : List FInfo), (∀ f ∈ fsA, GoodK U k f) → ∀ P r,
      pairGrid fc excl C fsB fsA P = some r → AllSound s U excl r.2
  | [], _, P, r, h => by
    simp only [pairGrid] at h
    injection h with h
    subst h
    exact allSound_nil
  | fa :: rest, hA, P, r, h => by
    simp only [pairGrid] at h
    cases h1 : pairRow fc excl C fa fsB P with
    | none => rw [h1] at h; cases h
    | some r1 =>
      obtain ⟨P1, c1⟩ := r1
      rw [h1] at h
      simp only at h
      cases h2 : pairGrid fc excl C fsB rest P1 with
      | none => rw [h2] at h; cases h
      | some r2 =>
        obtain ⟨P2, c2⟩ := r2
        rw [h2] at h
        simp only at h
        injection h with h
        subst h
        exact allSound_append (pairRow_sound hfc excl C (hA fa (List.mem_cons_self ..)) fsB hB P _ h1)
          (pairGrid_sound hfc excl C hB rest (fun f hf => hA f (List.mem_cons_of_mem _ hf)) P1 _ h2)

theorem between_sound {s : SV} {U : Univ} {fc : FC} (hfc : FCSound s U fc) (excl : Bool) (C : Comparing) {B : FMap}
    (hB : GoodMapK U B) : ∀ (A : FMap), GoodMapK U A → ∀ P r,
      collectConflictsBetween fc excl C B A P = some r → AllSound s U excl r.2
  | [], _, P, r, h => by
    simp only [collectConflictsBetween] at h
    injection h with h
    subst h
    exact allSound_nil
  | (rn, fsA) :: rest, hA, P, r, h => by
    have hrest : GoodMapK U rest := fun e he => hA e (List.mem_cons_of_mem _ he)
    unfold collectConflictsBetween at h
    cases hg : fmGet B rn with
    | none =>
      rw [hg] at h
      exact between_sound hfc excl C hB rest hrest P r h
    | some fsB =>
      rw [hg] at h
      simp only at h
      cases h1 : pairGrid fc excl C fsB fsA P with
      | none => rw [h1] at h; cases h
      | some r1 =>
        obtain ⟨P1, c1⟩ := r1
        rw [h1] at h
        simp only at h
        cases h2 : collectConflictsBetween fc excl C B rest P1 with
        | none => rw [h2] at h; cases h
        | some r2 =>
          obtain ⟨P2, c2⟩ := r2
          rw [h2] at h
          simp only at h
          injection h with h
          subst h
          exact allSound_append
            (pairGrid_sound hfc excl C (goodMapK_get hB hg) fsA (hA (rn, fsA) (List.mem_cons_self ..)) P _ h1)
            (between_sound hfc excl C hB rest hrest P1 _ h2)

theorem pairTriangle_sound {s : SV} {U : Univ} {fc : FC} (hfc : FCSound s U fc) (C : Comparing) {k : Name} :
    ∀ (fs : List FInfo), (∀ f ∈ fs, GoodK U k f) → ∀ P r, pairTriangle fc C fs P = some r → AllSound s U false r.2
  | [], _, P, r, h => by
    simp only [pairTriangle] at h
    injection h with h
    subst h
    exact allSound_nil
  | fa :: rest, hA, P, r, h => by
    have hrest : ∀ f ∈ rest, GoodK U k f := fun f hf => hA f (List.mem_cons_of_mem _ hf)
    simp only [pairTriangle] at h
    cases h1 : pairRow fc false C fa rest P with
    | none => rw [h1] at h; cases h
    | some r1 =>
      obtain ⟨P1, c1⟩ := r1
      rw [h1] at h
      simp only at h
      cases h2 : pairTriangle fc C rest P1 with
      | none => rw [h2] at h; cases h
      | some r2 =>
        obtain ⟨P2, c2⟩ := r2
        rw [h2] at h
        simp only at h
        injection h with h
        subst h
        exact allSound_append (pairRow_sound hfc false C (hA fa (List.mem_cons_self ..)) rest hrest P _ h1)
          (pairTriangle_sound hfc C rest hrest P1 _ h2)

theorem within_sound {s : SV} {U : Univ} {fc : FC} (hfc : FCSound s U fc) (C : Comparing) :
    ∀ (A : FMap), GoodMapK U A → ∀ P r, collectConflictsWithin fc C A P = some r → AllSound s U false r.2
  | [], _, P, r, h => by
    simp only [collectConflictsWithin] at h
    injection h with h
    subst h
    exact allSound_nil
  | (rn, fs) :: rest, hA, P, r, h => by
    have hrest : GoodMapK U rest := fun e he => hA e (List.mem_cons_of_mem _ he)
    simp only [collectConflictsWithin] at h
    cases h1 : pairTriangle fc C fs P with
    | none => rw [h1] at h; cases h
    | some r1 =>
      obtain ⟨P1, c1⟩ := r1
      rw [h1] at h
      simp only at h
      cases h2 : collectConflictsWithin fc C rest P1 with
      | none => rw [h2] at h; cases h
      | some r2 =>
        obtain ⟨P2, c2⟩ := r2
        rw [h2] at h
        simp only at h
        injection h with h
        subst h
        exact allSound_append (pairTriangle_sound hfc C fs (hA (rn, fs) (List.mem_cons_self ..)) P _ h1)
          (within_sound hfc C rest hrest P1 _ h2)

/- ---------- generic loops ---------- -/

theorem pairsLoop_sound {s : SV} {U : Univ} {pe : Bool} {α : Type} (step : α → Pairs → Option (Pairs × List Conflict)) :
    ∀ (xs : List α), (∀ x ∈ xs, ∀ P r, step x P = some r → AllSound s U pe r.2) → ∀ P r,
      pairsLoop step xs P = some r → AllSound s U pe r.2
  | [], _, P, r, h => by
    simp only [pairsLoop] at h
    injection h with h
    subst h
    exact allSound_nil
  | x :: rest, hs, P, r, h => by
    simp only [pairsLoop] at h
    cases h1 : step x P with
    | none => rw [h1] at h; cases h
    | some r1 =>
      obtain ⟨P1, c1⟩ := r1
      rw [h1] at h
      simp only at h
      cases h2 : pairsLoop step rest P1 with
      | none => rw [h2] at h; cases h
      | some r2 =>
        obtain ⟨P2, c2⟩ := r2
        rw [h2] at h
        simp only at h
        injection h with h
        subst h
        exact allSound_append (hs x (List.mem_cons_self ..) P _ h1)
          (pairsLoop_sound step rest (fun y hy => hs y (List.mem_cons_of_mem _ hy)) P1 _ h2)

theorem chainLoop_sound {s : SV} {U : Univ} {pe : Bool} (step : SpreadNode → List Name → Pairs → Option ChainSt)
    (hs : ∀ sp M P r, step sp M P = some r → AllSound s U pe r.2.2) :
    ∀ (sps : List SpreadNode) M P r, chainLoop step sps M P = some r → AllSound s U pe r.2.2
  | [], M, P, r, h => by
    simp only [chainLoop] at h
    injection h with h
    subst h
    exact allSound_nil
  | sp :: rest, M, P, r, h => by
    simp only [chainLoop] at h
    cases h1 : step sp M P with
    | none => rw [h1] at h; cases h
    | some r1 =>
      obtain ⟨M1, P1, c1⟩ := r1
      rw [h1] at h
      simp only at h
      cases h2 : chainLoop step rest M1 P1 with
      | none => rw [h2] at h; cases h
      | some r2 =>
        obtain ⟨M2, P2, c2⟩ := r2
        rw [h2] at h
        simp only at h
        injection h with h
        subst h
        exact allSound_append (hs sp M P _ h1) (chainLoop_sound step hs rest M1 P1 _ h2)

/- ---------- chain and check ---------- -/

theorem chain_sound {s : SV} {U : Univ} (env : Env) {fc : FC} (hfc : FCSound s U fc) (hfr : UFrags env.d U)
    (excl : Bool) (C : Comparing) {A : FMap} (hA : GoodMapK U A) :
    ∀ n sp M P r, chain env fc excl C A n sp M P = some r → AllSound s U excl r.2.2
  | 0, _, _, _, _, h => by simp [chain] at h
  | n + 1, sp, M, P, r, h => by
    unfold chain at h
    split at h
    · injection h with h; subst h; exact allSound_nil
    · simp only at h
      cases hs : env.l.spreadDef env.d sp.name sp.pos with
      | none => rw [hs] at h; injection h with h; subst h; exact allSound_nil
      | some f =>
        rw [hs] at h
        simp only at h
        split at h
        · injection h with h; subst h; exact allSound_nil
        · have hmem := fragForName_mem (spreadDef_some hs)
          cases h1 : collectConflictsBetween fc excl C (env.fragFields f).1 A P with
          | none => rw [h1] at h; cases h
          | some r1 =>
            obtain ⟨P1, c1⟩ := r1
            rw [h1] at h
            simp only at h
            cases h2 : chainLoop (chain env fc excl C A n) ((env.fragFields f).2.filter fun x => x.name != sp.name)
                (sp.name :: M) P1 with
            | none => rw [h2] at h; cases h
            | some r2 =>
              obtain ⟨M2, P2, c2⟩ := r2
              rw [h2] at h
              simp only at h
              injection h with h
              subst h
              exact allSound_append (between_sound hfc excl C (goodMapK_frag env hfr hmem) A hA P _ h1)
                (chainLoop_sound _ (fun sp' M' P' r' h' => chain_sound env hfc hfr excl C hA n sp' M' P' r' h') _ _ _ _ h2)

theorem check_sound {s : SV} {U : Univ} (env : Env) {fc : FC} (hfc : FCSound s U fc) (hfr : UFrags env.d U)
    (excl : Bool) (C : Comparing) : ∀ n a b P r, check env fc excl C n a b P = some r → AllSound s U excl r.2
  | 0, _, _, _, _, h => by simp [check] at h
  | n + 1, a, b, P, r, h => by
    unfold check at h
    split at h
    · injection h with h; subst h; exact allSound_nil
    · split at h
      · injection h with h; subst h; exact allSound_nil
      · simp only at h
        split at h
        · rename_i fa fb hsa hsb
          have hma := fragForName_mem (spreadDef_some hsa)
          have hmb := fragForName_mem (spreadDef_some hsb)
          cases h1 : collectConflictsBetween fc excl C (env.fragFields fb).1 (env.fragFields fa).1
              (P.add a.name b.name excl) with
          | none => rw [h1] at h; cases h
          | some r1 =>
            obtain ⟨P1, c1⟩ := r1
            rw [h1] at h
            simp only at h
            cases h2 : pairsLoop (fun x => check env fc excl C n a x) (env.fragFields fb).2 P1 with
            | none => rw [h2] at h; cases h
            | some r2 =>
              obtain ⟨P2, c2⟩ := r2
              rw [h2] at h
              simp only at h
              cases h3 : pairsLoop (fun x => check env fc excl C n x b) (env.fragFields fa).2 P2 with
              | none => rw [h3] at h; cases h
              | some r3 =>
                obtain ⟨P3, c3⟩ := r3
                rw [h3] at h
                simp only at h
                injection h with h
                subst h
                exact allSound_append
                  (allSound_append
                    (between_sound hfc excl C (goodMapK_frag env hfr hmb) _ (goodMapK_frag env hfr hma) _ _ h1)
                    (pairsLoop_sound _ _ (fun x _ Q r' h' => check_sound env hfc hfr excl C n a x Q r' h') _ _ h2))
                  (pairsLoop_sound _ _ (fun x _ Q r' h' => check_sound env hfc hfr excl C n x b Q r' h') _ _ h3)
        · injection h with h; subst h; exact allSound_nil

/- ---------- one `findConflict` level ---------- -/

theorem chainFresh_sound {s : SV} {U : Univ} (env : Env) {fc : FC} (hfc : FCSound s U fc) (hfr : UFrags env.d U)
    (excl : Bool) (C : Comparing) {A : FMap} (hA : GoodMapK U A) (sp : SpreadNode) (P : Pairs)
    (r : Pairs × List Conflict) (h : chainFresh env fc excl C A sp P = some r) : AllSound s U excl r.2 := by
  unfold chainFresh at h
  cases h1 : chain env fc excl C A env.chainFuel sp [] P with
  | none => rw [h1] at h; cases h
  | some r1 =>
    obtain ⟨M1, P1, c1⟩ := r1
    rw [h1] at h
    simp only at h
    injection h with h
    subst h
    exact chain_sound env hfc hfr excl C hA _ _ _ _ _ h1

theorem subSets_sound {s : SV} {U : Univ} (env : Env) {fc : FC} (hfc : FCSound s U fc) (hcl : UClosed U)
    (hfr : UFrags env.d U) (excl : Bool) {a b : FInfo} (ha : Good U a) (hb : Good U b) (C : Comparing) (P : Pairs)
    (r : Pairs × List Conflict) (h : findConflictsBetweenSubSelectionSets env fc excl a b C P = some r) :
    AllSound s U excl r.2 := by
  unfold findConflictsBetweenSubSelectionSets at h
  simp only at h
  have gA := goodMapK_sub hcl env.s env.l (a.next env.s) ha
  have gB := goodMapK_sub hcl env.s env.l (b.next env.s) hb
  split at h
  · cases h
  · rename_i P1 c1 h1
    split at h
    · cases h
    · rename_i P2 c2 h2
      split at h
      · cases h
      · rename_i P3 c3 h3
        split at h
        · cases h
        · rename_i P4 c4 h4
          injection h with h
          subst h
          exact allSound_append
            (allSound_append
              (allSound_append (between_sound hfc excl C gB _ gA P _ h1)
                (pairsLoop_sound _ _ (fun sp _ Q r' h' => chainFresh_sound env hfc hfr excl C gA sp Q r' h') _ _ h2))
              (pairsLoop_sound _ _ (fun sp _ Q r' h' => chainFresh_sound env hfc hfr excl C gB sp Q r' h') _ _ h3))
            (pairsLoop_sound _ _ (fun sa _ Q r' h' =>
              pairsLoop_sound _ _ (fun sb _ Q' r'' h'' => check_sound env hfc hfr excl C _ sa sb Q' r'' h'') Q r' h') _ _ h4)

/-- `findConflict` reports only sound conflicts if the conflicts it gets from
    `findConflictsBetweenSubSelectionSets` are sound in the context it calls it with -/
theorem findConflictBody_sound (s : SV) (U : Univ)
    (sub : Bool → FInfo → FInfo → Comparing → Pairs → Option (Pairs × List Conflict))
    (excl0 : Bool) (a b : FInfo) (C : Comparing) (P : Pairs) (ha : Good U a) (hb : Good U b)
    (hrn : responseName a.node = responseName b.node)
    (hsub : ∀ excl C' r, sub excl a b C' P = some r → AllSound s U excl r.2)
    (r : Pairs × Option Conflict) (h : findConflictBody s sub excl0 a b C P = some r) :
    AllSound s U excl0 (optToList r.2) := by
  unfold findConflictBody at h
  simp only at h
  split at h
  · rename_i oa ob hoa hob
    have hge : goExcl a b = (oa.name != ob.name && oa.kind == DefKind.object && ob.kind == DefKind.object &&
        a.dfn.isSome && b.dfn.isSome) := by
      simp only [goExcl, hoa, hob]
    rw [← hge] at h
    split at h
    · -- different fields
      rename_i hc
      injection h with h
      subst h
      simp only [Bool.and_eq_true, Bool.not_eq_true', Bool.or_eq_false_iff, bne_iff_ne, ne_eq] at hc
      intro c hc'
      simp only [optToList, List.mem_singleton] at hc'
      subst hc'
      exact .differentFields ha hb hrn hc.1.1 hc.1.2 hc.2
    · split at h
      · -- differing arguments
        rename_i hn hc
        injection h with h
        subst h
        simp only [Bool.and_eq_true, Bool.not_eq_true', Bool.or_eq_false_iff] at hc
        have hname : a.node.name = b.node.name := by
          simp only [Bool.and_eq_true, Bool.not_eq_true', Bool.or_eq_false_iff, bne_iff_ne, ne_eq, not_and,
            Decidable.not_not] at hn
          exact hn hc.1
        intro c hc'
        simp only [optToList, List.mem_singleton] at hc'
        subst hc'
        refine .differingArguments ha hb hrn hc.1.1 hc.1.2 hname ?_
        intro hsame
        rw [(sameArguments_iff _ _).2 hsame] at hc
        exact absurd hc.2 (by simp)
      · split at h
        · -- conflicting types
          rename_i ta tb htc
          injection h with h
          subst h
          intro c hc'
          simp only [optToList, List.mem_singleton] at hc'
          subst hc'
          split at htc
          · rename_i da db hda hdb
            split at htc
            · rename_i hconf
              injection htc with htc
              injection htc with h1 h2
              subst h1 h2
              exact .conflictingTypes ha hb hrn hda hdb hconf
            · cases htc
          · cases htc
        · split at h
          · injection h with h
            subst h
            exact allSound_nil
          · split at h
            · cases h
            · injection h with h
              subst h
              exact allSound_nil
            · rename_i P1 c cs hs
              injection h with h
              subst h
              intro x hx
              simp only [optToList, List.mem_singleton] at hx
              subst hx
              exact .subfields ha hb hrn (hsub _ _ _ hs)
  · injection h with h
    subst h
    exact allSound_nil

theorem fcLevel_sound {s : SV} {U : Univ} (env : Env) (hs : env.s = s) (hcl : UClosed U) (hfr : UFrags env.d U) :
    ∀ n, FCSound s U (fcLevel env n)
  | 0 => by
    intro _ _ _ _ _ _ _ _ _ h
    simp [fcLevel] at h
  | n + 1 => by
    intro excl a b C P r ha hb hrn h
    simp only [fcLevel] at h
    rw [hs] at h
    exact findConflictBody_sound s U _ excl a b C P ha hb hrn
      (fun excl' C' r' h' => subSets_sound env (fcLevel_sound env hs hcl hfr n) hcl hfr excl' ha hb C' P r' h') r h

/- ---------- the top-level call ---------- -/

theorem withinLoop_sound {s : SV} {U : Univ} (env : Env) {fc : FC} (hfc : FCSound s U fc) (hfr : UFrags env.d U)
    {A : FMap} (hA : GoodMapK U A) : ∀ (sps : List SpreadNode) M P r,
      withinLoop env fc A sps M P = some r → AllSound s U false r.2.2
  | [], M, P, r, h => by
    simp only [withinLoop] at h
    injection h with h
    subst h
    exact allSound_nil
  | sa :: rest, M, P, r, h => by
    simp only [withinLoop] at h
    cases h1 : chain env fc false [] A env.chainFuel sa M P with
    | none => rw [h1] at h; cases h
    | some r1 =>
      obtain ⟨M1, P1, c1⟩ := r1
      rw [h1] at h
      simp only at h
      cases h2 : pairsLoop (collectConflictsBetweenFragments env fc false [] sa) rest P1 with
      | none => rw [h2] at h; cases h
      | some r2 =>
        obtain ⟨P2, c2⟩ := r2
        rw [h2] at h
        simp only at h
        cases h3 : withinLoop env fc A rest M1 P2 with
        | none => rw [h3] at h; cases h
        | some r3 =>
          obtain ⟨M3, P3, c3⟩ := r3
          rw [h3] at h
          simp only at h
          injection h with h
          subst h
          exact allSound_append
            (allSound_append (chain_sound env hfc hfr false [] hA _ _ _ _ _ h1)
              (pairsLoop_sound _ _ (fun sb _ Q r' h' => check_sound env hfc hfr false [] _ sa sb Q r' h') _ _ h2))
            (withinLoop_sound env hfc hfr hA rest M1 P2 _ h3)

theorem findConflictsWithinSelectionSet_sound {s : SV} {U : Univ} (env : Env) {fc : FC} (hfc : FCSound s U fc)
    (hfr : UFrags env.d U) (parent : Option Definition) (sels : Selections) (hsels : ∀ x ∈ allFields sels, x ∈ U)
    (P : Pairs) (r : Pairs × List Conflict) (h : findConflictsWithinSelectionSet env fc parent sels P = some r) :
    AllSound s U false r.2 := by
  unfold findConflictsWithinSelectionSet at h
  split at h
  · injection h with h
    subst h
    exact allSound_nil
  · simp only at h
    have gA := goodMapK_collect env.s env.l parent sels hsels
    split at h
    · cases h
    · rename_i P1 c1 h1
      split at h
      · cases h
      · rename_i M2 P2 c2 h2
        injection h with h
        subst h
        exact allSound_append (within_sound hfc [] _ gA P _ h1) (withinLoop_sound env hfc hfr gA _ _ _ _ h2)

/-- every conflict that one observer call reports is sound (context: parents not exclusive) -/
theorem overlapRun_sound (s : SV) (d : QueryDoc) (l : Links) (parent : Option Definition) (sels : Selections)
    (P : Pairs) (r : Pairs × List Conflict) (h : overlapRun s d l parent sels P = some r) :
    AllSound s (univOf d sels) false r.2 := by
  unfold overlapRun at h
  simp only at h
  exact findConflictsWithinSelectionSet_sound (overlapEnv s d l)
    (fcLevel_sound (overlapEnv s d l) rfl (univOf_closed d sels) (univOf_frags d sels) _)
    (univOf_frags d sels) parent sels
    (fun x hx => by simp only [univOf, List.mem_append]; exact Or.inl hx) P r h

end Gql.Validate
