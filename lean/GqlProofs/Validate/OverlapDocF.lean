import GqlProofs.Validate.OverlapFlatSpec
/-
  Document-level facts about the fields the rule collects (`DocF`): a collected field is a field
  node of `Spec.docSels` with its declarative parent type; under the hypotheses that the other
  rules guarantee (`OvHyps`) its links, as the rule reads them, are the ones the specification
  computes.
-/
namespace Gql.Validate
open Gql Gql.Validate.Rules

/- ---------- `Spec.docSels` is closed under descending ---------- -/

mutual
  theorem typedSel_trans (s : Schema) : ∀ (x : Selection) (p : Option Definition) (t t' : Spec.TSel),
      t ∈ Spec.typedSel s p x → t' ∈ Spec.typedSel s t.parent t.sel → t' ∈ Spec.typedSel s p x
    | .field al nm args dirs sub pos, p, t, t', ht, ht' => by
      simp only [Spec.typedSel, List.mem_cons] at ht ⊢
      rcases ht with rfl | ht
      · simpa [Spec.typedSel] using ht'
      · exact Or.inr (typedSels_trans s sub _ t t' ht ht')
    | .spread nm dirs pos, p, t, t', ht, ht' => by
      simp only [Spec.typedSel, List.mem_singleton] at ht
      subst ht
      exact ht'
    | .inline tc dirs sub pos, p, t, t', ht, ht' => by
      simp only [Spec.typedSel, List.mem_cons] at ht ⊢
      rcases ht with rfl | ht
      · simpa [Spec.typedSel] using ht'
      · exact Or.inr (typedSels_trans s sub _ t t' ht ht')
  theorem typedSels_trans (s : Schema) : ∀ (xs : Selections) (p : Option Definition) (t t' : Spec.TSel),
      t ∈ Spec.typedSels s p xs → t' ∈ Spec.typedSel s t.parent t.sel → t' ∈ Spec.typedSels s p xs
    | .nil, _, _, _, ht, _ => by simp [Spec.typedSels] at ht
    | .cons x rest, p, t, t', ht, ht' => by
      simp only [Spec.typedSels, List.mem_append] at ht ⊢
      rcases ht with ht | ht
      · exact Or.inl (typedSel_trans s x p t t' ht ht')
      · exact Or.inr (typedSels_trans s rest p t t' ht ht')
end

theorem docSels_trans (s : Schema) (d : QueryDoc) (t t' : Spec.TSel) (ht : t ∈ Spec.docSels s d)
    (ht' : t' ∈ Spec.typedSel s t.parent t.sel) : t' ∈ Spec.docSels s d := by
  simp only [Spec.docSels, List.mem_append, List.mem_flatMap] at ht ⊢
  rcases ht with ⟨op, hop, h⟩ | ⟨f, hf, h⟩
  · exact Or.inl ⟨op, hop, typedSels_trans s _ _ t t' h ht'⟩
  · exact Or.inr ⟨f, hf, typedSels_trans s _ _ t t' h ht'⟩

/-- the selection node of a collected field -/
def Rules.FInfo.sel' (f : FInfo) : Selection :=
  .field f.node.alias f.node.name f.node.args f.node.dirs f.node.sel f.node.pos

mutual
  theorem collectFields_typed (s : Schema) (l : Links) : ∀ (sels : Selections) (p : Option Definition) (f : FInfo),
      f ∈ collectFields s.view l p sels → (⟨f.sparent, f.sel'⟩ : Spec.TSel) ∈ Spec.typedSels s p sels
    | .nil, _, _, h => by simp [collectFields] at h
    | .cons y rest, p, f, h => by
      simp only [collectFields, List.mem_append] at h
      simp only [Spec.typedSels, List.mem_append]
      rcases h with h | h
      · exact Or.inl (collectFieldsSel_typed s l y p f h)
      · exact Or.inr (collectFields_typed s l rest p f h)
  theorem collectFieldsSel_typed (s : Schema) (l : Links) : ∀ (y : Selection) (p : Option Definition) (f : FInfo),
      f ∈ collectFieldsSel s.view l p y → (⟨f.sparent, f.sel'⟩ : Spec.TSel) ∈ Spec.typedSel s p y
    | .field al nm args dirs sub pos, p, f, h => by
      simp only [collectFieldsSel, List.mem_singleton] at h
      subst h
      simp [Spec.typedSel, FInfo.sel']
    | .inline tc dirs sub pos, p, f, h => by
      simp only [collectFieldsSel, inlineNext_eq] at h
      simp only [Spec.typedSel, List.mem_cons]
      exact Or.inr (collectFields_typed s l sub _ f h)
    | .spread _ _ _, _, _, h => by simp [collectFieldsSel] at h
end

mutual
  theorem collectFields_shape (s : SV) (l : Links) : ∀ (sels : Selections) (p : Option Definition) (f : FInfo),
      f ∈ collectFields s l p sels → f.sdfn = staticFieldDef f.sparent f.node.name ∧ f.linked = l.linked f.node.pos.start
    | .nil, _, _, h => by simp [collectFields] at h
    | .cons y rest, p, f, h => by
      simp only [collectFields, List.mem_append] at h
      rcases h with h | h
      · exact collectFieldsSel_shape s l y p f h
      · exact collectFields_shape s l rest p f h
  theorem collectFieldsSel_shape (s : SV) (l : Links) : ∀ (y : Selection) (p : Option Definition) (f : FInfo),
      f ∈ collectFieldsSel s l p y → f.sdfn = staticFieldDef f.sparent f.node.name ∧ f.linked = l.linked f.node.pos.start
    | .field al nm args dirs sub pos, p, f, h => by
      simp only [collectFieldsSel, List.mem_singleton] at h
      subst h
      exact ⟨rfl, rfl⟩
    | .inline tc dirs sub pos, p, f, h => by
      simp only [collectFieldsSel] at h
      exact collectFields_shape s l sub _ f h
    | .spread _ _ _, _, _, h => by simp [collectFieldsSel] at h
end

/-- what the other rules guarantee and the comparison with §5.3.2 needs -/
structure OvHyps (s : Schema) (d : QueryDoc) : Prop where
  wp : Spec.wellParented s d = true
  fields : Spec.fieldSelections s d = true
  leaf : Spec.leafFieldSelections s d = true
  /-- the type in scope is determined at every selection node -/
  parents : ∀ t ∈ Spec.docSels s d, t.parent.isSome
  keys : KeysOK s

/-- a collected field that is a field node of the document, fully linked -/
structure DocF (s : Schema) (d : QueryDoc) (l : Links) (a : FInfo) : Prop where
  inDoc : (⟨a.sparent, a.sel'⟩ : Spec.TSel) ∈ Spec.docSels s d
  sdfn : a.sdfn = staticFieldDef a.sparent a.node.name
  linked : a.linked = true
  below : ∀ x ∈ allFields a.node.sel, l.linked x.1 = true

theorem staticFieldDef_eq (p : Option Definition) (nm : Name) : staticFieldDef p nm = wFieldDef p nm := rfl

section
variable {s : Schema} {d : QueryDoc} {l : Links} (H : OvHyps s d) {a : FInfo} (ha : DocF s d l a)
include H ha

theorem DocF.wpNode : Spec.nodeWellParented ⟨a.sparent, a.sel'⟩ = true := by
  have := H.wp
  unfold Spec.wellParented at this
  simp only [List.all_eq_true] at this
  exact this _ ha.inDoc

theorem DocF.parent_some : ∃ pa, a.sparent = some pa := by
  have := H.parents _ ha.inDoc
  simp only at this
  cases h : a.sparent with
  | none => rw [h] at this; cases this
  | some pa => exact ⟨pa, rfl⟩

omit H in
theorem DocF.obj_eq : a.obj = a.sparent := by simp [FInfo.obj, ha.linked]

theorem DocF.dfn_eq : a.dfn = (toM a).fdef := by
  simp only [FInfo.dfn, ha.linked, if_true, ha.sdfn, staticFieldDef_eq, Spec.MField.fdef, toM]
  exact wFieldDef_eq a.sparent a.node.alias a.node.name a.node.args a.node.dirs a.node.sel a.node.pos (ha.wpNode H)

theorem DocF.fdef_some : ∃ fd, (toM a).fdef = some fd := by
  obtain ⟨pa, hpa⟩ := ha.parent_some H
  have := H.fields
  unfold Spec.fieldSelections at this
  simp only [List.all_eq_true] at this
  have := this _ ha.inDoc
  simp only [FInfo.sel', hpa] at this
  simp only [Spec.MField.fdef, toM, hpa, Option.bind_some]
  cases h : Spec.fieldDefOn pa a.node.name with
  | none => rw [h] at this; cases this
  | some fd => exact ⟨fd, rfl⟩

theorem DocF.next_eq : a.next s.view = (toM a).fdef.bind fun fd => s.type? fd.type.name := by
  have h1 := ha.dfn_eq H
  simp only [FInfo.dfn, ha.linked, if_true] at h1
  simp only [FInfo.next, h1]
  rfl

theorem DocF.next_fieldType : a.next s.view = Spec.fieldType s a.sparent a.node.name := by
  rw [ha.next_eq H]
  rfl

/-- the collected fields of the sub-selection are document fields again -/
theorem DocF.sub {a' : FInfo} (h : a' ∈ collectFields s.view l (a.next s.view) a.node.sel) : DocF s d l a' := by
  have hs := collectFields_shape s.view l _ _ a' h
  have hm := collectFields_mem s.view l _ _ a' h
  refine ⟨?_, hs.1, ?_, fun x hx => ha.below x (allFields_sub _ _ _ hm x hx)⟩
  · have ht := collectFields_typed s l _ _ a' h
    rw [ha.next_fieldType H] at ht
    refine docSels_trans s d _ _ ha.inDoc ?_
    simp only [FInfo.sel', Spec.typedSel, List.mem_cons]
    exact Or.inr ht
  · rw [hs.2]
    exact ha.below _ hm

/-- a field of leaf type has no sub-selection -/
theorem DocF.leaf_nil {fd : FieldDef} {dx : Definition} (hfd : (toM a).fdef = some fd) (hdx : s.type? fd.type.name = some dx)
    (hl : Spec.isLeaf dx = true) : a.node.sel = .nil := by
  have := H.leaf
  unfold Spec.leafFieldSelections at this
  simp only [List.all_eq_true] at this
  have := this _ ha.inDoc
  have hnt : Spec.fieldNodeType s ⟨a.sparent, a.sel'⟩ = some dx := by
    simp only [Spec.fieldNodeType, FInfo.sel']
    simp only [Spec.MField.fdef, toM] at hfd
    rw [hfd]
    exact hdx
  rw [hnt] at this
  simp only [Spec.leafShapeOk, hl, if_true, FInfo.sel', Spec.subSelectionOf] at this
  cases hsel : a.node.sel with
  | nil => rfl
  | cons x rest => rw [hsel] at this; simp [Selections.toList] at this

end

end Gql.Validate
