import GqlProofs.Validate.OverlapSem
/-
  OverlappingFieldsCanBeMerged: the MEMO-FREE semantics of the rule as an inductive relation.

  `Holds env j`: the judgment `j` — "`findConflict(pe, a, b)` reports a conflict", "`findConflicts-
  BetweenSubSelectionSets(ex, a, b)` reports one", "`collectConflictsBetweenFieldsAndFragment(ex,
  fields of (parent, sels), sp)` reports one", "`collectConflictsBetweenFragments.check(ex, a, b)`
  reports one" — is derivable when every comparison the Go code makes is really made (no memo
  suppresses anything).  The relation follows the code, INCLUDING what it deliberately skips: two
  spreads of the same name are not compared, a fragment's field map is not compared with itself, a
  nested spread with the name of the fragment being expanded is skipped.

  This file: the field-map lemmas (`fmOfList` groups the collected fields by response name, in
  order) and the SOUNDNESS half — whatever the memoised functions report is derivable
  (`fcLevel_holds`, `within_holds`, …); no hypothesis on the memo state is needed for this.
-/
namespace Gql.Validate
open Gql Gql.Validate.Rules

def rnOf (f : FInfo) : Name := responseName f.node

/- ---------- `fmOfList` groups by response name ---------- -/

theorem lookup_fmPush (rn : Name) (f : FInfo) : ∀ (m : FMap) (k : Name),
    (fmPush rn f m).lookup k = if k == rn then some ((m.lookup k).getD [] ++ [f]) else m.lookup k
  | [], k => by
    simp only [fmPush, List.lookup_cons, List.lookup_nil]
    by_cases h : k == rn <;> simp [h]
  | (k0, fs) :: rest, k => by
    simp only [fmPush]
    by_cases h0 : k0 == rn
    · have e0 : k0 = rn := by simpa using h0
      subst e0
      simp only [beq_self_eq_true, if_true, List.lookup_cons]
      by_cases hk : k == k0 <;> simp [hk]
    · simp only [h0, Bool.false_eq_true, if_false, List.lookup_cons]
      by_cases hk : k == k0
      · have e : k = k0 := by simpa using hk
        subst e
        simp [h0]
      · simp only [hk]
        exact lookup_fmPush rn f rest k

/-- the bucket of response name `k` -/
def bucket (L : List FInfo) (k : Name) : List FInfo := L.filter fun f => rnOf f == k

def bucketOpt (L : List FInfo) (k : Name) : Option (List FInfo) :=
  match bucket L k with
  | [] => none
  | fs => some fs

theorem bucket_append (L : List FInfo) (f : FInfo) (k : Name) :
    bucket (L ++ [f]) k = bucket L k ++ (if rnOf f == k then [f] else []) := by
  unfold bucket
  rw [List.filter_append]
  by_cases h : rnOf f == k <;> simp [h]

theorem fmGet_fmOfList (L : List FInfo) (k : Name) : fmGet (fmOfList L) k = bucketOpt L k := by
  unfold fmGet fmOfList
  suffices h : ∀ (L L0 : List FInfo) (m : FMap), (∀ k, m.lookup k = bucketOpt L0 k) →
      ∀ k, (L.foldl (fun m f => fmPush (responseName f.node) f m) m).lookup k = bucketOpt (L0 ++ L) k by
    have := h L [] [] (fun k => by simp [bucketOpt, bucket]) k
    simpa using this
  intro L
  induction L with
  | nil => intro L0 m hm k; simpa using hm k
  | cons f rest ih =>
    intro L0 m hm k
    simp only [List.foldl_cons]
    have := ih (L0 ++ [f]) (fmPush (responseName f.node) f m) (fun k' => by
      rw [lookup_fmPush, hm k']
      unfold bucketOpt
      rw [bucket_append]
      by_cases hk : k' == responseName f.node
      · have e : k' = responseName f.node := by simpa using hk
        subst e
        simp only [beq_self_eq_true, if_true, rnOf]
        cases hb : bucket L0 (responseName f.node) with
        | nil => simp
        | cons x xs => simp
      · have hk' : (rnOf f == k') = false := by
          simp only [rnOf]
          cases h : responseName f.node == k' with
          | false => rfl
          | true =>
            have : responseName f.node = k' := by simpa using h
            subst this
            simp at hk
        simp only [hk, hk', Bool.false_eq_true, if_false, List.append_nil]) k
    simpa using this

theorem mem_bucket {L : List FInfo} {k : Name} {f : FInfo} : f ∈ bucket L k ↔ f ∈ L ∧ rnOf f = k := by
  simp [bucket]

/-- every collected field is in the bucket that `Get(responseName)` returns -/
theorem fmGet_of_mem {L : List FInfo} {f : FInfo} (h : f ∈ L) :
    ∃ fs, fmGet (fmOfList L) (rnOf f) = some fs ∧ fs = bucket L (rnOf f) ∧ f ∈ fs := by
  rw [fmGet_fmOfList]
  have hm : f ∈ bucket L (rnOf f) := mem_bucket.2 ⟨h, rfl⟩
  unfold bucketOpt
  cases hb : bucket L (rnOf f) with
  | nil => rw [hb] at hm; cases hm
  | cons x xs => exact ⟨x :: xs, rfl, rfl, by rw [← hb]; exact hm⟩

/-- … and that bucket is an entry of the map -/
theorem entry_of_mem {L : List FInfo} {f : FInfo} (h : f ∈ L) : (rnOf f, bucket L (rnOf f)) ∈ fmOfList L := by
  obtain ⟨fs, h1, h2, _⟩ := fmGet_of_mem h
  subst h2
  exact lookup_mem _ _ _ h1

/-- the members of the entries are collected fields filed under their response name -/
theorem entry_mem {L : List FInfo} : ∀ e ∈ fmOfList L, ∀ f ∈ e.2, f ∈ L ∧ rnOf f = e.1 :=
  fmOfList_allK (fun k f => f ∈ L ∧ rnOf f = k) L (fun _ hf => ⟨hf, rfl⟩)

theorem fmGet_mem {L : List FInfo} {k : Name} {fs : List FInfo} (h : fmGet (fmOfList L) k = some fs) :
    fs = bucket L k := by
  rw [fmGet_fmOfList] at h
  unfold bucketOpt at h
  split at h
  · cases h
  · injection h with h; exact h.symm

theorem pairwise_of_buckets {R : FInfo → FInfo → Prop} : ∀ (L : List FInfo),
    (∀ k, (bucket L k).Pairwise R) → L.Pairwise fun a b => rnOf a = rnOf b → R a b
  | [], _ => List.Pairwise.nil
  | x :: xs, h => by
    refine List.Pairwise.cons ?_ (pairwise_of_buckets xs fun k => ?_)
    · intro y hy hrn
      have := h (rnOf x)
      simp only [bucket, List.filter_cons, beq_self_eq_true, if_true] at this
      exact (List.pairwise_cons.1 this).1 y (List.mem_filter.2 ⟨hy, by simp [hrn]⟩)
    · have := h k
      simp only [bucket, List.filter_cons] at this
      split at this
      · exact (List.pairwise_cons.1 this).2
      · exact this

end Gql.Validate

namespace Gql.Validate
open Gql Gql.Validate.Rules

/- ---------- the collectors as `stLoop`s ---------- -/

/-- `findConflict` as a loop step -/
def fcStep (fc : FC) (excl : Bool) (fa fb : FInfo) (st : OSt) : Option (OSt × List Conflict) :=
  match fc excl fa fb st with
  | none => none
  | some (st1, c) => some (st1, optToList c)

theorem pairRow_eq (fc : FC) (excl : Bool) (fa : FInfo) : ∀ (fbs : List FInfo) (st : OSt),
    pairRow fc excl fa fbs st = stLoop (fcStep fc excl fa) fbs st
  | [], st => rfl
  | fb :: rest, st => by
    simp only [pairRow, stLoop, fcStep]
    cases fc excl fa fb st with
    | none => rfl
    | some r1 =>
      obtain ⟨st1, c⟩ := r1
      simp only [pairRow_eq fc excl fa rest st1]

theorem pairGrid_eq (fc : FC) (excl : Bool) (fsB : List FInfo) : ∀ (fsA : List FInfo) (st : OSt),
    pairGrid fc excl fsB fsA st = stLoop (fun fa => stLoop (fcStep fc excl fa) fsB) fsA st
  | [], st => rfl
  | fa :: rest, st => by
    simp only [pairGrid, stLoop, pairRow_eq]
    cases stLoop (fcStep fc excl fa) fsB st with
    | none => rfl
    | some r1 =>
      obtain ⟨st1, c⟩ := r1
      simp only [pairGrid_eq fc excl fsB rest st1]

/-- one entry of `fieldsMapA` against `fieldsMapB` -/
def betweenStep (fc : FC) (excl : Bool) (B : FMap) (e : Name × List FInfo) (st : OSt) : Option (OSt × List Conflict) :=
  match fmGet B e.1 with
  | none => some (st, [])
  | some fsB => stLoop (fun fa => stLoop (fcStep fc excl fa) fsB) e.2 st

theorem between_eq (fc : FC) (excl : Bool) (B : FMap) : ∀ (A : FMap) (st : OSt),
    collectConflictsBetween fc excl B A st = stLoop (betweenStep fc excl B) A st
  | [], st => rfl
  | (rn, fsA) :: rest, st => by
    unfold collectConflictsBetween
    simp only [stLoop, betweenStep]
    cases fmGet B rn with
    | none =>
      simp only
      rw [between_eq fc excl B rest st]
      cases stLoop (betweenStep fc excl B) rest st with
      | none => rfl
      | some r => simp
    | some fsB =>
      simp only [pairGrid_eq]
      cases stLoop (fun fa => stLoop (fcStep fc excl fa) fsB) fsA st with
      | none => rfl
      | some r1 =>
        obtain ⟨st1, c⟩ := r1
        simp only [between_eq fc excl B rest st1]

/- ---------- generic facts about `stLoop` ---------- -/

/-- a non-empty result comes from some step -/
theorem stLoop_exists {α : Type} (step : α → OSt → Option (OSt × List Conflict)) :
    ∀ (xs : List α) (st : OSt) (r : OSt × List Conflict), stLoop step xs st = some r → r.2 ≠ [] →
      ∃ x ∈ xs, ∃ st1 r1, step x st1 = some r1 ∧ r1.2 ≠ []
  | [], st, r, h, hne => by
    simp only [stLoop] at h
    injection h with h
    subst h
    exact absurd rfl hne
  | x :: rest, st, r, h, hne => by
    simp only [stLoop] at h
    cases h1 : step x st with
    | none => rw [h1] at h; cases h
    | some r1 =>
      obtain ⟨st1, c1⟩ := r1
      rw [h1] at h
      simp only at h
      cases h2 : stLoop step rest st1 with
      | none => rw [h2] at h; cases h
      | some r2 =>
        obtain ⟨st2, c2⟩ := r2
        rw [h2] at h
        simp only at h
        injection h with h
        subst h
        by_cases hc : c1 = []
        · subst hc
          obtain ⟨y, hy, z⟩ := stLoop_exists step rest st1 _ h2 (by simpa using hne)
          exact ⟨y, List.mem_cons_of_mem _ hy, z⟩
        · exact ⟨x, List.mem_cons_self .., st, _, h1, hc⟩

/-- what is threaded through a silent run: an invariant of the manager state and a reflexive,
    transitive relation between the state before and after -/
structure Frame where
  I : OSt → Prop
  T : OSt → OSt → Prop
  refl : ∀ st, T st st
  trans : ∀ {a b c}, T a b → T b c → T a c

/-- a silent loop: every step was silent, and what each silent step guarantees (`Q`) holds -/
theorem stLoop_silent {α : Type} (F : Frame) (step : α → OSt → Option (OSt × List Conflict)) (Q : α → Prop) :
    ∀ (xs : List α), (∀ x ∈ xs, ∀ st r, F.I st → step x st = some r → r.2 = [] → F.I r.1 ∧ F.T st r.1 ∧ Q x) →
      ∀ st r, F.I st → stLoop step xs st = some r → r.2 = [] → F.I r.1 ∧ F.T st r.1 ∧ ∀ x ∈ xs, Q x
  | [], _, st, r, hI, h, _ => by
    simp only [stLoop] at h
    injection h with h
    subst h
    exact ⟨hI, F.refl _, fun _ hx => by cases hx⟩
  | x :: rest, hs, st, r, hI, h, he => by
    simp only [stLoop] at h
    cases h1 : step x st with
    | none => rw [h1] at h; cases h
    | some r1 =>
      obtain ⟨st1, c1⟩ := r1
      rw [h1] at h
      simp only at h
      cases h2 : stLoop step rest st1 with
      | none => rw [h2] at h; cases h
      | some r2 =>
        obtain ⟨st2, c2⟩ := r2
        rw [h2] at h
        simp only at h
        injection h with h
        subst h
        simp only [List.append_eq_nil_iff] at he
        obtain ⟨a1, a2, a3⟩ := hs x (List.mem_cons_self ..) st _ hI h1 he.1
        obtain ⟨b1, b2, b3⟩ := stLoop_silent F step Q rest (fun y hy => hs y (List.mem_cons_of_mem _ hy)) st1 _ a1 h2 he.2
        refine ⟨b1, F.trans a2 b2, fun y hy => ?_⟩
        rcases List.mem_cons.1 hy with rfl | hy
        · exact a3
        · exact b3 y hy

end Gql.Validate
