import GqlProofs.Validate.OverlapDocF
/-
  OverlappingFieldsCanBeMerged vs. §5.3.2 on selection sets without fragment spreads: the
  memo-free judgments `Holds` against `Spec.sameResponseShape` / `Spec.fieldsInSetCanMerge`.
-/
namespace Gql.Validate
open Gql Gql.Validate.Rules

/-- the environment of an observer call -/
abbrev envOf (s : Schema) (d : QueryDoc) (l : Links) : Env := overlapEnv s.view d l

/-- no fragment spread below the field -/
def FlatBelow (a : FInfo) : Prop := Spec.spreadsOfSels a.node.sel = []

/- ---------- one-step unfoldings of the specification ---------- -/

def shapeOK (s : Schema) (d : QueryDoc) (n : Nat) (x y : Spec.MField) : Bool :=
  x.key != y.key || Spec.sameResponseShape s d n x y

def mayOverlap (x y : Spec.MField) : Bool :=
  match x.parent, y.parent with
  | some pa, some pb => pa.name == pb.name || !Spec.isObject pa || !Spec.isObject pb
  | _, _ => true

def mergePart (s : Schema) (d : QueryDoc) (n : Nat) (x y : Spec.MField) : Bool :=
  if mayOverlap x y then
    x.name == y.name && Spec.sameArguments x.args y.args && Spec.fieldsInSetCanMerge s d n (Spec.mergedSet s d x y)
  else true

def pairOK (s : Schema) (d : QueryDoc) (n : Nat) (x y : Spec.MField) : Bool :=
  x.key != y.key || (Spec.sameResponseShape s d (n + 1) x y && mergePart s d n x y)

theorem fieldsInSetCanMerge_succ (s : Schema) (d : QueryDoc) (n : Nat) (L : List Spec.MField) :
    Spec.fieldsInSetCanMerge s d (n + 1) L = Spec.allPairs (pairOK s d n) L := rfl

theorem shape_succ (s : Schema) (d : QueryDoc) (n : Nat) (x y : Spec.MField) {fa fb : FieldDef}
    (h1 : x.fdef = some fa) (h2 : y.fdef = some fb) :
    Spec.sameResponseShape s d (n + 1) x y =
      (Spec.sameWrappers (specNamed s) fa.type fb.type &&
        (match s.type? fa.type.name, s.type? fb.type.name with
         | some dx, some dy =>
           if Spec.isLeaf dx || Spec.isLeaf dy then true
           else Spec.allPairs (shapeOK s d n) (Spec.mergedSet s d x y)
         | _, _ => true)) := by
  simp only [Spec.sameResponseShape, h1, h2]
  rfl

section
variable {s : Schema} {d : QueryDoc} {l : Links} (H : OvHyps s d)
include H

theorem mergedSet_flat {a b : FInfo} (ha : DocF s d l a) (hb : DocF s d l b) (fa : FlatBelow a) (fb : FlatBelow b) :
    Spec.mergedSet s d (toM a) (toM b) =
      (subFields (envOf s d l) a).map toM ++ (subFields (envOf s d l) b).map toM := by
  unfold Spec.mergedSet
  simp only
  rw [← ha.next_eq H, ← hb.next_eq H]
  show (Spec.collectLevel s d (d.frags.length + 1) (a.next s.view) a.node.sel []).1 ++
    (Spec.collectLevel s d (d.frags.length + 1) (b.next s.view) b.node.sel
      (Spec.collectLevel s d (d.frags.length + 1) (a.next s.view) a.node.sel []).2).1 = _
  rw [collectLevel_flat s d l _ _ _ _ fa]
  simp only
  rw [collectLevel_flat s d l _ _ _ _ fb]
  rfl

theorem goExcl_mayOverlap {a b : FInfo} (ha : DocF s d l a) (hb : DocF s d l b) :
    goExcl a b = !mayOverlap (toM a) (toM b) := by
  obtain ⟨pa, hpa⟩ := ha.parent_some H
  obtain ⟨pb, hpb⟩ := hb.parent_some H
  obtain ⟨da, hda⟩ := ha.fdef_some H
  obtain ⟨db, hdb⟩ := hb.fdef_some H
  have h1 : a.dfn.isSome = true := by rw [ha.dfn_eq H, hda]; rfl
  have h2 : b.dfn.isSome = true := by rw [hb.dfn_eq H, hdb]; rfl
  simp only [goExcl, ha.obj_eq, hb.obj_eq, hpa, hpb, h1, h2, mayOverlap, toM, Bool.and_true, Spec.isObject]
  simp only [bne]
  generalize (pa.name == pb.name) = x
  generalize (pa.kind == DefKind.object) = y
  generalize (pb.kind == DefKind.object) = z
  cases x <;> cases y <;> cases z <;> rfl

end


/- ---------- rule clean ⇒ specification holds ---------- -/

/-- within every (spread-free) sub-selection the rule found nothing -/
def CleanBelow (s : Schema) (d : QueryDoc) (l : Links) : Prop :=
  ∀ a, DocF s d l a → FlatBelow a →
    (subFields (envOf s d l) a).Pairwise fun x y => rnOf x = rnOf y → ¬ Holds (envOf s d l) (.conf false x y)

theorem flatBelow_sub {s : Schema} {d : QueryDoc} {l : Links} {a a' : FInfo} (fa : FlatBelow a)
    (h : a' ∈ subFields (envOf s d l) a) : FlatBelow a' := flat_sub h fa

section
variable {s : Schema} {d : QueryDoc} {l : Links} (H : OvHyps s d) (hclean : CleanBelow s d l)
include H hclean

theorem shape_of_clean : ∀ (n : Nat) (pe : Bool) (a b : FInfo), DocF s d l a → DocF s d l b → FlatBelow a → FlatBelow b →
    ¬ Holds (envOf s d l) (.conf pe a b) → Spec.sameResponseShape s d n (toM a) (toM b) = true
  | 0, _, _, _, _, _, _, _, _ => rfl
  | n + 1, pe, a, b, ha, hb, fa, fb, hnc => by
    obtain ⟨da, hda⟩ := ha.fdef_some H
    obtain ⟨db, hdb⟩ := hb.fdef_some H
    obtain ⟨pa, hpa⟩ := ha.parent_some H
    obtain ⟨pb, hpb⟩ := hb.parent_some H
    have hoa : a.obj = some pa := by rw [ha.obj_eq, hpa]
    have hob : b.obj = some pb := by rw [hb.obj_eq, hpb]
    rw [shape_succ s d n _ _ hda hdb, Bool.and_eq_true]
    constructor
    · cases hw : Spec.sameWrappers (specNamed s) da.type db.type with
      | true => rfl
      | false =>
        exfalso
        apply hnc
        refine .types hoa hob (by rw [ha.dfn_eq H, hda]) (by rw [hb.dfn_eq H, hdb]) ?_
        show doTypesConflict s.view da.type db.type = true
        rw [doTypesConflict_eq s H.keys, hw]
        rfl
    · split
      · split
        · rfl
        · rw [mergedSet_flat H ha hb fa fb, allPairs_append]
          refine ⟨?_, ?_, ?_⟩
          · rw [allPairs_iff, List.pairwise_map]
            refine (hclean a ha fa).imp_of_mem ?_
            intro x y hx hy hxy
            unfold shapeOK
            by_cases hk : (toM x).key = (toM y).key
            · rw [shape_of_clean n false x y (ha.sub H hx) (ha.sub H hy) (flatBelow_sub fa hx) (flatBelow_sub fa hy)
                (hxy (by simpa [toM_key, rnOf] using hk))]
              simp
            · simp [hk]
          · rw [allPairs_iff, List.pairwise_map]
            refine (hclean b hb fb).imp_of_mem ?_
            intro x y hx hy hxy
            unfold shapeOK
            by_cases hk : (toM x).key = (toM y).key
            · rw [shape_of_clean n false x y (hb.sub H hx) (hb.sub H hy) (flatBelow_sub fb hx) (flatBelow_sub fb hy)
                (hxy (by simpa [toM_key, rnOf] using hk))]
              simp
            · simp [hk]
          · intro x hx y hy
            obtain ⟨x0, hx0, rfl⟩ := List.mem_map.1 hx
            obtain ⟨y0, hy0, rfl⟩ := List.mem_map.1 hy
            unfold shapeOK
            by_cases hk : (toM x0).key = (toM y0).key
            · rw [shape_of_clean n (pe || goExcl a b) x0 y0 (ha.sub H hx0) (hb.sub H hy0) (flatBelow_sub fa hx0)
                (flatBelow_sub fb hy0) (fun hc => hnc (.sub hoa hob (.subFields hx0 hy0
                  (by simpa [toM_key, rnOf] using hk) hc)))]
              simp
            · simp [hk]
      · rfl

/-- one level of `pairOK`: the part that does not recurse, given the recursive part -/
theorem pairOK_step (n : Nat) (a b : FInfo) (ha : DocF s d l a) (hb : DocF s d l b) (fa : FlatBelow a) (fb : FlatBelow b)
    (hnc : ¬ Holds (envOf s d l) (.conf false a b))
    (hrec : goExcl a b = false → Spec.fieldsInSetCanMerge s d n (Spec.mergedSet s d (toM a) (toM b)) = true) :
    pairOK s d n (toM a) (toM b) = true := by
  obtain ⟨pa, hpa⟩ := ha.parent_some H
  obtain ⟨pb, hpb⟩ := hb.parent_some H
  have hoa : a.obj = some pa := by rw [ha.obj_eq, hpa]
  have hob : b.obj = some pb := by rw [hb.obj_eq, hpb]
  unfold pairOK
  rw [shape_of_clean H hclean (n + 1) false a b ha hb fa fb hnc]
  simp only [Bool.true_and, Bool.or_eq_true]
  right
  unfold mergePart
  split
  · rename_i hmo
    have hex : goExcl a b = false := by rw [goExcl_mayOverlap H ha hb, hmo]; rfl
    simp only [Bool.and_eq_true]
    refine ⟨⟨?_, ?_⟩, hrec hex⟩
    · cases hn : (toM a).name == (toM b).name with
      | true => rfl
      | false =>
        exfalso
        apply hnc
        refine .names hoa hob (by simp [hex]) ?_
        intro e
        simp only [toM] at hn
        rw [e] at hn
        simp at hn
    · cases hn : Spec.sameArguments (toM a).args (toM b).args with
      | true => rfl
      | false =>
        exfalso
        apply hnc
        refine .args hoa hob (by simp [hex]) ?_
        rw [sameArguments_eq_spec]
        exact hn
  · rfl

theorem pairOK_of_clean : ∀ (n : Nat) (a b : FInfo), DocF s d l a → DocF s d l b → FlatBelow a → FlatBelow b →
    ¬ Holds (envOf s d l) (.conf false a b) → pairOK s d n (toM a) (toM b) = true := by
  intro n
  induction n with
  | zero =>
    intro a b ha hb fa fb hnc
    exact pairOK_step H hclean 0 a b ha hb fa fb hnc (fun _ => rfl)
  | succ m ih =>
    intro a b ha hb fa fb hnc
    refine pairOK_step H hclean (m + 1) a b ha hb fa fb hnc (fun hex => ?_)
    rw [fieldsInSetCanMerge_succ, mergedSet_flat H ha hb fa fb, allPairs_append]
    refine ⟨?_, ?_, ?_⟩
    · rw [allPairs_iff, List.pairwise_map]
      refine (hclean a ha fa).imp_of_mem ?_
      intro x y hx hy hxy
      by_cases hk : (toM x).key = (toM y).key
      · exact ih x y (ha.sub H hx) (ha.sub H hy) (flatBelow_sub fa hx) (flatBelow_sub fa hy)
          (hxy (by simpa [toM_key, rnOf] using hk))
      · simp [pairOK, hk]
    · rw [allPairs_iff, List.pairwise_map]
      refine (hclean b hb fb).imp_of_mem ?_
      intro x y hx hy hxy
      by_cases hk : (toM x).key = (toM y).key
      · exact ih x y (hb.sub H hx) (hb.sub H hy) (flatBelow_sub fb hx) (flatBelow_sub fb hy)
          (hxy (by simpa [toM_key, rnOf] using hk))
      · simp [pairOK, hk]
    · intro x hx y hy
      obtain ⟨x0, hx0, rfl⟩ := List.mem_map.1 hx
      obtain ⟨y0, hy0, rfl⟩ := List.mem_map.1 hy
      by_cases hk : (toM x0).key = (toM y0).key
      · obtain ⟨pa, hpa⟩ := ha.parent_some H
        obtain ⟨pb, hpb⟩ := hb.parent_some H
        refine ih x0 y0 (ha.sub H hx0) (hb.sub H hy0) (flatBelow_sub fa hx0) (flatBelow_sub fb hy0) (fun hc => hnc ?_)
        refine .sub (by rw [ha.obj_eq, hpa]) (by rw [hb.obj_eq, hpb]) (.subFields hx0 hy0 (by simpa [toM_key, rnOf] using hk) ?_)
        simpa [hex] using hc
      · simp [pairOK, hk]

end


/- ---------- a derivable conflict ⇒ the specification fails ---------- -/

mutual
  /-- nesting depth of fields (not following spreads) -/
  def sdepth : Selections → Nat
    | .nil => 0
    | .cons x rest => max (sdepthSel x) (sdepth rest)
  def sdepthSel : Selection → Nat
    | .field _ _ _ _ sub _ => sdepth sub + 1
    | .inline _ _ sub _ => sdepth sub
    | .spread _ _ _ => 0
end

mutual
  theorem collectFields_sdepth (s : SV) (l : Links) : ∀ (sels : Selections) (p : Option Definition) (f : FInfo),
      f ∈ collectFields s l p sels → sdepth f.node.sel + 1 ≤ sdepth sels
    | .nil, _, _, h => by simp [collectFields] at h
    | .cons y rest, p, f, h => by
      simp only [collectFields, List.mem_append] at h
      simp only [sdepth]
      rcases h with h | h
      · have := collectFieldsSel_sdepth s l y p f h; omega
      · have := collectFields_sdepth s l rest p f h; omega
  theorem collectFieldsSel_sdepth (s : SV) (l : Links) : ∀ (y : Selection) (p : Option Definition) (f : FInfo),
      f ∈ collectFieldsSel s l p y → sdepth f.node.sel + 1 ≤ sdepthSel y
    | .field _ _ _ _ sub _, _, f, h => by
      simp only [collectFieldsSel, List.mem_singleton] at h
      subst h
      simp [sdepthSel]
    | .inline _ _ sub _, p, f, h => by
      simp only [collectFieldsSel] at h
      simp only [sdepthSel]
      exact collectFields_sdepth s l sub _ f h
    | .spread _ _ _, _, _, h => by simp [collectFieldsSel] at h
end

/-- a non-empty selection set has a node whose declarative parent is the type in scope -/
theorem typedSels_head (s : Schema) (p : Option Definition) : ∀ (sels : Selections), sels ≠ .nil →
    ∃ t ∈ Spec.typedSels s p sels, t.parent = p
  | .nil, h => absurd rfl h
  | .cons x rest, _ => ⟨⟨p, x⟩, by
      simp only [Spec.typedSels, List.mem_append]
      exact Or.inl (typedSel_head s p x), rfl⟩

theorem DocF.next_some {s : Schema} {d : QueryDoc} {l : Links} (H : OvHyps s d) {a a' : FInfo} (ha : DocF s d l a)
    (h : a' ∈ subFields (envOf s d l) a) : ∃ q, a.next s.view = some q := by
  have hne : a.node.sel ≠ .nil := by
    intro e
    simp only [subFields, e, collectFields] at h
    cases h
  obtain ⟨t, ht, hp⟩ := typedSels_head s (a.next s.view) a.node.sel hne
  rw [ha.next_fieldType H] at ht
  have hd : t ∈ Spec.docSels s d := by
    refine docSels_trans s d _ _ ha.inDoc ?_
    simp only [FInfo.sel', Spec.typedSel, List.mem_cons]
    exact Or.inr ht
  have := H.parents t hd
  rw [hp] at this
  cases hq : a.next s.view with
  | none => rw [hq] at this; cases this
  | some q => exact ⟨q, rfl⟩

/-- what a derivable judgment means for the specification (spread-free selection sets) -/
def Bmot (s : Schema) (d : QueryDoc) (l : Links) : Jg → Prop
  | .conf pe a b => DocF s d l a → DocF s d l b → FlatBelow a → FlatBelow b → ∀ n, sdepth a.node.sel ≤ n →
      Spec.sameResponseShape s d (n + 1) (toM a) (toM b) = false ∨
        (pe = false ∧ mergePart s d n (toM a) (toM b) = false)
  | .sub ex a b => DocF s d l a → DocF s d l b → FlatBelow a → FlatBelow b →
      ∃ a' ∈ subFields (envOf s d l) a, ∃ b' ∈ subFields (envOf s d l) b, rnOf a' = rnOf b' ∧
        ∀ n, sdepth a'.node.sel ≤ n →
          Spec.sameResponseShape s d (n + 1) (toM a') (toM b') = false ∨
            (ex = false ∧ mergePart s d n (toM a') (toM b') = false)
  | .chain .. => True
  | .check .. => True

theorem holds_flat {s : Schema} {d : QueryDoc} {l : Links} (H : OvHyps s d) {j : Jg} (h : Holds (envOf s d l) j) :
    Bmot s d l j := by
  induction h with
  | @names pe a b oa ob hoa hob hex hne =>
    intro ha hb _ _ n _
    right
    simp only [Bool.or_eq_false_iff] at hex
    refine ⟨hex.1, ?_⟩
    have hmo : mayOverlap (toM a) (toM b) = true := by
      have := goExcl_mayOverlap H ha hb
      rw [hex.2] at this
      simpa using this.symm
    have : (a.node.name == b.node.name) = false := by simpa using hne
    unfold mergePart
    rw [if_pos hmo]
    simp [toM, this]
  | @args pe a b oa ob hoa hob hex hargs =>
    intro ha hb _ _ n _
    right
    simp only [Bool.or_eq_false_iff] at hex
    refine ⟨hex.1, ?_⟩
    have hmo : mayOverlap (toM a) (toM b) = true := by
      have := goExcl_mayOverlap H ha hb
      rw [hex.2] at this
      simpa using this.symm
    rw [sameArguments_eq_spec] at hargs
    unfold mergePart
    rw [if_pos hmo]
    simp [toM, hargs]
  | @types pe a b oa ob da db hoa hob hda hdb hconf =>
    intro ha hb _ _ n _
    left
    rw [ha.dfn_eq H] at hda
    rw [hb.dfn_eq H] at hdb
    rw [shape_succ s d n _ _ hda hdb]
    have : doTypesConflict s.view da.type db.type = true := hconf
    rw [doTypesConflict_eq s H.keys] at this
    have hw : Spec.sameWrappers (specNamed s) da.type db.type = false := by simpa using this
    rw [hw]
    rfl
  | @sub pe a b oa ob hoa hob hsub ih =>
    intro ha hb fa fb n hn
    obtain ⟨a', ha', b', hb', hrn, hcl⟩ := ih ha hb fa fb
    have hd := collectFields_sdepth _ _ _ _ a' ha'
    obtain ⟨m, rfl⟩ : ∃ m, n = m + 1 := ⟨n - 1, by omega⟩
    have hkey : ((toM a').key != (toM b').key) = false := by
      simp only [toM_key]
      have : responseName a'.node = responseName b'.node := hrn
      simp [this]
    obtain ⟨da, hda⟩ := ha.fdef_some H
    obtain ⟨db, hdb⟩ := hb.fdef_some H
    obtain ⟨qa, hqa⟩ := ha.next_some H ha'
    obtain ⟨qb, hqb⟩ := hb.next_some H hb'
    have hqa' : s.type? da.type.name = some qa := by
      rw [ha.next_eq H, hda] at hqa
      exact hqa
    have hqb' : s.type? db.type.name = some qb := by
      rw [hb.next_eq H, hdb] at hqb
      exact hqb
    have hnl : (Spec.isLeaf qa || Spec.isLeaf qb) = false := by
      cases h1 : Spec.isLeaf qa with
      | true =>
        have := ha.leaf_nil H hda hqa' h1
        simp only [subFields, this, collectFields] at ha'
        cases ha'
      | false =>
        cases h2 : Spec.isLeaf qb with
        | true =>
          have := hb.leaf_nil H hdb hqb' h2
          simp only [subFields, this, collectFields] at hb'
          cases hb'
        | false => rfl
    rcases hcl m (by omega) with hsh | ⟨hex, hmp⟩
    · left
      rw [shape_succ s d (m + 1) _ _ hda hdb, hqa', hqb']
      simp only [hnl, Bool.false_eq_true, if_false]
      rw [mergedSet_flat H ha hb fa fb,
        allPairs_false_of_cross (shapeOK s d (m + 1)) (List.mem_map.2 ⟨a', ha', rfl⟩) (List.mem_map.2 ⟨b', hb', rfl⟩)
          (by simp only [shapeOK, hkey, hsh]; rfl)]
      simp
    · right
      simp only [Bool.or_eq_false_iff] at hex
      refine ⟨hex.1, ?_⟩
      have hmo : mayOverlap (toM a) (toM b) = true := by
        have := goExcl_mayOverlap H ha hb
        rw [hex.2] at this
        simpa using this.symm
      simp only [mergePart, hmo, if_true]
      rw [fieldsInSetCanMerge_succ, mergedSet_flat H ha hb fa fb,
        allPairs_false_of_cross (pairOK s d m) (List.mem_map.2 ⟨a', ha', rfl⟩) (List.mem_map.2 ⟨b', hb', rfl⟩)
          (by simp only [pairOK, hkey, hmp]; simp)]
      simp
  | @subFields ex a b a' b' ha' hb' hrn hc ih =>
    intro ha hb fa fb
    exact ⟨a', ha', b', hb', hrn, fun n hn => ih (ha.sub H ha') (hb.sub H hb') (flatBelow_sub fa ha') (flatBelow_sub fb hb') n hn⟩
  | @subChainB ex a b sp hsp _ _ =>
    intro _ _ _ fb
    rw [collectSpreads_flat _ fb] at hsp
    cases hsp
  | @subChainA ex a b sp hsp _ _ =>
    intro _ _ fa _
    rw [collectSpreads_flat _ fa] at hsp
    cases hsp
  | @subCheck ex a b sa sb hsa _ _ _ =>
    intro _ _ fa _
    rw [collectSpreads_flat _ fa] at hsa
    cases hsa
  | chainHere => trivial
  | chainNext => trivial
  | checkHere => trivial
  | checkRight => trivial
  | checkLeft => trivial

end Gql.Validate
