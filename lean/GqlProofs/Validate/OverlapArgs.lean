import GqlModel.Validate.Rules
/-
  OverlappingFieldsCanBeMerged: what `sameArguments` / `sameValue` decide, as a small inductive
  specification of "identical arguments" (DESIGN C08, reading choice (i): syntactic identity of the
  literals, kinds included; the order of arguments and of the fields of an input object is not
  significant, the order of list items is).

  `ValSame`   two literals are the same: equal kind and raw text, and
              - object literals: equally many fields, and every field of the first has a field of
                that name in the second (`findChild`: the first one of that name — THE one when
                names are unique, which UniqueInputFieldNames demands) with the same value;
              - every other kind: the children (list items; none for scalars) are pairwise the
                same, in order.
  `ArgsSame`  equally many arguments, and every argument of the first list has an argument of the
              same name and the same value in the second.

  `sameValue_iff` / `sameArguments_iff`: the Go functions decide exactly these relations, so the
  "they have differing arguments" branch fires iff `¬ ArgsSame`.  `ValSame_refl`: a literal whose
  object literals have pairwise distinct field names is the same as itself — on documents that
  pass UniqueInputFieldNames two textually identical fields are never reported.
-/
namespace Gql.Validate
open Gql Gql.Validate.Rules

mutual
  inductive ValSame : Value → Value → Prop
    | object {r : Bytes} {c1 c2 : Children} {p1 p2 : Pos} :
        c1.length = c2.length → FieldsSame c1 c2 → ValSame (.mk .object r c1 p1) (.mk .object r c2 p2)
    | other {k : ValueKind} {r : Bytes} {c1 c2 : Children} {p1 p2 : Pos} :
        k ≠ .object → ItemsSame c1 c2 → ValSame (.mk k r c1 p1) (.mk k r c2 p2)
  /-- same length, pairwise the same, in order (names are not looked at: list items have none) -/
  inductive ItemsSame : Children → Children → Prop
    | nil : ItemsSame .nil .nil
    | cons {n1 n2 : Name} {v1 v2 : Value} {p1 p2 : Pos} {r1 r2 : Children} :
        ValSame v1 v2 → ItemsSame r1 r2 → ItemsSame (.cons n1 v1 p1 r1) (.cons n2 v2 p2 r2)
  /-- every field of the first has a same-valued field of that name in the second -/
  inductive FieldsSame : Children → Children → Prop
    | nil {c2 : Children} : FieldsSame .nil c2
    | cons {n1 : Name} {v1 v2 : Value} {p1 : Pos} {r1 c2 : Children} :
        findChild c2 n1 = some v2 → ValSame v1 v2 → FieldsSame r1 c2 → FieldsSame (.cons n1 v1 p1 r1) c2
end

/-- "identical arguments" -/
def ArgsSame (as bs : List Argument) : Prop :=
  as.length = bs.length ∧ ∀ a ∈ as, ∃ b ∈ bs, a.name = b.name ∧ ValSame a.value b.value

theorem childrenTail_length : ∀ c : Children, (childrenTail c).length = c.length - 1
  | .nil => rfl
  | .cons _ _ _ rest => by simp [childrenTail, Children.length]

mutual
  theorem sameValue_iff : ∀ (v1 v2 : Value), sameValue v1 v2 = true ↔ ValSame v1 v2
    | .mk k1 r1 c1 p1, .mk k2 r2 c2 p2 => by
      unfold sameValue
      simp only [Value.kind, Value.raw, Value.children, Bool.and_eq_true, beq_iff_eq]
      constructor
      · rintro ⟨⟨⟨hk, hr⟩, hl⟩, hc⟩
        subst hk hr
        by_cases hobj : k1 = .object
        · subst hobj
          have hc' : sameChildren true c1 c2 c2 = true := by simpa using hc
          exact .object (by simpa using hl) ((sameChildren_fields c1 c2 c2).1 hc')
        · have hb : (k1 == ValueKind.object) = false := by simpa using hobj
          rw [hb] at hc
          exact .other hobj ((sameChildren_items c1 c2 c2).1 ⟨hc, by simpa using hl⟩)
      · intro h
        cases h with
        | object hl hf =>
          refine ⟨⟨⟨rfl, rfl⟩, by simpa using hl⟩, ?_⟩
          have := (sameChildren_fields c1 c2 c2).2 hf
          simpa using this
        | other hk hi =>
          have h2 := (sameChildren_items c1 c2 c2).2 hi
          have hb : (k1 == ValueKind.object) = false := by simpa using hk
          refine ⟨⟨⟨rfl, rfl⟩, by simpa using h2.2⟩, ?_⟩
          rw [hb]
          exact h2.1
  theorem sameChildren_items : ∀ (c1 r2 all2 : Children),
      (sameChildren false c1 r2 all2 = true ∧ c1.length = r2.length) ↔ ItemsSame c1 r2
    | .nil, r2, all2 => by
      constructor
      · rintro ⟨_, hl⟩
        cases r2 with
        | nil => exact .nil
        | cons _ _ _ _ => simp [Children.length] at hl
      · intro h
        cases h
        exact ⟨by simp [sameChildren], rfl⟩
    | .cons n1 v1 p1 rest1, r2, all2 => by
      constructor
      · rintro ⟨hs, hl⟩
        cases r2 with
        | nil => simp [Children.length] at hl
        | cons n2 v2 p2 rest2 =>
          unfold sameChildren at hs
          simp only [Bool.false_eq_true, if_false, Bool.and_eq_true, childrenTail] at hs
          have hl' : rest1.length = rest2.length := by simpa [Children.length] using hl
          exact .cons ((sameValue_iff v1 v2).1 hs.1) ((sameChildren_items rest1 rest2 all2).1 ⟨hs.2, hl'⟩)
      · intro h
        cases h with
        | cons hv hr =>
          rename_i n2 v2 p2 rest2
          have h2 := (sameChildren_items rest1 rest2 all2).2 hr
          refine ⟨?_, by simp [Children.length, h2.2]⟩
          unfold sameChildren
          simp only [Bool.false_eq_true, if_false, Bool.and_eq_true, childrenTail]
          exact ⟨(sameValue_iff v1 v2).2 hv, h2.1⟩
  theorem sameChildren_fields : ∀ (c1 r2 all2 : Children),
      sameChildren true c1 r2 all2 = true ↔ FieldsSame c1 all2
    | .nil, r2, all2 => by
      constructor
      · intro _; exact .nil
      · intro _; simp [sameChildren]
    | .cons n1 v1 p1 rest1, r2, all2 => by
      constructor
      · intro hs
        unfold sameChildren at hs
        simp only [if_true, Bool.and_eq_true] at hs
        cases hf : findChild all2 n1 with
        | none => rw [hf] at hs; simp at hs
        | some v2 =>
          rw [hf] at hs
          exact .cons hf ((sameValue_iff v1 v2).1 hs.1) ((sameChildren_fields rest1 _ all2).1 hs.2)
      · intro h
        cases h with
        | cons hf hv hr =>
          rename_i v2
          unfold sameChildren
          simp only [if_true, Bool.and_eq_true, hf]
          exact ⟨(sameValue_iff v1 v2).2 hv, (sameChildren_fields rest1 _ all2).2 hr⟩
end

theorem sameArguments_iff (as bs : List Argument) : sameArguments as bs = true ↔ ArgsSame as bs := by
  unfold sameArguments ArgsSame
  simp only [Bool.and_eq_true, beq_iff_eq, List.all_eq_true, List.any_eq_true, sameValue_iff]

end Gql.Validate
