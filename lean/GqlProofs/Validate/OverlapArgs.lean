import GqlModel.Validate.Rules
/-
  OverlappingFieldsCanBeMerged: what `sameArguments` / `sameValue` decide, as a small inductive
  specification of "identical arguments" (DESIGN C08, reading choice (i): syntactic identity of the
  literals, kinds included; the order of arguments and of the fields of an input object is not
  significant, the order of list items is).

  `ValSame`   two literals are the same: equal kind and raw text, and
              - object literals: equally many fields, and every field of the first has a field of
                that name in the second (`findChild`: the first one of that name — THE one when
                names are unique, which UniqueInputFieldNames demands) with the same value;
              - every other kind: the children (list items; none for scalars) are pairwise the
                same, in order.
  `ArgsSame`  equally many arguments, and every argument of the first list has an argument of the
              same name and the same value in the second.

  `sameValue_iff` / `sameArguments_iff`: the Go functions decide exactly these relations, so the
  "they have differing arguments" branch fires iff `¬ ArgsSame`.  `ValSame_refl`: a literal whose
  object literals have pairwise distinct field names is the same as itself — on documents that
  pass UniqueInputFieldNames two textually identical fields are never reported.
-/
namespace Gql.Validate
open Gql Gql.Validate.Rules

mutual
  inductive ValSame : Value → Value → Prop
    | object {r : Bytes} {c1 c2 : Children} {p1 p2 : Pos} :
        c1.length = c2.length → FieldsSame c1 c2 → ValSame (.mk .object r c1 p1) (.mk .object r c2 p2)
    | other {k : ValueKind} {r : Bytes} {c1 c2 : Children} {p1 p2 : Pos} :
        k ≠ .object → ItemsSame c1 c2 → ValSame (.mk k r c1 p1) (.mk k r c2 p2)
  /-- same length, pairwise the same, in order (names are not looked at: list items have none) -/
  inductive ItemsSame : Children → Children → Prop
    | nil : ItemsSame .nil .nil
    | cons {n1 n2 : Name} {v1 v2 : Value} {p1 p2 : Pos} {r1 r2 : Children} :
        ValSame v1 v2 → ItemsSame r1 r2 → ItemsSame (.cons n1 v1 p1 r1) (.cons n2 v2 p2 r2)
  /-- every field of the first has a same-valued field of that name in the second -/
  inductive FieldsSame : Children → Children → Prop
    | nil {c2 : Children} : FieldsSame .nil c2
    | cons {n1 : Name} {v1 v2 : Value} {p1 : Pos} {r1 c2 : Children} :
        findChild c2 n1 = some v2 → ValSame v1 v2 → FieldsSame r1 c2 → FieldsSame (.cons n1 v1 p1 r1) c2
end

/-- "identical arguments" -/
def ArgsSame (as bs : List Argument) : Prop :=
  as.length = bs.length ∧ ∀ a ∈ as, ∃ b ∈ bs, a.name = b.name ∧ ValSame a.value b.value

theorem childrenTail_length : ∀ c : Children, (childrenTail c).length = c.length - 1
  | .nil => rfl
  | .cons _ _ _ rest => by simp [childrenTail, Children.length]

mutual
  theorem sameValue_iff : ∀ (v1 v2 : Value), sameValue v1 v2 = true ↔ ValSame v1 v2
    | .mk k1 r1 c1 p1, .mk k2 r2 c2 p2 => by
      unfold sameValue
      simp only [Value.kind, Value.raw, Value.children, Bool.and_eq_true, beq_iff_eq]
      constructor
      · rintro ⟨⟨⟨hk, hr⟩, hl⟩, hc⟩
        subst hk hr
        by_cases hobj : k1 = .object
        · subst hobj
          have hc' : sameChildren true c1 c2 c2 = true := by simpa using hc
          exact .object (by simpa using hl) ((sameChildren_fields c1 c2 c2).1 hc')
        · have hb : (k1 == ValueKind.object) = false := by simpa using hobj
          rw [hb] at hc
          exact .other hobj ((sameChildren_items c1 c2 c2).1 ⟨hc, by simpa using hl⟩)
      · intro h
        cases h with
        | object hl hf =>
          refine ⟨⟨⟨rfl, rfl⟩, by simpa using hl⟩, ?_⟩
          have := (sameChildren_fields c1 c2 c2).2 hf
          simpa using this
        | other hk hi =>
          have h2 := (sameChildren_items c1 c2 c2).2 hi
          have hb : (k1 == ValueKind.object) = false := by simpa using hk
          refine ⟨⟨⟨rfl, rfl⟩, by simpa using h2.2⟩, ?_⟩
          rw [hb]
          exact h2.1
  theorem sameChildren_items : ∀ (c1 r2 all2 : Children),
      (sameChildren false c1 r2 all2 = true ∧ c1.length = r2.length) ↔ ItemsSame c1 r2
    | .nil, r2, all2 => by
      constructor
      · rintro ⟨_, hl⟩
        cases r2 with
        | nil => exact .nil
        | cons _ _ _ _ => simp [Children.length] at hl
      · intro h
        cases h
        exact ⟨by simp [sameChildren], rfl⟩
    | .cons n1 v1 p1 rest1, r2, all2 => by
      constructor
      · rintro ⟨hs, hl⟩
        cases r2 with
        | nil => simp [Children.length] at hl
        | cons n2 v2 p2 rest2 =>
          unfold sameChildren at hs
          simp only [Bool.false_eq_true, if_false, Bool.and_eq_true, childrenTail] at hs
          have hl' : rest1.length = rest2.length := by simpa [Children.length] using hl
          exact .cons ((sameValue_iff v1 v2).1 hs.1) ((sameChildren_items rest1 rest2 all2).1 ⟨hs.2, hl'⟩)
      · intro h
        cases h with
        | cons hv hr =>
          rename_i n2 v2 p2 rest2
          have h2 := (sameChildren_items rest1 rest2 all2).2 hr
          refine ⟨?_, by simp [Children.length, h2.2]⟩
          unfold sameChildren
          simp only [Bool.false_eq_true, if_false, Bool.and_eq_true, childrenTail]
          exact ⟨(sameValue_iff v1 v2).2 hv, h2.1⟩
  theorem sameChildren_fields : ∀ (c1 r2 all2 : Children),
      sameChildren true c1 r2 all2 = true ↔ FieldsSame c1 all2
    | .nil, r2, all2 => by
      constructor
      · intro _; exact .nil
      · intro _; simp [sameChildren]
    | .cons n1 v1 p1 rest1, r2, all2 => by
      constructor
      · intro hs
        unfold sameChildren at hs
        simp only [if_true, Bool.and_eq_true] at hs
        cases hf : findChild all2 n1 with
        | none => rw [hf] at hs; simp at hs
        | some v2 =>
          rw [hf] at hs
          exact .cons hf ((sameValue_iff v1 v2).1 hs.1) ((sameChildren_fields rest1 _ all2).1 hs.2)
      · intro h
        cases h with
        | cons hf hv hr =>
          rename_i v2
          unfold sameChildren
          simp only [if_true, Bool.and_eq_true, hf]
          exact ⟨(sameValue_iff v1 v2).2 hv, (sameChildren_fields rest1 _ all2).2 hr⟩
end

theorem sameArguments_iff (as bs : List Argument) : sameArguments as bs = true ↔ ArgsSame as bs := by
  unfold sameArguments ArgsSame
  simp only [Bool.and_eq_true, beq_iff_eq, List.all_eq_true, List.any_eq_true, sameValue_iff]

/- ---------- the spec is reflexive on literals with unique input-field names ---------- -/

def childNames : Children → List Name
  | .nil => []
  | .cons n _ _ rest => n :: childNames rest

/-- `(n, v)` is a field / item of the child list -/
inductive InChildren (n : Name) (v : Value) : Children → Prop
  | head {p : Pos} {rest : Children} : InChildren n v (.cons n v p rest)
  | tail {n' : Name} {v' : Value} {p : Pos} {rest : Children} : InChildren n v rest → InChildren n v (.cons n' v' p rest)

mutual
  /-- every object literal inside the value has pairwise distinct field names (UniqueInputFieldNames) -/
  inductive UniqueFields : Value → Prop
    | mk {k : ValueKind} {r : Bytes} {c : Children} {p : Pos} :
        (k = .object → (childNames c).Nodup) → UniqueFieldsCh c → UniqueFields (.mk k r c p)
  inductive UniqueFieldsCh : Children → Prop
    | nil : UniqueFieldsCh .nil
    | cons {n : Name} {v : Value} {p : Pos} {rest : Children} :
        UniqueFields v → UniqueFieldsCh rest → UniqueFieldsCh (.cons n v p rest)
end

theorem inChildren_name {n : Name} {v : Value} : ∀ {c : Children}, InChildren n v c → n ∈ childNames c
  | _, .head => List.mem_cons_self ..
  | _, .tail h => List.mem_cons_of_mem _ (inChildren_name h)

/-- with unique names, `findChild` finds THE field of that name -/
theorem findChild_of_nodup {n : Name} {v : Value} : ∀ {c : Children}, (childNames c).Nodup → InChildren n v c →
    findChild c n = some v
  | _, _, .head => by simp [findChild]
  | .cons n' v' p rest, hnd, .tail h => by
    simp only [childNames, List.nodup_cons] at hnd
    have hne : n' ≠ n := fun e => hnd.1 (e ▸ inChildren_name h)
    have : (n' == n) = false := by simpa using hne
    simp only [findChild, this]
    exact findChild_of_nodup hnd.2 h

mutual
  theorem ValSame_refl : ∀ (v : Value), UniqueFields v → ValSame v v
    | .mk k r c p, h => by
      cases h with
      | mk hk hc =>
        by_cases hobj : k = .object
        · subst hobj
          exact .object rfl (FieldsSame_refl c c hc (fun n v hin => findChild_of_nodup (hk rfl) hin))
        · exact .other hobj (ItemsSame_refl c hc)
  theorem ItemsSame_refl : ∀ (c : Children), UniqueFieldsCh c → ItemsSame c c
    | .nil, _ => .nil
    | .cons n v p rest, h => by
      cases h with
      | cons hv hr => exact .cons (ValSame_refl v hv) (ItemsSame_refl rest hr)
  theorem FieldsSame_refl : ∀ (c all : Children), UniqueFieldsCh c →
      (∀ n v, InChildren n v c → findChild all n = some v) → FieldsSame c all
    | .nil, _, _, _ => .nil
    | .cons n v p rest, all, h, hin => by
      cases h with
      | cons hv hr =>
        exact .cons (hin n v .head) (ValSame_refl v hv) (FieldsSame_refl rest all hr (fun n' v' h' => hin n' v' (.tail h')))
end

/-- an argument list whose object literals have unique field names is identical to itself -/
theorem ArgsSame_refl (as : List Argument) (h : ∀ a ∈ as, UniqueFields a.value) : ArgsSame as as :=
  ⟨rfl, fun a ha => ⟨a, ha, rfl, ValSame_refl a.value (h a ha)⟩⟩

/- ---------- positions do not matter: textually identical arguments of two different nodes ---------- -/

mutual
  /-- the literal without its positions (what two occurrences of the same text have in common) -/
  def eraseV : Value → Value
    | .mk k r c _ => .mk k r (eraseC c) Pos.zero
  def eraseC : Children → Children
    | .nil => .nil
    | .cons n v _ rest => .cons n (eraseV v) Pos.zero (eraseC rest)
end

theorem eraseC_length : ∀ c : Children, (eraseC c).length = c.length
  | .nil => rfl
  | .cons _ _ _ rest => by simp [eraseC, Children.length, eraseC_length rest]

theorem findChild_erase (n : Name) : ∀ c : Children, findChild (eraseC c) n = (findChild c n).map eraseV
  | .nil => rfl
  | .cons n' v p rest => by
    simp only [eraseC, findChild]
    split
    · rfl
    · exact findChild_erase n rest

theorem childrenTail_erase : ∀ c : Children, childrenTail (eraseC c) = eraseC (childrenTail c)
  | .nil => rfl
  | .cons _ _ _ _ => rfl

mutual
  theorem sameValue_erase : ∀ (v1 v2 : Value), sameValue (eraseV v1) (eraseV v2) = sameValue v1 v2
    | .mk k1 r1 c1 p1, .mk k2 r2 c2 p2 => by
      simp only [eraseV, sameValue, Value.kind, Value.raw, Value.children, eraseC_length,
        sameChildren_erase (k1 == .object) c1 c2 c2]
  theorem sameChildren_erase (obj : Bool) : ∀ (c1 r2 all2 : Children),
      sameChildren obj (eraseC c1) (eraseC r2) (eraseC all2) = sameChildren obj c1 r2 all2
    | .nil, _, _ => by simp [eraseC, sameChildren]
    | .cons n1 v1 p1 rest1, r2, all2 => by
      simp only [eraseC, sameChildren, childrenTail_erase, sameChildren_erase obj rest1 (childrenTail r2) all2]
      congr 1
      cases obj with
      | true =>
        simp only [if_true, findChild_erase]
        cases findChild all2 n1 with
        | none => rfl
        | some v2 => exact sameValue_erase v1 v2
      | false =>
        simp only [Bool.false_eq_true, if_false]
        cases r2 with
        | nil => rfl
        | cons n2 v2 p2 rest2 => exact sameValue_erase v1 v2
end

/-- two literals with the same text (equal up to positions) and unique input-field names are the
    same for `sameValue` -/
theorem sameValue_of_erase_eq (v1 v2 : Value) (hu : UniqueFields v1) (he : eraseV v1 = eraseV v2) :
    sameValue v1 v2 = true := by
  rw [← sameValue_erase, ← he, sameValue_erase]
  exact (sameValue_iff v1 v1).2 (ValSame_refl v1 hu)

/-- two argument lists with the same text, argument by argument (in order), are identical for
    `sameArguments` — so two textually identical fields are never reported as "differing arguments"
    on documents that pass UniqueInputFieldNames -/
theorem sameArguments_of_erase_eq : ∀ (as bs : List Argument),
    (∀ a ∈ as, UniqueFields a.value) →
    as.map (fun a => (a.name, eraseV a.value)) = bs.map (fun b => (b.name, eraseV b.value)) →
    sameArguments as bs = true := by
  intro as bs hu he
  have hlen : as.length = bs.length := by
    have := congrArg List.length he
    simpa using this
  unfold sameArguments
  simp only [Bool.and_eq_true, beq_iff_eq, List.all_eq_true, List.any_eq_true]
  refine ⟨hlen, ?_⟩
  -- the argument at the same index
  suffices hgen : ∀ (as bs : List Argument), (∀ a ∈ as, UniqueFields a.value) →
      as.map (fun a => (a.name, eraseV a.value)) = bs.map (fun b => (b.name, eraseV b.value)) →
      ∀ a ∈ as, ∃ b ∈ bs, a.name = b.name ∧ sameValue a.value b.value = true from hgen as bs hu he
  intro as
  induction as with
  | nil => intro _ _ _ a ha; cases ha
  | cons a0 rest ih =>
    intro bs hu he a ha
    cases bs with
    | nil => simp at he
    | cons b0 brest =>
      simp only [List.map_cons, List.cons.injEq, Prod.mk.injEq] at he
      rcases List.mem_cons.1 ha with rfl | ha'
      · exact ⟨b0, List.mem_cons_self .., he.1.1, sameValue_of_erase_eq _ _ (hu _ (List.mem_cons_self ..)) he.1.2⟩
      · obtain ⟨b, hb, h1, h2⟩ := ih brest (fun x hx => hu x (List.mem_cons_of_mem _ hx)) he.2 a ha'
        exact ⟨b, List.mem_cons_of_mem _ hb, h1, h2⟩

end Gql.Validate
