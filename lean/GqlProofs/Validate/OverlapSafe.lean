import GqlProofs.Validate.OverlapFuel
import GqlProofs.Validate.OpEvents
/-
  OverlappingFieldsCanBeMerged, part 3: the rule never panics and never runs out of fuel inside
  `Validate`.

  The rule's state (`comparedFragmentPairs`) has an invariant — symmetry, see OverlapPairs — on
  which the termination argument of `check` rests, so the statement is not `Rule.NeverPanics`
  (which quantifies over ALL states) but `Running.Safe`: an invariant holds for the current state,
  is preserved by every step, and excludes the panic outcome.  `runAll_safe` is the engine lemma
  for rule lists made of such rules; rules that never panic in any state are the special case
  `Inv := True`.
-/
namespace Gql.Validate
open Gql Gql.Validate.Rules

/-- from its current state the rule never panics on events satisfying `Pe` -/
def Running.Safe (Pe : Event → Prop) (q : Running) : Prop :=
  ∃ Inv : q.rule.σ → Prop, Inv q.st ∧
    ∀ s d st e, Pe e → Inv st → ∃ st' errs, q.rule.step s d st e = .ok st' errs ∧ Inv st'

theorem Rule.NeverPanicsOn.safe {Pe : Event → Prop} {r : Rule} (h : r.NeverPanicsOn Pe) (st : r.σ) :
    Running.Safe Pe { rule := r, st := st } := by
  refine ⟨fun _ => True, trivial, ?_⟩
  intro s d st e he _
  cases hs : r.step s d st e with
  | ok st' errs => exact ⟨st', errs, rfl, trivial⟩
  | panic m => exact absurd hs (h s d st e m he)

theorem stepAll_safe {Pe : Event → Prop} {s : SV} {d : QueryDoc} {e : Event} (he : Pe e) :
    ∀ {rs : List Running}, (∀ q ∈ rs, q.Safe Pe) →
      ∃ rs' errs, stepAll s d e rs = .ok (rs', errs) ∧ ∀ q ∈ rs', q.Safe Pe
  | [], _ => ⟨[], [], rfl, fun _ h => by cases h⟩
  | r :: rs, h => by
    obtain ⟨rs', errs', hp, hs'⟩ := stepAll_safe (s := s) (d := d) he (rs := rs) (fun q hq => h q (List.mem_cons_of_mem _ hq))
    obtain ⟨Inv, hinv, hstep⟩ := h r List.mem_cons_self
    obtain ⟨st', errs, hok, hinv'⟩ := hstep s d r.st e he hinv
    refine ⟨{ rule := r.rule, st := st' } :: rs', errs.map (RErr.toErr r.rule.name) ++ errs', ?_, ?_⟩
    · simp only [stepAll, Running.step, hok, hp]
    · intro q hq
      rcases List.mem_cons.1 hq with hq | hq
      · subst hq
        exact ⟨Inv, hinv', hstep⟩
      · exact hs' q hq

theorem runAll_safe {Pe : Event → Prop} {s : SV} {d : QueryDoc} :
    ∀ {evs : List Event} {rs : List Running}, (∀ e ∈ evs, Pe e) → (∀ q ∈ rs, q.Safe Pe) →
      ∃ errs, runAll s d rs evs = .ok errs
  | [], _, _, _ => ⟨_, rfl⟩
  | e :: es, rs, hP, h => by
    obtain ⟨rs', errs, hp, hs'⟩ := stepAll_safe (s := s) (d := d) (hP e List.mem_cons_self) h
    obtain ⟨errs2, h2⟩ := runAll_safe (s := s) (d := d) (evs := es) (fun x hx => hP x (List.mem_cons_of_mem _ hx)) hs'
    exact ⟨errs ++ errs2, by simp only [runAll, hp, h2]⟩

/- ---------- the rule ---------- -/

/-- every observer call returns normally from a symmetric `comparedFragmentPairs` and leaves it
    symmetric -/
theorem overlappingFieldsStep_ok (s : SV) (d : QueryDoc) (P : Pairs) (e : Event) (hP : PSym P) :
    ∃ P' errs, overlappingFieldsStep s d P e = .ok P' errs ∧ PSym P' := by
  have run : ∀ (parent : Option Definition) (sels : Selections),
      ∃ P' errs, (match overlapRun s d e.links parent sels P with
        | none => StepOut.panic overlapOutOfFuel
        | some (P', cs) => StepOut.ok P' (cs.map Conflict.toErr)) = .ok P' errs ∧ PSym P' := by
    intro parent sels
    obtain ⟨⟨P', cs⟩, h, a⟩ := overlapRun_ok s d e.links parent sels P hP
    rw [h]
    exact ⟨P', _, rfl, a.1⟩
  unfold overlappingFieldsStep
  simp only
  cases hp : e.p with
  | operation op u => exact run _ _
  | field f parent dfn =>
    simp only
    split
    · exact ⟨P, [], rfl, hP⟩
    · exact run _ _
  | inlineFragment f parent => exact run _ _
  | fragment f dfn => exact run _ _
  | fragmentSpread f dfn parent => exact ⟨P, [], rfl, hP⟩
  | directive dd dfn parent loc => exact ⟨P, [], rfl, hP⟩
  | directiveList ds => exact ⟨P, [], rfl, hP⟩
  | value v ex dfn => exact ⟨P, [], rfl, hP⟩
  | «variable» v dfn => exact ⟨P, [], rfl, hP⟩

/-- the only panic outcome the rule model has at all is the out-of-fuel marker (there is no Go
    panic site in the repaired rule: `Schema.Types[...]` is nil-guarded in `doTypesConflict`, every
    link is nil-checked before it is dereferenced, `Children[i]` is guarded by the length test) -/
theorem overlappingFieldsStep_panic_only_fuel (s : SV) (d : QueryDoc) (P : Pairs) (e : Event) (m : Bytes)
    (h : overlappingFieldsStep s d P e = .panic m) : m = overlapOutOfFuel := by
  unfold overlappingFieldsStep at h
  simp only at h
  repeat' split at h
  all_goals first
    | (cases h; rfl)
    | cases h

theorem overlap_safe (Pe : Event → Prop) : Running.Safe Pe overlappingFieldsCanBeMerged.start := by
  refine ⟨PSym, PSym_nil, ?_⟩
  intro s d st e _ hst
  exact overlappingFieldsStep_ok s d st e hst

/-- rule lists made of never-panicking rules, KnownRootType and OverlappingFieldsCanBeMerged always
    return an error list on documents whose operation kinds the parser can produce -/
theorem validateV_safe (rs : List Rule) (s : SV) (d : QueryDoc)
    (hd : ∀ op ∈ d.ops, op.op ∈ parserOpKinds)
    (h : ∀ r ∈ rs, r.NeverPanics ∨ r = knownRootType ∨ r = overlappingFieldsCanBeMerged) :
    ∃ errs, validateV rs s d = .ok errs := by
  obtain ⟨evs, hw⟩ := walkDoc_isSome s d
  have hev : ∀ e ∈ evs, OpKindOK e := by
    intro e he op u hp
    exact hd op (walkDoc_opsIn s d evs hw e he op u hp)
  have hr : ∀ q ∈ rs.map Rule.start, q.Safe OpKindOK := by
    intro q hq
    obtain ⟨r, hr, rfl⟩ := List.mem_map.1 hq
    rcases h r hr with h1 | h1 | h1
    · exact (h1.on OpKindOK).safe _
    · subst h1
      exact knownRootType_neverPanicsOn.safe _
    · subst h1
      exact overlap_safe _
  obtain ⟨errs, he⟩ := runAll_safe (s := s) (d := d) hev hr
  exact ⟨errs, by simp only [validateV, hw, he]⟩

/-- the same for arbitrary documents, without KnownRootType -/
theorem validateV_safe' (rs : List Rule) (s : SV) (d : QueryDoc)
    (h : ∀ r ∈ rs, r.NeverPanics ∨ r = overlappingFieldsCanBeMerged) :
    ∃ errs, validateV rs s d = .ok errs := by
  obtain ⟨evs, hw⟩ := walkDoc_isSome s d
  have hr : ∀ q ∈ rs.map Rule.start, q.Safe (fun _ => True) := by
    intro q hq
    obtain ⟨r, hr, rfl⟩ := List.mem_map.1 hq
    rcases h r hr with h1 | h1
    · exact (h1.on _).safe _
    · subst h1
      exact overlap_safe _
  obtain ⟨errs, he⟩ := runAll_safe (s := s) (d := d) (evs := evs) (fun _ _ => trivial) hr
  exact ⟨errs, by simp only [validateV, hw, he]⟩

end Gql.Validate
