import GqlProofs.Validate.OverlapCost
import GqlProofs.Validate.OpEvents
/-
  OverlappingFieldsCanBeMerged: the rule never panics and never runs out of fuel inside
  `Validate`, and the number of comparison steps it takes over a whole validation.

  The rule's state (`comparedFragmentPairs`) has an invariant — symmetry, see OverlapPairs — on
  which the termination argument of `check` rests, so the statement is not `Rule.NeverPanics`
  (which quantifies over ALL states) but `Running.Safe`: an invariant holds for the current state,
  is preserved by every step, and excludes the panic outcome.  `runAll_safe` is the engine lemma
  for rule lists made of such rules; rules that never panic in any state are the special case
  `Inv := True`.
-/
namespace Gql.Validate
open Gql Gql.Validate.Rules

/-- from its current state the rule never panics on events satisfying `Pe` -/
def Running.Safe (Pe : Event → Prop) (q : Running) : Prop :=
  ∃ Inv : q.rule.σ → Prop, Inv q.st ∧
    ∀ s d st e, Pe e → Inv st → ∃ st' errs, q.rule.step s d st e = .ok st' errs ∧ Inv st'

theorem Rule.NeverPanicsOn.safe {Pe : Event → Prop} {r : Rule} (h : r.NeverPanicsOn Pe) (st : r.σ) :
    Running.Safe Pe { rule := r, st := st } := by
  refine ⟨fun _ => True, trivial, ?_⟩
  intro s d st e he _
  cases hs : r.step s d st e with
  | ok st' errs => exact ⟨st', errs, rfl, trivial⟩
  | panic m => exact absurd hs (h s d st e m he)

theorem stepAll_safe {Pe : Event → Prop} {s : SV} {d : QueryDoc} {e : Event} (he : Pe e) :
    ∀ {rs : List Running}, (∀ q ∈ rs, q.Safe Pe) →
      ∃ rs' errs, stepAll s d e rs = .ok (rs', errs) ∧ ∀ q ∈ rs', q.Safe Pe
  | [], _ => ⟨[], [], rfl, fun _ h => by cases h⟩
  | r :: rs, h => by
    obtain ⟨rs', errs', hp, hs'⟩ := stepAll_safe (s := s) (d := d) he (rs := rs) (fun q hq => h q (List.mem_cons_of_mem _ hq))
    obtain ⟨Inv, hinv, hstep⟩ := h r List.mem_cons_self
    obtain ⟨st', errs, hok, hinv'⟩ := hstep s d r.st e he hinv
    refine ⟨{ rule := r.rule, st := st' } :: rs', errs.map (RErr.toErr r.rule.name) ++ errs', ?_, ?_⟩
    · simp only [stepAll, Running.step, hok, hp]
    · intro q hq
      rcases List.mem_cons.1 hq with hq | hq
      · subst hq
        exact ⟨Inv, hinv', hstep⟩
      · exact hs' q hq

theorem runAll_safe {Pe : Event → Prop} {s : SV} {d : QueryDoc} :
    ∀ {evs : List Event} {rs : List Running}, (∀ e ∈ evs, Pe e) → (∀ q ∈ rs, q.Safe Pe) →
      ∃ errs, runAll s d rs evs = .ok errs
  | [], _, _, _ => ⟨_, rfl⟩
  | e :: es, rs, hP, h => by
    obtain ⟨rs', errs, hp, hs'⟩ := stepAll_safe (s := s) (d := d) (hP e List.mem_cons_self) h
    obtain ⟨errs2, h2⟩ := runAll_safe (s := s) (d := d) (evs := es) (fun x hx => hP x (List.mem_cons_of_mem _ hx)) hs'
    exact ⟨errs ++ errs2, by simp only [runAll, hp, h2]⟩

/- ---------- the rule ---------- -/

/-- the selection set an observer of the rule works on (`none`: the rule ignores the event) -/
def eventSels (e : Event) : Option Selections :=
  match e.p with
  | .operation op _ => some op.sel
  | .field f _ _ => if e.cur.isNone then none else some f.sel
  | .inlineFragment f _ => some f.sel
  | .fragment f _ => some f.sel
  | _ => none

/-- the step bound of the observer call an event triggers -/
def eventBound (d : QueryDoc) (e : Event) : Nat :=
  match eventSels e with
  | some sels => overlapStepBound d sels
  | none => 0

/-- every observer call returns normally from a state whose fragment-pair memo is symmetric, leaves
    it symmetric, and takes at most `eventBound d e` comparison steps -/
theorem overlappingFieldsStep_ok (s : SV) (d : QueryDoc) (st : OSt) (e : Event) (hP : PSym st.pairs) :
    ∃ st' errs, overlappingFieldsStep s d st e = .ok st' errs ∧ PSym st'.pairs ∧
      st'.steps ≤ st.steps + eventBound d e := by
  have run : ∀ (parent : Option Definition) (sels : Selections),
      ∃ st' errs, (match overlapRun s d e.links parent sels st with
        | none => StepOut.panic overlapOutOfFuel
        | some (st', cs) => StepOut.ok st' (cs.map Conflict.toErr)) = .ok st' errs ∧ PSym st'.pairs ∧
        st'.steps ≤ st.steps + overlapStepBound d sels := by
    intro parent sels
    obtain ⟨⟨st', cs⟩, h, a, _, k⟩ := overlapRun_ok s d e.links parent sels st hP
    rw [h]
    exact ⟨st', _, rfl, a, k⟩
  unfold overlappingFieldsStep eventBound eventSels
  simp only
  cases hp : e.p with
  | operation op u => exact run _ _
  | field f parent dfn =>
    simp only
    split
    · exact ⟨st, [], rfl, hP, Nat.le_add_right _ _⟩
    · exact run _ _
  | inlineFragment f parent => exact run _ _
  | fragment f dfn => exact run _ _
  | fragmentSpread f dfn parent => exact ⟨st, [], rfl, hP, Nat.le_add_right _ _⟩
  | directive dd dfn parent loc => exact ⟨st, [], rfl, hP, Nat.le_add_right _ _⟩
  | directiveList ds => exact ⟨st, [], rfl, hP, Nat.le_add_right _ _⟩
  | value v ex dfn => exact ⟨st, [], rfl, hP, Nat.le_add_right _ _⟩
  | «variable» v dfn => exact ⟨st, [], rfl, hP, Nat.le_add_right _ _⟩

/-- the only panic outcome the rule model has at all is the out-of-fuel marker (there is no Go
    panic site in the repaired rule: `Schema.Types[...]` is nil-guarded in `doTypesConflict`, every
    link is nil-checked before it is dereferenced, `Children[i]` is guarded by the length test) -/
theorem overlappingFieldsStep_panic_only_fuel (s : SV) (d : QueryDoc) (st : OSt) (e : Event) (m : Bytes)
    (h : overlappingFieldsStep s d st e = .panic m) : m = overlapOutOfFuel := by
  unfold overlappingFieldsStep at h
  simp only at h
  repeat' split at h
  all_goals first
    | (cases h; rfl)
    | cases h

theorem overlap_safe (Pe : Event → Prop) : Running.Safe Pe overlappingFieldsCanBeMerged.start := by
  refine ⟨fun st => PSym st.pairs, PSym_nil, ?_⟩
  intro s d st e _ hst
  obtain ⟨st', errs, h, hp, _⟩ := overlappingFieldsStep_ok s d st e hst
  exact ⟨st', errs, h, hp⟩

/- ---------- the whole validation ---------- -/

/-- the manager states the engine threads for this rule over an event list (the engine steps a
    rule on every event with the state its previous step returned: `Running.step`, `stepAll`) -/
def overlapFold (s : SV) (d : QueryDoc) : OSt → List Event → Option OSt
  | st, [] => some st
  | st, e :: es =>
    match overlappingFieldsStep s d st e with
    | .ok st' _ => overlapFold s d st' es
    | .panic _ => none

def sumBounds (d : QueryDoc) (evs : List Event) : Nat := sumNat (evs.map (eventBound d))

/-- over any event list the rule takes at most the sum of the per-call bounds -/
theorem overlapFold_steps (s : SV) (d : QueryDoc) : ∀ (evs : List Event) (st : OSt), PSym st.pairs →
    ∃ st', overlapFold s d st evs = some st' ∧ PSym st'.pairs ∧ st'.steps ≤ st.steps + sumBounds d evs
  | [], st, hP => ⟨st, rfl, hP, Nat.le_add_right _ _⟩
  | e :: es, st, hP => by
    obtain ⟨st1, errs, h1, p1, k1⟩ := overlappingFieldsStep_ok s d st e hP
    obtain ⟨st2, h2, p2, k2⟩ := overlapFold_steps s d es st1 p1
    refine ⟨st2, by simp only [overlapFold, h1, h2], p2, ?_⟩
    simp only [sumBounds, List.map_cons, sumNat_cons] at k2 ⊢
    omega

/-- `overlapFold` is what the engine does with the rule's state: one engine step on the running
    rule is one `overlappingFieldsStep` -/
theorem overlap_running_step (s : SV) (d : QueryDoc) (st : OSt) (e : Event) :
    Running.step s d { rule := overlappingFieldsCanBeMerged, st := st } e =
      match overlappingFieldsStep s d st e with
      | .ok st' errs => .ok ({ rule := overlappingFieldsCanBeMerged, st := st' },
          errs.map (RErr.toErr overlappingFieldsCanBeMerged.name))
      | .panic m => .error m := by
  simp only [Running.step, overlappingFieldsCanBeMerged]
  cases overlappingFieldsStep s d st e <;> rfl

/-- rule lists made of never-panicking rules, KnownRootType and OverlappingFieldsCanBeMerged always
    return an error list on documents whose operation kinds the parser can produce -/
theorem validateV_safe (rs : List Rule) (s : SV) (d : QueryDoc)
    (hd : ∀ op ∈ d.ops, op.op ∈ parserOpKinds)
    (h : ∀ r ∈ rs, r.NeverPanics ∨ r = knownRootType ∨ r = overlappingFieldsCanBeMerged) :
    ∃ errs, validateV rs s d = .ok errs := by
  obtain ⟨evs, hw⟩ := walkDoc_isSome s d
  have hev : ∀ e ∈ evs, OpKindOK e := by
    intro e he op u hp
    exact hd op (walkDoc_opsIn s d evs hw e he op u hp)
  have hr : ∀ q ∈ rs.map Rule.start, q.Safe OpKindOK := by
    intro q hq
    obtain ⟨r, hr, rfl⟩ := List.mem_map.1 hq
    rcases h r hr with h1 | h1 | h1
    · exact (h1.on OpKindOK).safe _
    · subst h1
      exact knownRootType_neverPanicsOn.safe _
    · subst h1
      exact overlap_safe _
  obtain ⟨errs, he⟩ := runAll_safe (s := s) (d := d) hev hr
  exact ⟨errs, by simp only [validateV, hw, he]⟩

/-- the same for arbitrary documents, without KnownRootType -/
theorem validateV_safe' (rs : List Rule) (s : SV) (d : QueryDoc)
    (h : ∀ r ∈ rs, r.NeverPanics ∨ r = overlappingFieldsCanBeMerged) :
    ∃ errs, validateV rs s d = .ok errs := by
  obtain ⟨evs, hw⟩ := walkDoc_isSome s d
  have hr : ∀ q ∈ rs.map Rule.start, q.Safe (fun _ => True) := by
    intro q hq
    obtain ⟨r, hr, rfl⟩ := List.mem_map.1 hq
    rcases h r hr with h1 | h1
    · exact (h1.on _).safe _
    · subst h1
      exact overlap_safe _
  obtain ⟨errs, he⟩ := runAll_safe (s := s) (d := d) (evs := evs) (fun _ _ => trivial) hr
  exact ⟨errs, by simp only [validateV, hw, he]⟩

end Gql.Validate
