import GqlModel.Validate.Rules
import GqlProofs.Validate.WalkTerm
/-
  OverlappingFieldsCanBeMerged, part 1 of the termination argument: the order on
  `comparedFragmentPairs` (`pairSet`) and the measure that `check` decreases.

  `pairSet.Has` is asymmetric in the exclusivity flag ("not exclusive" answers are stronger), and
  `pairSet.Add` overwrites BOTH directions.  The memo is therefore monotone ("once had, always
  had") only on SYMMETRIC pair sets — which is an invariant, since `Add` is the only writer.
-/
namespace Gql.Validate
open Gql Gql.Validate.Rules

/-- both directions of a pair carry the same flag -/
def PSym (P : Pairs) : Prop := ∀ x y : Name, P.lookup (x, y) = P.lookup (y, x)

/-- "once had, always had" -/
def PLe (P Q : Pairs) : Prop := ∀ (x y : Name) (e : Bool), P.has x y e = true → Q.has x y e = true

/-- `Q` is a legal successor of the symmetric pair set `P` -/
def Adv (P Q : Pairs) : Prop := PSym Q ∧ PLe P Q

theorem PSym_nil : PSym [] := fun _ _ => rfl

theorem PLe_refl (P : Pairs) : PLe P P := fun _ _ _ h => h

theorem PLe_trans {P Q R : Pairs} (h1 : PLe P Q) (h2 : PLe Q R) : PLe P R :=
  fun x y e h => h2 x y e (h1 x y e h)

theorem Adv_refl {P : Pairs} (h : PSym P) : Adv P P := ⟨h, PLe_refl P⟩

theorem Adv_trans {P Q R : Pairs} (h1 : Adv P Q) (h2 : Adv Q R) : Adv P R :=
  ⟨h2.1, PLe_trans h1.2 h2.2⟩

theorem lookup_add (P : Pairs) (a b : Name) (e : Bool) (x y : Name) :
    (P.add a b e).lookup (x, y) =
      if (x, y) = (b, a) then some e else if (x, y) = (a, b) then some e else P.lookup (x, y) := by
  unfold Pairs.add
  simp only [List.lookup_cons]
  by_cases h1 : (x, y) = (b, a)
  · simp [h1]
  · by_cases h2 : (x, y) = (a, b)
    · have : ((x, y) == (b, a)) = false := by simpa using h1
      rw [this]
      simp [h2]
    · have e1 : ((x, y) == (b, a)) = false := by simpa using h1
      have e2 : ((x, y) == (a, b)) = false := by simpa using h2
      simp [e1, e2, h1, h2]

theorem PSym_add {P : Pairs} (h : PSym P) (a b : Name) (e : Bool) : PSym (P.add a b e) := by
  intro x y
  rw [lookup_add, lookup_add]
  by_cases h1 : (x, y) = (b, a)
  · have h1' : (y, x) = (a, b) := by
      injection h1 with hx hy
      rw [hx, hy]
    by_cases h3 : (y, x) = (b, a)
    · simp [h1, h3]
    · simp [h1, h1']
  · by_cases h2 : (x, y) = (a, b)
    · have h2' : (y, x) = (b, a) := by
        injection h2 with hx hy
        rw [hx, hy]
      simp [h2, h2']
    · have n1 : ¬ (y, x) = (b, a) := by
        intro hc
        apply h2
        injection hc with hy hx
        rw [hx, hy]
      have n2 : ¬ (y, x) = (a, b) := by
        intro hc
        apply h1
        injection hc with hy hx
        rw [hx, hy]
      simp [h1, h2, n1, n2, h x y]

theorem has_add_self (P : Pairs) (a b : Name) (e : Bool) : (P.add a b e).has a b e = true := by
  unfold Pairs.has
  rw [lookup_add]
  by_cases h1 : (a, b) = (b, a)
  · simp [h1]
  · simp [h1]

/-- adding a pair that is not had yet never forgets anything (on symmetric sets) -/
theorem PLe_add {P : Pairs} (hs : PSym P) (a b : Name) (e : Bool) (hn : P.has a b e = false) :
    PLe P (P.add a b e) := by
  -- what "not had" says about the old entry
  have hold : P.lookup (a, b) = none ∨ (P.lookup (a, b) = some true ∧ e = false) := by
    unfold Pairs.has at hn
    cases hl : P.lookup (a, b) with
    | none => exact Or.inl rfl
    | some r =>
      rw [hl] at hn
      cases e <;> cases r <;> simp at hn ⊢
  intro x y e' hxy
  unfold Pairs.has at hxy ⊢
  rw [lookup_add]
  by_cases h1 : (x, y) = (b, a)
  · simp only [h1, if_true]
    -- old entry at (b, a) equals the old entry at (a, b)
    have hba : P.lookup (x, y) = P.lookup (a, b) := by rw [h1]; exact hs b a
    rw [hba] at hxy
    rcases hold with hnone | ⟨hsome, he⟩
    · rw [hnone] at hxy; cases hxy
    · subst he; cases e' <;> simp
  · by_cases h2 : (x, y) = (a, b)
    · have hx : x = a := by injection h2
      have hy : y = b := by injection h2
      subst hx hy
      simp only [h1, if_true, if_false]
      rcases hold with hnone | ⟨hsome, he⟩
      · rw [hnone] at hxy; cases hxy
      · subst he; cases e' <;> simp
    · simp only [h1, h2, if_false]
      exact hxy

theorem Adv_add {P : Pairs} (hs : PSym P) (a b : Name) (e : Bool) (hn : P.has a b e = false) :
    Adv P (P.add a b e) := ⟨PSym_add hs a b e, PLe_add hs a b e hn⟩

/- ---------- the measure ---------- -/

/-- all `(x, y, exclusive)` over a list -/
def allTriples {α : Type} (ns : List α) : List (α × α × Bool) :=
  ns.flatMap fun x => ns.flatMap fun y => [(x, y, false), (x, y, true)]

theorem mem_allTriples {α : Type} {ns : List α} {x y : α} (e : Bool) (hx : x ∈ ns) (hy : y ∈ ns) :
    (x, y, e) ∈ allTriples ns := by
  unfold allTriples
  simp only [List.mem_flatMap]
  refine ⟨x, hx, y, hy, ?_⟩
  cases e <;> simp

theorem length_flatMap_const {α β : Type} (f : α → List β) (c : Nat) (h : ∀ a, (f a).length = c) :
    ∀ l : List α, (l.flatMap f).length = l.length * c
  | [] => by simp
  | a :: l => by
    simp only [List.flatMap_cons, List.length_append, List.length_cons, h a, length_flatMap_const f c h l]
    rw [Nat.add_mul, Nat.one_mul, Nat.add_comm]

theorem length_allTriples {α : Type} (ns : List α) : (allTriples ns).length = 2 * ns.length * ns.length := by
  unfold allTriples
  rw [length_flatMap_const _ (ns.length * 2)]
  · rw [Nat.mul_comm 2, Nat.mul_assoc, Nat.mul_comm 2]
  · intro a
    rw [length_flatMap_const _ 2]
    intro b
    rfl

def fragNames (d : QueryDoc) : List Name := d.frags.map (·.name)

/-- number of `(fragment name, fragment name, exclusive)` triples that `Has` does not answer yet -/
def unHas (d : QueryDoc) (P : Pairs) : Nat :=
  ((allTriples (fragNames d)).filter fun t => !P.has t.1 t.2.1 t.2.2).length

theorem unHas_le_max (d : QueryDoc) (P : Pairs) : unHas d P ≤ 2 * d.frags.length * d.frags.length := by
  unfold unHas
  have h := List.length_filter_le (fun t : Name × Name × Bool => !P.has t.1 t.2.1 t.2.2) (allTriples (fragNames d))
  rw [length_allTriples] at h
  simpa [fragNames] using h

theorem unHas_mono (d : QueryDoc) {P Q : Pairs} (h : PLe P Q) : unHas d Q ≤ unHas d P := by
  unfold unHas
  apply filter_length_le_of_imp
  intro t ht
  simp only [Bool.not_eq_true'] at ht ⊢
  cases hp : P.has t.1 t.2.1 t.2.2 with
  | false => rfl
  | true => rw [h _ _ _ hp] at ht; cases ht

/-- an `Add` of two fragment names that were not had strictly decreases the measure — also
    through anything that happens afterwards -/
theorem unHas_add_lt (d : QueryDoc) {P Q : Pairs} (hs : PSym P) {a b : Name} (e : Bool)
    (ha : a ∈ fragNames d) (hb : b ∈ fragNames d) (hn : P.has a b e = false)
    (hq : PLe (P.add a b e) Q) : unHas d Q + 1 ≤ unHas d P := by
  unfold unHas
  apply filter_length_lt_of_imp _ _ _ (a, b, e) _ _ _ (mem_allTriples e ha hb)
  · intro t ht
    simp only [Bool.not_eq_true'] at ht ⊢
    cases hp : P.has t.1 t.2.1 t.2.2 with
    | false => rfl
    | true => rw [hq _ _ _ (PLe_add hs a b e hn _ _ _ hp)] at ht; cases ht
  · simp [hn]
  · simp [hq _ _ _ (has_add_self P a b e)]

end Gql.Validate
