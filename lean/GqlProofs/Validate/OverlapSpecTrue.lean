import GqlProofs.Validate.OverlapPaths
/-
  OverlappingFieldsCanBeMerged vs. §5.3.2, completeness of the rule in the general case: if no
  selection set of the document has a derivable conflict then `FieldsInSetCanMerge` holds for every
  selection set (`noTop_spec`).
-/
namespace Gql.Validate
open Gql Gql.Validate.Rules

/-- node identity: the sub-selection of a field or inline fragment is not the selection set of a
    fragment definition -/
def IdsNested (s : Schema) (d : QueryDoc) : Prop :=
  ∀ t ∈ Spec.docSels s d, ∀ F ∈ d.frags, Spec.subSelectionOf t.sel ≠ .nil →
    selId (Spec.subSelectionOf t.sel) ≠ selId F.sel

theorem sublist_pair_append {α : Type} {u v : α} {l1 l2 : List α} (h : [u, v].Sublist (l1 ++ l2)) :
    [u, v].Sublist l1 ∨ (u ∈ l1 ∧ v ∈ l2) ∨ [u, v].Sublist l2 := by
  obtain ⟨a, b, hab, ha, hb⟩ := List.sublist_append_iff.1 h
  cases a with
  | nil =>
    simp only [List.nil_append] at hab
    subst hab
    exact Or.inr (Or.inr hb)
  | cons x xs =>
    cases xs with
    | nil =>
      simp only [List.cons_append, List.nil_append, List.cons.injEq] at hab
      obtain ⟨rfl, rfl⟩ := hab
      exact Or.inr (Or.inl ⟨ha.subset (by simp), hb.subset (by simp)⟩)
    | cons y ys =>
      simp only [List.cons_append, List.cons.injEq] at hab
      obtain ⟨rfl, rfl, h3⟩ := hab
      have : ys = [] := by
        cases ys with
        | nil => rfl
        | cons z zs => simp at h3
      subst this
      exact Or.inl ha

theorem specNamed_self (s : Schema) (x : Name) : specNamed s x x = true := by
  unfold specNamed
  cases s.type? x <;> simp

theorem sameWrappers_self (s : Schema) : ∀ t : GType, Spec.sameWrappers (specNamed s) t t = true
  | .named n nn _ => by simp [Spec.sameWrappers, specNamed_self]
  | .list e nn _ => by simp [Spec.sameWrappers, sameWrappers_self s e]

section
variable {s : Schema} {d : QueryDoc} (S : SemHyps s d) (hids : IdsInj s d) (hnest : IdsNested s d) (NT : NoTop s d)
include S hids hnest NT

omit S hids NT in
theorem nested_side {x : FInfo} (hx : DocF s d (fullLinks d) x) (hne : x.node.sel ≠ .nil) {m : Name} {F : FragmentDef}
    (hF : fragForName d m = some F) : selId x.node.sel ≠ selId F.sel :=
  hnest _ hx.inDoc F (fragForName_mem hF) hne

/-- a conflict between two distinct fields reachable from the sub-selections of `x` and of `y` is a
    derivable `sub` judgment -/
theorem sub_of_cross {ex : Bool} {x y u v : FInfo} (hx : DocF s d (fullLinks d) x) (hy : DocF s d (fullLinks d) y)
    (hu : RFld s.view (fullLinks d) d (x.next s.view) x.node.sel u)
    (hv : RFld s.view (fullLinks d) d (y.next s.view) y.node.sel v) (hne : u ≠ v) (hrn : rnOf u = rnOf v)
    (hh : Holds (envOf s d (fullLinks d)) (.conf ex u v)) : Holds (envOf s d (fullLinks d)) (.sub ex x y) := by
  have H := S.H
  have htx := docSets_sub H hx
  have hty := docSets_sub H hy
  have hnx : x.node.sel ≠ .nil := rfld_ne_nil hu
  have hny : y.node.sel ≠ .nil := rfld_ne_nil hv
  have du := rfld_docF htx hu
  have dv := rfld_docF hty hv
  have hlow : CoreBelow s d (rkTop d) := fun M hM _ u' v' hu' hv' hne' hrn' =>
    core_all S hids NT (t := ⟨s.type? M.typeCond, M.sel⟩) (docSets_frag hM) hu' hv' hne' hrn'
  have hrk : ∀ sp : SpreadNode, rkSp d sp < rkTop d := fun sp => by
    have := rkN_le d (Spec.fragSpreads d sp.name)
    unfold rkSp rkTop
    omega
  rcases hu with hu | ⟨n1, F1, hr1, hF1, hu⟩
  · rcases hv with hv | ⟨n2, F2, hr2, hF2, hv⟩
    · exact .subFields hu hv hrn hh
    · obtain ⟨sp, hsp, hp⟩ := spath_of_sreach hr2
      exact .subChainB hsp (chain_of_path S hu hv hrn hh hp hF2 (docF_spread hy hsp)
        (fun m F _ hF => nested_side hnest hx hnx hF))
  · rcases hv with hv | ⟨n2, F2, hr2, hF2, hv⟩
    · obtain ⟨sp, hsp, hp⟩ := spath_of_sreach hr1
      have hh' := holds_swap S.H S.sym hh ⟨du, dv⟩
      exact .subChainA hsp (chain_of_path S hv hu hrn.symm hh' hp hF1 (docF_spread hx hsp)
        (fun m F _ hF => nested_side hnest hy hny hF))
    · by_cases hn : n1 = n2
      · subst hn
        rw [hF1] at hF2
        injection hF2 with hF2
        subst hF2
        exact absurd (holds_unflag hh) (core_all S hids NT (t := ⟨s.type? F1.typeCond, F1.sel⟩)
          (docSets_frag (fragForName_mem hF1)) (Or.inl hu) (Or.inl hv) hne hrn)
      · obtain ⟨sp1, hsp1, hp1⟩ := spath_of_sreach hr1
        obtain ⟨sp2, hsp2, hp2⟩ := spath_of_sreach hr2
        by_cases he : sp1.name = sp2.name
        · obtain ⟨M1, hM1⟩ := hp1.root_defined hF1
          have hru : RFld s.view (fullLinks d) d (s.type? M1.typeCond) M1.sel u := rfld_of_path hp1 hF1 hu rfl hM1
          have hrv : RFld s.view (fullLinks d) d (s.type? M1.typeCond) M1.sel v := rfld_of_path hp2 hF2 hv he.symm hM1
          exact absurd (holds_unflag hh) (core_all S hids NT (t := ⟨s.type? M1.typeCond, M1.sel⟩)
            (docSets_frag (fragForName_mem hM1)) hru hrv hne hrn)
        · exact .subCheck hsp1 hsp2 (checkPath S hlow hu hv hF1 hF2 hn hne hrn hh hp2 (docF_spread hy hsp2) (hrk _)
            hp1 (docF_spread hx hsp1) (hrk _) he)

/-- the pairs of the merged set of two fields that the rule found nothing about -/
theorem merged_pairs {pe : Bool} {x y : FInfo} (hx : DocF s d (fullLinks d) x) (hy : DocF s d (fullLinks d) y)
    (hxy : x = y ∨ ¬ Holds (envOf s d (fullLinks d)) (.conf pe x y)) {u v : FInfo}
    (hs : [u, v].Sublist ((mergedA s d (fullLinks d) x).1 ++ (mergedB s d (fullLinks d) x y).1)) (hrn : rnOf u = rnOf v) :
    (DocF s d (fullLinks d) u ∧ DocF s d (fullLinks d) v) ∧
      (u = v ∨ ¬ Holds (envOf s d (fullLinks d)) (.conf (pe || goExcl x y) u v)) := by
  have H := S.H
  have htx := docSets_sub H hx
  have hty := docSets_sub H hy
  have hwithin : ∀ {t : Spec.TSet}, t ∈ Spec.docSets s d → RFld s.view (fullLinks d) d t.parent t.sels u →
      RFld s.view (fullLinks d) d t.parent t.sels v →
      (DocF s d (fullLinks d) u ∧ DocF s d (fullLinks d) v) ∧
        (u = v ∨ ¬ Holds (envOf s d (fullLinks d)) (.conf (pe || goExcl x y) u v)) := by
    intro t ht hu hv
    refine ⟨⟨rfld_docF ht hu, rfld_docF ht hv⟩, ?_⟩
    by_cases he : u = v
    · exact Or.inl he
    · exact Or.inr (fun hc => core_all S hids NT ht hu hv he hrn (holds_unflag hc))
  rcases sublist_pair_append hs with h | ⟨h1, h2⟩ | h
  · exact hwithin htx (mergedA_sound s d _ (h.subset (by simp))) (mergedA_sound s d _ (h.subset (by simp)))
  · have hu := mergedA_sound s d _ h1
    have hv := mergedB_sound s d _ h2
    rcases hxy with rfl | hxy
    · exact hwithin htx hu hv
    · refine ⟨⟨rfld_docF htx hu, rfld_docF hty hv⟩, ?_⟩
      by_cases he : u = v
      · exact Or.inl he
      · right
        intro hc
        obtain ⟨px, hpx⟩ := hx.parent_some H
        obtain ⟨py, hpy⟩ := hy.parent_some H
        exact hxy (.sub (by rw [hx.obj_eq, hpx]) (by rw [hy.obj_eq, hpy]) (sub_of_cross S hids hnest NT hx hy hu hv he hrn hc))
  · exact hwithin hty (mergedB_sound s d _ (h.subset (by simp))) (mergedB_sound s d _ (h.subset (by simp)))

theorem shapeGood : ∀ (n : Nat) (pe : Bool) (x y : FInfo), DocF s d (fullLinks d) x → DocF s d (fullLinks d) y →
    (x = y ∨ ¬ Holds (envOf s d (fullLinks d)) (.conf pe x y)) → Spec.sameResponseShape s d n (toM x) (toM y) = true
  | 0, _, _, _, _, _, _ => rfl
  | n + 1, pe, x, y, hx, hy, hxy => by
    have H := S.H
    obtain ⟨dx, hdx⟩ := hx.fdef_some H
    obtain ⟨dy, hdy⟩ := hy.fdef_some H
    obtain ⟨px, hpx⟩ := hx.parent_some H
    obtain ⟨py, hpy⟩ := hy.parent_some H
    rw [shape_succ s d n _ _ hdx hdy, Bool.and_eq_true]
    constructor
    · rcases hxy with rfl | hnc
      · rw [hdx] at hdy
        injection hdy with hdy
        subst hdy
        exact sameWrappers_self s _
      · cases hw : Spec.sameWrappers (specNamed s) dx.type dy.type with
        | true => rfl
        | false =>
          exfalso
          apply hnc
          refine .types (by rw [hx.obj_eq, hpx]) (by rw [hy.obj_eq, hpy]) (by rw [hx.dfn_eq H, hdx])
            (by rw [hy.dfn_eq H, hdy]) ?_
          show doTypesConflict s.view dx.type dy.type = true
          rw [doTypesConflict_eq s H.keys, hw]
          rfl
    · split
      · split
        · rfl
        · rw [mergedSet_mirror H hx hy, allPairs_iff, List.pairwise_map]
          refine pairwise_of_sublist_pairs _ (fun u v hs => ?_)
          unfold shapeOK
          by_cases hk : (toM u).key = (toM v).key
          · have hrn : rnOf u = rnOf v := by simpa [toM_key, rnOf] using hk
            obtain ⟨⟨du, dv⟩, hc⟩ := merged_pairs S hids hnest NT hx hy hxy hs hrn
            rw [shapeGood n _ u v du dv hc]
            simp
          · simp [hk]
      · rfl

/-- one level of `pairOK`, given the recursive part -/
theorem pairGood_step (n : Nat) (x y : FInfo) (hx : DocF s d (fullLinks d) x) (hy : DocF s d (fullLinks d) y)
    (hxy : x = y ∨ ¬ Holds (envOf s d (fullLinks d)) (.conf false x y))
    (hrec : goExcl x y = false → Spec.fieldsInSetCanMerge s d n (Spec.mergedSet s d (toM x) (toM y)) = true) :
    pairOK s d n (toM x) (toM y) = true := by
  have H := S.H
  obtain ⟨px, hpx⟩ := hx.parent_some H
  obtain ⟨py, hpy⟩ := hy.parent_some H
  have hox : x.obj = some px := by rw [hx.obj_eq, hpx]
  have hoy : y.obj = some py := by rw [hy.obj_eq, hpy]
  unfold pairOK
  rw [shapeGood S hids hnest NT (n + 1) false x y hx hy hxy]
  simp only [Bool.true_and, Bool.or_eq_true]
  right
  unfold mergePart
  split
  · rename_i hmo
    have hex : goExcl x y = false := by rw [goExcl_mayOverlap H hx hy, hmo]; rfl
    simp only [Bool.and_eq_true]
    refine ⟨⟨?_, ?_⟩, hrec hex⟩
    · rcases hxy with rfl | hnc
      · simp
      · cases hn : (toM x).name == (toM y).name with
        | true => rfl
        | false =>
          exfalso
          apply hnc
          refine .names hox hoy (by simp [hex]) ?_
          intro e
          simp only [toM] at hn
          rw [e] at hn
          simp at hn
    · rcases hxy with rfl | hnc
      · rw [← sameArguments_eq_spec]
        exact docF_argsRefl S hx
      · cases hn : Spec.sameArguments (toM x).args (toM y).args with
        | true => rfl
        | false =>
          exfalso
          apply hnc
          refine .args hox hoy (by simp [hex]) ?_
          rw [sameArguments_eq_spec]
          exact hn
  · rfl

theorem pairGood : ∀ (n : Nat) (x y : FInfo), DocF s d (fullLinks d) x → DocF s d (fullLinks d) y →
    (x = y ∨ ¬ Holds (envOf s d (fullLinks d)) (.conf false x y)) → pairOK s d n (toM x) (toM y) = true := by
  have H := S.H
  intro n
  induction n with
  | zero =>
    intro x y hx hy hxy
    exact pairGood_step S hids hnest NT 0 x y hx hy hxy (fun _ => rfl)
  | succ m ih =>
    intro x y hx hy hxy
    refine pairGood_step S hids hnest NT (m + 1) x y hx hy hxy (fun hex => ?_)
    rw [fieldsInSetCanMerge_succ, mergedSet_mirror H hx hy, allPairs_iff, List.pairwise_map]
    refine pairwise_of_sublist_pairs _ (fun u v hs => ?_)
    by_cases hk : (toM u).key = (toM v).key
    · have hrn : rnOf u = rnOf v := by simpa [toM_key, rnOf] using hk
      obtain ⟨⟨du, dv⟩, hc⟩ := merged_pairs S hids hnest NT hx hy hxy hs hrn
      rw [hex] at hc
      exact ih u v du dv hc
    · simp [pairOK, hk]

end

end Gql.Validate
