import GqlProofs.Validate.OverlapArgsSym
/-
  Node identity.  The rule model identifies a selection set by the start offset of its first
  selection node (`selId`).  From ONE assumption on the document — the first nodes of all its
  non-empty selection sets have pairwise different start offsets (`SetStartsNodup`, a decidable
  property of the syntax tree that every parse has: distinct nodes start at distinct offsets and
  a node is the first element of one selection set) — follow the two facts the proofs use:
  `IdsInj` and `IdsNested`.
-/
namespace Gql.Validate
open Gql Gql.Validate.Rules

mutual
  /-- start offsets of the first nodes of the non-empty selection sets in `sels`, itself included -/
  def setStarts : Selections → List Nat
    | .nil => []
    | .cons x rest => x.pos.start :: (innerStartsSel x ++ innerStarts rest)
  /-- … of the selection sets nested in `sels` -/
  def innerStarts : Selections → List Nat
    | .nil => []
    | .cons x rest => innerStartsSel x ++ innerStarts rest
  def innerStartsSel : Selection → List Nat
    | .field _ _ _ _ sub _ => setStarts sub
    | .inline _ _ sub _ => setStarts sub
    | .spread _ _ _ => []
end

theorem setStarts_eq : ∀ sels : Selections, setStarts sels = (selId sels).toList ++ innerStarts sels
  | .nil => rfl
  | .cons x rest => by simp [setStarts, innerStarts, selId]

/-- the first nodes of the non-empty selection sets of the document start at different offsets -/
def SetStartsNodup (d : QueryDoc) : Prop :=
  (d.ops.flatMap (fun op => setStarts op.sel) ++ d.frags.flatMap (fun f => setStarts f.sel)).Nodup

instance (d : QueryDoc) : Decidable (SetStartsNodup d) := by unfold SetStartsNodup; infer_instance

/- ---------- lists ---------- -/

theorem nodup_flatMap_parts {α β : Type} (f : α → List β) : ∀ (l : List α), (l.flatMap f).Nodup →
    (∀ x ∈ l, (f x).Nodup) ∧ l.Pairwise fun x y => ∀ a ∈ f x, a ∉ f y
  | [], _ => ⟨fun _ h => (by cases h), List.Pairwise.nil⟩
  | x :: xs, h => by
    simp only [List.flatMap_cons, List.nodup_append] at h
    obtain ⟨h1, h2, h3⟩ := h
    obtain ⟨ih1, ih2⟩ := nodup_flatMap_parts f xs h2
    refine ⟨fun y hy => ?_, List.Pairwise.cons (fun y hy a ha hay => ?_) ih2⟩
    · rcases List.mem_cons.1 hy with rfl | hy
      · exact h1
      · exact ih1 y hy
    · exact h3 a ha a (List.mem_flatMap.2 ⟨y, hy, hay⟩) rfl

theorem pairwise_mem_ne {α : Type} {R : α → α → Prop} : ∀ {l : List α}, l.Pairwise R → ∀ {x y : α}, x ∈ l → y ∈ l →
    x ≠ y → R x y ∨ R y x
  | _ :: _, h, x, y, hx, hy, hne => by
    rw [List.pairwise_cons] at h
    rcases List.mem_cons.1 hx with hx1 | hx1
    · rcases List.mem_cons.1 hy with hy1 | hy1
      · exact absurd (hx1.trans hy1.symm) hne
      · rw [hx1]
        exact Or.inl (h.1 y hy1)
    · rcases List.mem_cons.1 hy with hy1 | hy1
      · rw [hy1]
        exact Or.inr (h.1 x hx1)
      · exact pairwise_mem_ne h.2 hx1 hy1 hne

/- ---------- nested selection sets ---------- -/

/-- the selection set below a selection node (with its type in scope), as `Spec.docSets` lists it -/
def nestedSetOf (s : Schema) (t : Spec.TSel) : Option Spec.TSet :=
  match t.sel with
  | .field _ nm _ _ sub _ => some ⟨Spec.fieldType s t.parent nm, sub⟩
  | .inline tc _ sub _ => some ⟨Spec.inlineType s t.parent tc, sub⟩
  | .spread .. => none

/-- the selection sets nested in a selection set -/
def NS (s : Schema) (p : Option Definition) (sels : Selections) : List Spec.TSet :=
  (Spec.typedSels s p sels).filterMap (nestedSetOf s)

def NSsel (s : Schema) (p : Option Definition) (x : Selection) : List Spec.TSet :=
  (Spec.typedSel s p x).filterMap (nestedSetOf s)

theorem NS_cons (s : Schema) (p : Option Definition) (x : Selection) (rest : Selections) :
    NS s p (.cons x rest) = NSsel s p x ++ NS s p rest := by
  simp [NS, NSsel, Spec.typedSels, List.filterMap_append]

theorem NSsel_field (s : Schema) (p : Option Definition) (al nm : Name) (args : List Argument) (dirs : List Directive)
    (sub : Selections) (pos : Pos) :
    NSsel s p (.field al nm args dirs sub pos) = ⟨Spec.fieldType s p nm, sub⟩ :: NS s (Spec.fieldType s p nm) sub := by
  simp [NSsel, NS, Spec.typedSel, nestedSetOf]

theorem NSsel_inline (s : Schema) (p : Option Definition) (tc : Name) (dirs : List Directive) (sub : Selections) (pos : Pos) :
    NSsel s p (.inline tc dirs sub pos) = ⟨Spec.inlineType s p tc, sub⟩ :: NS s (Spec.inlineType s p tc) sub := by
  simp [NSsel, NS, Spec.typedSel, nestedSetOf]

theorem NSsel_spread (s : Schema) (p : Option Definition) (nm : Name) (dirs : List Directive) (pos : Pos) :
    NSsel s p (.spread nm dirs pos) = [] := by
  simp [NSsel, Spec.typedSel, nestedSetOf]

theorem mem_setStarts_of_selId {sels : Selections} {k : Nat} (h : selId sels = some k) : k ∈ setStarts sels := by
  rw [setStarts_eq, h]
  simp

theorem inner_sub_setStarts {sels : Selections} {k : Nat} (h : k ∈ innerStarts sels) : k ∈ setStarts sels := by
  rw [setStarts_eq]
  exact List.mem_append_right _ h

mutual
  /-- the start of a nested selection set is among the inner starts -/
  theorem NS_start (s : Schema) : ∀ (sels : Selections) (p : Option Definition) (t : Spec.TSet) (k : Nat),
      t ∈ NS s p sels → selId t.sels = some k → k ∈ innerStarts sels
    | .nil, _, _, _, h, _ => by simp [NS, Spec.typedSels] at h
    | .cons x rest, p, t, k, h, hk => by
      rw [NS_cons] at h
      simp only [innerStarts, List.mem_append]
      rcases List.mem_append.1 h with h | h
      · exact Or.inl (NSsel_start s x p t k h hk)
      · exact Or.inr (NS_start s rest p t k h hk)
  theorem NSsel_start (s : Schema) : ∀ (x : Selection) (p : Option Definition) (t : Spec.TSet) (k : Nat),
      t ∈ NSsel s p x → selId t.sels = some k → k ∈ innerStartsSel x
    | .field al nm args dirs sub pos, p, t, k, h, hk => by
      rw [NSsel_field] at h
      simp only [innerStartsSel]
      rcases List.mem_cons.1 h with rfl | h
      · exact mem_setStarts_of_selId hk
      · exact inner_sub_setStarts (NS_start s sub _ t k h hk)
    | .inline tc dirs sub pos, p, t, k, h, hk => by
      rw [NSsel_inline] at h
      simp only [innerStartsSel]
      rcases List.mem_cons.1 h with rfl | h
      · exact mem_setStarts_of_selId hk
      · exact inner_sub_setStarts (NS_start s sub _ t k h hk)
    | .spread nm dirs pos, p, t, k, h, _ => by
      rw [NSsel_spread] at h
      cases h
end

theorem setStarts_nodup_head {sels : Selections} (h : (setStarts sels).Nodup) {k : Nat} (hk : selId sels = some k) :
    k ∉ innerStarts sels := by
  rw [setStarts_eq, hk] at h
  simp only [Option.toList, List.cons_append, List.nil_append, List.nodup_cons] at h
  exact h.1

theorem setStarts_nodup_inner {sels : Selections} (h : (setStarts sels).Nodup) : (innerStarts sels).Nodup := by
  rw [setStarts_eq] at h
  exact (List.nodup_append.1 h).2.1

mutual
  /-- nested selection sets with the same (non-empty) start are the same -/
  theorem NS_inj (s : Schema) : ∀ (sels : Selections) (p : Option Definition), (innerStarts sels).Nodup →
      ∀ t ∈ NS s p sels, ∀ t' ∈ NS s p sels, ∀ k, selId t.sels = some k → selId t'.sels = some k → t = t'
    | .nil, _, _, t, h, _, _, _, _, _ => by simp [NS, Spec.typedSels] at h
    | .cons x rest, p, hnd, t, ht, t', ht', k, hk, hk' => by
      rw [NS_cons] at ht ht'
      simp only [innerStarts, List.nodup_append] at hnd
      obtain ⟨h1, h2, h3⟩ := hnd
      rcases List.mem_append.1 ht with ht | ht
      · rcases List.mem_append.1 ht' with ht' | ht'
        · exact NSsel_inj s x p h1 t ht t' ht' k hk hk'
        · exact absurd rfl (h3 k (NSsel_start s x p t k ht hk) k (NS_start s rest p t' k ht' hk'))
      · rcases List.mem_append.1 ht' with ht' | ht'
        · exact absurd rfl (h3 k (NSsel_start s x p t' k ht' hk') k (NS_start s rest p t k ht hk))
        · exact NS_inj s rest p h2 t ht t' ht' k hk hk'
  theorem NSsel_inj (s : Schema) : ∀ (x : Selection) (p : Option Definition), (innerStartsSel x).Nodup →
      ∀ t ∈ NSsel s p x, ∀ t' ∈ NSsel s p x, ∀ k, selId t.sels = some k → selId t'.sels = some k → t = t'
    | .field al nm args dirs sub pos, p, hnd, t, ht, t', ht', k, hk, hk' => by
      rw [NSsel_field] at ht ht'
      simp only [innerStartsSel] at hnd
      rcases List.mem_cons.1 ht with rfl | ht
      · rcases List.mem_cons.1 ht' with rfl | ht'
        · rfl
        · exact absurd (NS_start s sub _ t' k ht' hk') (setStarts_nodup_head hnd hk)
      · rcases List.mem_cons.1 ht' with rfl | ht'
        · exact absurd (NS_start s sub _ t k ht hk) (setStarts_nodup_head hnd hk')
        · exact NS_inj s sub _ (setStarts_nodup_inner hnd) t ht t' ht' k hk hk'
    | .inline tc dirs sub pos, p, hnd, t, ht, t', ht', k, hk, hk' => by
      rw [NSsel_inline] at ht ht'
      simp only [innerStartsSel] at hnd
      rcases List.mem_cons.1 ht with rfl | ht
      · rcases List.mem_cons.1 ht' with rfl | ht'
        · rfl
        · exact absurd (NS_start s sub _ t' k ht' hk') (setStarts_nodup_head hnd hk)
      · rcases List.mem_cons.1 ht' with rfl | ht'
        · exact absurd (NS_start s sub _ t k ht hk) (setStarts_nodup_head hnd hk')
        · exact NS_inj s sub _ (setStarts_nodup_inner hnd) t ht t' ht' k hk hk'
    | .spread nm dirs pos, p, _, t, ht, _, _, _, _, _ => by
      rw [NSsel_spread] at ht
      cases ht
end


/- ---------- the definitions of the document ---------- -/

/-- the selection sets of the operations and fragment definitions, with the type in scope -/
def docDefs (s : Schema) (d : QueryDoc) : List (Option Definition × Selections) :=
  d.ops.map (fun op => (Spec.rootDef s op.op, op.sel)) ++ d.frags.map (fun f => (s.type? f.typeCond, f.sel))

theorem starts_eq_defs (s : Schema) (d : QueryDoc) :
    d.ops.flatMap (fun op => setStarts op.sel) ++ d.frags.flatMap (fun f => setStarts f.sel) =
      (docDefs s d).flatMap (fun D => setStarts D.2) := by
  simp [docDefs, List.flatMap_append, List.flatMap_map]

theorem docSels_def {s : Schema} {d : QueryDoc} {x : Spec.TSel} (h : x ∈ Spec.docSels s d) :
    ∃ D ∈ docDefs s d, x ∈ Spec.typedSels s D.1 D.2 := by
  simp only [Spec.docSels, List.mem_append, List.mem_flatMap] at h
  simp only [docDefs, List.mem_append, List.mem_map]
  rcases h with ⟨op, hop, h⟩ | ⟨f, hf, h⟩
  · exact ⟨_, Or.inl ⟨op, hop, rfl⟩, h⟩
  · exact ⟨_, Or.inr ⟨f, hf, rfl⟩, h⟩

/-- where a selection set of the document is written -/
theorem docSets_loc {s : Schema} {d : QueryDoc} {t : Spec.TSet} (h : t ∈ Spec.docSets s d) :
    ∃ D ∈ docDefs s d, t = ⟨D.1, D.2⟩ ∨ t ∈ NS s D.1 D.2 := by
  simp only [Spec.docSets, List.mem_append, List.mem_map, List.mem_filterMap] at h
  rcases h with (⟨op, hop, rfl⟩ | ⟨f, hf, rfl⟩) | ⟨x, hx, hsome⟩
  · exact ⟨(Spec.rootDef s op.op, op.sel), by simp only [docDefs, List.mem_append, List.mem_map]; exact Or.inl ⟨op, hop, rfl⟩, Or.inl rfl⟩
  · exact ⟨(s.type? f.typeCond, f.sel), by simp only [docDefs, List.mem_append, List.mem_map]; exact Or.inr ⟨f, hf, rfl⟩, Or.inl rfl⟩
  · obtain ⟨D, hD, hxD⟩ := docSels_def hx
    refine ⟨D, hD, Or.inr ?_⟩
    simp only [NS, List.mem_filterMap]
    exact ⟨x, hxD, hsome⟩

section
variable {s : Schema} {d : QueryDoc} (hnd : SetStartsNodup d)
include hnd

theorem defs_parts :
    (∀ D ∈ docDefs s d, (setStarts D.2).Nodup) ∧
      (docDefs s d).Pairwise fun D D' => ∀ a ∈ setStarts D.2, a ∉ setStarts D'.2 := by
  unfold SetStartsNodup at hnd
  rw [starts_eq_defs s d] at hnd
  exact nodup_flatMap_parts _ _ hnd

theorem defs_disjoint {D D' : Option Definition × Selections} (hD : D ∈ docDefs s d) (hD' : D' ∈ docDefs s d) (hne : D ≠ D')
    {k : Nat} (h1 : k ∈ setStarts D.2) (h2 : k ∈ setStarts D'.2) : False := by
  rcases pairwise_mem_ne (defs_parts (s := s) hnd).2 hD hD' hne with h | h
  · exact h k h1 h2
  · exact h k h2 h1

omit hnd in
theorem loc_start {D : Option Definition × Selections} {t : Spec.TSet} (h : t = ⟨D.1, D.2⟩ ∨ t ∈ NS s D.1 D.2) {k : Nat}
    (hk : selId t.sels = some k) : k ∈ setStarts D.2 := by
  rcases h with rfl | h
  · exact mem_setStarts_of_selId hk
  · exact inner_sub_setStarts (NS_start s D.2 D.1 t k h hk)

/-- a selection set of the document is identified by its first node -/
theorem idsInj_of_starts : IdsInj s d := by
  intro t ht t' ht' hid hne
  obtain ⟨k, hk⟩ : ∃ k, selId t.sels = some k := by
    cases h : selId t.sels with
    | none => exact absurd ((selId_nil_iff _).1 h) hne
    | some k => exact ⟨k, rfl⟩
  have hk' : selId t'.sels = some k := by rw [← hid]; exact hk
  obtain ⟨D, hD, hl⟩ := docSets_loc ht
  obtain ⟨D', hD', hl'⟩ := docSets_loc ht'
  by_cases hDD : D = D'
  · subst hDD
    have hnD := (defs_parts (s := s) hnd).1 D hD
    rcases hl with rfl | hl
    · rcases hl' with rfl | hl'
      · rfl
      · exact absurd (NS_start s D.2 D.1 t' k hl' hk') (setStarts_nodup_head hnD hk)
    · rcases hl' with rfl | hl'
      · exact absurd (NS_start s D.2 D.1 t k hl hk) (setStarts_nodup_head hnD hk')
      · exact NS_inj s D.2 D.1 (setStarts_nodup_inner hnD) t hl t' hl' k hk hk'
  · exact (defs_disjoint hnd hD hD' hDD (loc_start hl hk) (loc_start hl' hk')).elim

/-- the sub-selection of a field or inline fragment is not the selection set of a fragment definition -/
theorem idsNested_of_starts : IdsNested s d := by
  intro x hx F hF hne hid
  obtain ⟨k, hk⟩ : ∃ k, selId (Spec.subSelectionOf x.sel) = some k := by
    cases h : selId (Spec.subSelectionOf x.sel) with
    | none => exact absurd ((selId_nil_iff _).1 h) hne
    | some k => exact ⟨k, rfl⟩
  have hkF : selId F.sel = some k := by rw [← hid]; exact hk
  obtain ⟨D, hD, hxD⟩ := docSels_def hx
  have hDF : (s.type? F.typeCond, F.sel) ∈ docDefs s d := by
    simp only [docDefs, List.mem_append, List.mem_map]
    exact Or.inr ⟨F, hF, rfl⟩
  -- the nested selection set of the node
  obtain ⟨t, htn, hts⟩ : ∃ t, nestedSetOf s x = some t ∧ t.sels = Spec.subSelectionOf x.sel := by
    obtain ⟨p, y⟩ := x
    cases y with
    | field al nm args dirs sub pos => exact ⟨_, rfl, rfl⟩
    | inline tc dirs sub pos => exact ⟨_, rfl, rfl⟩
    | spread nm dirs pos => exact absurd rfl hne
  have htNS : t ∈ NS s D.1 D.2 := by
    simp only [NS, List.mem_filterMap]
    exact ⟨x, hxD, htn⟩
  have hin : k ∈ innerStarts D.2 := NS_start s D.2 D.1 t k htNS (by rw [hts]; exact hk)
  by_cases hDD : D = (s.type? F.typeCond, F.sel)
  · subst hDD
    exact setStarts_nodup_head ((defs_parts (s := s) hnd).1 _ hD) hkF hin
  · exact defs_disjoint hnd hD hDF hDD (inner_sub_setStarts hin) (mem_setStarts_of_selId hkF)

end

end Gql.Validate
