import GqlProofs.Validate.OverlapSilent
import GqlProofs.ValSpec.TypedBridge
/-
  OverlappingFieldsCanBeMerged vs. §5.3.2 on selection sets WITHOUT fragment spreads:
  helper lemmas on the specification side (`allPairs`, the collected sets of spread-free selection
  sets) and the document-level facts about collected fields (`DocF`).
-/
namespace Gql.Validate
open Gql Gql.Validate.Rules

/- ---------- `allPairs` ---------- -/

theorem allPairs_iff {α : Type} (p : α → α → Bool) : ∀ l : List α, Spec.allPairs p l = true ↔ l.Pairwise fun x y => p x y = true
  | [] => by simp [Spec.allPairs]
  | x :: xs => by
    simp only [Spec.allPairs, Bool.and_eq_true, List.all_eq_true, List.pairwise_cons, allPairs_iff p xs]

theorem allPairs_append {α : Type} (p : α → α → Bool) (l1 l2 : List α) :
    Spec.allPairs p (l1 ++ l2) = true ↔
      Spec.allPairs p l1 = true ∧ Spec.allPairs p l2 = true ∧ ∀ x ∈ l1, ∀ y ∈ l2, p x y = true := by
  simp only [allPairs_iff, List.pairwise_append]

theorem allPairs_false_of_pair {α : Type} (p : α → α → Bool) {l : List α} {x y : α} (hs : [x, y].Sublist l)
    (h : p x y = false) : Spec.allPairs p l = false := by
  cases hp : Spec.allPairs p l with
  | false => rfl
  | true =>
    have := pairwise_sublist_pair ((allPairs_iff p l).1 hp) hs
    rw [h] at this
    cases this

theorem allPairs_false_of_cross {α : Type} (p : α → α → Bool) {l1 l2 : List α} {x y : α} (hx : x ∈ l1) (hy : y ∈ l2)
    (h : p x y = false) : Spec.allPairs p (l1 ++ l2) = false := by
  cases hp : Spec.allPairs p (l1 ++ l2) with
  | false => rfl
  | true =>
    have := ((allPairs_append p l1 l2).1 hp).2.2 x hx y hy
    rw [h] at this
    cases this

/- ---------- spread-free selection sets ---------- -/

theorem inlineNext_eq (s : Schema) (p : Option Definition) (tc : Name) :
    inlineNext s.view p tc = Spec.inlineType s p tc := wInline_eq s p tc

mutual
  theorem collectSels_flat (s : Schema) (d : QueryDoc) (l : Links) (jump : Spec.MJump) :
      ∀ (sels : Selections) (parent : Option Definition) (vis : List Name), Spec.spreadsOfSels sels = [] →
        Spec.collectSels s d jump parent sels vis = ((collectFields s.view l parent sels).map toM, vis)
    | .nil, _, _, _ => rfl
    | .cons x rest, parent, vis, h => by
      simp only [Spec.spreadsOfSels, List.append_eq_nil_iff] at h
      simp only [Spec.collectSels, collectFields, collectSel_flat s d l jump x parent vis h.1,
        collectSels_flat s d l jump rest parent vis h.2, List.map_append]
  theorem collectSel_flat (s : Schema) (d : QueryDoc) (l : Links) (jump : Spec.MJump) :
      ∀ (x : Selection) (parent : Option Definition) (vis : List Name), Spec.spreadsOfSel x = [] →
        Spec.collectSel s d jump parent x vis = ((collectFieldsSel s.view l parent x).map toM, vis)
    | .field al nm args dirs sub p, parent, vis, _ => by
      simp [Spec.collectSel, collectFieldsSel, toM]
    | .spread nm dirs p, _, _, h => by simp [Spec.spreadsOfSel] at h
    | .inline tc dirs sub p, parent, vis, h => by
      simp only [Spec.spreadsOfSel] at h
      simp only [Spec.collectSel, collectFieldsSel, inlineNext_eq]
      exact collectSels_flat s d l jump sub _ vis h
end

theorem collectLevel_flat (s : Schema) (d : QueryDoc) (l : Links) (n : Nat) (sels : Selections)
    (parent : Option Definition) (vis : List Name) (h : Spec.spreadsOfSels sels = []) :
    Spec.collectLevel s d (n + 1) parent sels vis = ((collectFields s.view l parent sels).map toM, vis) := by
  simp only [Spec.collectLevel]
  exact collectSels_flat s d l _ sels parent vis h

theorem collectSet_flat (s : Schema) (d : QueryDoc) (l : Links) (sels : Selections) (parent : Option Definition)
    (h : Spec.spreadsOfSels sels = []) :
    Spec.collectSet s d parent sels = (collectFields s.view l parent sels).map toM := by
  unfold Spec.collectSet
  rw [collectLevel_flat s d l _ sels parent [] h]

mutual
  theorem collectSpreads_flat : ∀ (sels : Selections), Spec.spreadsOfSels sels = [] → collectSpreads sels = []
    | .nil, _ => rfl
    | .cons x rest, h => by
      simp only [Spec.spreadsOfSels, List.append_eq_nil_iff] at h
      simp only [collectSpreads, collectSpreadsSel_flat x h.1, collectSpreads_flat rest h.2, List.append_nil]
  theorem collectSpreadsSel_flat : ∀ (x : Selection), Spec.spreadsOfSel x = [] → collectSpreadsSel x = []
    | .field .., _ => rfl
    | .spread nm dirs p, h => by simp [Spec.spreadsOfSel] at h
    | .inline tc dirs sub p, h => by
      simp only [Spec.spreadsOfSel] at h
      simp only [collectSpreadsSel]
      exact collectSpreads_flat sub h
end

mutual
  /-- the sub-selection of a collected field contains no more spreads than the selection set -/
  theorem collectFields_spreads (s : SV) (l : Links) : ∀ (sels : Selections) (parent : Option Definition) (f : FInfo),
      f ∈ collectFields s l parent sels → ∀ n ∈ Spec.spreadsOfSels f.node.sel, n ∈ Spec.spreadsOfSels sels
    | .nil, _, _, h, _, _ => by simp [collectFields] at h
    | .cons y rest, parent, f, h, n, hn => by
      simp only [collectFields, List.mem_append] at h
      simp only [Spec.spreadsOfSels, List.mem_append]
      rcases h with h | h
      · exact Or.inl (collectFieldsSel_spreads s l y parent f h n hn)
      · exact Or.inr (collectFields_spreads s l rest parent f h n hn)
  theorem collectFieldsSel_spreads (s : SV) (l : Links) : ∀ (y : Selection) (parent : Option Definition) (f : FInfo),
      f ∈ collectFieldsSel s l parent y → ∀ n ∈ Spec.spreadsOfSels f.node.sel, n ∈ Spec.spreadsOfSel y
    | .field _ _ _ _ sub p, parent, f, h, n, hn => by
      simp only [collectFieldsSel, List.mem_singleton] at h
      subst h
      simpa [Spec.spreadsOfSel] using hn
    | .inline tc _ sub _, parent, f, h, n, hn => by
      simp only [collectFieldsSel] at h
      simp only [Spec.spreadsOfSel]
      exact collectFields_spreads s l sub _ f h n hn
    | .spread _ _ _, _, _, h, _, _ => by simp [collectFieldsSel] at h
end

theorem flat_sub {s : SV} {l : Links} {sels : Selections} {parent : Option Definition} {f : FInfo}
    (hf : f ∈ collectFields s l parent sels) (h : Spec.spreadsOfSels sels = []) : Spec.spreadsOfSels f.node.sel = [] := by
  apply List.eq_nil_iff_forall_not_mem.2
  intro n hn
  have := collectFields_spreads s l sels parent f hf n hn
  rw [h] at this
  cases this

end Gql.Validate
