import GqlProofs.Validate.OverlapFlatList
import GqlProofs.Validate.OverlapFlat
/-
  `Spec.mergedSet` of two document fields as a list of collected fields (`mergedList`): the first
  part lists what is reachable from the first field's sub-selection, the second part what is
  reachable from the second's and was not visited before.
-/
namespace Gql.Validate
open Gql Gql.Validate.Rules

/-- the two parts of `Spec.mergedSet` -/
def mergedA (s : Schema) (d : QueryDoc) (l : Links) (a : FInfo) : List FInfo × List Name :=
  flatLevel s.view l d (d.frags.length + 1) (a.next s.view) a.node.sel []

def mergedB (s : Schema) (d : QueryDoc) (l : Links) (a b : FInfo) : List FInfo × List Name :=
  flatLevel s.view l d (d.frags.length + 1) (b.next s.view) b.node.sel (mergedA s d l a).2

section
variable {s : Schema} {d : QueryDoc} {l : Links} (H : OvHyps s d)
include H

theorem mergedSet_mirror {a b : FInfo} (ha : DocF s d l a) (hb : DocF s d l b) :
    Spec.mergedSet s d (toM a) (toM b) = ((mergedA s d l a).1 ++ (mergedB s d l a b).1).map toM := by
  unfold Spec.mergedSet
  simp only
  rw [← ha.next_eq H, ← hb.next_eq H]
  show (Spec.collectLevel s d (d.frags.length + 1) (a.next s.view) a.node.sel []).1 ++
    (Spec.collectLevel s d (d.frags.length + 1) (b.next s.view) b.node.sel
      (Spec.collectLevel s d (d.frags.length + 1) (a.next s.view) a.node.sel []).2).1 = _
  rw [collectLevel_mirror s d l]
  simp only
  rw [collectLevel_mirror s d l]
  simp only [mergedA, mergedB, List.map_append]

end

section
variable (s : Schema) (d : QueryDoc) (l : Links)

theorem mergedA_sound {a x : FInfo} (h : x ∈ (mergedA s d l a).1) : RFld s.view l d (a.next s.view) a.node.sel x :=
  flatLevel_sound s.view l d _ _ _ _ x h

theorem mergedB_sound {a b x : FInfo} (h : x ∈ (mergedB s d l a b).1) : RFld s.view l d (b.next s.view) b.node.sel x :=
  flatLevel_sound s.view l d _ _ _ _ x h

theorem mergedA_complete {a x : FInfo} (h : RFld s.view l d (a.next s.view) a.node.sel x) : x ∈ (mergedA s d l a).1 :=
  flatSet_complete s d l _ _ h

theorem mergedA_own (a : FInfo) : (collectFields s.view l (a.next s.view) a.node.sel).Sublist (mergedA s d l a).1 :=
  flatSels_own s.view l d _ _ _ _

theorem mergedB_own (a b : FInfo) : (collectFields s.view l (b.next s.view) b.node.sel).Sublist (mergedB s d l a b).1 :=
  flatSels_own s.view l d _ _ _ _

/-- what is reachable from the second field is in one of the two parts -/
theorem mergedB_complete {a b y : FInfo} (h : RFld s.view l d (b.next s.view) b.node.sel y) :
    y ∈ (mergedA s d l a).1 ++ (mergedB s d l a b).1 := by
  obtain ⟨hc1, _⟩ := flatLevel_complete s.view l d (d.frags.length + 1) (a.next s.view) a.node.sel []
    (by have := unvisited_le_length d []; omega)
  obtain ⟨hc2, hown2⟩ := flatLevel_complete s.view l d (d.frags.length + 1) (b.next s.view) b.node.sel (mergedA s d l a).2
    (by have := unvisited_le_length d (mergedA s d l a).2; omega)
  rcases h with h | ⟨n, F, hr, hF, hf⟩
  · exact List.mem_append_right _ (hown2 y h)
  · have hclosed : ∀ m ∈ (mergedA s d l a).2, ∀ G, fragForName d m = some G →
        ∀ sp ∈ collectSpreads G.sel, sp.name ∈ (mergedA s d l a).2 :=
      fun m hm G hG sp hsp => (hc1.new m hm (fun h0 => by cases h0) G hG).2 sp hsp
    have hn := hc2.reach hclosed n hr
    by_cases hv : n ∈ (mergedA s d l a).2
    · exact List.mem_append_left _ ((hc1.new n hv (fun h0 => by cases h0) F hF).1 y hf)
    · exact List.mem_append_right _ ((hc2.new n hn hv F hF).1 y hf)

end

/-- two distinct members of a list occur in it in some order -/
theorem sublist_pair_of_mem {α : Type} {x y : α} (hne : x ≠ y) : ∀ {l : List α}, x ∈ l → y ∈ l →
    [x, y].Sublist l ∨ [y, x].Sublist l
  | z :: rest, hx, hy => by
    rcases List.mem_cons.1 hx with rfl | hx'
    · rcases List.mem_cons.1 hy with rfl | hy'
      · exact absurd rfl hne
      · exact Or.inl (List.Sublist.cons_cons _ (List.singleton_sublist.2 hy'))
    · rcases List.mem_cons.1 hy with rfl | hy'
      · exact Or.inr (List.Sublist.cons_cons _ (List.singleton_sublist.2 hx'))
      · rcases sublist_pair_of_mem hne hx' hy' with h | h
        · exact Or.inl (h.trans (List.sublist_cons_self _ _))
        · exact Or.inr (h.trans (List.sublist_cons_self _ _))

end Gql.Validate
