import GqlProofs.Validate.OverlapDepth
import GqlProofs.Validate.OverlapSwap
/-
  OverlappingFieldsCanBeMerged vs. §5.3.2, soundness of the rule in the general case: a derivable
  judgment of the memo-free semantics makes `FieldsInSetCanMerge` fail for some selection set of
  the document (`topHolds_specFalse`).
-/
namespace Gql.Validate
open Gql Gql.Validate.Rules

/-- `sameArguments` of a field of the document with itself -/
def ArgsRefl (s : Schema) (d : QueryDoc) : Prop :=
  ∀ t ∈ Spec.docSels s d, ∀ al nm args dirs sub pos, t.sel = .field al nm args dirs sub pos →
    sameArguments args args = true

/-- what the comparison with §5.3.2 needs of the document -/
structure SemHyps (s : Schema) (d : QueryDoc) : Prop where
  H : OvHyps s d
  acyclic : Acyclic d
  names : (d.frags.map (·.name)).Nodup
  sym : ArgsSym s d
  refl : ArgsRefl s d

def ClaimPair (s : Schema) (d : QueryDoc) (n : Nat) (pe : Bool) (a b : FInfo) : Prop :=
  Spec.sameResponseShape s d (n + 1) (toM a) (toM b) = false ∨ (pe = false ∧ mergePart s d n (toM a) (toM b) = false)

def ClaimBoth (s : Schema) (d : QueryDoc) (n : Nat) (pe : Bool) (a b : FInfo) : Prop :=
  ClaimPair s d n pe a b ∧ ClaimPair s d n pe b a

def Claims (s : Schema) (d : QueryDoc) (pe : Bool) (a b : FInfo) : Prop :=
  ∀ n, phi d a.node.sel ≤ n → phi d b.node.sel ≤ n → ClaimBoth s d n pe a b

theorem Claims.symm {s : Schema} {d : QueryDoc} {pe : Bool} {a b : FInfo} (h : Claims s d pe a b) : Claims s d pe b a :=
  fun n h1 h2 => ⟨(h n h2 h1).2, (h n h2 h1).1⟩

/-- §5.3.2 fails for some selection set of the document -/
def SpecFalse (s : Schema) (d : QueryDoc) : Prop :=
  ∃ t ∈ Spec.docSets s d, Spec.fieldsInSetCanMerge s d (Spec.mergeFuel d) (Spec.collectSet s d t.parent t.sels) = false

theorem pairOK_false_of_claim {s : Schema} {d : QueryDoc} {n : Nat} {pe : Bool} {a b : FInfo}
    (h : ClaimPair s d n pe a b) (hrn : rnOf a = rnOf b) : pairOK s d n (toM a) (toM b) = false := by
  have hkey : ((toM a).key != (toM b).key) = false := by
    simp only [toM_key]
    have : responseName a.node = responseName b.node := hrn
    simp [this]
  unfold pairOK
  rw [hkey]
  rcases h with h1 | ⟨_, h2⟩
  · rw [h1]; rfl
  · rw [h2]; simp

theorem sreachL_nil {d : QueryDoc} {n : Name} (h : SReachL d [] n) : False := by
  induction h with
  | base hs => cases hs
  | step _ _ _ ih => exact ih

theorem rfld_ne_nil {sv : SV} {l : Links} {d : QueryDoc} {p : Option Definition} {sels : Selections} {x : FInfo}
    (h : RFld sv l d p sels x) : sels ≠ .nil := by
  intro e
  subst e
  rcases h with h | ⟨n, F, hr, _, _⟩
  · simp [collectFields] at h
  · exact sreachL_nil (by simpa [collectSpreads] using hr)

theorem DocF.next_some' {s : Schema} {d : QueryDoc} {l : Links} (H : OvHyps s d) {a : FInfo} (ha : DocF s d l a)
    (hne : a.node.sel ≠ .nil) : ∃ q, a.next s.view = some q := by
  obtain ⟨t, ht, hp⟩ := typedSels_head s (a.next s.view) a.node.sel hne
  rw [ha.next_fieldType H] at ht
  have hd : t ∈ Spec.docSels s d := by
    refine docSels_trans s d _ _ ha.inDoc ?_
    simp only [FInfo.sel', Spec.typedSel, List.mem_cons]
    exact Or.inr ht
  have := H.parents t hd
  rw [hp] at this
  cases hq : a.next s.view with
  | none => rw [hq] at this; cases this
  | some q => exact ⟨q, rfl⟩

theorem docSets_sub {s : Schema} {d : QueryDoc} {l : Links} (H : OvHyps s d) {a : FInfo} (ha : DocF s d l a) :
    (⟨a.next s.view, a.node.sel⟩ : Spec.TSet) ∈ Spec.docSets s d := by
  rw [ha.next_fieldType H]
  exact docSets_field ha.inDoc

/-- reachable fields of a selection set of the document are document fields -/
theorem rfld_docF {s : Schema} {d : QueryDoc} {t : Spec.TSet} (ht : t ∈ Spec.docSets s d) {x : FInfo}
    (h : RFld s.view (fullLinks d) d t.parent t.sels x) : DocF s d (fullLinks d) x := by
  rcases h with h | ⟨n, F, _, hF, hx⟩
  · exact DocF.ofSet ht h
  · exact DocF.ofSet (t := ⟨s.type? F.typeCond, F.sel⟩) (docSets_frag (fragForName_mem hF)) hx

section
variable {s : Schema} {d : QueryDoc} (S : SemHyps s d)
include S

/-- one level: a failing pair among the merged sub-selections makes the pair of fields fail -/
theorem pairStep {pe : Bool} {a b a' b' : FInfo} (ha : DocF s d (fullLinks d) a) (hb : DocF s d (fullLinks d) b)
    (ha' : RFld s.view (fullLinks d) d (a.next s.view) a.node.sel a')
    (hb' : RFld s.view (fullLinks d) d (b.next s.view) b.node.sel b') (hne : a' ≠ b') (hrn : rnOf a' = rnOf b') {m : Nat}
    (hcl : ClaimBoth s d m (pe || goExcl a b) a' b') : ClaimPair s d (m + 1) pe a b := by
  have H := S.H
  obtain ⟨da, hda⟩ := ha.fdef_some H
  obtain ⟨db, hdb⟩ := hb.fdef_some H
  obtain ⟨qa, hqa⟩ := ha.next_some' H (rfld_ne_nil ha')
  obtain ⟨qb, hqb⟩ := hb.next_some' H (rfld_ne_nil hb')
  have hqa' : s.type? da.type.name = some qa := by
    rw [ha.next_eq H, hda] at hqa
    exact hqa
  have hqb' : s.type? db.type.name = some qb := by
    rw [hb.next_eq H, hdb] at hqb
    exact hqb
  have hnl : (Spec.isLeaf qa || Spec.isLeaf qb) = false := by
    cases h1 : Spec.isLeaf qa with
    | true => exact absurd (ha.leaf_nil H hda hqa' h1) (rfld_ne_nil ha')
    | false =>
      cases h2 : Spec.isLeaf qb with
      | true => exact absurd (hb.leaf_nil H hdb hqb' h2) (rfld_ne_nil hb')
      | false => rfl
  have hmemA : a' ∈ (mergedA s d (fullLinks d) a).1 ++ (mergedB s d (fullLinks d) a b).1 :=
    List.mem_append_left _ (mergedA_complete s d _ ha')
  have hmemB : b' ∈ (mergedA s d (fullLinks d) a).1 ++ (mergedB s d (fullLinks d) a b).1 :=
    mergedB_complete s d _ hb'
  -- the ordered pair of the merged list and its claim
  obtain ⟨x, y, hs, hxy, hc⟩ : ∃ x y, [x, y].Sublist ((mergedA s d (fullLinks d) a).1 ++ (mergedB s d (fullLinks d) a b).1) ∧
      rnOf x = rnOf y ∧ ClaimPair s d m (pe || goExcl a b) x y := by
    rcases sublist_pair_of_mem hne hmemA hmemB with h | h
    · exact ⟨a', b', h, hrn, hcl.1⟩
    · exact ⟨b', a', h, hrn.symm, hcl.2⟩
  have hkey : ((toM x).key != (toM y).key) = false := by
    simp only [toM_key]
    have : responseName x.node = responseName y.node := hxy
    simp [this]
  rcases hc with hsh | ⟨hex, hmp⟩
  · left
    rw [shape_succ s d (m + 1) _ _ hda hdb, hqa', hqb']
    simp only [hnl, Bool.false_eq_true, if_false]
    rw [mergedSet_mirror H ha hb,
      allPairs_false_of_pair (shapeOK s d (m + 1)) (List.Sublist.map toM hs) (by simp only [shapeOK, hkey, hsh]; rfl)]
    simp
  · right
    simp only [Bool.or_eq_false_iff] at hex
    refine ⟨hex.1, ?_⟩
    have hmo : mayOverlap (toM a) (toM b) = true := by
      have := goExcl_mayOverlap H ha hb
      rw [hex.2] at this
      simpa using this.symm
    unfold mergePart
    rw [if_pos hmo, fieldsInSetCanMerge_succ, mergedSet_mirror H ha hb,
      allPairs_false_of_pair (pairOK s d m) (List.Sublist.map toM hs) (by simp only [pairOK, hkey, hmp]; simp)]
    simp

omit S in
theorem doTypesConflict_self (sv : SV) : ∀ t : GType, doTypesConflict sv t t = false
  | .list e nn _ => by
    unfold doTypesConflict
    simp [doTypesConflict_self sv e]
  | .named n nn _ => by
    unfold doTypesConflict
    cases h : sv.type? n <;> simp

end


theorem SReachL.lift {d : QueryDoc} {sp sp' : SpreadNode} {F : FragmentDef} (hF : fragForName d sp.name = some F)
    (hsp' : sp' ∈ collectSpreads F.sel) {n : Name} (h : SReachL d [sp'] n) : SReachL d [sp] n := by
  induction h with
  | base hs =>
    simp only [List.mem_singleton] at hs
    subst hs
    exact .step (.base (List.mem_singleton.2 rfl)) hF hsp'
  | step _ hF' hx ih => exact .step ih hF' hx

theorem SReachL.single {d : QueryDoc} {sps : List SpreadNode} {sp : SpreadNode} (hsp : sp ∈ sps) {n : Name}
    (h : SReachL d [sp] n) : SReachL d sps n :=
  h.mono (fun x hx => by simp only [List.mem_singleton] at hx; subst hx; exact hsp)

/-- what a derivable judgment means for the specification -/
def Smot (s : Schema) (d : QueryDoc) : Jg → Prop
  | .conf pe a b => DocF s d (fullLinks d) a → DocF s d (fullLinks d) b → rnOf a = rnOf b →
      SpecFalse s d ∨ (a ≠ b ∧ Claims s d pe a b)
  | .sub ex a b => DocF s d (fullLinks d) a → DocF s d (fullLinks d) b →
      SpecFalse s d ∨ ∃ a' b', RFld s.view (fullLinks d) d (a.next s.view) a.node.sel a' ∧
        RFld s.view (fullLinks d) d (b.next s.view) b.node.sel b' ∧ rnOf a' = rnOf b' ∧ a' ≠ b' ∧ Claims s d ex a' b'
  | .chain ex p sels sp => (⟨p, sels⟩ : Spec.TSet) ∈ Spec.docSets s d →
      SpecFalse s d ∨ ∃ a g n F, a ∈ collectFields s.view (fullLinks d) p sels ∧ SReachL d [sp] n ∧
        fragForName d n = some F ∧ g ∈ fragFieldsOf s.view (fullLinks d) F ∧ rnOf a = rnOf g ∧ a ≠ g ∧ Claims s d ex a g
  | .check ex sa sb =>
      SpecFalse s d ∨ ∃ f g n F m G, SReachL d [sa] n ∧ fragForName d n = some F ∧ f ∈ fragFieldsOf s.view (fullLinks d) F ∧
        SReachL d [sb] m ∧ fragForName d m = some G ∧ g ∈ fragFieldsOf s.view (fullLinks d) G ∧
        rnOf f = rnOf g ∧ f ≠ g ∧ Claims s d ex f g

section
variable {s : Schema} {d : QueryDoc} (S : SemHyps s d)
include S

theorem docF_argsRefl {a : FInfo} (ha : DocF s d (fullLinks d) a) : sameArguments a.node.args a.node.args = true :=
  S.refl _ ha.inDoc _ _ _ _ _ _ rfl

theorem docF_argsSym {a b : FInfo} (ha : DocF s d (fullLinks d) a) (hb : DocF s d (fullLinks d) b) :
    sameArguments a.node.args b.node.args = sameArguments b.node.args a.node.args :=
  S.sym _ ha.inDoc _ hb.inDoc _ _ _ _ _ _ _ _ _ _ _ _ rfl rfl

/-- a failing pair of distinct fields reachable from a selection set of the document refutes §5.3.2 -/
theorem specFalse_of_pair {t : Spec.TSet} (ht : t ∈ Spec.docSets s d) {x y : FInfo}
    (hx : RFld s.view (fullLinks d) d t.parent t.sels x) (hy : RFld s.view (fullLinks d) d t.parent t.sels y)
    (hne : x ≠ y) (hrn : rnOf x = rnOf y) (hcl : Claims s d false x y ∨ Claims s d true x y) : SpecFalse s d := by
  obtain ⟨k, hk⟩ : ∃ k, Spec.mergeFuel d = k + 1 := ⟨_, rfl⟩
  have hb := phi_bound S.acyclic S.names ht
  have h1 := phi_sub S.acyclic hx
  have h2 := phi_sub S.acyclic hy
  have hmx := flatSet_complete s d (fullLinks d) _ _ hx
  have hmy := flatSet_complete s d (fullLinks d) _ _ hy
  refine ⟨t, ht, ?_⟩
  rw [hk, fieldsInSetCanMerge_succ, collectSet_mirror s d (fullLinks d)]
  have hcb : ∀ pe, Claims s d pe x y → ∃ u v, [u, v].Sublist (flatSet s d (fullLinks d) t.parent t.sels) ∧
      pairOK s d k (toM u) (toM v) = false := by
    intro pe hc
    have := hc k (by omega) (by omega)
    rcases sublist_pair_of_mem hne hmx hmy with h | h
    · exact ⟨x, y, h, pairOK_false_of_claim this.1 hrn⟩
    · exact ⟨y, x, h, pairOK_false_of_claim this.2 hrn.symm⟩
  obtain ⟨u, v, hs, hp⟩ : ∃ u v, [u, v].Sublist (flatSet s d (fullLinks d) t.parent t.sels) ∧
      pairOK s d k (toM u) (toM v) = false := by
    rcases hcl with h | h
    · exact hcb _ h
    · exact hcb _ h
  exact allPairs_false_of_pair _ (List.Sublist.map toM hs) hp

theorem holds_spec {j : Jg} (h : Holds (envOf s d (fullLinks d)) j) : Smot s d j := by
  have H := S.H
  induction h with
  | @names pe a b oa ob hoa hob hex hne =>
    intro ha hb hrn
    right
    simp only [Bool.or_eq_false_iff] at hex
    refine ⟨fun e => hne (by rw [e]), fun n _ _ => ?_⟩
    have hmo : mayOverlap (toM a) (toM b) = true := by
      have := goExcl_mayOverlap H ha hb
      rw [hex.2] at this
      simpa using this.symm
    have hmo' : mayOverlap (toM b) (toM a) = true := by
      have := goExcl_mayOverlap H hb ha
      rw [goExcl_comm, hex.2] at this
      simpa using this.symm
    have h1 : (a.node.name == b.node.name) = false := by simpa using hne
    have h2 : (b.node.name == a.node.name) = false := by simpa using (fun e => hne e.symm)
    constructor
    · right
      refine ⟨hex.1, ?_⟩
      unfold mergePart
      rw [if_pos hmo]
      simp [toM, h1]
    · right
      refine ⟨hex.1, ?_⟩
      unfold mergePart
      rw [if_pos hmo']
      simp [toM, h2]
  | @args pe a b oa ob hoa hob hex hargs =>
    intro ha hb hrn
    right
    simp only [Bool.or_eq_false_iff] at hex
    refine ⟨fun e => ?_, fun n _ _ => ?_⟩
    · subst e
      rw [docF_argsRefl S ha] at hargs
      cases hargs
    · have hmo : mayOverlap (toM a) (toM b) = true := by
        have := goExcl_mayOverlap H ha hb
        rw [hex.2] at this
        simpa using this.symm
      have hmo' : mayOverlap (toM b) (toM a) = true := by
        have := goExcl_mayOverlap H hb ha
        rw [goExcl_comm, hex.2] at this
        simpa using this.symm
      have hargs' : sameArguments b.node.args a.node.args = false := by
        rw [← docF_argsSym S ha hb]
        exact hargs
      rw [sameArguments_eq_spec] at hargs hargs'
      constructor
      · right
        refine ⟨hex.1, ?_⟩
        unfold mergePart
        rw [if_pos hmo]
        simp [toM, hargs]
      · right
        refine ⟨hex.1, ?_⟩
        unfold mergePart
        rw [if_pos hmo']
        simp [toM, hargs']
  | @types pe a b oa ob da db hoa hob hda hdb hconf =>
    intro ha hb hrn
    right
    have hconf0 : doTypesConflict s.view da.type db.type = true := hconf
    refine ⟨fun e => ?_, fun n _ _ => ?_⟩
    · subst e
      rw [hda] at hdb
      injection hdb with hdb
      subst hdb
      rw [doTypesConflict_self] at hconf0
      cases hconf0
    · rw [ha.dfn_eq H] at hda
      rw [hb.dfn_eq H] at hdb
      have hw : Spec.sameWrappers (specNamed s) da.type db.type = false := by
        have := hconf0
        rw [doTypesConflict_eq s H.keys] at this
        simpa using this
      have hw' : Spec.sameWrappers (specNamed s) db.type da.type = false := by
        have := hconf0
        rw [doTypesConflict_comm, doTypesConflict_eq s H.keys] at this
        simpa using this
      constructor
      · left
        rw [shape_succ s d n _ _ hda hdb, hw]
        rfl
      · left
        rw [shape_succ s d n _ _ hdb hda, hw']
        rfl
  | @sub pe a b oa ob hoa hob hsub ih =>
    intro ha hb hrn
    rcases ih ha hb with hsf | ⟨a', b', ha', hb', hrn', hne', hcl⟩
    · exact Or.inl hsf
    · by_cases hab : a = b
      · subst hab
        left
        exact specFalse_of_pair S (docSets_sub H ha) ha' hb' hne' hrn'
          (by
            cases hx : (pe || goExcl a a) with
            | false => rw [hx] at hcl; exact Or.inl hcl
            | true => rw [hx] at hcl; exact Or.inr hcl)
      · right
        refine ⟨hab, fun n h1 h2 => ?_⟩
        have p1 := phi_sub S.acyclic ha'
        have p2 := phi_sub S.acyclic hb'
        obtain ⟨m, rfl⟩ : ∃ m, n = m + 1 := ⟨n - 1, by omega⟩
        have hc := hcl m (by omega) (by omega)
        refine ⟨pairStep S ha hb ha' hb' hne' hrn' hc, ?_⟩
        have hc' : ClaimBoth s d m (pe || goExcl b a) b' a' := by
          rw [goExcl_comm]
          exact ⟨hc.2, hc.1⟩
        exact pairStep S hb ha hb' ha' (fun e => hne' e.symm) hrn'.symm hc'
  | @subFields ex a b a' b' ha' hb' hrn hc ih =>
    intro ha hb
    rcases ih (ha.sub H ha') (hb.sub H hb') hrn with hsf | ⟨hne, hcl⟩
    · exact Or.inl hsf
    · exact Or.inr ⟨a', b', Or.inl ha', Or.inl hb', hrn, hne, hcl⟩
  | @subChainB ex a b sp hsp hc ih =>
    intro ha hb
    rcases ih (docSets_sub H ha) with hsf | ⟨x, g, n, F, hx, hr, hF, hg, hrn, hne, hcl⟩
    · exact Or.inl hsf
    · exact Or.inr ⟨x, g, Or.inl hx, Or.inr ⟨n, F, hr.single hsp, hF, hg⟩, hrn, hne, hcl⟩
  | @subChainA ex a b sp hsp hc ih =>
    intro ha hb
    rcases ih (docSets_sub H hb) with hsf | ⟨x, g, n, F, hx, hr, hF, hg, hrn, hne, hcl⟩
    · exact Or.inl hsf
    · exact Or.inr ⟨g, x, Or.inr ⟨n, F, hr.single hsp, hF, hg⟩, Or.inl hx, hrn.symm, fun e => hne e.symm, hcl.symm⟩
  | @subCheck ex a b sa sb hsa hsb hc ih =>
    intro ha hb
    rcases ih with hsf | ⟨f, g, n, F, m, G, hr1, hF, hf, hr2, hG, hg, hrn, hne, hcl⟩
    · exact Or.inl hsf
    · exact Or.inr ⟨f, g, Or.inr ⟨n, F, hr1.single hsa, hF, hf⟩, Or.inr ⟨m, G, hr2.single hsb, hG, hg⟩, hrn, hne, hcl⟩
  | @chainHere ex parent sels sp F a g hF hid ha hg hrn hc ih =>
    intro ht
    have hFf : fragForName d sp.name = some F := spreadDef_some hF
    have da : DocF s d (fullLinks d) a := DocF.ofSet ht ha
    have dg : DocF s d (fullLinks d) g := DocF.ofSet (t := ⟨s.type? F.typeCond, F.sel⟩) (docSets_frag (fragForName_mem hFf)) hg
    rcases ih da dg hrn with hsf | ⟨hne, hcl⟩
    · exact Or.inl hsf
    · exact Or.inr ⟨a, g, sp.name, F, ha, .base (List.mem_singleton.2 rfl), hFf, hg, hrn, hne, hcl⟩
  | @chainNext ex parent sels sp sp' F hF hid hsp' hne hc ih =>
    intro ht
    have hFf : fragForName d sp.name = some F := spreadDef_some hF
    rcases ih ht with hsf | ⟨x, g, n, G, hx, hr, hG, hg, hrn, hne', hcl⟩
    · exact Or.inl hsf
    · exact Or.inr ⟨x, g, n, G, hx, hr.lift hFf hsp', hG, hg, hrn, hne', hcl⟩
  | @checkHere ex a b A B fa fb hne hA hB hfa hfb hrn hc ih =>
    have hAf : fragForName d a.name = some A := spreadDef_some hA
    have hBf : fragForName d b.name = some B := spreadDef_some hB
    have dfa : DocF s d (fullLinks d) fa := DocF.ofSet (t := ⟨s.type? A.typeCond, A.sel⟩) (docSets_frag (fragForName_mem hAf)) hfa
    have dfb : DocF s d (fullLinks d) fb := DocF.ofSet (t := ⟨s.type? B.typeCond, B.sel⟩) (docSets_frag (fragForName_mem hBf)) hfb
    rcases ih dfa dfb hrn with hsf | ⟨hne', hcl⟩
    · exact Or.inl hsf
    · exact Or.inr ⟨fa, fb, a.name, A, b.name, B, .base (List.mem_singleton.2 rfl), hAf, hfa,
        .base (List.mem_singleton.2 rfl), hBf, hfb, hrn, hne', hcl⟩
  | @checkRight ex a b x A B hne hA hB hx hc ih =>
    have hBf : fragForName d b.name = some B := spreadDef_some hB
    rcases ih with hsf | ⟨f, g, n, F, m, G, hr1, hF, hf, hr2, hG, hg, hrn, hne', hcl⟩
    · exact Or.inl hsf
    · exact Or.inr ⟨f, g, n, F, m, G, hr1, hF, hf, hr2.lift hBf hx, hG, hg, hrn, hne', hcl⟩
  | @checkLeft ex a b x A B hne hA hB hx hc ih =>
    have hAf : fragForName d a.name = some A := spreadDef_some hA
    rcases ih with hsf | ⟨f, g, n, F, m, G, hr1, hF, hf, hr2, hG, hg, hrn, hne', hcl⟩
    · exact Or.inl hsf
    · exact Or.inr ⟨f, g, n, F, m, G, hr1.lift hAf hx, hF, hf, hr2, hG, hg, hrn, hne', hcl⟩

/-- **soundness, semantic part**: a derivable conflict for a selection set of the document makes §5.3.2 fail -/
theorem topHolds_specFalse {t : Spec.TSet} (ht : t ∈ Spec.docSets s d)
    (h : TopHolds (envOf s d (fullLinks d)) t.parent t.sels) : SpecFalse s d := by
  rcases h with ⟨a, b, hs, hrn, hh⟩ | ⟨sp, hsp, hh⟩ | ⟨sa, sb, hs, hh⟩
  · have ha : a ∈ collectFields s.view (fullLinks d) t.parent t.sels := hs.subset (by simp)
    have hb : b ∈ collectFields s.view (fullLinks d) t.parent t.sels := hs.subset (by simp)
    rcases holds_spec S hh (DocF.ofSet ht ha) (DocF.ofSet ht hb) hrn with hsf | ⟨hne, hcl⟩
    · exact hsf
    · exact specFalse_of_pair S ht (Or.inl ha) (Or.inl hb) hne hrn (Or.inl hcl)
  · rcases holds_spec S hh ht with hsf | ⟨x, g, n, F, hx, hr, hF, hg, hrn, hne, hcl⟩
    · exact hsf
    · exact specFalse_of_pair S ht (Or.inl hx) (Or.inr ⟨n, F, hr.single hsp, hF, hg⟩) hne hrn (Or.inl hcl)
  · have ha : sa ∈ collectSpreads t.sels := hs.subset (by simp)
    have hb : sb ∈ collectSpreads t.sels := hs.subset (by simp)
    rcases holds_spec S hh with hsf | ⟨f, g, n, F, m, G, hr1, hF, hf, hr2, hG, hg, hrn, hne, hcl⟩
    · exact hsf
    · exact specFalse_of_pair S ht (Or.inr ⟨n, F, hr1.single ha, hF, hf⟩) (Or.inr ⟨m, G, hr2.single hb, hG, hg⟩)
        hne hrn (Or.inl hcl)

end

end Gql.Validate
