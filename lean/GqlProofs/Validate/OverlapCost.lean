import GqlProofs.Validate.OverlapUniv
/-
  OverlappingFieldsCanBeMerged (polynomial repair): termination AND cost in one amortised argument.

  Potential.  `phi st` = number of memo keys not yet present:
      `unHas`   (fragment name, fragment name, exclusive) triples `comparedFragmentPairs` does not answer,
      `unSeen`  (selection set, fragment name, exclusive) triples not in `comparedFieldsAndFragmentPairs`,
  over the fragment names of the document and the identities `ids` of the reachable selection sets.
  Both memos only advance (`AdvS`), so `phi` never increases.

  Cost.  `cost st = st.steps + W · phi st` with `W = (N+1)²`.  Every function `f` of the model
  satisfies `Spec n Pre b f`: started in a state with `b + W · phi st < n` (and `Pre st`) it returns
  (`n` levels of `findConflict` fuel suffice) and `cost` grows by at most its LOCAL budget `b`:
      findConflict(a, b)                         nodeSize a · nodeSize b
      collectConflictsBetween(A, B)              mapSize A · mapSize B
      collectConflictsBetweenFieldsAndFragment   1      (the call itself; an expansion is paid by `phi`)
      check                                      1
  An expansion of a memo key lowers `phi` by one, which pays `W` steps: enough for the comparison of
  the two field maps (`mapSize · mapSize`) and for the entry step of each nested call.  What
  `findConflict(a, b)` does without touching a memo descends the tree on both sides, hence
  `1 + Σ nodeSize a' · nodeSize b' + spreads… ≤ nodeSize a · nodeSize b`.
  The same inequality bounds the recursion DEPTH, so `n = overlapFuel` levels are never exhausted.
-/
namespace Gql.Validate
open Gql Gql.Validate.Rules

/- ---------- the memo of (selection set, fragment) comparisons ---------- -/

def keyTriples (ids : List (Option Nat)) (names : List Name) : List FragKey :=
  ids.flatMap fun i => names.flatMap fun n => [(i, n, false), (i, n, true)]

theorem mem_keyTriples {ids : List (Option Nat)} {names : List Name} {i : Option Nat} {n : Name} (e : Bool)
    (hi : i ∈ ids) (hn : n ∈ names) : (i, n, e) ∈ keyTriples ids names := by
  unfold keyTriples
  simp only [List.mem_flatMap]
  refine ⟨i, hi, n, hn, ?_⟩
  cases e <;> simp

theorem length_keyTriples (ids : List (Option Nat)) (names : List Name) :
    (keyTriples ids names).length = 2 * ids.length * names.length := by
  unfold keyTriples
  rw [length_flatMap_const _ (names.length * 2)]
  · rw [Nat.mul_comm 2, Nat.mul_assoc, Nat.mul_comm 2]
  · intro a
    rw [length_flatMap_const _ 2]
    intro b
    rfl

/-- number of (selection set, fragment name, exclusive) keys not yet in the memo -/
def unSeen (ids : List (Option Nat)) (d : QueryDoc) (seen : List FragKey) : Nat :=
  ((keyTriples ids (fragNames d)).filter fun k => !seen.contains k).length

theorem unSeen_le (ids : List (Option Nat)) (d : QueryDoc) (seen : List FragKey) :
    unSeen ids d seen ≤ 2 * ids.length * d.frags.length := by
  unfold unSeen
  have h := List.length_filter_le (fun k : FragKey => !seen.contains k) (keyTriples ids (fragNames d))
  rw [length_keyTriples] at h
  simpa [fragNames] using h

theorem unSeen_mono (ids : List (Option Nat)) (d : QueryDoc) {seen seen' : List FragKey} (h : seen ⊆ seen') :
    unSeen ids d seen' ≤ unSeen ids d seen := by
  unfold unSeen
  apply filter_length_le_of_imp
  intro k hk
  simp only [Bool.not_eq_true', List.contains_eq_mem, decide_eq_false_iff_not] at hk ⊢
  exact fun hm => hk (h hm)

theorem unSeen_cons_lt (ids : List (Option Nat)) (d : QueryDoc) {seen seen' : List FragKey} {k : FragKey}
    (hk : k ∈ keyTriples ids (fragNames d)) (hn : seen.contains k = false) (h : k :: seen ⊆ seen') :
    unSeen ids d seen' + 1 ≤ unSeen ids d seen := by
  unfold unSeen
  apply filter_length_lt_of_imp _ _ _ k _ _ _ hk
  · intro x hx
    simp only [Bool.not_eq_true', List.contains_eq_mem, decide_eq_false_iff_not] at hx ⊢
    exact fun hm => hx (h (List.mem_cons_of_mem _ hm))
  · simpa using hn
  · have : k ∈ seen' := h (List.mem_cons_self ..)
    simp [this]

/-- the measure of one (E) recursion: fragment names not yet compared with THIS selection set -/
def chainMu (d : QueryDoc) (i : Option Nat) (excl : Bool) (seen : List FragKey) : Nat :=
  ((fragNames d).filter fun n => !seen.contains (i, n, excl)).length

theorem chainMu_le (d : QueryDoc) (i : Option Nat) (excl : Bool) (seen : List FragKey) :
    chainMu d i excl seen ≤ d.frags.length := by
  unfold chainMu
  have h := List.length_filter_le (fun n : Name => !seen.contains (i, n, excl)) (fragNames d)
  simpa [fragNames] using h

theorem chainMu_mono (d : QueryDoc) (i : Option Nat) (excl : Bool) {seen seen' : List FragKey} (h : seen ⊆ seen') :
    chainMu d i excl seen' ≤ chainMu d i excl seen := by
  unfold chainMu
  apply filter_length_le_of_imp
  intro n hn
  simp only [Bool.not_eq_true', List.contains_eq_mem, decide_eq_false_iff_not] at hn ⊢
  exact fun hm => hn (h hm)

theorem chainMu_cons_lt (d : QueryDoc) (i : Option Nat) (excl : Bool) {seen seen' : List FragKey} {n : Name}
    (hmem : n ∈ fragNames d) (hn : seen.contains (i, n, excl) = false) (h : (i, n, excl) :: seen ⊆ seen') :
    chainMu d i excl seen' + 1 ≤ chainMu d i excl seen := by
  unfold chainMu
  apply filter_length_lt_of_imp _ _ _ n _ _ _ hmem
  · intro x hx
    simp only [Bool.not_eq_true', List.contains_eq_mem, decide_eq_false_iff_not] at hx ⊢
    exact fun hm => hx (h (List.mem_cons_of_mem _ hm))
  · simpa using hn
  · have : (i, n, excl) ∈ seen' := h (List.mem_cons_self ..)
    simp [this]

/- ---------- states ---------- -/

/-- `st'` is a legal successor of `st`: both memos advanced -/
def AdvS (st st' : OSt) : Prop := PSym st'.pairs ∧ PLe st.pairs st'.pairs ∧ st.seen ⊆ st'.seen

theorem AdvS_refl {st : OSt} (h : PSym st.pairs) : AdvS st st := ⟨h, PLe_refl _, fun _ hx => hx⟩

theorem AdvS_trans {a b c : OSt} (h1 : AdvS a b) (h2 : AdvS b c) : AdvS a c :=
  ⟨h2.1, PLe_trans h1.2.1 h2.2.1, fun _ hx => h2.2.2 (h1.2.2 hx)⟩

theorem AdvS_tick {st : OSt} (h : PSym st.pairs) : AdvS st st.tick := ⟨h, PLe_refl _, fun _ hx => hx⟩

/-- the context of one observer call: environment, reachable fields, identities of the reachable
    selection sets, bound on the nodes of a reachable selection set -/
structure Cx where
  env : Env
  U : Univ
  ids : List (Option Nat)
  N : Nat

def Cx.W (cx : Cx) : Nat := (cx.N + 1) * (cx.N + 1)

def Cx.phi (cx : Cx) (st : OSt) : Nat := unHas cx.env.d st.pairs + unSeen cx.ids cx.env.d st.seen

def Cx.cost (cx : Cx) (st : OSt) : Nat := st.steps + cx.W * cx.phi st

theorem phi_mono (cx : Cx) {st st' : OSt} (h : AdvS st st') : cx.phi st' ≤ cx.phi st := by
  unfold Cx.phi
  have h1 := unHas_mono cx.env.d h.2.1
  have h2 := unSeen_mono cx.ids cx.env.d h.2.2
  omega

theorem Wphi_mono (cx : Cx) {st st' : OSt} (h : AdvS st st') : cx.W * cx.phi st' ≤ cx.W * cx.phi st :=
  Nat.mul_le_mul_left _ (phi_mono cx h)

theorem phi_tick (cx : Cx) (st : OSt) : cx.phi st.tick = cx.phi st := rfl

theorem cost_tick (cx : Cx) (st : OSt) : cx.cost st.tick = cx.cost st + 1 := by
  have h : cx.phi st.tick = cx.phi st := rfl
  simp only [Cx.cost, h]
  simp only [OSt.tick]
  omega

/-- a key expansion pays `W` -/
theorem Wphi_drop (cx : Cx) {st st' : OSt} (h : cx.phi st' + 1 ≤ cx.phi st) :
    cx.W * cx.phi st' + cx.W ≤ cx.W * cx.phi st := by
  have := Nat.mul_le_mul_left cx.W h
  rw [Nat.mul_add, Nat.mul_one] at this
  exact this

/-- what the universe has to provide -/
structure CxOk (cx : Cx) : Prop where
  closed : UClosed cx.U
  frags : UFrags cx.env.d cx.U
  nodes : ∀ k sub, (k, sub) ∈ cx.U → countNodes sub + 1 ≤ cx.N
  ids : ∀ k sub, (k, sub) ∈ cx.U → selId sub ∈ cx.ids
  fragNodes : ∀ f ∈ cx.env.d.frags, countNodes f.sel ≤ cx.N
  chainFuel : cx.env.d.frags.length + 1 ≤ cx.env.chainFuel
  checkFuel : 2 * cx.env.d.frags.length * cx.env.d.frags.length + 1 ≤ cx.env.checkFuel

/-- the amortised specification of a state transformer -/
def Spec (cx : Cx) (n : Nat) (Pre : OSt → Prop) (b : Nat) {β : Type} (f : OSt → Option (OSt × β)) : Prop :=
  ∀ st, PSym st.pairs → Pre st → b + cx.W * cx.phi st < n →
    ∃ r, f st = some r ∧ AdvS st r.1 ∧ cx.cost r.1 ≤ cx.cost st + b

def PreMono (Pre : OSt → Prop) : Prop := ∀ st st', AdvS st st' → Pre st → Pre st'

theorem preMono_true : PreMono (fun _ => True) := fun _ _ _ _ => trivial

theorem Spec.mono {cx : Cx} {n : Nat} {Pre : OSt → Prop} {b b' : Nat} {β : Type} {f : OSt → Option (OSt × β)}
    (h : Spec cx n Pre b f) (hb : b ≤ b') : Spec cx n Pre b' f := by
  intro st hP hpre hn
  obtain ⟨r, hr, ha, hc⟩ := h st hP hpre (by omega)
  exact ⟨r, hr, ha, by omega⟩

theorem Spec.weaken {cx : Cx} {n : Nat} {Pre : OSt → Prop} {b : Nat} {β : Type} {f : OSt → Option (OSt × β)}
    (h : Spec cx n (fun _ => True) b f) : Spec cx n Pre b f :=
  fun st hP _ hn => h st hP trivial hn

/-- run a component with budget `b1` inside a computation with budget `b ≥ b1`: what is left of the
    budget is still covered afterwards -/
theorem Spec.step {cx : Cx} {n : Nat} {Pre : OSt → Prop} {b1 : Nat} {β : Type} {f : OSt → Option (OSt × β)}
    (h : Spec cx n Pre b1 f) {st : OSt} {b : Nat} (hP : PSym st.pairs) (hpre : Pre st)
    (hn : b + cx.W * cx.phi st < n) (hle : b1 ≤ b) :
    ∃ r, f st = some r ∧ AdvS st r.1 ∧ cx.cost r.1 ≤ cx.cost st + b1 ∧
      ∀ b2, b1 + b2 ≤ b → b2 + cx.W * cx.phi r.1 < n := by
  obtain ⟨r, hr, ha, hc⟩ := h st hP hpre (by omega)
  have := Wphi_mono cx ha
  exact ⟨r, hr, ha, hc, fun b2 hb2 => by omega⟩

/- ---------- loops over `findConflict` ---------- -/

/-- `findConflict` with `n` levels: answers on reachable fields within its local budget -/
def FCOk (cx : Cx) (n : Nat) (fc : FC) : Prop :=
  ∀ excl a b, Good cx.U a → Good cx.U b → Spec cx n (fun _ => True) (nodeSize a * nodeSize b) (fc excl a b)

theorem pairRow_spec {cx : Cx} {n : Nat} {fc : FC} (hfc : FCOk cx n fc) (excl : Bool) {fa : FInfo}
    (ha : Good cx.U fa) : ∀ (fbs : List FInfo), (∀ f ∈ fbs, Good cx.U f) →
      Spec cx n (fun _ => True) (nodeSize fa * listSize fbs) (pairRow fc excl fa fbs)
  | [], _ => fun st hP _ _ => ⟨(st, []), rfl, AdvS_refl hP, Nat.le_add_right _ _⟩
  | fb :: rest, hb => by
    intro st hP _ hn
    rw [listSize_cons, Nat.mul_add] at hn
    obtain ⟨⟨st1, c⟩, h1, a1, c1, n1⟩ := (hfc excl fa fb ha (hb fb (List.mem_cons_self ..))).step hP trivial hn
      (Nat.le_add_right _ _)
    obtain ⟨⟨st2, cs⟩, h2, a2, c2⟩ := pairRow_spec hfc excl ha rest (fun f hf => hb f (List.mem_cons_of_mem _ hf))
      st1 a1.1 trivial (n1 _ (Nat.le_refl _))
    refine ⟨(st2, optToList c ++ cs), ?_, AdvS_trans a1 a2, ?_⟩
    · simp only [pairRow, h1, h2]
    · rw [listSize_cons, Nat.mul_add]
      simp only at c1 c2 ⊢
      omega

theorem pairGrid_spec {cx : Cx} {n : Nat} {fc : FC} (hfc : FCOk cx n fc) (excl : Bool) {fsB : List FInfo}
    (hB : ∀ f ∈ fsB, Good cx.U f) : ∀ (fsA : List FInfo), (∀ f ∈ fsA, Good cx.U f) →
      Spec cx n (fun _ => True) (listSize fsA * listSize fsB) (pairGrid fc excl fsB fsA)
  | [], _ => fun st hP _ _ => ⟨(st, []), rfl, AdvS_refl hP, Nat.le_add_right _ _⟩
  | fa :: rest, hA => by
    intro st hP _ hn
    rw [listSize_cons, Nat.add_mul] at hn
    obtain ⟨⟨st1, c1⟩, h1, a1, k1, n1⟩ := (pairRow_spec hfc excl (hA fa (List.mem_cons_self ..)) fsB hB).step hP trivial hn
      (Nat.le_add_right _ _)
    obtain ⟨⟨st2, c2⟩, h2, a2, k2⟩ := pairGrid_spec hfc excl hB rest (fun f hf => hA f (List.mem_cons_of_mem _ hf))
      st1 a1.1 trivial (n1 _ (Nat.le_refl _))
    refine ⟨(st2, c1 ++ c2), ?_, AdvS_trans a1 a2, ?_⟩
    · simp only [pairGrid, h1, h2]
    · rw [listSize_cons, Nat.add_mul]
      simp only at k1 k2 ⊢
      omega

theorem between_spec {cx : Cx} {n : Nat} {fc : FC} (hfc : FCOk cx n fc) (excl : Bool) {B : FMap}
    (hB : GoodMap cx.U B) : ∀ (A : FMap), GoodMap cx.U A →
      Spec cx n (fun _ => True) (mapSize A * mapSize B) (collectConflictsBetween fc excl B A)
  | [], _ => fun st hP _ _ => ⟨(st, []), rfl, AdvS_refl hP, Nat.le_add_right _ _⟩
  | (rn, fsA) :: rest, hA => by
    have hrest : GoodMap cx.U rest := fun e he => hA e (List.mem_cons_of_mem _ he)
    intro st hP _ hn
    rw [mapSize_cons, Nat.add_mul] at hn
    simp only at hn
    unfold collectConflictsBetween
    cases hg : fmGet B rn with
    | none =>
      obtain ⟨r, hr, ar, kr⟩ := between_spec hfc excl hB rest hrest st hP trivial (by omega)
      refine ⟨r, hr, ar, ?_⟩
      rw [mapSize_cons, Nat.add_mul]
      simp only
      omega
    | some fsB =>
      simp only
      have hle : listSize fsA * listSize fsB ≤ listSize fsA * mapSize B :=
        Nat.mul_le_mul_left _ (mapSize_get hg)
      obtain ⟨⟨st1, c1⟩, h1, a1, k1, n1⟩ := (pairGrid_spec hfc excl (goodMap_get hB hg) fsA
        (hA (rn, fsA) (List.mem_cons_self ..))).step hP trivial hn (Nat.le_trans hle (Nat.le_add_right _ _))
      obtain ⟨⟨st2, c2⟩, h2, a2, k2⟩ := between_spec hfc excl hB rest hrest st1 a1.1 trivial (n1 _ (by omega))
      refine ⟨(st2, c1 ++ c2), ?_, AdvS_trans a1 a2, ?_⟩
      · simp only [h1, h2]
      · rw [mapSize_cons, Nat.add_mul]
        simp only at k1 k2 ⊢
        omega

theorem pairTriangle_spec {cx : Cx} {n : Nat} {fc : FC} (hfc : FCOk cx n fc) :
    ∀ (fs : List FInfo), (∀ f ∈ fs, Good cx.U f) →
      Spec cx n (fun _ => True) (listSize fs * listSize fs) (pairTriangle fc fs)
  | [], _ => fun st hP _ _ => ⟨(st, []), rfl, AdvS_refl hP, Nat.le_add_right _ _⟩
  | fa :: rest, hA => by
    have hrest : ∀ f ∈ rest, Good cx.U f := fun f hf => hA f (List.mem_cons_of_mem _ hf)
    intro st hP _ hn
    have hsplit : nodeSize fa * listSize rest + listSize rest * listSize rest ≤ listSize (fa :: rest) * listSize (fa :: rest) := by
      rw [listSize_cons]
      simp only [Nat.add_mul, Nat.mul_add]
      omega
    obtain ⟨⟨st1, c1⟩, h1, a1, k1, n1⟩ := (pairRow_spec hfc false (hA fa (List.mem_cons_self ..)) rest hrest).step hP trivial hn
      (by omega)
    obtain ⟨⟨st2, c2⟩, h2, a2, k2⟩ := pairTriangle_spec hfc rest hrest st1 a1.1 trivial (n1 _ (by omega))
    refine ⟨(st2, c1 ++ c2), ?_, AdvS_trans a1 a2, ?_⟩
    · simp only [pairTriangle, h1, h2]
    · simp only at k1 k2 ⊢
      omega

theorem within_spec {cx : Cx} {n : Nat} {fc : FC} (hfc : FCOk cx n fc) :
    ∀ (A : FMap), GoodMap cx.U A → Spec cx n (fun _ => True) (mapSize A * mapSize A) (collectConflictsWithin fc A)
  | [], _ => fun st hP _ _ => ⟨(st, []), rfl, AdvS_refl hP, Nat.le_add_right _ _⟩
  | (rn, fs) :: rest, hA => by
    have hrest : GoodMap cx.U rest := fun e he => hA e (List.mem_cons_of_mem _ he)
    intro st hP _ hn
    have hsplit : listSize fs * listSize fs + mapSize rest * mapSize rest ≤ mapSize ((rn, fs) :: rest) * mapSize ((rn, fs) :: rest) := by
      rw [mapSize_cons]
      simp only [Nat.add_mul, Nat.mul_add]
      omega
    obtain ⟨⟨st1, c1⟩, h1, a1, k1, n1⟩ := (pairTriangle_spec hfc fs (hA (rn, fs) (List.mem_cons_self ..))).step hP trivial hn
      (by omega)
    obtain ⟨⟨st2, c2⟩, h2, a2, k2⟩ := within_spec hfc rest hrest st1 a1.1 trivial (n1 _ (by omega))
    refine ⟨(st2, c1 ++ c2), ?_, AdvS_trans a1 a2, ?_⟩
    · simp only [collectConflictsWithin, h1, h2]
    · simp only at k1 k2 ⊢
      omega

/- ---------- generic loop ---------- -/

theorem stLoop_spec {cx : Cx} {n : Nat} {Pre : OSt → Prop} (hmono : PreMono Pre) {α : Type} (c : Nat)
    (step : α → OSt → Option (OSt × List Conflict)) :
    ∀ (xs : List α), (∀ x ∈ xs, Spec cx n Pre c (step x)) → Spec cx n Pre (xs.length * c) (stLoop step xs)
  | [], _ => fun st hP _ _ => ⟨(st, []), rfl, AdvS_refl hP, Nat.le_add_right _ _⟩
  | x :: rest, h => by
    intro st hP hpre hn
    rw [List.length_cons, Nat.add_mul, Nat.one_mul] at hn
    obtain ⟨⟨st1, c1⟩, h1, a1, k1, n1⟩ := (h x (List.mem_cons_self ..)).step hP hpre hn (Nat.le_add_left _ _)
    obtain ⟨⟨st2, c2⟩, h2, a2, k2⟩ := stLoop_spec hmono c step rest (fun y hy => h y (List.mem_cons_of_mem _ hy))
      st1 a1.1 (hmono _ _ a1 hpre) (n1 _ (by omega))
    refine ⟨(st2, c1 ++ c2), ?_, AdvS_trans a1 a2, ?_⟩
    · simp only [stLoop, h1, h2]
    · rw [List.length_cons, Nat.add_mul, Nat.one_mul]
      simp only at k1 k2 ⊢
      omega

/- ---------- the memo of (selection set, fragment) comparisons: `chain` ---------- -/

/-- a field map whose selection set is known to the context -/
structure GoodFM (cx : Cx) (A : FM) : Prop where
  map : GoodMap cx.U A.map
  first : A.first ∈ cx.ids
  size : mapSize A.map ≤ cx.N

theorem spreadDef_fragName {l : Links} {d : QueryDoc} {n : Name} {p : Pos} {f : FragmentDef}
    (h : l.spreadDef d n p = some f) : n ∈ fragNames d := by
  have hf := spreadDef_some h
  rw [← fragForName_name hf]
  exact List.mem_map.2 ⟨f, fragForName_mem hf, rfl⟩

theorem fragFields_size (cx : Cx) (f : FragmentDef) :
    mapSize (cx.env.fragFields f).1.map + (cx.env.fragFields f).2.length = countNodes f.sel := by
  unfold Env.fragFields
  exact getFields_size _ _ _ _

/-- the arithmetic of an expansion: comparing the two field maps and entering each nested call -/
theorem expansion_le_W (cx : Cx) {mA mF sF : Nat} (hA : mA ≤ cx.N) (hF : mF + sF ≤ cx.N) :
    mA * mF + sF ≤ cx.W := by
  have h1 : mA * mF + sF ≤ (mA + 1) * (mF + sF) := by
    simp only [Nat.add_mul, Nat.mul_add, Nat.one_mul]
    omega
  have h2 : (mA + 1) * (mF + sF) ≤ (cx.N + 1) * (cx.N + 1) :=
    Nat.mul_le_mul (by omega) (by omega)
  unfold Cx.W
  omega

theorem chain_spec {cx : Cx} (hcx : CxOk cx) {n : Nat} {fc : FC} (hfc : FCOk cx n fc) (excl : Bool) {A : FM}
    (hA : GoodFM cx A) : ∀ (m : Nat) (sp : SpreadNode),
      Spec cx n (fun st => chainMu cx.env.d A.first excl st.seen + 1 ≤ m) 1 (chain cx.env fc excl A m sp)
  | 0, _ => by intro _ _ h _; omega
  | m + 1, sp => by
    intro st hP hpre hn
    unfold chain
    simp only
    split
    · exact ⟨(st.tick, []), rfl, AdvS_tick hP, by rw [cost_tick]; exact Nat.le_refl _⟩
    · rename_i hc
      have hc' : st.tick.seen.contains (A.first, sp.name, excl) = false := by simpa using hc
      -- the state with the key added
      have a1 : AdvS st { st.tick with seen := (A.first, sp.name, excl) :: st.tick.seen } :=
        ⟨hP, PLe_refl _, fun _ hx => List.mem_cons_of_mem _ hx⟩
      have k1 : cx.cost { st.tick with seen := (A.first, sp.name, excl) :: st.tick.seen } ≤ cx.cost st + 1 := by
        have := Wphi_mono cx a1
        simp only [Cx.cost, OSt.tick] at this ⊢
        omega
      cases hs : cx.env.l.spreadDef cx.env.d sp.name sp.pos with
      | none => exact ⟨(_, []), rfl, a1, k1⟩
      | some f =>
        simp only
        split
        · exact ⟨(_, []), rfl, a1, k1⟩
        · have hmem := fragForName_mem (spreadDef_some hs)
          have hname := spreadDef_fragName hs
          -- adding the key lowers the potential and the measure of this recursion
          have hkey : (A.first, sp.name, excl) ∈ keyTriples cx.ids (fragNames cx.env.d) :=
            mem_keyTriples excl hA.first hname
          have hphi : cx.phi { st.tick with seen := (A.first, sp.name, excl) :: st.tick.seen } + 1 ≤ cx.phi st := by
            have := unSeen_cons_lt cx.ids cx.env.d hkey hc' (fun _ hx => hx)
            simp only [Cx.phi, OSt.tick] at this ⊢
            omega
          have hW := Wphi_drop cx hphi
          have hmu : ∀ st' : OSt, AdvS { st.tick with seen := (A.first, sp.name, excl) :: st.tick.seen } st' →
              chainMu cx.env.d A.first excl st'.seen + 1 ≤ m := by
            intro st' hadv
            have := chainMu_cons_lt cx.env.d A.first excl hname hc' hadv.2.2
            simp only [OSt.tick] at this hpre
            omega
          -- sizes
          have hsz := fragFields_size cx f
          have hfn := hcx.fragNodes f hmem
          have hexp : mapSize A.map * mapSize (cx.env.fragFields f).1.map + (cx.env.fragFields f).2.length ≤ cx.W :=
            expansion_le_W cx hA.size (by omega)
          -- (D)
          have hn1 : (mapSize A.map * mapSize (cx.env.fragFields f).1.map + (cx.env.fragFields f).2.length) +
              cx.W * cx.phi { st.tick with seen := (A.first, sp.name, excl) :: st.tick.seen } < n := by omega
          obtain ⟨⟨st2, c1⟩, h1, a2, k2, n2⟩ := (between_spec hfc excl (goodMap_frag cx.env hcx.frags hmem) A.map hA.map).step
            a1.1 trivial hn1 (Nat.le_add_right _ _)
          -- (E)
          have hflen : ((cx.env.fragFields f).2.filter fun x => x.name != sp.name).length ≤ (cx.env.fragFields f).2.length :=
            List.length_filter_le _ _
          have hmono : PreMono (fun st => chainMu cx.env.d A.first excl st.seen + 1 ≤ m) := by
            intro s1 s2 hadv hp
            have := chainMu_mono cx.env.d A.first excl hadv.2.2
            omega
          obtain ⟨⟨st3, c2⟩, h2, a3, k3⟩ := stLoop_spec hmono 1 (chain cx.env fc excl A m)
            ((cx.env.fragFields f).2.filter fun x => x.name != sp.name)
            (fun x _ => chain_spec hcx hfc excl hA m x) st2 a2.1 (hmu st2 a2)
            (n2 _ (by omega))
          refine ⟨(st3, c1 ++ c2), ?_, AdvS_trans a1 (AdvS_trans a2 a3), ?_⟩
          · simp only [h1, h2]
          · simp only at k2 k3 ⊢
            simp only [Cx.cost, OSt.tick] at k1 k2 k3 hW hphi ⊢
            omega

/- ---------- the memo of fragment pairs: `check` ---------- -/

theorem check_expansion_le_W (cx : Cx) {mA sA mB sB : Nat} (hA : mA + sA ≤ cx.N) (hB : mB + sB ≤ cx.N) :
    mA * mB + sB + sA ≤ cx.W := by
  have h1 : mA * mB + sB + sA ≤ (mA + sA + 1) * (mB + sB + 1) := by
    simp only [Nat.add_mul, Nat.mul_add, Nat.one_mul, Nat.mul_one]
    omega
  have h2 : (mA + sA + 1) * (mB + sB + 1) ≤ (cx.N + 1) * (cx.N + 1) :=
    Nat.mul_le_mul (by omega) (by omega)
  unfold Cx.W
  omega

theorem check_spec {cx : Cx} (hcx : CxOk cx) {n : Nat} {fc : FC} (hfc : FCOk cx n fc) (excl : Bool) :
    ∀ (m : Nat) (a b : SpreadNode),
      Spec cx n (fun st => unHas cx.env.d st.pairs + 1 ≤ m) 1 (check cx.env fc excl m a b)
  | 0, _, _ => by intro _ _ h _; omega
  | m + 1, a, b => by
    intro st hP hpre hn
    unfold check
    simp only
    split
    · exact ⟨(st.tick, []), rfl, AdvS_tick hP, by rw [cost_tick]; exact Nat.le_refl _⟩
    · split
      · exact ⟨(st.tick, []), rfl, AdvS_tick hP, by rw [cost_tick]; exact Nat.le_refl _⟩
      · rename_i hne hhas
        have hhas' : st.pairs.has a.name b.name excl = false := by simpa [OSt.tick] using hhas
        have ap : Adv st.pairs (st.pairs.add a.name b.name excl) := Adv_add hP _ _ _ hhas'
        have a1 : AdvS st { st.tick with pairs := st.tick.pairs.add a.name b.name excl } :=
          ⟨ap.1, ap.2, fun _ hx => hx⟩
        have k1 : cx.cost { st.tick with pairs := st.tick.pairs.add a.name b.name excl } ≤ cx.cost st + 1 := by
          have := Wphi_mono cx a1
          simp only [Cx.cost, OSt.tick] at this ⊢
          omega
        split
        · rename_i fa fb hsa hsb
          have hma := fragForName_mem (spreadDef_some hsa)
          have hmb := fragForName_mem (spreadDef_some hsb)
          have hdrop : ∀ st' : OSt, AdvS { st.tick with pairs := st.tick.pairs.add a.name b.name excl } st' →
              unHas cx.env.d st'.pairs + 1 ≤ unHas cx.env.d st.pairs :=
            fun st' hadv => unHas_add_lt cx.env.d hP excl (spreadDef_fragName hsa) (spreadDef_fragName hsb) hhas' hadv.2.1
          have hphi : cx.phi { st.tick with pairs := st.tick.pairs.add a.name b.name excl } + 1 ≤ cx.phi st := by
            have := hdrop _ (AdvS_refl ap.1)
            simp only [Cx.phi, OSt.tick] at this ⊢
            omega
          have hW := Wphi_drop cx hphi
          have hszA := fragFields_size cx fa
          have hszB := fragFields_size cx fb
          have hexp : mapSize (cx.env.fragFields fa).1.map * mapSize (cx.env.fragFields fb).1.map +
              (cx.env.fragFields fb).2.length + (cx.env.fragFields fa).2.length ≤ cx.W :=
            check_expansion_le_W cx (by have := hcx.fragNodes fa hma; omega) (by have := hcx.fragNodes fb hmb; omega)
          have hn1 : (mapSize (cx.env.fragFields fa).1.map * mapSize (cx.env.fragFields fb).1.map +
              (cx.env.fragFields fb).2.length + (cx.env.fragFields fa).2.length) +
              cx.W * cx.phi { st.tick with pairs := st.tick.pairs.add a.name b.name excl } < n := by omega
          have hmono : PreMono (fun st => unHas cx.env.d st.pairs + 1 ≤ m) := by
            intro s1 s2 hadv hp
            have := unHas_mono cx.env.d hadv.2.1
            omega
          -- (F)
          obtain ⟨⟨st2, c1⟩, h1, a2, k2, n2⟩ := (between_spec hfc excl (goodMap_frag cx.env hcx.frags hmb) _
            (goodMap_frag cx.env hcx.frags hma)).step a1.1 trivial hn1 (by omega)
          -- (G)
          obtain ⟨⟨st3, c2⟩, h2, a3, k3, n3⟩ := (stLoop_spec hmono 1 (fun x => check cx.env fc excl m a x)
            (cx.env.fragFields fb).2 (fun x _ => check_spec hcx hfc excl m a x)).step (b := (cx.env.fragFields fb).2.length + (cx.env.fragFields fa).2.length) a2.1
            (by have := hdrop st2 a2; show unHas cx.env.d st2.pairs + 1 ≤ m; omega) (n2 _ (by omega)) (by omega)
          obtain ⟨⟨st4, c3⟩, h3, a4, k4⟩ := stLoop_spec hmono 1 (fun x => check cx.env fc excl m x b)
            (cx.env.fragFields fa).2 (fun x _ => check_spec hcx hfc excl m x b) st3 a3.1
            (by have := hdrop st3 (AdvS_trans a2 a3); show unHas cx.env.d st3.pairs + 1 ≤ m; omega) (n3 _ (by omega))
          refine ⟨(st4, c1 ++ c2 ++ c3), ?_, AdvS_trans a1 (AdvS_trans a2 (AdvS_trans a3 a4)), ?_⟩
          · simp only [h1, h2, h3]
          · simp only at k2 k3 k4 ⊢
            simp only [Cx.cost, OSt.tick] at k1 k2 k3 k4 hW hphi ⊢
            omega
        · exact ⟨(_, []), rfl, a1, k1⟩

/- ---------- one `findConflict` level ---------- -/

theorem fieldsAndFragment_spec {cx : Cx} (hcx : CxOk cx) {n : Nat} {fc : FC} (hfc : FCOk cx n fc) (excl : Bool) {A : FM}
    (hA : GoodFM cx A) (sp : SpreadNode) : Spec cx n (fun _ => True) 1 (fieldsAndFragment cx.env fc excl A sp) := by
  intro st hP _ hn
  exact chain_spec hcx hfc excl hA cx.env.chainFuel sp st hP
    (by have := chainMu_le cx.env.d A.first excl st.seen; have := hcx.chainFuel; omega) hn

theorem betweenFragments_spec {cx : Cx} (hcx : CxOk cx) {n : Nat} {fc : FC} (hfc : FCOk cx n fc) (excl : Bool)
    (a b : SpreadNode) : Spec cx n (fun _ => True) 1 (collectConflictsBetweenFragments cx.env fc excl a b) := by
  intro st hP _ hn
  exact check_spec hcx hfc excl cx.env.checkFuel a b st hP
    (by have := unHas_le_max cx.env.d st.pairs; have := hcx.checkFuel; omega) hn

/-- the field map of the sub-selection of a reachable field -/
theorem goodFM_sub {cx : Cx} (hcx : CxOk cx) (parent : Option Definition) {a : FInfo} (ha : Good cx.U a) :
    GoodFM cx (getFieldsAndFragmentNames cx.env.s cx.env.l parent a.node.sel).1 := by
  refine ⟨goodMap_sub hcx.closed _ _ _ ha, hcx.ids _ _ ha, ?_⟩
  have h1 := getFields_size cx.env.s cx.env.l parent a.node.sel
  have h2 := hcx.nodes _ _ ha
  omega

/-- local budget of `findConflictsBetweenSubSelectionSets` -/
def subBudget (mA sA mB sB : Nat) : Nat := mA * mB + sB + sA + sA * sB

theorem subBudget_lt (mA sA mB sB : Nat) : subBudget mA sA mB sB + 1 ≤ (mA + sA + 1) * (mB + sB + 1) := by
  unfold subBudget
  simp only [Nat.add_mul, Nat.mul_add, Nat.one_mul, Nat.mul_one]
  omega

theorem subSets_spec {cx : Cx} (hcx : CxOk cx) {n : Nat} {fc : FC} (hfc : FCOk cx n fc) (excl : Bool) {a b : FInfo}
    (ha : Good cx.U a) (hb : Good cx.U b) :
    Spec cx n (fun _ => True)
      (subBudget (mapSize (getFieldsAndFragmentNames cx.env.s cx.env.l (a.next cx.env.s) a.node.sel).1.map)
        (getFieldsAndFragmentNames cx.env.s cx.env.l (a.next cx.env.s) a.node.sel).2.length
        (mapSize (getFieldsAndFragmentNames cx.env.s cx.env.l (b.next cx.env.s) b.node.sel).1.map)
        (getFieldsAndFragmentNames cx.env.s cx.env.l (b.next cx.env.s) b.node.sel).2.length)
      (findConflictsBetweenSubSelectionSets cx.env fc excl a b) := by
  intro st hP _ hn
  unfold findConflictsBetweenSubSelectionSets
  simp only
  generalize hAdef : getFieldsAndFragmentNames cx.env.s cx.env.l (a.next cx.env.s) a.node.sel = A at hn ⊢
  generalize hBdef : getFieldsAndFragmentNames cx.env.s cx.env.l (b.next cx.env.s) b.node.sel = B at hn ⊢
  have gA : GoodFM cx A.1 := hAdef ▸ goodFM_sub hcx (a.next cx.env.s) ha
  have gB : GoodFM cx B.1 := hBdef ▸ goodFM_sub hcx (b.next cx.env.s) hb
  unfold subBudget at hn
  -- (H)
  obtain ⟨⟨st1, c1⟩, h1, a1, k1, n1⟩ := (between_spec hfc excl gB.map A.1.map gA.map).step hP trivial hn (by omega)
  -- (I)
  obtain ⟨⟨st2, c2⟩, h2, a2, k2, n2⟩ := (stLoop_spec preMono_true 1 (fieldsAndFragment cx.env fc excl A.1) B.2
    (fun sp _ => fieldsAndFragment_spec hcx hfc excl gA sp)).step (b := B.2.length + A.2.length + A.2.length * B.2.length)
    a1.1 trivial (n1 _ (by omega)) (by omega)
  obtain ⟨⟨st3, c3⟩, h3, a3, k3, n3⟩ := (stLoop_spec preMono_true 1 (fieldsAndFragment cx.env fc excl B.1) A.2
    (fun sp _ => fieldsAndFragment_spec hcx hfc excl gB sp)).step (b := A.2.length + A.2.length * B.2.length)
    a2.1 trivial (n2 _ (by omega)) (by omega)
  -- (J)
  obtain ⟨⟨st4, c4⟩, h4, a4, k4⟩ := stLoop_spec preMono_true (B.2.length * 1)
    (fun sa => stLoop (collectConflictsBetweenFragments cx.env fc excl sa) B.2) A.2
    (fun sa _ => stLoop_spec preMono_true 1 _ B.2 (fun sb _ => betweenFragments_spec hcx hfc excl sa sb))
    st3 a3.1 trivial (n3 _ (by simp only [Nat.mul_one]; omega))
  refine ⟨(st4, c1 ++ c2 ++ c3 ++ c4), ?_, AdvS_trans a1 (AdvS_trans a2 (AdvS_trans a3 a4)), ?_⟩
  · simp only [h1, h2, h3, h4]
  · unfold subBudget
    simp only [Nat.mul_one] at k1 k2 k3 k4 ⊢
    omega

/-- `findConflict` stays within `nodeSize a · nodeSize b` if its call of
    `findConflictsBetweenSubSelectionSets` stays within a budget that leaves room for the call itself -/
theorem findConflictBody_spec {cx : Cx} {n : Nat} (s : SV)
    (sub : Bool → FInfo → FInfo → OSt → Option (OSt × List Conflict)) (excl0 : Bool) (a b : FInfo) (bsub : Nat)
    (hsub : ∀ excl, Spec cx n (fun _ => True) bsub (sub excl a b))
    (hb : bsub + 1 ≤ nodeSize a * nodeSize b) :
    Spec cx (n + 1) (fun _ => True) (nodeSize a * nodeSize b) (findConflictBody s sub excl0 a b) := by
  intro st hP _ hn
  have at' : AdvS st st.tick := AdvS_tick hP
  have kt : cx.cost st.tick ≤ cx.cost st + nodeSize a * nodeSize b := by rw [cost_tick]; omega
  unfold findConflictBody
  simp only
  split
  · split
    · exact ⟨_, rfl, at', kt⟩
    · split
      · exact ⟨_, rfl, at', kt⟩
      · split
        · exact ⟨_, rfl, at', kt⟩
        · obtain ⟨⟨st1, cs⟩, h1, a1, k1⟩ := hsub _ st.tick hP trivial (by rw [phi_tick]; omega)
          rw [h1]
          have k1' : cx.cost st1 ≤ cx.cost st + nodeSize a * nodeSize b := by
            rw [cost_tick] at k1
            simp only at k1
            omega
          cases cs with
          | nil => exact ⟨_, rfl, AdvS_trans at' a1, k1'⟩
          | cons c cs => exact ⟨_, rfl, AdvS_trans at' a1, k1'⟩
  · exact ⟨_, rfl, at', kt⟩

theorem nodeSize_split (s : SV) (l : Links) (parent : Option Definition) (a : FInfo) :
    nodeSize a = mapSize (getFieldsAndFragmentNames s l parent a.node.sel).1.map +
      (getFieldsAndFragmentNames s l parent a.node.sel).2.length + 1 := by
  unfold nodeSize
  rw [getFields_size]

/-- `n` levels answer every call whose local budget plus `W · phi` is below `n` -/
theorem fcLevel_spec {cx : Cx} (hcx : CxOk cx) : ∀ n, FCOk cx n (fcLevel cx.env n)
  | 0 => by intro _ _ _ _ _ _ _ _ h; omega
  | n + 1 => by
    intro excl a b ha hb
    simp only [fcLevel]
    refine findConflictBody_spec cx.env.s _ excl a b _ (fun excl' => subSets_spec hcx (fcLevel_spec hcx n) excl' ha hb) ?_
    rw [nodeSize_split cx.env.s cx.env.l (a.next cx.env.s) a, nodeSize_split cx.env.s cx.env.l (b.next cx.env.s) b]
    exact subBudget_lt _ _ _ _

/- ---------- the top-level call ---------- -/

theorem withinLoop_spec {cx : Cx} (hcx : CxOk cx) {n : Nat} {fc : FC} (hfc : FCOk cx n fc) {A : FM} (hA : GoodFM cx A) :
    ∀ (sps : List SpreadNode), Spec cx n (fun _ => True) (sps.length + sps.length * sps.length) (withinLoop cx.env fc A sps)
  | [] => fun st hP _ _ => ⟨(st, []), rfl, AdvS_refl hP, Nat.le_add_right _ _⟩
  | sa :: rest => by
    intro st hP _ hn
    have hsplit : 1 + rest.length * 1 + (rest.length + rest.length * rest.length) ≤
        (sa :: rest).length + (sa :: rest).length * (sa :: rest).length := by
      simp only [List.length_cons, Nat.add_mul, Nat.mul_add, Nat.one_mul, Nat.mul_one]
      omega
    obtain ⟨⟨st1, c1⟩, h1, a1, k1, n1⟩ := (fieldsAndFragment_spec hcx hfc false hA sa).step hP trivial hn (by omega)
    obtain ⟨⟨st2, c2⟩, h2, a2, k2, n2⟩ := (stLoop_spec preMono_true 1 (collectConflictsBetweenFragments cx.env fc false sa) rest
      (fun sb _ => betweenFragments_spec hcx hfc false sa sb)).step (b := rest.length * 1 + (rest.length + rest.length * rest.length))
      a1.1 trivial (n1 _ (by omega)) (by omega)
    obtain ⟨⟨st3, c3⟩, h3, a3, k3⟩ := withinLoop_spec hcx hfc hA rest st2 a2.1 trivial (n2 _ (by omega))
    refine ⟨(st3, c1 ++ c2 ++ c3), ?_, AdvS_trans a1 (AdvS_trans a2 a3), ?_⟩
    · simp only [withinLoop, h1, h2, h3]
    · simp only at k1 k2 k3 ⊢
      omega

theorem top_budget_le_W (cx : Cx) {m s : Nat} (h : m + s ≤ cx.N) : m * m + (s + s * s) ≤ cx.W := by
  have h1 : m * m + (s + s * s) ≤ (m + s + 1) * (m + s + 1) := by
    simp only [Nat.add_mul, Nat.mul_add, Nat.one_mul, Nat.mul_one]
    omega
  have h2 : (m + s + 1) * (m + s + 1) ≤ (cx.N + 1) * (cx.N + 1) := Nat.mul_le_mul (by omega) (by omega)
  unfold Cx.W
  omega

/-- the top-level comparison starts with an empty memo of (selection set, fragment) comparisons -/
theorem findConflictsWithinSelectionSet_spec {cx : Cx} (hcx : CxOk cx) {n : Nat} {fc : FC} (hfc : FCOk cx n fc)
    (parent : Option Definition) (sels : Selections) (hsels : ∀ x ∈ allFields sels, x ∈ cx.U)
    (hid : selId sels ∈ cx.ids) (hN : countNodes sels ≤ cx.N) (st : OSt) (hP : PSym st.pairs)
    (hn : cx.W + cx.W * cx.phi { st with seen := [] } < n) :
    ∃ r, findConflictsWithinSelectionSet cx.env fc parent sels st = some r ∧ PSym r.1.pairs ∧ PLe st.pairs r.1.pairs ∧
      r.1.steps + cx.W * cx.phi r.1 ≤ st.steps + cx.W * cx.phi { st with seen := [] } + cx.W := by
  unfold findConflictsWithinSelectionSet
  split
  · refine ⟨(st, []), rfl, hP, PLe_refl _, ?_⟩
    have : cx.phi st ≤ cx.phi { st with seen := [] } := by
      unfold Cx.phi
      have := unSeen_mono cx.ids cx.env.d (seen := []) (seen' := st.seen) (fun _ h => by cases h)
      simp only
      omega
    have := Nat.mul_le_mul_left cx.W this
    simp only
    omega
  · simp only
    have hsz := getFields_size cx.env.s cx.env.l parent sels
    generalize hAdef : getFieldsAndFragmentNames cx.env.s cx.env.l parent sels = A at hsz ⊢
    have gA : GoodFM cx A.1 := by
      subst hAdef
      exact ⟨goodMap_collect _ _ _ sels hsels, hid, by omega⟩
    have hW := top_budget_le_W cx (m := mapSize A.1.map) (s := A.2.length) (by omega)
    have hP0 : PSym ({ st with seen := [] } : OSt).pairs := hP
    obtain ⟨⟨st1, c1⟩, h1, a1, k1, n1⟩ := (within_spec hfc A.1.map gA.map).step (b := cx.W) hP0 trivial hn (by omega)
    obtain ⟨⟨st2, c2⟩, h2, a2, k2⟩ := withinLoop_spec hcx hfc gA A.2 st1 a1.1 trivial (n1 _ (by omega))
    have a12 := AdvS_trans a1 a2
    refine ⟨(st2, c1 ++ c2), by simp only [h1, h2], a12.1, a12.2.1, ?_⟩
    simp only [Cx.cost] at k1 k2 ⊢
    omega

/- ---------- one observer call ---------- -/

/-- the context of `overlapRun s d l parent sels` -/
def overlapCx (s : SV) (d : QueryDoc) (l : Links) (sels : Selections) : Cx :=
  { env := overlapEnv s d l, U := univOf d sels,
    ids := selId sels :: (univOf d sels).map (fun x => selId x.2), N := reachableNodeCount d sels }

theorem overlapCx_ok (s : SV) (d : QueryDoc) (l : Links) (sels : Selections) : CxOk (overlapCx s d l sels) where
  closed := univOf_closed d sels
  frags := univOf_frags d sels
  nodes := fun _ _ h => univOf_nodes d sels h
  ids := fun k sub h => List.mem_cons_of_mem _ (List.mem_map.2 ⟨(k, sub), h, rfl⟩)
  fragNodes := fun f hf => by
    have := frag_nodes_le d hf
    simp only [overlapCx, reachableNodeCount]
    omega
  chainFuel := by simp only [overlapCx, overlapEnv, overlapChainFuel]; omega
  checkFuel := by simp only [overlapCx, overlapEnv, overlapCheckFuel]; omega

theorem overlapCx_W (s : SV) (d : QueryDoc) (l : Links) (sels : Selections) :
    (overlapCx s d l sels).W = expansionCost d sels := rfl

theorem overlapCx_phi_le (s : SV) (d : QueryDoc) (l : Links) (sels : Selections) (st : OSt) :
    (overlapCx s d l sels).phi st ≤ memoKeyCount d sels := by
  unfold Cx.phi memoKeyCount
  have h1 := unHas_le_max d st.pairs
  have h2 := unSeen_le (overlapCx s d l sels).ids d st.seen
  have h3 : (overlapCx s d l sels).ids.length = reachableFieldCount d sels + 1 := by
    simp only [overlapCx, List.length_cons, List.length_map, length_univOf]
  rw [h3] at h2
  simp only [overlapCx, overlapEnv] at h1 h2 ⊢
  omega

/-- One observer call from a state whose fragment-pair memo is symmetric: it returns (the fuel is
    not exhausted), the fragment-pair memo has only advanced and is symmetric again, and it took at
    most `overlapStepBound d sels` comparison steps — whatever the memos contained before. -/
theorem overlapRun_ok (s : SV) (d : QueryDoc) (l : Links) (parent : Option Definition) (sels : Selections)
    (st : OSt) (hP : PSym st.pairs) :
    ∃ r, overlapRun s d l parent sels st = some r ∧ PSym r.1.pairs ∧ PLe st.pairs r.1.pairs ∧
      r.1.steps ≤ st.steps + overlapStepBound d sels := by
  have hcx := overlapCx_ok s d l sels
  have hphi := overlapCx_phi_le s d l sels { st with seen := [] }
  have hmul : expansionCost d sels * (overlapCx s d l sels).phi { st with seen := [] } ≤
      expansionCost d sels * memoKeyCount d sels := Nat.mul_le_mul_left _ hphi
  have hbound : overlapStepBound d sels = expansionCost d sels * memoKeyCount d sels + expansionCost d sels := by
    unfold overlapStepBound
    rw [Nat.mul_add, Nat.mul_one]
  obtain ⟨r, hr, hp, hle, hc⟩ := findConflictsWithinSelectionSet_spec (cx := overlapCx s d l sels) hcx
    (fcLevel_spec hcx (overlapFuel d sels)) parent sels
    (fun x hx => by simp only [overlapCx, univOf, List.mem_append]; exact Or.inl hx)
    (List.mem_cons_self ..) (by simp only [overlapCx, reachableNodeCount]; omega)
    st hP (by rw [overlapCx_W]; unfold overlapFuel; omega)
  refine ⟨r, hr, hp, hle, ?_⟩
  rw [overlapCx_W] at hc
  omega

end Gql.Validate
