import GqlProofs.Validate.OverlapProps
/-
  OverlappingFieldsCanBeMerged: the memo-free judgments are symmetric on documents in which
  `sameArguments` is (argument names and input-object field names are unique): the fragment-pair
  memo of the rule records a pair in both orders, so the rule relies on this.
-/
namespace Gql.Validate
open Gql Gql.Validate.Rules

/-- `sameArguments` does not depend on the order of the two fields, for the fields of the document -/
def ArgsSym (s : Schema) (d : QueryDoc) : Prop :=
  ∀ t ∈ Spec.docSels s d, ∀ t' ∈ Spec.docSels s d,
    ∀ al nm args dirs sub pos al' nm' args' dirs' sub' pos',
      t.sel = .field al nm args dirs sub pos → t'.sel = .field al' nm' args' dirs' sub' pos' →
      sameArguments args args' = sameArguments args' args

theorem goExcl_comm (a b : FInfo) : goExcl a b = goExcl b a := by
  unfold goExcl
  cases ha : a.obj with
  | none => cases hb : b.obj <;> rfl
  | some oa =>
    cases hb : b.obj with
    | none => rfl
    | some ob =>
      simp only
      have : (oa.name != ob.name) = (ob.name != oa.name) := by
        simp only [bne]
        congr 1
        exact Bool.eq_iff_iff.2 ⟨fun h => by simpa using (by simpa using h : oa.name = ob.name).symm,
          fun h => by simpa using (by simpa using h : ob.name = oa.name).symm⟩
      rw [this]
      generalize (ob.name != oa.name) = x
      generalize (oa.kind == DefKind.object) = y
      generalize (ob.kind == DefKind.object) = z
      generalize a.dfn.isSome = u
      generalize b.dfn.isSome = v
      cases x <;> cases y <;> cases z <;> cases u <;> cases v <;> rfl

theorem doTypesConflict_comm (s : SV) : ∀ (t1 t2 : GType), doTypesConflict s t1 t2 = doTypesConflict s t2 t1
  | .list e1 nn1 _, .list e2 nn2 _ => by
    unfold doTypesConflict
    rw [doTypesConflict_comm s e1 e2]
    cases nn1 <;> cases nn2 <;> rfl
  | .list _ _ _, .named _ _ _ => by simp [doTypesConflict]
  | .named _ _ _, .list _ _ _ => by simp [doTypesConflict]
  | .named n1 nn1 _, .named n2 nn2 _ => by
    unfold doTypesConflict
    have hb : (nn1 != nn2) = (nn2 != nn1) := by cases nn1 <;> cases nn2 <;> rfl
    rw [hb]
    split
    · rfl
    · cases h1 : s.type? n1 with
      | none => cases h2 : s.type? n2 <;> rfl
      | some t1 =>
        cases h2 : s.type? n2 with
        | none => rfl
        | some t2 =>
          simp only
          rw [Bool.or_comm, bne_comm]

def Jg.swap : Jg → Jg
  | .conf pe a b => .conf pe b a
  | .sub ex a b => .sub ex b a
  | .chain ex p sels sp => .chain ex p sels sp
  | .check ex a b => .check ex b a

def SwapPre (s : Schema) (d : QueryDoc) : Jg → Prop
  | .conf _ a b => DocF s d (fullLinks d) a ∧ DocF s d (fullLinks d) b
  | .sub _ a b => DocF s d (fullLinks d) a ∧ DocF s d (fullLinks d) b
  | .chain .. => True
  | .check .. => True

theorem fragFieldList_docF {s : Schema} {d : QueryDoc} {sp : SpreadNode} {F : FragmentDef} {f : FInfo}
    (hF : (envOf s d (fullLinks d)).l.spreadDef (envOf s d (fullLinks d)).d sp.name sp.pos = some F)
    (hf : f ∈ fragFieldList (envOf s d (fullLinks d)) F) : DocF s d (fullLinks d) f :=
  DocF.ofSet (t := ⟨s.type? F.typeCond, F.sel⟩) (docSets_frag (fragForName_mem (spreadDef_some hF))) hf

theorem holds_swap {s : Schema} {d : QueryDoc} (H : OvHyps s d) (hsym : ArgsSym s d) {j : Jg}
    (h : Holds (envOf s d (fullLinks d)) j) : SwapPre s d j → Holds (envOf s d (fullLinks d)) j.swap := by
  induction h with
  | @names pe a b oa ob hoa hob hex hne =>
    intro _
    exact .names hob hoa (by rw [goExcl_comm]; exact hex) (fun e => hne e.symm)
  | @args pe a b oa ob hoa hob hex ha =>
    intro hp
    refine .args hob hoa (by rw [goExcl_comm]; exact hex) ?_
    rw [← hsym _ hp.1.inDoc _ hp.2.inDoc _ _ _ _ _ _ _ _ _ _ _ _ rfl rfl]
    exact ha
  | types hoa hob hda hdb hc =>
    intro _
    refine .types hob hoa hdb hda ?_
    rw [doTypesConflict_comm]
    exact hc
  | @sub pe a b oa ob hoa hob _ ih =>
    intro hp
    refine .sub hob hoa ?_
    rw [goExcl_comm b a]
    exact ih hp
  | subFields ha' hb' hrn _ ih =>
    intro hp
    exact .subFields hb' ha' hrn.symm (ih ⟨hp.1.sub H ha', hp.2.sub H hb'⟩)
  | subChainB hsp hc _ => exact fun _ => .subChainA hsp hc
  | subChainA hsp hc _ => exact fun _ => .subChainB hsp hc
  | subCheck hsa hsb _ ih => exact fun _ => .subCheck hsb hsa (ih trivial)
  | chainHere hF hid ha hg hrn hc _ => exact fun _ => .chainHere hF hid ha hg hrn hc
  | chainNext hF hid hsp hne hc _ => exact fun _ => .chainNext hF hid hsp hne hc
  | checkHere hne hA hB hfa hfb hrn _ ih =>
    intro _
    exact .checkHere (fun e => hne e.symm) hB hA hfb hfa hrn.symm (ih ⟨fragFieldList_docF hA hfa, fragFieldList_docF hB hfb⟩)
  | checkRight hne hA hB hx _ ih => exact fun _ => .checkLeft (fun e => hne e.symm) hB hA hx (ih trivial)
  | checkLeft hne hA hB hx _ ih => exact fun _ => .checkRight (fun e => hne e.symm) hB hA hx (ih trivial)

end Gql.Validate
