import GqlProofs.Validate.OverlapMerged
import GqlProofs.Validate.OverlapFlatMain
import GqlProofs.Validate.OverlapProps
/-
  The nesting depth of merged sets in a document without fragment cycles: `phi sels` (the field
  nesting depth of the selection set plus that of every fragment definition reachable from it)
  strictly decreases from a selection set to the sub-selection of any field reachable from it, and
  is below `Spec.mergeFuel` for every selection set of the document.
-/
namespace Gql.Validate
open Gql Gql.Validate.Rules

/-- weighted count of the fragment definitions reachable from the names -/
def wsum (d : QueryDoc) (names : List Name) : Nat :=
  (d.frags.map fun f => if (Spec.reachFrom d names).contains f.name then sdepth f.sel else 0).sum

def phi (d : QueryDoc) (sels : Selections) : Nat := sdepth sels + wsum d (Spec.spreadsOfSels sels)

theorem wlist_le {α : Type} (w : α → Nat) {p q : α → Bool} : ∀ (l : List α), (∀ x ∈ l, p x = true → q x = true) →
    (l.map fun x => if p x then w x else 0).sum ≤ (l.map fun x => if q x then w x else 0).sum
  | [], _ => Nat.le_refl _
  | x :: xs, h => by
    have ih := wlist_le w xs (fun y hy => h y (List.mem_cons_of_mem _ hy))
    simp only [List.map_cons, List.sum_cons]
    have hx := h x (List.mem_cons_self ..)
    cases hp : p x with
    | false => simp only [Bool.false_eq_true, if_false]; omega
    | true => simp only [hx hp, if_true]; omega

theorem wlist_lt {α : Type} (w : α → Nat) {p q : α → Bool} : ∀ (l : List α), (∀ x ∈ l, p x = true → q x = true) →
    ∀ y ∈ l, q y = true → p y = false →
    (l.map fun x => if p x then w x else 0).sum + w y ≤ (l.map fun x => if q x then w x else 0).sum
  | [], _, _, hy, _, _ => by cases hy
  | x :: xs, h, y, hy, hq, hp => by
    simp only [List.map_cons, List.sum_cons]
    rcases List.mem_cons.1 hy with rfl | hy
    · have := wlist_le w xs (fun z hz => h z (List.mem_cons_of_mem _ hz))
      simp only [hp, hq, Bool.false_eq_true, if_false, if_true]
      omega
    · have ih := wlist_lt w xs (fun z hz => h z (List.mem_cons_of_mem _ hz)) y hy hq hp
      have hx := h x (List.mem_cons_self ..)
      cases hpx : p x with
      | false => simp only [Bool.false_eq_true, if_false]; omega
      | true => simp only [hx hpx, if_true]; omega

theorem wlist_le_all {α : Type} (w : α → Nat) (p : α → Bool) : ∀ (l : List α),
    (l.map fun x => if p x then w x else 0).sum ≤ (l.map w).sum
  | [] => Nat.le_refl _
  | x :: xs => by
    have ih := wlist_le_all w p xs
    simp only [List.map_cons, List.sum_cons]
    split <;> omega

theorem wlist_lt_all {α : Type} (w : α → Nat) (p : α → Bool) : ∀ (l : List α), ∀ y ∈ l, p y = false →
    (l.map fun x => if p x then w x else 0).sum + w y ≤ (l.map w).sum
  | [], _, hy, _ => by cases hy
  | x :: xs, y, hy, hp => by
    simp only [List.map_cons, List.sum_cons]
    rcases List.mem_cons.1 hy with rfl | hy
    · have := wlist_le_all w p xs
      simp only [hp, Bool.false_eq_true, if_false]
      omega
    · have ih := wlist_lt_all w p xs y hy hp
      split <;> omega

theorem wsum_mono {d : QueryDoc} {a b : List Name} (h : ∀ x, Reach d a x → Reach d b x) : wsum d a ≤ wsum d b := by
  unfold wsum
  apply wlist_le
  intro f _ hf
  rw [reachFrom_contains_iff] at hf ⊢
  exact h _ hf

theorem wsum_strict {d : QueryDoc} (hac : Acyclic d) {names : List Name} {n : Name} {F : FragmentDef}
    (hr : Reach d names n) (hF : fragForName d n = some F) :
    wsum d (Spec.fragSpreads d n) + sdepth F.sel ≤ wsum d names := by
  unfold wsum
  refine wlist_lt (fun f => sdepth f.sel) d.frags ?_ F (fragForName_mem hF) ?_ ?_
  · intro g _ hg
    rw [reachFrom_contains_iff] at hg ⊢
    exact Reach.trans hr hg
  · rw [reachFrom_contains_iff, fragForName_name hF]
    exact hr
  · cases hc : (Spec.reachFrom d (Spec.fragSpreads d n)).contains F.name with
    | false => rfl
    | true =>
      rw [reachFrom_contains_iff, fragForName_name hF] at hc
      exact absurd hc (hac n)

/-- reachability through collected spreads is reachability -/
theorem sreach_reach {d : QueryDoc} {sels : Selections} {n : Name} (h : SReachL d (collectSpreads sels) n) :
    Reach d (Spec.spreadsOfSels sels) n := by
  induction h with
  | base hs => exact Reach.base (collectSpreads_names _ _ hs)
  | @step m F sp _ hF hsp ih =>
    refine Reach.step ih ?_
    rw [fragSpreads_of_forName hF]
    exact collectSpreads_names _ _ hsp

theorem phi_sub_own {sv : SV} {l : Links} {d : QueryDoc} {sels : Selections} {p : Option Definition} {x : FInfo}
    (hx : x ∈ collectFields sv l p sels) : phi d x.node.sel + 1 ≤ phi d sels := by
  unfold phi
  have h1 := collectFields_sdepth sv l sels p x hx
  have h2 : wsum d (Spec.spreadsOfSels x.node.sel) ≤ wsum d (Spec.spreadsOfSels sels) :=
    wsum_mono (fun _ hr => hr.mono (collectFields_spreads sv l sels p x hx))
  omega

theorem phi_sub_frag {sv : SV} {l : Links} {d : QueryDoc} (hac : Acyclic d) {sels : Selections} {n : Name}
    {F : FragmentDef} {x : FInfo} (hr : SReachL d (collectSpreads sels) n) (hF : fragForName d n = some F)
    (hx : x ∈ fragFieldsOf sv l F) : phi d x.node.sel + 1 ≤ phi d sels := by
  unfold phi
  have h1 := collectFields_sdepth sv l F.sel _ x hx
  have h2 : wsum d (Spec.spreadsOfSels x.node.sel) ≤ wsum d (Spec.fragSpreads d n) := by
    rw [fragSpreads_of_forName hF]
    exact wsum_mono (fun _ hr' => hr'.mono (collectFields_spreads sv l F.sel _ x hx))
  have h3 := wsum_strict hac (sreach_reach hr) hF
  omega

/-- a reachable field lies strictly below -/
theorem phi_sub {sv : SV} {l : Links} {d : QueryDoc} (hac : Acyclic d) {sels : Selections} {p : Option Definition}
    {x : FInfo} (h : RFld sv l d p sels x) : phi d x.node.sel + 1 ≤ phi d sels := by
  rcases h with h | ⟨n, F, hr, hF, hx⟩
  · exact phi_sub_own h
  · exact phi_sub_frag hac hr hF hx

theorem sum_map_le {α : Type} (f g : α → Nat) : ∀ (l : List α), (∀ x ∈ l, f x ≤ g x) → (l.map f).sum ≤ (l.map g).sum
  | [], _ => Nat.le_refl _
  | x :: xs, h => by
    simp only [List.map_cons, List.sum_cons]
    have := h x (List.mem_cons_self ..)
    have := sum_map_le f g xs (fun y hy => h y (List.mem_cons_of_mem _ hy))
    omega

theorem spreads_sub_of_inSels {sub X : Selections} (h : ∀ i, InSels sub i → InSels X i) :
    ∀ n ∈ Spec.spreadsOfSels sub, n ∈ Spec.spreadsOfSels X := by
  intro n hn
  obtain ⟨dirs, p, hi⟩ := (mem_spreadsOfSels_iff n sub).1 hn
  exact (mem_spreadsOfSels_iff n X).2 ⟨dirs, p, h _ hi⟩

/-- the bound inside an operation -/
theorem phi_le_op {d : QueryDoc} {op : OperationDef} (hop : op ∈ d.ops) {sels : Selections} (hd : sdepth sels ≤ sdepth op.sel) :
    phi d sels + 1 ≤ Spec.mergeFuel d := by
  unfold phi Spec.mergeFuel wsum
  have h1 := sdepth_le_nodes op.sel
  have h2 : Spec.selsNodes op.sel ≤ (d.ops.map fun op => Spec.selsNodes op.sel).sum :=
    le_sum_of_mem (List.mem_map.2 ⟨op, hop, rfl⟩)
  have h3 := wlist_le_all (fun f : FragmentDef => sdepth f.sel)
    (fun f => (Spec.reachFrom d (Spec.spreadsOfSels sels)).contains f.name) d.frags
  have h4 := sum_map_le (fun f : FragmentDef => sdepth f.sel) (fun f => Spec.selsNodes f.sel) d.frags
    (fun f _ => sdepth_le_nodes f.sel)
  omega

/-- the bound inside a fragment definition -/
theorem phi_le_frag {d : QueryDoc} (hac : Acyclic d) (hnd : (d.frags.map (·.name)).Nodup) {D : FragmentDef} (hD : D ∈ d.frags)
    {sels : Selections} (hd : sdepth sels ≤ sdepth D.sel)
    (hsp : ∀ n ∈ Spec.spreadsOfSels sels, n ∈ Spec.spreadsOfSels D.sel) : phi d sels + 1 ≤ Spec.mergeFuel d := by
  unfold phi Spec.mergeFuel wsum
  have hDf : fragForName d D.name = some D := fragForName_of_nodup hnd hD
  have hnot : (Spec.reachFrom d (Spec.spreadsOfSels sels)).contains D.name = false := by
    cases hc : (Spec.reachFrom d (Spec.spreadsOfSels sels)).contains D.name with
    | false => rfl
    | true =>
      rw [reachFrom_contains_iff] at hc
      have : Reach d (Spec.fragSpreads d D.name) D.name := by
        rw [fragSpreads_of_forName hDf]
        exact hc.mono hsp
      exact absurd this (hac D.name)
  have h3 := wlist_lt_all (fun f : FragmentDef => sdepth f.sel)
    (fun f => (Spec.reachFrom d (Spec.spreadsOfSels sels)).contains f.name) d.frags D hD hnot
  have h4 := sum_map_le (fun f : FragmentDef => sdepth f.sel) (fun f => Spec.selsNodes f.sel) d.frags
    (fun f _ => sdepth_le_nodes f.sel)
  omega

theorem inSels_field_sdepth {X sub : Selections} {al nm : Name} {args : List Argument} {dirs : List Directive} {pos : Pos}
    (h : InSels X (.sel (.field al nm args dirs sub pos))) : sdepth sub ≤ sdepth X := by
  have := inSels_sdepth _ _ h
  simp only [sdepthSel] at this
  omega

theorem inSels_inline_sdepth {X sub : Selections} {tc : Name} {dirs : List Directive} {pos : Pos}
    (h : InSels X (.sel (.inline tc dirs sub pos))) : sdepth sub ≤ sdepth X := by
  have := inSels_sdepth _ _ h
  simp only [sdepthSel] at this
  exact this

/-- every selection set of the document is shallower than `Spec.mergeFuel` -/
theorem phi_bound {s : Schema} {d : QueryDoc} (hac : Acyclic d) (hnd : (d.frags.map (·.name)).Nodup) {t : Spec.TSet}
    (ht : t ∈ Spec.docSets s d) : phi d t.sels + 1 ≤ Spec.mergeFuel d := by
  simp only [Spec.docSets, List.mem_append, List.mem_map, List.mem_filterMap] at ht
  rcases ht with (⟨op, hop, rfl⟩ | ⟨f, hf, rfl⟩) | ⟨x, hx, hsome⟩
  · exact phi_le_op hop (Nat.le_refl _)
  · exact phi_le_frag hac hnd hf (Nat.le_refl _) (fun _ h => h)
  · have hin := docSels_mem_inDocSel s d x hx
    obtain ⟨par, z⟩ := x
    cases z with
    | spread nm dirs pos => simp at hsome
    | inline tc dirs sub pos =>
      simp only [Option.some.injEq] at hsome
      subst hsome
      rcases hin with ⟨op, hop, hi⟩ | ⟨f, hf, hi⟩
      · exact phi_le_op hop (inSels_inline_sdepth hi)
      · exact phi_le_frag hac hnd hf (inSels_inline_sdepth hi)
          (spreads_sub_of_inSels (fun i hi' => inSels_trans _ _ _ hi (InSel.inlineSub _ _ _ _ _ hi')))
    | field al nm args dirs sub pos =>
      simp only [Option.some.injEq] at hsome
      subst hsome
      rcases hin with ⟨op, hop, hi⟩ | ⟨f, hf, hi⟩
      · exact phi_le_op hop (inSels_field_sdepth hi)
      · exact phi_le_frag hac hnd hf (inSels_field_sdepth hi)
          (spreads_sub_of_inSels (fun i hi' => inSels_trans _ _ _ hi (InSel.fieldSub _ _ _ _ _ _ _ hi')))

end Gql.Validate
