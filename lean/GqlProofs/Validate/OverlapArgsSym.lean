import GqlProofs.Validate.OverlapMain
import GqlProofs.ValSpec.Present
/-
  `sameArguments` on documents that satisfy UniqueArgumentNames (§5.4.2) and UniqueInputFieldNames
  (§5.6.3): it is reflexive and symmetric, so the hypotheses `ArgsRefl` / `ArgsSym` of the
  comparison with §5.3.2 follow from `Spec.argumentUniqueness` and
  `Spec.inputObjectFieldUniqueness`.
-/
namespace Gql.Validate
open Gql Gql.Validate.Rules

theorem childNames_eq_spec : ∀ c : Children, childNames c = Spec.childNames c
  | .nil => rfl
  | .cons _ _ _ rest => by simp [childNames, Spec.childNames, childNames_eq_spec rest]

mutual
  theorem uniqueFields_of_spec : ∀ v : Value, Spec.objectLiteralsUnique v = true → UniqueFields v
    | .mk k r c p, h => by
      unfold Spec.objectLiteralsUnique at h
      simp only [Bool.and_eq_true, Bool.or_eq_true] at h
      refine .mk (fun hk => ?_) (uniqueFieldsCh_of_spec c h.2)
      subst hk
      rcases h.1 with h1 | h1
      · simp at h1
      · rw [childNames_eq_spec]
        exact (distinct_iff_nodup _).1 h1
  theorem uniqueFieldsCh_of_spec : ∀ c : Children, Spec.childrenLiteralsUnique c = true → UniqueFieldsCh c
    | .nil, _ => .nil
    | .cons n v p rest, h => by
      unfold Spec.childrenLiteralsUnique at h
      simp only [Bool.and_eq_true] at h
      exact .cons (uniqueFields_of_spec v h.1) (uniqueFieldsCh_of_spec rest h.2)
end

/- ---------- pigeonhole ---------- -/

theorem subset_of_nodup_length {α : Type} [DecidableEq α] : ∀ (l1 l2 : List α), l1.Nodup → (∀ x ∈ l1, x ∈ l2) →
    l2.length ≤ l1.length → ∀ y ∈ l2, y ∈ l1
  | [], l2, _, _, hlen, y, hy => by
    cases l2 with
    | nil => cases hy
    | cons _ _ => simp at hlen
  | x :: xs, l2, hnd, hsub, hlen, y, hy => by
    rw [List.nodup_cons] at hnd
    have hx : x ∈ l2 := hsub x (List.mem_cons_self ..)
    by_cases hyx : y = x
    · subst hyx
      exact List.mem_cons_self ..
    · have hsub' : ∀ z ∈ xs, z ∈ l2.erase x := fun z hz =>
        (List.mem_erase_of_ne (fun (e : z = x) => hnd.1 (by rw [← e]; exact hz))).2 (hsub z (List.mem_cons_of_mem _ hz))
      have hlen' : (l2.erase x).length ≤ xs.length := by
        rw [List.length_erase_of_mem hx]
        simp only [List.length_cons] at hlen
        omega
      have := subset_of_nodup_length xs (l2.erase x) hnd.2 hsub' hlen' y ((List.mem_erase_of_ne hyx).2 hy)
      exact List.mem_cons_of_mem _ this

/- ---------- children ---------- -/

theorem findChild_some_mem {n : Name} {v : Value} : ∀ {c : Children}, findChild c n = some v → InChildren n v c
  | .cons n' v' p rest, h => by
    simp only [findChild] at h
    split at h
    · rename_i he
      have e : n' = n := by simpa using he
      injection h with h
      subst e h
      exact .head
    · exact .tail (findChild_some_mem h)

theorem mem_childNames {n : Name} : ∀ {c : Children}, n ∈ childNames c → ∃ v, InChildren n v c
  | .cons n' v' p rest, h => by
    simp only [childNames, List.mem_cons] at h
    rcases h with rfl | h
    · exact ⟨v', .head⟩
    · obtain ⟨v, hv⟩ := mem_childNames h
      exact ⟨v, .tail hv⟩

theorem length_childNames : ∀ c : Children, (childNames c).length = c.length
  | .nil => rfl
  | .cons _ _ _ rest => by simp [childNames, Children.length, length_childNames rest]

theorem fieldsSame_of_all {all : Children} : ∀ (r : Children),
    (∀ n v, InChildren n v r → ∃ v', findChild all n = some v' ∧ ValSame v v') → FieldsSame r all
  | .nil, _ => .nil
  | .cons n v p rest, h => by
    obtain ⟨v', h1, h2⟩ := h n v .head
    exact .cons h1 h2 (fieldsSame_of_all rest (fun n' v'' hin => h n' v'' (.tail hin)))

theorem fieldsSame_all {all : Children} : ∀ {r : Children}, FieldsSame r all →
    ∀ n v, InChildren n v r → ∃ v', findChild all n = some v' ∧ ValSame v v'
  | _, .cons h1 h2 h3, n, v, hin => by
    cases hin with
    | head => exact ⟨_, h1, h2⟩
    | tail h => exact fieldsSame_all h3 n v h

theorem uniqueFieldsCh_mem : ∀ {c : Children}, UniqueFieldsCh c → ∀ {n v}, InChildren n v c → UniqueFields v
  | _, .cons hv hr, _, _, hin => by
    cases hin with
    | head => exact hv
    | tail h => exact uniqueFieldsCh_mem hr h

mutual
  theorem ValSame_symm : ∀ (v1 : Value), UniqueFields v1 → ∀ v2, UniqueFields v2 → ValSame v1 v2 → ValSame v2 v1
    | .mk k r c1 p1, h1, v2, h2, hs => by
      cases hs with
      | @object _ _ c2 _ p2 hlen hf =>
        cases h1 with
        | mk hk1 hc1 =>
          cases h2 with
          | mk hk2 hc2 =>
            have nd1 := hk1 rfl
            have nd2 := hk2 rfl
            have hall := fieldsSame_all hf
            have hsub : ∀ x ∈ childNames c1, x ∈ childNames c2 := by
              intro x hx
              obtain ⟨v, hv⟩ := mem_childNames hx
              obtain ⟨v', hv', _⟩ := hall x v hv
              exact inChildren_name (findChild_some_mem hv')
            have hback := subset_of_nodup_length (childNames c1) (childNames c2) nd1 hsub
              (by rw [length_childNames, length_childNames, hlen]; exact Nat.le_refl _)
            refine .object hlen.symm (fieldsSame_of_all c2 (fun n v2' hin2 => ?_))
            obtain ⟨v1', hin1⟩ := mem_childNames (hback n (inChildren_name hin2))
            obtain ⟨v2'', hf2, hsame⟩ := hall n v1' hin1
            have e : v2'' = v2' := by
              have := findChild_of_nodup nd2 hin2
              rw [this] at hf2
              injection hf2 with hf2
              exact hf2.symm
            subst e
            exact ⟨v1', findChild_of_nodup nd1 hin1,
              FieldsSwap c1 hc1 n v1' hin1 v2'' (uniqueFieldsCh_mem hc2 hin2) hsame⟩
      | @other _ _ _ c2 _ p2 hk hi =>
        cases h1 with
        | mk hk1 hc1 =>
          cases h2 with
          | mk hk2 hc2 => exact .other hk (ItemsSame_symm c1 hc1 c2 hc2 hi)
  theorem FieldsSwap : ∀ (r : Children), UniqueFieldsCh r → ∀ n v1, InChildren n v1 r → ∀ v2, UniqueFields v2 →
      ValSame v1 v2 → ValSame v2 v1
    | .nil, _, _, _, hin, _, _, _ => by cases hin
    | .cons n' v' p rest, hu, n, v1, hin, v2, h2, hs => by
      cases hu with
      | cons hv hr =>
        cases hin with
        | head => exact ValSame_symm v' hv v2 h2 hs
        | tail h => exact FieldsSwap rest hr n v1 h v2 h2 hs
  theorem ItemsSame_symm : ∀ (c1 : Children), UniqueFieldsCh c1 → ∀ c2, UniqueFieldsCh c2 → ItemsSame c1 c2 → ItemsSame c2 c1
    | .nil, _, _, _, hs => by cases hs; exact .nil
    | .cons n v p rest, hu, c2, hu2, hs => by
      cases hs with
      | cons hv hr =>
        cases hu with
        | cons huv hur =>
          cases hu2 with
          | cons huv2 hur2 => exact .cons (ValSame_symm v huv _ huv2 hv) (ItemsSame_symm rest hur _ hur2 hr)
end

/- ---------- arguments ---------- -/

theorem nodup_map_inj {α β : Type} {f : α → β} : ∀ {l : List α}, (l.map f).Nodup → ∀ {x y : α}, x ∈ l → y ∈ l →
    f x = f y → x = y
  | z :: rest, h, x, y, hx, hy, e => by
    simp only [List.map_cons, List.nodup_cons, List.mem_map, not_exists, not_and] at h
    rcases List.mem_cons.1 hx with hx1 | hx1
    · rcases List.mem_cons.1 hy with hy1 | hy1
      · rw [hx1, hy1]
      · rw [hx1] at e
        exact absurd e.symm (h.1 y hy1)
    · rcases List.mem_cons.1 hy with hy1 | hy1
      · rw [hy1] at e
        exact absurd e (h.1 x hx1)
      · exact nodup_map_inj h.2 hx1 hy1 e

theorem ArgsSame_symm {as bs : List Argument} (na : (as.map (·.name)).Nodup) (nb : (bs.map (·.name)).Nodup)
    (ua : ∀ a ∈ as, UniqueFields a.value) (ub : ∀ b ∈ bs, UniqueFields b.value) (h : ArgsSame as bs) : ArgsSame bs as := by
  obtain ⟨hlen, hall⟩ := h
  refine ⟨hlen.symm, fun b hb => ?_⟩
  have hsub : ∀ x ∈ as.map (·.name), x ∈ bs.map (·.name) := by
    intro x hx
    obtain ⟨a, ha, rfl⟩ := List.mem_map.1 hx
    obtain ⟨b', hb', hn, _⟩ := hall a ha
    exact List.mem_map.2 ⟨b', hb', hn.symm⟩
  have hback := subset_of_nodup_length _ _ na hsub (by simp [hlen]) b.name (List.mem_map.2 ⟨b, hb, rfl⟩)
  obtain ⟨a, ha, hn⟩ := List.mem_map.1 hback
  obtain ⟨b', hb', hn', hs⟩ := hall a ha
  have e : b' = b := by
    -- unique names in `bs`
    have hnn : b'.name = b.name := by rw [← hn', hn]
    exact nodup_map_inj nb hb' hb hnn
  subst e
  exact ⟨a, ha, hn.symm, ValSame_symm _ (ua a ha) _ (ub b' hb') hs⟩


/- ---------- from the specification predicates ---------- -/

theorem field_args_site {s : Schema} {d : QueryDoc} {t : Spec.TSel} (ht : t ∈ Spec.docSels s d) {al nm : Name}
    {args : List Argument} {dirs : List Directive} {sub : Selections} {pos : Pos}
    (hs : t.sel = .field al nm args dirs sub pos) :
    ∃ site ∈ Spec.argSites s d, site.args = args := by
  refine ⟨⟨(t.parent.bind (Spec.fieldDefOn · nm)).map (·.args), args⟩, ?_, rfl⟩
  simp only [Spec.argSites, Spec.fieldArgSites, List.mem_append, List.mem_filterMap]
  exact Or.inl ⟨t, ht, by rw [hs]⟩

theorem field_args_unique {s : Schema} {d : QueryDoc} (h : Spec.inputObjectFieldUniqueness s d = true)
    {t : Spec.TSel} (ht : t ∈ Spec.docSels s d) {al nm : Name} {args : List Argument} {dirs : List Directive}
    {sub : Selections} {pos : Pos} (hs : t.sel = .field al nm args dirs sub pos) : ∀ a ∈ args, UniqueFields a.value := by
  intro a ha
  obtain ⟨site, hsite, hargs⟩ := field_args_site ht hs
  unfold Spec.inputObjectFieldUniqueness at h
  simp only [List.all_eq_true] at h
  apply uniqueFields_of_spec
  apply h
  simp only [Spec.allValues, List.mem_append, List.mem_flatMap, List.mem_map]
  exact Or.inl ⟨site, hsite, a, by rw [hargs]; exact ha, rfl⟩

theorem field_args_nodup {s : Schema} {d : QueryDoc} (h : Spec.argumentUniqueness s d = true)
    {t : Spec.TSel} (ht : t ∈ Spec.docSels s d) {al nm : Name} {args : List Argument} {dirs : List Directive}
    {sub : Selections} {pos : Pos} (hs : t.sel = .field al nm args dirs sub pos) : (args.map (·.name)).Nodup := by
  obtain ⟨site, hsite, hargs⟩ := field_args_site ht hs
  unfold Spec.argumentUniqueness at h
  simp only [List.all_eq_true] at h
  have := h site hsite
  rw [hargs] at this
  exact (distinct_iff_nodup _).1 this

/-- UniqueInputFieldNames gives `ArgsRefl` -/
theorem argsRefl_of_spec {s : Schema} {d : QueryDoc} (h : Spec.inputObjectFieldUniqueness s d = true) : ArgsRefl s d := by
  intro t ht al nm args dirs sub pos hs
  exact (sameArguments_iff _ _).2 (ArgsSame_refl args (field_args_unique h ht hs))

/-- UniqueArgumentNames and UniqueInputFieldNames give `ArgsSym` -/
theorem argsSym_of_spec {s : Schema} {d : QueryDoc} (h1 : Spec.argumentUniqueness s d = true)
    (h2 : Spec.inputObjectFieldUniqueness s d = true) : ArgsSym s d := by
  intro t ht t' ht' al nm args dirs sub pos al' nm' args' dirs' sub' pos' hs hs'
  have na := field_args_nodup h1 ht hs
  have nb := field_args_nodup h1 ht' hs'
  have ua := field_args_unique h2 ht hs
  have ub := field_args_unique h2 ht' hs'
  apply Bool.eq_iff_iff.2
  rw [sameArguments_iff, sameArguments_iff]
  exact ⟨ArgsSame_symm na nb ua ub, ArgsSame_symm nb na ub ua⟩

end Gql.Validate
